/-
Layer 1 — `RawTableInner` / `RawTable<T>` (`src/raw/mod.rs`), function by function.

* every raw memory access is *checked*: out-of-range control byte, access to a slot that does not
  hold what the code assumes, `unwrap_unchecked` on `None`, arithmetic underflow ⇒ `Res.fault`;
* user callbacks (`Hash`, `Eq`, `Clone`, predicates, `Drop`) and the allocator are oracles in `Env`,
  indexed by call number; `none` = the callback panics;
* unwinding is modelled where the source has a scope guard or an ordering that matters: the
  state left behind is carried by `Res.panic`.
-/
import Hb.Model.Group
namespace Hb

structure Elem where
  k : Nat      -- key (what `Hash`/`Eq` look at)
  kid : Nat    -- identity of the key object
  vid : Nat    -- identity of the value object
  v : Nat      -- value payload
deriving DecidableEq, Repr, Inhabited

structure Cfg where
  ops : GroupOps
  bits : Nat := 64
  size : Nat := 8           -- `size_of::<T>()`
  align : Nat := 8          -- `align_of::<T>()`
  needsDrop : Bool := true  -- `mem::needs_drop::<T>()`
  /-- F1 repair present: the unwind guard of `rehash_in_place` resets pending buckets also for
      element types without drop glue. -/
  guardAlways : Bool := true
  /-- F2 repair present: `get_many_mut` detects duplicates by bucket identity also for zero-sized
      element types (0.15.2 compared element addresses, which coincide for all zero-sized elements). -/
  zstDupFixed : Bool := true

def Cfg.W (c : Cfg) : Nat := c.ops.W

structure Raw where
  mask : Nat
  ctrl : Array Nat
  slots : Array (Option Elem)
  items : Nat
  gl : Nat
  alloc : Bool      -- `false` = the static empty singleton
deriving Repr

/-- `RawTableInner::NEW`. -/
def Raw.new (W : Nat) : Raw :=
  { mask := 0, ctrl := Array.replicate W EMPTY, slots := #[], items := 0, gl := 0, alloc := false }

def Raw.buckets (t : Raw) : Nat := t.mask + 1
def Raw.isEmptySingleton (t : Raw) : Bool := t.mask == 0
def Raw.capacity (t : Raw) : Nat := t.items + t.gl

inductive Ev where
  | dropK (kid : Nat)
  | dropV (vid : Nat)
  | alloc (size align : Nat)
  | free (size align : Nat)
deriving DecidableEq, Repr

structure Env where
  /-- `Hash`: call number, key ↦ hash (`none` = panic). -/
  hash : Nat → Nat → Option Nat
  /-- `Eq`/`Equivalent`/closure: call number, probe, stored element. -/
  eq : Nat → Nat → Elem → Option Bool
  /-- `Clone`: call number, element ↦ fresh `(kid, vid)`. -/
  clone : Nat → Elem → Option (Nat × Nat)
  /-- predicate / closure: call number, element ↦ (answer, new payload). -/
  pred : Nat → Elem → Option (Bool × Nat)
  /-- allocator: does the `j`-th request succeed? -/
  allocOk : Nat → Bool
  /-- `Drop`: does dropping this element (as the `j`-th drop) panic? -/
  dropPanics : Nat → Elem → Bool

structure World where
  t : Raw
  hc : Nat := 0
  ec : Nat := 0
  cc : Nat := 0
  pc : Nat := 0
  ac : Nat := 0
  dc : Nat := 0
  log : List Ev := []     -- newest first

inductive Res (α : Type) where
  | ok (a : α)
  | panic (cls : String) (w : World)    -- a callback panicked; `w` is what unwinding left behind
  | abort                               -- `handle_alloc_error`
  | fault (f : String)                  -- undefined behaviour in the real code

inductive TryReserveError where
  | capacityOverflow
  | allocError (size align : Nat)
deriving DecidableEq, Repr


/-! ### destructors -/

/-- Drop of a key object while *not* unwinding: `(panicked, world)`. Types without drop glue have no
    destructor call at all. -/
def dropKey (cfg : Cfg) (env : Env) (kid : Nat) (w : World) : Bool × World :=
  if cfg.needsDrop then
    (env.dropPanics w.dc ⟨0, kid, 0, 0⟩, { w with dc := w.dc + 1, log := .dropK kid :: w.log })
  else (false, w)

/-- Drop of a whole element `(K, V)`: one destructor call for the key (may panic), the value is
    dropped regardless. -/
def dropElem (cfg : Cfg) (env : Env) (e : Elem) (w : World) : Bool × World :=
  if cfg.needsDrop then
    (env.dropPanics w.dc e, { w with dc := w.dc + 1, log := .dropV e.vid :: .dropK e.kid :: w.log })
  else (false, w)

/-- Drops performed while already unwinding (a second panic is impossible in the harness). -/
def World.dropKeyQuiet (cfg : Cfg) (w : World) (kid : Nat) : World :=
  if cfg.needsDrop then { w with dc := w.dc + 1, log := .dropK kid :: w.log } else w

def World.dropElemQuiet (cfg : Cfg) (w : World) (e : Elem) : World :=
  if cfg.needsDrop then { w with dc := w.dc + 1, log := .dropV e.vid :: .dropK e.kid :: w.log } else w

/-! ### checked memory -/

def ctrlRd (t : Raw) (i : Nat) : Except String Nat :=
  match t.ctrl[i]? with
  | some c => .ok c
  | none => .error s!"ctrl read {i} of {t.ctrl.size}"

def ctrlWr (t : Raw) (i c : Nat) : Except String Raw :=
  if !t.alloc then .error "write to static singleton"
  else if i < t.ctrl.size then .ok { t with ctrl := t.ctrl.setIfInBounds i c }
  else .error s!"ctrl write {i} of {t.ctrl.size}"

/-- `Group::load(self.ctrl(pos))`: `W` bytes starting at `pos`. -/
def loadGroup (W : Nat) (t : Raw) (pos : Nat) : Except String (List Nat) :=
  if pos + W ≤ t.ctrl.size then .ok ((List.range W).map fun j => t.ctrl.getD (pos + j) 0)
  else .error s!"group load {pos}+{W} of {t.ctrl.size}"

/-- Read a slot that must hold a live element (`bucket(i).as_ref()` / `read()`). -/
def slotGet (t : Raw) (i : Nat) : Except String Elem :=
  match t.slots[i]? with
  | some (some e) => .ok e
  | some none => .error s!"read of dead slot {i}"
  | none => .error s!"slot {i} of {t.slots.size}"

/-- `bucket(i).write(e)`: the slot must be inside the table and not hold a live element. -/
def slotPut (t : Raw) (i : Nat) (e : Elem) : Except String Raw :=
  match t.slots[i]? with
  | some none => .ok { t with slots := t.slots.setIfInBounds i (some e) }
  | some (some _) => .error s!"overwrite of live slot {i}"
  | none => .error s!"slot {i} of {t.slots.size}"

/-- Forget the element in slot `i` (moved out / dropped). -/
def slotTake (t : Raw) (i : Nat) : Except String (Elem × Raw) :=
  match t.slots[i]? with
  | some (some e) => .ok (e, { t with slots := t.slots.setIfInBounds i none })
  | some none => .error s!"take from dead slot {i}"
  | none => .error s!"slot {i} of {t.slots.size}"

/-! ### control-byte writes -/

/-- `set_ctrl` (raw/mod.rs:2450): the byte and its mirror. -/
def setCtrl (cfg : Cfg) (t : Raw) (i c : Nat) : Except String Raw :=
  let i2 := index2 cfg.bits cfg.W t.mask i
  match ctrlWr t i c with
  | .error f => .error f
  | .ok t1 => ctrlWr t1 i2 c

def setCtrlHash (cfg : Cfg) (t : Raw) (i hash : Nat) : Except String Raw :=
  setCtrl cfg t i (tagFull cfg.bits hash)

/-! ### insert-slot search -/

/-- `fix_insert_slot` (raw/mod.rs:1594). -/
def fixInsertSlot (cfg : Cfg) (t : Raw) (index : Nat) : Except String Nat :=
  match ctrlRd t index with
  | .error f => .error f
  | .ok c =>
    if isFull c then
      match loadGroup cfg.W t 0 with
      | .error f => .error f
      | .ok g =>
        match (cfg.ops.matchSpecial g).head? with
        | none => .error "unwrap_unchecked(None) in fix_insert_slot"
        | some b => .ok b
    else .ok index

/-- `find_insert_slot_in_group` (raw/mod.rs:1631). -/
def findInsertSlotInGroup (cfg : Cfg) (t : Raw) (g : List Nat) (pos : Nat) : Option Nat :=
  match (cfg.ops.matchSpecial g).head? with
  | some bit => some ((pos + bit) &&& t.mask)
  | none => none

/-- Probe loop of `find_insert_slot` (raw/mod.rs:1836). Fuel exhaustion = the real loop would run
    past the end of the probe sequence (debug assertion / non-termination). -/
def findInsertSlotLoop (cfg : Cfg) (t : Raw) : Nat → ProbeSeq → Except String Nat
  | 0, _ => .error "probe sequence exhausted in find_insert_slot"
  | fuel + 1, p =>
    match loadGroup cfg.W t p.pos with
    | .error f => .error f
    | .ok g =>
      match findInsertSlotInGroup cfg t g p.pos with
      | some idx => fixInsertSlot cfg t idx
      | none => findInsertSlotLoop cfg t fuel (p.moveNext cfg.W t.mask)

def probeFuel (t : Raw) : Nat := t.mask + 2

def findInsertSlot (cfg : Cfg) (t : Raw) (hash : Nat) : Except String Nat :=
  findInsertSlotLoop cfg t (probeFuel t) (probeSeq cfg.bits t.mask hash)

/-- `prepare_insert_slot` (raw/mod.rs:1793): `(index, old_ctrl, table)`. -/
def prepareInsertSlot (cfg : Cfg) (t : Raw) (hash : Nat) : Except String (Nat × Nat × Raw) :=
  match findInsertSlot cfg t hash with
  | .error f => .error f
  | .ok idx =>
    match ctrlRd t idx with
    | .error f => .error f
    | .ok old =>
      match setCtrlHash cfg t idx hash with
      | .error f => .error f
      | .ok t' => .ok (idx, old, t')

/-- `record_item_insert_at` (raw/mod.rs:2342). -/
def recordItemInsertAt (cfg : Cfg) (t : Raw) (index old hash : Nat) : Except String Raw :=
  let dec := if specialIsEmpty old then 1 else 0
  if t.gl < dec then .error "growth_left underflow"
  else
    match setCtrlHash cfg { t with gl := t.gl - dec } index hash with
    | .error f => .error f
    | .ok t' => .ok { t' with items := t'.items + 1 }

/-- `RawTable::insert_in_slot` (raw/mod.rs:1176). -/
def insertInSlot (cfg : Cfg) (t : Raw) (hash slot : Nat) (e : Elem) : Except String Raw :=
  match ctrlRd t slot with
  | .error f => .error f
  | .ok old =>
    match recordItemInsertAt cfg t slot old hash with
    | .error f => .error f
    | .ok t' => slotPut t' slot e

/-- `RawTableInner::erase` (raw/mod.rs:3093). -/
def erase (cfg : Cfg) (t : Raw) (index : Nat) : Except String Raw :=
  let ib := indexBefore cfg.bits cfg.W t.mask index
  match loadGroup cfg.W t ib, loadGroup cfg.W t index with
  | .error f, _ => .error f
  | _, .error f => .error f
  | .ok gb, .ok ga =>
    if t.items = 0 then .error "items underflow in erase"
    else if cfg.ops.emptyLeadingZeros gb + cfg.ops.emptyTrailingZeros ga ≥ cfg.W then
      match setCtrl cfg t index DELETED with
      | .error f => .error f
      | .ok t' => .ok { t' with items := t'.items - 1 }
    else
      match setCtrl cfg { t with gl := t.gl + 1 } index EMPTY with
      | .error f => .error f
      | .ok t' => .ok { t' with items := t'.items - 1 }

/-- `RawTable::remove` (raw/mod.rs:822): erase, then move the element out. -/
def removeAt (cfg : Cfg) (t : Raw) (index : Nat) : Except String (Elem × Raw) :=
  match ctrlRd t index with
  | .error f => .error f
  | .ok c =>
    if !isFull c then .error s!"erase of non-full bucket {index}"
    else
      match erase cfg t index with
      | .error f => .error f
      | .ok t' => slotTake t' index

/-- `clear_no_drop` (raw/mod.rs:3051). Slots are forgotten by the caller. -/
def clearNoDrop (t : Raw) : Raw :=
  let ctrl := if t.isEmptySingleton then t.ctrl else Array.replicate t.ctrl.size EMPTY
  { t with ctrl := ctrl, items := 0, gl := bucketMaskToCapacity t.mask }

/-! ### look-up (`find_inner`, raw/mod.rs:1893) -/

def World.hashCall (env : Env) (w : World) (key : Nat) : Option Nat × World :=
  (env.hash w.hc key, { w with hc := w.hc + 1 })

/-- `for bit in group.match_tag(tag)`: call `eq` on each candidate in lane order. -/
def scanTag (env : Env) (q : Nat) (pos : Nat) : List Nat → World → Res (Option Nat × World)
  | [], w => .ok (none, w)
  | bit :: rest, w =>
    let idx := (pos + bit) &&& w.t.mask
    match slotGet w.t idx with
    | .error f => .fault f
    | .ok e =>
      let w' := { w with ec := w.ec + 1 }
      match env.eq w.ec q e with
      | none => .panic "eq" w'
      | some true => .ok (some idx, w')
      | some false => scanTag env q pos rest w'

def findLoop (cfg : Cfg) (env : Env) (q tag : Nat) : Nat → ProbeSeq → World → Res (Option Nat × World)
  | 0, _, _ => .fault "probe sequence exhausted in find_inner"
  | fuel + 1, p, w =>
    match loadGroup cfg.W w.t p.pos with
    | .error f => .fault f
    | .ok g =>
      match scanTag env q p.pos (cfg.ops.matchTag g tag) w with
      | .ok (some idx, w') => .ok (some idx, w')
      | .ok (none, w') =>
        if (cfg.ops.matchEmpty g).isEmpty then
          findLoop cfg env q tag fuel (p.moveNext cfg.W w'.t.mask) w'
        else .ok (none, w')
      | .panic c w' => .panic c w'
      | .abort => .abort
      | .fault f => .fault f

/-- `RawTable::find(hash, eq)`. -/
def find (cfg : Cfg) (env : Env) (hash q : Nat) (w : World) : Res (Option Nat × World) :=
  findLoop cfg env q (tagFull cfg.bits hash) (probeFuel w.t) (probeSeq cfg.bits w.t.mask hash) w

/-! ### growth -/

/-- Allocator request `j = w.ac`. -/
def doAlloc (env : Env) (w : World) (l : Layout) : Option World :=
  if env.allocOk w.ac then some { w with ac := w.ac + 1, log := .alloc l.size l.align :: w.log }
  else none

def ctrlAlignOf (cfg : Cfg) : Nat := (tableLayoutNew cfg.W cfg.size cfg.align).2

/-- `free_buckets` (raw/mod.rs:2974) of a non-singleton table with `mask`. -/
def freeBuckets (cfg : Cfg) (mask : Nat) (w : World) : Res World :=
  match calculateLayoutFor cfg.bits cfg.W cfg.size (ctrlAlignOf cfg) (mask + 1) with
  | none => .fault "unreachable_unchecked in allocation_info"
  | some l => .ok { w with log := .free l.size l.align :: w.log }

inductive Fallibility where
  | fallible | infallible
deriving DecidableEq

/-- Result of an allocation attempt that may report a `TryReserveError`. -/
abbrev TR (α : Type) := Res (Except TryReserveError α × World)

def capacityOverflow {α} (fb : Fallibility) (w : World) : TR α :=
  match fb with
  | .fallible => .ok (.error .capacityOverflow, w)
  | .infallible => .panic "capacity" w

def allocErr {α} (fb : Fallibility) (l : Layout) (w : World) : TR α :=
  match fb with
  | .fallible => .ok (.error (.allocError l.size l.align), w)
  | .infallible => .abort

/-- `new_uninitialized` + `fill_empty` (raw/mod.rs:1459, :1519): a fresh table with `buckets`. -/
def newTable (cfg : Cfg) (env : Env) (buckets : Nat) (fb : Fallibility) (w : World) : TR Raw :=
  match calculateLayoutFor cfg.bits cfg.W cfg.size (ctrlAlignOf cfg) buckets with
  | none => capacityOverflow fb w
  | some l =>
    match doAlloc env w l with
    | none => allocErr fb l { w with ac := w.ac + 1 }
    | some w' =>
      .ok (.ok { mask := buckets - 1, ctrl := Array.replicate (buckets + cfg.W) EMPTY,
                 slots := Array.replicate buckets none, items := 0,
                 gl := bucketMaskToCapacity (buckets - 1), alloc := true }, w')

/-- `fallible_with_capacity` (raw/mod.rs:1496). -/
def fallibleWithCapacity (cfg : Cfg) (env : Env) (capacity : Nat) (fb : Fallibility) (w : World) :
    TR Raw :=
  if capacity = 0 then .ok (.ok (Raw.new cfg.W), w)
  else
    match capacityToBuckets cfg.bits cfg.W cfg.size capacity with
    | none => capacityOverflow fb w
    | some b => newTable cfg env b fb w

/-- Walk of `FullBucketsIndices` / `RawIter` over aligned groups: the indices of the first `items`
    full buckets, ascending, by the same group-at-a-time walk (fault when it leaves the bytes). -/
def fullWalk (cfg : Cfg) (t : Raw) : Nat → Nat → Nat → List Nat → Except String (List Nat)
  | _, _, 0, acc => .ok acc.reverse
  | 0, _, _ + 1, _ => .error "iterator walked past the control bytes"
  | fuel + 1, base, items, acc =>
    match loadGroup cfg.W t base with
    | .error f => .error f
    | .ok g =>
      let lanes := (cfg.ops.matchFull g).map (base + ·)
      let take := lanes.take items
      fullWalk cfg t fuel (base + cfg.W) (items - take.length) (take.reverse ++ acc)

/-- Full bucket indices as seen by an iterator created now with `items` to go. -/
def fullIndices (cfg : Cfg) (t : Raw) (items : Nat) : Except String (List Nat) :=
  fullWalk cfg t (t.ctrl.size + 1) 0 items []

/-- Body of the loop in `resize_inner` (raw/mod.rs:2767): move every full bucket of `old` into
    `new`. On a hasher panic the guard of `prepare_resize` frees `new`; `old` is untouched. -/
def resizeLoop (cfg : Cfg) (env : Env) (old : Raw) : List Nat → Raw → World → Res (Raw × World)
  | [], new, w => .ok (new, w)
  | i :: rest, new, w =>
    match slotGet old i with
    | .error f => .fault f
    | .ok e =>
      let (h, w1) := w.hashCall env e.k
      match h with
      | none =>
        if new.isEmptySingleton then .panic "hash" w1
        else
          match freeBuckets cfg new.mask w1 with
          | .ok w2 => .panic "hash" w2
          | .panic c w2 => .panic c w2
          | .abort => .abort
          | .fault f => .fault f
      | some hash =>
        match prepareInsertSlot cfg new hash with
        | .error f => .fault f
        | .ok (ni, _, new1) =>
          match slotPut new1 ni e with
          | .error f => .fault f
          | .ok new2 => resizeLoop cfg env old rest new2 w1

/-- `resize_inner`. The world's table is the old table throughout; it is replaced at the end. -/
def resizeInner (cfg : Cfg) (env : Env) (capacity : Nat) (fb : Fallibility) (w : World) : TR Unit :=
  match fallibleWithCapacity cfg env capacity fb w with
  | .panic c w' => .panic c w'
  | .abort => .abort
  | .fault f => .fault f
  | .ok (.error e, w') => .ok (.error e, w')
  | .ok (.ok new, w1) =>
    let old := w1.t
    match fullIndices cfg old old.items with
    | .error f => .fault f
    | .ok idxs =>
      match resizeLoop cfg env old idxs new w1 with
      | .panic c w' => .panic c w'
      | .abort => .abort
      | .fault f => .fault f
      | .ok (new1, w2) =>
        if new1.gl < old.items then .fault "growth_left underflow in resize_inner"
        else
          let new2 := { new1 with gl := new1.gl - old.items, items := old.items }
          let w3 := { w2 with t := new2 }
          if old.isEmptySingleton then .ok (.ok (), w3)
          else
            match freeBuckets cfg old.mask w3 with
            | .ok w4 => .ok (.ok (), w4)
            | .panic c w' => .panic c w'
            | .abort => .abort
            | .fault f => .fault f

/-- `prepare_rehash_in_place` (raw/mod.rs:1967). -/
def prepareRehashInPlace (cfg : Cfg) (t : Raw) : Except String Raw :=
  let W := cfg.W
  let n := t.buckets
  -- bulk convert, one aligned group at a time
  let rec conv (fuel i : Nat) (t : Raw) : Except String Raw :=
    match fuel with
    | 0 => .ok t
    | fuel + 1 =>
      if i < n then
        match loadGroup W t i with
        | .error f => .error f
        | .ok g =>
          let g' := cfg.ops.convert g
          if !t.alloc then .error "write to static singleton"
          else
            let ctrl := (List.range W).foldl (fun c j => c.setIfInBounds (i + j) (g'.getD j 0)) t.ctrl
            conv fuel (i + W) { t with ctrl := ctrl }
      else .ok t
  match conv (n + 1) 0 t with
  | .error f => .error f
  | .ok t1 =>
    if n < W then
      if W + n ≤ t1.ctrl.size then
        .ok { t1 with ctrl := (List.range n).foldl (fun c j => c.setIfInBounds (W + j) (t1.ctrl.getD j 0)) t1.ctrl }
      else .error "mirror copy out of range"
    else
      if n + W ≤ t1.ctrl.size then
        .ok { t1 with ctrl := (List.range W).foldl (fun c j => c.setIfInBounds (n + j) (t1.ctrl.getD j 0)) t1.ctrl }
      else .error "mirror copy out of range"

/-- Unwind guard of `rehash_in_place` (raw/mod.rs:2876): drop every element whose bucket is still
    `DELETED`, mark it EMPTY, then recompute `growth_left`. In 0.15.2 the whole loop is under
    `if let Some(drop)`, i.e. it is skipped for element types without drop glue
    (`cfg.guardAlways = false` models exactly that). -/
def rehashGuard (cfg : Cfg) (w : World) : Res World :=
  let run := cfg.needsDrop || cfg.guardAlways
  let rec go (i : Nat) (fuel : Nat) (w : World) : Res World :=
    match fuel with
    | 0 => .ok w
    | fuel + 1 =>
      match ctrlRd w.t i with
      | .error f => .fault f
      | .ok c =>
        if c = DELETED then
          match setCtrl cfg w.t i EMPTY with
          | .error f => .fault f
          | .ok t1 =>
            match slotTake t1 i with
            | .error f => .fault f
            | .ok (e, t2) =>
              if t2.items = 0 then .fault "items underflow in rehash guard"
              else
                go (i + 1) fuel (({ w with t := { t2 with items := t2.items - 1 } } : World).dropElemQuiet cfg e)
        else go (i + 1) fuel w
  let fin (w : World) : Res World :=
    let cap := bucketMaskToCapacity w.t.mask
    if cap < w.t.items then .fault "growth_left underflow in rehash guard"
    else .ok { w with t := { w.t with gl := cap - w.t.items } }
  if run then
    match go 0 w.t.buckets w with
    | .ok w' => fin w'
    | r => r
  else fin w

/-- Inner `loop` of `rehash_in_place` for bucket `i` (raw/mod.rs:2900). -/
def rehashInner (cfg : Cfg) (env : Env) (i : Nat) : Nat → World → Res World
  | 0, _ => .fault "rehash_in_place inner loop does not terminate"
  | fuel + 1, w =>
    match slotGet w.t i with
    | .error f => .fault f
    | .ok e =>
      let (h, w1) := w.hashCall env e.k
      match h with
      | none =>
        match rehashGuard cfg w1 with
        | .ok w2 => .panic "hash" w2
        | r => r
      | some hash =>
        match findInsertSlot cfg w1.t hash with
        | .error f => .fault f
        | .ok ni =>
          if isInSameGroup cfg.bits cfg.W w1.t.mask i ni hash then
            match setCtrlHash cfg w1.t i hash with
            | .error f => .fault f
            | .ok t' => .ok { w1 with t := t' }
          else
            match ctrlRd w1.t ni with
            | .error f => .fault f
            | .ok prev =>
              match setCtrlHash cfg w1.t ni hash with
              | .error f => .fault f
              | .ok t1 =>
                if prev = EMPTY then
                  match setCtrl cfg t1 i EMPTY with
                  | .error f => .fault f
                  | .ok t2 =>
                    -- copy_nonoverlapping(i_p, new_i_p): destination must not hold a live element
                    match slotTake t2 i with
                    | .error f => .fault f
                    | .ok (e', t3) =>
                      match slotPut t3 ni e' with
                      | .error f => .fault f
                      | .ok t4 => .ok { w1 with t := t4 }
                else
                  -- swap_nonoverlapping(i_p, new_i_p): both must hold elements
                  match slotGet t1 ni, slotGet t1 i with
                  | .error f, _ => .fault f
                  | _, .error f => .fault f
                  | .ok en, .ok ei =>
                    let t2 := { t1 with slots := (t1.slots.setIfInBounds i (some en)).setIfInBounds ni (some ei) }
                    rehashInner cfg env i fuel { w1 with t := t2 }

/-- Outer loop of `rehash_in_place`. -/
def rehashOuter (cfg : Cfg) (env : Env) : Nat → Nat → World → Res World
  | 0, _, w => .ok w
  | fuel + 1, i, w =>
    match ctrlRd w.t i with
    | .error f => .fault f
    | .ok c =>
      if c = DELETED then
        match rehashInner cfg env i (w.t.buckets + 1) w with
        | .ok w' => rehashOuter cfg env fuel (i + 1) w'
        | r => r
      else rehashOuter cfg env fuel (i + 1) w

/-- `rehash_in_place` (raw/mod.rs:2864). -/
def rehashInPlace (cfg : Cfg) (env : Env) (w : World) : Res World :=
  match prepareRehashInPlace cfg w.t with
  | .error f => .fault f
  | .ok t1 =>
    match rehashOuter cfg env t1.buckets 0 { w with t := t1 } with
    | .ok w' =>
      let cap := bucketMaskToCapacity w'.t.mask
      if cap < w'.t.items then .fault "growth_left underflow in rehash_in_place"
      else .ok { w' with t := { w'.t with gl := cap - w'.t.items } }
    | r => r

/-- `reserve_rehash_inner` (raw/mod.rs:2625). -/
def reserveRehash (cfg : Cfg) (env : Env) (additional : Nat) (fb : Fallibility) (w : World) : TR Unit :=
  match checkedAdd cfg.bits w.t.items additional with
  | none => capacityOverflow fb w
  | some newItems =>
    let fullCap := bucketMaskToCapacity w.t.mask
    if newItems ≤ fullCap / 2 then
      match rehashInPlace cfg env w with
      | .ok w' => .ok (.ok (), w')
      | .panic c w' => .panic c w'
      | .abort => .abort
      | .fault f => .fault f
    else resizeInner cfg env (max newItems (fullCap + 1)) fb w

/-- `RawTable::reserve` (raw/mod.rs:933). -/
def reserve (cfg : Cfg) (env : Env) (additional : Nat) (w : World) : Res World :=
  if additional > w.t.gl then
    match reserveRehash cfg env additional .infallible w with
    | .ok (.ok (), w') => .ok w'
    | .ok (.error _, _) => .fault "unreachable_unchecked in reserve"
    | .panic c w' => .panic c w'
    | .abort => .abort
    | .fault f => .fault f
  else .ok w

/-- `RawTable::try_reserve` (raw/mod.rs:953). -/
def tryReserve (cfg : Cfg) (env : Env) (additional : Nat) (w : World) : TR Unit :=
  if additional > w.t.gl then reserveRehash cfg env additional .fallible w
  else .ok (.ok (), w)

/-! ### insertion -/

/-- `RawTable::insert` (raw/mod.rs:1052): returns the bucket index. -/
def rawInsert (cfg : Cfg) (env : Env) (hash : Nat) (e : Elem) (w : World) : Res (Nat × World) :=
  match findInsertSlot cfg w.t hash with
  | .error f => .fault f
  | .ok slot =>
    match ctrlRd w.t slot with
    | .error f => .fault f
    | .ok old =>
      let cont (slot : Nat) (w : World) : Res (Nat × World) :=
        match insertInSlot cfg w.t hash slot e with
        | .error f => .fault f
        | .ok t' => .ok (slot, { w with t := t' })
      if w.t.gl = 0 ∧ specialIsEmpty old then
        match reserve cfg env 1 w with
        | .ok w' =>
          match findInsertSlot cfg w'.t hash with
          | .error f => .fault f
          | .ok slot' => cont slot' w'
        | .panic c w' => .panic c w'
        | .abort => .abort
        | .fault f => .fault f
      else cont slot w

/-- `insert_no_grow` (raw/mod.rs:1093, feature `rustc-internal-api`). -/
def insertNoGrow (cfg : Cfg) (hash : Nat) (e : Elem) (t : Raw) : Except String (Nat × Raw) :=
  match prepareInsertSlot cfg t hash with
  | .error f => .error f
  | .ok (idx, old, t1) =>
    let dec := if specialIsEmpty old then 1 else 0
    if t1.gl < dec then .error "growth_left underflow in insert_no_grow"
    else
      match slotPut { t1 with gl := t1.gl - dec } idx e with
      | .error f => .error f
      | .ok t2 => .ok (idx, { t2 with items := t2.items + 1 })

/-- Probe loop of `find_or_find_insert_slot_inner` (raw/mod.rs:1679). -/
def fofisLoop (cfg : Cfg) (env : Env) (q tag : Nat) :
    Nat → ProbeSeq → Option Nat → World → Res (Except Nat Nat × World)
  | 0, _, _, _ => .fault "probe sequence exhausted in find_or_find_insert_slot_inner"
  | fuel + 1, p, ins, w =>
    match loadGroup cfg.W w.t p.pos with
    | .error f => .fault f
    | .ok g =>
      match scanTag env q p.pos (cfg.ops.matchTag g tag) w with
      | .ok (some idx, w') => .ok (.ok idx, w')
      | .ok (none, w') =>
        let ins' := match ins with
          | some s => some s
          | none => findInsertSlotInGroup cfg w'.t g p.pos
        if (cfg.ops.matchEmpty g).isEmpty then
          fofisLoop cfg env q tag fuel (p.moveNext cfg.W w'.t.mask) ins' w'
        else
          match ins' with
          | none => .fault "unwrap_unchecked(None) insert_slot"
          | some s =>
            match fixInsertSlot cfg w'.t s with
            | .error f => .fault f
            | .ok s' => .ok (.error s', w')
      | .panic c w' => .panic c w'
      | .abort => .abort
      | .fault f => .fault f

/-- `RawTable::find_or_find_insert_slot` (raw/mod.rs:1140): `reserve(1)` first, then search.
    `ok idx` = found, `error slot` = insert slot. -/
def findOrFindInsertSlot (cfg : Cfg) (env : Env) (hash q : Nat) (w : World) :
    Res (Except Nat Nat × World) :=
  match reserve cfg env 1 w with
  | .ok w1 =>
    fofisLoop cfg env q (tagFull cfg.bits hash) (probeFuel w1.t) (probeSeq cfg.bits w1.t.mask hash) none w1
  | .panic c w' => .panic c w'
  | .abort => .abort
  | .fault f => .fault f

/-! ### dropping -/

/-- `drop_elements` (raw/mod.rs:2094): drop every full bucket in iteration order. The slots are
    forgotten one by one; a panicking destructor stops the walk (remaining elements leak unless
    a guard says otherwise). Returns `(panicked, world)`. -/
def dropElementsLoop (cfg : Cfg) (env : Env) : List Nat → World → Res (Bool × World)
  | [], w => .ok (false, w)
  | i :: rest, w =>
    match slotTake w.t i with
    | .error f => .fault f
    | .ok (e, t') =>
      let (p, w') := dropElem cfg env e { w with t := t' }
      if p then .ok (true, w') else dropElementsLoop cfg env rest w'

def dropElements (cfg : Cfg) (env : Env) (w : World) : Res (Bool × World) :=
  if cfg.needsDrop ∧ w.t.items ≠ 0 then
    match fullIndices cfg w.t w.t.items with
    | .error f => .fault f
    | .ok idxs => dropElementsLoop cfg env idxs w
  else .ok (false, { w with t := { w.t with slots := Array.replicate w.t.slots.size none } })

/-- `RawTable::clear` (raw/mod.rs:850): guard runs `clear_no_drop` even if a destructor panics. -/
def clear (cfg : Cfg) (env : Env) (w : World) : Res World :=
  if w.t.items = 0 then .ok w
  else
    match dropElements cfg env w with
    | .ok (p, w') =>
      let t' := clearNoDrop { w'.t with slots := Array.replicate w'.t.slots.size none }
      if p then .panic "drop" { w' with t := t' } else .ok { w' with t := t' }
    | .panic c w' => .panic c w'
    | .abort => .abort
    | .fault f => .fault f

/-- `drop_inner_table` (raw/mod.rs:2155) applied to a table that has already been taken out of the
    collection (`old`): drop elements, free the block. The world's own table is untouched. -/
def dropInnerTable (cfg : Cfg) (env : Env) (old : Raw) (w : World) : Res World :=
  if old.isEmptySingleton then .ok w
  else
    let keep := w.t
    match dropElements cfg env { w with t := old } with
    | .ok (p, w') =>
      if p then .panic "drop" { w' with t := keep }      -- block leaked, as documented
      else
        match freeBuckets cfg old.mask { w' with t := keep } with
        | r => r
    | .panic c w' => .panic c { w' with t := keep }
    | .abort => .abort
    | .fault f => .fault f

/-- `RawTable::shrink_to` (raw/mod.rs:867). -/
def shrinkTo (cfg : Cfg) (env : Env) (minSize : Nat) (w : World) : Res World :=
  let minSize := max w.t.items minSize
  if minSize = 0 then
    let old := w.t
    dropInnerTable cfg env old { w with t := Raw.new cfg.W }
  else
    match capacityToBuckets cfg.bits cfg.W cfg.size minSize with
    | none => .ok w
    | some minBuckets =>
      if minBuckets < w.t.buckets then
        if w.t.items = 0 then
          match fallibleWithCapacity cfg env minSize .infallible w with
          | .ok (.ok new, w1) =>
            let old := w1.t
            dropInnerTable cfg env old { w1 with t := new }
          | .ok (.error _, _) => .fault "unreachable_unchecked in with_capacity"
          | .panic c w' => .panic c w'
          | .abort => .abort
          | .fault f => .fault f
        else
          match resizeInner cfg env minSize .infallible w with
          | .ok (.ok (), w') => .ok w'
          | .ok (.error _, _) => .fault "unreachable_unchecked in shrink_to"
          | .panic c w' => .panic c w'
          | .abort => .abort
          | .fault f => .fault f
      else .ok w

/-- `RawTable::with_capacity_in`. -/
def withCapacity (cfg : Cfg) (env : Env) (capacity : Nat) (w : World) : Res World :=
  match fallibleWithCapacity cfg env capacity .infallible w with
  | .ok (.ok new, w1) => .ok { w1 with t := new }
  | .ok (.error _, _) => .fault "unreachable_unchecked in with_capacity"
  | .panic c w' => .panic c w'
  | .abort => .abort
  | .fault f => .fault f

/-- `allocation_size` (raw/mod.rs:734). -/
def allocationSize (cfg : Cfg) (t : Raw) : Except String Nat :=
  if t.isEmptySingleton then .ok 0
  else
    match calculateLayoutFor cfg.bits cfg.W cfg.size (ctrlAlignOf cfg) t.buckets with
    | none => .error "unreachable_unchecked in allocation_info"
    | some l => .ok l.size

/-- `replace_bucket_with` (raw/mod.rs:1113) with the closure's answer already known:
    `some e'` puts `e'` back in the same bucket, `none` leaves it removed. -/
def replaceBucketWith (cfg : Cfg) (t : Raw) (index : Nat) (f : Elem → Option Elem) :
    Except String (Bool × Elem × Raw) :=
  match ctrlRd t index with
  | .error f => .error f
  | .ok oldCtrl =>
    let oldGl := t.gl
    match removeAt cfg t index with
    | .error f => .error f
    | .ok (item, t1) =>
      match f item with
      | some ne =>
        match setCtrl cfg { t1 with gl := oldGl } index oldCtrl with
        | .error f => .error f
        | .ok t2 =>
          match slotPut { t2 with items := t2.items + 1 } index ne with
          | .error f => .error f
          | .ok t3 => .ok (true, item, t3)
      | none => .ok (false, item, t1)

end Hb
