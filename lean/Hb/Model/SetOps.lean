/-
Operation-level view of the HashSet model over a PAIR of sets: one `SetOp` per public call of
`HashSet` (single-set calls, the four lazy set-algebra iterators collected to a list, the
predicates, the assigning operator forms), a target selector `Side` (which of the two sets is
`self`; the other one is the right operand), `Set.step2` dispatching to the Layer-2 functions of
`Hb/Model/Set.lean` / `Api.lean`, `Set.run2` folding a history and recording what each call returned
(or the class of the panic it ended in).

The state mirrors the driver (`Hb/Driver/Main.lean`, `Hb/Driver/SetOps.lean`): two tables and ONE
world (event log, call counters of `Hash` / `Eq` / `Clone` / predicate / allocator / `Drop`). The
world's table field holds set `a`; set `b` is kept next to it. A call on side `b` is executed on the
world with `t := b` and `other := a` and the two tables are put back afterwards, exactly as the
driver does (`(self, other) := if tgt == "a" then (st.a, st.b) else (st.b, st.a)`).
-/
import Hb.Model.Set
import Hb.Model.MapOps
namespace Hb

/-- Which of the two sets is the target (`self`) of a call; the other one is the right operand. -/
inductive Side where
  | a
  | b
deriving DecidableEq, Repr

/-- Calls of the `HashSet` API covered by the set-history theorems. Binary calls are
    `target.op(&other)` / `target op= &other`. -/
inductive SetOp where
  | insert (k kid : Nat)
  | remove (k : Nat)
  | take (k : Nat)
  | replace (e : Elem)
  | getOrInsert (e : Elem)
  | getOrInsertWith (k k2 kid2 : Nat)   -- `get_or_insert_with(&Q(k), |_| T::new(k2, kid2))`
  | contains (k : Nat)
  | get (k : Nat)
  | entryInsert (e : Elem)              -- `entry(e).insert().get()`
  | entryOrInsert (e : Elem)            -- `entry(e).or_insert()`
  | entryRemove (e : Elem)              -- `match entry(e) { Occupied(o) => Some(o.remove()), Vacant(_) => None }`
  | retain
  | clear
  | reserve (n : Nat)
  | shrinkTo (m : Nat)                  -- `shrink_to_fit` = `shrinkTo 0`
  | union                               -- `target.union(&other).collect::<Vec<_>>()`
  | intersection
  | difference
  | symmetricDifference
  | isSubset
  | isSuperset
  | isDisjoint
  | eq
  | bitorAssign                         -- `target |= &other`
  | bitandAssign
  | bitxorAssign
  | subAssign
deriving Repr

/-- One call of a history: the target set and the call. -/
structure SetCall where
  side : Side
  op : SetOp
deriving Repr

namespace Set

/-- Two sets and one world: `w.t` is set `a`, `b` is set `b`. -/
structure Pair where
  w : World
  b : Raw

/-- Set `a` of the pair. -/
def Pair.a (s : Pair) : Raw := s.w.t

/-- Fresh pair `(HashSet::new(), HashSet::new())` with an empty log and zero counters. -/
def Pair.new (cfg : Cfg) : Pair := { w := { t := Raw.new cfg.W }, b := Raw.new cfg.W }

/-- The world as the call sees it (`t` = the target set) and the right operand. -/
def Pair.view (s : Pair) : Side → World × Raw
  | .a => (s.w, s.b)
  | .b => ({ s.w with t := s.b }, s.w.t)

/-- Put the world a call left behind back into the pair (the other set is what it was). -/
def Pair.put (s : Pair) (side : Side) (w' : World) : Pair :=
  match side with
  | .a => { w := w', b := s.b }
  | .b => { w := { w' with t := s.w.t }, b := w'.t }

/-- Re-tag the return value of a Layer-2 function as a `Ret`. -/
def wrap {α : Type} (f : α → Ret) (r : Res (α × World)) : Res (Ret × World) :=
  match r with
  | .ok (x, w') => .ok (f x, w')
  | .panic c w' => .panic c w'
  | .abort => .abort
  | .fault f => .fault f

/-- The same for functions returning `()`. -/
def wrapU (r : Res World) : Res (Ret × World) :=
  match r with
  | .ok w' => .ok (.unit, w')
  | .panic c w' => .panic c w'
  | .abort => .abort
  | .fault f => .fault f

/-- One call with `w.t` = target set and `other` = right operand: dispatch to the functions of
    `Hb/Model/Set.lean` / `Api.lean` (the same ones `Hb/Driver/SetOps.lean` executes). -/
def call (cfg : Cfg) (env : Env) (op : SetOp) (other : Raw) (w : World) : Res (Ret × World) :=
  match op with
  | .insert k kid => wrap .bool (Set.insert cfg env k kid w)
  | .remove k => wrap .bool (Set.remove cfg env k w)
  | .take k => wrap .elem (Set.take cfg env k w)
  | .replace e => wrap .elem (Set.replace cfg env e w)
  | .getOrInsert e => wrap (fun x => .elem (some x)) (Set.getOrInsert cfg env e w)
  | .getOrInsertWith k k2 kid2 =>
    wrap (fun x => .elem (some x)) (Set.getOrInsertWith cfg env k k2 kid2 w)
  | .contains k => wrap .bool (Set.contains cfg env k w)
  | .get k => wrap .elem (Set.get cfg env k w)
  | .entryInsert e => wrap (fun x => .elem (some x)) (Set.entryInsert cfg env e w)
  | .entryOrInsert e => wrapU (Set.entryOrInsert cfg env e w)
  | .entryRemove e => wrap .elem (Set.entryRemove cfg env e w)
  | .retain => wrapU (Set.retain cfg env w)
  | .clear => wrapU (Hb.clear cfg env w)
  | .reserve n => wrapU (Map.reserve cfg env n w)
  | .shrinkTo m => wrapU (Hb.shrinkTo cfg env m w)
  | .union => wrap .elems (Set.union cfg env other w)
  | .intersection => wrap .elems (Set.intersection cfg env other w)
  | .difference => wrap .elems (Set.difference cfg env other w)
  | .symmetricDifference => wrap .elems (Set.symmetricDifference cfg env other w)
  | .isSubset => wrap .bool (Set.isSubset cfg env other w)
  | .isSuperset => wrap .bool (Set.isSuperset cfg env other w)
  | .isDisjoint => wrap .bool (Set.isDisjoint cfg env other w)
  | .eq => wrap .bool (Set.setEq cfg env other w)
  | .bitorAssign => wrapU (Set.bitorAssign cfg env other w)
  | .bitandAssign => wrapU (Set.bitandAssign cfg env other w)
  | .bitxorAssign => wrapU (Set.bitxorAssign cfg env other w)
  | .subAssign => wrapU (Set.subAssign cfg env other w)

/-- Outcome of one call on a pair. -/
inductive Out2 where
  | ret (r : Ret) (s : Pair)
  | panic (cls : String) (s : Pair)     -- a callback panicked; `s` is what unwinding left behind
  | abort
  | fault (f : String)

/-- One call on the pair. -/
def step2 (cfg : Cfg) (env : Env) (c : SetCall) (s : Pair) : Out2 :=
  match call cfg env c.op (s.view c.side).2 (s.view c.side).1 with
  | .ok (r, w') => .ret r (s.put c.side w')
  | .panic cls w' => .panic cls (s.put c.side w')
  | .abort => .abort
  | .fault f => .fault f

/-- Run a history on a pair. A panic is caught (`catch_unwind`) and the history goes on with whatever
    unwinding left behind. `none` = the implementation would have undefined behaviour (`fault`) or
    abort. -/
def run2 (cfg : Cfg) (env : Env) : List SetCall → Pair → Option (List Map.Obs × Pair)
  | [], s => some ([], s)
  | c :: rest, s =>
    match step2 cfg env c s with
    | .ret r s' => (run2 cfg env rest s').map fun (os, sf) => (.ret r :: os, sf)
    | .panic cls s' => (run2 cfg env rest s').map fun (os, sf) => (.panic cls :: os, sf)
    | .abort => none
    | .fault _ => none

end Set
end Hb
