/-
A raw vacant entry does not belong to a key: `RawVacantEntryMut::insert(key, value)` and
`RawEntryMut::or_insert(key, value)` (raw_entry.rs) take the key that is stored, which need not be the one
the entry was looked up with. The stored pair is filed under the hash of the key that is STORED
(`make_hash(hash_builder, &key)` inside `insert` / `insert_entry`), not under the look-up hash.
-/
import Hb.Model.Entry
namespace Hb.Map

/-- `raw_entry_mut().from_*(kLook)`, then `Vacant(v) => v.insert(K(e.k, e.kid), V(e.vid, e.v))`
    (`orIns = false`; an occupied entry is dropped unused, then the value, then the key) or
    `.or_insert(K(e.k, e.kid), V(e.vid, e.v))` (`orIns = true`; occupied: the arguments are dropped at the end
    of `or_insert`, the stored pair is returned). -/
def rawEntryOther (cfg : Cfg) (env : Env) (mode : RawMode) (ph kLook : Nat) (orIns : Bool) (e : Elem)
    (w : World) : EntRes :=
  ((rawLook cfg env mode ph kLook w).onPanic (dropHeldQuiet cfg (some e.kid, some e.vid))).bind fun (r, w1) =>
    match r with
    | some idx =>
      match slotGet w1.t idx with
      | .error f => .fault f
      | .ok old =>
        (dropKeyR cfg env e.kid (dropVal cfg e.vid w1)).bind fun w2 =>
          .ok ((true, if orIns then .elem old else .none), w2)
    | none =>
      ((makeHash env e.k w1).onPanic (·.dropElemQuiet cfg e)).bind fun (h, w2) =>
        (insOwned cfg env h e w2).bind fun (_, w3) => .ok ((false, .elem e), w3)

end Hb.Map
