/-
The reference specification of `HashMap`: an association list with each key once.
`AL.Step P op l r l'` = "on the abstract map `l`, call `op` may return `r` and leave `l'`".
It is a relation (not a function) only because `try_reserve` may legitimately report an
allocator refusal and because iteration order is unspecified.
-/
import Hb.Model.MapOps
namespace Hb

/-- Abstract map: the stored `(key object, value object)` pairs, in any order, keys pairwise distinct. -/
abbrev AL := List Elem

namespace AL

def find (l : AL) (k : Nat) : Option Elem := l.find? (·.k == k)

def keysNodup (l : AL) : Prop := (l.map (·.k)).Nodup

/-- Replace the value (object and payload) stored under `k`; the stored key object stays. -/
def setVal (l : AL) (k vid v : Nat) : AL :=
  l.map fun x => if x.k == k then { x with vid := vid, v := v } else x

def setPayload (l : AL) (k nv : Nat) : AL :=
  l.map fun x => if x.k == k then { x with v := nv } else x

def erase (l : AL) (k : Nat) : AL := l.filter (·.k != k)

/-- A pure predicate with mutation: answer and new payload as a function of the element. -/
abbrev Pred := Elem → Bool × Nat

/-- `retain` with predicate `P`: every element gets its new payload, those answered `false` go. -/
def retain (P : Pred) (l : AL) : AL :=
  l.filterMap fun x => if (P x).1 then some { x with v := (P x).2 } else none

/-- One call on the abstract map. -/
inductive Step (P : Pred) : MapOp → AL → Ret → AL → Prop where
  | insertNew (e : Elem) (l : AL) (h : l.find e.k = none) :
      Step P (.insert e) l (.val none) (e :: l)
  | insertOld (e old : Elem) (l : AL) (h : l.find e.k = some old) :
      Step P (.insert e) l (.val (some (old.vid, old.v))) (l.setVal e.k e.vid e.v)
  | get (k : Nat) (l : AL) : Step P (.get k) l (.elem (l.find k)) l
  | getMut (k nv : Nat) (l : AL) :
      Step P (.getMut k nv) l (.elem ((l.find k).map fun e => { e with v := nv })) (l.setPayload k nv)
  | remove (k : Nat) (l : AL) :
      Step P (.remove k) l (.val ((l.find k).map fun e => (e.vid, e.v))) (l.erase k)
  | removeEntry (k : Nat) (l : AL) : Step P (.removeEntry k) l (.elem (l.find k)) (l.erase k)
  | clear (l : AL) : Step P .clear l .unit []
  | reserve (n : Nat) (l : AL) : Step P (.reserve n) l .unit l
  | tryReserve (n : Nat) (r : Option TryReserveError) (l : AL) : Step P (.tryReserve n) l (.tre r) l
  | shrinkTo (m : Nat) (l : AL) : Step P (.shrinkTo m) l .unit l
  | retain (l : AL) : Step P .retain l .unit (l.retain P)

end AL
end Hb
