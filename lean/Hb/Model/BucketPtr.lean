/-
Layer 0.5 — the `Bucket<T>` POINTER encoding and the data pointer of `RawIterRange`
(raw/mod.rs: `impl<T> Bucket<T>`, `RawTableInner::{bucket, bucket_ptr, data_end, iter}`,
`RawTable::{bucket, bucket_index, data_end, data_start, into_allocation}`,
`RawIterRange::{new, next_impl, fold_impl, split, clone}`, `RawIter::clone`).

The table model (`Hb/Model/Raw.lean`, `Iter.lean`) works with bucket INDICES; the real code works with
`Bucket<T> { ptr: NonNull<T> }`.  This file models those pointers as ABSTRACT ADDRESSES (`Nat`):
no provenance, no wrap-around (unchecked `-` is truncated like everywhere in tie T1; the side conditions
under which the real pointer arithmetic is in bounds are hypotheses of the theorems in
`Hb/Proofs/BucketPtrSpec.lean`).

Encoding (follow the source literally):
* `T` zero-sized (`size = 0`): `ptr` is the pseudo-pointer `index + 1` (`invalid_mut(index + 1)`),
  `next_n` ADDS `offset`, `to_base_index` subtracts 1, `as_ptr` is the dangling aligned address
  `invalid_mut(mem::align_of::<T>())` — the SAME address for every bucket;
* `T` sized: `ptr = base.as_ptr().sub(index)` = `base - index * size` points ONE PAST the element
  (elements grow DOWNWARDS from the control bytes, `base = data_end() = ctrl`), `next_n` SUBTRACTS
  `offset * size`, `to_base_index = offset_from(base, ptr) = (base - ptr) / size`, `as_ptr = ptr.sub(1)`.

The definitions are tied to the source text by tie T1 (`Hb/Gen/Pure.lean`, `Hb/Proofs/GenEq.lean`:
`gen_Bucket_*_eq`, `gen_RawIterRange_*_eq`, …).  Import-free.
-/
namespace Hb.BucketPtr

/-- Element layout seen by the pointer encoding: `size = mem::size_of::<T>()` (0 = zero-sized,
    `T::IS_ZERO_SIZED`), `align = mem::align_of::<T>()` (only used for the dangling address of a
    zero-sized element). -/
structure BCfg where
  size : Nat
  align : Nat := 1
deriving Repr, DecidableEq

/-- The `ptr` field of a `Bucket<T>` as an address.  (Signatures below say `Nat`: `omega` does not look
    through the abbreviation.) -/
abbrev Bucket := Nat

/-- `invalid_mut(mem::align_of::<T>())`: what `Bucket::as_ptr` returns for EVERY bucket of a zero-sized `T`. -/
def danglingAddr (c : BCfg) : Nat := c.align

/-- `Bucket::from_base_index(base, index)`:
    `if T::IS_ZERO_SIZED { invalid_mut(index + 1) } else { base.as_ptr().sub(index) }`. -/
def fromBaseIndex (c : BCfg) (base index : Nat) : Nat :=
  if c.size = 0 then index + 1 else base - index * c.size

/-- `Bucket::to_base_index(&self, base)`:
    `if T::IS_ZERO_SIZED { self.ptr.as_ptr() as usize - 1 } else { offset_from(base.as_ptr(), self.ptr.as_ptr()) }`
    with `offset_from(to, from) = to.offset_from(from) as usize` = `(to - from) / size`. -/
def toBaseIndex (c : BCfg) (base b : Nat) : Nat :=
  if c.size = 0 then b - 1 else (base - b) / c.size

/-- `Bucket::as_ptr(&self)`:
    `if T::IS_ZERO_SIZED { invalid_mut(mem::align_of::<T>()) } else { self.ptr.as_ptr().sub(1) }`:
    the address of the element itself. -/
def asPtr (c : BCfg) (b : Nat) : Nat :=
  if c.size = 0 then danglingAddr c else b - c.size

/-- `Bucket::as_non_null(&self)` = `NonNull::new_unchecked(self.as_ptr())`. -/
def asNonNull (c : BCfg) (b : Nat) : Nat := asPtr c b

/-- `Bucket::next_n(&self, offset)`:
    `if T::IS_ZERO_SIZED { invalid_mut(self.ptr.as_ptr() as usize + offset) } else { self.ptr.as_ptr().sub(offset) }`. -/
def nextN (c : BCfg) (b offset : Nat) : Nat :=
  if c.size = 0 then b + offset else b - offset * c.size

/-- `<Bucket<T> as Clone>::clone`: `Self { ptr: self.ptr }`. -/
def cloneBucket (b : Nat) : Nat := b

/-! ### The table's base pointer -/

/-- `RawTableInner::data_end::<T>()` / `RawTable::data_end()`: `self.ctrl.cast()` — the control-byte
    pointer itself, one past element 0. -/
def dataEnd (ctrl : Nat) : Nat := ctrl

/-- `RawTableInner::bucket::<T>(index)` / `RawTable::bucket(index)`:
    `Bucket::from_base_index(self.data_end(), index)`. -/
def bucket (c : BCfg) (ctrl index : Nat) : Nat := fromBaseIndex c (dataEnd ctrl) index

/-- `RawTableInner::bucket_ptr(index, size_of)`: `base: *mut u8 = self.data_end().as_ptr();
    base.sub((index + 1) * size_of)` — a BYTE pointer to the start of element `index`. -/
def bucketPtr (ctrl index sizeOf : Nat) : Nat := dataEnd ctrl - (index + 1) * sizeOf

/-- `RawTable::bucket_index(&self, bucket)`: `bucket.to_base_index(self.data_end())`. -/
def bucketIndex (c : BCfg) (ctrl b : Nat) : Nat := toBaseIndex c (dataEnd ctrl) b

/-- `RawTable::data_start()` (nightly): `self.data_end().as_ptr().wrapping_sub(self.buckets())`. -/
def dataStart (c : BCfg) (ctrl buckets : Nat) : Nat := dataEnd ctrl - buckets * c.size

/-- `RawTable::into_allocation`: start of the block = `self.table.ctrl.as_ptr().sub(ctrl_offset)`
    (byte pointer arithmetic; `ctrl_offset` from `calculate_layout_for`, NOT `buckets * size`: the block
    may start with padding). -/
def allocStart (ctrl ctrlOffset : Nat) : Nat := ctrl - ctrlOffset

/-! ### The pointer state of `RawIterRange` -/

/-- The two pointers of a `RawIterRange<T>` that must move in lock-step: `data: Bucket<T>` (address) and
    `next_ctrl`, kept as the number `groupIdx` of the group under the cursor
    (`next_ctrl = ctrl + (groupIdx + 1) * Group::WIDTH`). -/
structure RangePtr where
  data : Nat
  groupIdx : Nat
deriving Repr, DecidableEq

/-- `RawIterRange::new(ctrl + g * WIDTH, data, len)`: stores `data` UNCHANGED, `next_ctrl = ctrl_arg + WIDTH`. -/
def RangePtr.new (data g : Nat) : RangePtr := { data := data, groupIdx := g }

/-- `RawTableInner::iter`: `data = Bucket::from_base_index(self.data_end(), 0)`,
    `RawIterRange::new(self.ctrl.as_ptr(), data, self.buckets())`. -/
def RangePtr.start (c : BCfg) (ctrl : Nat) : RangePtr := RangePtr.new (fromBaseIndex c (dataEnd ctrl) 0) 0

/-- The reload step of `next_impl` / `fold_impl`:
    `self.data = self.data.next_n(Group::WIDTH); self.next_ctrl = self.next_ctrl.add(Group::WIDTH);`. -/
def RangePtr.advanceGroup (c : BCfg) (W : Nat) (r : RangePtr) : RangePtr :=
  { data := nextN c r.data W, groupIdx := r.groupIdx + 1 }

/-- The bucket handed out for bit `bit` of the current group: `self.data.next_n(index)`. -/
def RangePtr.yieldAt (c : BCfg) (r : RangePtr) (bit : Nat) : Nat := nextN c r.data bit

/-- The tail of `RawIterRange::split`:
    `Self::new(self.next_ctrl.add(mid), self.data.next_n(Group::WIDTH).next_n(mid), len - mid)`
    (`mid` a multiple of `Group::WIDTH`): it starts `1 + mid / WIDTH` groups further. -/
def RangePtr.split (c : BCfg) (W : Nat) (r : RangePtr) (mid : Nat) : RangePtr :=
  RangePtr.new (nextN c (nextN c r.data W) mid) (r.groupIdx + 1 + mid / W)

/-- `<RawIterRange as Clone>::clone` (what `<RawIter as Clone>::clone` copies through
    `iter: self.iter.clone()`): `data: self.data.clone()`, `next_ctrl: self.next_ctrl`. -/
def RangePtr.cloneRaw (r : RangePtr) : RangePtr := { data := cloneBucket r.data, groupIdx := r.groupIdx }

/-- `k` reload steps. -/
def RangePtr.advanceGroups (c : BCfg) (W : Nat) : Nat → RangePtr → RangePtr
  | 0, r => r
  | k + 1, r => RangePtr.advanceGroups c W k (r.advanceGroup c W)

end Hb.BucketPtr
