/-
Layer 2c — the PUBLIC iterator types of `HashMap` (`src/map.rs`), `HashSet` (`src/set.rs`) and
`HashTable` (`src/table.rs`), wrapper by wrapper, with the forwarding chain of the source:

  borrowing                                   owning
  map::Iter        { inner: RawIter }         map::IntoIter   { inner: RawIntoIter }
  map::IterMut     { inner: RawIter }         map::IntoKeys   { inner: map::IntoIter }
  map::Keys        { inner: map::Iter }       map::IntoValues { inner: map::IntoIter }
  map::Values      { inner: map::Iter }       map::Drain      { inner: RawDrain }
  map::ValuesMut   { inner: map::IterMut }    set::IntoIter   { iter: map::IntoIter<K, ()> }
  set::Iter        { iter: map::Keys<K, ()> } set::Drain      { iter: map::Drain<K, ()> }
  table::Iter      { inner: RawIter }         table::IntoIter { inner: RawIntoIter }
  table::IterMut   { inner: RawIter }         table::Drain    { inner: RawDrain }

Every method of every wrapper is a definition of its own that calls the corresponding method of
its `inner` field (and nothing else), exactly as the `impl` in the source does; the source line of
each `impl` item is quoted.  `next`/`fold` of a borrowing wrapper take the *current* table, like
`RawIter.next` (`Hb/Model/Iter.lean`).  What a wrapper yields is observed as an `Item` that keeps
the bucket index, so "each stored element exactly once" is a statement about slots, not values.

A `fold` is observed through the list of items its closure is called with, in call order.
-/
import Hb.Model.Entry
namespace Hb
namespace IW

/-- What a public iterator hands to its caller (the bucket it came from is kept). -/
inductive Item where
  /-- `(&K, &V)`, `(&K, &mut V)`, `(K, V)` -/
  | pair (bucket : Nat) (e : Elem)
  /-- `&K` / `K`: key and identity of the key object -/
  | key (bucket : Nat) (k kid : Nat)
  /-- `&V` / `&mut V` / `V`: identity of the value object and payload -/
  | val (bucket : Nat) (vid v : Nat)
  /-- `&T`, `&mut T`, `T` of a `HashTable<T>` -/
  | elem (bucket : Nat) (e : Elem)
deriving DecidableEq, Repr

/-! ### `RawIter` methods not in `Iter.lean` -/

/-- `RawIter::size_hint` (raw/mod.rs:3714): `(self.items, Some(self.items))`. -/
def rawSizeHint (it : RawIter) : Nat × Option Nat := (it.items, some it.items)

/-- The *default* `ExactSizeIterator::len` (`impl ExactSizeIterator for RawIter {}`, raw/mod.rs:3728,
    and likewise `RawIntoIter` :3931, `RawDrain` :4005):
    `let (lower, upper) = self.size_hint(); assert_eq!(upper, Some(lower)); lower`. -/
def exactLen (h : Nat × Option Nat) : Except String Nat :=
  if h.2 = some h.1 then .ok h.1 else .error "ExactSizeIterator::len: assert_eq!(upper, Some(lower))"

def rawLen (it : RawIter) : Except String Nat := exactLen (rawSizeHint it)

/-- `Clone for RawIterRange` (raw/mod.rs:3608) and `Clone for RawIter` (:3674): field by field. -/
def rawClone (it : RawIter) : RawIter :=
  { range := { cur := it.range.cur, base := it.range.base, nextCtrl := it.range.nextCtrl,
               end_ := it.range.end_ },
    items := it.items }

/-- `Default for RawIter` (raw/mod.rs:3683): `RawTableInner::NEW.iter()`. -/
def rawDefault (cfg : Cfg) : Except String RawIter := RawIter.new cfg (Raw.new cfg.W)

/-- `match inner.next() { Some(x) => Some(f(x)), None => None }`; `wrap` re-wraps the advanced
    inner iterator. -/
def nextMap {σ τ α β : Type} (f : α → β) (wrap : σ → τ) :
    Except String (Option α × σ) → Except String (Option β × τ)
  | .error e => .error e
  | .ok (none, s) => .ok (none, wrap s)
  | .ok (some a, s) => .ok (some (f a), wrap s)

/-- `bucket.as_ref()` / `as_mut()` for every bucket a raw `fold` visited, in order. -/
def readAll (t : Raw) : List Nat → Except String (List (Nat × Elem))
  | [] => .ok []
  | i :: rest =>
    match slotGet t i with
    | .error f => .error f
    | .ok e =>
      match readAll t rest with
      | .error f => .error f
      | .ok l => .ok ((i, e) :: l)

/-! ### `map::Iter` (map.rs:2155) -/

structure MapIter where
  inner : RawIter
deriving Repr

/-- `HashMap::iter` (map.rs:754): `Iter { inner: self.table.iter() }`. -/
def MapIter.new (cfg : Cfg) (t : Raw) : Except String MapIter := (RawIter.new cfg t).map MapIter.mk

/-- `Iterator::next` (map.rs:3168): `match self.inner.next() { Some(x) => { let r = x.as_ref();
    Some((&r.0, &r.1)) }, None => None }`. -/
def MapIter.next (cfg : Cfg) (t : Raw) (it : MapIter) : Except String (Option (Nat × Elem) × MapIter) :=
  match it.inner.next cfg t with
  | .error f => .error f
  | .ok (none, r) => .ok (none, ⟨r⟩)
  | .ok (some i, r) =>
    match slotGet t i with
    | .error f => .error f
    | .ok e => .ok (some (i, e), ⟨r⟩)

/-- `size_hint` (map.rs:3179): `self.inner.size_hint()`. -/
def MapIter.sizeHint (it : MapIter) : Nat × Option Nat := rawSizeHint it.inner
/-- `ExactSizeIterator::len` (map.rs:3196): `self.inner.len()`. -/
def MapIter.len (it : MapIter) : Except String Nat := rawLen it.inner
/-- `fold` (map.rs:3183): `self.inner.fold(init, |acc, x| { let (k, v) = x.as_ref(); f(acc, (k, v)) })`. -/
def MapIter.fold (cfg : Cfg) (t : Raw) (it : MapIter) : Except String (List (Nat × Elem)) :=
  match it.inner.fold cfg t with
  | .error f => .error f
  | .ok idxs => readAll t idxs
/-- `Clone` (map.rs:2161): `Iter { inner: self.inner.clone() }`. -/
def MapIter.clone (it : MapIter) : MapIter := ⟨rawClone it.inner⟩
/-- `Default` (map.rs:3155): `inner: Default::default()`. -/
def MapIter.default (cfg : Cfg) : Except String MapIter := (rawDefault cfg).map MapIter.mk

/-! ### `map::IterMut` (map.rs:2204) — not `Clone` -/

structure MapIterMut where
  inner : RawIter
deriving Repr

/-- `HashMap::iter_mut` (map.rs:799): `IterMut { inner: self.table.iter() }`. -/
def MapIterMut.new (cfg : Cfg) (t : Raw) : Except String MapIterMut :=
  (RawIter.new cfg t).map MapIterMut.mk

/-- `next` (map.rs:3216): `x.as_mut()`, `Some((&r.0, &mut r.1))`. -/
def MapIterMut.next (cfg : Cfg) (t : Raw) (it : MapIterMut) :
    Except String (Option (Nat × Elem) × MapIterMut) :=
  match it.inner.next cfg t with
  | .error f => .error f
  | .ok (none, r) => .ok (none, ⟨r⟩)
  | .ok (some i, r) =>
    match slotGet t i with
    | .error f => .error f
    | .ok e => .ok (some (i, e), ⟨r⟩)

/-- `size_hint` (map.rs:3227). -/
def MapIterMut.sizeHint (it : MapIterMut) : Nat × Option Nat := rawSizeHint it.inner
/-- `len` (map.rs:3244). -/
def MapIterMut.len (it : MapIterMut) : Except String Nat := rawLen it.inner
/-- `fold` (map.rs:3231): `self.inner.fold(init, |acc, x| { let (k, v) = x.as_mut(); f(acc, (k, v)) })`. -/
def MapIterMut.fold (cfg : Cfg) (t : Raw) (it : MapIterMut) : Except String (List (Nat × Elem)) :=
  match it.inner.fold cfg t with
  | .error f => .error f
  | .ok idxs => readAll t idxs
/-- `Default` (map.rs:3203). -/
def MapIterMut.default (cfg : Cfg) : Except String MapIterMut := (rawDefault cfg).map MapIterMut.mk

/-! ### `map::Keys` (map.rs:2456) -/

/-- `|(k, _)| k` on a `(&K, &V)`: bucket, key, identity of the key object. -/
def keyOf (x : Nat × Elem) : Nat × Nat × Nat := (x.1, x.2.k, x.2.kid)
/-- `|(_, v)| v`: bucket, identity of the value object, payload. -/
def valOf (x : Nat × Elem) : Nat × Nat × Nat := (x.1, x.2.vid, x.2.v)

structure Keys where
  inner : MapIter
deriving Repr

/-- `HashMap::keys` (map.rs:650): `Keys { inner: self.iter() }`. -/
def Keys.new (cfg : Cfg) (t : Raw) : Except String Keys := (MapIter.new cfg t).map Keys.mk
/-- `next` (map.rs:3314): `match self.inner.next() { Some((k, _)) => Some(k), None => None }`. -/
def Keys.next (cfg : Cfg) (t : Raw) (it : Keys) : Except String (Option (Nat × Nat × Nat) × Keys) :=
  nextMap keyOf Keys.mk (it.inner.next cfg t)
/-- `size_hint` (map.rs:3322). -/
def Keys.sizeHint (it : Keys) : Nat × Option Nat := it.inner.sizeHint
/-- `len` (map.rs:3336). -/
def Keys.len (it : Keys) : Except String Nat := it.inner.len
/-- `fold` (map.rs:3326): `self.inner.fold(init, |acc, (k, _)| f(acc, k))`. -/
def Keys.fold (cfg : Cfg) (t : Raw) (it : Keys) : Except String (List (Nat × Nat × Nat)) :=
  (it.inner.fold cfg t).map (·.map keyOf)
/-- `Clone` (map.rs:2461). -/
def Keys.clone (it : Keys) : Keys := ⟨it.inner.clone⟩
/-- `Default` (map.rs:3302). -/
def Keys.default (cfg : Cfg) : Except String Keys := (MapIter.default cfg).map Keys.mk

/-! ### `map::Values` (map.rs:2504) -/

structure Values where
  inner : MapIter
deriving Repr

/-- `HashMap::values` (map.rs:682): `Values { inner: self.iter() }`. -/
def Values.new (cfg : Cfg) (t : Raw) : Except String Values := (MapIter.new cfg t).map Values.mk
/-- `next` (map.rs:3354): `Some((_, v)) => Some(v)`. -/
def Values.next (cfg : Cfg) (t : Raw) (it : Values) :
    Except String (Option (Nat × Nat × Nat) × Values) :=
  nextMap valOf Values.mk (it.inner.next cfg t)
/-- `size_hint` (map.rs:3362). -/
def Values.sizeHint (it : Values) : Nat × Option Nat := it.inner.sizeHint
/-- `len` (map.rs:3376). -/
def Values.len (it : Values) : Except String Nat := it.inner.len
/-- `fold` (map.rs:3366): `self.inner.fold(init, |acc, (_, v)| f(acc, v))`. -/
def Values.fold (cfg : Cfg) (t : Raw) (it : Values) : Except String (List (Nat × Nat × Nat)) :=
  (it.inner.fold cfg t).map (·.map valOf)
/-- `Clone` (map.rs:2509). -/
def Values.clone (it : Values) : Values := ⟨it.inner.clone⟩
/-- `Default` (map.rs:3342). -/
def Values.default (cfg : Cfg) : Except String Values := (MapIter.default cfg).map Values.mk

/-! ### `map::ValuesMut` (map.rs:2651) — not `Clone` -/

structure ValuesMut where
  inner : MapIterMut
deriving Repr

/-- `HashMap::values_mut` (map.rs:720): `ValuesMut { inner: self.iter_mut() }`. -/
def ValuesMut.new (cfg : Cfg) (t : Raw) : Except String ValuesMut :=
  (MapIterMut.new cfg t).map ValuesMut.mk
/-- `next` (map.rs:3394). -/
def ValuesMut.next (cfg : Cfg) (t : Raw) (it : ValuesMut) :
    Except String (Option (Nat × Nat × Nat) × ValuesMut) :=
  nextMap valOf ValuesMut.mk (it.inner.next cfg t)
/-- `size_hint` (map.rs:3402). -/
def ValuesMut.sizeHint (it : ValuesMut) : Nat × Option Nat := it.inner.sizeHint
/-- `len` (map.rs:3416). -/
def ValuesMut.len (it : ValuesMut) : Except String Nat := it.inner.len
/-- `fold` (map.rs:3406). -/
def ValuesMut.fold (cfg : Cfg) (t : Raw) (it : ValuesMut) : Except String (List (Nat × Nat × Nat)) :=
  (it.inner.fold cfg t).map (·.map valOf)
/-- `Default` (map.rs:3382). -/
def ValuesMut.default (cfg : Cfg) : Except String ValuesMut :=
  (MapIterMut.default cfg).map ValuesMut.mk

/-! ### `set::Iter` (set.rs:1647) -/

structure SetIter where
  iter : Keys
deriving Repr

/-- `HashSet::iter` (set.rs:290): `Iter { iter: self.map.keys() }`. -/
def SetIter.new (cfg : Cfg) (t : Raw) : Except String SetIter := (Keys.new cfg t).map SetIter.mk
/-- `next` (set.rs:1798): `self.iter.next()`. -/
def SetIter.next (cfg : Cfg) (t : Raw) (it : SetIter) :
    Except String (Option (Nat × Nat × Nat) × SetIter) :=
  nextMap id SetIter.mk (it.iter.next cfg t)
/-- `size_hint` (set.rs:1802). -/
def SetIter.sizeHint (it : SetIter) : Nat × Option Nat := it.iter.sizeHint
/-- `len` (set.rs:1816). -/
def SetIter.len (it : SetIter) : Except String Nat := it.iter.len
/-- `fold` (set.rs:1806): `self.iter.fold(init, f)`. -/
def SetIter.fold (cfg : Cfg) (t : Raw) (it : SetIter) : Except String (List (Nat × Nat × Nat)) :=
  it.iter.fold cfg t
/-- `Clone` (set.rs:1778). -/
def SetIter.clone (it : SetIter) : SetIter := ⟨it.iter.clone⟩
/-- `Default` (set.rs:1786). -/
def SetIter.default (cfg : Cfg) : Except String SetIter := (Keys.default cfg).map SetIter.mk

/-! ### `table::Iter` (table.rs:1956) -/

structure TableIter where
  inner : RawIter
deriving Repr

/-- `HashTable::iter` (table.rs:686): `Iter { inner: self.raw.iter() }`. -/
def TableIter.new (cfg : Cfg) (t : Raw) : Except String TableIter :=
  (RawIter.new cfg t).map TableIter.mk
/-- `next` (table.rs:1974): `Some(bucket) => Some(bucket.as_ref())`. -/
def TableIter.next (cfg : Cfg) (t : Raw) (it : TableIter) :
    Except String (Option (Nat × Elem) × TableIter) :=
  match it.inner.next cfg t with
  | .error f => .error f
  | .ok (none, r) => .ok (none, ⟨r⟩)
  | .ok (some i, r) =>
    match slotGet t i with
    | .error f => .error f
    | .ok e => .ok (some (i, e), ⟨r⟩)
/-- `size_hint` (table.rs:1982). -/
def TableIter.sizeHint (it : TableIter) : Nat × Option Nat := rawSizeHint it.inner
/-- `len` (table.rs:1997). -/
def TableIter.len (it : TableIter) : Except String Nat := rawLen it.inner
/-- `fold` (table.rs:1986): `self.inner.fold(init, |acc, bucket| f(acc, bucket.as_ref()))`. -/
def TableIter.fold (cfg : Cfg) (t : Raw) (it : TableIter) : Except String (List (Nat × Elem)) :=
  match it.inner.fold cfg t with
  | .error f => .error f
  | .ok idxs => readAll t idxs
/-- `Clone` (table.rs:2005). -/
def TableIter.clone (it : TableIter) : TableIter := ⟨rawClone it.inner⟩
/-- `Default` (table.rs:1961). -/
def TableIter.default (cfg : Cfg) : Except String TableIter := (rawDefault cfg).map TableIter.mk

/-! ### `table::IterMut` (table.rs:2029) — not `Clone` -/

structure TableIterMut where
  inner : RawIter
deriving Repr

/-- `HashTable::iter_mut` (table.rs:737). -/
def TableIterMut.new (cfg : Cfg) (t : Raw) : Except String TableIterMut :=
  (RawIter.new cfg t).map TableIterMut.mk
/-- `next` (table.rs:2046): `Some(bucket) => Some(bucket.as_mut())`. -/
def TableIterMut.next (cfg : Cfg) (t : Raw) (it : TableIterMut) :
    Except String (Option (Nat × Elem) × TableIterMut) :=
  match it.inner.next cfg t with
  | .error f => .error f
  | .ok (none, r) => .ok (none, ⟨r⟩)
  | .ok (some i, r) =>
    match slotGet t i with
    | .error f => .error f
    | .ok e => .ok (some (i, e), ⟨r⟩)
/-- `size_hint` (table.rs:2054). -/
def TableIterMut.sizeHint (it : TableIterMut) : Nat × Option Nat := rawSizeHint it.inner
/-- `len` (table.rs:2069). -/
def TableIterMut.len (it : TableIterMut) : Except String Nat := rawLen it.inner
/-- `fold` (table.rs:2058). -/
def TableIterMut.fold (cfg : Cfg) (t : Raw) (it : TableIterMut) : Except String (List (Nat × Elem)) :=
  match it.inner.fold cfg t with
  | .error f => .error f
  | .ok idxs => readAll t idxs
/-- `Default` (table.rs:2034). -/
def TableIterMut.default (cfg : Cfg) : Except String TableIterMut :=
  (rawDefault cfg).map TableIterMut.mk

/-! ### all borrowing wrappers under one roof -/

inductive Kind where
  | mapIter | mapIterMut | mapKeys | mapValues | mapValuesMut | setIter | tableIter | tableIterMut
deriving DecidableEq, Repr

/-- Does the Rust type implement `Clone`? (`IterMut`, `ValuesMut`, `table::IterMut` hand out `&mut`
    and do not.) -/
def Kind.isClone : Kind → Bool
  | .mapIterMut | .mapValuesMut | .tableIterMut => false
  | _ => true

inductive Wrap where
  | mapIter (x : MapIter)
  | mapIterMut (x : MapIterMut)
  | mapKeys (x : Keys)
  | mapValues (x : Values)
  | mapValuesMut (x : ValuesMut)
  | setIter (x : SetIter)
  | tableIter (x : TableIter)
  | tableIterMut (x : TableIterMut)
deriving Repr

def Wrap.kind : Wrap → Kind
  | .mapIter _ => .mapIter | .mapIterMut _ => .mapIterMut | .mapKeys _ => .mapKeys
  | .mapValues _ => .mapValues | .mapValuesMut _ => .mapValuesMut | .setIter _ => .setIter
  | .tableIter _ => .tableIter | .tableIterMut _ => .tableIterMut

def pairItem (x : Nat × Elem) : Item := .pair x.1 x.2
def keyItem (x : Nat × Nat × Nat) : Item := .key x.1 x.2.1 x.2.2
def valItem (x : Nat × Nat × Nat) : Item := .val x.1 x.2.1 x.2.2
def elemItem (x : Nat × Elem) : Item := .elem x.1 x.2

/-- The constructor method of the collection (`iter()`, `iter_mut()`, `keys()`, …). -/
def Wrap.new (cfg : Cfg) (t : Raw) : Kind → Except String Wrap
  | .mapIter => (MapIter.new cfg t).map .mapIter
  | .mapIterMut => (MapIterMut.new cfg t).map .mapIterMut
  | .mapKeys => (Keys.new cfg t).map .mapKeys
  | .mapValues => (Values.new cfg t).map .mapValues
  | .mapValuesMut => (ValuesMut.new cfg t).map .mapValuesMut
  | .setIter => (SetIter.new cfg t).map .setIter
  | .tableIter => (TableIter.new cfg t).map .tableIter
  | .tableIterMut => (TableIterMut.new cfg t).map .tableIterMut

/-- `Iterator::next`. -/
def Wrap.next (cfg : Cfg) (t : Raw) : Wrap → Except String (Option Item × Wrap)
  | .mapIter x => nextMap pairItem .mapIter (x.next cfg t)
  | .mapIterMut x => nextMap pairItem .mapIterMut (x.next cfg t)
  | .mapKeys x => nextMap keyItem .mapKeys (x.next cfg t)
  | .mapValues x => nextMap valItem .mapValues (x.next cfg t)
  | .mapValuesMut x => nextMap valItem .mapValuesMut (x.next cfg t)
  | .setIter x => nextMap keyItem .setIter (x.next cfg t)
  | .tableIter x => nextMap elemItem .tableIter (x.next cfg t)
  | .tableIterMut x => nextMap elemItem .tableIterMut (x.next cfg t)

/-- `Iterator::size_hint`. -/
def Wrap.sizeHint : Wrap → Nat × Option Nat
  | .mapIter x => x.sizeHint | .mapIterMut x => x.sizeHint | .mapKeys x => x.sizeHint
  | .mapValues x => x.sizeHint | .mapValuesMut x => x.sizeHint | .setIter x => x.sizeHint
  | .tableIter x => x.sizeHint | .tableIterMut x => x.sizeHint

/-- `ExactSizeIterator::len`. -/
def Wrap.len : Wrap → Except String Nat
  | .mapIter x => x.len | .mapIterMut x => x.len | .mapKeys x => x.len
  | .mapValues x => x.len | .mapValuesMut x => x.len | .setIter x => x.len
  | .tableIter x => x.len | .tableIterMut x => x.len

/-- `Iterator::fold` (every one of these types overrides it): the items handed to the closure. -/
def Wrap.fold (cfg : Cfg) (t : Raw) : Wrap → Except String (List Item)
  | .mapIter x => (x.fold cfg t).map (·.map pairItem)
  | .mapIterMut x => (x.fold cfg t).map (·.map pairItem)
  | .mapKeys x => (x.fold cfg t).map (·.map keyItem)
  | .mapValues x => (x.fold cfg t).map (·.map valItem)
  | .mapValuesMut x => (x.fold cfg t).map (·.map valItem)
  | .setIter x => (x.fold cfg t).map (·.map keyItem)
  | .tableIter x => (x.fold cfg t).map (·.map elemItem)
  | .tableIterMut x => (x.fold cfg t).map (·.map elemItem)

/-- `Clone::clone`, for the types that have it. -/
def Wrap.clone : Wrap → Option Wrap
  | .mapIter x => some (.mapIter x.clone)
  | .mapKeys x => some (.mapKeys x.clone)
  | .mapValues x => some (.mapValues x.clone)
  | .setIter x => some (.setIter x.clone)
  | .tableIter x => some (.tableIter x.clone)
  | .mapIterMut _ | .mapValuesMut _ | .tableIterMut _ => none

/-- `Default::default`. -/
def Wrap.default (cfg : Cfg) : Kind → Except String Wrap
  | .mapIter => (MapIter.default cfg).map .mapIter
  | .mapIterMut => (MapIterMut.default cfg).map .mapIterMut
  | .mapKeys => (Keys.default cfg).map .mapKeys
  | .mapValues => (Values.default cfg).map .mapValues
  | .mapValuesMut => (ValuesMut.default cfg).map .mapValuesMut
  | .setIter => (SetIter.default cfg).map .setIter
  | .tableIter => (TableIter.default cfg).map .tableIter
  | .tableIterMut => (TableIterMut.default cfg).map .tableIterMut

/-- `n` calls of `next`: what each call returned, and the final state. -/
def Wrap.nextN (cfg : Cfg) (t : Raw) : Nat → Wrap → Except String (List (Option Item) × Wrap)
  | 0, w => .ok ([], w)
  | n + 1, w =>
    match w.next cfg t with
    | .error f => .error f
    | .ok (o, w') =>
      match Wrap.nextN cfg t n w' with
      | .error f => .error f
      | .ok (os, w'') => .ok (o :: os, w'')

/-! ## owning iterators -/

/-- `RawIntoIter` (raw/mod.rs:3851) / `RawDrain` (:3935): a raw iterator together with the table it
    owns (`allocation` resp. `table`); the two differ only in `Drop`. -/
structure RawOwn where
  iter : RawIter
  held : Raw
deriving Repr

/-- `RawTable::into_iter` (raw/mod.rs:3377) / `RawTable::drain` (:1347): `let iter = self.iter()`,
    the table moves into the iterator; the collection is gone (`into_iter`) resp. holds `NEW` for the
    duration (`drain`, `mem::replace(&mut self.table, RawTableInner::NEW)`). -/
def RawOwn.new (cfg : Cfg) (w : World) : Except String (RawOwn × World) :=
  match RawIter.new cfg w.t with
  | .error f => .error f
  | .ok it => .ok ({ iter := it, held := w.t }, { w with t := Raw.new cfg.W })

/-- `RawIntoIter::next` (raw/mod.rs:3921) / `RawDrain::next` (:3992): `Some(self.iter.next()?.read())`. -/
def RawOwn.next (cfg : Cfg) (o : RawOwn) : Except String (Option (Nat × Elem) × RawOwn) :=
  match o.iter.next cfg o.held with
  | .error f => .error f
  | .ok (none, it') => .ok (none, { o with iter := it' })
  | .ok (some idx, it') =>
    match slotTake o.held idx with
    | .error f => .error f
    | .ok (e, t') => .ok (some (idx, e), { iter := it', held := t' })

/-- `size_hint` (raw/mod.rs:3926 / :4000): `self.iter.size_hint()`. -/
def RawOwn.sizeHint (o : RawOwn) : Nat × Option Nat := rawSizeHint o.iter
/-- `impl ExactSizeIterator for RawIntoIter {}` (:3931) / `RawDrain` (:4005): the default `len`. -/
def RawOwn.len (o : RawOwn) : Except String Nat := exactLen o.sizeHint

/-- `Drop for RawIntoIter` (raw/mod.rs:3893): `self.iter.drop_elements()`, then free the block. -/
def RawOwn.dropIntoIter (cfg : Cfg) (env : Env) (o : RawOwn) (w : World) : Res World :=
  Map.intoIterFinish cfg env o.held o.iter o.held w

/-- `Drop for RawDrain` (raw/mod.rs:3969): `drop_elements`, `clear_no_drop`, move the table back. A
    panicking destructor unwinds before the table is put back. -/
def RawOwn.dropDrain (cfg : Cfg) (env : Env) (o : RawOwn) (w : World) : Res World :=
  match Map.iterDropElements cfg env o.iter o.held w with
  | .ok (p, held'', w1) =>
    let back := clearNoDrop { held'' with slots := Array.replicate held''.slots.size none }
    if p then .panic "drop" w1 else .ok { w1 with t := back }
  | .panic c w' => .panic c w'
  | .abort => .abort
  | .fault f => .fault f

/-- `Default for RawIntoIter` (raw/mod.rs:3908): `iter: Default::default(), allocation: None`. -/
def RawOwn.default (cfg : Cfg) : Except String RawOwn :=
  (rawDefault cfg).map fun it => { iter := it, held := Raw.new cfg.W }

inductive OKind where
  | mapIntoIter | mapIntoKeys | mapIntoValues | mapDrain | setIntoIter | setDrain
  | tableIntoIter | tableDrain
deriving DecidableEq, Repr

/-- Is the innermost raw iterator a `RawDrain` (else a `RawIntoIter`)? -/
def OKind.isDrain : OKind → Bool
  | .mapDrain | .setDrain | .tableDrain => true
  | _ => false

/-- An owning public iterator: every one of them is a chain of single-field structs around one
    `RawIntoIter` / `RawDrain` (`IntoKeys { inner: IntoIter { inner: RawIntoIter } }`, …), so the state
    is the raw one plus the static type. -/
structure Own where
  kind : OKind
  raw : RawOwn
deriving Repr

/-- `into_iter()` (map.rs:3148, set.rs:1771, table.rs:1131), `into_keys()` (map.rs:1035),
    `into_values()` (map.rs:1063), `drain()` (map.rs:888, set.rs:348, table.rs:903). -/
def Own.new (cfg : Cfg) (kind : OKind) (w : World) : Except String (Own × World) :=
  match RawOwn.new cfg w with
  | .error f => .error f
  | .ok (r, w') => .ok ({ kind := kind, raw := r }, w')

/-- `map::IntoIter::next` (map.rs:3272) = `map::Drain::next` (map.rs:3434): `self.inner.next()`. -/
def mapOwnNext (cfg : Cfg) (r : RawOwn) : Except String (Option (Nat × Elem) × RawOwn) := r.next cfg

/-- One `next` of an owning iterator: `Res`, because `IntoKeys`/`IntoValues` run a destructor.
    * `map::IntoIter` (map.rs:3272), `map::Drain` (:3434), `table::IntoIter` (table.rs:2248),
      `table::Drain` (:2305): `self.inner.next()`;
    * `IntoKeys` (map.rs:2316): `self.inner.next().map(|(k, _)| k)` — the value half of the pair is
      dropped when the closure returns;
    * `IntoValues` (map.rs:2394): `self.inner.next().map(|(_, v)| v)` — the key half is dropped; if
      that destructor panics the value already moved to the return slot is leaked;
    * `set::IntoIter` (set.rs:1840), `set::Drain` (:1879): `match self.iter.next() { Some((k, _)) =>
      Some(k), None => None }` — the other half is `()`. -/
def Own.next (cfg : Cfg) (env : Env) (o : Own) (w : World) : Res (Option Item × Own × World) :=
  match mapOwnNext cfg o.raw with
  | .error f => .fault f
  | .ok (none, r) => .ok (none, { o with raw := r }, w)
  | .ok (some (i, e), r) =>
    let o' := { o with raw := r }
    match o.kind with
    | .mapIntoIter | .mapDrain => .ok (some (.pair i e), o', w)
    | .tableIntoIter | .tableDrain => .ok (some (.elem i e), o', w)
    | .setIntoIter | .setDrain => .ok (some (.key i e.k e.kid), o', w)
    | .mapIntoKeys => .ok (some (.key i e.k e.kid), o', Map.dropVal cfg e.vid w)
    | .mapIntoValues =>
      match dropKeyR cfg env e.kid w with
      | .ok w1 => .ok (some (.val i e.vid e.v), o', w1)
      | .panic c w1 =>
        -- unwinding drops the iterator itself (destructors run quietly while unwinding)
        match r.dropIntoIter cfg (Map.quietEnv env) w1 with
        | .ok w2 => .panic c w2
        | x => x.bind fun _ => .fault "unreachable"
      | .abort => .abort
      | .fault f => .fault f

/-- `size_hint` of every owning wrapper forwards to `inner.size_hint()` (map.rs:3276, 2320, 2398,
    3438; set.rs:1848, 1887; table.rs:2252, 2309). -/
def Own.sizeHint (o : Own) : Nat × Option Nat := o.raw.sizeHint
/-- `len` of every owning wrapper forwards to `inner.len()` (map.rs:3290, 2335, 2413, 3452;
    set.rs:1862, 1901; table.rs:2269, 2323). -/
def Own.len (o : Own) : Except String Nat := o.raw.len

/-- `Drop` of the wrapper = `Drop` of its raw iterator. -/
def Own.drop (cfg : Cfg) (env : Env) (o : Own) (w : World) : Res World :=
  if o.kind.isDrain then o.raw.dropDrain cfg env w else o.raw.dropIntoIter cfg env w

/-- `Default` (map.rs:3260, 2304, 2382; set.rs:1828; table.rs:2233). The `Drain` types have none. -/
def Own.default (cfg : Cfg) (kind : OKind) : Option (Except String Own) :=
  if kind.isDrain then none else some ((RawOwn.default cfg).map fun r => { kind := kind, raw := r })

/-- `n` calls of `next` (stopping at the first `None`), the items yielded. -/
def Own.nextN (cfg : Cfg) (env : Env) : Nat → Own → World → Res (List Item × Own × World)
  | 0, o, w => .ok ([], o, w)
  | n + 1, o, w =>
    match o.next cfg env w with
    | .ok (none, o', w') => .ok ([], o', w')
    | .ok (some x, o', w') =>
      match Own.nextN cfg env n o' w' with
      | .ok (xs, o'', w'') => .ok (x :: xs, o'', w'')
      | .panic c w'' => .panic c w''
      | .abort => .abort
      | .fault f => .fault f
    | .panic c w' => .panic c w'
    | .abort => .abort
    | .fault f => .fault f

/-- Create the iterator, call `next` up to `n` times, drop it. -/
def Own.run (cfg : Cfg) (env : Env) (kind : OKind) (n : Nat) (w : World) : Res (List Item × World) :=
  match Own.new cfg kind w with
  | .error f => .fault f
  | .ok (o, w0) =>
    match Own.nextN cfg env n o w0 with
    | .ok (xs, o', w1) =>
      match o'.drop cfg env w1 with
      | .ok w2 => .ok (xs, w2)
      | .panic c w2 => .panic c w2
      | .abort => .abort
      | .fault f => .fault f
    | .panic c w' => .panic c w'
    | .abort => .abort
    | .fault f => .fault f

/-- `fold` of an owning wrapper: all of them forward to `RawIntoIter`/`RawDrain`, which do NOT
    override `fold` (raw/mod.rs:3917, :3988), i.e. `while let Some(x) = self.next() { … }` and then
    the iterator (taken by value) is dropped. -/
def Own.fold (cfg : Cfg) (env : Env) (kind : OKind) (w : World) : Res (List Item × World) :=
  Own.run cfg env kind (w.t.buckets + 2) w

end IW
end Hb
