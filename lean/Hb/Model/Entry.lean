/-
Layer 2b — entry-style APIs of `HashMap` and friends:
`entry` / `entry_ref` / `try_insert` (`src/map.rs`), `raw_entry_mut` / `raw_entry` (`src/raw_entry.rs`),
`rustc_entry` (`src/rustc_entry.rs`), `extend` / `from_iter`, `get_many_mut`, `Index`,
`insert_unique_unchecked`, `into_keys` / `into_values`, `values_mut`.

One protocol operation = ONE complete use of an entry object: the look-up that creates the entry, then a
*chain* of entry methods, then the drop of whatever the chain left over. Key/value objects named by the
operation are created by the caller before the call; every one of them is afterwards in exactly one of
{stored in the table, returned to the caller (not logged), dropped (logged)}. When a callback unwinds,
everything the call (or the caller's frame) still owns is dropped during unwinding (`…Quiet`).
-/
import Hb.Model.Api
namespace Hb
namespace Map

/-! ### helpers -/

/-- Drop of a value object on its own (never panics, is not a `Drop for K` call: `dc` unchanged). -/
def dropVal (cfg : Cfg) (vid : Nat) (w : World) : World :=
  if cfg.needsDrop then { w with log := .dropV vid :: w.log } else w

def dropValOpt (cfg : Cfg) (vid : Option Nat) (w : World) : World :=
  match vid with
  | some vid => dropVal cfg vid w
  | none => w

/-- Destructors that run while the thread is already unwinding never start a second panic. -/
def quietEnv (env : Env) : Env := { env with dropPanics := fun _ _ => false }

def dropAllQuiet (cfg : Cfg) (l : List Elem) (w : World) : World :=
  l.foldl (fun w e => w.dropElemQuiet cfg e) w

/-- Overwrite the live element of bucket `idx` in place (`*bucket.as_mut() = …`). -/
def slotSet (t : Raw) (idx : Nat) (e : Elem) : Raw :=
  { t with slots := t.slots.setIfInBounds idx (some e) }

/-- What an operation hands back, for printing. -/
inductive EOut where
  | none
  | val (vid v : Nat)            -- `&mut V` / `V`
  | elem (e : Elem)              -- `(&K, &V)` / `(K, V)` / an occupied entry
  | key (k kid : Nat)            -- `&K` / `K`
  | qkey (k : Nat)               -- `&Q`
  | entOcc (e : Elem)            -- resulting `Entry::Occupied`
  | entVac (k kid : Nat)         -- resulting `Entry::Vacant` holding this key object
  | entVacRaw                    -- resulting `RawEntryMut::Vacant`
deriving Repr

/-- Methods applied to an `Entry` / `EntryRef` / `RustcEntry` (one complete use). -/
inductive EChain where
  | insert (vid v : Nat)                       -- `Entry::insert`
  | orInsert (vid v : Nat)                     -- `or_insert`, `or_insert_with` (closure owns the value)
  | orInsertWithKey (vid v : Nat)              -- `or_insert_with_key(|k| V(vid, v + k.id))`
  | andModifyOrInsert (nv vid v : Nat)         -- `and_modify(|x| x.v = nv).or_insert(..)`
  | key
  | drop
  | occRemove
  | occRemoveEntry
  | occInsert (vid v : Nat)                    -- `OccupiedEntry::insert`
  | occGetMut (nv : Nat)
  | replaceEntryWith (keep : Bool) (nv : Nat)  -- `OccupiedEntry::replace_entry_with`
  | andReplaceEntryWith (keep : Bool) (nv : Nat)
  | vacInsert (vid v : Nat)                    -- `VacantEntry::insert`
  | vacInsertEntry (vid v : Nat)
  | vacIntoKey
deriving Repr

/-- The value object the caller created for this chain (dropped if it is never consumed). -/
def EChain.heldVid : EChain → Option Nat
  | .insert vid _ | .orInsert vid _ | .orInsertWithKey vid _ | .andModifyOrInsert _ vid _
  | .occInsert vid _ | .vacInsert vid _ | .vacInsertEntry vid _ => some vid
  | _ => none

abbrev EntRes := Res ((Bool × EOut) × World)

/-! ### chains on an occupied entry (shared by `entry`, `entry_ref`, `rustc_entry`) -/

/-- The entry is `Occupied(bucket idx)`. The key passed to `entry()` is gone already. -/
def chainOcc (cfg : Cfg) (env : Env) (idx : Nat) (c : EChain) (w : World) : EntRes := do
  let old ← liftE (slotGet w.t idx)
  match c with
  | .insert vid v =>
    -- `entry.insert(value);` the old value is a temporary dropped at the end of the statement
    let e' := { old with vid := vid, v := v }
    pure ((true, .elem e'), dropVal cfg old.vid { w with t := slotSet w.t idx e' })
  | .orInsert vid _ | .orInsertWithKey vid _ =>
    -- `default` (or the closure that owns it) is dropped unused
    pure ((true, .val old.vid old.v), dropVal cfg vid w)
  | .andModifyOrInsert nv vid _ =>
    let e' := { old with v := nv }
    pure ((true, .val old.vid nv), dropVal cfg vid { w with t := slotSet w.t idx e' })
  | .key => pure ((true, .key old.k old.kid), w)
  | .drop => pure ((true, .none), w)
  | .occRemove =>
    -- `self.remove_entry().1`: the key half of the pair is dropped inside `remove`
    let (e, t') ← liftE (removeAt cfg w.t idx)
    let w2 ← dropKeyR cfg env e.kid { w with t := t' }
    pure ((true, .val e.vid e.v), w2)
  | .occRemoveEntry =>
    let (e, t') ← liftE (removeAt cfg w.t idx)
    pure ((true, .elem e), { w with t := t' })
  | .occInsert vid v =>
    let e' := { old with vid := vid, v := v }
    pure ((true, .val old.vid old.v), { w with t := slotSet w.t idx e' })
  | .occGetMut nv =>
    let e' := { old with v := nv }
    pure ((true, .val old.vid nv), { w with t := slotSet w.t idx e' })
  | .replaceEntryWith keep nv | .andReplaceEntryWith keep nv =>
    let (_, item, t') ← liftE (replaceBucketWith cfg w.t idx
      (fun it => if keep then some { it with v := nv } else none))
    if keep then pure ((true, .entOcc { item with v := nv }), { w with t := t' })
    else
      -- the closure drops the value; the spare key comes back inside `Entry::Vacant` and is dropped with it
      let w1 := dropVal cfg item.vid { w with t := t' }
      let w2 ← dropKeyR cfg env item.kid w1
      pure ((true, .entVac item.k item.kid), w2)
  | .vacInsert vid _ | .vacInsertEntry vid _ => pure ((true, .none), dropVal cfg vid w)
  | .vacIntoKey => pure ((true, .none), w)

/-- The entry is `Vacant` and holds the key object `(k, kid)`; `ins` is the insertion primitive
    (`RawTable::insert` for `entry`, `insert_no_grow` for `rustc_entry`). -/
def chainVac (cfg : Cfg) (env : Env) (ins : Elem → World → Res (Nat × World)) (k kid : Nat)
    (c : EChain) (w : World) : EntRes :=
  let put (e : Elem) (out : EOut) : EntRes := do
    let (_, w') ← ins e w
    pure ((false, out), w')
  let dropEntry (out : EOut) (w : World) : EntRes := do
    let w' ← dropKeyR cfg env kid w
    pure ((false, out), w')
  match c with
  | .insert vid v | .vacInsertEntry vid v => put ⟨k, kid, vid, v⟩ (.elem ⟨k, kid, vid, v⟩)
  | .orInsert vid v | .vacInsert vid v | .andModifyOrInsert _ vid v => put ⟨k, kid, vid, v⟩ (.val vid v)
  | .orInsertWithKey vid v => put ⟨k, kid, vid, v + kid⟩ (.val vid (v + kid))
  | .key => dropEntry (.key k kid) w
  | .drop | .occRemove | .occRemoveEntry | .occGetMut _ | .replaceEntryWith _ _ => dropEntry .none w
  | .occInsert vid _ => dropEntry .none (dropVal cfg vid w)
  | .andReplaceEntryWith _ _ => dropEntry (.entVac k kid) w
  | .vacIntoKey => .ok ((false, .key k kid), w)        -- handed back to the caller

/-- `RawTable::insert(hash, (k, v), hasher)` as called by the vacant entries: the pair is owned by
    the call and dropped if the hasher unwinds inside `reserve(1)`. -/
def insOwned (cfg : Cfg) (env : Env) (hash : Nat) (e : Elem) (w : World) : Res (Nat × World) :=
  (rawInsert cfg env hash e w).onPanic (·.dropElemQuiet cfg e)

/-! ### `HashMap::entry` (map.rs:1229) -/

/-- Look-up part: `(hash, Some(bucket))` = Occupied — the key passed in has been dropped at the end
    of `entry()` — or `(hash, None)` = Vacant, key kept. Unwinding drops the key. -/
def entryLook (cfg : Cfg) (env : Env) (k kid : Nat) (w : World) : Res ((Nat × Option Nat) × World) :=
  let search : Res (Nat × Option Nat × World) :=
    (do
      let (h, w1) ← makeHash env k w
      let (r, w2) ← find cfg env h k w1
      pure (h, r, w2)).onPanic (·.dropKeyQuiet cfg kid)
  search.bind fun (h, r, w2) =>
    match r with
    | some idx => (dropKeyR cfg env kid w2).bind fun w3 => .ok ((h, some idx), w3)
    | none => .ok ((h, none), w2)

/-- `map.entry(K(k, kid))` followed by chain `c`. -/
def entry (cfg : Cfg) (env : Env) (k kid : Nat) (c : EChain) (w : World) : EntRes :=
  ((entryLook cfg env k kid w).onPanic (dropValOpt cfg c.heldVid)).bind fun ((h, r), w1) =>
    match r with
    | some idx => chainOcc cfg env idx c w1
    | none => chainVac cfg env (insOwned cfg env h) k kid c w1

/-- `map.try_insert(K(k, kid), V(vid, v))` (map.rs:1915): `true` = `Ok`, `false` = `Err(OccupiedError)`
    (the rejected value travels back to the caller inside the error). -/
def tryInsert (cfg : Cfg) (env : Env) (e : Elem) (w : World) : EntRes :=
  ((entryLook cfg env e.k e.kid w).onPanic (dropVal cfg e.vid)).bind fun ((h, r), w1) =>
    match r with
    | some idx => (liftE (slotGet w1.t idx)).bind fun cur => .ok ((false, .elem cur), w1)
    | none => (insOwned cfg env h e w1).bind fun (_, w2) => .ok ((true, .elem e), w2)

/-! ### `HashMap::entry_ref` (map.rs:1264) -/

/-- `map.entry_ref(&Q(k))` + chain. No key object exists until a vacant entry converts `&Q` into `K`
    (`newkid`) right before `RawTable::insert`. -/
def entryRef (cfg : Cfg) (env : Env) (k newkid : Nat) (c : EChain) (w : World) : EntRes :=
  let search : Res (Nat × Option Nat × World) :=
    (do
      let (h, w1) ← makeHash env k w
      let (r, w2) ← find cfg env h k w1
      pure (h, r, w2)).onPanic (dropValOpt cfg c.heldVid)
  search.bind fun (h, r, w1) =>
    match r, c with
    | some idx, .key => (liftE (slotGet w1.t idx)).bind fun old => .ok ((true, .qkey old.k), w1)
    | some idx, _ => chainOcc cfg env idx c w1
    | none, .key => .ok ((false, .qkey k), w1)
    | none, .insert vid v =>
      (insOwned cfg env h ⟨k, newkid, vid, v⟩ w1).bind fun (_, w2) => .ok ((false, .elem ⟨k, newkid, vid, v⟩), w2)
    | none, .orInsert vid v | none, .andModifyOrInsert _ vid v =>
      (insOwned cfg env h ⟨k, newkid, vid, v⟩ w1).bind fun (_, w2) => .ok ((false, .val vid v), w2)
    | none, _ => .ok ((false, .none), dropValOpt cfg c.heldVid w1)

/-! ### `HashMap::rustc_entry` (rustc_entry.rs:32) -/

/-- Look-up part. Vacant ⇒ `self.reserve(1)` runs *before* the entry is handed out. -/
def rustcLook (cfg : Cfg) (env : Env) (k kid : Nat) (w : World) : Res ((Nat × Option Nat) × World) :=
  let search : Res (Nat × Option Nat × World) :=
    (do
      let (h, w1) ← makeHash env k w
      let (r, w2) ← find cfg env h k w1
      match r with
      | some idx => pure (h, some idx, w2)
      | none =>
        let w3 ← Hb.reserve cfg env 1 w2
        pure (h, none, w3)).onPanic (·.dropKeyQuiet cfg kid)
  search.bind fun (h, r, w2) =>
    match r with
    | some idx => (dropKeyR cfg env kid w2).bind fun w3 => .ok ((h, some idx), w3)
    | none => .ok ((h, none), w2)

/-- `RustcVacantEntry::insert` / `insert_entry`: `insert_no_grow`. -/
def insNoGrow (cfg : Cfg) (hash : Nat) (e : Elem) (w : World) : Res (Nat × World) :=
  match insertNoGrow cfg hash e w.t with
  | .error f => .fault f
  | .ok (idx, t') => .ok (idx, { w with t := t' })

def rustcEntry (cfg : Cfg) (env : Env) (k kid : Nat) (c : EChain) (w : World) : EntRes :=
  ((rustcLook cfg env k kid w).onPanic (dropValOpt cfg c.heldVid)).bind fun ((h, r), w1) =>
    match r with
    | some idx => chainOcc cfg env idx c w1
    | none => chainVac cfg env (insNoGrow cfg h) k kid c w1

/-! ### `raw_entry_mut` / `raw_entry` (raw_entry.rs) -/

inductive RawMode where
  | fromKey            -- hashes `&Q` with the map's hasher
  | fromKeyHashed      -- caller-supplied hash
  | fromHash           -- caller-supplied hash and `is_match` closure
deriving DecidableEq, Repr

inductive RawChain where
  | insert (kid vid v : Nat)                 -- `RawEntryMut::insert(key, value)`
  | orInsert (kid vid v : Nat)
  | vacInsert (kid vid v : Nat)              -- `RawVacantEntryMut::insert`: hashes the key
  | vacInsertHashed (kid vid v : Nat)        -- `insert_hashed_nocheck` / `insert_with_hasher`
  | occRemove
  | occRemoveEntry
  | occInsert (vid v : Nat)
  | occInsertKey (kid : Nat)
  | andModify (nv : Nat)
  | replaceEntryWith (keep : Bool) (nv : Nat)
  | drop
deriving Repr

/-- Objects the caller created for the chain: `(key id, value id)`. -/
def RawChain.held : RawChain → Option Nat × Option Nat
  | .insert kid vid _ | .orInsert kid vid _ | .vacInsert kid vid _ | .vacInsertHashed kid vid _ =>
    (some kid, some vid)
  | .occInsert vid _ => (none, some vid)
  | .occInsertKey kid => (some kid, none)
  | _ => (none, none)

/-- Caller-held objects dropped while unwinding. -/
def dropHeldQuiet (cfg : Cfg) (held : Option Nat × Option Nat) (w : World) : World :=
  let w := dropValOpt cfg held.2 w
  match held.1 with
  | some kid => w.dropKeyQuiet cfg kid
  | none => w

/-- `from_key` / `from_key_hashed_nocheck` / `from_hash`: `ph` is the caller-supplied hash. -/
def rawLook (cfg : Cfg) (env : Env) (mode : RawMode) (ph k : Nat) (w : World) : Res (Option Nat × World) := do
  let (h, w1) ← if mode = .fromKey then makeHash env k w else pure (ph, w)
  find cfg env h k w1

def rawEntry (cfg : Cfg) (env : Env) (mode : RawMode) (ph k : Nat) (c : RawChain) (w : World) : EntRes :=
  ((rawLook cfg env mode ph k w).onPanic (dropHeldQuiet cfg c.held)).bind fun (r, w1) =>
    match r with
    | some idx => do
      let old ← liftE (slotGet w1.t idx)
      match c with
      | .insert kid vid v =>
        -- old value dropped at once, the unused `key` argument at the end of `RawEntryMut::insert`
        let e' := { old with vid := vid, v := v }
        let w2 ← dropKeyR cfg env kid (dropVal cfg old.vid { w1 with t := slotSet w1.t idx e' })
        pure ((true, .elem e'), w2)
      | .orInsert kid vid _ =>
        let w2 ← dropKeyR cfg env kid (dropVal cfg vid w1)
        pure ((true, .elem old), w2)
      | .vacInsert kid vid _ | .vacInsertHashed kid vid _ =>
        let w2 ← dropKeyR cfg env kid (dropVal cfg vid w1)
        pure ((true, .none), w2)
      | .occRemove =>
        let (e, t') ← liftE (removeAt cfg w1.t idx)
        let w2 ← dropKeyR cfg env e.kid { w1 with t := t' }
        pure ((true, .val e.vid e.v), w2)
      | .occRemoveEntry =>
        let (e, t') ← liftE (removeAt cfg w1.t idx)
        pure ((true, .elem e), { w1 with t := t' })
      | .occInsert vid v =>
        pure ((true, .val old.vid old.v), { w1 with t := slotSet w1.t idx { old with vid := vid, v := v } })
      | .occInsertKey kid =>
        -- the stored KEY object is replaced by the caller's (`k`, `kid`), the old one handed back
        pure ((true, .key old.k old.kid), { w1 with t := slotSet w1.t idx { old with k := k, kid := kid } })
      | .andModify nv =>
        let e' := { old with v := nv }
        pure ((true, .elem e'), { w1 with t := slotSet w1.t idx e' })
      | .replaceEntryWith keep nv =>
        let (_, item, t') ← liftE (replaceBucketWith cfg w1.t idx
          (fun it => if keep then some { it with v := nv } else none))
        if keep then pure ((true, .entOcc { item with v := nv }), { w1 with t := t' })
        else
          -- value dropped by the closure, key dropped inside `replace_bucket_with`'s closure
          let w2 ← dropKeyR cfg env item.kid (dropVal cfg item.vid { w1 with t := t' })
          pure ((true, .entVacRaw), w2)
      | .drop => pure ((true, .none), w1)
    | none =>
      match c with
      | .insert kid vid v | .orInsert kid vid v | .vacInsert kid vid v =>
        let e : Elem := ⟨k, kid, vid, v⟩
        ((makeHash env k w1).onPanic (·.dropElemQuiet cfg e)).bind fun (h, w2) =>
          (insOwned cfg env h e w2).bind fun (_, w3) => .ok ((false, .elem e), w3)
      | .vacInsertHashed kid vid v =>
        let e : Elem := ⟨k, kid, vid, v⟩
        (insOwned cfg env ph e w1).bind fun (_, w3) => .ok ((false, .elem e), w3)
      | .occInsert vid _ => .ok ((false, .none), dropVal cfg vid w1)
      | .occInsertKey kid => (dropKeyR cfg env kid w1).bind fun w2 => .ok ((false, .none), w2)
      | _ => .ok ((false, .none), w1)

/-- `raw_entry().from_key(&Q(k))` / `.from_hash(ph, is_match)`: no emptiness shortcut. -/
def rawGet (cfg : Cfg) (env : Env) (mode : RawMode) (ph k : Nat) (w : World) : Res (Option Elem × World) := do
  let (r, w1) ← rawLook cfg env mode ph k w
  match r with
  | none => pure (none, w1)
  | some idx =>
    let e ← liftE (slotGet w1.t idx)
    pure (some e, w1)

/-! ### `extend` (map.rs:4442), `from_iter` (map.rs:4422) -/

/-- `iter.for_each(|(k, v)| { self.insert(k, v); })`: the replaced value is dropped at once; when a
    callback unwinds, the `vec::IntoIter` drops the pairs not yet consumed. -/
def insertMany (cfg : Cfg) (env : Env) : List Elem → World → Res World
  | [], w => .ok w
  | e :: rest, w =>
    match insert cfg env e w with
    | .ok (old, w1) => insertMany cfg env rest (dropValOpt cfg (old.map (·.1)) w1)
    | .panic c w' => .panic c (dropAllQuiet cfg rest w')
    | .abort => .abort
    | .fault f => .fault f

def extend (cfg : Cfg) (env : Env) (items : List Elem) (w : World) : Res World :=
  let hint := items.length
  let n := if w.t.items = 0 then hint else (hint + 1) / 2
  ((Hb.reserve cfg env n w).onPanic (dropAllQuiet cfg items)).bind fun w1 => insertMany cfg env items w1

/-- `*m = HashMap::from_iter(vec)` with the previous map dropped first. If a callback unwinds, the
    map under construction is dropped (elements, block) and the target stays `new()`. -/
def fromIter (cfg : Cfg) (env : Env) (items : List Elem) (w : World) : Res World :=
  let old := w.t
  ((dropInnerTable cfg env old { w with t := Raw.new cfg.W }).onPanic (dropAllQuiet cfg items)).bind fun w1 =>
    ((withCapacity cfg env items.length w1).onPanic (dropAllQuiet cfg items)).bind fun w2 =>
      match insertMany cfg env items w2 with
      | .panic c w' =>
        match dropInnerTable cfg (quietEnv env) w'.t { w' with t := Raw.new cfg.W } with
        | .ok w'' => .panic c w''
        | r => r
      | r => r

/-! ### `get_many_mut` / `get_many_key_value_mut` (map.rs:1534, raw/mod.rs:1239) -/

/-- `build_hashes_inner`: all keys are hashed first. -/
def hashAll (env : Env) : List Nat → World → Res (List Nat × World)
  | [], w => .ok ([], w)
  | k :: rest, w => do
    let (h, w1) ← makeHash env k w
    let (hs, w2) ← hashAll env rest w1
    pure (h :: hs, w2)

/-- `get_many_mut_pointers`: one `find` per request, in request order. -/
def findAll (cfg : Cfg) (env : Env) : List (Nat × Nat) → World → Res (List (Option Nat) × World)
  | [], w => .ok ([], w)
  | (h, k) :: rest, w => do
    let (r, w1) ← find cfg env h k w
    let (rs, w2) ← findAll cfg env rest w1
    pure (r :: rs, w2)

/-- Pointer-identity duplicate check of `RawTable::get_many_mut`. -/
def hasDup : List (Option Nat) → List Nat → Bool
  | [], _ => false
  | none :: rest, seen => hasDup rest seen
  | some p :: rest, seen => seen.contains p || hasDup rest (p :: seen)

/-- Write `v += 1000 * (i + 1)` through the `i`-th returned reference. -/
def bumpAll (t : Raw) : List (Option Nat) → Nat → Except String (List (Option Elem) × Raw)
  | [], _ => .ok ([], t)
  | none :: rest, i =>
    match bumpAll t rest (i + 1) with
    | .ok (es, t') => .ok (none :: es, t')
    | .error f => .error f
  | some p :: rest, i =>
    match slotGet t p with
    | .error f => .error f
    | .ok e =>
      match bumpAll (slotSet t p { e with v := e.v + 1000 * (i + 1) }) rest (i + 1) with
      | .ok (es, t') => .ok (some e :: es, t')
      | .error f => .error f

/-- Returns what each request saw (before the writes). -/
def getManyMut (cfg : Cfg) (env : Env) (ks : List Nat) (w : World) : Res (List (Option Elem) × World) := do
  let (hs, w1) ← hashAll env ks w
  let (ptrs, w2) ← findAll cfg env (hs.zip ks) w1
  if hasDup ptrs [] then .panic "dup" w2
  else
    let (es, t') ← liftE (bumpAll w2.t ptrs 0)
    pure (es, { w2 with t := t' })

/-! ### `Index`, `insert_unique_unchecked` -/

/-- `map[&Q(k)]` (map.rs:2094): `self.get(key).expect("no entry found for key")`. -/
def index (cfg : Cfg) (env : Env) (k : Nat) (w : World) : Res ((Nat × Nat) × World) := do
  let (r, w1) ← get cfg env k w
  match r with
  | some e => pure ((e.vid, e.v), w1)
  | none => .panic "nokey" w1

/-- `insert_unique_unchecked` (map.rs:1877): hash, then `RawTable::insert` without any look-up. -/
def insertUniqueUnchecked (cfg : Cfg) (env : Env) (e : Elem) (w : World) : Res (Elem × World) :=
  ((do
    let (h, w1) ← makeHash env e.k w
    let (_, w2) ← rawInsert cfg env h e w1
    pure (e, w2)) : Res (Elem × World)).onPanic (·.dropElemQuiet cfg e)

/-! ### `into_keys`, `into_values`, `values_mut` -/

/-- Tail of every consuming iterator: drop what was not yielded, free the block. -/
def intoIterFinish (cfg : Cfg) (env : Env) (held0 : Raw) (it : RawIter) (held : Raw) (w : World) : Res World :=
  match iterDropElements cfg env it held w with
  | .ok (p, _, w1) =>
    if p then .panic "drop" w1          -- allocation leaked
    else if held0.isEmptySingleton then .ok w1
    else freeBuckets cfg held0.mask w1
  | .panic c w' => .panic c w'
  | .abort => .abort
  | .fault f => .fault f

/-- `into_keys()` of the collection (replaced by `new()`), `next` × `n`: each `next` drops the value
    half (`.map(|(k, _)| k)`); yielded keys go back to the caller. -/
def intoKeys (cfg : Cfg) (env : Env) (n : Nat) (w : World) : Res (List Elem × World) :=
  match RawIter.new cfg w.t with
  | .error f => .fault f
  | .ok it =>
    let held := w.t
    let w0 := { w with t := Raw.new cfg.W }
    match takeLoop cfg n it held [] with
    | .error f => .fault f
    | .ok (out, it', held') =>
      let w1 := out.foldl (fun w e => dropVal cfg e.vid w) w0
      (intoIterFinish cfg env held it' held' w1).bind fun w2 => .ok (out, w2)

/-- `into_values()`, `next` × `n`: each `next` drops the key half (`.map(|(_, v)| v)`), which may
    unwind: the value of that pair is then leaked and the iterator drops the rest. -/
def intoValuesLoop (cfg : Cfg) (env : Env) (held0 : Raw) :
    Nat → RawIter → Raw → World → List Elem → Res (List Elem × World)
  | 0, it, held, w, acc => (intoIterFinish cfg env held0 it held w).bind fun w' => .ok (acc.reverse, w')
  | n + 1, it, held, w, acc =>
    match it.next cfg held with
    | .error f => .fault f
    | .ok (none, it') => (intoIterFinish cfg env held0 it' held w).bind fun w' => .ok (acc.reverse, w')
    | .ok (some idx, it') =>
      match slotTake held idx with
      | .error f => .fault f
      | .ok (e, held') =>
        match dropKeyR cfg env e.kid w with
        | .ok w1 => intoValuesLoop cfg env held0 n it' held' w1 (e :: acc)
        | .panic c w1 =>
          -- the value of this pair already sits in the closure's return slot and is *leaked*
          -- (rustc does not drop the return place when a parameter's destructor unwinds);
          -- unwinding then drops `IntoValues` itself (rest of the elements, block)
          match intoIterFinish cfg (quietEnv env) held0 it' held' w1 with
          | .ok w3 => .panic c w3
          | r => r.bind fun _ => .fault "unreachable"
        | .abort => .abort
        | .fault f => .fault f

def intoValues (cfg : Cfg) (env : Env) (n : Nat) (w : World) : Res (List Elem × World) :=
  match RawIter.new cfg w.t with
  | .error f => .fault f
  | .ok it => intoValuesLoop cfg env w.t n it w.t { w with t := Raw.new cfg.W } []

/-- `for v in map.values_mut() { v.v = nv }`. -/
def valuesMutSet (nv : Nat) (w : World) : World :=
  { w with t := { w.t with slots := w.t.slots.map fun s => s.map fun e => { e with v := nv } } }

end Map
end Hb
