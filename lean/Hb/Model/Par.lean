/-
Layer 2 — the rayon producers over `RawIterRange` (external_trait_impls/rayon/raw.rs).

rayon's `bridge_unindexed` drives an `UnindexedProducer` along a *decision tree*: at every node it
either splits the producer (`split`, both halves are then driven independently, possibly on other
threads) or consumes it as a leaf (`fold_with`); it may also drop a producer without consuming it
when the consumer is already full. Which tree is taken, and on which threads, depends on the thread
pool, work stealing and timing; none of that is modelled. What is modelled is everything hashbrown
contributes: `RawIterRange::split`, the leaf loop (`Iterator::next` = `next_impl::<true>`), the
early exit of `ParDrainProducer::fold_with` (`folder.full()`), `ParDrainProducer::drop`, and the
`clear_no_drop` guard of `RawParDrain::drive_unindexed`.

The iterators only read control bytes, which nobody writes during a parallel iteration (`par_drain`
resets them at the very end), so all leaves are evaluated against the same table `t`.
-/
import Hb.Model.Iter
namespace Hb.Par
open Hb

/-- Decision tree of the bridge: at `node` the producer is split (left subtree drives the left half,
    right subtree the right half); at `leaf` it is consumed. When `split` returns `None` the
    producer is consumed whatever the tree says. -/
inductive Tree where
  | leaf
  | node (l r : Tree)
deriving Repr, DecidableEq, Inhabited

/-- At most `k` calls of `<RawIterRange as Iterator>::next` (`next_impl::<true>`).
    Returns `(buckets yielded, range afterwards, saw None)`. -/
def takeK (cfg : Cfg) (t : Raw) : Nat → RawIterRange → List Nat →
    Except String (List Nat × RawIterRange × Bool)
  | 0, r, acc => .ok (acc.reverse, r, false)
  | k + 1, r, acc =>
    match r.nextImpl cfg t true (iterFuel t) with
    | .error f => .error f
    | .ok (none, r') => .ok (acc.reverse, r', true)
    | .ok (some i, r') => takeK cfg t k r' (i :: acc)

/-- `for item in range` until `None` (`folder.consume_iter(self.iter)` of `ParIterProducer::fold_with`,
    the loop of `ParDrainProducer::drop`). A range never holds more elements than the table has
    control bytes; running out of that budget is reported as an error. -/
def consumeAll (cfg : Cfg) (t : Raw) (r : RawIterRange) : Except String (List Nat) :=
  match takeK cfg t (t.ctrl.size + 1) r [] with
  | .error f => .error f
  | .ok (l, _, true) => .ok l
  | .ok (_, _, false) => .error "range yields more elements than there are control bytes"

/-- `ParIterProducer` driven along `tr`: the bucket indices every leaf yields, leaves left to right. -/
def leaves (cfg : Cfg) (t : Raw) : RawIterRange → Tree → Except String (List (List Nat))
  | r, .leaf =>
    match consumeAll cfg t r with
    | .error f => .error f
    | .ok l => .ok [l]
  | r, .node tl tr =>
    match r.split cfg t with
    | .error f => .error f
    | .ok (l, none) =>
      match consumeAll cfg t l with
      | .error f => .error f
      | .ok xs => .ok [xs]
    | .ok (l, some rr) =>
      match leaves cfg t l tl with
      | .error f => .error f
      | .ok a =>
        match leaves cfg t rr tr with
        | .error f => .error f
        | .ok b => .ok (a ++ b)

/-- `RawTable::par_iter()` (= `self.iter().iter`) driven along `tr`. -/
def splitLeaves (cfg : Cfg) (t : Raw) (tr : Tree) : Except String (List (List Nat)) :=
  match RawIter.new cfg t with
  | .error f => .error f
  | .ok it => leaves cfg t it.range tr

/-! ### `ParDrainProducer` (`par_drain`, `into_par_iter`) -/

/-- Decision tree for a draining producer: a leaf carries the number of elements its consumer
    accepts before `folder.full()` turns true (`0`: the bridge found the consumer already full and
    dropped the producer without calling `fold_with`; a number above the leaf's size: never full). -/
inductive DTree where
  | leaf (k : Nat)
  | node (l r : DTree)
deriving Repr, DecidableEq, Inhabited

/-- The shape of a draining tree. -/
def DTree.shape : DTree → Tree
  | .leaf _ => .leaf
  | .node l r => .node l.shape r.shape

/-- Stop count of the leftmost leaf. -/
def DTree.firstK : DTree → Nat
  | .leaf k => k
  | .node a _ => a.firstK

structure LeafOut where
  /-- buckets whose element was `read()` and handed to the consumer -/
  consumed : List Nat
  /-- buckets whose element was dropped in place by `ParDrainProducer::drop` -/
  dropped : List Nat
deriving Repr, DecidableEq

/-- `ParDrainProducer::fold_with` followed by the producer's fate: if the loop saw `None` the
    producer is forgotten (`mem::forget(self)`), otherwise it is dropped and `Drop` walks the rest of
    *its own* range (only for element types with drop glue, `mem::needs_drop::<T>()`). -/
def drainLeaf (cfg : Cfg) (t : Raw) (r : RawIterRange) (k : Nat) : Except String LeafOut :=
  match takeK cfg t k r [] with
  | .error f => .error f
  | .ok (consumed, r', sawNone) =>
    if sawNone then .ok ⟨consumed, []⟩
    else if cfg.needsDrop then
      match consumeAll cfg t r' with
      | .error f => .error f
      | .ok rest => .ok ⟨consumed, rest⟩
    else .ok ⟨consumed, []⟩

/-- `ParDrainProducer::split` is `self.iter.clone().split()` + `mem::forget(self)`: same ranges. -/
def drainTree (cfg : Cfg) (t : Raw) : RawIterRange → DTree → Except String (List LeafOut)
  | r, .leaf k =>
    match drainLeaf cfg t r k with
    | .error f => .error f
    | .ok o => .ok [o]
  | r, .node tl tr =>
    match r.split cfg t with
    | .error f => .error f
    | .ok (l, none) =>
      -- cannot be split: consumed as a leaf; the stop count is that of the leftmost leaf below
      match drainLeaf cfg t l tl.firstK with
      | .error f => .error f
      | .ok o => .ok [o]
    | .ok (l, some rr) =>
      match drainTree cfg t l tl with
      | .error f => .error f
      | .ok a =>
        match drainTree cfg t rr tr with
        | .error f => .error f
        | .ok b => .ok (a ++ b)

/-- Move the elements of the listed buckets out of their slots, one by one (`item.read()` /
    `item.drop()`); reading a slot that holds nothing (never filled, or already moved out) is a fault. -/
def takeSlots : List Nat → Raw → Except String (List Elem × Raw)
  | [], t => .ok ([], t)
  | i :: rest, t =>
    match slotTake t i with
    | .error f => .error f
    | .ok (e, t') =>
      match takeSlots rest t' with
      | .error f => .error f
      | .ok (es, t'') => .ok (e :: es, t'')

/-- The table after `RawParDrain::drive_unindexed` returns: its guard runs `clear_no_drop`
    (control bytes reset, `items = 0`, `growth_left` = capacity, allocation kept); whatever the slots
    still contain is dead memory. -/
def drainFinal (t : Raw) : Raw :=
  clearNoDrop { t with slots := Array.replicate t.slots.size none }

/-- `par_drain` driven along `dt`: per-leaf ledger, the elements moved out (in leaf order), and the
    table left behind. -/
def drainLeaves (cfg : Cfg) (t : Raw) (dt : DTree) :
    Except String (List LeafOut × List Elem × Raw) :=
  match RawIter.new cfg t with
  | .error f => .error f
  | .ok it =>
    match drainTree cfg t it.range dt with
    | .error f => .error f
    | .ok outs =>
      match takeSlots (outs.map fun o => o.consumed ++ o.dropped).flatten t with
      | .error f => .error f
      | .ok (es, _) => .ok (outs, es, drainFinal t)

end Hb.Par
