/-
`src/external_trait_impls/serde.rs` — `Serialize` / `Deserialize` for `HashMap` and `HashSet`.

* `serialize`           `collect_map(self)` / `collect_seq(self)`: the elements in iteration order;
* `visitMapGen`         `MapVisitor::visit_map` (serde.rs:73) and `SeqVisitor::visit_seq` (:156):
                        `with_capacity_and_hasher_in(cautious(size_hint), ..)`, then `insert` per entry;
                        an `Err` from the input returns through `?`, which drops the local `values`;
* `deserializeInPlace`  `SeqInPlaceVisitor::visit_seq` (:202): `clear`, `reserve(cautious(hint))`, inserts;
                        an `Err` leaves the elements inserted so far in `place`.

The input is a script: the entries the `MapAccess` / `SeqAccess` will yield (key/value *objects* are
created by the input, so they come with their identities), the length it *claims* (`size_hint`), and
where it reports an error. A set is a map whose values are `()` (`vid = v = 0`; the `dropV 0` events
the map model logs for them have no counterpart and are ignored by the driver).
-/
import Hb.Model.MapOps
namespace Hb.Serde
open Hb

/-- Where the scripted input reports an error. -/
inductive Fail where
  | never
  /-- call number `j` (0-based) of `next_key_seed` / `next_element_seed` returns `Err`; `j` may be
      the length of the script (error instead of the end marker). -/
  | atKey (j : Nat)
  /-- the key object of entry `j` is built, then `next_value_seed` returns `Err`: `next_entry`
      drops that key on its way out (maps only). -/
  | atVal (j : Nat)
deriving DecidableEq, Repr

/-- An optional failure position in the sense of the property text (`next_key` call `j` fails). -/
def Fail.ofOption : Option Nat → Fail
  | none => .never
  | some j => .atKey j

/-- Destructors that run while a panic is already unwinding never start a second panic. -/
def quietEnv (env : Env) : Env := { env with dropPanics := fun _ _ => false }

/-- `collect_map(self)` / `collect_seq(self)`: the stored elements in iteration order. -/
def serialize (cfg : Cfg) (t : Raw) : Except String (List Elem) :=
  match fullIndices cfg t t.items with
  | .error f => .error f
  | .ok idxs => idxs.mapM (slotGet t)

/-- Drop of a value object on its own (the `Option<V>` returned by `insert` and discarded): value
    destructors never panic and are not counted. -/
def dropVal (cfg : Cfg) (vid : Nat) (w : World) : World :=
  if cfg.needsDrop then { w with log := .dropV vid :: w.log } else w

/-- The result of `values.insert(key, value)` is discarded: a replaced value is dropped. -/
def discard (cfg : Cfg) (r : Option (Nat × Nat)) (w : World) : World :=
  match r with
  | some (vid, _) => dropVal cfg vid w
  | none => w

/-- `while let Some((key, value)) = map.next_entry()? { values.insert(key, value); }`
    from call number `i` on. `.ok (.error (), w)`: the input reported an error, `w.t` is the
    partially built collection (not yet dropped). -/
def feed (cfg : Cfg) (env : Env) (fail : Fail) : Nat → List Elem → World → Res (Except Unit Unit × World)
  | i, [], w => if fail = .atKey i then .ok (.error (), w) else .ok (.ok (), w)
  | i, e :: rest, w =>
    if fail = .atKey i then .ok (.error (), w)
    else if fail = .atVal i then
      match dropKeyR cfg env e.kid w with
      | .ok w1 => .ok (.error (), w1)
      | .panic c w' => .panic c w'
      | .abort => .abort
      | .fault f => .fault f
    else
      match Map.insert cfg env e w with
      | .ok (r, w1) => feed cfg env fail (i + 1) rest (discard cfg r w1)
      | .panic c w' => .panic c w'
      | .abort => .abort
      | .fault f => .fault f

/-- Drop of the local `values` (the world's table) when the visitor is left early. -/
def dropLocal (cfg : Cfg) (env : Env) (w : World) : Res World :=
  dropInnerTable cfg env w.t { w with t := Raw.new cfg.W }

/-- `visit_map` / `visit_seq`. The table of `w` on entry is irrelevant; on `.ok (.ok (), w')` the
    table of `w'` is the deserialised collection, on `.ok (.error (), w')` it is `NEW` (the partial
    collection has been dropped). -/
def visitMapGen (cfg : Cfg) (env : Env) (hint : Option Nat) (toks : List Elem) (fail : Fail)
    (w : World) : Res (Except Unit Unit × World) :=
  match withCapacity cfg env (cautious hint) w with
  | .ok w0 =>
    match feed cfg env fail 0 toks w0 with
    | .ok (.ok (), w1) => .ok (.ok (), w1)
    | .ok (.error (), w1) =>
      match dropLocal cfg env w1 with
      | .ok w2 => .ok (.error (), w2)
      | .panic c w' => .panic c w'
      | .abort => .abort
      | .fault f => .fault f
    | .panic c w' =>
      -- unwinding drops `values`
      match dropLocal cfg (quietEnv env) w' with
      | .ok w2 => .panic c w2
      | .panic _ _ => .fault "panic while unwinding"
      | .abort => .abort
      | .fault f => .fault f
    | .abort => .abort
    | .fault f => .fault f
  | .panic c w' => .panic c w'
  | .abort => .abort
  | .fault f => .fault f

/-- The function of the property text: failure, if any, at a `next_key` call. -/
def visitMap (cfg : Cfg) (env : Env) (hint : Option Nat) (toks : List Elem) (failAt : Option Nat)
    (w : World) : Res (Except Unit Unit × World) :=
  visitMapGen cfg env hint toks (Fail.ofOption failAt) w

/-- A set element as a map entry with a unit value. -/
def setElem (k kid : Nat) : Elem := ⟨k, kid, 0, 0⟩

/-- `visit_seq` of `HashSet`. -/
def visitSeq (cfg : Cfg) (env : Env) (hint : Option Nat) (toks : List (Nat × Nat)) (failAt : Option Nat)
    (w : World) : Res (Except Unit Unit × World) :=
  visitMapGen cfg env hint (toks.map fun p => setElem p.1 p.2) (Fail.ofOption failAt) w

/-- `HashSet::deserialize_in_place`: `w.t` is `place`. -/
def deserializeInPlace (cfg : Cfg) (env : Env) (hint : Option Nat) (toks : List Elem) (fail : Fail)
    (w : World) : Res (Except Unit Unit × World) :=
  match clear cfg env w with
  | .ok w0 =>
    match reserve cfg env (cautious hint) w0 with
    | .ok w1 => feed cfg env fail 0 toks w1
    | .panic c w' => .panic c w'
    | .abort => .abort
    | .fault f => .fault f
  | .panic c w' => .panic c w'
  | .abort => .abort
  | .fault f => .fault f

/-- `*target = Deserialize::deserialize(input)?`: the old collection (`w.t`) is dropped once the new
    one is complete; an error or a panic leaves it untouched. -/
def deserAssign (cfg : Cfg) (env : Env) (hint : Option Nat) (toks : List Elem) (fail : Fail)
    (w : World) : Res (Except Unit Unit × World) :=
  let old := w.t
  match visitMapGen cfg env hint toks fail w with
  | .ok (.ok (), w1) =>
    match dropInnerTable cfg env old w1 with
    | .ok w2 => .ok (.ok (), w2)
    | .panic c w' => .panic c w'
    | .abort => .abort
    | .fault f => .fault f
  | .ok (.error (), w1) => .ok (.error (), { w1 with t := old })
  | .panic c w' => .panic c { w' with t := old }
  | .abort => .abort
  | .fault f => .fault f

/-- Identities of the objects a deserialiser creates for a serialised sequence: entry `j` gets
    `(base + 2j, base + 2j + 1)` (sets: no value object). -/
def relabel (isSet : Bool) (base : Nat) : Nat → List Elem → List Elem
  | _, [] => []
  | j, e :: rest =>
    { e with kid := base + 2 * j, vid := if isSet then 0 else base + 2 * j + 1 } :: relabel isSet base (j + 1) rest

/-- Serialise `w.t`, deserialise the tokens (claimed length = true length) into a fresh collection,
    compare `old == new`, then replace the collection by the deserialised one. -/
def roundtrip (cfg : Cfg) (env : Env) (isSet : Bool) (base : Nat) (w : World) : Res (Bool × World) :=
  match serialize cfg w.t with
  | .error f => .fault f
  | .ok ser =>
    let old := w.t
    let toks := relabel isSet base 0 ser
    match visitMapGen cfg env (some toks.length) toks .never w with
    | .ok (.error (), _) => .fault "scripted input never fails"
    | .ok (.ok (), w1) =>
      let new := w1.t
      match Map.mapEq cfg env new { w1 with t := old } with
      | .ok (r, w2) =>
        match dropInnerTable cfg env old { w2 with t := new } with
        | .ok w3 => .ok (r, w3)
        | .panic c w' => .panic c w'
        | .abort => .abort
        | .fault f => .fault f
      | .panic c w' =>
        match dropInnerTable cfg (quietEnv env) new { w' with t := old } with
        | .ok w3 => .panic c w3
        | .panic _ _ => .fault "panic while unwinding"
        | .abort => .abort
        | .fault f => .fault f
      | .abort => .abort
      | .fault f => .fault f
    | .panic c w' => .panic c { w' with t := old }
    | .abort => .abort
    | .fault f => .fault f

end Hb.Serde
