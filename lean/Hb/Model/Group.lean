/-
Layer 0 — control-byte group scanners and bit masks.
  control/bitmask.rs, control/group/sse2.rs, control/group/generic.rs
A loaded group is a `List Nat` of `W` bytes (lane 0 first = lowest address).
-/
import Hb.Model.Arith
namespace Hb

/-- What the table layer needs from a scanner back-end (all lane lists ascending). -/
structure GroupOps where
  W : Nat
  /-- `group.match_tag(t)` iterated. -/
  matchTag : List Nat → Nat → List Nat
  /-- `group.match_empty()` iterated. -/
  matchEmpty : List Nat → List Nat
  /-- `group.match_empty_or_deleted()` iterated. -/
  matchSpecial : List Nat → List Nat
  /-- `group.match_full()` iterated. -/
  matchFull : List Nat → List Nat
  /-- `group.match_empty().leading_zeros()`. -/
  emptyLeadingZeros : List Nat → Nat
  /-- `group.match_empty().trailing_zeros()`. -/
  emptyTrailingZeros : List Nat → Nat
  /-- `convert_special_to_empty_and_full_to_deleted`. -/
  convert : List Nat → List Nat

/-! ### Byte-wise specification -/
namespace Spec

def lanesWhere (p : Nat → Bool) (g : List Nat) : List Nat :=
  (List.range g.length).filter fun i => p (g.getD i 0)

def matchTag (g : List Nat) (t : Nat) : List Nat := lanesWhere (· == t) g
def matchEmpty (g : List Nat) : List Nat := lanesWhere (· == EMPTY) g
def matchSpecial (g : List Nat) : List Nat := lanesWhere isSpecial g
def matchFull (g : List Nat) : List Nat := lanesWhere isFull g
/-- Number of non-EMPTY lanes after the last EMPTY one (`W` if none). -/
def emptyLeadingZeros (g : List Nat) : Nat :=
  match (matchEmpty g).getLast? with
  | none => g.length
  | some i => g.length - 1 - i
/-- Number of non-EMPTY lanes before the first EMPTY one (`W` if none). -/
def emptyTrailingZeros (g : List Nat) : Nat :=
  match (matchEmpty g).head? with
  | none => g.length
  | some i => i
def convert (g : List Nat) : List Nat := g.map fun b => if isSpecial b then EMPTY else DELETED

def ops (W : Nat) : GroupOps :=
  { W, matchTag, matchEmpty, matchSpecial, matchFull, emptyLeadingZeros, emptyTrailingZeros, convert }

end Spec

/-! ### `BitMask` over a `w`-bit word with a stride (`control/bitmask.rs`) -/
namespace BitMask

/-- `trailing_zeros` of a `w`-bit word (`w` for zero). -/
def tz (w : Nat) (x : Nat) : Nat :=
  (List.range w).find? (fun i => x.testBit i) |>.getD w

/-- `leading_zeros` of a `w`-bit word (`w` for zero). -/
def lz (w : Nat) (x : Nat) : Nat :=
  (List.range w).find? (fun i => x.testBit (w - 1 - i)) |>.getD w

/-- `remove_lowest_bit`: `x & (x - 1)`. -/
def removeLowestBit (x : Nat) : Nat := x &&& (x - 1)

/-- `lowest_set_bit`. -/
def lowestSetBit (w stride x : Nat) : Option Nat :=
  if x = 0 then none else some (tz w x / stride)

/-- `BitMaskIter` run to exhaustion (fuel = word width). -/
def iter (w stride : Nat) : Nat → Nat → List Nat
  | 0, _ => []
  | fuel + 1, x =>
    match lowestSetBit w stride x with
    | none => []
    | some b => b :: iter w stride fuel (removeLowestBit x)

def lanes (w stride x : Nat) : List Nat := iter w stride w x

end BitMask

/-! ### SSE2 back-end (`control/group/sse2.rs`): 16 lanes, `u16` mask, stride 1 -/
namespace Sse2

/-- `_mm_movemask_epi8(v)`: bit `i` = top bit of lane `i`. -/
def movemask (v : List Nat) : Nat :=
  (List.range v.length).foldl (fun acc i => if v.getD i 0 % 256 ≥ 128 then acc ||| (1 <<< i) else acc) 0

/-- `_mm_cmpeq_epi8(a, set1(t))`. -/
def cmpeq (g : List Nat) (t : Nat) : List Nat := g.map fun b => if b == t then 255 else 0

/-- `_mm_cmpgt_epi8(zero, g)`: signed `0 > lane`. -/
def cmpgtZero (g : List Nat) : List Nat := g.map fun b => if b % 256 ≥ 128 then 255 else 0

def matchTagMask (g : List Nat) (t : Nat) : Nat := movemask (cmpeq g t)
def matchEmptyMask (g : List Nat) : Nat := matchTagMask g EMPTY
def matchSpecialMask (g : List Nat) : Nat := movemask g
/-- `invert`: xor `BITMASK_MASK = 0xffff`. -/
def matchFullMask (g : List Nat) : Nat := matchSpecialMask g ^^^ 0xffff

def convert (g : List Nat) : List Nat := (cmpgtZero g).map fun b => b ||| DELETED

def ops : GroupOps :=
  { W := 16
    matchTag := fun g t => BitMask.lanes 16 1 (matchTagMask g t)
    matchEmpty := fun g => BitMask.lanes 16 1 (matchEmptyMask g)
    matchSpecial := fun g => BitMask.lanes 16 1 (matchSpecialMask g)
    matchFull := fun g => BitMask.lanes 16 1 (matchFullMask g)
    emptyLeadingZeros := fun g => BitMask.lz 16 (matchEmptyMask g) / 1
    emptyTrailingZeros := fun g => BitMask.tz 16 (matchEmptyMask g) / 1
    convert }

end Sse2

/-! ### Portable back-end (`control/group/generic.rs`): 8 lanes in a `u64`, stride 8 -/
namespace Generic

/-- `GroupWord::from_ne_bytes` on a little-endian target: lane 0 is the low byte. -/
def load (g : List Nat) : BitVec 64 :=
  BitVec.ofNat 64 ((List.range 8).foldl (fun acc i => acc + (g.getD i 0 % 256) * 256 ^ i) 0)

/-- `repeat(tag)`. -/
def rep (t : Nat) : BitVec 64 := BitVec.ofNat 64 ((t % 256) * 0x0101010101010101)

def matchTagWord (x : BitVec 64) (t : Nat) : BitVec 64 :=
  let cmp := x ^^^ rep t
  (cmp - rep 1) &&& ~~~cmp &&& rep 128

def matchEmptyWord (x : BitVec 64) : BitVec 64 := x &&& (x <<< 1) &&& rep 128
def matchSpecialWord (x : BitVec 64) : BitVec 64 := x &&& rep 128
/-- `invert`: xor `BITMASK_MASK = 0x8080…`. -/
def matchFullWord (x : BitVec 64) : BitVec 64 := matchSpecialWord x ^^^ rep 128

def convertWord (x : BitVec 64) : BitVec 64 :=
  let full := ~~~x &&& rep 128
  ~~~full + (full >>> 7)

def store (x : BitVec 64) : List Nat := (List.range 8).map fun i => (x.toNat / 256 ^ i) % 256

def ops : GroupOps :=
  { W := 8
    matchTag := fun g t => BitMask.lanes 64 8 (matchTagWord (load g) t).toNat
    matchEmpty := fun g => BitMask.lanes 64 8 (matchEmptyWord (load g)).toNat
    matchSpecial := fun g => BitMask.lanes 64 8 (matchSpecialWord (load g)).toNat
    matchFull := fun g => BitMask.lanes 64 8 (matchFullWord (load g)).toNat
    emptyLeadingZeros := fun g => BitMask.lz 64 (matchEmptyWord (load g)).toNat / 8
    emptyTrailingZeros := fun g => BitMask.tz 64 (matchEmptyWord (load g)).toNat / 8
    convert := fun g => store (convertWord (load g)) }

end Generic

end Hb
