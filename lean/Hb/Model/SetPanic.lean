/-
A user closure that panics inside `HashSet::get_or_insert_with` (set.rs:976): the search
(`find_or_find_insert_slot`, which reserves room for one element first) has already run when the closure
is called for an absent value; the closure unwinds before anything is written, so the set keeps its
elements (it may have grown or re-hashed in place) and no object was created.
-/
import Hb.Model.Set
namespace Hb.Set

/-- `set.get_or_insert_with(&Q(k), |_| panic!())`: `true` = the value was present (closure not called). -/
def getOrInsertWithPanic (cfg : Cfg) (env : Env) (k : Nat) (w : World) : Res (Bool × World) := do
  let (_, r, w2) ← search cfg env k none w
  match r with
  | .ok _ => pure (true, w2)
  | .error _ => .panic "pred" w2

end Hb.Set
