/-
Layer 0 — integer arithmetic of `src/raw/mod.rs` (capacity, layout, probe sequence) and
`src/control/tag.rs`.  Import-free, executable.  `bits` is the width of `usize`.

Source map (hashbrown 0.15.2):
  h1                         raw/mod.rs:61
  ProbeSeq::move_next        raw/mod.rs:83
  capacity_to_buckets        raw/mod.rs:103
  bucket_mask_to_capacity    raw/mod.rs:165
  TableLayout::new           raw/mod.rs:186
  calculate_layout_for       raw/mod.rs:199
  Tag::{full,is_full,..}     control/tag.rs
-/
namespace Hb

/-! ### Rust integer primitives at width `bits` -/

def checkedMul (bits a b : Nat) : Option Nat :=
  if a * b < 2 ^ bits then some (a * b) else none

def checkedAdd (bits a b : Nat) : Option Nat :=
  if a + b < 2 ^ bits then some (a + b) else none

/-- `a.wrapping_sub(b)` for `a, b < 2^bits`. -/
def wrappingSub (bits a b : Nat) : Nat := (a + 2 ^ bits - b) % 2 ^ bits

/-- Smallest power of two `≥ n` (`usize::next_power_of_two`; `0 ↦ 1`). -/
def nextPowerOfTwo (n : Nat) : Nat :=
  if n ≤ 1 then 1 else 2 ^ (Nat.log2 (n - 1) + 1)

def isizeMax (bits : Nat) : Nat := 2 ^ (bits - 1) - 1

/-! ### Tags (`control/tag.rs`) -/

def EMPTY : Nat := 255
def DELETED : Nat := 128

/-- `Tag::is_full`: `self.0 & 0x80 == 0` on a byte. -/
def isFull (c : Nat) : Bool := c % 256 < 128
/-- `Tag::is_special`. -/
def isSpecial (c : Nat) : Bool := !isFull c
/-- `Tag::special_is_empty`: `self.0 & 0x01 != 0`. -/
def specialIsEmpty (c : Nat) : Bool := c % 2 == 1

/-- `Tag::full(hash)`: top 7 bits of the low `min(bits,64)` bits of the hash. -/
def tagFull (bits : Nat) (hash : Nat) : Nat :=
  (hash / 2 ^ (min bits 64 - 7)) % 128

/-- `h1(hash) = hash as usize`. -/
def h1 (bits : Nat) (hash : Nat) : Nat := hash % 2 ^ bits

/-! ### Capacity ↔ buckets -/

/-- The `match (Group::WIDTH, table_layout.size)` table in `capacity_to_buckets`. -/
def minCap (W size : Nat) : Nat :=
  if W = 16 ∧ size ≤ 1 then 14
  else if W = 16 ∧ size ≤ 3 then 7
  else if W = 8 ∧ size ≤ 1 then 7
  else 3

/-- `capacity_to_buckets(cap, TableLayout{size,..})` (`cap ≠ 0`). `none` = overflow. -/
def capacityToBuckets (bits W size cap : Nat) : Option Nat :=
  if cap < 15 then
    let cap := max (minCap W size) cap
    some (if cap < 4 then 4 else if cap < 8 then 8 else 16)
  else
    match checkedMul bits cap 8 with
    | none => none
    | some m => some (nextPowerOfTwo (m / 7))

/-- `bucket_mask_to_capacity`. -/
def bucketMaskToCapacity (mask : Nat) : Nat :=
  if mask < 8 then mask else (mask + 1) / 8 * 7

/-! ### Layout -/

/-- `TableLayout::new::<T>()`: `(size, ctrl_align)`. -/
def tableLayoutNew (W size align : Nat) : Nat × Nat :=
  (size, if align > W then align else W)

structure Layout where
  size : Nat
  align : Nat
  ctrlOffset : Nat
deriving DecidableEq, Repr

/-- `x & !(a - 1)` for a power of two `a`: round down to a multiple of `a`. -/
def alignDown (x a : Nat) : Nat := x - x % a

/-- `TableLayout::calculate_layout_for(buckets)`. -/
def calculateLayoutFor (bits W size ctrlAlign buckets : Nat) : Option Layout :=
  match checkedMul bits size buckets with
  | none => none
  | some sb =>
    match checkedAdd bits sb (ctrlAlign - 1) with
    | none => none
    | some s1 =>
      let ctrlOffset := alignDown s1 ctrlAlign
      match checkedAdd bits ctrlOffset (buckets + W) with
      | none => none
      | some len =>
        if len > isizeMax bits - (ctrlAlign - 1) then none
        else some { size := len, align := ctrlAlign, ctrlOffset := ctrlOffset }

/-! ### Probe sequence -/

structure ProbeSeq where
  pos : Nat
  stride : Nat
deriving DecidableEq, Repr

/-- `RawTableInner::probe_seq`. -/
def probeSeq (bits mask hash : Nat) : ProbeSeq :=
  { pos := h1 bits hash &&& mask, stride := 0 }

/-- `ProbeSeq::move_next`. -/
def ProbeSeq.moveNext (W mask : Nat) (p : ProbeSeq) : ProbeSeq :=
  let stride := p.stride + W
  { pos := (p.pos + stride) &&& mask, stride := stride }

/-- Position after `s` steps. -/
def probePos (W bits mask hash : Nat) : Nat → ProbeSeq
  | 0 => probeSeq bits mask hash
  | s + 1 => (probePos W bits mask hash s).moveNext W mask

/-- `RawTableInner::is_in_same_group`. -/
def isInSameGroup (bits W mask i newI hash : Nat) : Bool :=
  let p := h1 bits hash &&& mask
  ((wrappingSub bits i p) &&& mask) / W == ((wrappingSub bits newI p) &&& mask) / W

/-- Mirror index in `set_ctrl`. -/
def index2 (bits W mask i : Nat) : Nat := ((wrappingSub bits i W) &&& mask) + W

/-- `index_before` in `erase`. -/
def indexBefore (bits W mask i : Nat) : Nat := (wrappingSub bits i W) &&& mask

/-! ### serde `size_hint::cautious` and `extend` reserve heuristic -/

/-- `size_hint::cautious(hint)`: `min(hint.unwrap_or(0), 4096)`. -/
def cautious (hint : Option Nat) : Nat := min (hint.getD 0) 4096

/-- `Extend::extend` reservation: full hint when empty, `(hint+1)/2` otherwise. -/
def extendReserve (isEmpty : Bool) (hint : Nat) : Nat :=
  if isEmpty then hint else (hint + 1) / 2

end Hb
