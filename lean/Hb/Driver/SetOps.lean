/- `HashSet` operations of the line protocol (`coll=set`). -/
import Hb.Driver.Base
import Hb.Model.Set
import Hb.Model.SetPanic
namespace Hb.Driver
open Hb

/-- `k.kid` list in yield order. -/
def fmtKids (l : List Elem) : String :=
  String.intercalate "," (l.map fun e => s!"{e.k}.{e.kid}")

/-- Elements of a result set sorted by `(k, kid)`. -/
def sortedElems (t : Raw) : List Elem :=
  let l := t.slots.toList.filterMap id
  (l.toArray.qsort (fun a b => a.k < b.k || (a.k == b.k && a.kid < b.kid))).toList

def fmtHint (h : Nat × Nat) : String := s!"sh={h.1}..{h.2}"

/-- Execute one op; `(out, fatal, new value for the other collection)`. -/
def execSetOp (st : DState) (env : Env) (name : String) (args : List String) (other : Raw) (w : World) :
    StepOut × Bool × Option Raw :=
  let cfg := st.cfg
  let ids := st.ids
  let no (x : StepOut × Bool) : StepOut × Bool × Option Raw := (x.1, x.2, none)
  let elems := fun (l : List Elem) => String.intercalate "," (l.map (fmtElem ids))
  let lazy := fun (h : Nat × Nat) (r : Res (List Elem × World)) =>
    no <| resOut r (fun l => s!"{fmtHint h} y={fmtKids l}") w
  -- operator forms: print the result set, then drop it quietly (only its block's release is logged)
  let opForm := fun (r : Res (Raw × World)) =>
    let r' : Res (Raw × World) := do
      let (res, w1) ← r
      let w2 ← Set.dropResultQuiet cfg res w1
      pure (res, w2)
    no <| resOut r' (fun res => s!"m={res.mask} g={res.gl} y={fmtKids (sortedElems res)}") w
  match name, args with
  | "insert", [k, kid] => no <| resOut (Set.insert cfg env (nat! k) (nat! kid) w) toString w
  | "insert", [k, kid, _, _] => no <| resOut (Set.insert cfg env (nat! k) (nat! kid) w) toString w
  | "contains", [k] => no <| resOut (Set.contains cfg env (nat! k) w) toString w
  | "get", [k] => no <| resOut (Set.get cfg env (nat! k) w) (fmtOptElem ids) w
  | "remove", [k] => no <| resOut (Set.remove cfg env (nat! k) w) toString w
  | "take", [k] => no <| resOut (Set.take cfg env (nat! k) w) (fmtOptElem ids) w
  | "replace", [k, kid] =>
    no <| resOut (Set.replace cfg env (Set.elemOf (nat! k) (nat! kid)) w) (fmtOptElem ids) w
  | "get_or_insert", [k, kid] =>
    no <| resOut (Set.getOrInsert cfg env (Set.elemOf (nat! k) (nat! kid)) w) (fmtElem ids) w
  | "get_or_insert_with", [k, kid2] =>
    no <| resOut (Set.getOrInsertWith cfg env (nat! k) (nat! k) (nat! kid2) w) (fmtElem ids) w
  | "get_or_insert_with_bad", [k, k2, kid2] =>
    no <| resOut (Set.getOrInsertWith cfg env (nat! k) (nat! k2) (nat! kid2) w) (fmtElem ids) w
  | "entry_insert", [k, kid] =>
    no <| resOut (Set.entryInsert cfg env (Set.elemOf (nat! k) (nat! kid)) w) (fmtElem ids) w
  | "entry_or_insert", [k, kid] =>
    no <| resOutW (Set.entryOrInsert cfg env (Set.elemOf (nat! k) (nat! kid)) w) w
  | "entry_remove", [k, kid] =>
    no <| resOut (Set.entryRemove cfg env (Set.elemOf (nat! k) (nat! kid)) w) (fmtOptElem ids) w
  | "clear", [] => no <| resOutW (clear cfg env w) w
  | "reserve", [n] => no <| resOutW (Map.reserve cfg env (nat! n) w) w
  | "try_reserve", [n] => no <| resOut (Map.tryReserve cfg env (nat! n) w) fmtTre w
  | "shrink_to", [m] => no <| resOutW (shrinkTo cfg env (nat! m) w) w
  | "shrink_to_fit", [] => no <| resOutW (shrinkTo cfg env 0 w) w
  | "retain", [] => no <| resOutW (Set.retain cfg env w) w
  | "extract_if", [k] => no <| resOut (Set.extractIf cfg env (nat! k) w) elems w
  | "drain", [k, fg] => no <| resOut (Set.drain cfg env (nat! k) (fg == "1") w) elems w
  | "into_iter", [k] => no <| resOut (Set.intoIter cfg env (nat! k) w) elems w
  | "drain_fold", [k] => no <| resOut (Set.drain cfg (foldEnv env (nat! k) w) (if nat! k = 0 then w.t.items else nat! k) false w) elems w
  | "into_iter_fold", [k] => no <| resOut (Set.intoIter cfg (foldEnv env (nat! k) w) (if nat! k = 0 then w.t.items else nat! k) w) elems w
  | "iter", p :: rest =>
    match iterObserveW cfg w.t (match rest with | _ => .setIter) (nat! p) with
    | .error f => ({ ret := s!"FAULT({f})", w := w }, true, none)
    | .ok (pre, folded, rest_, hints) =>
      -- third argument `nth`: after the prefix, `nth` far past the end exhausts the iterator
      if rest.length = 2 then
        ({ ret := s!"pre={fmtNats pre} fold= rest= sh={fmtNats (hints ++ [0])}", w := w }, false, none)
      else
      ({ ret := s!"pre={fmtNats pre} fold={fmtNats folded} rest={fmtNats rest_} sh={fmtNats hints}", w := w }, false, none)
  | "with_capacity", [n] =>
    let r : Res World := do
      let old := w.t
      let w1 ← dropInnerTable cfg env old { w with t := Raw.new cfg.W }
      withCapacity cfg env (nat! n) w1
    no <| resOutW r w
  | "clone_to_other", [] =>
    let r : Res (Raw × World) := do
      let w1 ← dropInnerTable cfg env other w
      Set.cloneTable cfg env w1
    match r with
    | .ok (nt, w') => ({ ret := "()", w := w' }, false, some nt)
    | .panic c w' => ({ ret := s!"panic:{c}", w := w' }, false, some (Raw.new cfg.W))
    | .abort => ({ ret := "abort", w := w }, true, none)
    | .fault f => ({ ret := s!"FAULT({f})", w := w }, true, none)
  | "clone_from", [] => no <| resOutW (Set.cloneFrom cfg env other w) w
  | "nop", [] => no ({ ret := "()", w := w }, false)
  -- lazy set algebra: other = right operand
  | "union", [] => lazy (Set.unionHint w.t other) (Set.union cfg env other w)
  | "intersection", [] => lazy (Set.intersectionHint w.t other) (Set.intersection cfg env other w)
  | "difference", [] => lazy (Set.differenceHint w.t other) (Set.difference cfg env other w)
  | "symmetric_difference", [] =>
    lazy (Set.symmetricDifferenceHint w.t other) (Set.symmetricDifference cfg env other w)
  | "is_subset", [] => no <| resOut (Set.isSubset cfg env other w) toString w
  | "is_superset", [] => no <| resOut (Set.isSuperset cfg env other w) toString w
  | "is_disjoint", [] => no <| resOut (Set.isDisjoint cfg env other w) toString w
  | "eq", [] => no <| resOut (Set.setEq cfg env other w) toString w
  | "bitor", [] => opForm (Set.bitor cfg env other w)
  | "bitand", [] => opForm (Set.bitand cfg env other w)
  | "bitxor", [] => opForm (Set.bitxor cfg env other w)
  | "sub", [] => opForm (Set.sub cfg env other w)
  -- the same object on both sides (read-only binary calls): right operand = the target itself
  | "self_union", [] => lazy (Set.unionHint w.t w.t) (Set.union cfg env w.t w)
  | "self_intersection", [] => lazy (Set.intersectionHint w.t w.t) (Set.intersection cfg env w.t w)
  | "self_difference", [] => lazy (Set.differenceHint w.t w.t) (Set.difference cfg env w.t w)
  | "self_symmetric_difference", [] =>
    lazy (Set.symmetricDifferenceHint w.t w.t) (Set.symmetricDifference cfg env w.t w)
  | "self_is_subset", [] => no <| resOut (Set.isSubset cfg env w.t w) toString w
  | "self_is_superset", [] => no <| resOut (Set.isSuperset cfg env w.t w) toString w
  | "self_is_disjoint", [] => no <| resOut (Set.isDisjoint cfg env w.t w) toString w
  | "self_eq", [] => no <| resOut (Set.setEq cfg env w.t w) toString w
  | "self_bitor", [] => opForm (Set.bitor cfg env w.t w)
  | "self_bitand", [] => opForm (Set.bitand cfg env w.t w)
  | "self_bitxor", [] => opForm (Set.bitxor cfg env w.t w)
  | "self_sub", [] => opForm (Set.sub cfg env w.t w)
  | "get_or_insert_with_panic", [k] =>
    no <| resOut (Set.getOrInsertWithPanic cfg env (nat! k) w) (fun b => if b then "present" else "absent") w
  | "bitor_assign", [] => no <| resOutW (Set.bitorAssign cfg env other w) w
  | "bitand_assign", [] => no <| resOutW (Set.bitandAssign cfg env other w) w
  | "bitxor_assign", [] => no <| resOutW (Set.bitxorAssign cfg env other w) w
  | "sub_assign", [] => no <| resOutW (Set.subAssign cfg env other w) w
  | _, _ => ({ ret := s!"bad-op {name}", w := w }, true, none)

end Hb.Driver
