/- serde operations of the line protocol (`coll=serde`): ordinary map/set calls to build a history,
   `roundtrip`, `deser`, `deser_in_place`. Set variants carry the suffix `_set`. -/
import Hb.Driver.MapOps
import Hb.Model.Serde
namespace Hb.Driver
open Hb

def parseFail (s : String) : Serde.Fail :=
  if s == "-" then .never
  else
    let cs := s.toList
    if cs.getLast? == some 'v' then .atVal (nat! (String.ofList cs.dropLast))
    else .atKey (nat! s)

/-- Scripted entries: maps `k v k v …`, sets `k k …`; entry `i` carries the object ids
    `base + 2i` (key) and `base + 2i + 1` (value). -/
def parseToks (isSet : Bool) (base : Nat) : Nat → List String → List Elem
  | _, [] => []
  | i, k :: rest =>
    if isSet then ⟨nat! k, base + 2 * i, 0, 0⟩ :: parseToks isSet base (i + 1) rest
    else
      match rest with
      | v :: rest' => ⟨nat! k, base + 2 * i, base + 2 * i + 1, nat! v⟩ :: parseToks isSet base (i + 1) rest'
      | [] => []

/-- Stored elements sorted by key (then key identity); long lists are abbreviated by their hash. -/
def fmtContents (ids : Bool) (t : Raw) : String :=
  let es := t.slots.toList.filterMap id
  let sorted := (es.toArray.qsort fun a b => a.k < b.k || (a.k == b.k && a.kid < b.kid)).toList
  let s := String.intercalate "," (sorted.map (fmtElem ids))
  if sorted.length > 40 then s!"#{hex64 (fnv64 s)}" else s

/-- Capacity and allocation size of the collection `visit_map` creates before reading anything. -/
def capBefore (cfg : Cfg) (env : Env) (hint : Option Nat) (w : World) : String :=
  match withCapacity cfg env (cautious hint) w with
  | .ok w0 =>
    let asz := match allocationSize cfg w0.t with | .ok n => toString n | .error f => s!"FAULT({f})"
    s!"cap0={w0.t.capacity} asz0={asz}"
  | _ => "cap0=0 asz0=0"

def serdeOut (r : Res (Except Unit Unit × World)) (okText errText : World → String)
    (w0 : World) : StepOut × Bool :=
  match r with
  | .ok (.ok (), w) => ({ ret := okText w, w := w }, false)
  | .ok (.error (), w) => ({ ret := errText w, w := w }, false)
  | .panic c w => ({ ret := s!"panic:{c}", w := w }, false)
  | .abort => ({ ret := "abort", w := w0 }, true)
  | .fault f => ({ ret := s!"FAULT({f})", w := w0 }, true)

def execSerdeCore (st : DState) (env : Env) (isSet : Bool) (name : String) (args : List String)
    (other : Raw) (w : World) : StepOut × Bool × Option Raw :=
  let cfg := st.cfg
  let ids := st.ids
  let no (x : StepOut × Bool) : StepOut × Bool × Option Raw := (x.1, x.2, none)
  match name, args with
  | "insert", [k, kid] =>
    no <| resOut (Map.insert cfg env (Serde.setElem (nat! k) (nat! kid)) w) (fun r => toString r.isNone) w
  | "remove", [k] =>
    if isSet then no <| resOut (Map.remove cfg env (nat! k) w) (fun r => toString r.isSome) w
    else execMapOp st env name args other w
  | "roundtrip", [base] =>
    match Serde.roundtrip cfg env isSet (nat! base) w with
    | .ok (r, w') => ({ ret := s!"eq={r} len={w'.t.items}", w := w' }, false, none)
    | .panic c w' => ({ ret := s!"panic:{c}", w := w' }, false, none)
    | .abort => ({ ret := "abort", w := w }, true, none)
    | .fault f => ({ ret := s!"FAULT({f})", w := w }, true, none)
  | "deser", hint :: fail :: base :: toks =>
    let hint := optNat hint
    let toks := parseToks isSet (nat! base) 0 toks
    let cb := capBefore cfg env hint w
    no <| serdeOut (Serde.deserAssign cfg env hint toks (parseFail fail) w)
      (fun w' => s!"ok len={w'.t.items} {cb} contents={fmtContents ids w'.t}") (fun _ => s!"err {cb}") w
  | "deser_in_place", hint :: fail :: base :: toks =>
    let hint := optNat hint
    let toks := parseToks isSet (nat! base) 0 toks
    -- sets: the in-place visitor; maps: serde's default `*place = deserialize()?`
    no <| serdeOut (if isSet then Serde.deserializeInPlace cfg env hint toks (parseFail fail) w
                    else Serde.deserAssign cfg env hint toks (parseFail fail) w)
      (fun w' => s!"ok len={w'.t.items} contents={fmtContents ids w'.t}")
      (fun w' => s!"err len={w'.t.items}") w
  | _, _ => execMapOp st env name args other w

/-- Execute one op; `(out, fatal, new value for the other collection)`. -/
def execSerdeOp (st : DState) (env : Env) (name : String) (args : List String) (other : Raw) (w : World) :
    StepOut × Bool × Option Raw :=
  match name.splitOn "_set" with
  | [base, ""] =>
    let (out, fatal, o) := execSerdeCore st env true base args other w
    -- a set has no value objects
    let log := out.w.log.filter fun ev => match ev with | .dropV _ => false | _ => true
    ({ out with w := { out.w with log := log } }, fatal, o)
  | _ => execSerdeCore st env false name args other w

end Hb.Driver
