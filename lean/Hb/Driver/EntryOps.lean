/- Entry-style and remaining `HashMap` operations of the line protocol. -/
import Hb.Driver.Base
import Hb.Model.Entry
import Hb.Model.EntryPanic
import Hb.Model.RawOther
namespace Hb.Driver
open Hb

/-- Hash the plan assigns to `k` without consuming the tape (`tape::plan_hash`). -/
def planHash (st : DState) (k : Nat) : Nat := (st.plan.get? k).getD (mix3 0x5eed 0 k)

def fmtKey (ids : Bool) (k kid : Nat) : String := if ids then s!"{k}.{kid}" else s!"{k}.0"

def fmtEOut (ids : Bool) : Map.EOut → String
  | .none => ""
  | .val vid v => " " ++ fmtOptVal ids (some (vid, v))
  | .elem e => " " ++ fmtElem ids e
  | .key k kid => " " ++ fmtKey ids k kid
  | .qkey k => s!" {k}"
  | .entOcc e => " occ:" ++ fmtElem ids e
  | .entVac k kid => " vac:" ++ fmtKey ids k kid
  | .entVacRaw => " vac:"

def fmtEnt (ids : Bool) (yes no : String) (r : Bool × Map.EOut) : String :=
  (if r.1 then yes else no) ++ fmtEOut ids r.2

def parseEChain : List String → Option Map.EChain
  | ["insert", vid, v] => some (.insert (nat! vid) (nat! v))
  | ["or_insert", vid, v] => some (.orInsert (nat! vid) (nat! v))
  | ["or_insert_with", vid, v] => some (.orInsert (nat! vid) (nat! v))
  | ["or_insert_with_key", vid, v] => some (.orInsertWithKey (nat! vid) (nat! v))
  | ["and_modify", nv, "or_insert", vid, v] => some (.andModifyOrInsert (nat! nv) (nat! vid) (nat! v))
  | ["key"] => some .key
  | ["drop"] => some .drop
  | ["occ_remove"] => some .occRemove
  | ["occ_remove_entry"] => some .occRemoveEntry
  | ["occ_insert", vid, v] => some (.occInsert (nat! vid) (nat! v))
  | ["occ_get_mut", nv] => some (.occGetMut (nat! nv))
  | ["occ_into_mut", nv] => some (.occGetMut (nat! nv))
  | ["replace_entry_with", m, nv] => some (.replaceEntryWith (m == "keep") (nat! nv))
  | ["and_replace_entry_with", m, nv] => some (.andReplaceEntryWith (m == "keep") (nat! nv))
  | ["vac_insert", vid, v] => some (.vacInsert (nat! vid) (nat! v))
  | ["vac_insert_entry", vid, v] => some (.vacInsertEntry (nat! vid) (nat! v))
  | ["vac_into_key"] => some .vacIntoKey
  | _ => none

/-- Chains available on `EntryRef`. -/
def refChainOk : Map.EChain → Bool
  | .insert .. | .orInsert .. | .andModifyOrInsert .. | .drop | .key => true
  | _ => false

/-- Chains available on `RustcEntry`. -/
def rustcChainOk : Map.EChain → Bool
  | .insert .. | .orInsert .. | .occRemove | .occInsert .. | .vacInsert .. | .vacInsertEntry .. | .drop => true
  | _ => false

def parseRawChain : List String → Option Map.RawChain
  | ["insert", kid, vid, v] => some (.insert (nat! kid) (nat! vid) (nat! v))
  | ["or_insert", kid, vid, v] => some (.orInsert (nat! kid) (nat! vid) (nat! v))
  | ["vac_insert", kid, vid, v] => some (.vacInsert (nat! kid) (nat! vid) (nat! v))
  | ["vac_insert_hashed", kid, vid, v] => some (.vacInsertHashed (nat! kid) (nat! vid) (nat! v))
  | ["vac_insert_with_hasher", kid, vid, v] => some (.vacInsertHashed (nat! kid) (nat! vid) (nat! v))
  | ["occ_remove"] => some .occRemove
  | ["occ_remove_entry"] => some .occRemoveEntry
  | ["occ_insert", vid, v] => some (.occInsert (nat! vid) (nat! v))
  | ["occ_insert_key", kid] => some (.occInsertKey (nat! kid))
  | ["and_modify", nv] => some (.andModify (nat! nv))
  | ["into_key_value", nv] => some (.andModify (nat! nv))
  | ["key_mut_get_mut", nv] => some (.andModify (nat! nv))
  | ["replace_entry_with", m, nv] => some (.replaceEntryWith (m == "keep") (nat! nv))
  | ["drop"] => some .drop
  | _ => none

/-- `n k1 kid1 vid1 v1 …` -/
def parseItems : Nat → List String → Option (List Elem)
  | 0, [] => some []
  | n + 1, k :: kid :: vid :: v :: rest =>
    (parseItems n rest).map fun l => ⟨nat! k, nat! kid, nat! vid, nat! v⟩ :: l
  | _, _ => none

/-- Execute one op; `(out, fatal, new value for the other collection)`. -/
def execEntryOp (st : DState) (env : Env) (name : String) (args : List String) (other : Raw) (w : World) :
    StepOut × Bool × Option Raw :=
  let _ := other
  let cfg := st.cfg
  let ids := st.ids
  let no (x : StepOut × Bool) : StepOut × Bool × Option Raw := (x.1, x.2, none)
  let bad : StepOut × Bool × Option Raw :=
    ({ ret := s!"bad-op {name} {String.intercalate " " args}", w := w }, true, none)
  let ent (r : Map.EntRes) := no <| resOut r (fmtEnt ids "occ" "vac") w
  let commaE (l : List Elem) := String.intercalate "," (l.map (fmtElem ids))
  match name, args with
  | "entry", k :: kid :: chain =>
    match parseEChain chain with
    | some c => ent (Map.entry cfg env (nat! k) (nat! kid) c w)
    | none => bad
  | "entry_ref", k :: newkid :: chain =>
    match parseEChain chain with
    | some c => if refChainOk c then ent (Map.entryRef cfg env (nat! k) (nat! newkid) c w) else bad
    | none => bad
  | "rustc_entry", k :: kid :: chain =>
    match parseEChain chain with
    | some c => if rustcChainOk c then ent (Map.rustcEntry cfg env (nat! k) (nat! kid) c w) else bad
    | none => bad
  | "entry_replace_panic", [k, kid] =>
    no <| resOut (Map.entryReplacePanic cfg env (nat! k) (nat! kid) w) (fun b => if b then "occ" else "vac") w
  | "entry_and_replace_panic", [k, kid] =>
    no <| resOut (Map.entryReplacePanic cfg env (nat! k) (nat! kid) w) (fun b => if b then "occ" else "vac") w
  | "entry_or_insert_with_panic", [k, kid] =>
    no <| resOut (Map.entryOrInsertWithPanic cfg env (nat! k) (nat! kid) w) (fun b => if b then "occ" else "vac") w
  | "entry_and_modify_panic", [k, kid] =>
    no <| resOut (Map.entryAndModifyPanic cfg env (nat! k) (nat! kid) w) (fun b => if b then "occ" else "vac") w
  | "raw_replace_panic", [mode, k, _] =>
    let m : Map.RawMode := if mode == "raw_from_key" then .fromKey else if mode == "raw_from_key_hashed" then .fromKeyHashed else .fromHash
    no <| resOut (Map.rawReplacePanic cfg env m (planHash st (nat! k)) (nat! k) w) (fun b => if b then "occ" else "vac") w
  | "try_insert", [k, kid, vid, v] =>
    no <| resOut (Map.tryInsert cfg env ⟨nat! k, nat! kid, nat! vid, nat! v⟩ w) (fmtEnt ids "ok" "err") w
  | "raw_other", [mode, k, how, ks, kid, vid, v] =>
    let m : Map.RawMode := if mode == "raw_from_key" then .fromKey else if mode == "raw_from_key_hashed" then .fromKeyHashed else .fromHash
    ent (Map.rawEntryOther cfg env m (planHash st (nat! k)) (nat! k) (how == "or_insert") ⟨nat! ks, nat! kid, nat! vid, nat! v⟩ w)
  | "raw_from_key", k :: chain =>
    match parseRawChain chain with
    | some c => ent (Map.rawEntry cfg env .fromKey (planHash st (nat! k)) (nat! k) c w)
    | none => bad
  | "raw_from_key_hashed", k :: chain =>
    match parseRawChain chain with
    | some c => ent (Map.rawEntry cfg env .fromKeyHashed (planHash st (nat! k)) (nat! k) c w)
    | none => bad
  | "raw_from_hash", k :: chain =>
    match parseRawChain chain with
    | some c => ent (Map.rawEntry cfg env .fromHash (planHash st (nat! k)) (nat! k) c w)
    | none => bad
  | "raw_get", [k] =>
    no <| resOut (Map.rawGet cfg env .fromKey (planHash st (nat! k)) (nat! k) w) (fmtOptElem ids) w
  | "raw_get_hash", [k] =>
    no <| resOut (Map.rawGet cfg env .fromHash (planHash st (nat! k)) (nat! k) w) (fmtOptElem ids) w
  | "extend", n :: rest =>
    match parseItems (nat! n) rest with
    | some items => no <| resOutW (Map.extend cfg env items w) w
    | none => bad
  | "extend_r0", n :: rest =>
    match parseItems (nat! n) rest with
    | some items => no <| resOutW (Map.extend cfg env items w) w
    | none => bad
  | "extend_r1", n :: rest =>
    match parseItems (nat! n) rest with
    | some items => no <| resOutW (Map.extend cfg env items w) w
    | none => bad
  | "from_iter", n :: rest =>
    match parseItems (nat! n) rest with
    | some items => no <| resOutW (Map.fromIter cfg env items w) w
    | none => bad
  | "get_many_mut", ks =>
    no <| resOut (Map.getManyMut cfg env (ks.map nat!) w)
      (fun l => String.intercalate "," (l.map fun e => fmtOptVal ids (e.map fun e => (e.vid, e.v)))) w
  | "get_many_key_value_mut", ks =>
    no <| resOut (Map.getManyMut cfg env (ks.map nat!) w)
      (fun l => String.intercalate "," (l.map (fmtOptElem ids))) w
  | "index", [k] => no <| resOut (Map.index cfg env (nat! k) w) (fun r => fmtOptVal ids (some r)) w
  | "insert_unique_unchecked", [k, kid, vid, v] =>
    no <| resOut (Map.insertUniqueUnchecked cfg env ⟨nat! k, nat! kid, nat! vid, nat! v⟩ w) (fmtElem ids) w
  | "into_keys", [n] =>
    no <| resOut (Map.intoKeys cfg env (nat! n) w)
      (fun l => String.intercalate "," (l.map fun e => fmtKey ids e.k e.kid)) w
  | "into_values", [n] =>
    no <| resOut (Map.intoValues cfg env (nat! n) w)
      (fun l => String.intercalate "," (l.map fun e => fmtOptVal ids (some (e.vid, e.v)))) w
  | "into_keys_fold", [n] =>
    no <| resOut (Map.intoKeys cfg (foldEnv env (nat! n) w) (if nat! n = 0 then w.t.items else nat! n) w)
      (fun l => String.intercalate "," (l.map fun e => fmtKey ids e.k e.kid)) w
  | "into_values_fold", [n] =>
    no <| resOut (Map.intoValues cfg (foldEnv env (nat! n) w) (if nat! n = 0 then w.t.items else nat! n) w)
      (fun l => String.intercalate "," (l.map fun e => fmtOptVal ids (some (e.vid, e.v)))) w
  | "values_mut_set", [nv] => no ({ ret := "()", w := Map.valuesMutSet (nat! nv) w }, false)
  | _, _ =>
    let _ := commaE
    bad

end Hb.Driver
