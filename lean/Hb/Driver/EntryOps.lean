/- EntryOps of the line protocol (extension point). -/
import Hb.Driver.Base
namespace Hb.Driver
open Hb

/-- Execute one op; `(out, fatal, new value for the other collection)`. -/
def execEntryOp (st : DState) (env : Env) (name : String) (args : List String) (other : Raw) (w : World) :
    StepOut × Bool × Option Raw :=
  let _ := (st, env, args, other)
  ({ ret := s!"bad-op {name}", w := w }, true, none)

end Hb.Driver
