/-
Scenario replay: parsing, oracle construction from tapes, canonical printing.
Not part of any theorem; it is the executable half of the correspondence check.
-/
import Hb.Model.Api
import Hb.Model.IterWrap
import Hb.Proofs.Defs
import Std.Data.HashMap
namespace Hb.Driver
open Hb

/-! ### deterministic pseudo-random oracles (identical in `harness/src/tape.rs`) -/

def splitmix64 (x : UInt64) : UInt64 :=
  let z := x + 0x9E3779B97F4A7C15
  let z := (z ^^^ (z >>> 30)) * 0xBF58476D1CE4E5B9
  let z := (z ^^^ (z >>> 27)) * 0x94D049BB133111EB
  z ^^^ (z >>> 31)

def mix3 (seed a b : Nat) : Nat :=
  (splitmix64 (splitmix64 (UInt64.ofNat seed + UInt64.ofNat a) + UInt64.ofNat b)).toNat

structure EnvP where
  hashMode : String := "plan"    -- plan | mix
  hashSeed : Nat := 0
  hpanic : Option Nat := none
  eqMode : String := "law"       -- law | mix
  eqSeed : Nat := 0
  epanic : Option Nat := none
  cpanic : Option Nat := none
  predSeed : Nat := 0
  ppanic : Option Nat := none
  dpanic : Option Nat := none
  afail : Option Nat := none     -- this request fails
  afrom : Option Nat := none     -- every request from this one on fails

def mkEnv (p : EnvP) (plan : Std.HashMap Nat Nat) : Env :=
  { hash := fun c k =>
      if p.hpanic == some c then none
      else if p.hashMode == "mix" then some (mix3 p.hashSeed c k)
      else some ((plan.get? k).getD (mix3 0x5eed 0 k))
    eq := fun c q e =>
      if p.epanic == some c then none
      else if p.eqMode == "mix" then some (mix3 p.eqSeed c 0 % 2 == 1)
      else some (q == e.k)
    clone := fun c _ =>
      if p.cpanic == some c then none else some (1000000 + 2 * c, 1000001 + 2 * c)
    pred := fun c e =>
      if p.ppanic == some c then none
      else
        let r := mix3 p.predSeed c 0
        some (r % 2 == 1, if (r / 2) % 4 == 0 then e.v + 7 else e.v)
    allocOk := fun j =>
      !(p.afail == some j) && !(match p.afrom with | some f => j ≥ f | none => false)
    dropPanics := fun c _ => p.dpanic == some c }

/-! ### printing -/

def hexDigit (n : Nat) : Char := "0123456789abcdef".toList.getD n '?'
def hex2 (b : Nat) : String := String.ofList [hexDigit (b / 16 % 16), hexDigit (b % 16)]

def fnv64 (s : String) : UInt64 :=
  s.toList.foldl (fun h c => (h ^^^ UInt64.ofNat c.toNat) * 0x100000001b3) 0xcbf29ce484222325

def hex64 (x : UInt64) : String :=
  String.ofList ((List.range 16).map fun i => hexDigit ((x.toNat / 16 ^ (15 - i)) % 16))

def fmtElem (ids : Bool) (e : Elem) : String :=
  if ids then s!"{e.k}.{e.kid}.{e.vid}.{e.v}" else s!"{e.k}.0.0.{e.v}"

def fmtState (ids : Bool) (t : Raw) : String :=
  let c := String.join (t.ctrl.toList.map hex2)
  let s := String.intercalate "," <|
    (List.range t.slots.size).filterMap fun i =>
      match t.slots[i]? with
      | some (some e) => some s!"{i}:{fmtElem ids e}"
      | _ => none
  let body := s!"c={c} s={s}"
  let body := if body.length > 600 then s!"#{hex64 (fnv64 body)}" else body
  s!"m={t.mask} i={t.items} g={t.gl} {body}"

def fmtEvents (coll : String) (needsDrop : Bool) (log : List Ev) : String :=
  let strs := log.filterMap fun ev =>
    match ev with
    | .dropK kid => if needsDrop then some s!"dk{kid}" else none
    | .dropV vid => if needsDrop && (coll == "map" || coll == "serde") then some s!"dv{vid}" else none
    | .alloc s a => some s!"al{s}/{a}"
    | .free s a => some s!"fr{s}/{a}"
  String.intercalate "," (strs.toArray.qsort (· < ·)).toList

def fmtOptElem (ids : Bool) : Option Elem → String
  | none => "-"
  | some e => fmtElem ids e

def fmtOptVal (ids : Bool) : Option (Nat × Nat) → String
  | none => "-"
  | some (vid, v) => if ids then s!"{vid}.{v}" else s!"0.{v}"

def fmtNats (l : List Nat) : String := String.intercalate "," (l.map toString)

def fmtTre : Option TryReserveError → String
  | none => "ok"
  | some .capacityOverflow => "err(CapacityOverflow)"
  | some (.allocError s a) => s!"err(AllocError {s} {a})"

/-! ### driver state -/

structure DState where
  cfg : Cfg
  coll : String := "map"
  ids : Bool := true
  envp : EnvP := {}
  plan : Std.HashMap Nat Nat := {}
  a : Raw
  b : Raw
  w : World
  live : List (Nat × Nat) := []     -- blocks allocated and not yet freed, over the whole scenario
  tainted : Bool := false           -- an unlawful hasher/eq was active at some point of this scenario

/-- Apply the allocator events of one operation to the live-block multiset (oldest event first). -/
def applyLive (live : List (Nat × Nat)) (log : List Ev) : List (Nat × Nat) :=
  log.reverse.foldl (fun l ev =>
    match ev with
    | .alloc s a => (s, a) :: l
    | .free s a => l.erase (s, a)
    | _ => l) live

def DState.init : DState :=
  let cfg : Cfg := { ops := Sse2.ops }
  { cfg := cfg, a := Raw.new cfg.W, b := Raw.new cfg.W, w := { t := Raw.new cfg.W } }

def kv (tok : String) : String × String :=
  match tok.splitOn "=" with
  | [k, v] => (k, v)
  | _ => (tok, "")

def optNat (s : String) : Option Nat := if s == "-" then none else s.toNat?

def parseScn (toks : List String) (st : DState) : DState :=
  let kvs := toks.map kv
  let get (k : String) (d : String) := (kvs.find? (·.1 == k)).map (·.2) |>.getD d
  let wN := (get "w" "16").toNat!
  let ops := if wN == 8 then Generic.ops else Sse2.ops
  let cfg : Cfg := { ops := ops, size := (get "size" "32").toNat!, align := (get "align" "8").toNat!,
                     needsDrop := get "drop" "1" == "1", guardAlways := get "fixed" "1" == "1" }
  { cfg := cfg, coll := get "coll" "map", ids := get "ids" "1" == "1", envp := {}, plan := {},
    a := Raw.new cfg.W, b := Raw.new cfg.W, w := { t := Raw.new cfg.W }, live := [] }

def parseEnv (toks : List String) (st : DState) : DState :=
  let p := toks.foldl (fun (p : EnvP) tok =>
    let (k, v) := kv tok
    match k with
    | "hash" =>
      match v.splitOn ":" with
      | ["mix", s] => { p with hashMode := "mix", hashSeed := s.toNat! }
      | _ => { p with hashMode := "plan" }
    | "eq" =>
      match v.splitOn ":" with
      | ["mix", s] => { p with eqMode := "mix", eqSeed := s.toNat! }
      | _ => { p with eqMode := "law" }
    | "hpanic" => { p with hpanic := optNat v }
    | "epanic" => { p with epanic := optNat v }
    | "cpanic" => { p with cpanic := optNat v }
    | "ppanic" => { p with ppanic := optNat v }
    | "dpanic" => { p with dpanic := optNat v }
    | "pred" => { p with predSeed := v.toNat! }
    | "afail" => { p with afail := optNat v }
    | "afrom" => { p with afrom := optNat v }
    | _ => p) st.envp
  { st with envp := p, tainted := st.tainted || p.hashMode != "plan" || p.eqMode != "law" }

def parsePlan (toks : List String) (st : DState) : DState :=
  { st with plan := toks.foldl (fun m tok =>
      match tok.splitOn "=" with
      | [k, h] => m.insert k.toNat! h.toNat!
      | _ => m) st.plan }

/-- Outcome of one operation on the selected collection: text of the return value, new table of the
    target, world. -/
structure StepOut where
  ret : String
  w : World

def resOut {α} (r : Res (α × World)) (fmt : α → String) (w0 : World) : StepOut × Bool :=
  match r with
  | .ok (a, w) => ({ ret := fmt a, w := w }, false)
  | .panic c w => ({ ret := s!"panic:{c}", w := w }, false)
  | .abort => ({ ret := "abort", w := w0 }, true)
  | .fault f => ({ ret := s!"FAULT({f})", w := w0 }, true)

def resOutW (r : Res World) (w0 : World) : StepOut × Bool :=
  resOut (r.bind fun w => .ok ((), w)) (fun _ => "()") w0

def nat! (s : String) : Nat := s.toNat!

/-- Bucket behind an item yielded by a public iterator wrapper. -/
def itemBucket : IW.Item → Nat
  | .pair b _ => b | .key b _ _ => b | .val b _ _ => b | .elem b _ => b

/-- The observation the harness makes on a borrowing iterator, executed on the WRAPPER model of the named
    public type (`Hb/Model/IterWrap.lean`): `p` calls of `next` (size hint before each), then `fold` on the
    iterator and — where the type is `Clone` — `next` until `None` on a clone taken at that point.
    `Hb.IW.wrap_fold_eq_next` / `wrap_size_hint_exact` say what it must print in every valid state. -/
def iterObserveW (cfg : Cfg) (t : Raw) (k : IW.Kind) (p : Nat) :
    Except String (List Nat × List Nat × List Nat × List Nat) :=
  match IW.Wrap.new cfg t k with
  | .error f => .error f
  | .ok w0 =>
    let rec pre (n : Nat) (w : IW.Wrap) (acc hints : List Nat) :
        Except String (List Nat × List Nat × IW.Wrap) :=
      match n with
      | 0 => .ok (acc.reverse, hints.reverse, w)
      | n + 1 =>
        match w.next cfg t with
        | .error f => .error f
        | .ok (none, w') => .ok (acc.reverse, (w.sizeHint.1 :: hints).reverse, w')
        | .ok (some x, w') => pre n w' (itemBucket x :: acc) (w.sizeHint.1 :: hints)
    match pre p w0 [] [] with
    | .error f => .error f
    | .ok (prefix_, hints, w1) =>
      match w1.fold cfg t with
      | .error f => .error f
      | .ok folded =>
        let fb := folded.map itemBucket
        match w1.clone with
        | none => .ok (prefix_, fb, fb, hints ++ [w1.sizeHint.1])
        | some c =>
          match c.nextN cfg t (t.buckets + 2) with
          | .error f => .error f
          | .ok (os, _) => .ok (prefix_, fb, (os.filterMap id).map itemBucket, hints ++ [w1.sizeHint.1])

/-- Environment of an owning iterator consumed through `fold` by a consumer that panics at the `k`-th element
    (`1 ≤ k ≤ len`): the remaining elements are dropped WHILE UNWINDING, where the harness' destructors never
    start a second panic (that would abort the process by Rust's rules). -/
def foldEnv (env : Env) (k : Nat) (w : World) : Env :=
  if 1 ≤ k ∧ k ≤ w.t.items then { env with dropPanics := fun _ _ => false } else env

end Hb.Driver
