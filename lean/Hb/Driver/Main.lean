/- Line dispatch and main loop of the driver. -/
import Hb.Driver.MapOps
import Hb.Driver.TableOps
import Hb.Driver.SetOps
import Hb.Driver.ParOps
import Hb.Driver.SerdeOps
namespace Hb.Driver
open Hb

def execOp (st : DState) (env : Env) (name : String) (args : List String) (other : Raw) (w : World) :
    StepOut × Bool × Option Raw :=
  match st.coll with
  | "table" => execTableOp st env name args other w
  | "set" => execSetOp st env name args other w
  | "par" => execParOp st env name args other w
  | "serde" => execSerdeOp st env name args other w
  | _ => execMapOp st env name args other w

/-- Run-time test of the invariant definitions on the model state (never fires unless the model or
    the definitions are wrong; a firing shows up as a disagreement with the implementation). -/
def invNote (st : DState) (t : Raw) : String :=
  if !invB st.cfg t then s!" INV-FAIL({invWhy st.cfg t})"
  else if !st.tainted && st.envp.hashMode == "plan" && st.envp.eqMode == "law" && st.coll != "table" && t.buckets ≤ 64 then
    let H := fun k => (st.plan.get? k).getD (mix3 0x5eed 0 k)
    if invLB st.cfg H t then "" else " INVL-FAIL"
  else ""

def obsLine (st : DState) (out : StepOut) : String :=
  let alloc := match allocationSize st.cfg out.w.t with | .ok n => toString n | .error f => s!"FAULT({f})"
  s!"{out.ret}{invNote st out.w.t} ; {fmtState st.ids out.w.t} len={out.w.t.items} cap={out.w.t.capacity} asz={alloc} ; {fmtEvents st.coll st.cfg.needsDrop out.w.log} ; h={out.w.hc} e={out.w.ec} c={out.w.cc} p={out.w.pc} a={out.w.ac} d={out.w.dc}"


/-! ### pure-function lines (C17, C18) -/

def unhex (s : String) : List Nat :=
  let cs := s.toList
  let dv (c : Char) : Nat :=
    if c.isDigit then c.toNat - '0'.toNat else if c.toNat ≥ 'a'.toNat then c.toNat - 'a'.toNat + 10 else 0
  let rec go (l : List Char) (fuel : Nat) : List Nat :=
    match fuel, l with
    | fuel + 1, a :: b :: rest => (dv a * 16 + dv b) :: go rest fuel
    | _, _ => []
  go cs cs.length

def fmtOptNat : Option Nat → String
  | none => "none"
  | some b => s!"some {b}"

def evalFn (cfg : Cfg) (toks : List String) : String :=
  let W := cfg.W
  let bits := cfg.bits
  match toks with
  | ["fn", "c2b", cap, size] => fmtOptNat (capacityToBuckets bits W (nat! size) (nat! cap))
  | ["fn", "bm2c", m] => toString (bucketMaskToCapacity (nat! m))
  | ["fn", "layout", size, ca, b] =>
    match calculateLayoutFor bits W (nat! size) (nat! ca) (nat! b) with
    | none => "none"
    | some l => s!"some {l.size} {l.align} {l.ctrlOffset}"
  | ["fn", "probe", h, mask, steps] =>
    let rec go (k : Nat) (p : ProbeSeq) (acc : List Nat) : List Nat :=
      match k with
      | 0 => acc.reverse
      | k + 1 => go k (p.moveNext W (nat! mask)) (p.pos :: acc)
    fmtNats (go (nat! steps) (probeSeq bits (nat! mask) (nat! h)) [])
  | ["fn", "tag", h] => s!"{tagFull bits (nat! h)} {h1 bits (nat! h)}"
  | ["fn", "tagbits", b] =>
    let sie := if isSpecial (nat! b) then toString (specialIsEmpty (nat! b)) else "na"
    s!"{isFull (nat! b)} {isSpecial (nat! b)} {sie}"
  | ["fn", "samegroup", i, ni, h, mask] =>
    toString (isInSameGroup bits W (nat! mask) (nat! i) (nat! ni) (nat! h))
  | ["fn", "grp", hx, t] =>
    let g := unhex hx
    let o := cfg.ops
    let cv := String.join ((o.convert g).map hex2)
    s!"mt={fmtNats (o.matchTag g (nat! t))} me={fmtNats (o.matchEmpty g)} ms={fmtNats (o.matchSpecial g)} mf={fmtNats (o.matchFull g)} lz={o.emptyLeadingZeros g} tz={o.emptyTrailingZeros g} cv={cv}"
  | ["fn", "tlnew", ty] =>
    -- (size_of, align_of) of the harness's concrete element types on x86_64 (rustc's layout; a change
    -- there shows as a disagreement in the `in=` part, not as a property violation)
    let sa : Option (Nat × Nat) := match ty with
      | "unit" => some (0, 1) | "u8" => some (1, 1) | "u16" => some (2, 2) | "u8x3" => some (3, 1)
      | "u16x5" => some (10, 2) | "u64" => some (8, 8) | "u128" => some (16, 16) | "pair" => some (16, 8)
      | "al32" => some (32, 32) | "al64" => some (128, 64) | "al4096" => some (4096, 4096)
      | "big" => some (200, 8) | _ => none
    match sa with
    | none => s!"bad-fn tlnew {ty}"
    | some (size, align) =>
      let l := tableLayoutNew W size align
      s!"in={size} {align} out={l.1} {l.2}"
  | ["fn", "serdezst", _kind, hint] =>
    -- Deserialize of a collection of ZERO-SIZED elements from an empty stream claiming `hint` entries
    -- (`-` = no hint): `with_capacity(cautious(hint))`, element size 0 (a block is control bytes only)
    let h : Option Nat := if hint = "-" then none else some (nat! hint)
    let n := cautious h
    if n = 0 then "cap=0 bytes=0"
    else
      match capacityToBuckets bits W 0 n with
      | none => "overflow"
      | some b =>
        match calculateLayoutFor bits W 0 W b with
        | none => "overflow"
        | some l => s!"cap={bucketMaskToCapacity (b - 1)} bytes={l.size}"
  | ["fn", "static_empty"] => String.join ((Raw.new W).ctrl.toList.map hex2)
  | ["fnrange", "c2b", lo, hi, size] =>
    let lo := nat! lo
    let hi := nat! hi
    let size := nat! size
    Id.run do
      let mut out := ""
      let mut last : Option (Option Nat) := none
      for i in [0:hi - lo] do
        let cap := lo + i
        let v := capacityToBuckets bits W size cap
        if last != some v then
          out := out ++ s!"{cap}:{(fmtOptNat v).replace " " ""},"
          last := some v
      return out
  | ["fnrange", "bm2c", hi] =>
    String.intercalate "," ((List.range (nat! hi)).map fun k => toString (bucketMaskToCapacity (2 ^ k - 1)))
  | ["fnrange", "capcheck", _, _, _] => "bad=0"     -- the property itself (theorem capacityToBuckets_spec)
  | _ => s!"bad-fn {String.intercalate " " toks}"

/-- Process one line; returns the new state and an optional output line. -/
def stepLine (st : DState) (line : String) : DState × Option String :=
  let toks := (line.trimAscii.toString.splitOn " ").filter (· ≠ "")
  match toks with
  | [] => (st, none)
  | "scn" :: id :: rest => (parseScn rest st, some s!"scn {id}")
  | "env" :: rest => (parseEnv rest st, none)
  | "plan" :: rest => (parsePlan rest st, none)
  | "fn" :: _ => (st, some (evalFn st.cfg toks))
  | "fnrange" :: _ => (st, some (evalFn st.cfg toks))
  | "end" :: _ =>
    -- both collections are dropped; whatever is still allocated afterwards was leaked
    let env := mkEnv { st.envp with dpanic := none } st.plan
    let w0 : World := { st.w with t := Raw.new st.cfg.W, log := [] }
    let r : Res World := do
      let w1 ← dropInnerTable st.cfg env st.a w0
      dropInnerTable st.cfg env st.b w1
    match r with
    | .ok w' =>
      let live := applyLive st.live w'.log
      if live.isEmpty then (st, some "end")
      else
        let strs := (live.map fun (s, a) => s!"leaked block {s}/{a}").toArray.qsort (· < ·)
        (st, some s!"end ORACLE {String.intercalate " | " strs.toList}")
    | _ => (st, some "end MODEL-FAULT")
  | "op" :: tgt :: name :: args =>
    let env := mkEnv st.envp st.plan
    let (self, other) := if tgt == "a" then (st.a, st.b) else (st.b, st.a)
    let w0 : World := { st.w with t := self, log := [] }
    let (out, _fatal, newOther) := execOp st env name args other w0
    let line := obsLine st out
    let other' := newOther.getD other
    let live := applyLive st.live out.w.log
    let st' := if tgt == "a" then { st with a := out.w.t, b := other', w := out.w, live := live }
               else { st with b := out.w.t, a := other', w := out.w, live := live }
    (st', some line)
  | _ => (st, some s!"bad-line {line}")

partial def loop (hin : IO.FS.Stream) (hout : IO.FS.Stream) (st : DState) : IO Unit := do
  let line ← hin.getLine
  if line.isEmpty then return ()
  let (st', out) := stepLine st line
  match out with
  | some s => hout.putStrLn s
  | none => pure ()
  loop hin hout st'

def run (_args : List String) (hin hout : IO.FS.Stream) : IO UInt32 := do
  loop hin hout DState.init
  hout.flush
  return 0

end Hb.Driver
