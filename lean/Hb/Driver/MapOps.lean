/- Map operations of the line protocol. -/
import Hb.Driver.EntryOps
namespace Hb.Driver
open Hb

/-- Execute one op on target table `w.t`; `other` is the second collection (read-only source). -/
def execMapOp (st : DState) (env : Env) (name : String) (args : List String) (other : Raw) (w : World) :
    StepOut × Bool × Option Raw :=   -- (out, fatal, new value for the *other* collection)
  let cfg := st.cfg
  let ids := st.ids
  let no (x : StepOut × Bool) : StepOut × Bool × Option Raw := (x.1, x.2, none)
  match name, args with
  | "insert", [k, kid, vid, v] =>
    no <| resOut (Map.insert cfg env ⟨nat! k, nat! kid, nat! vid, nat! v⟩ w) (fmtOptVal ids) w
  | "get", [k] => no <| resOut (Map.get cfg env (nat! k) w) (fmtOptElem ids) w
  | "contains", [k] => no <| resOut (Map.get cfg env (nat! k) w) (fun r => toString r.isSome) w
  | "getmut", [k, nv] => no <| resOut (Map.getMut cfg env (nat! k) (nat! nv) w) (fmtOptElem ids) w
  | "remove", [k] => no <| resOut (Map.remove cfg env (nat! k) w) (fmtOptVal ids) w
  | "remove_entry", [k] => no <| resOut (Map.removeEntry cfg env (nat! k) w) (fmtOptElem ids) w
  | "clear", [] => no <| resOutW (clear cfg env w) w
  | "reserve", [n] => no <| resOutW (Map.reserve cfg env (nat! n) w) w
  | "try_reserve", [n] => no <| resOut (Map.tryReserve cfg env (nat! n) w) fmtTre w
  | "shrink_to", [m] => no <| resOutW (shrinkTo cfg env (nat! m) w) w
  | "shrink_to_fit", [] => no <| resOutW (shrinkTo cfg env 0 w) w
  | "retain", [] => no <| resOutW (Map.retain cfg env w) w
  | "extract_if", [k] =>
    no <| resOut (Map.extractIf cfg env (nat! k) w) (fun l => String.intercalate "," (l.map (fmtElem ids))) w
  | "drain", [k, fg] =>
    no <| resOut (Map.drain cfg env (nat! k) (fg == "1") w) (fun l => String.intercalate "," (l.map (fmtElem ids))) w
  | "into_iter", [k] =>
    no <| resOut (Map.intoIter cfg env (nat! k) w) (fun l => String.intercalate "," (l.map (fmtElem ids))) w
  -- consumed through `fold` by a consumer that panics at the k-th element (0 = to completion): the first k are
  -- handed out, the rest is dropped while unwinding — the same events as `next` x k followed by `drop`
  | "drain_fold", [k] =>
    no <| resOut (Map.drain cfg (foldEnv env (nat! k) w) (if nat! k = 0 then w.t.items else nat! k) false w) (fun l => String.intercalate "," (l.map (fmtElem ids))) w
  | "into_iter_fold", [k] =>
    no <| resOut (Map.intoIter cfg (foldEnv env (nat! k) w) (if nat! k = 0 then w.t.items else nat! k) w) (fun l => String.intercalate "," (l.map (fmtElem ids))) w
  | "iter", p :: rest =>
    match iterObserveW cfg w.t (match rest.head? with | some "keys" => .mapKeys | some "values" => .mapValues | some "values_mut" => .mapValuesMut | some "iter_mut" => .mapIterMut | _ => .mapIter) (nat! p) with
    | .error f => ({ ret := s!"FAULT({f})", w := w }, true, none)
    | .ok (pre, folded, rest_, hints) =>
      -- third argument `nth`: after the prefix, `nth` far past the end exhausts the iterator
      if rest.length = 2 then
        ({ ret := s!"pre={fmtNats pre} fold= rest= sh={fmtNats (hints ++ [0])}", w := w }, false, none)
      else
      ({ ret := s!"pre={fmtNats pre} fold={fmtNats folded} rest={fmtNats rest_} sh={fmtNats hints}", w := w }, false, none)
  | "with_capacity", [n] =>
    -- the old collection is dropped, a new one created
    let r : Res World := do
      let old := w.t
      let w1 ← dropInnerTable cfg env old { w with t := Raw.new cfg.W }
      withCapacity cfg env (nat! n) w1
    no <| resOutW r w
  | "clone_to_other", [] =>
    -- other := self.clone()  (old `other` dropped first)
    let r : Res (Raw × World) := do
      let w1 ← dropInnerTable cfg env other w
      Map.cloneTable cfg env w1
    match r with
    | .ok (nt, w') => ({ ret := "()", w := w' }, false, some nt)
    | .panic c w' => ({ ret := s!"panic:{c}", w := w' }, false, some (Raw.new cfg.W))
    | .abort => ({ ret := "abort", w := w }, true, none)
    | .fault f => ({ ret := s!"FAULT({f})", w := w }, true, none)
  | "clone_from", [] => no <| resOutW (Map.cloneFrom cfg env other w) w
  | "eq", [] => no <| resOut (Map.mapEq cfg env other w) toString w
  | "self_eq", [] => no <| resOut (Map.mapEq cfg env w.t w) toString w
  | "nop", [] => no ({ ret := "()", w := w }, false)
  | _, _ => execEntryOp st env name args other w

end Hb.Driver
