/- `HashTable` operations of the line protocol (real side: harness/src/table_runner.rs). -/
import Hb.Driver.Base
import Hb.Model.Table
namespace Hb.Driver
open Hb

/-- Execute one op on target table `w.t`; `(out, fatal, new value for the other collection)`. -/
def execTableOp (st : DState) (env0 : Env) (name : String) (args : List String) (other : Raw) (w : World) :
    StepOut × Bool × Option Raw :=
  let cfg := st.cfg
  let ids := st.ids
  let env := Table.envFor cfg env0
  -- caller-supplied hash of key `k`: the plan, without consuming the hash oracle
  let H (k : Nat) : Nat := (st.plan.get? k).getD (mix3 0x5eed 0 k)
  let no (x : StepOut × Bool) : StepOut × Bool × Option Raw := (x.1, x.2, none)
  let elems (l : List Elem) : String := String.intercalate "," (l.map (fmtElem ids))
  let occ (b : Bool) : String := if b then "occ" else "vac"
  -- a reference to a zero-sized element carries no address: observations print bucket 0
  let ix (l : List Nat) : List Nat := if cfg.size == 0 then l.map (fun _ => 0) else l
  let mk (k id v : String) : Elem := Table.mkElem cfg (nat! k) (nat! id) (nat! v)
  match name, args with
  | "insert_unique", [k, id, v] => no <| resOutW (Table.insertUnique cfg env (H (nat! k)) (mk k id v) w) w
  | "insert", [k, id, _, v] => no <| resOutW (Table.insertUnique cfg env (H (nat! k)) (mk k id v) w) w
  | "find", [k] => no <| resOut (Table.findElem cfg env (H (nat! k)) (nat! k) w) (fmtOptElem ids) w
  | "get", [k] => no <| resOut (Table.findElem cfg env (H (nat! k)) (nat! k) w) (fmtOptElem ids) w
  | "findmut", [k, nv] => no <| resOut (Table.findMut cfg env (H (nat! k)) (nat! k) (nat! nv) w) (fmtOptElem ids) w
  | "find_entry_remove", [k] =>
    no <| resOut (Table.findEntryRemove cfg env (H (nat! k)) (nat! k) none w) (fmtOptElem ids) w
  | "find_entry_remove_drop", [k] =>
    no <| resOut (Table.findEntryRemove cfg env (H (nat! k)) (nat! k) none w) (fmtOptElem ids) w
  | "remove", [k] =>
    no <| resOut (Table.findEntryRemove cfg env (H (nat! k)) (nat! k) none w) (fmtOptElem ids) w
  | "find_entry_remove_reinsert", [k, id, v] =>
    no <| resOut (Table.findEntryRemove cfg env (H (nat! k)) (nat! k) (some (mk k id v)) w) (fmtOptElem ids) w
  | "entry_insert", [k, id, v] =>
    no <| resOut (Table.entryInsert cfg env (H (nat! k)) (nat! k) (mk k id v) w) occ w
  | "entry_or_insert", [k, id, v] =>
    no <| resOut (Table.entryOrInsert cfg env (H (nat! k)) (nat! k) (mk k id v) w) occ w
  | "entry_and_modify", [k, nv] =>
    no <| resOut (Table.entryAndModify cfg env (H (nat! k)) (nat! k) (nat! nv) w) occ w
  | "clear", [] => no <| resOutW (clear cfg env w) w
  | "reserve", [n] => no <| resOutW (reserve cfg env (nat! n) w) w
  | "try_reserve", [n] => no <| resOut (Map.tryReserve cfg env (nat! n) w) fmtTre w
  | "shrink_to", [m] => no <| resOutW (shrinkTo cfg env (nat! m) w) w
  | "shrink_to_fit", [] => no <| resOutW (shrinkTo cfg env w.t.items w) w
  | "retain", [] => no <| resOutW (Map.retain cfg env w) w
  | "extract_if", [k] => no <| resOut (Map.extractIf cfg env (nat! k) w) elems w
  | "drain", [k, fg] => no <| resOut (Map.drain cfg env (nat! k) (fg == "1") w) elems w
  | "into_iter", [k] => no <| resOut (Map.intoIter cfg env (nat! k) w) elems w
  | "drain_fold", [k] => no <| resOut (Map.drain cfg (foldEnv env (nat! k) w) (if nat! k = 0 then w.t.items else nat! k) false w) elems w
  | "into_iter_fold", [k] => no <| resOut (Map.intoIter cfg (foldEnv env (nat! k) w) (if nat! k = 0 then w.t.items else nat! k) w) elems w
  | "iter", p :: rest =>
    match iterObserveW cfg w.t (match rest.head? with | some "iter_mut" => .tableIterMut | some "values_mut" => .tableIterMut | _ => .tableIter) (nat! p) with
    | .error f => ({ ret := s!"FAULT({f})", w := w }, true, none)
    | .ok (pre, folded, rest_, hints) =>
      -- third argument `nth`: after the prefix, `nth` far past the end exhausts the iterator
      if rest.length = 2 then
        ({ ret := s!"pre={fmtNats (ix pre)} fold= rest= sh={fmtNats (hints ++ [0])}", w := w }, false, none)
      else
      ({ ret := s!"pre={fmtNats (ix pre)} fold={fmtNats (ix folded)} rest={fmtNats (ix rest_)} sh={fmtNats hints}", w := w },
       false, none)
  | "iter_hash", [k] =>
    match Table.iterHash cfg w.t (H (nat! k)) with
    | .error f => ({ ret := s!"FAULT({f})", w := w }, true, none)
    | .ok l => ({ ret := fmtNats (ix l), w := w }, false, none)
  | "iter_hash_mut", [k] =>
    match Table.iterHash cfg w.t (H (nat! k)) with
    | .error f => ({ ret := s!"FAULT({f})", w := w }, true, none)
    | .ok l => ({ ret := fmtNats (ix l), w := w }, false, none)
  | "get_many_mut", ks =>
    no <| resOut (Table.getManyMut cfg env false (ks.map fun k => (H (nat! k), nat! k)) w)
      (fun l => "[" ++ String.intercalate "," (l.map (fmtOptElem ids)) ++ "]") w
  | "get_many_mut_any", ks =>
    no <| resOut (Table.getManyMut cfg env true (ks.map fun k => (H (nat! k), nat! k)) w)
      (fun l => "[" ++ String.intercalate "," (l.map (fmtOptElem ids)) ++ "]") w
  | "with_capacity", [n] =>
    -- the old table is dropped, a new one created
    let r : Res World := do
      let old := w.t
      let w1 ← dropInnerTable cfg env old { w with t := Raw.new cfg.W }
      withCapacity cfg env (nat! n) w1
    no <| resOutW r w
  | "clone_to_other", [] =>
    -- other := self.clone()  (old `other` dropped first)
    let r : Res (Raw × World) := do
      let w1 ← dropInnerTable cfg env other w
      Map.cloneTable cfg env w1
    match r with
    | .ok (nt, w') => ({ ret := "()", w := w' }, false, some nt)
    | .panic c w' => ({ ret := s!"panic:{c}", w := w' }, false, some (Raw.new cfg.W))
    | .abort => ({ ret := "abort", w := w }, true, none)
    | .fault f => ({ ret := s!"FAULT({f})", w := w }, true, none)
  | "clone_from", [] => no <| resOutW (Table.cloneFrom cfg env other w) w
  | "len", [] => no ({ ret := toString w.t.items, w := w }, false)
  | "nop", [] => no ({ ret := "()", w := w }, false)
  | _, _ => ({ ret := s!"bad-op {name}", w := w }, true, none)

end Hb.Driver
