/- Operations of `coll=par` scenarios (C19): the split driver, and the schedule-independent effects of
   the real rayon operations (their results are judged by direct oracles on the real side and print
   `ok`; the model has nothing to say about schedules). -/
import Hb.Driver.MapOps
import Hb.Model.Par
namespace Hb.Driver
open Hb

/-- `N(N(L,L),L)` ↦ tree. Anything unparsable is a leaf. -/
def parseTree (s : String) : Par.Tree :=
  let rec go (fuel : Nat) (cs : List Char) : Par.Tree × List Char :=
    match fuel, cs with
    | fuel + 1, 'N' :: '(' :: rest =>
      let (l, r1) := go fuel rest
      let (r, r2) := go fuel (r1.drop 1)       -- ","
      (.node l r, r2.drop 1)                    -- ")"
    | _, _ :: rest => (.leaf, rest)             -- "L"
    | _, [] => (.leaf, [])
  (go s.length s.toList).1

def fmtLeaves (ls : List (List Nat)) : String :=
  String.intercalate ";" ((List.range ls.length).map fun i => s!"l{i}={fmtNats (ls.getD i [])}")

/-- Key `j` of the bulk op `fill n seed idbase` (par_runner.rs `fill_key`). -/
def fillKey (seed j : Nat) : Nat := 5000000 + mix3 seed j 7 % 2 ^ 30

def fillLoop (cfg : Cfg) (env : Env) (seed base : Nat) : Nat → Nat → World → Res World
  | 0, _, w => .ok w
  | n + 1, j, w =>
    match Map.insert cfg env ⟨fillKey seed j, base + 2 * j, base + 2 * j + 1, j⟩ w with
    | .ok (_, w') => fillLoop cfg env seed base n (j + 1) w'
    | .panic c w' => .panic c w'
    | .abort => .abort
    | .fault f => .fault f

def unfillLoop (cfg : Cfg) (env : Env) (seed stride : Nat) : Nat → Nat → World → Res World
  | 0, _, w => .ok w
  | n + 1, j, w =>
    if j % (max stride 1) == 0 then
      match Map.remove cfg env (fillKey seed j) w with
      | .ok (_, w') => unfillLoop cfg env seed stride n (j + 1) w'
      | .panic c w' => .panic c w'
      | .abort => .abort
      | .fault f => .fault f
    else unfillLoop cfg env seed stride n (j + 1) w

/-- Every stored payload bumped by `d` (`par_iter_mut` / `par_values_mut` with `v += d`). -/
def bumpAll (t : Raw) (d : Nat) : Raw :=
  { t with slots := t.slots.map fun s => s.map fun e => { e with v := e.v + d } }

/-- Names of real rayon operations that leave the target untouched. -/
def rayonReadOnly : List String :=
  ["par_iter", "par_keys", "par_values", "par_order", "s_par_iter", "s_par_drain", "s_into_par_iter",
   "t_par_iter", "t_par_iter_mut", "t_par_drain", "t_into_par_iter", "t_split", "par_extend",
   "par_extend_from", "from_par_iter", "par_eq", "par_union", "par_intersection", "par_difference",
   "par_symmetric_difference", "par_is_subset", "par_is_superset", "par_is_disjoint", "s_par_eq"]

def execParOp (st : DState) (env : Env) (name : String) (args : List String) (other : Raw) (w : World) :
    StepOut × Bool × Option Raw :=
  let cfg := st.cfg
  let no (x : StepOut × Bool) : StepOut × Bool × Option Raw := (x.1, x.2, none)
  let ok (t : Raw) : StepOut × Bool × Option Raw := ({ ret := "ok", w := { w with t := t } }, false, none)
  match name, args with
  | "split", [tree] =>
    match Par.splitLeaves cfg w.t (parseTree tree) with
    | .error f => ({ ret := s!"FAULT({f})", w := w }, true, none)
    | .ok ls => ({ ret := fmtLeaves ls, w := w }, false, none)
  | "fill", [n, seed, base] => no <| resOutW (fillLoop cfg env (nat! seed) (nat! base) (nat! n) 0 w) w
  | "unfill", [n, seed, stride] => no <| resOutW (unfillLoop cfg env (nat! seed) (nat! stride) (nat! n) 0 w) w
  | "par_iter_mut", _ => ok (bumpAll w.t 1)
  | "par_values_mut", _ => ok (bumpAll w.t 3)
  | "par_drain", [_, _, mode] =>
    -- driven: `clear_no_drop` guard; dropped undriven: `RawParDrain::drop` = `clear()`, which leaves
    -- an empty table (tombstones included) alone
    if mode == "drop" && w.t.items == 0 then ok w.t else ok (Par.drainFinal w.t)
  | "into_par_iter", _ =>
    -- the collection is consumed (replaced by `new()`), its allocation freed exactly once
    if w.t.isEmptySingleton then ok (Raw.new cfg.W)
    else
      match freeBuckets cfg w.t.mask { w with t := Raw.new cfg.W } with
      | .ok w' => ({ ret := "ok", w := w' }, false, none)
      | _ => ({ ret := "FAULT(into_par_iter free)", w := w }, true, none)
  | _, _ =>
    if rayonReadOnly.contains name then ok w.t
    else execMapOp st env name args other w

end Hb.Driver
