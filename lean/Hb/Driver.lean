import Hb.Driver.Main
