/-
Scenario replay: parsing, oracle construction from tapes, canonical printing.
Not part of any theorem; it is the executable half of the correspondence check.
-/
import Hb.Model.Api
import Hb.Proofs.Defs
import Std.Data.HashMap
namespace Hb.Driver
open Hb

/-! ### deterministic pseudo-random oracles (identical in `harness/src/tape.rs`) -/

def splitmix64 (x : UInt64) : UInt64 :=
  let z := x + 0x9E3779B97F4A7C15
  let z := (z ^^^ (z >>> 30)) * 0xBF58476D1CE4E5B9
  let z := (z ^^^ (z >>> 27)) * 0x94D049BB133111EB
  z ^^^ (z >>> 31)

def mix3 (seed a b : Nat) : Nat :=
  (splitmix64 (splitmix64 (UInt64.ofNat seed + UInt64.ofNat a) + UInt64.ofNat b)).toNat

structure EnvP where
  hashMode : String := "plan"    -- plan | mix
  hashSeed : Nat := 0
  hpanic : Option Nat := none
  eqMode : String := "law"       -- law | mix
  eqSeed : Nat := 0
  epanic : Option Nat := none
  cpanic : Option Nat := none
  predSeed : Nat := 0
  ppanic : Option Nat := none
  dpanic : Option Nat := none
  afail : Option Nat := none     -- this request fails
  afrom : Option Nat := none     -- every request from this one on fails

def mkEnv (p : EnvP) (plan : Std.HashMap Nat Nat) : Env :=
  { hash := fun c k =>
      if p.hpanic == some c then none
      else if p.hashMode == "mix" then some (mix3 p.hashSeed c k)
      else some ((plan.get? k).getD (mix3 0x5eed 0 k))
    eq := fun c q e =>
      if p.epanic == some c then none
      else if p.eqMode == "mix" then some (mix3 p.eqSeed c 0 % 2 == 1)
      else some (q == e.k)
    clone := fun c _ =>
      if p.cpanic == some c then none else some (1000000 + 2 * c, 1000001 + 2 * c)
    pred := fun c e =>
      if p.ppanic == some c then none
      else
        let r := mix3 p.predSeed c 0
        some (r % 2 == 1, if (r / 2) % 4 == 0 then e.v + 7 else e.v)
    allocOk := fun j =>
      !(p.afail == some j) && !(match p.afrom with | some f => j ≥ f | none => false)
    dropPanics := fun c _ => p.dpanic == some c }

/-! ### printing -/

def hexDigit (n : Nat) : Char := "0123456789abcdef".toList.getD n '?'
def hex2 (b : Nat) : String := String.ofList [hexDigit (b / 16 % 16), hexDigit (b % 16)]

def fnv64 (s : String) : UInt64 :=
  s.toList.foldl (fun h c => (h ^^^ UInt64.ofNat c.toNat) * 0x100000001b3) 0xcbf29ce484222325

def hex64 (x : UInt64) : String :=
  String.ofList ((List.range 16).map fun i => hexDigit ((x.toNat / 16 ^ (15 - i)) % 16))

def fmtElem (ids : Bool) (e : Elem) : String :=
  if ids then s!"{e.k}.{e.kid}.{e.vid}.{e.v}" else s!"{e.k}.0.0.{e.v}"

def fmtState (ids : Bool) (t : Raw) : String :=
  let c := String.join (t.ctrl.toList.map hex2)
  let s := String.intercalate "," <|
    (List.range t.slots.size).filterMap fun i =>
      match t.slots[i]? with
      | some (some e) => some s!"{i}:{fmtElem ids e}"
      | _ => none
  let body := s!"c={c} s={s}"
  let body := if body.length > 600 then s!"#{hex64 (fnv64 body)}" else body
  s!"m={t.mask} i={t.items} g={t.gl} {body}"

def fmtEvents (coll : String) (needsDrop : Bool) (log : List Ev) : String :=
  let strs := log.filterMap fun ev =>
    match ev with
    | .dropK kid => if needsDrop then some s!"dk{kid}" else none
    | .dropV vid => if needsDrop && coll == "map" then some s!"dv{vid}" else none
    | .alloc s a => some s!"al{s}/{a}"
    | .free s a => some s!"fr{s}/{a}"
  String.intercalate "," (strs.toArray.qsort (· < ·)).toList

def fmtOptElem (ids : Bool) : Option Elem → String
  | none => "-"
  | some e => fmtElem ids e

def fmtOptVal (ids : Bool) : Option (Nat × Nat) → String
  | none => "-"
  | some (vid, v) => if ids then s!"{vid}.{v}" else s!"0.{v}"

def fmtNats (l : List Nat) : String := String.intercalate "," (l.map toString)

def fmtTre : Option TryReserveError → String
  | none => "ok"
  | some .capacityOverflow => "err(CapacityOverflow)"
  | some (.allocError s a) => s!"err(AllocError {s} {a})"

/-! ### driver state -/

structure DState where
  cfg : Cfg
  coll : String := "map"
  ids : Bool := true
  envp : EnvP := {}
  plan : Std.HashMap Nat Nat := {}
  a : Raw
  b : Raw
  w : World
  live : List (Nat × Nat) := []     -- blocks allocated and not yet freed, over the whole scenario

/-- Apply the allocator events of one operation to the live-block multiset (oldest event first). -/
def applyLive (live : List (Nat × Nat)) (log : List Ev) : List (Nat × Nat) :=
  log.reverse.foldl (fun l ev =>
    match ev with
    | .alloc s a => (s, a) :: l
    | .free s a => l.erase (s, a)
    | _ => l) live

def DState.init : DState :=
  let cfg : Cfg := { ops := Sse2.ops }
  { cfg := cfg, a := Raw.new cfg.W, b := Raw.new cfg.W, w := { t := Raw.new cfg.W } }

def kv (tok : String) : String × String :=
  match tok.splitOn "=" with
  | [k, v] => (k, v)
  | _ => (tok, "")

def optNat (s : String) : Option Nat := if s == "-" then none else s.toNat?

def parseScn (toks : List String) (st : DState) : DState :=
  let kvs := toks.map kv
  let get (k : String) (d : String) := (kvs.find? (·.1 == k)).map (·.2) |>.getD d
  let wN := (get "w" "16").toNat!
  let ops := if wN == 8 then Generic.ops else Sse2.ops
  let cfg : Cfg := { ops := ops, size := (get "size" "32").toNat!, align := (get "align" "8").toNat!,
                     needsDrop := get "drop" "1" == "1", guardAlways := get "fixed" "1" == "1" }
  { cfg := cfg, coll := get "coll" "map", ids := get "ids" "1" == "1", envp := {}, plan := {},
    a := Raw.new cfg.W, b := Raw.new cfg.W, w := { t := Raw.new cfg.W }, live := [] }

def parseEnv (toks : List String) (st : DState) : DState :=
  let p := toks.foldl (fun (p : EnvP) tok =>
    let (k, v) := kv tok
    match k with
    | "hash" =>
      match v.splitOn ":" with
      | ["mix", s] => { p with hashMode := "mix", hashSeed := s.toNat! }
      | _ => { p with hashMode := "plan" }
    | "eq" =>
      match v.splitOn ":" with
      | ["mix", s] => { p with eqMode := "mix", eqSeed := s.toNat! }
      | _ => { p with eqMode := "law" }
    | "hpanic" => { p with hpanic := optNat v }
    | "epanic" => { p with epanic := optNat v }
    | "cpanic" => { p with cpanic := optNat v }
    | "ppanic" => { p with ppanic := optNat v }
    | "dpanic" => { p with dpanic := optNat v }
    | "pred" => { p with predSeed := v.toNat! }
    | "afail" => { p with afail := optNat v }
    | "afrom" => { p with afrom := optNat v }
    | _ => p) st.envp
  { st with envp := p }

def parsePlan (toks : List String) (st : DState) : DState :=
  { st with plan := toks.foldl (fun m tok =>
      match tok.splitOn "=" with
      | [k, h] => m.insert k.toNat! h.toNat!
      | _ => m) st.plan }

/-- Outcome of one operation on the selected collection: text of the return value, new table of the
    target, world. -/
structure StepOut where
  ret : String
  w : World

def resOut {α} (r : Res (α × World)) (fmt : α → String) (w0 : World) : StepOut × Bool :=
  match r with
  | .ok (a, w) => ({ ret := fmt a, w := w }, false)
  | .panic c w => ({ ret := s!"panic:{c}", w := w }, false)
  | .abort => ({ ret := "abort", w := w0 }, true)
  | .fault f => ({ ret := s!"FAULT({f})", w := w0 }, true)

def resOutW (r : Res World) (w0 : World) : StepOut × Bool :=
  resOut (r.bind fun w => .ok ((), w)) (fun _ => "()") w0

def nat! (s : String) : Nat := s.toNat!

/-- Execute one op on target table `w.t`; `other` is the second collection (read-only source). -/
def execOp (st : DState) (env : Env) (name : String) (args : List String) (other : Raw) (w : World) :
    StepOut × Bool × Option Raw :=   -- (out, fatal, new value for the *other* collection)
  let cfg := st.cfg
  let ids := st.ids
  let no (x : StepOut × Bool) : StepOut × Bool × Option Raw := (x.1, x.2, none)
  match name, args with
  | "insert", [k, kid, vid, v] =>
    no <| resOut (Map.insert cfg env ⟨nat! k, nat! kid, nat! vid, nat! v⟩ w) (fmtOptVal ids) w
  | "get", [k] => no <| resOut (Map.get cfg env (nat! k) w) (fmtOptElem ids) w
  | "contains", [k] => no <| resOut (Map.get cfg env (nat! k) w) (fun r => toString r.isSome) w
  | "getmut", [k, nv] => no <| resOut (Map.getMut cfg env (nat! k) (nat! nv) w) (fmtOptElem ids) w
  | "remove", [k] => no <| resOut (Map.remove cfg env (nat! k) w) (fmtOptVal ids) w
  | "remove_entry", [k] => no <| resOut (Map.removeEntry cfg env (nat! k) w) (fmtOptElem ids) w
  | "clear", [] => no <| resOutW (clear cfg env w) w
  | "reserve", [n] => no <| resOutW (Map.reserve cfg env (nat! n) w) w
  | "try_reserve", [n] => no <| resOut (Map.tryReserve cfg env (nat! n) w) fmtTre w
  | "shrink_to", [m] => no <| resOutW (shrinkTo cfg env (nat! m) w) w
  | "shrink_to_fit", [] => no <| resOutW (shrinkTo cfg env 0 w) w
  | "retain", [] => no <| resOutW (Map.retain cfg env w) w
  | "extract_if", [k] =>
    no <| resOut (Map.extractIf cfg env (nat! k) w) (fun l => String.intercalate "," (l.map (fmtElem ids))) w
  | "drain", [k, fg] =>
    no <| resOut (Map.drain cfg env (nat! k) (fg == "1") w) (fun l => String.intercalate "," (l.map (fmtElem ids))) w
  | "into_iter", [k] =>
    no <| resOut (Map.intoIter cfg env (nat! k) w) (fun l => String.intercalate "," (l.map (fmtElem ids))) w
  | "iter", p :: _ =>
    match Map.iterObserve cfg w.t (nat! p) with
    | .error f => ({ ret := s!"FAULT({f})", w := w }, true, none)
    | .ok (pre, folded, rest, hints) =>
      ({ ret := s!"pre={fmtNats pre} fold={fmtNats folded} rest={fmtNats rest} sh={fmtNats hints}", w := w }, false, none)
  | "with_capacity", [n] =>
    -- the old collection is dropped, a new one created
    let r : Res World := do
      let old := w.t
      let w1 ← dropInnerTable cfg env old { w with t := Raw.new cfg.W }
      withCapacity cfg env (nat! n) w1
    no <| resOutW r w
  | "clone_to_other", [] =>
    -- other := self.clone()  (old `other` dropped first)
    let r : Res (Raw × World) := do
      let w1 ← dropInnerTable cfg env other w
      Map.cloneTable cfg env w1
    match r with
    | .ok (nt, w') => ({ ret := "()", w := w' }, false, some nt)
    | .panic c w' => ({ ret := s!"panic:{c}", w := w' }, false, some (Raw.new cfg.W))
    | .abort => ({ ret := "abort", w := w }, true, none)
    | .fault f => ({ ret := s!"FAULT({f})", w := w }, true, none)
  | "clone_from", [] => no <| resOutW (Map.cloneFrom cfg env other w) w
  | "eq", [] => no <| resOut (Map.mapEq cfg env other w) toString w
  | "nop", [] => no ({ ret := "()", w := w }, false)
  | _, _ => ({ ret := s!"bad-op {name}", w := w }, true, none)

/-- Run-time test of the invariant definitions on the model state (never fires unless the model or
    the definitions are wrong; a firing shows up as a disagreement with the implementation). -/
def invNote (st : DState) (t : Raw) : String :=
  if !invB st.cfg t then s!" INV-FAIL({invWhy st.cfg t})"
  else if st.envp.hashMode == "plan" && st.envp.eqMode == "law" && st.coll != "table" && t.buckets ≤ 64 then
    let H := fun k => (st.plan.get? k).getD (mix3 0x5eed 0 k)
    if invLB st.cfg H t then "" else " INVL-FAIL"
  else ""

def obsLine (st : DState) (out : StepOut) : String :=
  let alloc := match allocationSize st.cfg out.w.t with | .ok n => toString n | .error f => s!"FAULT({f})"
  s!"{out.ret}{invNote st out.w.t} ; {fmtState st.ids out.w.t} len={out.w.t.items} cap={out.w.t.capacity} asz={alloc} ; {fmtEvents st.coll st.cfg.needsDrop out.w.log} ; h={out.w.hc} e={out.w.ec} c={out.w.cc} p={out.w.pc} a={out.w.ac} d={out.w.dc}"


/-! ### pure-function lines (C17, C18) -/

def unhex (s : String) : List Nat :=
  let cs := s.toList
  let dv (c : Char) : Nat :=
    if c.isDigit then c.toNat - '0'.toNat else if c.toNat ≥ 'a'.toNat then c.toNat - 'a'.toNat + 10 else 0
  let rec go (l : List Char) (fuel : Nat) : List Nat :=
    match fuel, l with
    | fuel + 1, a :: b :: rest => (dv a * 16 + dv b) :: go rest fuel
    | _, _ => []
  go cs cs.length

def fmtOptNat : Option Nat → String
  | none => "none"
  | some b => s!"some {b}"

def evalFn (cfg : Cfg) (toks : List String) : String :=
  let W := cfg.W
  let bits := cfg.bits
  match toks with
  | ["fn", "c2b", cap, size] => fmtOptNat (capacityToBuckets bits W (nat! size) (nat! cap))
  | ["fn", "bm2c", m] => toString (bucketMaskToCapacity (nat! m))
  | ["fn", "layout", size, ca, b] =>
    match calculateLayoutFor bits W (nat! size) (nat! ca) (nat! b) with
    | none => "none"
    | some l => s!"some {l.size} {l.align} {l.ctrlOffset}"
  | ["fn", "probe", h, mask, steps] =>
    let rec go (k : Nat) (p : ProbeSeq) (acc : List Nat) : List Nat :=
      match k with
      | 0 => acc.reverse
      | k + 1 => go k (p.moveNext W (nat! mask)) (p.pos :: acc)
    fmtNats (go (nat! steps) (probeSeq bits (nat! mask) (nat! h)) [])
  | ["fn", "tag", h] => s!"{tagFull bits (nat! h)} {h1 bits (nat! h)}"
  | ["fn", "tagbits", b] =>
    let sie := if isSpecial (nat! b) then toString (specialIsEmpty (nat! b)) else "na"
    s!"{isFull (nat! b)} {isSpecial (nat! b)} {sie}"
  | ["fn", "samegroup", i, ni, h, mask] =>
    toString (isInSameGroup bits W (nat! mask) (nat! i) (nat! ni) (nat! h))
  | ["fn", "grp", hx, t] =>
    let g := unhex hx
    let o := cfg.ops
    let cv := String.join ((o.convert g).map hex2)
    s!"mt={fmtNats (o.matchTag g (nat! t))} me={fmtNats (o.matchEmpty g)} ms={fmtNats (o.matchSpecial g)} mf={fmtNats (o.matchFull g)} lz={o.emptyLeadingZeros g} tz={o.emptyTrailingZeros g} cv={cv}"
  | ["fn", "static_empty"] => String.join ((Raw.new W).ctrl.toList.map hex2)
  | ["fnrange", "c2b", lo, hi, size] =>
    let lo := nat! lo
    let hi := nat! hi
    let size := nat! size
    Id.run do
      let mut out := ""
      let mut last : Option (Option Nat) := none
      for i in [0:hi - lo] do
        let cap := lo + i
        let v := capacityToBuckets bits W size cap
        if last != some v then
          out := out ++ s!"{cap}:{(fmtOptNat v).replace " " ""},"
          last := some v
      return out
  | ["fnrange", "bm2c", hi] =>
    String.intercalate "," ((List.range (nat! hi)).map fun k => toString (bucketMaskToCapacity (2 ^ k - 1)))
  | ["fnrange", "capcheck", _, _, _] => "bad=0"     -- the property itself (theorem capacityToBuckets_spec)
  | _ => s!"bad-fn {String.intercalate " " toks}"

/-- Process one line; returns the new state and an optional output line. -/
def stepLine (st : DState) (line : String) : DState × Option String :=
  let toks := (line.trimAscii.toString.splitOn " ").filter (· ≠ "")
  match toks with
  | [] => (st, none)
  | "scn" :: id :: rest => (parseScn rest st, some s!"scn {id}")
  | "env" :: rest => (parseEnv rest st, none)
  | "plan" :: rest => (parsePlan rest st, none)
  | "fn" :: _ => (st, some (evalFn st.cfg toks))
  | "fnrange" :: _ => (st, some (evalFn st.cfg toks))
  | "end" :: _ =>
    -- both collections are dropped; whatever is still allocated afterwards was leaked
    let env := mkEnv { st.envp with dpanic := none } st.plan
    let w0 : World := { st.w with t := Raw.new st.cfg.W, log := [] }
    let r : Res World := do
      let w1 ← dropInnerTable st.cfg env st.a w0
      dropInnerTable st.cfg env st.b w1
    match r with
    | .ok w' =>
      let live := applyLive st.live w'.log
      if live.isEmpty then (st, some "end")
      else
        let strs := (live.map fun (s, a) => s!"leaked block {s}/{a}").toArray.qsort (· < ·)
        (st, some s!"end ORACLE {String.intercalate " | " strs.toList}")
    | _ => (st, some "end MODEL-FAULT")
  | "op" :: tgt :: name :: args =>
    let env := mkEnv st.envp st.plan
    let (self, other) := if tgt == "a" then (st.a, st.b) else (st.b, st.a)
    let w0 : World := { st.w with t := self, log := [] }
    let (out, _fatal, newOther) := execOp st env name args other w0
    let line := obsLine st out
    let other' := newOther.getD other
    let live := applyLive st.live out.w.log
    let st' := if tgt == "a" then { st with a := out.w.t, b := other', w := out.w, live := live }
               else { st with b := out.w.t, a := other', w := out.w, live := live }
    (st', some line)
  | _ => (st, some s!"bad-line {line}")

partial def loop (hin : IO.FS.Stream) (hout : IO.FS.Stream) (st : DState) : IO Unit := do
  let line ← hin.getLine
  if line.isEmpty then return ()
  let (st', out) := stepLine st line
  match out with
  | some s => hout.putStrLn s
  | none => pure ()
  loop hin hout st'

def run (_args : List String) (hin hout : IO.FS.Stream) : IO UInt32 := do
  loop hin hout DState.init
  hout.flush
  return 0

end Hb.Driver
