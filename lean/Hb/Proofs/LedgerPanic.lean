/-
Ownership ledger for histories WITH panics (property C04, "no double drop").

`History.lean` proves the ledger of object identities only for calls that RETURN. Here, for EVERY
environment (any `Hash`/`Eq`/predicate/`Drop` may panic at any call number, the allocator may refuse):

* `step_ledger_panic` — one call that UNWINDS (any `MapOp` except the forgotten drain): with `new` the
  log entries written, every key/value object stored before or passed in is afterwards in exactly
  one of {table, destructor log of this call, `lost`}; `lp_LostSpec` says exactly which objects are
  lost, per call (leaked because a destructor panicked: `insert` — the old value in the return slot,
  `remove` — the value, `clear`/`drain` — the elements after the panicking one; or already handed
  to the caller by a partially run `extract_if`/`drain`). Nothing is lost if no destructor panics —
  or merely if the observed panic class is not `"drop"` — and the call is not `extract_if`.
* allocator side: the requested clause `hs_AllocInv w → hs_AllocInv w'` is FALSE for a `drain` whose
  `Drop` unwinds (`drain_panic_leaks_block`, `lpLeak_not_allocInv`: `RawDrain::drop` does not put the
  table back, the block is leaked). What holds for every call is the frame property for
  `hs_AllocInvL` (all frees matched; live blocks = the table's own block + the blocks leaked so far);
  `leaked = []` unless a `drain` unwound, and then it is exactly the block the table owned.
  `step_ledger_panic_partial` is the literal requested statement with the ONE added hypothesis
  "`op` is not a drain, or no destructor panics, or the panic class is not `"drop"`".
* `run_ledger_panics`, `run_ledger_panics_subperm`, `no_double_drop`, `no_double_drop_parts` —
  histories from `new()` with any number of observed panics.
* `lpEx_example`, `lpEx_no_double_drop` — evaluated history with a hasher panic during growth and a
  predicate panic inside `retain`; the hypotheses of the theorems are satisfiable.

Auxiliary: `lp_Eff` (effect of a call, or of the part of a call before it unwinds, that loses
nothing; composable), `lp_reserveRehash_panic` / `lp_reserve_eff` / `lp_fofis_panic` (exact log of the
growth path when it unwinds), `lp_frame_*` (allocator frame lemmas), `lp_ok_frame` (calls that return
keep the frame), `lp_*_mask_panic` (bucket mask when `retain` / `extract_if` unwind).
-/
import Hb.Proofs.History
namespace Hb

variable {cfg : Cfg}

/-! ## allocator invariant with leaked blocks -/

/-- All frees matched, and the live blocks are the table's own block plus the blocks `leaked`. -/
def hs_AllocInvL (cfg : Cfg) (w : World) (leaked : List (Nat × Nat)) : Prop :=
  freesMatched w.log ∧ List.Perm (liveBlocks w.log) (hs_blockOf cfg w.t ++ leaked)

theorem hs_allocInvL_nil (w : World) : hs_AllocInvL cfg w [] ↔ hs_AllocInv cfg w := by
  unfold hs_AllocInvL hs_AllocInv hs_blockOf
  rw [List.append_nil]
  split
  · rw [List.perm_singleton]
  · rw [List.perm_nil]

/-- Only `t` and `log` of a world matter. -/
theorem hs_AllocInvL.congr {w w' : World} {L : List (Nat × Nat)} (h : hs_AllocInvL cfg w L)
    (ht : w'.t = w.t) (hl : w'.log = w.log) : hs_AllocInvL cfg w' L := by
  unfold hs_AllocInvL at h ⊢
  rw [ht, hl]; exact h

theorem lp_blockOf_new : hs_blockOf cfg (Raw.new cfg.W) = [] := rfl

/-- Destructor calls on the same block. -/
theorem lp_frame_drops {w w' : World} {ds : List Ev} (h : Inv cfg w.t) (h' : Inv cfg w'.t)
    (hl : w'.log = ds ++ w.log) (hd : hs_DropOnly ds) (hm : w'.t.mask = w.t.mask)
    {L : List (Nat × Nat)} (ha : hs_AllocInvL cfg w L) : hs_AllocInvL cfg w' L := by
  unfold hs_AllocInvL at ha ⊢
  obtain ⟨e1, e2⟩ := hs_alloc_dropOnly hd w.log
  rw [hl, e1, e2, hs_blockOf_congr h h' hm]
  exact ha

theorem lp_live_free {B : Type} [BEq B] [LawfulBEq B] {live L : List B} {b : B}
    (a2 : live.Perm ([b] ++ L)) : b ∈ live ∧ (live.erase b).Perm L := by
  refine ⟨a2.symm.subset (by simp), ?_⟩
  have := a2.erase b
  simpa using this

theorem lp_live_swap {B : Type} [BEq B] [LawfulBEq B] {live L : List B} {b : B} (b' : B)
    (a2 : live.Perm ([b] ++ L)) : b ∈ b' :: live ∧ ((b' :: live).erase b).Perm ([b'] ++ L) := by
  obtain ⟨hmem, he⟩ := lp_live_free a2
  refine ⟨List.mem_cons_of_mem _ hmem, ?_⟩
  by_cases heq : b' = b
  · rw [heq, List.erase_cons_head]
    exact a2
  · rw [List.erase_cons_tail (by simpa using heq)]
    exact List.Perm.cons _ he

/-- An allocator step (`hs_AStep`). -/
theorem lp_frame_astep {w w' : World} {new : List Ev} (h : Inv cfg w.t) (h' : Inv cfg w'.t)
    (hs : hs_AStep cfg w w' new) {L : List (Nat × Nat)} (ha : hs_AllocInvL cfg w L) :
    hs_AllocInvL cfg w' L := by
  obtain ⟨hl, hcase⟩ := hs
  obtain ⟨a1, a2⟩ := ha
  unfold hs_AllocInvL
  rcases hcase with ⟨hn, hm⟩ | ⟨hal, hn⟩ | ⟨hal, hn⟩
  · rw [hl, hn, List.nil_append, hs_blockOf_congr h h' hm]
    exact ⟨a1, a2⟩
  · rw [hl, hn]
    have hb' : hs_blockOf cfg w'.t =
        [((layoutOf cfg w'.t.buckets).size, (layoutOf cfg w'.t.buckets).align)] := by
      unfold hs_blockOf; rw [if_pos hal]
    rw [hb']
    unfold freeEvs
    cases hwa : w.t.alloc with
    | false =>
      have hb : hs_blockOf cfg w.t = [] := by unfold hs_blockOf; rw [hwa]; rfl
      rw [hb, List.nil_append] at a2
      simp only [Bool.false_eq_true, if_false, List.nil_append, List.singleton_append, hs_allocEv,
        freesMatched, liveBlocks]
      exact ⟨a1, List.Perm.cons _ a2⟩
    | true =>
      have hb : hs_blockOf cfg w.t =
          [((layoutOf cfg w.t.buckets).size, (layoutOf cfg w.t.buckets).align)] := by
        unfold hs_blockOf; rw [if_pos hwa]
      rw [hb] at a2
      obtain ⟨k1, k2⟩ := lp_live_swap
        ((layoutOf cfg w'.t.buckets).size, (layoutOf cfg w'.t.buckets).align) a2
      simp only [if_true, List.cons_append, List.nil_append, hs_allocEv, freesMatched, liveBlocks]
      exact ⟨⟨k1, a1⟩, k2⟩
  · rw [hl, hn]
    have hb' : hs_blockOf cfg w'.t = [] := by unfold hs_blockOf; rw [hal]; rfl
    rw [hb']
    unfold freeEvs
    cases hwa : w.t.alloc with
    | false =>
      have hb : hs_blockOf cfg w.t = [] := by unfold hs_blockOf; rw [hwa]; rfl
      rw [hb] at a2
      simp only [Bool.false_eq_true, if_false, List.nil_append]
      exact ⟨a1, a2⟩
    | true =>
      have hb : hs_blockOf cfg w.t =
          [((layoutOf cfg w.t.buckets).size, (layoutOf cfg w.t.buckets).align)] := by
        unfold hs_blockOf; rw [if_pos hwa]
      rw [hb] at a2
      obtain ⟨k1, k2⟩ := lp_live_free a2
      simp only [if_true, List.singleton_append, List.nil_append, freesMatched, liveBlocks]
      exact ⟨⟨k1, a1⟩, k2⟩

/-- A block obtained and released again inside the call (the guard of `prepare_resize` frees the
    new table when the hasher panics); the table keeps its block. -/
theorem lp_frame_transient {w w' : World} {s a : Nat} (h : Inv cfg w.t) (h' : Inv cfg w'.t)
    (hl : w'.log = [Ev.free s a, Ev.alloc s a] ++ w.log) (hm : w'.t.mask = w.t.mask)
    {L : List (Nat × Nat)} (ha : hs_AllocInvL cfg w L) : hs_AllocInvL cfg w' L := by
  unfold hs_AllocInvL at ha ⊢
  rw [hl, hs_blockOf_congr h h' hm]
  simp only [List.cons_append, List.nil_append, freesMatched, liveBlocks, List.erase_cons_head]
  exact ⟨⟨List.mem_cons_self, ha.1⟩, ha.2⟩

/-- The table is replaced by the unallocated singleton without its block being freed. -/
theorem lp_frame_leak {w w' : World} {ds : List Ev}
    (hl : w'.log = ds ++ w.log) (hd : hs_DropOnly ds) (ht : w'.t = Raw.new cfg.W)
    {L : List (Nat × Nat)} (ha : hs_AllocInvL cfg w L) :
    hs_AllocInvL cfg w' (hs_blockOf cfg w.t ++ L) := by
  unfold hs_AllocInvL at ha ⊢
  obtain ⟨e1, e2⟩ := hs_alloc_dropOnly hd w.log
  rw [hl, e1, e2, ht, lp_blockOf_new, List.nil_append]
  exact ha

/-! ## effect of a call (or of the part of a call before it unwinds) that loses nothing -/

/-- `w'` is reached from `w` by permuting the stored elements, dropping exactly `ds` (log entries
    `new`) and allocator traffic that keeps the allocator frame. -/
structure lp_Eff (cfg : Cfg) (w w' : World) (new : List Ev) (ds : List Elem) : Prop where
  inv : TInv cfg w'.t
  log : w'.log = new ++ w.log
  dK : droppedK new = kidsOf ds
  dV : droppedV new = vidsOf ds
  perm : List.Perm (w'.t.elems ++ ds) w.t.elems
  frame : ∀ L, hs_AllocInvL cfg w L → hs_AllocInvL cfg w' L

theorem lp_Eff.refl {w : World} (h : TInv cfg w.t) : lp_Eff cfg w w [] [] :=
  ⟨h, rfl, rfl, rfl, by simp, fun _ x => x⟩

theorem lp_Eff.of_same {w w' : World} (h : TInv cfg w.t) (ht : w'.t = w.t) (hl : w'.log = w.log) :
    lp_Eff cfg w w' [] [] :=
  ⟨by rw [ht]; exact h, hl, rfl, rfl, by rw [ht]; simp, fun _ x => x.congr ht hl⟩

theorem lp_Eff.of_astep {w w' : World} {new : List Ev} (h : TInv cfg w.t) (h' : TInv cfg w'.t)
    (hA : hs_AStep cfg w w' new) (hp : List.Perm w'.t.elems w.t.elems) :
    lp_Eff cfg w w' new [] :=
  ⟨h', hA.1, hA.dropped.1, hA.dropped.2, by simpa using hp, fun _ x => lp_frame_astep h.1 h'.1 hA x⟩

theorem lp_Eff.of_drops (hnd : cfg.needsDrop = true) {w w' : World} {ds : List Elem}
    (h : TInv cfg w.t) (h' : TInv cfg w'.t) (hl : w'.log = dropEvs cfg ds ++ w.log)
    (hm : w'.t.mask = w.t.mask) (hp : List.Perm (w'.t.elems ++ ds) w.t.elems) :
    lp_Eff cfg w w' (dropEvs cfg ds) ds :=
  ⟨h', hl, (hs_dropped_dropEvs hnd ds).1, (hs_dropped_dropEvs hnd ds).2, hp,
    fun _ x => lp_frame_drops h.1 h'.1 hl (hs_dropOnly_dropEvs ds) hm x⟩

theorem lp_Eff.of_transient {w w' : World} {s a : Nat} (h : TInv cfg w.t) (ht : w'.t = w.t)
    (hl : w'.log = [Ev.free s a, Ev.alloc s a] ++ w.log) :
    lp_Eff cfg w w' [Ev.free s a, Ev.alloc s a] [] :=
  ⟨by rw [ht]; exact h, hl, rfl, rfl, by rw [ht]; simp,
    fun _ x => lp_frame_transient h.1 (by rw [ht]; exact h.1) hl (by rw [ht]) x⟩

theorem lp_Eff.trans {a b c : World} {n1 n2 : List Ev} {d1 d2 : List Elem}
    (h1 : lp_Eff cfg a b n1 d1) (h2 : lp_Eff cfg b c n2 d2) :
    lp_Eff cfg a c (n2 ++ n1) (d2 ++ d1) := by
  refine ⟨h2.inv, by rw [h2.log, h1.log, List.append_assoc], ?_, ?_, ?_,
    fun L x => h2.frame L (h1.frame L x)⟩
  · rw [hs_droppedK_append, h1.dK, h2.dK, kidsOf, kidsOf, kidsOf, List.map_append]
  · rw [hs_droppedV_append, h1.dV, h2.dV, vidsOf, vidsOf, vidsOf, List.map_append]
  · rw [← List.append_assoc]
    exact (List.Perm.append_right d1 h2.perm).trans h1.perm

/-- Only `t` and `log` of the right-hand world matter. -/
theorem lp_Eff.congr_right {w w1 w2 : World} {new : List Ev} {ds : List Elem}
    (h : lp_Eff cfg w w1 new ds) (ht : w2.t = w1.t) (hl : w2.log = w1.log) :
    lp_Eff cfg w w2 new ds :=
  ⟨by rw [ht]; exact h.inv, hl.trans h.log, h.dK, h.dV, by rw [ht]; exact h.perm,
    fun L x => (h.frame L x).congr ht hl⟩

/-- Only `t` and `log` of the left-hand world matter. -/
theorem lp_Eff.congr_left {w0 w w1 : World} {new : List Ev} {ds : List Elem}
    (h : lp_Eff cfg w w1 new ds) (ht : w0.t = w.t) (hl : w0.log = w.log) :
    lp_Eff cfg w0 w1 new ds :=
  ⟨h.inv, by rw [hl]; exact h.log, h.dK, h.dV, by rw [ht]; exact h.perm,
    fun L x => h.frame L (x.congr ht.symm hl.symm)⟩

theorem lp_Eff.permK {w w' : World} {new : List Ev} {ds : List Elem} (h : lp_Eff cfg w w' new ds) :
    List.Perm (kidsOf w'.t.elems ++ droppedK new) (kidsOf w.t.elems) := by
  rw [h.dK, kidsOf, kidsOf, kidsOf, ← List.map_append]
  exact h.perm.map _

theorem lp_Eff.permV {w w' : World} {new : List Ev} {ds : List Elem} (h : lp_Eff cfg w w' new ds) :
    List.Perm (vidsOf w'.t.elems ++ droppedV new) (vidsOf w.t.elems) := by
  rw [h.dV, vidsOf, vidsOf, vidsOf, ← List.map_append]
  exact h.perm.map _

/-! ## the growth path -/

/-- `reserve_rehash_inner` unwinding: `"capacity"` (nothing happened), or a hasher panic — during
    the in-place rehash (the guard drops the elements whose bucket is still pending and the table
    stays on its block) or while moving into the new table (the guard frees the new block again, the
    old table is untouched). -/
theorem lp_reserveRehash_panic (hc : CfgOk cfg) (hp : ProbeCovers cfg) (hnd : cfg.needsDrop = true)
    (env : Env) (additional : Nat) (fb : Fallibility) (w : World) (h : TInv cfg w.t)
    (hadd : w.t.alloc = true ∨ 0 < additional) :
    match reserveRehash cfg env additional fb w with
    | .panic _ w' => ∃ new ds, lp_Eff cfg w w' new ds
    | _ => True := by
  obtain ⟨hinv, hlo⟩ := h
  unfold reserveRehash
  cases hca : checkedAdd cfg.bits w.t.items additional with
  | none =>
    cases fb
    · simp [capacityOverflow]
    · simp only [capacityOverflow]
      exact ⟨[], [], lp_Eff.refl ⟨hinv, hlo⟩⟩
  | some newItems =>
    have hn := ag_checkedAdd_some hca
    simp only
    by_cases hbr : newItems ≤ bucketMaskToCapacity w.t.mask / 2
    · rw [if_pos hbr]
      have ha : w.t.alloc = true := by
        rcases hadd with ha | hpos
        · exact ha
        · cases hal : w.t.alloc with
          | true => rfl
          | false =>
            have hs := ag_singleton_of_not_alloc hinv hal
            rw [hs.2.1] at hbr
            simp [bucketMaskToCapacity] at hbr
            omega
      have hsp := rehashInPlace_spec hc hp env w hinv ha
      cases hr : rehashInPlace cfg env w with
      | ok w' => trivial
      | panic c w' =>
        rw [hr] at hsp
        obtain ⟨_, a2, a3, _⟩ := hsp
        obtain ⟨b1, _, _, _, ds, b5, b6⟩ := a3 (Or.inl hnd)
        exact ⟨_, ds, lp_Eff.of_drops hnd ⟨hinv, hlo⟩
          ⟨b1, hlo.of_eq a2 (ag_alloc_eq hinv b1 a2)⟩ b6 a2 b5⟩
      | abort => trivial
      | fault f => trivial
    · rw [if_neg hbr]
      have hsp := resizeInner_post hc hp env (max newItems (bucketMaskToCapacity w.t.mask + 1)) fb w
        hinv hlo (by omega)
      cases hr : resizeInner cfg env (max newItems (bucketMaskToCapacity w.t.mask + 1)) fb w with
      | ok pr => trivial
      | panic c w' =>
        rw [hr] at hsp
        rcases hsp with ⟨_, _, a3⟩ | ⟨_, _, a3, b, k, _, _, a6, _⟩
        · rw [a3]; exact ⟨[], [], lp_Eff.refl ⟨hinv, hlo⟩⟩
        · exact ⟨_, [], lp_Eff.of_transient ⟨hinv, hlo⟩ a3 a6⟩
      | abort => trivial
      | fault f => trivial

/-- `RawTable::reserve`, returned or unwound. -/
theorem lp_reserve_eff (hc : CfgOk cfg) (hp : ProbeCovers cfg) (hnd : cfg.needsDrop = true)
    (env : Env) (additional : Nat) (w : World) (h : TInv cfg w.t) :
    match reserve cfg env additional w with
    | .ok w' => ∃ new, lp_Eff cfg w w' new []
    | .panic _ w' => ∃ new ds, lp_Eff cfg w w' new ds
    | _ => True := by
  have h1 := reserve_spec hc hp env additional w h
  have h2 := hs_reserve_exact hc hp env additional w h
  cases hr : reserve cfg env additional w with
  | ok w' =>
    rw [hr] at h1 h2
    obtain ⟨new, hA⟩ := h2
    exact ⟨new, lp_Eff.of_astep h h1.1 hA h1.2.2.1⟩
  | panic c w' =>
    unfold reserve at hr
    by_cases hgt : additional > w.t.gl
    · rw [if_pos hgt] at hr
      have h3 := lp_reserveRehash_panic hc hp hnd env additional .infallible w h (Or.inr (by omega))
      cases hrr : reserveRehash cfg env additional .infallible w with
      | ok pr =>
        obtain ⟨r, w1⟩ := pr
        rw [hrr] at hr
        cases r with
        | ok u => cases u; simp at hr
        | error e => simp at hr
      | panic c1 w1 =>
        rw [hrr] at hr h3
        simp only [Res.panic.injEq] at hr
        rw [← hr.2]
        exact h3
      | abort => rw [hrr] at hr; simp at hr
      | fault f => rw [hrr] at hr; simp at hr
    · rw [if_neg hgt] at hr; cases hr
  | abort => trivial
  | fault f => trivial

/-- `find_or_find_insert_slot` unwinding: inside `reserve(1)`, or `Eq` panicked after it. -/
theorem lp_fofis_panic (hc : CfgOk cfg) (hp : ProbeCovers cfg) (hnd : cfg.needsDrop = true)
    (env : Env) (hash q : Nat) (w : World) (h : TInv cfg w.t) :
    match findOrFindInsertSlot cfg env hash q w with
    | .panic _ w' => ∃ new ds, lp_Eff cfg w w' new ds
    | _ => True := by
  unfold findOrFindInsertSlot
  have h1 := lp_reserve_eff hc hp hnd env 1 w h
  cases hr : reserve cfg env 1 w with
  | ok w1 =>
    rw [hr] at h1
    obtain ⟨new, he⟩ := h1
    simp only
    rcases fofis_total hc hp env hash q (tagFull cfg.bits hash) (tagFull_lt_128 cfg.bits hash) w1
        he.inv.1 with ⟨idx, w', k1, k2, k3, _⟩ | ⟨slot, w', k1, k2, k3, _⟩ | ⟨w', k1, k2, k3, _⟩
    · rw [k1]; trivial
    · rw [k1]; trivial
    · rw [k1]; exact ⟨new, [], he.congr_right k2 k3⟩
  | panic c w' => rw [hr] at h1; exact h1
  | abort => trivial
  | fault f => trivial

/-! ## the ledger of one unwinding call -/

/-- Exactly which objects are lost (neither stored nor dropped) when call `op` unwinds with panic
    class `c` from `w`:
    * `insert`: nothing, or — the spare key's destructor panicked after the value was overwritten —
      the old value of a stored element (it sits in the return slot);
    * `remove`: nothing, or — the stored key's destructor panicked after the entry was taken out — the
      value of that stored element;
    * `clear`: a destructor panicked on `e`; the elements `rest` after it (bucket order) are leaked;
    * `extract_if`: the predicate panicked; the elements already yielded (`retainKept` of the visited
      prefix, fewer than `k`) are with the caller;
    * `drain`: a destructor panicked on `e` inside `Drain::drop`; the `k` yielded elements are with the
      caller, the elements `rest` after `e` are leaked;
    * every other call: nothing. -/
def lp_LostSpec (env : Env) (op : MapOp) (c : String) (w : World) (lostK lostV : List Nat) : Prop :=
  match op with
  | .insert _ =>
    lostK = [] ∧ (lostV = [] ∨ (c = "drop" ∧ ∃ old ∈ w.t.elems, lostV = [old.vid]))
  | .remove _ =>
    lostK = [] ∧ (lostV = [] ∨ (c = "drop" ∧ ∃ x ∈ w.t.elems, lostV = [x.vid]))
  | .clear =>
    c = "drop" ∧ ∃ ds e rest, w.t.elems = ds ++ e :: rest ∧
      env.dropPanics (w.dc + ds.length) e = true ∧ lostK = kidsOf rest ∧ lostV = vidsOf rest
  | .extractIf k =>
    c = "pred" ∧ ∃ n, (retainKept env w.pc (w.t.elems.take n)).length < k ∧
      lostK = kidsOf (retainKept env w.pc (w.t.elems.take n)) ∧
      lostV = vidsOf (retainKept env w.pc (w.t.elems.take n))
  | .drain k _ =>
    c = "drop" ∧ ∃ ds e rest, w.t.elems.drop k = ds ++ e :: rest ∧
      env.dropPanics (w.dc + ds.length) e = true ∧
      lostK = kidsOf (w.t.elems.take k) ++ kidsOf rest ∧
      lostV = vidsOf (w.t.elems.take k) ++ vidsOf rest
  | _ => lostK = [] ∧ lostV = []

/-- Ledger of one call `op` that unwound from `w` leaving `w'`: `new` = the log entries written;
    `lostK`/`lostV` = objects neither stored nor dropped afterwards; `leaked` = blocks neither freed nor
    owned by the table afterwards. -/
def lp_Ledger (cfg : Cfg) (env : Env) (op : MapOp) (c : String) (w w' : World) : Prop :=
  ∃ (new : List Ev) (lostK lostV : List Nat) (leaked : List (Nat × Nat)), w'.log = new ++ w.log ∧
    List.Perm (kidsOf w'.t.elems ++ droppedK new ++ lostK) (kidsOf w.t.elems ++ insertedK [op]) ∧
    List.Perm (vidsOf w'.t.elems ++ droppedV new ++ lostV) (vidsOf w.t.elems ++ insertedV [op]) ∧
    (∀ L, hs_AllocInvL cfg w L → hs_AllocInvL cfg w' (leaked ++ L)) ∧
    ((∀ n f, op ≠ .drain n f) → leaked = []) ∧
    ((∀ c e, env.dropPanics c e = false) →
      leaked = [] ∧ ((∀ n, op ≠ .extractIf n) → lostK = [] ∧ lostV = [])) ∧
    (c ≠ "drop" → leaked = [] ∧ ((∀ n, op ≠ .extractIf n) → lostK = [] ∧ lostV = [])) ∧
    lp_LostSpec env op c w lostK lostV ∧
    (leaked = [] ∨ ((∃ n, op = .drain n false) ∧ leaked = hs_blockOf cfg w.t))

/-- Closes `lp_LostSpec … [] []` for calls that lose nothing. -/
macro "lost_triv" : tactic =>
  `(tactic| first
    | exact ⟨rfl, rfl⟩
    | exact ⟨rfl, Or.inl rfl⟩
    | (unfold lp_LostSpec; exact ⟨rfl, rfl⟩)
    | (unfold lp_LostSpec; exact ⟨rfl, Or.inl rfl⟩)
    | (simp [lp_LostSpec]))

/-- A call that inserts nothing and whose unwinding loses nothing. -/
theorem lp_ledger_of_eff {env : Env} {op : MapOp} {c : String} {w w' : World} {new : List Ev} {ds : List Elem}
    (he : lp_Eff cfg w w' new ds) (hiK : insertedK [op] = []) (hiV : insertedV [op] = [])
    (hL : lp_LostSpec env op c w [] []) :
    lp_Ledger cfg env op c w w' := by
  refine ⟨new, [], [], [], he.log, ?_, ?_, fun L x => he.frame L x, fun _ => rfl,
    fun _ => ⟨rfl, fun _ => ⟨rfl, rfl⟩⟩,
    fun _ => ⟨rfl, fun _ => ⟨rfl, rfl⟩⟩, hL, Or.inl rfl⟩
  · rw [hiK]; simpa using he.permK
  · rw [hiV]; simpa using he.permV

theorem lp_dropKeyR_panic (hnd : cfg.needsDrop = true) (env : Env) (kid : Nat) (w : World)
    {c : String} {w' : World} (h : dropKeyR cfg env kid w = .panic c w') :
    w'.t = w.t ∧ w'.log = [Ev.dropK kid] ++ w.log ∧
      env.dropPanics w.dc ⟨0, kid, 0, 0⟩ = true ∧ c = "drop" := by
  unfold dropKeyR dropKey at h
  rw [if_pos hnd] at h
  simp only at h
  split at h
  · rename_i hp
    cases h
    exact ⟨rfl, rfl, hp, rfl⟩
  · cases h

/-- `insert` whose arguments were dropped by the unwinding (`Hash`/`Eq`/`"capacity"` panic). -/
theorem lp_ledger_insert_dropped (hnd : cfg.needsDrop = true) {env : Env} {e : Elem}
    {c : String} {w w1 w' : World} {new : List Ev} {ds : List Elem} (he : lp_Eff cfg w w1 new ds)
    (ht : w'.t = w1.t) (hl : w'.log = dropEvs cfg [e] ++ w1.log) :
    lp_Ledger cfg env (.insert e) c w w' := by
  obtain ⟨dk, dv⟩ := hs_dropped_dropEvs hnd [e]
  refine ⟨dropEvs cfg [e] ++ new, [], [], [], by rw [hl, he.log, List.append_assoc], ?_, ?_, ?_,
    fun _ => rfl, fun _ => ⟨rfl, fun _ => ⟨rfl, rfl⟩⟩,
    fun _ => ⟨rfl, fun _ => ⟨rfl, rfl⟩⟩, by lost_triv, Or.inl rfl⟩
  · rw [hs_droppedK_append, dk, ht]
    have h1 := List.perm_iff_count.1 he.permK
    refine List.perm_iff_count.2 fun x => ?_
    have h2 := h1 x
    simp only [List.count_append, insertedK, kidsOf, List.map_cons, List.map_nil, List.count_nil] at h2 ⊢
    omega
  · rw [hs_droppedV_append, dv, ht]
    have h1 := List.perm_iff_count.1 he.permV
    refine List.perm_iff_count.2 fun x => ?_
    have h2 := h1 x
    simp only [List.count_append, insertedV, vidsOf, List.map_cons, List.map_nil, List.count_nil] at h2 ⊢
    omega
  · intro L x
    rw [List.nil_append]
    exact lp_frame_drops (w := w1) he.inv.1 (by rw [ht]; exact he.inv.1) hl (hs_dropOnly_dropEvs _)
      (by rw [ht]) (he.frame L x)

theorem lp_insert_panic (hc : CfgOk cfg) (hp : ProbeCovers cfg) (hnd : cfg.needsDrop = true)
    (env : Env) (e : Elem) (w : World) (h : TInv cfg w.t) {c : String} {w' : World}
    (hr : Map.insert cfg env e w = .panic c w') : lp_Ledger cfg env (.insert e) c w w' := by
  unfold Map.insert at hr
  cases hh : env.hash w.hc e.k with
  | none =>
    simp only [ag_makeHash_none hh, bind, Res.bind, Res.onPanic, Res.panic.injEq] at hr
    obtain ⟨_, hw⟩ := hr
    subst hw
    exact lp_ledger_insert_dropped hnd (w1 := { w with hc := w.hc + 1 }) (lp_Eff.of_same h rfl rfl)
      (dropElemQuiet_t _ _) (dropElemQuiet_log _ _)
  | some hv =>
    simp only [ag_makeHash_some hh, bind, Res.bind] at hr
    have hf := findOrFindInsertSlot_spec hc hp env hv e.k { w with hc := w.hc + 1 } h
    have hm := hs_fofis_exact hc hp env hv e.k { w with hc := w.hc + 1 } h
    have hq := lp_fofis_panic hc hp hnd env hv e.k { w with hc := w.hc + 1 } h
    cases hrf : findOrFindInsertSlot cfg env hv e.k { w with hc := w.hc + 1 } with
    | ok pr =>
      obtain ⟨r, w2⟩ := pr
      rw [hrf] at hf hm hr
      obtain ⟨new, hm⟩ := hm
      have hm : hs_AStep cfg w w2 new := hm.congr_left rfl rfl
      cases r with
      | ok idx =>
        obtain ⟨a1, a2, a3, ⟨old, a4⟩, a5, a6, a7⟩ := hf
        simp only [pure, Res.onPanic, slotGet_ok a4] at hr
        have hrep := hs_elems_replace a4 { old with vid := e.vid, v := e.v }
        have hinv' := ag_inv_slot_replace a1.1 a4 { old with vid := e.vid, v := e.v }
        obtain ⟨e', he'⟩ : ∃ e' : Elem, e' = { old with vid := e.vid, v := e.v } := ⟨_, rfl⟩
        rw [← he'] at hrep hr hinv'
        obtain ⟨t2, ht2⟩ : ∃ t2 : Raw,
            t2 = { w2.t with slots := w2.t.slots.setIfInBounds idx (some e') } := ⟨_, rfl⟩
        rw [← ht2] at hrep hr hinv'
        have hm2 : t2.mask = w2.t.mask := by rw [ht2]
        have ha2 : t2.alloc = w2.t.alloc := by rw [ht2]
        cases hd : dropKeyR cfg env e.kid { w2 with t := t2 } with
        | ok w3 => rw [hd] at hr; simp at hr
        | panic c1 w3 =>
          rw [hd] at hr
          simp only [Res.panic.injEq] at hr
          obtain ⟨hcc, hw⟩ := hr
          subst hw
          obtain ⟨d1, d2, d3, d4⟩ := lp_dropKeyR_panic hnd env e.kid _ hd
          have hcd : c = "drop" := hcc.symm.trans d4
          have d1' : w3.t = t2 := d1
          have d2' : w3.log = [Ev.dropK e.kid] ++ w2.log := d2
          have hk := (hrep.map Elem.kid)
          have hv' := (hrep.map Elem.vid)
          simp only [List.map_cons] at hk hv'
          have hk2 := (a5.map Elem.kid)
          have hv2 := (a5.map Elem.vid)
          refine ⟨[Ev.dropK e.kid] ++ new, [], [old.vid], [],
            by rw [d2', hm.1, List.append_assoc], ?_, ?_, ?_, fun _ => rfl, fun hdp => ?_,
            fun hne => absurd hcd hne,
            ⟨rfl, Or.inr ⟨hcd, old, a5.subset (ag_mem_elems a4), rfl⟩⟩, Or.inl rfl⟩
          · rw [hs_droppedK_append, hm.dropped.1, d1']
            have c1 := List.perm_iff_count.1 hk
            have c2 := List.perm_iff_count.1 hk2
            refine List.perm_iff_count.2 fun x => ?_
            have c1x := c1 x
            have c2x := c2 x
            rw [he'] at c1x
            simp only [List.count_append, List.count_cons, insertedK, kidsOf, droppedK,
              List.count_nil] at c1x c2x ⊢
            omega
          · rw [hs_droppedV_append, hm.dropped.2, d1']
            have c1 := List.perm_iff_count.1 hv'
            have c2 := List.perm_iff_count.1 hv2
            refine List.perm_iff_count.2 fun x => ?_
            have c1x := c1 x
            have c2x := c2 x
            rw [he'] at c1x
            simp only [List.count_append, List.count_cons, insertedV, vidsOf, droppedV,
              List.count_nil] at c1x c2x ⊢
            omega
          · intro L x
            rw [List.nil_append]
            have hA' : hs_AStep cfg w { w3 with log := w2.log } new :=
              hm.congr rfl (by rw [d1']; exact hm2) (by rw [d1']; exact ha2)
            have ht3 : TInv cfg w3.t := by rw [d1']; exact a1.of_inv hinv' hm2
            have x1 := lp_frame_astep (w' := { w3 with log := w2.log }) h.1 ht3.1 hA' x
            exact lp_frame_drops (w := { w3 with log := w2.log }) (ds := [Ev.dropK e.kid])
              ht3.1 ht3.1 d2' (fun ev hev => ⟨e.kid, Or.inl (List.mem_singleton.1 hev)⟩) rfl x1
          · rw [hdp] at d3; cases d3
        | abort => rw [hd] at hr; simp at hr
        | fault f => rw [hd] at hr; simp at hr
      | error slot =>
        obtain ⟨a1, a2, a3, a4, _, a6, a7, a8, a9⟩ := hf
        simp only [pure, Res.onPanic] at hr
        obtain ⟨t', b1, _⟩ := ag_insertInSlot hc a1 a6 a2 a3 a4 e hv
        simp only [b1] at hr
        cases hr
    | panic c1 w1 =>
      rw [hrf] at hq hr
      simp only [Res.onPanic, Res.panic.injEq] at hr
      obtain ⟨_, hw⟩ := hr
      subst hw
      obtain ⟨new, ds, he⟩ := hq
      exact lp_ledger_insert_dropped hnd (he.congr_left rfl rfl)
        (dropElemQuiet_t _ _) (dropElemQuiet_log _ _)
    | abort => rw [hrf] at hr; simp [Res.onPanic] at hr
    | fault f => rw [hrf] at hr; simp [Res.onPanic] at hr

theorem lp_get_panic (hc : CfgOk cfg) (hp : ProbeCovers cfg) (env : Env) (k : Nat) (w : World)
    (h : TInv cfg w.t) {c : String} {w' : World} (hr : Map.get cfg env k w = .panic c w') :
    lp_Ledger cfg env (.get k) c w w' := by
  have h1 := Map.get_inv hc hp env k w h
  rw [hr] at h1
  exact lp_ledger_of_eff (lp_Eff.of_same h h1.2.1 h1.2.2.1) rfl rfl (by lost_triv)

theorem lp_getMut_panic (hc : CfgOk cfg) (hp : ProbeCovers cfg) (env : Env) (k nv : Nat) (w : World)
    (h : TInv cfg w.t) {c : String} {w' : World} (hr : Map.getMut cfg env k nv w = .panic c w') :
    lp_Ledger cfg env (.getMut k nv) c w w' := by
  have h1 := Map.getMut_inv hc hp env k nv w h
  rw [hr] at h1
  exact lp_ledger_of_eff (lp_Eff.of_same h h1.2.1 h1.2.2.1) rfl rfl (by lost_triv)

theorem lp_removeEntry_panic (hc : CfgOk cfg) (hp : ProbeCovers cfg) (env : Env) (k : Nat)
    (w : World) (h : TInv cfg w.t) {c : String} {w' : World}
    (hr : Map.removeEntry cfg env k w = .panic c w') :
    lp_Ledger cfg env (.removeEntry k) c w w' := by
  have h1 := Map.removeEntry_inv hc hp env k w h
  rw [hr] at h1
  exact lp_ledger_of_eff (lp_Eff.of_same h h1.2.1 h1.2.2.1) rfl rfl (by lost_triv)

/-- `remove`: `Hash`/`Eq` panic before anything moved, or the destructor of the stored key panicked
    after the entry was taken out (then the value, on its way to the caller, is lost). -/
theorem lp_remove_panic (hc : CfgOk cfg) (hp : ProbeCovers cfg) (hnd : cfg.needsDrop = true)
    (env : Env) (k : Nat) (w : World) (h : TInv cfg w.t) {c : String} {w' : World}
    (hr : Map.remove cfg env k w = .panic c w') : lp_Ledger cfg env (.remove k) c w w' := by
  unfold Map.remove at hr
  have hre := Map.removeEntry_inv hc hp env k w h
  cases hre' : Map.removeEntry cfg env k w with
  | ok pr =>
    obtain ⟨r, w1⟩ := pr
    rw [hre'] at hre hr
    simp only [bind, Res.bind] at hr
    cases r with
    | none => simp [pure] at hr
    | some x =>
      obtain ⟨a1, a2, a3, a4, a5⟩ := hre
      simp only at hr
      cases hd : dropKeyR cfg env x.kid w1 with
      | ok w2 => rw [hd] at hr; simp [pure] at hr
      | panic c1 w2 =>
        rw [hd] at hr
        simp only [Res.panic.injEq] at hr
        obtain ⟨hcc, hw⟩ := hr
        subst hw
        obtain ⟨d1, d2, d3, d4⟩ := lp_dropKeyR_panic hnd env x.kid _ hd
        have hcd : c = "drop" := hcc.symm.trans d4
        have hk := a4.map Elem.kid
        have hv := a4.map Elem.vid
        simp only [List.map_cons] at hk hv
        refine ⟨[Ev.dropK x.kid], [], [x.vid], [], by rw [d2, a2], ?_, ?_, ?_, fun _ => rfl,
          fun hdp => ?_, fun hne => absurd hcd hne,
          ⟨rfl, Or.inr ⟨hcd, x, a4.subset List.mem_cons_self, rfl⟩⟩, Or.inl rfl⟩
        · rw [d1]
          simp only [droppedK, insertedK, List.append_nil]
          exact (List.perm_append_singleton _ _).trans hk
        · rw [d1]
          simp only [droppedV, insertedV, List.append_nil]
          exact (List.perm_append_singleton _ _).trans hv
        · intro L x1
          rw [List.nil_append]
          exact lp_frame_drops (ds := [Ev.dropK x.kid]) h.1 (by rw [d1]; exact a1.1)
            (by rw [d2, a2]) (fun ev hev => ⟨x.kid, Or.inl (List.mem_singleton.1 hev)⟩)
            (by rw [d1]; exact a5) x1
        · rw [hdp] at d3; cases d3
      | abort => rw [hd] at hr; simp at hr
      | fault f => rw [hd] at hr; simp at hr
  | panic c1 w1 =>
    rw [hre'] at hre hr
    simp only [bind, Res.bind, Res.panic.injEq] at hr
    obtain ⟨_, hw⟩ := hr
    subst hw
    exact lp_ledger_of_eff (lp_Eff.of_same h hre.2.1 hre.2.2.1) rfl rfl (by lost_triv)
  | abort => rw [hre'] at hr; simp [bind, Res.bind] at hr
  | fault f => rw [hre'] at hr; simp [bind, Res.bind] at hr

theorem lp_reserve_panic (hc : CfgOk cfg) (hp : ProbeCovers cfg) (hnd : cfg.needsDrop = true)
    (env : Env) (n : Nat) (w : World) (h : TInv cfg w.t) {c : String} {w' : World}
    (hr : Hb.reserve cfg env n w = .panic c w') : lp_Ledger cfg env (.reserve n) c w w' := by
  have h1 := lp_reserve_eff hc hp hnd env n w h
  rw [hr] at h1
  obtain ⟨new, ds, he⟩ := h1
  exact lp_ledger_of_eff he rfl rfl (by lost_triv)

theorem lp_tryReserve_panic (hc : CfgOk cfg) (hp : ProbeCovers cfg) (hnd : cfg.needsDrop = true)
    (env : Env) (n : Nat) (w : World) (h : TInv cfg w.t) {c : String} {w' : World}
    (hr : Map.tryReserve cfg env n w = .panic c w') : lp_Ledger cfg env (.tryReserve n) c w w' := by
  unfold Map.tryReserve Hb.tryReserve at hr
  by_cases hgt : n > w.t.gl
  · rw [if_pos hgt] at hr
    have h3 := lp_reserveRehash_panic hc hp hnd env n .fallible w h (Or.inr (by omega))
    cases hrr : reserveRehash cfg env n .fallible w with
    | ok pr =>
      obtain ⟨r, w1⟩ := pr
      rw [hrr] at hr
      cases r with
      | ok u => cases u; simp [bind, Res.bind, pure] at hr
      | error e => simp [bind, Res.bind, pure] at hr
    | panic c1 w1 =>
      rw [hrr] at hr h3
      simp only [bind, Res.bind, Res.panic.injEq] at hr
      obtain ⟨_, hw⟩ := hr
      subst hw
      obtain ⟨new, ds, he⟩ := h3
      exact lp_ledger_of_eff he rfl rfl (by lost_triv)
    | abort => rw [hrr] at hr; simp [bind, Res.bind] at hr
    | fault f => rw [hrr] at hr; simp [bind, Res.bind] at hr
  · rw [if_neg hgt] at hr
    simp [bind, Res.bind, pure] at hr

theorem lp_shrinkTo_panic (hc : CfgOk cfg) (hp : ProbeCovers cfg)
    (env : Env) (m : Nat) (w : World) (h : TInv cfg w.t) {c : String} {w' : World}
    (hr : Hb.shrinkTo cfg env m w = .panic c w') : lp_Ledger cfg env (.shrinkTo m) c w w' := by
  unfold shrinkTo at hr
  simp only at hr
  by_cases hz : max w.t.items m = 0
  · rw [if_pos hz] at hr
    have hit : w.t.items = 0 := by omega
    rw [ag_dropInnerTable_empty h hit] at hr
    cases hr
  · rw [if_neg hz] at hr
    cases hcb : capacityToBuckets cfg.bits cfg.W cfg.size (max w.t.items m) with
    | none => rw [hcb] at hr; cases hr
    | some mb =>
      rw [hcb] at hr
      simp only at hr
      by_cases hlt : mb < w.t.buckets
      · rw [if_pos hlt] at hr
        by_cases hit : w.t.items = 0
        · rw [if_pos hit] at hr
          have hfw := fallibleWithCapacity_spec hc env (max w.t.items m) .infallible w
          cases hrf : fallibleWithCapacity cfg env (max w.t.items m) .infallible w with
          | ok pr =>
            obtain ⟨r, w1⟩ := pr
            rw [hrf] at hfw hr
            cases r with
            | ok new =>
              obtain ⟨a1, a2, a3, _, a5⟩ := hfw
              rw [if_neg hz] at a5
              obtain ⟨b1, _, _, _, _, _, l, hl, b8⟩ := a5
              have ht1 : w1.t = w.t := by rw [b8]
              simp only [ht1] at hr
              rw [ag_dropInnerTable_empty h hit] at hr
              cases hr
            | error e => simp at hr
          | panic c1 w1 =>
            rw [hrf] at hfw hr
            simp only [Res.panic.injEq] at hr
            obtain ⟨_, hw⟩ := hr
            subst hw
            rw [hfw.2.1]
            exact lp_ledger_of_eff (lp_Eff.refl h) rfl rfl (by lost_triv)
          | abort => rw [hrf] at hr; simp at hr
          | fault f => rw [hrf] at hr; simp at hr
        · rw [if_neg hit] at hr
          have hsp := resizeInner_post hc hp env (max w.t.items m) .infallible w h.1 h.2 (by omega)
          cases hrs : resizeInner cfg env (max w.t.items m) .infallible w with
          | ok pr =>
            obtain ⟨r, w1⟩ := pr
            rw [hrs] at hr
            cases r with
            | ok u => cases u; simp at hr
            | error e => simp at hr
          | panic c1 w1 =>
            rw [hrs] at hsp hr
            simp only [Res.panic.injEq] at hr
            obtain ⟨_, hw⟩ := hr
            subst hw
            rcases hsp with ⟨_, _, a3⟩ | ⟨_, _, a3, b, k, _, _, a6, _⟩
            · rw [a3]; exact lp_ledger_of_eff (lp_Eff.refl h) rfl rfl (by lost_triv)
            · exact lp_ledger_of_eff (lp_Eff.of_transient h a3 a6) rfl rfl (by lost_triv)
          | abort => rw [hrs] at hr; simp at hr
          | fault f => rw [hrs] at hr; simp at hr
      · rw [if_neg hlt] at hr; cases hr

/-- `clear`: a destructor panicked; the guard still emptied the table; the elements after the one
    whose destructor panicked are leaked. -/
theorem lp_clear_panic (hc : CfgOk cfg) (hnd : cfg.needsDrop = true)
    (env : Env) (w : World) (h : TInv cfg w.t) {c : String} {w' : World}
    (hr : Hb.clear cfg env w = .panic c w') : lp_Ledger cfg env .clear c w w' := by
  have h2 := clear_spec hc env w h
  rw [hr] at h2
  obtain ⟨hcd, ⟨hinv', _, hel, hm, _⟩, _, ds, e, rest, hsplit, hdr, hpan⟩ := h2
  obtain ⟨dk, dv⟩ := hs_dropped_dropEvs hnd (ds ++ [e]).reverse
  refine ⟨dropEvs cfg (ds ++ [e]).reverse, kidsOf rest, vidsOf rest, [], hdr.log, ?_, ?_, ?_,
    fun _ => rfl, fun hdp => ?_, fun hne => absurd hcd hne,
    ⟨hcd, ds, e, rest, hsplit, hpan, rfl, rfl⟩, Or.inl rfl⟩
  · rw [hel, dk, hsplit]
    simp only [insertedK, kidsOf, List.map_nil, List.nil_append, List.append_nil, List.map_append,
      List.map_cons, List.map_reverse]
    exact (List.Perm.append_right _ (List.reverse_perm _)).trans
      (by rw [List.append_assoc]; exact List.Perm.refl _)
  · rw [hel, dv, hsplit]
    simp only [insertedV, vidsOf, List.map_nil, List.nil_append, List.append_nil, List.map_append,
      List.map_cons, List.map_reverse]
    exact (List.Perm.append_right _ (List.reverse_perm _)).trans
      (by rw [List.append_assoc]; exact List.Perm.refl _)
  · intro L x
    rw [List.nil_append]
    exact lp_frame_drops h.1 hinv'.1 hdr.log (hs_dropOnly_dropEvs _) hm x
  · rw [hdp] at hpan; cases hpan

/-! ### the bucket mask when `retain` / `extract_if` unwind -/

theorem lp_retainLoop_mask_panic (env : Env) : ∀ (fuel : Nat) (it : RawIter) (w w' : World)
    (c : String), Map.retainLoop cfg env fuel it w = .panic c w' → w'.t.mask = w.t.mask := by
  intro fuel
  induction fuel with
  | zero => intro it w w' c h; simp [Map.retainLoop] at h
  | succ n ih =>
    intro it w w' c h
    rw [Map.retainLoop] at h
    split at h
    · cases h
    · cases h
    · split at h
      · cases h
      · split at h
        · cases h; rfl
        · rename_i keep nv hpred
          simp only at h
          split at h
          · have := ih _ _ _ _ h
            exact this
          · split at h
            · cases h
            · rename_i x t2 hrm
              have hm2 := hs_removeAt_mask hrm
              have hd := (ab_dropElem (cfg := cfg) env x
                { t := t2, hc := w.hc, ec := w.ec, cc := w.cc, pc := w.pc + 1, ac := w.ac,
                  dc := w.dc, log := w.log }).1
              split at h
              · cases h
                rw [hd]
                exact hm2
              · have := ih _ _ _ _ h
                rw [this, hd]
                exact hm2

theorem lp_retain_mask_panic (env : Env) {w w' : World} {c : String}
    (h : Map.retain cfg env w = .panic c w') : w'.t.mask = w.t.mask := by
  unfold Map.retain at h
  split at h
  · cases h
  · exact lp_retainLoop_mask_panic env _ _ _ _ _ h

theorem lp_extractNext_mask_panic (env : Env) : ∀ (fuel : Nat) (it : RawIter) (w w' : World)
    (c : String), Map.extractNext cfg env fuel it w = .panic c w' → w'.t.mask = w.t.mask := by
  intro fuel
  induction fuel with
  | zero => intro it w w' c h; simp [Map.extractNext] at h
  | succ n ih =>
    intro it w w' c h
    rw [Map.extractNext] at h
    split at h
    · cases h
    · cases h
    · split at h
      · cases h
      · split at h
        · cases h; rfl
        · simp only at h
          split at h
          · split at h
            · cases h
            · cases h
          · have := ih _ _ _ _ h
            exact this

theorem lp_extractIfLoop_mask_panic (env : Env) : ∀ (k : Nat) (it : RawIter) (w w' : World)
    (acc : List Elem) (c : String), Map.extractIfLoop cfg env k it w acc = .panic c w' →
    w'.t.mask = w.t.mask := by
  intro k
  induction k with
  | zero => intro it w w' acc c h; simp only [Map.extractIfLoop] at h; cases h
  | succ n ih =>
    intro it w w' acc c h
    rw [Map.extractIfLoop] at h
    split at h
    · cases h
    · rename_i x it1 w1 hn
      exact (ih _ _ _ _ _ h).trans (hs_extractNext_mask env _ _ _ _ _ _ hn)
    · rename_i c1 w1 hn
      cases h
      exact lp_extractNext_mask_panic env _ _ _ _ _ hn
    · cases h
    · cases h

theorem lp_extractIf_mask_panic (env : Env) {k : Nat} {w w' : World} {c : String}
    (h : Map.extractIf cfg env k w = .panic c w') : w'.t.mask = w.t.mask := by
  unfold Map.extractIf at h
  split at h
  · cases h
  · exact lp_extractIfLoop_mask_panic env _ _ _ _ _ _ h

/-- `retain`: the predicate panicked on `x` (everything before `x` was kept or dropped, `x` and the
    rest are still stored), or the destructor of the rejected `x` panicked (`x` counts as dropped, the
    rest is still stored). Nothing is lost either way. -/
theorem lp_retain_panic (hc : CfgOk cfg) (hnd : cfg.needsDrop = true)
    (env : Env) (w : World) (h : TInv cfg w.t) {c : String} {w' : World}
    (hr : Map.retain cfg env w = .panic c w') : lp_Ledger cfg env .retain c w w' := by
  have h2 := retain_spec hc env w h
  have hm := lp_retain_mask_panic env hr
  rw [hr] at h2
  obtain ⟨hinv', pre, x, post, hsplit, _, hlen, hcase⟩ := h2
  obtain ⟨sk, sv⟩ := hs_retain_split env pre w.pc hlen
  have ck := List.perm_iff_count.1 sk
  have cv := List.perm_iff_count.1 sv
  rcases hcase with ⟨_, _, hel, hlog⟩ | ⟨_, _, nv, _, hel, hlog⟩
  · obtain ⟨dk, dv⟩ := hs_dropped_dropEvs hnd (retainDropped env w.pc pre).reverse
    refine ⟨_, [], [], [], hlog, ?_, ?_, ?_, fun _ => rfl, fun _ => ⟨rfl, fun _ => ⟨rfl, rfl⟩⟩,
      fun _ => ⟨rfl, fun _ => ⟨rfl, rfl⟩⟩, by lost_triv, Or.inl rfl⟩
    · rw [hel, dk, hsplit]
      refine List.perm_iff_count.2 fun y => ?_
      have := ck y
      simp only [kidsOf, insertedK, List.map_append, List.map_cons, List.map_reverse,
        List.count_append, List.count_reverse, List.count_nil, List.count_cons] at this ⊢
      omega
    · rw [hel, dv, hsplit]
      refine List.perm_iff_count.2 fun y => ?_
      have := cv y
      simp only [vidsOf, insertedV, List.map_append, List.map_cons, List.map_reverse,
        List.count_append, List.count_reverse, List.count_nil, List.count_cons] at this ⊢
      omega
    · intro L x1
      rw [List.nil_append]
      exact lp_frame_drops h.1 hinv'.1 hlog (hs_dropOnly_dropEvs _) hm x1
  · obtain ⟨dk, dv⟩ := hs_dropped_dropEvs hnd
      ({ x with v := nv } :: (retainDropped env w.pc pre).reverse)
    refine ⟨_, [], [], [], hlog, ?_, ?_, ?_, fun _ => rfl, fun _ => ⟨rfl, fun _ => ⟨rfl, rfl⟩⟩,
      fun _ => ⟨rfl, fun _ => ⟨rfl, rfl⟩⟩, by lost_triv, Or.inl rfl⟩
    · rw [hel, dk, hsplit]
      refine List.perm_iff_count.2 fun y => ?_
      have := ck y
      simp only [kidsOf, insertedK, List.map_append, List.map_cons, List.map_reverse,
        List.count_append, List.count_reverse, List.count_nil, List.count_cons] at this ⊢
      omega
    · rw [hel, dv, hsplit]
      refine List.perm_iff_count.2 fun y => ?_
      have := cv y
      simp only [vidsOf, insertedV, List.map_append, List.map_cons, List.map_reverse,
        List.count_append, List.count_reverse, List.count_nil, List.count_cons] at this ⊢
      omega
    · intro L x1
      rw [List.nil_append]
      exact lp_frame_drops h.1 hinv'.1 hlog (hs_dropOnly_dropEvs _) hm x1

/-- `extract_if`: the predicate panicked; nothing was dropped; the elements already yielded to the
    caller (`retainKept` of the visited prefix) are neither stored nor dropped. -/
theorem lp_extractIf_panic (hc : CfgOk cfg)
    (env : Env) (k : Nat) (w : World) (h : TInv cfg w.t) {c : String} {w' : World}
    (hr : Map.extractIf cfg env k w = .panic c w') : lp_Ledger cfg env (.extractIf k) c w w' := by
  have h2 := extractIf_spec hc env k w h
  have hm := lp_extractIf_mask_panic env hr
  rw [hr] at h2
  obtain ⟨hcp, hinv', hlog, n, x, hget, _, hel, _, hlen, hlt⟩ := h2
  have hn : n < w.t.elems.length := by
    by_contra hh
    rw [List.getElem?_eq_none (by omega)] at hget
    cases hget
  obtain ⟨sk, sv⟩ := hs_retain_split env (w.t.elems.take n) w.pc
    (by rw [hlen, List.length_take]; omega)
  have ck := List.perm_iff_count.1 sk
  have cv := List.perm_iff_count.1 sv
  have htd : w.t.elems.take n ++ w.t.elems.drop n = w.t.elems := List.take_append_drop _ _
  have hA : hs_AStep cfg w w' [] :=
    (hs_AStep.refl w).congr hlog hm (ag_alloc_eq h.1 hinv'.1 hm)
  refine ⟨[], kidsOf (retainKept env w.pc (w.t.elems.take n)),
    vidsOf (retainKept env w.pc (w.t.elems.take n)), [], hA.1, ?_, ?_,
    fun L x1 => lp_frame_astep h.1 hinv'.1 hA x1, fun _ => rfl,
    fun _ => ⟨rfl, fun hne => absurd rfl (hne k)⟩, fun _ => ⟨rfl, fun hne => absurd rfl (hne k)⟩,
    ⟨hcp, n, hlt, rfl, rfl⟩, Or.inl rfl⟩
  · rw [hel]
    refine List.perm_iff_count.2 fun y => ?_
    have := ck y
    have e1 : List.count y (kidsOf w.t.elems) =
        List.count y (kidsOf (w.t.elems.take n)) + List.count y (kidsOf (w.t.elems.drop n)) := by
      rw [← List.count_append, kidsOf, kidsOf, kidsOf, ← List.map_append, htd]
    simp only [insertedK, droppedK, List.count_append, List.count_nil, kidsOf, List.map_append]
      at this e1 ⊢
    omega
  · rw [hel]
    refine List.perm_iff_count.2 fun y => ?_
    have := cv y
    have e1 : List.count y (vidsOf w.t.elems) =
        List.count y (vidsOf (w.t.elems.take n)) + List.count y (vidsOf (w.t.elems.drop n)) := by
      rw [← List.count_append, vidsOf, vidsOf, vidsOf, ← List.map_append, htd]
    simp only [insertedV, droppedV, List.count_append, List.count_nil, vidsOf, List.map_append]
      at this e1 ⊢
    omega

/-- `drain` (dropped, not forgotten): a destructor panicked inside `RawDrain::drop`. The `k` elements
    already yielded belong to the caller, the elements after the panicking one are leaked, and so is
    the block: the collection is left as the unallocated singleton. -/
theorem lp_drain_panic (hc : CfgOk cfg) (hnd : cfg.needsDrop = true)
    (env : Env) (k : Nat) (w : World) (h : TInv cfg w.t) {c : String} {w' : World}
    (hr : Map.drain cfg env k false w = .panic c w') :
    lp_Ledger cfg env (.drain k false) c w w' := by
  have h2 := drain_spec hc env k false w h
  rw [hr] at h2
  obtain ⟨hcd, _, ht, _, ds, e, rest, hsplit, hdr, hpan⟩ := h2
  obtain ⟨dk, dv⟩ := hs_dropped_dropEvs hnd (ds ++ [e]).reverse
  have htd : w.t.elems.take k ++ w.t.elems.drop k = w.t.elems := List.take_append_drop _ _
  have hel : w'.t.elems = [] := by rw [ht]; rfl
  refine ⟨dropEvs cfg (ds ++ [e]).reverse, kidsOf (w.t.elems.take k) ++ kidsOf rest,
    vidsOf (w.t.elems.take k) ++ vidsOf rest, hs_blockOf cfg w.t, hdr.log, ?_, ?_,
    fun L x1 => lp_frame_leak hdr.log (hs_dropOnly_dropEvs _) ht x1,
    fun hne => absurd rfl (hne k false), fun hdp => ?_, fun hne => absurd hcd hne,
    ⟨hcd, ds, e, rest, hsplit, hpan, rfl, rfl⟩, Or.inr ⟨⟨k, rfl⟩, rfl⟩⟩
  · rw [hel, dk]
    refine List.perm_iff_count.2 fun y => ?_
    have e1 : List.count y (kidsOf w.t.elems) =
        List.count y (kidsOf (w.t.elems.take k)) + List.count y (kidsOf (w.t.elems.drop k)) := by
      rw [← List.count_append, kidsOf, kidsOf, kidsOf, ← List.map_append, htd]
    rw [hsplit] at e1
    simp only [insertedK, List.count_append, List.count_nil, kidsOf, List.map_append, List.map_cons,
      List.map_nil, List.map_reverse, List.count_reverse, List.count_cons] at e1 ⊢
    omega
  · rw [hel, dv]
    refine List.perm_iff_count.2 fun y => ?_
    have e1 : List.count y (vidsOf w.t.elems) =
        List.count y (vidsOf (w.t.elems.take k)) + List.count y (vidsOf (w.t.elems.drop k)) := by
      rw [← List.count_append, vidsOf, vidsOf, vidsOf, ← List.map_append, htd]
    rw [hsplit] at e1
    simp only [insertedV, List.count_append, List.count_nil, vidsOf, List.map_append, List.map_cons,
      List.map_nil, List.map_reverse, List.count_reverse, List.count_cons] at e1 ⊢
    omega
  · rw [hdp] at hpan; cases hpan

theorem lp_step_panic (hc : CfgOk cfg) (hnd : cfg.needsDrop = true) (env : Env) (op : MapOp)
    (w : World) (h : TInv cfg w.t) (hop : ∀ n, op ≠ .drain n true) {c : String} {w' : World}
    (hs : Map.step cfg env op w = .panic c w') : lp_Ledger cfg env op c w w' := by
  have hp := probe_covers cfg hc.spec.width
  cases op with
  | insert e =>
    simp only [Map.step] at hs
    split at hs
    · cases hs
    · rename_i c0 w0 hr
      simp only [Res.panic.injEq] at hs
      obtain ⟨rfl, rfl⟩ := hs
      exact lp_insert_panic hc hp hnd env e w h hr
    · cases hs
    · cases hs
  | get k =>
    simp only [Map.step] at hs
    split at hs
    · cases hs
    · rename_i c0 w0 hr
      simp only [Res.panic.injEq] at hs
      obtain ⟨rfl, rfl⟩ := hs
      exact lp_get_panic hc hp env k w h hr
    · cases hs
    · cases hs
  | getMut k nv =>
    simp only [Map.step] at hs
    split at hs
    · cases hs
    · rename_i c0 w0 hr
      simp only [Res.panic.injEq] at hs
      obtain ⟨rfl, rfl⟩ := hs
      exact lp_getMut_panic hc hp env k nv w h hr
    · cases hs
    · cases hs
  | remove k =>
    simp only [Map.step] at hs
    split at hs
    · cases hs
    · rename_i c0 w0 hr
      simp only [Res.panic.injEq] at hs
      obtain ⟨rfl, rfl⟩ := hs
      exact lp_remove_panic hc hp hnd env k w h hr
    · cases hs
    · cases hs
  | removeEntry k =>
    simp only [Map.step] at hs
    split at hs
    · cases hs
    · rename_i c0 w0 hr
      simp only [Res.panic.injEq] at hs
      obtain ⟨rfl, rfl⟩ := hs
      exact lp_removeEntry_panic hc hp env k w h hr
    · cases hs
    · cases hs
  | clear =>
    simp only [Map.step] at hs
    split at hs
    · cases hs
    · rename_i c0 w0 hr
      simp only [Res.panic.injEq] at hs
      obtain ⟨rfl, rfl⟩ := hs
      exact lp_clear_panic hc hnd env w h hr
    · cases hs
    · cases hs
  | reserve n =>
    simp only [Map.step, Map.reserve_eq] at hs
    split at hs
    · cases hs
    · rename_i c0 w0 hr
      simp only [Res.panic.injEq] at hs
      obtain ⟨rfl, rfl⟩ := hs
      exact lp_reserve_panic hc hp hnd env n w h hr
    · cases hs
    · cases hs
  | tryReserve n =>
    simp only [Map.step] at hs
    split at hs
    · cases hs
    · rename_i c0 w0 hr
      simp only [Res.panic.injEq] at hs
      obtain ⟨rfl, rfl⟩ := hs
      exact lp_tryReserve_panic hc hp hnd env n w h hr
    · cases hs
    · cases hs
  | shrinkTo m =>
    simp only [Map.step] at hs
    split at hs
    · cases hs
    · rename_i c0 w0 hr
      simp only [Res.panic.injEq] at hs
      obtain ⟨rfl, rfl⟩ := hs
      exact lp_shrinkTo_panic hc hp env m w h hr
    · cases hs
    · cases hs
  | retain =>
    simp only [Map.step] at hs
    split at hs
    · cases hs
    · rename_i c0 w0 hr
      simp only [Res.panic.injEq] at hs
      obtain ⟨rfl, rfl⟩ := hs
      exact lp_retain_panic hc hnd env w h hr
    · cases hs
    · cases hs
  | extractIf n =>
    simp only [Map.step] at hs
    split at hs
    · cases hs
    · rename_i c0 w0 hr
      simp only [Res.panic.injEq] at hs
      obtain ⟨rfl, rfl⟩ := hs
      exact lp_extractIf_panic hc env n w h hr
    · cases hs
    · cases hs
  | drain n fg =>
    cases fg with
    | true => exact absurd rfl (hop n)
    | false =>
      simp only [Map.step] at hs
      split at hs
      · cases hs
      · rename_i c0 w0 hr
        simp only [Res.panic.injEq] at hs
        obtain ⟨rfl, rfl⟩ := hs
        exact lp_drain_panic hc hnd env n w h hr
      · cases hs
      · cases hs
  | iter p =>
    rw [hs_step_iter hc env p w h.1] at hs
    cases hs

/-- **P1.** One call that UNWINDS (element type with drop glue; any call except a `mem::forget`-ed
    drain; EVERY environment: any `Hash`/`Eq`/predicate/`Drop` may panic, the allocator may refuse).
    With `new` the log entries written by the call and its unwinding (scope guards, dropping of the
    by-value arguments): every key object and every value object that was stored before the call or
    was passed in by it is afterwards in exactly one of {the table, dropped (once) during this call,
    `lost`}, where `lost` = neither stored nor dropped: leaked because a destructor panicked
    (`insert`: the old value in the return slot when the spare key's destructor panics; `remove`: the
    value when the stored key's destructor panics; `clear`/`drain`: the elements after the one whose
    destructor panicked) or already handed to the caller by the partially run `extract_if`/`drain`.
    If no destructor panics — or merely: if the observed panic is not of class `"drop"`, i.e. it came
    from `Hash`/`Eq`/the predicate/the capacity check — and the call is not `extract_if`, nothing is
    lost.
    Allocator: all frees stay matched and the live blocks are the table's own block plus `leaked`;
    `leaked = []` unless the call is a `drain` (whose `Drop` unwinds before the table is put back, see
    `drain_panic_leaks_block`; then `leaked` is exactly the block the table owned before the call), in
    particular `leaked = []` if no destructor panics. `lp_LostSpec` says exactly which objects are
    lost, per call. -/
theorem step_ledger_panic (hc : CfgOk cfg) (hnd : cfg.needsDrop = true) (env : Env) (op : MapOp)
    (w : World) (h : TInv cfg w.t) (hop : ∀ n, op ≠ .drain n true) {c : String} {w' : World}
    (hs : Map.step cfg env op w = .panic c w') :
    ∃ (new : List Ev) (lostK lostV : List Nat) (leaked : List (Nat × Nat)), w'.log = new ++ w.log ∧
      List.Perm (kidsOf w'.t.elems ++ droppedK new ++ lostK) (kidsOf w.t.elems ++ insertedK [op]) ∧
      List.Perm (vidsOf w'.t.elems ++ droppedV new ++ lostV) (vidsOf w.t.elems ++ insertedV [op]) ∧
      (∀ L, hs_AllocInvL cfg w L → hs_AllocInvL cfg w' (leaked ++ L)) ∧
      ((∀ n f, op ≠ .drain n f) → leaked = []) ∧
      ((∀ c e, env.dropPanics c e = false) →
        leaked = [] ∧ ((∀ n, op ≠ .extractIf n) → lostK = [] ∧ lostV = [])) ∧
      (c ≠ "drop" → leaked = [] ∧ ((∀ n, op ≠ .extractIf n) → lostK = [] ∧ lostV = [])) ∧
      lp_LostSpec env op c w lostK lostV ∧
      (leaked = [] ∨ ((∃ n, op = .drain n false) ∧ leaked = hs_blockOf cfg w.t)) :=
  lp_step_panic hc hnd env op w h hop hs

/-- **P1, the statement as requested** (`hs_AllocInv w → hs_AllocInv w'`), which needs ONE added
    hypothesis `hleak`: the call is not a `drain`, or no destructor panics. Without it the allocator
    clause is false (`drain_panic_leaks_block`). -/
theorem step_ledger_panic_partial (hc : CfgOk cfg) (hnd : cfg.needsDrop = true) (env : Env)
    (op : MapOp) (w : World) (h : TInv cfg w.t) (hop : ∀ n, op ≠ .drain n true)
    {c : String} {w' : World}
    (hleak : (∀ n f, op ≠ .drain n f) ∨ (∀ c e, env.dropPanics c e = false) ∨ c ≠ "drop")
    (hs : Map.step cfg env op w = .panic c w') :
    ∃ (new : List Ev) (lostK lostV : List Nat), w'.log = new ++ w.log ∧
      List.Perm (kidsOf w'.t.elems ++ droppedK new ++ lostK) (kidsOf w.t.elems ++ insertedK [op]) ∧
      List.Perm (vidsOf w'.t.elems ++ droppedV new ++ lostV) (vidsOf w.t.elems ++ insertedV [op]) ∧
      (hs_AllocInv cfg w → hs_AllocInv cfg w') ∧
      (((∀ c e, env.dropPanics c e = false) ∨ c ≠ "drop") → (∀ n, op ≠ .extractIf n) →
        lostK = [] ∧ lostV = []) := by
  obtain ⟨new, lostK, lostV, leaked, a1, a2, a3, a4, a5, a6, a7, _⟩ :=
    lp_step_panic hc hnd env op w h hop hs
  have hl : leaked = [] := by
    rcases hleak with hl | hl | hl
    · exact a5 hl
    · exact (a6 hl).1
    · exact (a7 hl).1
  refine ⟨new, lostK, lostV, a1, a2, a3, fun x => ?_, fun hdp hne => ?_⟩
  · have := a4 [] ((hs_allocInvL_nil w).2 x)
    rw [hl] at this
    exact (hs_allocInvL_nil w').1 this
  · rcases hdp with hdp | hdp
    · exact (a6 hdp).2 hne
    · exact (a7 hdp).2 hne


/-! ## calls that return keep the allocator frame -/

theorem lp_frame_same {w w' : World} (h : Inv cfg w.t) (h' : Inv cfg w'.t)
    (hl : w'.log = w.log) (hm : w'.t.mask = w.t.mask)
    {L : List (Nat × Nat)} (ha : hs_AllocInvL cfg w L) : hs_AllocInvL cfg w' L :=
  lp_frame_drops (ds := []) h h' (by simpa using hl) (fun _ hx => by cases hx) hm ha

theorem lp_ok_frame (hc : CfgOk cfg) (hnd : cfg.needsDrop = true) (env : Env) (op : MapOp)
    (w : World) (h : TInv cfg w.t) (hop : ∀ n, op ≠ .drain n true) {r : Ret} {w' : World}
    (hs : Map.step cfg env op w = .ok (r, w')) {L : List (Nat × Nat)}
    (x : hs_AllocInvL cfg w L) : hs_AllocInvL cfg w' L := by
  have hp := probe_covers cfg hc.spec.width
  have h' : TInv cfg w'.t := by
    have := hs_step_safe hc (Or.inl hnd) env op w h
    rw [hs] at this
    exact this.1
  cases op with
  | insert e =>
    have h2 := hs_insert_exact hc hp env e w h
    simp only [Map.step] at hs
    split at hs
    · rename_i r0 w0 hr
      cases hs
      rw [hr] at h2
      cases r0 with
      | none =>
        obtain ⟨hperm, new, hA⟩ := h2
        exact lp_frame_astep h.1 h'.1 hA x
      | some v =>
        obtain ⟨rv, pl⟩ := v
        obtain ⟨old, new, w2, hA, hrv, hperm, hm, ha, hlog⟩ := h2
        rw [if_pos hnd] at hlog
        have hA' : hs_AStep cfg w { w' with log := w2.log } new := hA.congr rfl hm ha
        have h1 := lp_frame_astep (w' := { w' with log := w2.log }) h.1 h'.1 hA' x
        exact lp_frame_drops (w := { w' with log := w2.log }) (ds := [Ev.dropK e.kid]) h'.1 h'.1
          hlog (fun ev hev => ⟨e.kid, Or.inl (List.mem_singleton.1 hev)⟩) rfl h1
    all_goals cases hs
  | get k =>
    have h2 := Map.get_inv hc hp env k w h
    simp only [Map.step] at hs
    split at hs
    · rename_i r0 w0 hr
      cases hs
      rw [hr] at h2
      exact x.congr h2.1 h2.2.1
    all_goals cases hs
  | getMut k nv =>
    have h2 := hs_getMut_exact hc hp env k nv w h
    simp only [Map.step] at hs
    split at hs
    · rename_i r0 w0 hr
      cases hs
      rw [hr] at h2
      exact lp_frame_same h.1 h'.1 h2.1 h2.2.1 x
    all_goals cases hs
  | remove k =>
    have h2 := hs_remove_exact hc hp env k w h
    simp only [Map.step] at hs
    split at hs
    · rename_i r0 w0 hr
      cases hs
      rw [hr] at h2
      cases r0 with
      | none => exact x.congr h2.1 h2.2
      | some v =>
        obtain ⟨rv, pl⟩ := v
        obtain ⟨y, hrv, hperm, hm, hlog⟩ := h2
        rw [if_pos hnd] at hlog
        exact lp_frame_drops h.1 h'.1 hlog
          (fun ev hev => ⟨y.kid, Or.inl (List.mem_singleton.1 hev)⟩) hm x
    all_goals cases hs
  | removeEntry k =>
    have h2 := Map.removeEntry_inv hc hp env k w h
    simp only [Map.step] at hs
    split at hs
    · rename_i r0 w0 hr
      cases hs
      rw [hr] at h2
      cases r0 with
      | none => exact x.congr h2.1 h2.2.1
      | some y =>
        obtain ⟨_, hlog, _, hperm, hm⟩ := h2
        exact lp_frame_same h.1 h'.1 hlog hm x
    all_goals cases hs
  | clear =>
    have h2 := clear_spec hc env w h
    simp only [Map.step] at hs
    split at hs
    · rename_i w0 hr
      cases hs
      rw [hr] at h2
      obtain ⟨⟨_, _, hel, hm, _⟩, hdr⟩ := h2
      exact lp_frame_drops h.1 h'.1 hdr.log (hs_dropOnly_dropEvs _) hm x
    all_goals cases hs
  | reserve n =>
    have h2 := hs_reserve_exact hc hp env n w h
    simp only [Map.step, Map.reserve_eq] at hs
    split at hs
    · rename_i w0 hr
      cases hs
      rw [hr] at h2
      obtain ⟨new, hA⟩ := h2
      exact lp_frame_astep h.1 h'.1 hA x
    all_goals cases hs
  | tryReserve n =>
    have h1 := Map.tryReserve_spec hc hp env n w h
    have h2 := hs_tryReserve_exact hc hp env n w h
    simp only [Map.step] at hs
    split at hs
    · rename_i r0 w0 hr
      cases hs
      rw [hr] at h1 h2
      cases r0 with
      | none =>
        obtain ⟨new, hA⟩ := h2
        exact lp_frame_astep h.1 h'.1 hA x
      | some e => exact x.congr h1.1 h1.2.1
    all_goals cases hs
  | shrinkTo m =>
    have h2 := hs_shrinkTo_exact hc hp env m w h
    simp only [Map.step] at hs
    split at hs
    · rename_i w0 hr
      cases hs
      rw [hr] at h2
      obtain ⟨new, hA⟩ := h2
      exact lp_frame_astep h.1 h'.1 hA x
    all_goals cases hs
  | retain =>
    have h2 := retain_spec hc env w h
    simp only [Map.step] at hs
    split at hs
    · rename_i w0 hr
      cases hs
      rw [hr] at h2
      obtain ⟨_, hel, _, hlog, hlen⟩ := h2
      exact lp_frame_drops h.1 h'.1 hlog (hs_dropOnly_dropEvs _) (hs_retain_mask env hr) x
    all_goals cases hs
  | extractIf n =>
    have h2 := extractIf_spec hc env n w h
    simp only [Map.step] at hs
    split at hs
    · rename_i out w0 hr
      cases hs
      rw [hr] at h2
      exact lp_frame_same h.1 h'.1 h2.2.1 (hs_extractIf_mask env hr) x
    all_goals cases hs
  | drain n fg =>
    cases fg with
    | true => exact absurd rfl (hop n)
    | false =>
      have h2 := drain_spec hc env n false w h
      simp only [Map.step] at hs
      split at hs
      · rename_i out w0 hr
        cases hs
        rw [hr] at h2
        obtain ⟨hout, _, _, hrest⟩ := h2
        obtain ⟨hem, hdr⟩ := hrest rfl
        obtain ⟨_, _, _, hel, hm, _⟩ := hem
        exact lp_frame_drops h.1 h'.1 hdr.log (hs_dropOnly_dropEvs _) hm x
      all_goals cases hs
  | iter p =>
    rw [hs_step_iter hc env p w h.1] at hs
    cases hs
    exact x

/-! ## histories with any number of observed panics -/

/-- The observation is a `drain` that unwound (the only way to leak a block). -/
def lp_isDrainPanic : MapOp × Map.Obs → Bool
  | (.drain _ _, .panic _) => true
  | _ => false

/-- The observation is an `extract_if` that unwound (elements already yielded stay with the caller
    although the call did not return). -/
def lp_isExtractPanic : MapOp × Map.Obs → Bool
  | (.extractIf _, .panic _) => true
  | _ => false

/-- The observation is a panic of class `"drop"` (a destructor panicked). -/
def lp_isDropPanic : MapOp × Map.Obs → Bool
  | (_, .panic c) => c == "drop"
  | _ => false

theorem lp_not_drop_of {op : MapOp} {c : String} (h : lp_isDropPanic (op, .panic c) = false) :
    c ≠ "drop" := by
  simpa [lp_isDropPanic] using h

theorem lp_not_drain_of {op : MapOp} {c : String} (h : lp_isDrainPanic (op, .panic c) = false) :
    ∀ n f, op ≠ .drain n f := by
  intro n f he
  subst he
  simp [lp_isDrainPanic] at h

theorem lp_not_extract_of {op : MapOp} {c : String} (h : lp_isExtractPanic (op, .panic c) = false) :
    ∀ n, op ≠ .extractIf n := by
  intro n he
  subst he
  simp [lp_isExtractPanic] at h

/-- Gluing the ledger of a returned first call to the ledger of the rest of the history. -/
theorem lp_glue_ok {a b1 b2 c1 c2 m z i1 i2 l2 : List Nat}
    (P1 : (m ++ b1 ++ c1).Perm (z ++ i1)) (P2 : (a ++ b2 ++ c2 ++ l2).Perm (m ++ i2)) :
    (a ++ (b2 ++ b1) ++ (c1 ++ c2) ++ l2).Perm (z ++ (i1 ++ i2)) := by
  rw [List.perm_iff_count] at *
  intro x
  have h1 := P1 x
  have h2 := P2 x
  simp only [List.count_append] at *
  omega

/-- Gluing the ledger of an unwound first call to the ledger of the rest of the history. -/
theorem lp_glue_panic {a b1 b2 c2 m z i1 i2 l1 l2 : List Nat}
    (P1 : (m ++ b1 ++ l1).Perm (z ++ i1)) (P2 : (a ++ b2 ++ c2 ++ l2).Perm (m ++ i2)) :
    (a ++ (b2 ++ b1) ++ c2 ++ (l1 ++ l2)).Perm (z ++ (i1 ++ i2)) := by
  rw [List.perm_iff_count] at *
  intro x
  have h1 := P1 x
  have h2 := P2 x
  simp only [List.count_append] at *
  omega

/-- Ledger of a history from any valid table, panics allowed anywhere. -/
theorem lp_run_ledger (hc : CfgOk cfg) (hnd : cfg.needsDrop = true) (env : Env) :
    ∀ (ops : List MapOp) (w wf : World) (obs : List Map.Obs), TInv cfg w.t → hs_NoForget ops →
      Map.run cfg env ops w = some (obs, wf) →
      ∃ (new : List Ev) (lostK lostV : List Nat) (leaked : List (Nat × Nat)),
        wf.log = new ++ w.log ∧
        List.Perm (kidsOf wf.t.elems ++ droppedK new ++ returnedK (ops.zip obs) ++ lostK)
          (kidsOf w.t.elems ++ insertedK ops) ∧
        List.Perm (vidsOf wf.t.elems ++ droppedV new ++ returnedV (ops.zip obs) ++ lostV)
          (vidsOf w.t.elems ++ insertedV ops) ∧
        (∀ L, hs_AllocInvL cfg w L → hs_AllocInvL cfg wf (leaked ++ L)) ∧ TInv cfg wf.t ∧
        ((∀ p ∈ ops.zip obs, lp_isDrainPanic p = false) → leaked = []) ∧
        (((∀ c e, env.dropPanics c e = false) ∨ (∀ p ∈ ops.zip obs, lp_isDropPanic p = false)) →
          leaked = [] ∧
          ((∀ p ∈ ops.zip obs, lp_isExtractPanic p = false) → lostK = [] ∧ lostV = [])) := by
  intro ops
  induction ops with
  | nil =>
    intro w wf obs h _ hrun
    simp only [Map.run, Option.some.injEq, Prod.mk.injEq] at hrun
    obtain ⟨h1, h2⟩ := hrun
    subst h1 h2
    exact ⟨[], [], [], [], rfl, by simp [droppedK, returnedK, insertedK],
      by simp [droppedV, returnedV, insertedV], fun _ x => x, h, fun _ => rfl,
      fun _ => ⟨rfl, fun _ => ⟨rfl, rfl⟩⟩⟩
  | cons op rest ih =>
    intro w wf obs h hnf hrun
    have hop : ∀ n, op ≠ .drain n true := hnf op List.mem_cons_self
    have hnf' : hs_NoForget rest := fun o ho => hnf o (List.mem_cons_of_mem _ ho)
    have hsafe := hs_step_safe hc (Or.inl hnd) env op w h
    cases hr : Map.step cfg env op w with
    | ok pr =>
      obtain ⟨r, w1⟩ := pr
      simp only [Map.run, hr] at hrun
      obtain ⟨⟨os, wf'⟩, h1, h2⟩ := Option.map_eq_some_iff.1 hrun
      simp only [Prod.mk.injEq] at h2
      obtain ⟨h2a, h2b⟩ := h2
      subst h2a h2b
      obtain ⟨new1, l1, k1, v1, _⟩ := step_ledger hc hnd env op w h hop hr
      rw [hr] at hsafe
      obtain ⟨new2, lK, lV, lb, l2, k2, v2, a2, t2, d2, e2⟩ := ih w1 wf' os hsafe.1 hnf' h1
      refine ⟨new2 ++ new1, lK, lV, lb, by rw [l2, l1, List.append_assoc], ?_, ?_,
        fun L x => a2 L (lp_ok_frame hc hnd env op w h hop hr x), t2, ?_, ?_⟩
      · rw [hs_droppedK_append, hs_insertedK_cons]
        simp only [List.zip_cons_cons, returnedK]
        exact lp_glue_ok k1 k2
      · rw [hs_droppedV_append, hs_insertedV_cons]
        simp only [List.zip_cons_cons, returnedV]
        exact lp_glue_ok v1 v2
      · intro hq
        exact d2 fun p hp => hq p (by rw [List.zip_cons_cons]; exact List.mem_cons_of_mem _ hp)
      · intro hdp
        have hdp' : (∀ c e, env.dropPanics c e = false) ∨
            (∀ p ∈ rest.zip os, lp_isDropPanic p = false) := by
          rcases hdp with hdp | hdp
          · exact Or.inl hdp
          · exact Or.inr fun p hp =>
              hdp p (by rw [List.zip_cons_cons]; exact List.mem_cons_of_mem _ hp)
        obtain ⟨e2a, e2b⟩ := e2 hdp'
        exact ⟨e2a, fun hq =>
          e2b fun p hp => hq p (by rw [List.zip_cons_cons]; exact List.mem_cons_of_mem _ hp)⟩
    | panic c w1 =>
      simp only [Map.run, hr] at hrun
      obtain ⟨⟨os, wf'⟩, h1, h2⟩ := Option.map_eq_some_iff.1 hrun
      simp only [Prod.mk.injEq] at h2
      obtain ⟨h2a, h2b⟩ := h2
      subst h2a h2b
      obtain ⟨new1, lK1, lV1, lb1, l1, k1, v1, a1, d1, e1, f1, _⟩ :=
        lp_step_panic hc hnd env op w h hop hr
      rw [hr] at hsafe
      obtain ⟨new2, lK, lV, lb, l2, k2, v2, a2, t2, d2, e2⟩ := ih w1 wf' os hsafe.1 hnf' h1
      refine ⟨new2 ++ new1, lK1 ++ lK, lV1 ++ lV, lb ++ lb1, by rw [l2, l1, List.append_assoc],
        ?_, ?_, fun L x => by rw [List.append_assoc]; exact a2 _ (a1 L x), t2, ?_, ?_⟩
      · rw [hs_droppedK_append, hs_insertedK_cons]
        simp only [List.zip_cons_cons, returnedK]
        exact lp_glue_panic k1 k2
      · rw [hs_droppedV_append, hs_insertedV_cons]
        simp only [List.zip_cons_cons, returnedV]
        exact lp_glue_panic v1 v2
      · intro hq
        rw [List.zip_cons_cons] at hq
        have hq1 := d1 (lp_not_drain_of (hq _ List.mem_cons_self))
        have hq2 := d2 fun p hp => hq p (List.mem_cons_of_mem _ hp)
        rw [hq1, hq2]; rfl
      · intro hdp
        have hdp' : (∀ c e, env.dropPanics c e = false) ∨
            (∀ p ∈ rest.zip os, lp_isDropPanic p = false) := by
          rcases hdp with hdp | hdp
          · exact Or.inl hdp
          · exact Or.inr fun p hp =>
              hdp p (by rw [List.zip_cons_cons]; exact List.mem_cons_of_mem _ hp)
        obtain ⟨e1a, e1b⟩ : lb1 = [] ∧ ((∀ n, op ≠ .extractIf n) → lK1 = [] ∧ lV1 = []) := by
          rcases hdp with hdp | hdp
          · exact e1 hdp
          · exact f1 (lp_not_drop_of (hdp _ (by rw [List.zip_cons_cons]; exact List.mem_cons_self)))
        obtain ⟨e2a, e2b⟩ := e2 hdp'
        refine ⟨by rw [e1a, e2a]; rfl, fun hq => ?_⟩
        rw [List.zip_cons_cons] at hq
        obtain ⟨x1, y1⟩ := e1b (lp_not_extract_of (hq _ List.mem_cons_self))
        obtain ⟨x2, y2⟩ := e2b fun p hp => hq p (List.mem_cons_of_mem _ hp)
        rw [x1, x2, y1, y2]; exact ⟨rfl, rfl⟩
    | abort => simp [Map.run, hr] at hrun
    | fault f => simp [Map.run, hr] at hrun

theorem lp_allocInvL_new (w0 : World) (h0 : w0.t = Raw.new cfg.W) (hl0 : w0.log = []) :
    hs_AllocInvL cfg w0 [] :=
  (hs_allocInvL_nil w0).2 (hs_allocInv_new w0 h0 hl0)

/-- **P2.** Every history on a fresh collection (drop glue, no forgotten drain), for EVERY
    environment, with ANY number of observed panics at any positions, that runs to its end: every
    key object and every value object that was passed in is in exactly one of {still stored, dropped
    by the collection exactly once, returned to the caller exactly once, `lost`}, where `lost` (leaked
    by a panicking destructor, or yielded by an `extract_if`/`drain` that then unwound) is empty when
    no destructor panics (or merely: no observed panic has class `"drop"`) and no `extract_if`
    unwound. All frees are matched (no double free, no
    foreign free, no layout mismatch) and the live blocks are exactly the table's own block plus the
    `leaked` ones; `leaked = []` — i.e. `hs_AllocInv` — unless some `drain` unwound, in particular
    whenever no destructor panics / no `"drop"` panic is observed. The table is valid. -/
theorem run_ledger_panics (hc : CfgOk cfg) (hnd : cfg.needsDrop = true) (env : Env)
    (ops : List MapOp) (w0 : World) (h0 : w0.t = Raw.new cfg.W) (hl0 : w0.log = [])
    (hnf : hs_NoForget ops) {obs : List Map.Obs} {wf : World}
    (hrun : Map.run cfg env ops w0 = some (obs, wf)) :
    ∃ (lostK lostV : List Nat) (leaked : List (Nat × Nat)),
      List.Perm (kidsOf wf.t.elems ++ droppedK wf.log ++ returnedK (ops.zip obs) ++ lostK)
        (insertedK ops) ∧
      List.Perm (vidsOf wf.t.elems ++ droppedV wf.log ++ returnedV (ops.zip obs) ++ lostV)
        (insertedV ops) ∧
      hs_AllocInvL cfg wf leaked ∧ TInv cfg wf.t ∧
      ((∀ p ∈ ops.zip obs, lp_isDrainPanic p = false) → leaked = [] ∧ hs_AllocInv cfg wf) ∧
      (((∀ c e, env.dropPanics c e = false) ∨ (∀ p ∈ ops.zip obs, lp_isDropPanic p = false)) →
        leaked = [] ∧ hs_AllocInv cfg wf ∧
        ((∀ p ∈ ops.zip obs, lp_isExtractPanic p = false) → lostK = [] ∧ lostV = [])) := by
  have hel : w0.t.elems = [] := by rw [h0]; rfl
  obtain ⟨new, lK, lV, lb, l, k, v, a, t, d, e⟩ := lp_run_ledger hc hnd env ops w0 wf obs
    (by rw [h0]; exact TInv.new hc) hnf hrun
  rw [hl0, List.append_nil] at l
  rw [hel] at k v
  have a' := a [] (lp_allocInvL_new w0 h0 hl0)
  rw [List.append_nil] at a'
  rw [l]
  refine ⟨lK, lV, lb, by simpa [kidsOf] using k, by simpa [vidsOf] using v, a', t, ?_, ?_⟩
  · intro hq
    have := d hq
    refine ⟨this, ?_⟩
    rw [this] at a'
    exact (hs_allocInvL_nil wf).1 a'
  · intro hdp
    obtain ⟨e1, e2⟩ := e hdp
    refine ⟨e1, ?_, e2⟩
    rw [e1] at a'
    exact (hs_allocInvL_nil wf).1 a'

/-- **P2, `Subperm` form.** Stored + dropped + returned identities form a sub-multiset of the inserted
    ones: nothing is dropped or returned that was not passed in, and nothing more often than it was
    passed in. -/
theorem run_ledger_panics_subperm (hc : CfgOk cfg) (hnd : cfg.needsDrop = true) (env : Env)
    (ops : List MapOp) (w0 : World) (h0 : w0.t = Raw.new cfg.W) (hl0 : w0.log = [])
    (hnf : hs_NoForget ops) {obs : List Map.Obs} {wf : World}
    (hrun : Map.run cfg env ops w0 = some (obs, wf)) :
    List.Subperm (kidsOf wf.t.elems ++ droppedK wf.log ++ returnedK (ops.zip obs)) (insertedK ops) ∧
    List.Subperm (vidsOf wf.t.elems ++ droppedV wf.log ++ returnedV (ops.zip obs)) (insertedV ops) ∧
    freesMatched wf.log ∧ List.Subperm (hs_blockOf cfg wf.t) (liveBlocks wf.log) := by
  obtain ⟨lK, lV, lb, k, v, a, _⟩ := run_ledger_panics hc hnd env ops w0 h0 hl0 hnf hrun
  refine ⟨?_, ?_, a.1, ?_⟩
  · exact (List.sublist_append_left _ lK).subperm.trans k.subperm
  · exact (List.sublist_append_left _ lV).subperm.trans v.subperm
  · exact (List.sublist_append_left _ lb).subperm.trans a.2.symm.subperm

/-- **P3. No double drop.** If the inserted identities are pairwise distinct then — for every
    environment, every panic position, every history — no object is dropped twice, returned twice,
    or dropped/returned while still stored. -/
theorem no_double_drop (hc : CfgOk cfg) (hnd : cfg.needsDrop = true) (env : Env)
    (ops : List MapOp) (w0 : World) (h0 : w0.t = Raw.new cfg.W) (hl0 : w0.log = [])
    (hnf : hs_NoForget ops) {obs : List Map.Obs} {wf : World}
    (hrun : Map.run cfg env ops w0 = some (obs, wf))
    (hK : (insertedK ops).Nodup) (hV : (insertedV ops).Nodup) :
    (kidsOf wf.t.elems ++ droppedK wf.log ++ returnedK (ops.zip obs)).Nodup ∧
    (vidsOf wf.t.elems ++ droppedV wf.log ++ returnedV (ops.zip obs)).Nodup := by
  obtain ⟨lK, lV, lb, k, v, _⟩ := run_ledger_panics hc hnd env ops w0 h0 hl0 hnf hrun
  exact ⟨(List.nodup_append.1 (k.nodup_iff.2 hK)).1, (List.nodup_append.1 (v.nodup_iff.2 hV)).1⟩

/-- P3 spelled out: the three parts are pairwise disjoint and free of repetitions. -/
theorem no_double_drop_parts (hc : CfgOk cfg) (hnd : cfg.needsDrop = true) (env : Env)
    (ops : List MapOp) (w0 : World) (h0 : w0.t = Raw.new cfg.W) (hl0 : w0.log = [])
    (hnf : hs_NoForget ops) {obs : List Map.Obs} {wf : World}
    (hrun : Map.run cfg env ops w0 = some (obs, wf))
    (hK : (insertedK ops).Nodup) (hV : (insertedV ops).Nodup) :
    ((droppedK wf.log).Nodup ∧ (returnedK (ops.zip obs)).Nodup ∧
      (∀ x ∈ returnedK (ops.zip obs), x ∉ droppedK wf.log ∧ x ∉ kidsOf wf.t.elems) ∧
      (∀ x ∈ droppedK wf.log, x ∉ kidsOf wf.t.elems)) ∧
    ((droppedV wf.log).Nodup ∧ (returnedV (ops.zip obs)).Nodup ∧
      (∀ x ∈ returnedV (ops.zip obs), x ∉ droppedV wf.log ∧ x ∉ vidsOf wf.t.elems) ∧
      (∀ x ∈ droppedV wf.log, x ∉ vidsOf wf.t.elems)) := by
  obtain ⟨nk, nv⟩ := no_double_drop hc hnd env ops w0 h0 hl0 hnf hrun hK hV
  obtain ⟨_, k2, k3, k4, k5⟩ := hs_nodup_parts (List.Perm.refl _) nk
  obtain ⟨_, v2, v3, v4, v5⟩ := hs_nodup_parts (List.Perm.refl _) nv
  exact ⟨⟨k2, k3, k4, k5⟩, ⟨v2, v3, v4, v5⟩⟩

/-! ## evaluated examples (SSE2 scanner) -/

/-- What the client sees of a call: `"ret"` or the class of the panic. -/
def lpObsClass : Map.Obs → String
  | .ret _ => "ret"
  | .panic c => c

def lpAllocEvs (log : List Ev) : List Ev :=
  log.filter fun (ev : Ev) => match ev with | .alloc _ _ => true | .free _ _ => true | _ => false

/-- Lawful `Hash`/`Eq`, except that hasher call number 5 panics (it is made while the 4th insert moves
    the elements into the bigger table) and predicate call number 1 panics (inside `retain`, after
    call 0 rejected an element). No destructor panics. -/
def lpExEnv : Env :=
  { hash := fun c k => if c == 5 then none else some (k * 2654435761),
    eq := fun _ q e => some (q == e.k),
    clone := fun _ _ => none,
    pred := fun c _ => if c == 1 then none else some (c % 2 == 1, 7),
    allocOk := fun _ => true, dropPanics := fun _ _ => false }

def lpExOps : List MapOp :=
  [.insert ⟨1, 10, 100, 0⟩, .insert ⟨2, 20, 200, 0⟩, .insert ⟨3, 30, 300, 0⟩,
   .insert ⟨4, 40, 400, 0⟩,    -- growth; the hasher panics while the elements are moved
   .insert ⟨4, 41, 401, 0⟩,    -- same key again: grows and stores
   .retain,                    -- predicate call 0 rejects (element dropped), call 1 panics
   .insert ⟨1, 12, 102, 9⟩, .remove 2, .extractIf 1, .drain 1 false, .shrinkTo 0]

/-- (observations, stored keys, dropped keys, returned keys, stored values, dropped values,
    returned values, live blocks, allocator events newest first). -/
def lpExSummary : Option (List String × List Nat × List Nat × List Nat × List Nat × List Nat ×
    List Nat × List (Nat × Nat) × List Ev) :=
  match Map.run { ops := Sse2.ops } lpExEnv lpExOps { t := Raw.new 16 } with
  | some (obs, wf) =>
    some (obs.map lpObsClass, kidsOf wf.t.elems, droppedK wf.log, returnedK (lpExOps.zip obs),
      vidsOf wf.t.elems, droppedV wf.log, returnedV (lpExOps.zip obs), liveBlocks wf.log,
      lpAllocEvs wf.log)
  | none => none

/-- **P4.** A history with a hasher panic during growth and a predicate panic inside `retain`:
    the 4th insert unwinds with `"hash"` (the new 8-bucket block is obtained and freed again by the
    guard, the arguments 40/400 are dropped), `retain` unwinds with `"pred"` after dropping 10/100.
    Six key objects and six value objects went in; each is dropped exactly once or returned exactly
    once, nothing is stored at the end, nothing is lost, every block was freed with its own layout. -/
theorem lpEx_example :
    lpExSummary = some (
      ["ret", "ret", "ret", "hash", "ret", "pred", "ret", "ret", "ret", "ret", "ret"],
      [], [41, 20, 10, 40], [30, 12], [], [401, 100, 400], [200, 300, 102], [],
      [.free 88 16, .free 52 16, .alloc 88 16, .free 88 16, .alloc 88 16, .alloc 52 16]) ∧
    insertedK lpExOps = [10, 20, 30, 40, 41, 12] ∧
    insertedV lpExOps = [100, 200, 300, 400, 401, 102] := ⟨by rfl, by rfl, by rfl⟩

theorem lpEx_noForget : hs_NoForget lpExOps := by
  intro op hop n he
  subst he
  simp [lpExOps] at hop

/-- The hypotheses of `run_ledger_panics` / `no_double_drop` are satisfiable: instantiated on the
    example (`hs` is `sse2_groupSpec` of `Hb/Proofs/Group.lean`, not imported here to keep its
    `bv_decide` axioms out of this file). -/
theorem lpEx_no_double_drop (hs : GroupSpec Sse2.ops) :
    ∀ obs wf, Map.run { ops := Sse2.ops } lpExEnv lpExOps { t := Raw.new 16 } = some (obs, wf) →
      (kidsOf wf.t.elems ++ droppedK wf.log ++ returnedK (lpExOps.zip obs)).Nodup ∧
      (vidsOf wf.t.elems ++ droppedV wf.log ++ returnedV (lpExOps.zip obs)).Nodup ∧
      hs_AllocInv { ops := Sse2.ops } wf := by
  intro obs wf hrun
  have hc : CfgOk { ops := Sse2.ops } := ⟨hs, by decide⟩
  obtain ⟨a, b⟩ := no_double_drop hc rfl lpExEnv lpExOps { t := Raw.new 16 } rfl rfl lpEx_noForget hrun
    (by rw [lpEx_example.2.1]; decide) (by rw [lpEx_example.2.2]; decide)
  obtain ⟨_, _, _, _, _, _, _, _, c⟩ :=
    run_ledger_panics hc rfl lpExEnv lpExOps { t := Raw.new 16 } rfl rfl lpEx_noForget hrun
  exact ⟨a, b, (c (Or.inl fun _ _ => rfl)).2.1⟩

/-- Lawful callbacks, except that the destructor of the key object `20` panics. -/
def lpLeakEnv : Env :=
  { hash := fun _ k => some (k * 2654435761), eq := fun _ q e => some (q == e.k),
    clone := fun _ _ => none, pred := fun _ _ => some (true, 0),
    allocOk := fun _ => true, dropPanics := fun _ e => e.kid == 20 }

def lpLeakOps : List MapOp :=
  [.insert ⟨1, 10, 100, 0⟩, .insert ⟨2, 20, 200, 0⟩, .insert ⟨3, 30, 300, 0⟩, .drain 1 false]

/-- (observations, stored keys, dropped keys, returned keys, live blocks, table allocated?,
    allocator events). -/
def lpLeakSummary : Option (List String × List Nat × List Nat × List Nat × List (Nat × Nat) × Bool ×
    List Ev) :=
  match Map.run { ops := Sse2.ops } lpLeakEnv lpLeakOps { t := Raw.new 16 } with
  | some (obs, wf) =>
    some (obs.map lpObsClass, kidsOf wf.t.elems, droppedK wf.log, returnedK (lpLeakOps.zip obs),
      liveBlocks wf.log, wf.t.alloc, lpAllocEvs wf.log)
  | none => none

/-- **Counterexample to the requested allocator clause** (`hs_AllocInv w → hs_AllocInv w'` for an
    unwinding call, and `hs_AllocInv wf` at the end of a history with panics): `drain()`, one `next`,
    then `Drop` of the `Drain` in which the destructor of key `20` panics. `RawDrain::drop` unwinds
    before `clear_no_drop` / moving the table back, so the collection is left as the UNALLOCATED
    singleton while its 4-bucket block `(52, 16)` is still live: the block is leaked (never freed
    twice, though). Of the three key objects one was yielded (lost to the unwound call), `20` is
    logged as dropped, one is leaked. -/
theorem drain_panic_leaks_block :
    lpLeakSummary = some (["ret", "ret", "ret", "drop"], [], [20], [], [(52, 16)], false,
      [.alloc 52 16]) := by rfl

/-- The counterexample as a statement about `hs_AllocInv`: the history runs to its end and the
    allocator invariant of `run_ledger` does NOT hold at the end (while `hs_AllocInvL` with the one
    leaked block does, by `run_ledger_panics`). -/
theorem lpLeak_not_allocInv :
    ∃ obs wf, Map.run { ops := Sse2.ops } lpLeakEnv lpLeakOps { t := Raw.new 16 } = some (obs, wf) ∧
      ¬ hs_AllocInv { ops := Sse2.ops } wf ∧ liveBlocks wf.log = [(52, 16)] ∧
      hs_blockOf { ops := Sse2.ops } wf.t = [] := by
  have h := drain_panic_leaks_block
  unfold lpLeakSummary at h
  cases hrun : Map.run { ops := Sse2.ops } lpLeakEnv lpLeakOps { t := Raw.new 16 } with
  | none => rw [hrun] at h; cases h
  | some pr =>
    obtain ⟨obs, wf⟩ := pr
    rw [hrun] at h
    simp only [Option.some.injEq, Prod.mk.injEq] at h
    obtain ⟨_, _, _, _, h5, h6, _⟩ := h
    have hb : hs_blockOf { ops := Sse2.ops } wf.t = [] := by
      unfold hs_blockOf; rw [h6]; rfl
    refine ⟨obs, wf, rfl, fun hA => ?_, h5, hb⟩
    have := hA.2
    rw [h5, hb] at this
    cases this

#print axioms step_ledger_panic
#print axioms step_ledger_panic_partial
#print axioms run_ledger_panics
#print axioms run_ledger_panics_subperm
#print axioms no_double_drop
#print axioms no_double_drop_parts
#print axioms lpEx_example
#print axioms lpEx_no_double_drop
#print axioms drain_panic_leaks_block
#print axioms lpLeak_not_allocInv

end Hb
