/-
The split logic of the rayon producers (`Hb/Model/Par.lean`): for every decision tree, table size and
occupancy pattern the leaves partition the full buckets — every full bucket in exactly one leaf,
once, leaves in bucket order. `par_drain`: consumed ++ dropped-by-producer over all leaves is the
same list, and the table left behind is empty, keeps its allocation and satisfies `Inv`.

Outside the model (trusted): rayon's scheduler (which tree is taken, on which threads, memory
ordering between them) and its ordered `reduce`.
-/
import Hb.Proofs.IterSpec
import Hb.Proofs.InvStep
import Hb.Model.Par
namespace Hb.Par
open Hb

variable {cfg : Cfg} {t : Raw}

/-! ### ranges with an arbitrary end -/

/-- The full buckets in `[a, b)`, ascending. -/
def fullIn (t : Raw) (a b : Nat) : List Nat :=
  (List.range' a (b - a)).filter fun i => isFull (t.ctrlAt i)

theorem fullIn_nil (t : Raw) {a b : Nat} (h : b ≤ a) : fullIn t a b = [] := by
  have : b - a = 0 := by omega
  simp [fullIn, this]

theorem fullIn_append (t : Raw) {a m b : Nat} (h1 : a ≤ m) (h2 : m ≤ b) :
    fullIn t a m ++ fullIn t m b = fullIn t a b := by
  unfold fullIn
  rw [← List.filter_append]
  congr 1
  have : b - a = (m - a) + (b - m) := by omega
  rw [this, ← List.range'_append]
  congr 2
  omega

theorem fullFrom_eq_fullIn (t : Raw) (a : Nat) : t.fullFrom a = fullIn t a t.buckets := rfl

theorem fullIn_length_le (t : Raw) (a b : Nat) : (fullIn t a b).length ≤ b - a := by
  unfold fullIn
  have := List.length_filter_le (fun i => isFull (t.ctrlAt i)) (List.range' a (b - a))
  simpa using this

/-- What a range will still yield: the pending lanes of its current group, then the full buckets
    of the groups up to its own `end_`. -/
def yld (t : Raw) (r : RawIterRange) : List Nat :=
  r.cur.map (r.base + ·) ++ fullIn t r.nextCtrl r.end_

/-- A range in a good state (generalises `RangeOk` to ranges that end before the table does). -/
structure Good (cfg : Cfg) (t : Raw) (r : RawIterRange) : Prop where
  next_eq : r.nextCtrl = r.base + cfg.W
  dvd : cfg.W ∣ r.base
  end_le : r.end_ ≤ t.buckets
  /-- if groups remain, the end is group-aligned (tables smaller than a group have
      `end_ = n < W = nextCtrl`) -/
  end_al : r.nextCtrl < r.end_ → cfg.W ∣ r.end_
  cur_len : r.cur.length ≤ cfg.W

theorem dvd_step {W a e : Nat} (ha : W ∣ a) (he : W ∣ e) (h : a < e) : a + W ≤ e := by
  have h1 : W ∣ e - a := Nat.dvd_sub he ha
  have := Nat.le_of_dvd (by omega) h1
  omega

/-- One aligned group inside the table: its `match_full` lanes are the full buckets of `[a, a+W)`. -/
theorem group_fullIn (g : IterGeo cfg t) (a : Nat) (ha : a + cfg.W ≤ t.ctrl.size) :
    ∃ grp, loadGroup cfg.W t a = .ok grp ∧
      (cfg.ops.matchFull grp).map (a + ·) = fullIn t a (a + cfg.W) ∧
      (cfg.ops.matchFull grp).length ≤ cfg.W := by
  obtain ⟨grp, hl, hm⟩ := loadGroup_lanes g a ha
  refine ⟨grp, hl, ?_, ?_⟩
  · rw [hm, fullIn]; congr 2; omega
  · have h1 : ((cfg.ops.matchFull grp).map (a + ·)).length ≤ cfg.W := by
      rw [hm]
      have := List.length_filter_le (fun i => isFull (t.ctrlAt i)) (List.range' a cfg.W)
      simpa using this
    simpa using h1

theorem Good.yld_length_le (g : IterGeo cfg t) {r : RawIterRange} (hr : Good cfg t r) :
    (yld t r).length ≤ t.ctrl.size := by
  have h1 := fullIn_length_le t r.nextCtrl r.end_
  have h2 := hr.cur_len
  have h3 := hr.end_le
  have h4 := g.buckets_le_size
  have h5 := g.size0
  have h6 := hr.next_eq
  simp only [yld, List.length_append, List.length_map]
  omega

/-- `<RawIterRange as Iterator>::next` (`next_impl::<true>`) on a good range: the head of the
    remaining yield, or `None` exactly when nothing remains; never an error. -/
theorem nextImpl_true_spec (g : IterGeo cfg t) :
    ∀ (fuel : Nat) (r : RawIterRange), Good cfg t r → r.end_ - r.nextCtrl < fuel →
      ∃ r', RawIterRange.nextImpl cfg t true fuel r = .ok ((yld t r).head?, r') ∧ Good cfg t r' ∧
        yld t r' = (yld t r).tail := by
  intro fuel
  induction fuel with
  | zero => intro r _ h; omega
  | succ fuel ih =>
    intro r hr hf
    cases hcur : r.cur with
    | cons lane rest =>
      refine ⟨{ r with cur := rest }, by simp [RawIterRange.nextImpl, hcur, yld],
        ⟨hr.next_eq, hr.dvd, hr.end_le, hr.end_al, ?_⟩, by simp [yld, hcur]⟩
      have := hr.cur_len
      rw [hcur] at this
      simp only [List.length_cons] at this ⊢
      omega
    | nil =>
      have hy : yld t r = fullIn t r.nextCtrl r.end_ := by simp [yld, hcur]
      by_cases hend : r.nextCtrl ≥ r.end_
      · refine ⟨r, ?_, hr, ?_⟩
        · rw [hy, fullIn_nil t hend, RawIterRange.nextImpl]
          simp [hcur, hend]
        · rw [hy, fullIn_nil t hend]; rfl
      · have hlt : r.nextCtrl < r.end_ := by omega
        have hde := hr.end_al hlt
        have hdn : cfg.W ∣ r.nextCtrl := by
          rw [hr.next_eq]; exact Nat.dvd_add hr.dvd (Nat.dvd_refl _)
        have hstep := dvd_step hdn hde hlt
        have hw := g.wpos
        have hsz := g.buckets_le_size
        have hle := hr.end_le
        obtain ⟨grp, hl, hm, hlen⟩ := group_fullIn g r.nextCtrl (by omega)
        have hr2 : Good cfg t ⟨cfg.ops.matchFull grp, r.base + cfg.W, r.nextCtrl + cfg.W, r.end_⟩ :=
          ⟨by simp [hr.next_eq], Nat.dvd_add hr.dvd (Nat.dvd_refl _), hr.end_le,
            fun _ => hde, hlen⟩
        have hy2 : yld t ⟨cfg.ops.matchFull grp, r.base + cfg.W, r.nextCtrl + cfg.W, r.end_⟩ =
            yld t r := by
          rw [hy, ← fullIn_append t (Nat.le_add_right _ cfg.W) hstep, ← hm]
          simp [yld, hr.next_eq]
        obtain ⟨r', h1, h2, h3⟩ := ih _ hr2 (by simp only; omega)
        refine ⟨r', ?_, h2, by rw [h3, hy2]⟩
        rw [RawIterRange.nextImpl]
        have hnot : ¬ (r.end_ ≤ r.nextCtrl) := by omega
        simp only [hcur, hl, Bool.true_and, ge_iff_le, decide_eq_true_eq, hnot, if_false]
        rw [← hy2]
        exact h1

theorem iterFuel_good (g : IterGeo cfg t) {r : RawIterRange} (hr : Good cfg t r) :
    r.end_ - r.nextCtrl < iterFuel t := by
  have := g.buckets_le_size
  have := hr.end_le
  unfold iterFuel
  omega

/-- `k` calls of `next`: the first `k` elements of the yield; `None` was seen iff the range held
    fewer than `k`. -/
theorem takeK_spec (g : IterGeo cfg t) :
    ∀ (k : Nat) (r : RawIterRange) (acc : List Nat), Good cfg t r →
      ∃ r' ex, takeK cfg t k r acc = .ok (acc.reverse ++ (yld t r).take k, r', ex) ∧
        Good cfg t r' ∧ yld t r' = (yld t r).drop k ∧ (ex = true ↔ (yld t r).length < k) := by
  intro k
  induction k with
  | zero => intro r acc hr; exact ⟨r, false, by simp [takeK], hr, by simp, by simp⟩
  | succ k ih =>
    intro r acc hr
    obtain ⟨r1, h1, h2, h3⟩ := nextImpl_true_spec g (iterFuel t) r hr (iterFuel_good g hr)
    rw [takeK, h1]
    cases hy : yld t r with
    | nil =>
      rw [hy] at h3
      exact ⟨r1, true, by simp, h2, by simpa using h3, by simp⟩
    | cons x xs =>
      rw [hy] at h3
      obtain ⟨r', ex, h4, h5, h6, h7⟩ := ih r1 (x :: acc) h2
      refine ⟨r', ex, ?_, h5, by rw [h6, h3]; simp, by rw [h7, h3]; simp⟩
      simp only [List.head?_cons]
      rw [h4, h3]
      simp

/-- Consuming a good range to exhaustion yields exactly its remaining yield. -/
theorem consumeAll_spec (g : IterGeo cfg t) {r : RawIterRange} (hr : Good cfg t r) :
    consumeAll cfg t r = .ok (yld t r) := by
  obtain ⟨r', ex, h1, _, _, h4⟩ := takeK_spec g (t.ctrl.size + 1) r [] hr
  have hlen := hr.yld_length_le g
  have hex : ex = true := h4.2 (by omega)
  subst hex
  rw [consumeAll, h1]
  simp [List.take_of_length_le (show (yld t r).length ≤ t.ctrl.size + 1 by omega)]

/-! ### 1. `split` -/

theorem mid_facts {W len : Nat} (hd : W ∣ len) (hpos : 0 < len) :
    W ∣ (len / 2) / W * W ∧ (len / 2) / W * W + W ≤ len := by
  have h1 : W ∣ (len / 2) / W * W := Nat.dvd_mul_left _ _
  have h2 : (len / 2) / W * W ≤ len / 2 := Nat.div_mul_le_self _ _
  have h3 : (len / 2) / W * W < len := by omega
  exact ⟨h1, dvd_step h1 hd h3⟩

/-- 1. `RawIterRange::split` on a good range: either it declines (`None`, the range is returned
    unchanged), or both halves are good and the left half's yield followed by the right half's yield
    is the original yield — the halves are disjoint and together complete. -/
theorem split_partition (g : IterGeo cfg t) (r : RawIterRange) (hr : Good cfg t r) :
    ∃ l o, RawIterRange.split cfg t r = .ok (l, o) ∧ Good cfg t l ∧
      match o with
      | none => yld t l = yld t r
      | some rr => Good cfg t rr ∧ yld t l ++ yld t rr = yld t r := by
  by_cases hend : r.end_ ≤ r.nextCtrl
  · exact ⟨r, none, by simp [RawIterRange.split, hend], hr, rfl⟩
  · have hlt : r.nextCtrl < r.end_ := by omega
    have hw := g.wpos
    have hde := hr.end_al hlt
    have hdn : cfg.W ∣ r.nextCtrl := by
      rw [hr.next_eq]; exact Nat.dvd_add hr.dvd (Nat.dvd_refl _)
    have hdl : cfg.W ∣ r.end_ - r.nextCtrl := Nat.dvd_sub hde hdn
    obtain ⟨hm1, hm2⟩ := mid_facts hdl (by omega)
    generalize hmid : (r.end_ - r.nextCtrl) / 2 / cfg.W * cfg.W = mid at hm1 hm2
    have hsz := g.buckets_le_size
    have hle := hr.end_le
    obtain ⟨grp, hl, hm, hlen⟩ := group_fullIn g (r.nextCtrl + mid) (by omega)
    have hend' : r.nextCtrl + mid + (r.end_ - r.nextCtrl - mid) = r.end_ := by omega
    refine ⟨{ r with end_ := r.nextCtrl + mid },
      some ⟨cfg.ops.matchFull grp, r.base + cfg.W + mid, r.nextCtrl + mid + cfg.W,
        r.nextCtrl + mid + (r.end_ - r.nextCtrl - mid)⟩, ?_, ?_, ?_, ?_⟩
    · simp only [RawIterRange.split, if_neg hend, hmid, hl]
    · exact ⟨hr.next_eq, hr.dvd, by simp only; omega, fun _ => Nat.dvd_add hdn hm1, hr.cur_len⟩
    · refine ⟨by simp only [hr.next_eq], Nat.dvd_add (Nat.dvd_add hr.dvd (Nat.dvd_refl _)) hm1,
        by simp only; omega, fun _ => by
          show cfg.W ∣ r.nextCtrl + mid + (r.end_ - r.nextCtrl - mid)
          rw [hend']; exact hde, hlen⟩
    · simp only [yld, hend']
      have e1 : r.base + cfg.W + mid = r.nextCtrl + mid := by rw [hr.next_eq]
      rw [e1, hm, List.append_assoc, ← List.append_assoc (fullIn t r.nextCtrl (r.nextCtrl + mid)),
        fullIn_append t (by omega) (by omega), fullIn_append t (by omega) (by omega)]

/-! ### 2. every decision tree -/

theorem leaves_spec (g : IterGeo cfg t) :
    ∀ (tr : Tree) (r : RawIterRange), Good cfg t r →
      ∃ ls, leaves cfg t r tr = .ok ls ∧ ls.flatten = yld t r := by
  intro tr
  induction tr with
  | leaf => intro r hr; exact ⟨[yld t r], by simp [leaves, consumeAll_spec g hr], by simp⟩
  | node tl tr ihl ihr =>
    intro r hr
    obtain ⟨l, o, hs, hgl, ho⟩ := split_partition g r hr
    cases o with
    | none =>
      exact ⟨[yld t l], by simp [leaves, hs, consumeAll_spec g hgl], by simpa using ho⟩
    | some rr =>
      obtain ⟨hgr, hy⟩ := ho
      obtain ⟨a, ha1, ha2⟩ := ihl l hgl
      obtain ⟨b, hb1, hb2⟩ := ihr rr hgr
      exact ⟨a ++ b, by simp [leaves, hs, ha1, hb1], by rw [List.flatten_append, ha2, hb2, hy]⟩

/-- The range `RawTable::par_iter` starts from is good and yields the whole table. -/
theorem new_good (g : IterGeo cfg t) :
    ∃ it, RawIter.new cfg t = .ok it ∧ Good cfg t it.range ∧ yld t it.range = t.fullList := by
  have hw := g.wpos
  have hsz := g.size0
  obtain ⟨grp, hl, hstep⟩ := group_step g 0 (Nat.dvd_zero _) (Or.inr rfl)
  obtain ⟨grp', hl', _, hlen⟩ := group_fullIn g 0 (by omega)
  obtain rfl : grp = grp' := by rw [hl] at hl'; cases hl'; rfl
  refine ⟨⟨⟨cfg.ops.matchFull grp, 0, 0 + cfg.W, 0 + t.buckets⟩, t.items⟩,
    by simp only [RawIter.new, RawIterRange.new, hl], ⟨rfl, Nat.dvd_zero _, by simp, ?_, hlen⟩, ?_⟩
  · intro h
    simp only [Nat.zero_add] at h ⊢
    exact (g.big (by omega)).1
  · rw [← fullFrom_zero, hstep]
    simp [yld, fullFrom_eq_fullIn]

/-- 2. For EVERY decision tree, table size and occupancy pattern (any table satisfying `Inv`):
    the leaves, concatenated left to right, are exactly the list of full buckets — every stored
    element is delivered by exactly one leaf, exactly once. -/
theorem splitTree_exact (hc : CfgOk cfg) (h : Inv cfg t) (tr : Tree) :
    ∃ ls, splitLeaves cfg t tr = .ok ls ∧ ls.flatten = t.fullList := by
  have g := iterGeo_of_inv hc h
  obtain ⟨it, h1, h2, h3⟩ := new_good g
  obtain ⟨ls, h4, h5⟩ := leaves_spec g tr it.range h2
  exact ⟨ls, by rw [splitLeaves, h1]; exact h4, by rw [h5, h3]⟩

/-- Corollary: what the leaves deliver, as a multiset, does not depend on the tree. -/
theorem splitTree_perm (hc : CfgOk cfg) (h : Inv cfg t) (tr1 tr2 : Tree) :
    ∃ l1 l2, splitLeaves cfg t tr1 = .ok l1 ∧ splitLeaves cfg t tr2 = .ok l2 ∧
      l1.flatten = l2.flatten ∧ l1.flatten.Nodup := by
  obtain ⟨l1, h1, h2⟩ := splitTree_exact hc h tr1
  obtain ⟨l2, h3, h4⟩ := splitTree_exact hc h tr2
  refine ⟨l1, l2, h1, h3, by rw [h2, h4], ?_⟩
  rw [h2]
  exact (fullList_sorted t).imp (fun h => Nat.ne_of_lt h)

/-! ### 3. `par_drain` -/

/-- What a draining leaf with yield `y` and stop count `k` reports. -/
def leafOut (cfg : Cfg) (y : List Nat) (k : Nat) : LeafOut :=
  ⟨y.take k, if cfg.needsDrop then y.drop k else []⟩

theorem drainLeaf_spec (g : IterGeo cfg t) {r : RawIterRange} (hr : Good cfg t r) (k : Nat) :
    drainLeaf cfg t r k = .ok (leafOut cfg (yld t r) k) := by
  obtain ⟨r', ex, h1, h2, h3, h4⟩ := takeK_spec g k r [] hr
  rw [drainLeaf, h1]
  simp only [List.reverse_nil, List.nil_append]
  cases ex with
  | true =>
    have : (yld t r).drop k = [] := List.drop_eq_nil_of_le (by have := h4.1 rfl; omega)
    simp [leafOut, this]
  | false =>
    by_cases hd : cfg.needsDrop = true
    · simp [leafOut, hd, consumeAll_spec g h2, h3]
    · simp [leafOut, hd]

/-- Every draining tree: the leaves' yields `y` partition the range's yield, and every leaf
    consumed the first `k` of its own yield and dropped the rest of its own yield. -/
theorem drainTree_spec (g : IterGeo cfg t) :
    ∀ (dt : DTree) (r : RawIterRange), Good cfg t r →
      ∃ ys : List (List Nat × Nat),
        drainTree cfg t r dt = .ok (ys.map fun p => leafOut cfg p.1 p.2) ∧
        (ys.map (·.1)).flatten = yld t r := by
  intro dt
  induction dt with
  | leaf k =>
    intro r hr
    exact ⟨[(yld t r, k)], by simp [drainTree, drainLeaf_spec g hr], by simp⟩
  | node tl tr ihl ihr =>
    intro r hr
    obtain ⟨l, o, hs, hgl, ho⟩ := split_partition g r hr
    cases o with
    | none =>
      exact ⟨[(yld t l, tl.firstK)], by simp [drainTree, hs, drainLeaf_spec g hgl], by simpa using ho⟩
    | some rr =>
      obtain ⟨hgr, hy⟩ := ho
      obtain ⟨a, ha1, ha2⟩ := ihl l hgl
      obtain ⟨b, hb1, hb2⟩ := ihr rr hgr
      exact ⟨a ++ b, by simp [drainTree, hs, ha1, hb1],
        by rw [List.map_append, List.flatten_append, ha2, hb2, hy]⟩

theorem ledger_flatten (hd : cfg.needsDrop = true) (ys : List (List Nat × Nat)) :
    ((ys.map fun p => leafOut cfg p.1 p.2).map fun o => o.consumed ++ o.dropped).flatten =
      (ys.map (·.1)).flatten := by
  induction ys with
  | nil => rfl
  | cons p ps ih =>
    simp only [List.map_cons, List.flatten_cons, ih]
    simp [leafOut, hd]

theorem consumed_sublist (ys : List (List Nat × Nat)) :
    (((ys.map fun p => leafOut cfg p.1 p.2).map fun o => o.consumed).flatten).Sublist
      (ys.map (·.1)).flatten := by
  induction ys with
  | nil => simp
  | cons p ps ih =>
    simp only [List.map_cons, List.flatten_cons]
    exact List.Sublist.append (by simpa [leafOut] using List.take_sublist _ _) ih

/-- A full bucket holds a live element. -/
theorem live_of_full (hc : CfgOk cfg) (h : Inv cfg t) {i : Nat} (hi : i ∈ t.fullList) :
    (t.slots[i]?.join).isSome = true := by
  have hW : 0 < cfg.W := by have := hc.spec.width; unfold Cfg.W; omega
  obtain ⟨hi, hf⟩ := (mem_fullList t i).1 hi
  have hs : i < t.slots.size := by
    rcases h.geom with hg | hg
    · obtain ⟨_, hm, hctrl, _, _, _⟩ := hg
      have hi0 : i = 0 := by unfold Raw.buckets at hi; omega
      subst hi0
      rw [Raw.ctrlAt, hctrl] at hf
      simp [isFull, EMPTY, hW] at hf
    · have := hg.2.2.2.1; omega
  exact (h.live i hs).mpr hf

theorem filterMap_congr' {α β : Type} {f g : α → Option β} {l : List α}
    (h : ∀ a ∈ l, f a = g a) : l.filterMap f = l.filterMap g := by
  induction l with
  | nil => rfl
  | cons a l ih =>
    rw [List.filterMap_cons, List.filterMap_cons, h a (by simp), ih (fun b hb => h b (by simp [hb]))]

/-- Moving the elements out of a duplicate-free list of live buckets never faults, whatever the
    order, and returns each listed bucket's element. -/
theorem takeSlots_ok : ∀ (l : List Nat) (t : Raw), l.Nodup →
    (∀ i ∈ l, (t.slots[i]?.join).isSome = true) →
    ∃ t', takeSlots l t = .ok (l.filterMap fun i => t.slots[i]?.join, t') ∧
      t'.slots.size = t.slots.size ∧
      ∀ j : Nat, (t'.slots[j]?.join) = if j ∈ l then none else t.slots[j]?.join := by
  intro l
  induction l with
  | nil => intro t _ _; exact ⟨t, rfl, rfl, by simp⟩
  | cons i rest ih =>
    intro t hnd hlive
    obtain ⟨hni, hnd'⟩ := List.nodup_cons.1 hnd
    have hi := hlive i (by simp)
    obtain ⟨e, he⟩ : ∃ e, t.slots[i]? = some (some e) := by
      cases hx : t.slots[i]? with
      | none => rw [hx] at hi; simp at hi
      | some o =>
        cases o with
        | none => rw [hx] at hi; simp at hi
        | some e => exact ⟨e, rfl⟩
    have hother : ∀ j, j ≠ i →
        ({ t with slots := t.slots.setIfInBounds i none } : Raw).slots[j]? = t.slots[j]? := by
      intro j hj
      simp only [Array.getElem?_setIfInBounds]
      rw [if_neg (by omega)]
    obtain ⟨t', h1, h2, h3⟩ := ih { t with slots := t.slots.setIfInBounds i none } hnd' (by
      intro j hj
      rw [hother j (by rintro rfl; exact hni hj)]
      exact hlive j (by simp [hj]))
    refine ⟨t', ?_, by rw [h2]; simp, ?_⟩
    · rw [takeSlots, slotTake, he]
      simp only [h1]
      rw [List.filterMap_cons, he]
      simp only [Option.join_some]
      have hfm : List.filterMap (fun j => (t.slots.setIfInBounds i none)[j]?.join) rest =
          List.filterMap (fun j => t.slots[j]?.join) rest :=
        filterMap_congr' (fun j hj => by
          have := hother j (by rintro rfl; exact hni hj)
          simp only at this
          rw [this])
      rw [hfm]
    · intro j
      rw [h3 j]
      by_cases hj : j ∈ rest
      · simp [hj]
      · by_cases hji : j = i
        · subst hji
          have hlt : j < t.slots.size := by
            refine Nat.lt_of_not_le fun hle => ?_
            rw [Array.getElem?_eq_none hle] at he; cases he
          simp [hj, hlt]
        · rw [hother j hji]
          simp [hj, hji]

theorem drainFinal_facts (t : Raw) :
    (drainFinal t).items = 0 ∧ (drainFinal t).mask = t.mask ∧ (drainFinal t).alloc = t.alloc ∧
    (drainFinal t).ctrl.size = t.ctrl.size ∧ (drainFinal t).slots.size = t.slots.size ∧
    (drainFinal t).gl = bucketMaskToCapacity t.mask ∧
    ∀ j : Nat, (drainFinal t).slots[j]?.join = none := by
  refine ⟨rfl, rfl, rfl, ?_, by simp [drainFinal, clearNoDrop], rfl, ?_⟩
  · simp only [drainFinal, clearNoDrop]
    split <;> simp
  · intro j
    simp only [drainFinal, clearNoDrop]
    by_cases hj : j < t.slots.size
    · simp [hj]
    · simp [Array.getElem?_eq_none (show (Array.replicate t.slots.size (none : Option Elem)).size ≤ j by simp; omega)]

/-- 3. `par_drain` along ANY tree with ANY per-leaf early-stop counts (element type with drop
    glue): consumed ++ dropped-by-`ParDrainProducer::drop`, over all leaves in order, is exactly the
    list of full buckets — every stored element is handed to the consumer or dropped, never both,
    never twice, never neither; moving them out of their slots never touches a dead slot; the
    elements moved out are the stored elements; and the table left behind by the `clear_no_drop`
    guard is empty, keeps its allocation (`mask`, `alloc`, sizes unchanged), has full capacity
    again and satisfies `Inv` (so it is usable). -/
theorem parDrain_ledger (hc : CfgOk cfg) (h : Inv cfg t) (hd : cfg.needsDrop = true) (dt : DTree) :
    ∃ outs, drainLeaves cfg t dt =
        .ok (outs, t.fullList.filterMap (fun i => t.slots[i]?.join), drainFinal t) ∧
      (outs.map fun o => o.consumed ++ o.dropped).flatten = t.fullList ∧
      Inv cfg (drainFinal t) ∧ (drainFinal t).items = 0 ∧ (drainFinal t).mask = t.mask ∧
      (drainFinal t).alloc = t.alloc ∧ (drainFinal t).gl = bucketMaskToCapacity t.mask := by
  have g := iterGeo_of_inv hc h
  obtain ⟨it, h1, h2, h3⟩ := new_good g
  obtain ⟨ys, h4, h5⟩ := drainTree_spec g dt it.range h2
  have hled := ledger_flatten hd ys
  rw [h5, h3] at hled
  have hnd : t.fullList.Nodup := (fullList_sorted t).imp (fun h => Nat.ne_of_lt h)
  obtain ⟨t', h6, _, _⟩ := takeSlots_ok t.fullList t hnd (fun i hi => live_of_full hc h hi)
  obtain ⟨f1, f2, f3, _, _, f6, _⟩ := drainFinal_facts t
  refine ⟨_, ?_, hled, clearNoDrop_inv hc h, f1, f2, f3, f6⟩
  rw [drainLeaves, h1]
  simp only [h4, hled, h6]

/-- Element types without drop glue: `ParDrainProducer::drop` has nothing to do; what the consumers
    received is a sub-list of the stored elements (nothing delivered twice, nothing invented). -/
theorem parDrain_consumed (hc : CfgOk cfg) (h : Inv cfg t) (dt : DTree) :
    ∃ outs, drainTree cfg t (match RawIter.new cfg t with | .ok it => it.range | .error _ => ⟨[], 0, 0, 0⟩) dt
        = .ok outs ∧
      ((outs.map fun o => o.consumed).flatten).Sublist t.fullList := by
  have g := iterGeo_of_inv hc h
  obtain ⟨it, h1, h2, h3⟩ := new_good g
  obtain ⟨ys, h4, h5⟩ := drainTree_spec g dt it.range h2
  refine ⟨_, by rw [h1]; exact h4, ?_⟩
  have := consumed_sublist (cfg := cfg) ys
  rwa [h5, h3] at this

/-- The slot moves succeed in ANY order (any schedule of the leaves, any interleaving). -/
theorem takeSlots_any_order (hc : CfgOk cfg) (h : Inv cfg t) (l : List Nat) (hp : l.Perm t.fullList) :
    ∃ t', takeSlots l t = .ok (l.filterMap fun i => t.slots[i]?.join, t') ∧
      ∀ j : Nat, t'.slots[j]?.join = none := by
  have hnd : t.fullList.Nodup := (fullList_sorted t).imp (fun h => Nat.ne_of_lt h)
  obtain ⟨t', h1, h2, h3⟩ := takeSlots_ok l t (hp.nodup_iff.2 hnd)
    (fun i hi => live_of_full hc h (hp.mem_iff.1 hi))
  refine ⟨t', h1, fun j => ?_⟩
  rw [h3 j]
  split
  · rfl
  · rename_i hj
    have hnf : j ∉ t.fullList := fun hm => hj (hp.mem_iff.2 hm)
    cases hx : t.slots[j]?.join with
    | none => rfl
    | some e =>
      exfalso
      have hlt : j < t.slots.size := by
        refine Nat.lt_of_not_le fun hle => ?_
        rw [Array.getElem?_eq_none hle] at hx; simp at hx
      have hf := (h.live j hlt).1 (by rw [hx]; rfl)
      apply hnf
      rw [mem_fullList]
      refine ⟨?_, hf⟩
      rcases h.geom with hg | hg
      · rw [hg.2.2.2.1] at hlt; simp at hlt
      · have := hg.2.2.2.1; omega

/-! ### 4. order (`par_extend`, `from_par_iter`, `collect`) -/

/-- 4. Proved: for every tree, the leaves concatenated left to right are the sequential iteration
    (`RawIter::next` until `None`), which is ascending in bucket index.
    Trusted: rayon's `fold`/`map`/`reduce` over an `UnindexedProducer` combines per-leaf results
    in left-to-right leaf order (`helpers::collect` appends the per-leaf vectors with
    `LinkedList::append` in the reducer), so `par_extend` of a collected parallel iterator over a
    hashbrown collection receives the elements in sequential iteration order. -/
theorem par_extend_order (hc : CfgOk cfg) (h : Inv cfg t) (tr : Tree) :
    ∃ ls it, splitLeaves cfg t tr = .ok ls ∧ RawIter.new cfg t = .ok it ∧
      RawIter.drainAll cfg t (t.buckets + 2) it [] = .ok ls.flatten ∧
      ls.flatten.Pairwise (· < ·) := by
  obtain ⟨ls, h1, h2⟩ := splitTree_exact hc h tr
  obtain ⟨it, h3, _⟩ := rawIter_new_ok hc h
  exact ⟨ls, it, h1, h3, by rw [h2]; exact rawIter_drainAll_spec hc h it h3,
    by rw [h2]; exact fullList_sorted t⟩

/-! ### non-vacuity: concrete tables (SSE2 scanner, `W = 16`) -/

/-- Control bytes of a table with `n ≥ 16` buckets: `full` lists `(bucket, tag)`, `del` the
    tombstones; the trailing 16 bytes mirror the first group. -/
def mkCtrl (n : Nat) (full : List (Nat × Nat)) (del : List Nat) : Array Nat :=
  let byte (i : Nat) : Nat :=
    match full.find? (·.1 == i) with
    | some (_, tag) => tag
    | none => if del.contains i then DELETED else EMPTY
  ((List.range n).map byte ++ (List.range 16).map byte).toArray

def mkSlots (n : Nat) (full : List (Nat × Nat)) : Array (Option Elem) :=
  ((List.range n).map fun i =>
    match full.find? (·.1 == i) with
    | some (_, tag) => some ⟨100 + i, i, 1000 + i, tag⟩
    | none => none).toArray

/-- 32 buckets (two groups): full buckets 1, 4, 17, 20, 31, a tombstone at 9. -/
def table32 : Raw :=
  let full := [(1, 5), (4, 17), (17, 100), (20, 3), (31, 127)]
  { mask := 31, ctrl := mkCtrl 32 full [9], slots := mkSlots 32 full, items := 5, gl := 22, alloc := true }

/-- 64 buckets (four groups): full buckets in every group, group 2 (`32..48`) holds only a tombstone. -/
def table64 : Raw :=
  let full := [(0, 1), (15, 2), (16, 3), (30, 4), (48, 5), (63, 6)]
  { mask := 63, ctrl := mkCtrl 64 full [40], slots := mkSlots 64 full, items := 6, gl := 49, alloc := true }

def sse : Cfg := { ops := Sse2.ops }
def tree3 : Tree := .node (.node .leaf .leaf) .leaf

example : invB sse table32 = true := by decide +kernel
example : invB sse table64 = true := by decide +kernel
example : table32.fullList = [1, 4, 17, 20, 31] := by decide +kernel
-- a 32-bucket table has one group after the current one: the root splits into (group 0 | group 1),
-- the left half cannot be split again and is consumed as a leaf although the tree says `node`
example : splitLeaves sse table32 tree3 = .ok [[1, 4], [17, 20, 31]] := by rfl
example : splitLeaves sse table32 .leaf = .ok [[1, 4, 17, 20, 31]] := by rfl
-- 64 buckets: root = (groups 0,1 | groups 2,3), left child = (group 0 | group 1): three leaves
example : splitLeaves sse table64 tree3 = .ok [[0, 15], [16, 30], [48, 63]] := by rfl
example : splitLeaves sse table64 (.node .leaf (.node .leaf .leaf)) =
    .ok [[0, 15, 16, 30], [], [48, 63]] := by rfl
-- `par_drain` with early stops: leaf 0 consumes one element and drops one, leaf 1 is dropped
-- unconsumed, leaf 2 is never full
example : (drainLeaves sse table64 (.node (.node (.leaf 1) (.leaf 0)) (.leaf 9))).map (·.1) =
    .ok [⟨[0], [15]⟩, ⟨[], [16, 30]⟩, ⟨[48, 63], []⟩] := by rfl
example : ((drainLeaves sse table64 (.node (.node (.leaf 1) (.leaf 0)) (.leaf 9))).map
    fun r => (r.2.1.map (·.kid), invB sse r.2.2, r.2.2.items, r.2.2.gl, r.2.2.mask)) =
    .ok ([0, 15, 16, 30, 48, 63], true, 0, 56, 63) := by rfl

#print axioms split_partition
#print axioms splitTree_exact
#print axioms splitTree_perm
#print axioms parDrain_ledger
#print axioms parDrain_consumed
#print axioms takeSlots_any_order
#print axioms par_extend_order

end Hb.Par
