/-
C08 / C12 / C13 for `HashSet` (pairs of sets, `Hb/Model/SetOps.lean`) and `HashTable`
(`Hb/Model/TableOpsH.lean`) histories — EVERY environment (arbitrary, call-number dependent `Hash` /
`Eq` / `Clone` / predicate answers, any callback or destructor may panic, the allocator may refuse;
for the table the hashes supplied by the caller and the re-hash closure are arbitrary), `CfgOk cfg`,
`GuardRuns cfg` (the F1 repair or drop glue).

§0 `tc_CapStep`: what one churn call may do to the capacity.
§1 `HashTable`, C13: per call `tc_fofis`, `tc_findElem_K`, `tc_findMut_K`, `tc_insertUnique_S`,
   `tc_findEntryRemove_K`, `tc_entryInsert_S`, `tc_entryOrInsert_S`, `tc_entryAndModify_S`,
   `tc_retain_K`, `tc_extractIf_K`, `tc_clear_K`, `tc_drain`, `tc_getManyMut_K`; `TableChurnOp`,
   `tc_stepH`, `table_grow_step_bound`; `Table.runHPeak`, `tc_run_bound`, `table_churn_bound`
   (`capacity ≤ max 14 (4 * peak)`), `table_churn_bound_prefix`, `_n`, `_buckets`, `_buckets_rel`,
   `_bytes`; `tc_buckets_bytes_of_cap` (shared with sets).
§2 C08: `clear_keeps_allocation`, `drain_keeps_allocation`, `with_capacity_zero_allocates_nothing`,
   `shrink_never_enlarges` (function level = HashMap / HashSet / HashTable); on the calls of the
   history models `table_reserve_step`, `table_shrink_step`, `table_clear_step`, `table_drain_step`,
   `set_reserve_call`, `set_shrink_call`, `set_clear_call`; `table_states_TInv`, `set_states_TInv`
   (every reachable state satisfies the hypothesis of the per-state clauses).
§3 `HashSet`, one call: `sc_*_S` / `sc_*_K` per function, `sc_bitorAssign`, `sc_bitxorAssign`
   (`sc_CapStepN`: a `|=` / `^=` call accounts for `len(self) + len(rhs)` live elements),
   `SetChurnOp`, `Set.opExtra`, `sc_call`.
§4 pairs and histories: `sc_step2`, `Set.run2Peak`, `sc_run_bound`, `set_churn_bound`, `_n`, `_bytes`.
§5 termination (`table_find_terminates`, `set_lookup_terminates`), C12 in every reachable state
   (`table_try_reserve_in_history`, `set_try_reserve_in_history`; the set / table models have no
   `try_reserve` of their own: it is `RawTable::try_reserve` = `Hb.tryReserve`).
§6 evaluated workloads.

Findings. (1) `drain`: when a destructor panics inside `Drain::drop`, or the `Drain` is forgotten,
the collection is left with the unallocated singleton and the block is leaked (not freed): "drain
keeps the allocation" holds on the normal path only (`drain_keeps_allocation` states all three
paths). (2) `a ^= &b` removes and inserts inside ONE call, so the live size during the call can
exceed the size before and after it; `a |= &b` inserts up to `len(b)` elements through as many
`reserve(1)`. The set peak `Set.run2Peak` therefore counts `len(a) + len(b)` for the state such a
call is issued in; with that accounting both operators are churn calls (they do not use `extend`'s
size-hint reservation).
-/
import Hb.Proofs.SetTableSafe
import Hb.Proofs.ChurnX
import Hb.Proofs.LedgerPanic
namespace Hb

variable {cfg : Cfg}

/-! ## 0. the step relation used for whole calls -/

/-- What one churn call may do to the capacity: it stays below the larger of the old capacity and
    `max 14 (4 * len)` (`len` taken BEFORE the call). Implied by `ch_MaskStep` (`ch_maskStep_bound`);
    also satisfied by calls that leave a smaller table (`drain` leaves `new()` when the `Drain` is
    forgotten or a destructor panics). -/
def tc_CapStep (t t' : Raw) : Prop :=
  bucketMaskToCapacity t'.mask ≤ max (bucketMaskToCapacity t.mask) (max 14 (4 * t.items))

theorem tc_CapStep.of_maskStep {t t' : Raw} (hinv : Inv cfg t) (h : ch_MaskStep cfg t t') :
    tc_CapStep t t' := ch_maskStep_bound hinv h

theorem tc_CapStep.of_mask_eq {t t' : Raw} (h : t'.mask = t.mask) : tc_CapStep t t' := by
  unfold tc_CapStep; rw [h]; omega

theorem tc_CapStep.of_new {t : Raw} (W : Nat) : tc_CapStep t (Raw.new W) := by
  unfold tc_CapStep; simp [Raw.new, bucketMaskToCapacity]

/-! ## 1. `HashTable`: one call -/

section table
open Table

/-- `find_or_find_insert_slot`: safety facts (`st_fofis`) and geometry (`ch_fofis_mask`) together. -/
theorem tc_fofis (hc : CfgOk cfg) (hg : GuardRuns cfg) (env : Env) (hash q : Nat) (w : World)
    (h : TInv cfg w.t) :
    match findOrFindInsertSlot cfg env hash q w with
    | .ok (.ok idx, w') =>
      TInv cfg w'.t ∧ ch_MaskStep cfg w.t w'.t ∧ ∃ x, w'.t.slots[idx]?.join = some x
    | .ok (.error slot, w') =>
      TInv cfg w'.t ∧ ch_MaskStep cfg w.t w'.t ∧ slot < w'.t.buckets ∧
      isSpecial (w'.t.ctrlAt slot) = true ∧ 0 < w'.t.gl ∧ w'.t.alloc = true
    | .panic _ w' => TInv cfg w'.t ∧ ch_MaskStep cfg w.t w'.t
    | .abort => True
    | .fault _ => False := by
  have h1 := st_fofis hc hg env hash q w h
  have h2 := ch_fofis_mask hc hc.probe env hash q w h
  cases hr : findOrFindInsertSlot cfg env hash q w with
  | ok pr =>
    obtain ⟨r, w'⟩ := pr
    rw [hr] at h1 h2
    cases r with
    | ok idx => exact ⟨h1.1, h2, h1.2⟩
    | error slot => exact ⟨h1.1, h2, h1.2⟩
  | panic c w' => rw [hr] at h1 h2; exact ⟨h1, h2⟩
  | abort => trivial
  | fault f => rw [hr] at h1; exact h1.elim

/-- `HashTable::find`: the table is not touched. -/
theorem tc_findElem_K (hc : CfgOk cfg) (env : Env) (hash q : Nat) (w : World) (h : TInv cfg w.t) :
    cx_K cfg w.t.mask (·.2) (Table.findElem cfg env hash q w) := by
  rcases st_find hc env hash q w h.1 with ⟨r, w', k1, k2, k3⟩ | ⟨w', k1, k2⟩
  · cases r with
    | none =>
      simp only [Table.findElem, k1, bind, Res.bind, pure]
      show TInv cfg w'.t ∧ w'.t.mask = w.t.mask; rw [k2]; exact ⟨h, rfl⟩
    | some idx =>
      obtain ⟨x, hx⟩ := k3 idx rfl
      have hx' : w'.t.slots[idx]?.join = some x := by rw [k2]; exact hx
      simp only [Table.findElem, k1, bind, Res.bind, slotGet_ok hx', liftE, pure]
      show TInv cfg w'.t ∧ w'.t.mask = w.t.mask; rw [k2]; exact ⟨h, rfl⟩
  · simp only [Table.findElem, k1, bind, Res.bind]
    show TInv cfg w'.t ∧ w'.t.mask = w.t.mask; rw [k2]; exact ⟨h, rfl⟩

/-- `HashTable::find_mut` + a write through the reference. -/
theorem tc_findMut_K (hc : CfgOk cfg) (env : Env) (hash q nv : Nat) (w : World)
    (h : TInv cfg w.t) : cx_K cfg w.t.mask (·.2) (Table.findMut cfg env hash q nv w) := by
  rcases st_find hc env hash q w h.1 with ⟨r, w', k1, k2, k3⟩ | ⟨w', k1, k2⟩
  · cases r with
    | none =>
      simp only [Table.findMut, k1, bind, Res.bind, pure]
      show TInv cfg w'.t ∧ w'.t.mask = w.t.mask; rw [k2]; exact ⟨h, rfl⟩
    | some idx =>
      obtain ⟨x, hx⟩ := k3 idx rfl
      have hx' : w'.t.slots[idx]?.join = some x := by rw [k2]; exact hx
      simp only [Table.findMut, k1, bind, Res.bind, slotGet_ok hx', liftE, pure]
      exact ⟨en_slotSet_TInv (by rw [k2]; exact h) hx' _, by show w'.t.mask = w.t.mask; rw [k2]⟩
  · simp only [Table.findMut, k1, bind, Res.bind]
    show TInv cfg w'.t ∧ w'.t.mask = w.t.mask; rw [k2]; exact ⟨h, rfl⟩

/-- `HashTable::insert_unique` = `RawTable::insert`: the geometry changes only through its
    `reserve(1)`. Arbitrary `hash`, arbitrary re-hash closure. -/
theorem tc_insertUnique_S (hc : CfgOk cfg) (hg : GuardRuns cfg) (env : Env) (hash : Nat)
    (e : Elem) (w : World) (h : TInv cfg w.t) :
    cx_S cfg w.t id (Table.insertUnique cfg env hash e w) := by
  have hs := cx_insOwned_S hc hg env hash e w h
  unfold Table.insertUnique
  unfold Map.insOwned at hs
  cases hr : (rawInsert cfg env hash e w).onPanic (·.dropElemQuiet cfg e) with
  | ok pr => obtain ⟨i, w'⟩ := pr; rw [hr] at hs; exact hs
  | panic c w' => rw [hr] at hs; exact hs
  | abort => trivial
  | fault f => rw [hr] at hs; exact hs.elim

/-- `find_entry` + `OccupiedEntry::remove` (+ `VacantEntry::insert` into the freed bucket): no
    `reserve`, the bucket count is kept. -/
theorem tc_findEntryRemove_K (hc : CfgOk cfg) (env : Env) (hash q : Nat) (re : Option Elem)
    (w : World) (h : TInv cfg w.t) :
    cx_K cfg w.t.mask (·.2) (Table.findEntryRemove cfg env hash q re w) := by
  rcases find_total hc hc.probe env hash q w h.1 with ⟨r, w1, k1, k2, _, _, k5⟩ | ⟨w1, k1, k2, _⟩
  · cases r with
    | some idx =>
      obtain ⟨k3, k4, old0, k6⟩ := k5 idx rfl
      obtain ⟨old, t1, r1, r2, r3, r4, r5, r6, r7, r8, r9, r10⟩ := removeAt_inv hc h.1 k3 k4
      have hT1 : TInv cfg t1 := h.of_inv r3 r4
      cases re with
      | none =>
        simp only [Table.findEntryRemove, k1, Res.onPanic, k2, r1]
        exact ⟨hT1, r4⟩
      | some ne =>
        have ha := h.1.alloc_of_full hc k3 k4
        have hbk : t1.buckets = w.t.buckets := by simp only [Raw.buckets_eq, r4]
        have hsp : isSpecial (t1.ctrlAt idx) = true := by
          rcases r9 with r9 | r9 <;> rw [r9] <;> decide
        have hgl : t1.ctrlAt idx = EMPTY → 0 < t1.gl := by
          intro he; rw [r10, if_pos he]; omega
        obtain ⟨t2, b1, b2, b3, _⟩ :=
          ag_insertInSlot hc hT1 (by rw [r5, ha]) (by rw [hbk]; exact k3) hsp hgl ne hash
        simp only [Table.findEntryRemove, k1, Res.onPanic, k2, r1, b1]
        exact ⟨b2, b3.trans r4⟩
    | none =>
      cases re with
      | none =>
        simp only [Table.findEntryRemove, k1, Res.onPanic]
        show TInv cfg w1.t ∧ w1.t.mask = w.t.mask; rw [k2]; exact ⟨h, rfl⟩
      | some ne =>
        rcases ts_dropElemR (cfg := cfg) env ne w1 with ⟨w2, d1, d2⟩ | ⟨w2, d1, d2⟩
        · simp only [Table.findEntryRemove, k1, Res.onPanic, d1]
          show TInv cfg w2.t ∧ w2.t.mask = w.t.mask; rw [d2, k2]; exact ⟨h, rfl⟩
        · simp only [Table.findEntryRemove, k1, Res.onPanic, d1]
          show TInv cfg w2.t ∧ w2.t.mask = w.t.mask; rw [d2, k2]; exact ⟨h, rfl⟩
  · simp only [Table.findEntryRemove, k1, Res.onPanic]
    cases re with
    | none => show TInv cfg w1.t ∧ w1.t.mask = w.t.mask; rw [k2]; exact ⟨h, rfl⟩
    | some ne =>
      show TInv cfg (w1.dropElemQuiet cfg ne).t ∧ (w1.dropElemQuiet cfg ne).t.mask = w.t.mask
      rw [dropElemQuiet_t, k2]; exact ⟨h, rfl⟩

/-- `entry(..).insert(new)`: one `reserve(1)` (inside `entry`), then in-place writes. -/
theorem tc_entryInsert_S (hc : CfgOk cfg) (hg : GuardRuns cfg) (env : Env) (hash q : Nat)
    (ne : Elem) (w : World) (h : TInv cfg w.t) :
    cx_S cfg w.t (·.2) (Table.entryInsert cfg env hash q ne w) := by
  have hs := tc_fofis hc hg env hash q w h
  unfold Table.entryInsert Table.entry
  cases hr : findOrFindInsertSlot cfg env hash q w with
  | ok pr =>
    obtain ⟨r, w1⟩ := pr
    rw [hr] at hs
    cases r with
    | ok idx =>
      obtain ⟨a1, am, x, a2⟩ := hs
      simp only [Res.onPanic, slotGet_ok a2]
      have hupd : TInv cfg (Map.slotSet w1.t idx ne) := en_slotSet_TInv a1 a2 ne
      have hdt := st_dropElem_t (cfg := cfg) env x
        { w1 with t := { w1.t with slots := w1.t.slots.setIfInBounds idx (some ne) } }
      cases hd : dropElem cfg env x
          { w1 with t := { w1.t with slots := w1.t.slots.setIfInBounds idx (some ne) } } with
      | mk p w2 =>
        rw [hd] at hdt
        simp only at hdt
        have hfin : TInv cfg w2.t ∧ ch_MaskStep cfg w.t w2.t := by
          rw [hdt]; exact ⟨hupd, am.of_mask_eq rfl⟩
        cases p with
        | true => simp only [if_true]; exact hfin
        | false => simp only [Bool.false_eq_true, if_false]; exact hfin
    | error slot =>
      obtain ⟨a1, am, a2, a3, a4, a5⟩ := hs
      obtain ⟨t', b1, b2, b3, _⟩ := ag_insertInSlot hc a1 a5 a2 a3 (fun _ => a4) ne hash
      simp only [Res.onPanic, b1]
      exact ⟨b2, am.of_mask_eq b3⟩
  | panic c w' =>
    rw [hr] at hs
    simp only [Res.onPanic]
    show TInv cfg (w'.dropElemQuiet cfg ne).t ∧ ch_MaskStep cfg w.t (w'.dropElemQuiet cfg ne).t
    rw [dropElemQuiet_t]; exact hs
  | abort => trivial
  | fault f => rw [hr] at hs; exact hs.elim

/-- `entry(..).or_insert(new)`. -/
theorem tc_entryOrInsert_S (hc : CfgOk cfg) (hg : GuardRuns cfg) (env : Env) (hash q : Nat)
    (ne : Elem) (w : World) (h : TInv cfg w.t) :
    cx_S cfg w.t (·.2) (Table.entryOrInsert cfg env hash q ne w) := by
  have hs := tc_fofis hc hg env hash q w h
  unfold Table.entryOrInsert Table.entry
  cases hr : findOrFindInsertSlot cfg env hash q w with
  | ok pr =>
    obtain ⟨r, w1⟩ := pr
    rw [hr] at hs
    cases r with
    | ok idx =>
      obtain ⟨a1, am, x, a2⟩ := hs
      simp only [Res.onPanic]
      rcases ts_dropElemR (cfg := cfg) env ne w1 with ⟨w2, d1, d2⟩ | ⟨w2, d1, d2⟩
      · simp only [d1]; show TInv cfg w2.t ∧ ch_MaskStep cfg w.t w2.t; rw [d2]; exact ⟨a1, am⟩
      · simp only [d1]; show TInv cfg w2.t ∧ ch_MaskStep cfg w.t w2.t; rw [d2]; exact ⟨a1, am⟩
    | error slot =>
      obtain ⟨a1, am, a2, a3, a4, a5⟩ := hs
      obtain ⟨t', b1, b2, b3, _⟩ := ag_insertInSlot hc a1 a5 a2 a3 (fun _ => a4) ne hash
      simp only [Res.onPanic, b1]
      exact ⟨b2, am.of_mask_eq b3⟩
  | panic c w' =>
    rw [hr] at hs
    simp only [Res.onPanic]
    show TInv cfg (w'.dropElemQuiet cfg ne).t ∧ ch_MaskStep cfg w.t (w'.dropElemQuiet cfg ne).t
    rw [dropElemQuiet_t]; exact hs
  | abort => trivial
  | fault f => rw [hr] at hs; exact hs.elim

/-- `entry(..).and_modify(..)`; a vacant entry leaves the table as `reserve(1)` left it. -/
theorem tc_entryAndModify_S (hc : CfgOk cfg) (hg : GuardRuns cfg) (env : Env) (hash q nv : Nat)
    (w : World) (h : TInv cfg w.t) :
    cx_S cfg w.t (·.2) (Table.entryAndModify cfg env hash q nv w) := by
  have hs := tc_fofis hc hg env hash q w h
  unfold Table.entryAndModify Table.entry
  cases hr : findOrFindInsertSlot cfg env hash q w with
  | ok pr =>
    obtain ⟨r, w1⟩ := pr
    rw [hr] at hs
    cases r with
    | ok idx =>
      obtain ⟨a1, am, x, a2⟩ := hs
      simp only [bind, Res.bind, slotGet_ok a2, liftE, pure]
      exact ⟨en_slotSet_TInv a1 a2 _, am.of_mask_eq rfl⟩
    | error slot =>
      simp only [bind, Res.bind, pure]
      exact ⟨hs.1, hs.2.1⟩
  | panic c w' => rw [hr] at hs; simp only [bind, Res.bind]; exact hs
  | abort => simp only [bind, Res.bind]; trivial
  | fault f => rw [hr] at hs; exact hs.elim

/-- `retain`: erasures only. -/
theorem tc_retain_K (hc : CfgOk cfg) (env : Env) (w : World) (h : TInv cfg w.t) :
    cx_K cfg w.t.mask id (Map.retain cfg env w) := by
  have h1 := retain_spec hc env w h
  cases hr : Map.retain cfg env w with
  | ok w' => rw [hr] at h1; exact ⟨h1.1, hs_retain_mask env hr⟩
  | panic c w' => rw [hr] at h1; exact ⟨h1.1, lp_retain_mask_panic env hr⟩
  | abort => trivial
  | fault f => rw [hr] at h1; exact h1.elim

/-- `extract_if`: erasures only. -/
theorem tc_extractIf_K (hc : CfgOk cfg) (env : Env) (n : Nat) (w : World) (h : TInv cfg w.t) :
    cx_K cfg w.t.mask (·.2) (Map.extractIf cfg env n w) := by
  have h1 := extractIf_spec hc env n w h
  cases hr : Map.extractIf cfg env n w with
  | ok pr => obtain ⟨r, w'⟩ := pr; rw [hr] at h1; exact ⟨h1.1, hs_extractIf_mask env hr⟩
  | panic c w' => rw [hr] at h1; exact ⟨h1.2.1, lp_extractIf_mask_panic env hr⟩
  | abort => trivial
  | fault f => rw [hr] at h1; exact h1.elim

/-- `clear`: same allocation, on return and when a destructor panics. -/
theorem tc_clear_K (hc : CfgOk cfg) (env : Env) (w : World) (h : TInv cfg w.t) :
    cx_K cfg w.t.mask id (Hb.clear cfg env w) := by
  have h1 := clear_spec hc env w h
  cases hr : Hb.clear cfg env w with
  | ok w' => rw [hr] at h1; exact ⟨h1.1.1, h1.1.2.2.2.1⟩
  | panic c w' => rw [hr] at h1; exact ⟨h1.2.1.1, h1.2.1.2.2.2.1⟩
  | abort => trivial
  | fault f => rw [hr] at h1; exact h1.elim

/-- `drain`: the same allocation when the `Drain` is dropped normally; `new()` when it is forgotten
    or a destructor panics (the block is leaked, the collection holds the static singleton). -/
theorem tc_drain (hc : CfgOk cfg) (env : Env) (n : Nat) (fg : Bool) (w : World)
    (h : TInv cfg w.t) :
    match Map.drain cfg env n fg w with
    | .ok (_, w') => TInv cfg w'.t ∧ (w'.t.mask = w.t.mask ∨ w'.t = Raw.new cfg.W)
    | .panic _ w' => TInv cfg w'.t ∧ w'.t = Raw.new cfg.W
    | .abort => True
    | .fault _ => False := by
  have h1 := drain_spec hc env n fg w h
  cases hr : Map.drain cfg env n fg w with
  | ok pr =>
    obtain ⟨r, w'⟩ := pr
    rw [hr] at h1
    show TInv cfg w'.t ∧ (w'.t.mask = w.t.mask ∨ w'.t = Raw.new cfg.W)
    cases fg with
    | true => rw [h1.2.2.1 rfl]; exact ⟨TInv.new hc, Or.inr rfl⟩
    | false => exact ⟨(h1.2.2.2 rfl).1.2.1, Or.inl (h1.2.2.2 rfl).1.2.2.2.2.1⟩
  | panic c w' =>
    rw [hr] at h1
    show TInv cfg w'.t ∧ w'.t = Raw.new cfg.W
    rw [h1.2.2.1]; exact ⟨TInv.new hc, rfl⟩
  | abort => trivial
  | fault f => rw [hr] at h1; exact h1.elim

/-- `get_many_mut`: look-ups and in-place writes. -/
theorem tc_getManyMut_K (hc : CfgOk cfg) (env : Env) (any : Bool) (reqs : List (Nat × Nat))
    (w : World) (h : TInv cfg w.t) :
    cx_K cfg w.t.mask (·.2) (Table.getManyMut cfg env any reqs w) := by
  unfold Table.getManyMut
  rcases ts_getManyLoop_spec hc hc.probe env any w.t h.1 reqs w [] rfl with
    ⟨idxs, w1, a1, a2, a3, a4, a5⟩ | ⟨w', a1, a2, a3, a4⟩
  · simp only [List.reverse_nil, List.nil_append] at a1
    rw [a1]
    by_cases hd : Table.hasDup cfg idxs = true
    · simp only [hd, if_true]
      show TInv cfg w1.t ∧ w1.t.mask = w.t.mask; rw [a2]; exact ⟨h, rfl⟩
    · have hnd := st_hasDup_false cfg idxs (by simpa using hd)
      simp only [hd]
      obtain ⟨out, s', b1, b2, b3, _⟩ :=
        ts_go_spec cfg idxs 0 w.t [] h.1 (fun idx hidx => (a5 idx hidx).2.2) hnd
      simp only [List.reverse_nil, List.nil_append] at b1
      rw [a2, b1]
      exact ⟨h.of_inv b3 rfl, rfl⟩
  · rw [a1]
    show TInv cfg w'.t ∧ w'.t.mask = w.t.mask; rw [a2]; exact ⟨h, rfl⟩

/-! ### one call of `HashTable` -/

/-- The calls of a `HashTable` churn workload: everything except the explicit reservations
    `reserve` and `shrink_to` / `shrink_to_fit`. `insert_unique` and `entry` are allowed — their
    internal `reserve(1)` is the growth the property is about. -/
def TableChurnOp : TableOp → Prop
  | .reserve _ => False
  | .shrinkTo _ => False
  | _ => True

instance : DecidablePred TableChurnOp := fun op => by
  cases op <;> simp only [TableChurnOp] <;> infer_instance

/-- Outcome of one `HashTable` call relative to the table `t` it started from. -/
def tc_SH (cfg : Cfg) (t : Raw) : Res (TRet × World) → Prop
  | .ok (_, w') => TInv cfg w'.t ∧ tc_CapStep t w'.t
  | .panic _ w' => TInv cfg w'.t ∧ tc_CapStep t w'.t
  | .abort => True
  | .fault _ => False

theorem tc_of_S {α : Type} (g : α → TRet) {t : Raw} (hinv : Inv cfg t) {r : Res (α × World)}
    (h : cx_S cfg t (·.2) r) : tc_SH cfg t (st_mapRes g r) := by
  cases r with
  | ok pr => obtain ⟨x, w'⟩ := pr; exact ⟨h.1, tc_CapStep.of_maskStep hinv h.2⟩
  | panic c w' => exact ⟨h.1, tc_CapStep.of_maskStep hinv h.2⟩
  | abort => trivial
  | fault f => exact h.elim

theorem tc_of_SU {t : Raw} (hinv : Inv cfg t) {r : Res World}
    (h : cx_S cfg t id r) : tc_SH cfg t (st_mapResU TRet.unit r) := by
  cases r with
  | ok w' => exact ⟨h.1, tc_CapStep.of_maskStep hinv h.2⟩
  | panic c w' => exact ⟨h.1, tc_CapStep.of_maskStep hinv h.2⟩
  | abort => trivial
  | fault f => exact h.elim

theorem tc_of_K {α : Type} (g : α → TRet) {t : Raw} {r : Res (α × World)}
    (h : cx_K cfg t.mask (·.2) r) : tc_SH cfg t (st_mapRes g r) := by
  cases r with
  | ok pr => obtain ⟨x, w'⟩ := pr; exact ⟨h.1, tc_CapStep.of_mask_eq h.2⟩
  | panic c w' => exact ⟨h.1, tc_CapStep.of_mask_eq h.2⟩
  | abort => trivial
  | fault f => exact h.elim

theorem tc_of_KU {t : Raw} {r : Res World}
    (h : cx_K cfg t.mask id r) : tc_SH cfg t (st_mapResU TRet.unit r) := by
  cases r with
  | ok w' => exact ⟨h.1, tc_CapStep.of_mask_eq h.2⟩
  | panic c w' => exact ⟨h.1, tc_CapStep.of_mask_eq h.2⟩
  | abort => trivial
  | fault f => exact h.elim

theorem tc_SH.of_eq {t : Raw} {r r2 : Res (TRet × World)} (h : tc_SH cfg t r) (heq : r2 = r) :
    tc_SH cfg t r2 := heq ▸ h

/-- `stepH … = st_mapRes g (f …)` for the branch at hand. -/
macro "tc_eq " t:term : tactic =>
  `(tactic| (simp only [Table.stepH]; generalize $t = r; cases r <;> rfl))

/-- **One `HashTable` churn call** (returned or unwound), every environment, every caller-supplied
    hash: the table stays valid and its capacity stays below the larger of the old capacity and
    `max 14 (4 * len)`. -/
theorem tc_stepH (hc : CfgOk cfg) (hg : GuardRuns cfg) (env : Env) (op : TableOp)
    (hop : TableChurnOp op) (w : World) (h : TInv cfg w.t) :
    tc_SH cfg w.t (Table.stepH cfg env op w) := by
  cases op with
  | find hash q =>
    exact (tc_of_K .elem (tc_findElem_K hc (envFor cfg env) hash q w h)).of_eq
      (by tc_eq (findElem cfg (envFor cfg env) hash q w))
  | findMut hash q nv =>
    exact (tc_of_K .elem (tc_findMut_K hc (envFor cfg env) hash q nv w h)).of_eq
      (by tc_eq (findMut cfg (envFor cfg env) hash q nv w))
  | insertUnique hash e =>
    exact (tc_of_SU h.1 (tc_insertUnique_S hc hg (envFor cfg env) hash e w h)).of_eq
      (by tc_eq (insertUnique cfg (envFor cfg env) hash e w))
  | findEntryRemove hash q re =>
    exact (tc_of_K .elem (tc_findEntryRemove_K hc (envFor cfg env) hash q re w h)).of_eq
      (by tc_eq (findEntryRemove cfg (envFor cfg env) hash q re w))
  | entryInsert hash q ne =>
    exact (tc_of_S .occ h.1 (tc_entryInsert_S hc hg (envFor cfg env) hash q ne w h)).of_eq
      (by tc_eq (entryInsert cfg (envFor cfg env) hash q ne w))
  | entryOrInsert hash q ne =>
    exact (tc_of_S .occ h.1 (tc_entryOrInsert_S hc hg (envFor cfg env) hash q ne w h)).of_eq
      (by tc_eq (entryOrInsert cfg (envFor cfg env) hash q ne w))
  | entryAndModify hash q nv =>
    exact (tc_of_S .occ h.1 (tc_entryAndModify_S hc hg (envFor cfg env) hash q nv w h)).of_eq
      (by tc_eq (entryAndModify cfg (envFor cfg env) hash q nv w))
  | retain =>
    exact (tc_of_KU (tc_retain_K hc (envFor cfg env) w h)).of_eq
      (by tc_eq (Map.retain cfg (envFor cfg env) w))
  | extractIf n =>
    exact (tc_of_K .elems (tc_extractIf_K hc (envFor cfg env) n w h)).of_eq
      (by tc_eq (Map.extractIf cfg (envFor cfg env) n w))
  | drain n fg =>
    have hd := tc_drain hc (envFor cfg env) n fg w h
    simp only [Table.stepH]
    cases hr : Map.drain cfg (envFor cfg env) n fg w with
    | ok pr =>
      obtain ⟨l, w'⟩ := pr
      rw [hr] at hd
      refine ⟨hd.1, ?_⟩
      rcases hd.2 with hm | hn
      · exact tc_CapStep.of_mask_eq hm
      · rw [hn]; exact tc_CapStep.of_new _
    | panic c w' =>
      rw [hr] at hd
      refine ⟨hd.1, ?_⟩
      rw [hd.2]; exact tc_CapStep.of_new _
    | abort => trivial
    | fault f => rw [hr] at hd; exact hd.elim
  | clear =>
    exact (tc_of_KU (tc_clear_K hc (envFor cfg env) w h)).of_eq
      (by tc_eq (Hb.clear cfg (envFor cfg env) w))
  | reserve n => exact hop.elim
  | shrinkTo m => exact hop.elim
  | getManyMut any reqs =>
    exact (tc_of_K .many (tc_getManyMut_K hc (envFor cfg env) any reqs w h)).of_eq
      (by tc_eq (getManyMut cfg (envFor cfg env) any reqs w))
  | iterHash hash =>
    obtain ⟨l, hl, _⟩ := Table.iterHash_spec hc hc.probe h.1 hash
    simp only [Table.stepH, hl]
    exact ⟨h, tc_CapStep.of_mask_eq rfl⟩
  | iter p =>
    simp only [Table.stepH, iterObserve_spec hc h.1 p]
    exact ⟨h, tc_CapStep.of_mask_eq rfl⟩
  | len => exact ⟨h, tc_CapStep.of_mask_eq rfl⟩

/-- One `HashTable` churn call in the shape of `grow_step_bound_sharp`. -/
theorem table_grow_step_bound (hc : CfgOk cfg) (hg : GuardRuns cfg) (env : Env) (op : TableOp)
    (hop : TableChurnOp op) (w : World) (h : TInv cfg w.t) :
    match Table.stepH cfg env op w with
    | .ok (_, w') =>
      TInv cfg w'.t ∧ bucketMaskToCapacity w'.t.mask ≤
        max (bucketMaskToCapacity w.t.mask) (max 14 (4 * w.t.items))
    | .panic _ w' =>
      TInv cfg w'.t ∧ bucketMaskToCapacity w'.t.mask ≤
        max (bucketMaskToCapacity w.t.mask) (max 14 (4 * w.t.items))
    | .abort => True
    | .fault _ => False := by
  have hs := tc_stepH hc hg env op hop w h
  cases hr : Table.stepH cfg env op w with
  | ok pr => obtain ⟨r, w'⟩ := pr; rw [hr] at hs; exact hs
  | panic c w' => rw [hr] at hs; exact hs
  | abort => trivial
  | fault f => rw [hr] at hs; exact hs.elim

end table

/-! ### histories of `HashTable` calls -/

/-- Peak live size of a `HashTable` history: the maximum of `len()` over all the worlds the run goes
    through (start, after every call — returned or unwound —, end). -/
def Table.runHPeak (cfg : Cfg) (env : Env) : List TableOp → World → Nat
  | [], w => w.t.items
  | op :: rest, w =>
    match Table.stepH cfg env op w with
    | .ok (_, w') => max w.t.items (Table.runHPeak cfg env rest w')
    | .panic _ w' => max w.t.items (Table.runHPeak cfg env rest w')
    | .abort => w.t.items
    | .fault _ => w.t.items

theorem Table.runHPeak_ge_start (env : Env) (ops : List TableOp) (w : World) :
    w.t.items ≤ Table.runHPeak cfg env ops w := by
  cases ops with
  | nil => exact Nat.le_refl _
  | cons op rest =>
    unfold Table.runHPeak
    split <;> omega

/-- `runHPeak` is the maximum of `len()` over `Table.statesH` (the worlds after every prefix). -/
theorem Table.runHPeak_ge_states (env : Env) : ∀ (ops : List TableOp) (w : World),
    ∀ w' ∈ Table.statesH cfg env ops w, w'.t.items ≤ Table.runHPeak cfg env ops w := by
  intro ops
  induction ops with
  | nil =>
    intro w w' hw'
    simp only [Table.statesH, List.mem_singleton] at hw'
    rw [hw']; exact Nat.le_refl _
  | cons op rest ih =>
    intro w w' hw'
    simp only [Table.statesH, Table.runHPeak] at hw' ⊢
    cases hs : Table.stepH cfg env op w with
    | ok pr =>
      obtain ⟨r, w1⟩ := pr
      rw [hs] at hw'
      simp only at hw' ⊢
      rcases List.mem_cons.mp hw' with rfl | hw'
      · omega
      · have := ih w1 w' hw'; omega
    | panic c w1 =>
      rw [hs] at hw'
      simp only at hw' ⊢
      rcases List.mem_cons.mp hw' with rfl | hw'
      · omega
      · have := ih w1 w' hw'; omega
    | abort =>
      rw [hs] at hw'
      simp only [List.mem_singleton] at hw' ⊢
      rw [hw']
    | fault f =>
      rw [hs] at hw'
      simp only [List.mem_singleton] at hw' ⊢
      rw [hw']

/-- Induction behind `table_churn_bound`, from an arbitrary valid start. `P` is the peak "so far". -/
theorem tc_run_bound (hc : CfgOk cfg) (hg : GuardRuns cfg) (env : Env)
    (ops : List TableOp) (hops : ∀ op ∈ ops, TableChurnOp op) (w0 : World) (P : Nat)
    (h0 : TInv cfg w0.t) (hb : bucketMaskToCapacity w0.t.mask ≤ max 14 (4 * P))
    (obs : List Table.TObs) (w : World) (hrun : Table.runH cfg env ops w0 = some (obs, w)) :
    TInv cfg w.t ∧
    bucketMaskToCapacity w.t.mask ≤ max 14 (4 * max P (Table.runHPeak cfg env ops w0)) := by
  induction ops generalizing w0 P obs with
  | nil =>
    simp only [Table.runH, Option.some.injEq, Prod.mk.injEq] at hrun
    rw [← hrun.2]
    exact ⟨h0, by omega⟩
  | cons op rest ih =>
    have hst := tc_stepH hc hg env op (hops op (List.mem_cons_self ..)) w0 h0
    have hrest : ∀ op ∈ rest, TableChurnOp op := fun o ho => hops o (List.mem_cons_of_mem _ ho)
    simp only [Table.runH] at hrun
    simp only [Table.runHPeak]
    cases hs : Table.stepH cfg env op w0 with
    | ok pr =>
      obtain ⟨r, w1⟩ := pr
      rw [hs] at hrun hst
      simp only [Option.map_eq_some_iff] at hrun
      obtain ⟨⟨os, wf⟩, hr, heq⟩ := hrun
      simp only [Prod.mk.injEq] at heq
      have hb1 : bucketMaskToCapacity w1.t.mask ≤ _ := hst.2
      have := ih hrest w1 (max P w0.t.items) hst.1 (by omega) os (by rw [hr, heq.2])
      refine ⟨this.1, ?_⟩
      have h2 := this.2
      simp only
      omega
    | panic c w1 =>
      rw [hs] at hrun hst
      simp only [Option.map_eq_some_iff] at hrun
      obtain ⟨⟨os, wf⟩, hr, heq⟩ := hrun
      simp only [Prod.mk.injEq] at heq
      have hb1 : bucketMaskToCapacity w1.t.mask ≤ _ := hst.2
      have := ih hrest w1 (max P w0.t.items) hst.1 (by omega) os (by rw [hr, heq.2])
      refine ⟨this.1, ?_⟩
      have h2 := this.2
      simp only
      omega
    | abort => rw [hs] at hrun; cases hrun
    | fault f => rw [hs] at hrun; cases hrun

/-- **C13 for `HashTable`, capacity form.** From `HashTable::new()`, after any history of
    `insert_unique`, `entry` + `insert` / `or_insert` / `and_modify`, `find_entry` + `remove`
    (+ re-insertion), `retain`, `extract_if`, `drain`, `clear`, look-ups, `get_many_mut`,
    `iter_hash`, `iter`, `len` (no `reserve`, no `shrink_to`) — EVERY environment (arbitrary `eq` /
    re-hash closures, destructors, allocator; panics caught and the history continued), EVERY
    caller-supplied hash — the capacity is at most `max 14 (4 * peak)`, `peak` = the largest `len()`
    ever reached. -/
theorem table_churn_bound (hc : CfgOk cfg) (hg : GuardRuns cfg) (env : Env)
    (ops : List TableOp) (hops : ∀ op ∈ ops, TableChurnOp op) (w0 : World)
    (h0 : w0.t = Raw.new cfg.W) (obs : List Table.TObs) (w : World)
    (hrun : Table.runH cfg env ops w0 = some (obs, w)) :
    TInv cfg w.t ∧
    bucketMaskToCapacity w.t.mask ≤ max 14 (4 * Table.runHPeak cfg env ops w0) := by
  have hT : TInv cfg w0.t := by rw [h0]; exact TInv.new hc
  have hb : bucketMaskToCapacity w0.t.mask ≤ max 14 (4 * 0) := by
    rw [h0]; simp [Raw.new, bucketMaskToCapacity]
  have := tc_run_bound hc hg env ops hops w0 0 hT hb obs w hrun
  refine ⟨this.1, ?_⟩
  have h2 := this.2
  omega

/-- The prefix of a run that returns also returns. -/
theorem tc_runH_prefix (env : Env) : ∀ (pre post : List TableOp) (w0 : World) (obs : List Table.TObs)
    (w : World), Table.runH cfg env (pre ++ post) w0 = some (obs, w) →
    ∃ obs1 wm, Table.runH cfg env pre w0 = some (obs1, wm) ∧
      Table.runHPeak cfg env pre w0 ≤ Table.runHPeak cfg env (pre ++ post) w0 := by
  intro pre
  induction pre with
  | nil =>
    intro post w0 obs w _
    exact ⟨[], w0, rfl, Table.runHPeak_ge_start env _ _⟩
  | cons op rest ih =>
    intro post w0 obs w hrun
    simp only [List.cons_append, Table.runH, Table.runHPeak] at hrun ⊢
    cases hs : Table.stepH cfg env op w0 with
    | ok pr =>
      obtain ⟨r, w1⟩ := pr
      rw [hs] at hrun
      simp only [Option.map_eq_some_iff] at hrun
      obtain ⟨⟨os, wf⟩, hr, _⟩ := hrun
      obtain ⟨obs1, wm, h1, h2⟩ := ih post w1 os wf hr
      exact ⟨_, wm, by simp only [h1]; rfl, by simp only; omega⟩
    | panic c w1 =>
      rw [hs] at hrun
      simp only [Option.map_eq_some_iff] at hrun
      obtain ⟨⟨os, wf⟩, hr, _⟩ := hrun
      obtain ⟨obs1, wm, h1, h2⟩ := ih post w1 os wf hr
      exact ⟨_, wm, by simp only [h1]; rfl, by simp only; omega⟩
    | abort => rw [hs] at hrun; cases hrun
    | fault f => rw [hs] at hrun; cases hrun

/-- The bound holds at every intermediate point of the history ("never exceeds"): after every
    prefix, against the peak of the WHOLE history. -/
theorem table_churn_bound_prefix (hc : CfgOk cfg) (hg : GuardRuns cfg) (env : Env)
    (pre post : List TableOp) (hops : ∀ op ∈ pre ++ post, TableChurnOp op) (w0 : World)
    (h0 : w0.t = Raw.new cfg.W) (obs : List Table.TObs) (w : World)
    (hrun : Table.runH cfg env (pre ++ post) w0 = some (obs, w)) :
    ∃ obs1 wm, Table.runH cfg env pre w0 = some (obs1, wm) ∧ TInv cfg wm.t ∧
      bucketMaskToCapacity wm.t.mask ≤ max 14 (4 * Table.runHPeak cfg env (pre ++ post) w0) := by
  obtain ⟨obs1, wm, h1, h2⟩ := tc_runH_prefix env pre post w0 obs w hrun
  have h3 := table_churn_bound hc hg env pre (fun op ho => hops op (List.mem_append_left _ ho))
    w0 h0 obs1 wm h1
  exact ⟨obs1, wm, h1, h3.1, by have := h3.2; omega⟩

/-- The same with the workload's bound `n` on the live size. -/
theorem table_churn_bound_n (hc : CfgOk cfg) (hg : GuardRuns cfg) (env : Env)
    (ops : List TableOp) (hops : ∀ op ∈ ops, TableChurnOp op) (w0 : World)
    (h0 : w0.t = Raw.new cfg.W) (obs : List Table.TObs) (w : World)
    (hrun : Table.runH cfg env ops w0 = some (obs, w))
    (n : Nat) (hn : Table.runHPeak cfg env ops w0 ≤ n) :
    bucketMaskToCapacity w.t.mask ≤ max 14 (4 * n) := by
  have := (table_churn_bound hc hg env ops hops w0 h0 obs w hrun).2
  omega

/-! ### from a capacity bound to buckets and bytes (shared by tables and sets) -/

/-- Any valid table whose capacity is at most `max 14 (4 * p)` with `p ≤ n`, `n ≥ 1`: at most four
    times the buckets `with_capacity(n)` would allocate (`b`), `allocation_size()` at most four times
    the size of that block and at most the size of a block of `4 * b` buckets. -/
theorem tc_buckets_bytes_of_cap (hc : CfgOk cfg) {t : Raw} (hT : TInv cfg t) {p n b : Nat}
    (hC : bucketMaskToCapacity t.mask ≤ max 14 (4 * p)) (hn : n ≠ 0) (hpk : p ≤ n)
    (hb : capacityToBuckets cfg.bits cfg.W cfg.size n = some b) :
    t.buckets ≤ max 16 (32 * p / 7) ∧ t.buckets ≤ 4 * b ∧
    ∃ s, allocationSize cfg t = .ok s ∧
      (∀ l, calculateLayoutFor cfg.bits cfg.W cfg.size (ctrlAlignOf cfg) b = some l →
        s ≤ 4 * l.size) ∧
      (∀ L, calculateLayoutFor cfg.bits cfg.W cfg.size (ctrlAlignOf cfg) (4 * b) = some L →
        s ≤ L.size) := by
  have h1 := ch_buckets_of_cap hT.1 hC
  have h2 := ch_rel_arith hc.bits hn hb
  have h3 : 32 * p / 7 ≤ 32 * n / 7 := Nat.div_le_div_right (Nat.mul_le_mul_left 32 hpk)
  have hbk : t.buckets ≤ 4 * b := by omega
  refine ⟨h1, hbk, _, allocationSize_spec hT, ?_, ?_⟩
  · intro l hl
    cases ha : t.alloc with
    | false => simp
    | true =>
      simp only [if_true]
      have hlo := hT.2 ha
      cases hcl : calculateLayoutFor cfg.bits cfg.W cfg.size (ctrlAlignOf cfg) t.buckets with
      | none => rw [hcl] at hlo; cases hlo
      | some l1 =>
        rw [layoutOf_eq hcl]
        exact ch_layout_size_le_mul (ch_ctrlAlign_pos hc) hbk hcl hl
  · intro L hL
    cases ha : t.alloc with
    | false => simp
    | true =>
      simp only [if_true]
      have hlo := hT.2 ha
      cases hcl : calculateLayoutFor cfg.bits cfg.W cfg.size (ctrlAlignOf cfg) t.buckets with
      | none => rw [hcl] at hlo; cases hlo
      | some l1 =>
        rw [layoutOf_eq hcl]
        exact layout_size_mono hbk hcl hL

/-- **C13 for `HashTable`, bucket-count form.** `buckets ≤ max 16 (32 * peak / 7)`. -/
theorem table_churn_bound_buckets (hc : CfgOk cfg) (hg : GuardRuns cfg) (env : Env)
    (ops : List TableOp) (hops : ∀ op ∈ ops, TableChurnOp op) (w0 : World)
    (h0 : w0.t = Raw.new cfg.W) (obs : List Table.TObs) (w : World)
    (hrun : Table.runH cfg env ops w0 = some (obs, w)) :
    w.t.buckets ≤ max 16 (32 * Table.runHPeak cfg env ops w0 / 7) := by
  obtain ⟨hT, hb⟩ := table_churn_bound hc hg env ops hops w0 h0 obs w hrun
  exact ch_buckets_of_cap hT.1 hb

/-- **C13 for `HashTable`, relative form: the fixed multiple is 4.** -/
theorem table_churn_bound_buckets_rel (hc : CfgOk cfg) (hg : GuardRuns cfg) (env : Env)
    (ops : List TableOp) (hops : ∀ op ∈ ops, TableChurnOp op) (w0 : World)
    (h0 : w0.t = Raw.new cfg.W) (obs : List Table.TObs) (w : World)
    (hrun : Table.runH cfg env ops w0 = some (obs, w))
    (n b : Nat) (hn : n ≠ 0) (hpk : Table.runHPeak cfg env ops w0 ≤ n)
    (hb : capacityToBuckets cfg.bits cfg.W cfg.size n = some b) :
    w.t.buckets ≤ 4 * b := by
  obtain ⟨hT, hC⟩ := table_churn_bound hc hg env ops hops w0 h0 obs w hrun
  exact (tc_buckets_bytes_of_cap hc hT hC hn hpk hb).2.1

/-- **C13 for `HashTable`, bytes form.** If the live size never exceeds `n ≥ 1`, `allocation_size()`
    is at most four times the size of the block `with_capacity(n)` allocates (`b` buckets), and at
    most the size of a block of `4 * b` buckets whenever that layout is computable. -/
theorem table_churn_bound_bytes (hc : CfgOk cfg) (hg : GuardRuns cfg) (env : Env)
    (ops : List TableOp) (hops : ∀ op ∈ ops, TableChurnOp op) (w0 : World)
    (h0 : w0.t = Raw.new cfg.W) (obs : List Table.TObs) (w : World)
    (hrun : Table.runH cfg env ops w0 = some (obs, w))
    (n b : Nat) (hn : n ≠ 0) (hpk : Table.runHPeak cfg env ops w0 ≤ n)
    (hb : capacityToBuckets cfg.bits cfg.W cfg.size n = some b) :
    ∃ s, allocationSize cfg w.t = .ok s ∧
      (∀ l, calculateLayoutFor cfg.bits cfg.W cfg.size (ctrlAlignOf cfg) b = some l →
        s ≤ 4 * l.size) ∧
      (∀ L, calculateLayoutFor cfg.bits cfg.W cfg.size (ctrlAlignOf cfg) (4 * b) = some L →
        s ≤ L.size) := by
  obtain ⟨hT, hC⟩ := table_churn_bound hc hg env ops hops w0 h0 obs w hrun
  exact (tc_buckets_bytes_of_cap hc hT hC hn hpk hb).2.2

/-! ## 2. C08: capacity / allocation clauses, every environment, any valid state

`Hb.clear`, `Map.drain`, `Hb.reserve`, `Hb.shrinkTo`, `Hb.tryReserve` are the functions behind
`HashMap`, `HashSet` (`Set.call`) and `HashTable` (`Table.stepH`, with the environment `envFor`)
alike, so the function-level statements cover the three collections; the `table_*_step` /
`set_*_call` forms below restate them on the calls of the two history models. -/

/-- A valid table with no more buckets holds no more bytes. -/
theorem tc_allocSize_mono {t t' : Raw} (h : TInv cfg t) (h' : TInv cfg t')
    (hb : t'.buckets ≤ t.buckets) :
    (if t'.alloc then (layoutOf cfg t'.buckets).size else 0) ≤
      (if t.alloc then (layoutOf cfg t.buckets).size else 0) := by
  cases ha' : t'.alloc with
  | false => simp
  | true =>
    have hal' := h'.1.allocated ha'
    obtain ⟨k, hk, hk2⟩ := hal'.2.1
    have h4 : 4 ≤ t'.buckets := by
      rw [hk2]
      calc 4 = 2 ^ 2 := rfl
        _ ≤ 2 ^ k := Nat.pow_le_pow_right (by omega) hk
    cases ha : t.alloc with
    | false =>
      have hs := ag_singleton_of_not_alloc h.1 ha
      have : t.buckets = 1 := by simp only [Raw.buckets, hs.2.1]
      omega
    | true =>
      simp only [if_true]
      have hlo := h.2 ha
      have hlo' := h'.2 ha'
      cases hcl : calculateLayoutFor cfg.bits cfg.W cfg.size (ctrlAlignOf cfg) t.buckets with
      | none => rw [hcl] at hlo; cases hlo
      | some l =>
        cases hcl' : calculateLayoutFor cfg.bits cfg.W cfg.size (ctrlAlignOf cfg) t'.buckets with
        | none => rw [hcl'] at hlo'; cases hlo'
        | some l' =>
          rw [layoutOf_eq hcl, layoutOf_eq hcl']
          exact layout_size_mono hb hcl' hcl

/-- **C08, `clear` keeps the allocation** (HashMap / HashSet / HashTable: the same `RawTable::clear`),
    every environment, any valid state — also when a destructor panics (`.panic "drop"`: what the
    `clear_no_drop` guard leaves): same block (`alloc`, `mask`, hence `allocation_size()`), the
    collection is empty, the allocator was not called (`ac`), the log gained destructor events only. -/
theorem clear_keeps_allocation (hc : CfgOk cfg) (env : Env) (w : World) (h : TInv cfg w.t) :
    match clear cfg env w with
    | .ok w' =>
      TInv cfg w'.t ∧ w'.t.alloc = w.t.alloc ∧ w'.t.mask = w.t.mask ∧ w'.t.items = 0 ∧
      w'.t.elems = [] ∧ allocationSize cfg w'.t = allocationSize cfg w.t ∧ w'.ac = w.ac ∧
      w'.log = dropEvs cfg w.t.elems.reverse ++ w.log
    | .panic c w' =>
      c = "drop" ∧ TInv cfg w'.t ∧ w'.t.alloc = w.t.alloc ∧ w'.t.mask = w.t.mask ∧
      w'.t.items = 0 ∧ w'.t.elems = [] ∧ allocationSize cfg w'.t = allocationSize cfg w.t ∧
      w'.ac = w.ac ∧ ∃ ds, w'.log = dropEvs cfg ds ++ w.log
    | .abort => False
    | .fault _ => False := by
  have h1 := clear_spec hc env w h
  have hsz : ∀ t' : Raw, TInv cfg t' → t'.alloc = w.t.alloc → t'.mask = w.t.mask →
      allocationSize cfg t' = allocationSize cfg w.t := by
    intro t' hT ha hm
    rw [allocationSize_spec hT, allocationSize_spec h, ha]
    simp only [Raw.buckets, hm]
  cases hr : clear cfg env w with
  | ok w' =>
    rw [hr] at h1
    obtain ⟨⟨a1, a2, a3, a4, a5, _⟩, d⟩ := h1
    exact ⟨a1, a5, a4, a2, a3, hsz _ a1 a5 a4, d.2.2.2.2.1, d.log⟩
  | panic c w' =>
    rw [hr] at h1
    obtain ⟨hc', ⟨a1, a2, a3, a4, a5, _⟩, _, ds, e, rest, _, d, _⟩ := h1
    exact ⟨hc', a1, a5, a4, a2, a3, hsz _ a1 a5 a4, d.2.2.2.2.1, _, d.log⟩
  | abort => rw [hr] at h1; exact h1
  | fault f => rw [hr] at h1; exact h1

/-- **C08, `drain` keeps the allocation**, every environment, any valid state: when the `Drain` is
    dropped normally (`forget = false`, returned) the collection is empty on the SAME block, the
    allocator was not called and the log gained destructor events only. When the `Drain` is forgotten
    (`mem::forget`) the collection holds the unallocated singleton and nothing else changed (the block
    is leaked). When a destructor of a not-yet-yielded element panics inside `Drain::drop`, unwinding
    leaves the unallocated singleton as well: the allocator was not called, no `free` event — the
    block is leaked, not freed (`drain_panic_leaks_block` of `LedgerPanic.lean` is an evaluated
    instance). -/
theorem drain_keeps_allocation (hc : CfgOk cfg) (env : Env) (k : Nat) (forget : Bool) (w : World)
    (h : TInv cfg w.t) :
    match Map.drain cfg env k forget w with
    | .ok (out, w') =>
      out = w.t.elems.take k ∧
      (forget = false →
        TInv cfg w'.t ∧ w'.t.alloc = w.t.alloc ∧ w'.t.mask = w.t.mask ∧ w'.t.items = 0 ∧
        w'.t.elems = [] ∧ allocationSize cfg w'.t = allocationSize cfg w.t ∧ w'.ac = w.ac ∧
        w'.log = dropEvs cfg (w.t.elems.drop k).reverse ++ w.log) ∧
      (forget = true → w' = { w with t := Raw.new cfg.W })
    | .panic c w' =>
      c = "drop" ∧ forget = false ∧ w'.t = Raw.new cfg.W ∧ w'.ac = w.ac ∧
      ∃ ds, w'.log = dropEvs cfg ds ++ w.log
    | .abort => False
    | .fault _ => False := by
  have h1 := drain_spec hc env k forget w h
  cases hr : Map.drain cfg env k forget w with
  | ok pr =>
    obtain ⟨out, w'⟩ := pr
    rw [hr] at h1
    obtain ⟨a1, _, a3, a4⟩ := h1
    refine ⟨a1, fun hf => ?_, a3⟩
    obtain ⟨⟨_, b2, b3, b4, b5, b6, _⟩, d⟩ := a4 hf
    refine ⟨b2, b6, b5, b3, b4, ?_, d.2.2.2.2.1, d.log⟩
    rw [allocationSize_spec b2, allocationSize_spec h, b6]
    simp only [Raw.buckets, b5]
  | panic c w' =>
    rw [hr] at h1
    obtain ⟨a1, a2, a3, _, ds, e, rest, _, d, _⟩ := h1
    exact ⟨a1, a2, a3, d.2.2.2.2.1, _, d.log⟩
  | abort => rw [hr] at h1; exact h1
  | fault f => rw [hr] at h1; exact h1

/-- **C08, `with_capacity(0)` allocates nothing**: it returns the unallocated singleton, the world
    (log, allocator and every other counter) is otherwise untouched. No hypothesis at all. -/
theorem with_capacity_zero_allocates_nothing (cfg : Cfg) (env : Env) (w : World) :
    withCapacity cfg env 0 w = .ok { w with t := Raw.new cfg.W } ∧
    (Raw.new cfg.W).alloc = false ∧ (Raw.new cfg.W).capacity = 0 ∧
    allocationSize cfg (Raw.new cfg.W) = .ok 0 := by
  refine ⟨by simp [withCapacity, fallibleWithCapacity], rfl, rfl, ?_⟩
  simp [allocationSize, Raw.isEmptySingleton, Raw.new]

/-- **C08, `shrink_to` never enlarges the allocation** in bytes (adds the byte form to
    `shrink_contract` of `Hb/Props/C08.lean`). -/
theorem shrink_never_enlarges (hc : CfgOk cfg) (env : Env) (m : Nat) (w : World)
    (h : TInv cfg w.t) :
    match shrinkTo cfg env m w with
    | .ok w' =>
      TInv cfg w'.t ∧ List.Perm w'.t.elems w.t.elems ∧ w'.t.items = w.t.items ∧
      w'.t.buckets ≤ w.t.buckets ∧
      max w.t.items (min m w.t.capacity) ≤ w'.t.capacity ∧
      ∃ s s', allocationSize cfg w.t = .ok s ∧ allocationSize cfg w'.t = .ok s' ∧ s' ≤ s
    | .panic _ w' => w'.t = w.t
    | .abort => True
    | .fault _ => False := by
  have h1 := shrinkTo_spec hc hc.probe env m w h
  cases hr : shrinkTo cfg env m w with
  | ok w' =>
    rw [hr] at h1
    obtain ⟨a1, a2, a3, a4, a5, _⟩ := h1
    exact ⟨a1, a2, a3, a4, a5, _, _, allocationSize_spec h, allocationSize_spec a1,
      tc_allocSize_mono h a1 a4⟩
  | panic c w' => rw [hr] at h1; exact h1.2.1
  | abort => trivial
  | fault f => rw [hr] at h1; exact h1.elim

/-! ### the same on the calls of the `HashTable` history model -/

section tableC08
open Table

/-- `len() ≤ capacity()` and `allocation_size()` = bytes of the table's own layout, in any valid
    state. -/
theorem tc_state_facts {t : Raw} (h : TInv cfg t) :
    t.items ≤ t.capacity ∧
    allocationSize cfg t = .ok (if t.alloc then (layoutOf cfg t.buckets).size else 0) :=
  ⟨(capacity_ge_len t).2, allocationSize_spec h⟩

/-- `HashTable::reserve(n, hasher)` from any valid state: after it returned, `capacity ≥ len + n`,
    same elements; a no-op when the room was there. -/
theorem table_reserve_step (hc : CfgOk cfg) (env : Env) (n : Nat) (w : World) (h : TInv cfg w.t) :
    match Table.stepH cfg env (.reserve n) w with
    | .ok (_, w') =>
      TInv cfg w'.t ∧ w'.t.items = w.t.items ∧ List.Perm w'.t.elems w.t.elems ∧
      w.t.items + n ≤ w'.t.capacity ∧ (w.t.items + n ≤ w.t.capacity → w' = w)
    | .panic c w' => (c = "capacity" ∧ w' = w) ∨ (c = "hash" ∧ w'.t.mask = w.t.mask)
    | .abort => True
    | .fault _ => False := by
  have h1 := reserve_spec hc hc.probe (envFor cfg env) n w h
  simp only [Table.stepH]
  cases hr : Hb.reserve cfg (envFor cfg env) n w with
  | ok w' =>
    rw [hr] at h1
    obtain ⟨a1, a2, a3, a4, _, _, _, a8⟩ := h1
    exact ⟨a1, a2, a3, a4, fun hle => a8 (by simp only [Raw.capacity] at hle; omega)⟩
  | panic c w' =>
    rw [hr] at h1
    rcases h1 with h1 | ⟨h1, h2, _⟩
    · exact Or.inl h1
    · exact Or.inr ⟨h1, h2⟩
  | abort => trivial
  | fault f => rw [hr] at h1; exact h1.elim

/-- `HashTable::shrink_to(m, hasher)` / `shrink_to_fit` (`m = 0`) from any valid state. -/
theorem table_shrink_step (hc : CfgOk cfg) (env : Env) (m : Nat) (w : World) (h : TInv cfg w.t) :
    match Table.stepH cfg env (.shrinkTo m) w with
    | .ok (_, w') =>
      TInv cfg w'.t ∧ List.Perm w'.t.elems w.t.elems ∧ w'.t.items = w.t.items ∧
      w'.t.buckets ≤ w.t.buckets ∧
      max w.t.items (min m w.t.capacity) ≤ w'.t.capacity ∧
      ∃ s s', allocationSize cfg w.t = .ok s ∧ allocationSize cfg w'.t = .ok s' ∧ s' ≤ s
    | .panic _ w' => w'.t = w.t
    | .abort => True
    | .fault _ => False := by
  have h1 := shrink_never_enlarges hc (envFor cfg env) m w h
  simp only [Table.stepH]
  cases hr : Hb.shrinkTo cfg (envFor cfg env) m w with
  | ok w' => rw [hr] at h1; exact h1
  | panic c w' => rw [hr] at h1; exact h1
  | abort => trivial
  | fault f => rw [hr] at h1; exact h1.elim

/-- `HashTable::clear` from any valid state: same allocation, returned or unwound. -/
theorem table_clear_step (hc : CfgOk cfg) (env : Env) (w : World) (h : TInv cfg w.t) :
    match Table.stepH cfg env .clear w with
    | .ok (_, w') =>
      w'.t.alloc = w.t.alloc ∧ w'.t.mask = w.t.mask ∧ w'.t.items = 0 ∧
      allocationSize cfg w'.t = allocationSize cfg w.t ∧ w'.ac = w.ac
    | .panic _ w' =>
      w'.t.alloc = w.t.alloc ∧ w'.t.mask = w.t.mask ∧ w'.t.items = 0 ∧
      allocationSize cfg w'.t = allocationSize cfg w.t ∧ w'.ac = w.ac
    | .abort => False
    | .fault _ => False := by
  have h1 := clear_keeps_allocation hc (envFor cfg env) w h
  simp only [Table.stepH]
  cases hr : Hb.clear cfg (envFor cfg env) w with
  | ok w' =>
    rw [hr] at h1
    exact ⟨h1.2.1, h1.2.2.1, h1.2.2.2.1, h1.2.2.2.2.2.1, h1.2.2.2.2.2.2.1⟩
  | panic c w' =>
    rw [hr] at h1
    exact ⟨h1.2.2.1, h1.2.2.2.1, h1.2.2.2.2.1, h1.2.2.2.2.2.2.1, h1.2.2.2.2.2.2.2.1⟩
  | abort => rw [hr] at h1; exact h1
  | fault f => rw [hr] at h1; exact h1

/-- `HashTable::drain` from any valid state (`fg` = the `Drain` is forgotten). -/
theorem table_drain_step (hc : CfgOk cfg) (env : Env) (n : Nat) (fg : Bool) (w : World)
    (h : TInv cfg w.t) :
    match Table.stepH cfg env (.drain n fg) w with
    | .ok (_, w') =>
      (fg = false → w'.t.alloc = w.t.alloc ∧ w'.t.mask = w.t.mask ∧ w'.t.items = 0 ∧
        allocationSize cfg w'.t = allocationSize cfg w.t ∧ w'.ac = w.ac) ∧
      (fg = true → w' = { w with t := Raw.new cfg.W })
    | .panic _ w' => fg = false ∧ w'.t = Raw.new cfg.W ∧ w'.ac = w.ac
    | .abort => False
    | .fault _ => False := by
  have h1 := drain_keeps_allocation hc (envFor cfg env) n fg w h
  simp only [Table.stepH]
  cases hr : Map.drain cfg (envFor cfg env) n fg w with
  | ok pr =>
    obtain ⟨out, w'⟩ := pr
    rw [hr] at h1
    refine ⟨fun hf => ?_, h1.2.2⟩
    obtain ⟨_, b2, b3, b4, _, b6, b7, _⟩ := h1.2.1 hf
    exact ⟨b2, b3, b4, b6, b7⟩
  | panic c w' =>
    rw [hr] at h1
    exact ⟨h1.2.1, h1.2.2.1, h1.2.2.2.1⟩
  | abort => rw [hr] at h1; exact h1
  | fault f => rw [hr] at h1; exact h1

end tableC08

/-! ### the same on the calls of the `HashSet` history model (`w.t` = the target set) -/

theorem set_reserve_call (hc : CfgOk cfg) (env : Env) (n : Nat) (other : Raw) (w : World)
    (h : TInv cfg w.t) :
    match Set.call cfg env (.reserve n) other w with
    | .ok (_, w') =>
      TInv cfg w'.t ∧ w'.t.items = w.t.items ∧ List.Perm w'.t.elems w.t.elems ∧
      w.t.items + n ≤ w'.t.capacity ∧ (w.t.items + n ≤ w.t.capacity → w' = w)
    | .panic c w' => (c = "capacity" ∧ w' = w) ∨ (c = "hash" ∧ w'.t.mask = w.t.mask)
    | .abort => True
    | .fault _ => False := by
  have h1 := reserve_spec hc hc.probe env n w h
  simp only [Set.call, Set.wrapU, Map.reserve]
  cases hr : Hb.reserve cfg env n w with
  | ok w' =>
    rw [hr] at h1
    obtain ⟨a1, a2, a3, a4, _, _, _, a8⟩ := h1
    exact ⟨a1, a2, a3, a4, fun hle => a8 (by simp only [Raw.capacity] at hle; omega)⟩
  | panic c w' =>
    rw [hr] at h1
    rcases h1 with h1 | ⟨h1, h2, _⟩
    · exact Or.inl h1
    · exact Or.inr ⟨h1, h2⟩
  | abort => trivial
  | fault f => rw [hr] at h1; exact h1.elim

theorem set_shrink_call (hc : CfgOk cfg) (env : Env) (m : Nat) (other : Raw) (w : World)
    (h : TInv cfg w.t) :
    match Set.call cfg env (.shrinkTo m) other w with
    | .ok (_, w') =>
      TInv cfg w'.t ∧ List.Perm w'.t.elems w.t.elems ∧ w'.t.items = w.t.items ∧
      w'.t.buckets ≤ w.t.buckets ∧
      max w.t.items (min m w.t.capacity) ≤ w'.t.capacity ∧
      ∃ s s', allocationSize cfg w.t = .ok s ∧ allocationSize cfg w'.t = .ok s' ∧ s' ≤ s
    | .panic _ w' => w'.t = w.t
    | .abort => True
    | .fault _ => False := by
  have h1 := shrink_never_enlarges hc env m w h
  simp only [Set.call, Set.wrapU]
  cases hr : Hb.shrinkTo cfg env m w with
  | ok w' => rw [hr] at h1; exact h1
  | panic c w' => rw [hr] at h1; exact h1
  | abort => trivial
  | fault f => rw [hr] at h1; exact h1.elim

theorem set_clear_call (hc : CfgOk cfg) (env : Env) (other : Raw) (w : World)
    (h : TInv cfg w.t) :
    match Set.call cfg env .clear other w with
    | .ok (_, w') =>
      w'.t.alloc = w.t.alloc ∧ w'.t.mask = w.t.mask ∧ w'.t.items = 0 ∧
      allocationSize cfg w'.t = allocationSize cfg w.t ∧ w'.ac = w.ac
    | .panic _ w' =>
      w'.t.alloc = w.t.alloc ∧ w'.t.mask = w.t.mask ∧ w'.t.items = 0 ∧
      allocationSize cfg w'.t = allocationSize cfg w.t ∧ w'.ac = w.ac
    | .abort => False
    | .fault _ => False := by
  have h1 := clear_keeps_allocation hc env w h
  simp only [Set.call, Set.wrapU]
  cases hr : Hb.clear cfg env w with
  | ok w' =>
    rw [hr] at h1
    exact ⟨h1.2.1, h1.2.2.1, h1.2.2.2.1, h1.2.2.2.2.2.1, h1.2.2.2.2.2.2.1⟩
  | panic c w' =>
    rw [hr] at h1
    exact ⟨h1.2.2.1, h1.2.2.2.1, h1.2.2.2.2.1, h1.2.2.2.2.2.2.1, h1.2.2.2.2.2.2.2.1⟩
  | abort => rw [hr] at h1; exact h1
  | fault f => rw [hr] at h1; exact h1

/-! ### in every reachable state of a history -/

/-- The world a call on `side` sees is a valid table, in every pair whose two tables are valid. -/
theorem sc_view_TInv {s : Set.Pair} (ha : TInv cfg s.a) (hb : TInv cfg s.b) (side : Side) :
    TInv cfg (s.view side).1.t ∧ TInv cfg (s.view side).2 := by
  cases side with
  | a => exact ⟨ha, hb⟩
  | b => exact ⟨hb, ha⟩

/-- Every state a `HashTable` history from `new()` goes through (`Table.statesH`) satisfies the API
    invariant — the hypothesis of all the per-state clauses above. -/
theorem table_states_TInv (hc : CfgOk cfg) (hg : GuardRuns cfg) (env : Env) (ops : List TableOp)
    (w0 : World) (h0 : w0.t = Raw.new cfg.W) :
    ∀ w ∈ Table.statesH cfg env ops w0, TInv cfg w.t :=
  fun w hw => ((table_runH_safe hc hg env ops w0 h0).2.1 w hw).1

/-- Every pair a `HashSet` history from `(new(), new())` goes through (`Set.states2`): the world
    either side's call sees, and its right operand, are valid tables. -/
theorem set_states_TInv (hc : CfgOk cfg) (hg : GuardRuns cfg) (env : Env) (cs : List SetCall)
    (s0 : Set.Pair) (ha : s0.a = Raw.new cfg.W) (hb : s0.b = Raw.new cfg.W) :
    ∀ s ∈ Set.states2 cfg env cs s0, ∀ side : Side,
      TInv cfg (s.view side).1.t ∧ TInv cfg (s.view side).2 :=
  fun s hs side =>
    sc_view_TInv ((set_run2_safe hc hg env cs s0 ha hb).2.1 s hs).1.1
      ((set_run2_safe hc hg env cs s0 ha hb).2.1 s hs).2.1 side

/-! ## 3. `HashSet`: one call -/

section setChurn

/-- `ch_MaskStep`/`TInv` from a safety fact and a geometry fact about the same outcome. -/
theorem sc_mapInsert_S (hc : CfgOk cfg) (hg : GuardRuns cfg) (env : Env) (e : Elem) (w : World)
    (h : TInv cfg w.t) : cx_S cfg w.t (·.2) (Map.insert cfg env e w) := by
  have h1 := st_mapInsert hc hg env e w h
  have h2 := ch_insert_mask hc hc.probe env e w h
  cases hr : Map.insert cfg env e w with
  | ok pr => obtain ⟨r, w'⟩ := pr; rw [hr] at h1 h2; exact ⟨h1, h2⟩
  | panic c w' => rw [hr] at h1 h2; exact ⟨h1, h2⟩
  | abort => trivial
  | fault f => rw [hr] at h1; exact h1.elim

theorem sc_mapRemove_K (hc : CfgOk cfg) (env : Env) (k : Nat) (w : World) (h : TInv cfg w.t) :
    cx_K cfg w.t.mask (·.2) (Map.remove cfg env k w) := by
  have h1 := st_mapRemove (A := True) hc env k w h
  have h2 := ch_remove_mask hc hc.probe env k w h
  cases hr : Map.remove cfg env k w with
  | ok pr => obtain ⟨r, w'⟩ := pr; rw [hr] at h1 h2; exact ⟨h1, h2⟩
  | panic c w' => rw [hr] at h1 h2; exact ⟨h1, h2⟩
  | abort => trivial
  | fault f => rw [hr] at h1; exact h1.elim

theorem sc_mapRemoveEntry_K (hc : CfgOk cfg) (env : Env) (k : Nat) (w : World)
    (h : TInv cfg w.t) : cx_K cfg w.t.mask (·.2) (Map.removeEntry cfg env k w) := by
  have h1 := st_mapRemoveEntry (A := True) hc env k w h
  have h2 := ch_removeEntry_mask hc hc.probe env k w h
  cases hr : Map.removeEntry cfg env k w with
  | ok pr => obtain ⟨r, w'⟩ := pr; rw [hr] at h1 h2; exact ⟨h1, h2⟩
  | panic c w' => rw [hr] at h1 h2; exact ⟨h1, h2⟩
  | abort => trivial
  | fault f => rw [hr] at h1; exact h1.elim

theorem sc_mapGet_K (hc : CfgOk cfg) (env : Env) (k : Nat) (w : World) (h : TInv cfg w.t) :
    cx_K cfg w.t.mask (·.2) (Map.get cfg env k w) := by
  have h1 := st_mapGet (A := True) hc env k w h
  have h2 := ch_get_mask hc hc.probe env k w h
  cases hr : Map.get cfg env k w with
  | ok pr => obtain ⟨r, w'⟩ := pr; rw [hr] at h1 h2; exact ⟨h1, h2⟩
  | panic c w' => rw [hr] at h1 h2; exact ⟨h1, h2⟩
  | abort => trivial
  | fault f => rw [hr] at h1; exact h1.elim

theorem sc_setInsert_S (hc : CfgOk cfg) (hg : GuardRuns cfg) (env : Env) (k kid : Nat) (w : World)
    (h : TInv cfg w.t) : cx_S cfg w.t (·.2) (Set.insert cfg env k kid w) :=
  (sc_mapInsert_S hc hg env (Set.elemOf k kid) w h).bindK
    (fun a ha => by obtain ⟨r, w'⟩ := a; exact ⟨ha, rfl⟩)

theorem sc_setRemove_K (hc : CfgOk cfg) (env : Env) (k : Nat) (w : World) (h : TInv cfg w.t) :
    cx_K cfg w.t.mask (·.2) (Set.remove cfg env k w) :=
  (sc_mapRemove_K hc env k w h).bind (fun a ha hm => by obtain ⟨r, w'⟩ := a; exact ⟨ha, hm⟩)

theorem sc_setContains_K (hc : CfgOk cfg) (env : Env) (k : Nat) (w : World) (h : TInv cfg w.t) :
    cx_K cfg w.t.mask (·.2) (Set.contains cfg env k w) := by
  unfold Set.contains
  rcases st_getInner hc env k w h.1 with ⟨r, w', k1, k2, _⟩ | ⟨c, w', k1, k2⟩
  · simp only [k1, bind, Res.bind, pure]
    show TInv cfg w'.t ∧ w'.t.mask = w.t.mask; rw [k2]; exact ⟨h, rfl⟩
  · simp only [k1, bind, Res.bind]
    show TInv cfg w'.t ∧ w'.t.mask = w.t.mask; rw [k2]; exact ⟨h, rfl⟩

/-- `make_hash` + `find_or_find_insert_slot` with the geometry. -/
theorem sc_search (hc : CfgOk cfg) (hg : GuardRuns cfg) (env : Env) (k : Nat) (owned : Option Elem)
    (w : World) (h : TInv cfg w.t) :
    match Set.search cfg env k owned w with
    | .ok (_, .ok idx, w') =>
      TInv cfg w'.t ∧ ch_MaskStep cfg w.t w'.t ∧ ∃ x, w'.t.slots[idx]?.join = some x
    | .ok (_, .error slot, w') =>
      TInv cfg w'.t ∧ ch_MaskStep cfg w.t w'.t ∧ slot < w'.t.buckets ∧
      isSpecial (w'.t.ctrlAt slot) = true ∧ 0 < w'.t.gl ∧ w'.t.alloc = true
    | .panic _ w' => TInv cfg w'.t ∧ ch_MaskStep cfg w.t w'.t
    | .abort => True
    | .fault _ => False := by
  have hcore : ∀ g : World → World, (∀ w, (g w).t = w.t) →
      match (do
        let (hv, w1) ← makeHash env k w
        let (r, w2) ← findOrFindInsertSlot cfg env hv k w1
        pure (hv, r, w2) : Res (Nat × Except Nat Nat × World)).onPanic g with
      | .ok (_, .ok idx, w') =>
        TInv cfg w'.t ∧ ch_MaskStep cfg w.t w'.t ∧ ∃ x, w'.t.slots[idx]?.join = some x
      | .ok (_, .error slot, w') =>
        TInv cfg w'.t ∧ ch_MaskStep cfg w.t w'.t ∧ slot < w'.t.buckets ∧
        isSpecial (w'.t.ctrlAt slot) = true ∧ 0 < w'.t.gl ∧ w'.t.alloc = true
      | .panic _ w' => TInv cfg w'.t ∧ ch_MaskStep cfg w.t w'.t
      | .abort => True
      | .fault _ => False := by
    intro g hgt
    cases hh : env.hash w.hc k with
    | none =>
      simp only [ag_makeHash_none hh, bind, Res.bind, Res.onPanic]
      rw [hgt]; exact ⟨h, Or.inl rfl⟩
    | some hv =>
      simp only [ag_makeHash_some hh, bind, Res.bind]
      have hf := tc_fofis hc hg env hv k { w with hc := w.hc + 1 } h
      cases hr : findOrFindInsertSlot cfg env hv k { w with hc := w.hc + 1 } with
      | ok pr =>
        obtain ⟨r, w2⟩ := pr
        rw [hr] at hf
        cases r with
        | ok idx => exact hf
        | error slot => exact hf
      | panic c w' =>
        rw [hr] at hf
        simp only [Res.onPanic]
        rw [hgt]; exact hf
      | abort => trivial
      | fault f => rw [hr] at hf; exact hf.elim
  unfold Set.search
  cases owned with
  | some e => exact hcore _ (fun w => dropElemQuiet_t w e)
  | none =>
    have := hcore id (fun _ => rfl)
    have hid : ∀ {α : Type} (r : Res α), r.onPanic id = r := by
      intro α r; cases r <;> rfl
    rw [hid] at this
    exact this

theorem sc_setReplace_S (hc : CfgOk cfg) (hg : GuardRuns cfg) (env : Env) (e : Elem) (w : World)
    (h : TInv cfg w.t) : cx_S cfg w.t (·.2) (Set.replace cfg env e w) := by
  have hs := sc_search hc hg env e.k (some e) w h
  unfold Set.replace
  cases hr : Set.search cfg env e.k (some e) w with
  | ok pr =>
    obtain ⟨hv, r, w2⟩ := pr
    rw [hr] at hs
    cases r with
    | ok idx =>
      obtain ⟨a1, am, x, a2⟩ := hs
      simp only [bind, Res.bind, slotGet_ok a2, liftE, pure]
      exact ⟨en_slotSet_TInv a1 a2 e, am.of_mask_eq rfl⟩
    | error slot =>
      obtain ⟨a1, am, a2, a3, a4, a5⟩ := hs
      obtain ⟨t', b1, b2, b3, _⟩ := ag_insertInSlot hc a1 a5 a2 a3 (fun _ => a4) e hv
      simp only [bind, Res.bind, b1, liftE, pure]
      exact ⟨b2, am.of_mask_eq b3⟩
  | panic c w' => rw [hr] at hs; exact hs
  | abort => trivial
  | fault f => rw [hr] at hs; exact hs.elim

theorem sc_setGetOrInsert_S (hc : CfgOk cfg) (hg : GuardRuns cfg) (env : Env) (e : Elem) (w : World)
    (h : TInv cfg w.t) : cx_S cfg w.t (·.2) (Set.getOrInsert cfg env e w) := by
  have hs := sc_search hc hg env e.k (some e) w h
  unfold Set.getOrInsert
  cases hr : Set.search cfg env e.k (some e) w with
  | ok pr =>
    obtain ⟨hv, r, w2⟩ := pr
    rw [hr] at hs
    cases r with
    | ok idx =>
      obtain ⟨a1, am, x, a2⟩ := hs
      simp only [bind, Res.bind, slotGet_ok a2, liftE]
      exact (cx_dropKeyR_ret env e.kid w2 a1 x).toS w2.t am
    | error slot =>
      obtain ⟨a1, am, a2, a3, a4, a5⟩ := hs
      obtain ⟨t', b1, b2, b3, _⟩ := ag_insertInSlot hc a1 a5 a2 a3 (fun _ => a4) e hv
      simp only [bind, Res.bind, b1, liftE, pure]
      exact ⟨b2, am.of_mask_eq b3⟩
  | panic c w' => rw [hr] at hs; exact hs
  | abort => trivial
  | fault f => rw [hr] at hs; exact hs.elim

theorem sc_setGetOrInsertWith_S (hc : CfgOk cfg) (hg : GuardRuns cfg) (env : Env)
    (k k2 kid2 : Nat) (w : World) (h : TInv cfg w.t) :
    cx_S cfg w.t (·.2) (Set.getOrInsertWith cfg env k k2 kid2 w) := by
  have hs := sc_search hc hg env k none w h
  unfold Set.getOrInsertWith
  cases hr : Set.search cfg env k none w with
  | ok pr =>
    obtain ⟨hv, r, w2⟩ := pr
    rw [hr] at hs
    cases r with
    | ok idx =>
      obtain ⟨a1, am, x, a2⟩ := hs
      simp only [bind, Res.bind, slotGet_ok a2, liftE, pure]
      exact ⟨a1, am⟩
    | error slot =>
      obtain ⟨a1, am, a2, a3, a4, a5⟩ := hs
      simp only [bind, Res.bind]
      cases heq : env.eq w2.ec k (Set.elemOf k2 kid2) with
      | none =>
        show TInv cfg (World.dropElemQuiet cfg _ _).t ∧
          ch_MaskStep cfg w.t (World.dropElemQuiet cfg _ _).t
        rw [dropElemQuiet_t]; exact ⟨a1, am⟩
      | some b =>
        cases b with
        | false =>
          show TInv cfg (World.dropElemQuiet cfg _ _).t ∧
            ch_MaskStep cfg w.t (World.dropElemQuiet cfg _ _).t
          rw [dropElemQuiet_t]; exact ⟨a1, am⟩
        | true =>
          obtain ⟨t', b1, b2, b3, _⟩ :=
            ag_insertInSlot hc (t := { w2 with ec := w2.ec + 1 }.t) a1 a5 a2 a3 (fun _ => a4)
              (Set.elemOf k2 kid2) hv
          simp only [b1, liftE, pure]
          exact ⟨b2, am.of_mask_eq b3⟩
  | panic c w' => rw [hr] at hs; exact hs
  | abort => trivial
  | fault f => rw [hr] at hs; exact hs.elim

theorem sc_setEntryInsert_S (hc : CfgOk cfg) (hg : GuardRuns cfg) (env : Env) (e : Elem) (w : World)
    (h : TInv cfg w.t) : cx_S cfg w.t (·.2) (Set.entryInsert cfg env e w) := by
  unfold Set.entryInsert
  rcases st_entryFind hc env e w h.1 with ⟨hv, r, w2, k1, k2, k3⟩ | ⟨c, w', k1, k2⟩
  · have h2 : TInv cfg w2.t := by rw [k2]; exact h
    simp only [k1, bind, Res.bind]
    cases r with
    | some idx =>
      obtain ⟨x, hx⟩ := k3 idx rfl
      simp only
      rcases ag_dropKeyR (cfg := cfg) env e.kid w2 with ⟨w3, d1, d2, _⟩ | ⟨w3, d1, d2, _⟩
      · have hx3 : w3.t.slots[idx]?.join = some x := by rw [d2, k2]; exact hx
        simp only [d1, slotGet_ok hx3, liftE, pure]
        show TInv cfg w3.t ∧ ch_MaskStep cfg w.t w3.t; rw [d2, k2]; exact ⟨h, Or.inl rfl⟩
      · simp only [d1]
        show TInv cfg w3.t ∧ ch_MaskStep cfg w.t w3.t; rw [d2, k2]; exact ⟨h, Or.inl rfl⟩
    | none =>
      simp only
      have hi := (cx_insOwned_S hc hg env hv e w2 h2).of_eq k2
      exact cx_S.bindK (pb := fun x : Elem × World => x.2) hi
        (fun a ha => by obtain ⟨i, w3⟩ := a; exact ⟨ha, rfl⟩)
  · simp only [k1, bind, Res.bind]
    show TInv cfg w'.t ∧ ch_MaskStep cfg w.t w'.t; rw [k2]; exact ⟨h, Or.inl rfl⟩

theorem sc_setEntryOrInsert_S (hc : CfgOk cfg) (hg : GuardRuns cfg) (env : Env) (e : Elem)
    (w : World) (h : TInv cfg w.t) : cx_S cfg w.t id (Set.entryOrInsert cfg env e w) :=
  cx_S.bindK (pb := id) (sc_setEntryInsert_S hc hg env e w h)
    (fun a ha => by obtain ⟨x, w'⟩ := a; exact ⟨ha, rfl⟩)

theorem sc_setEntryRemove_K (hc : CfgOk cfg) (env : Env) (e : Elem) (w : World)
    (h : TInv cfg w.t) : cx_K cfg w.t.mask (·.2) (Set.entryRemove cfg env e w) := by
  unfold Set.entryRemove
  rcases st_entryFind hc env e w h.1 with ⟨hv, r, w2, k1, k2, k3⟩ | ⟨c, w', k1, k2⟩
  · have h2 : TInv cfg w2.t := by rw [k2]; exact h
    simp only [k1, bind, Res.bind]
    rcases ag_dropKeyR (cfg := cfg) env e.kid w2 with ⟨w3, d1, d2, _⟩ | ⟨w3, d1, d2, _⟩
    · have h3 : TInv cfg w3.t := by rw [d2]; exact h2
      have hm3 : w3.t.mask = w.t.mask := by rw [d2, k2]
      simp only [d1]
      cases r with
      | some idx =>
        obtain ⟨x, hx⟩ := k3 idx rfl
        have hx3 : w3.t.slots[idx]?.join = some x := by rw [d2, k2]; exact hx
        obtain ⟨t', r1, r2, r3⟩ := cx_removeAt hc h3 hx3
        simp only [r1, liftE, pure]
        exact ⟨r2, r3.trans hm3⟩
      | none => exact ⟨h3, hm3⟩
    · simp only [d1]
      show TInv cfg w3.t ∧ w3.t.mask = w.t.mask; rw [d2, k2]; exact ⟨h, rfl⟩
  · simp only [k1, bind, Res.bind]
    show TInv cfg w'.t ∧ w'.t.mask = w.t.mask; rw [k2]; exact ⟨h, rfl⟩

/-- Calls that only read leave the table as it is. -/
theorem st_RO.toK {α : Type} {t : Raw} {r : Res (α × World)} (hr : st_RO t r) (ht : TInv cfg t) :
    cx_K cfg t.mask (·.2) r := by
  rcases hr with ⟨a, w', rfl, hw⟩ | ⟨c, w', rfl, hw⟩
  · show TInv cfg w'.t ∧ w'.t.mask = t.mask; rw [hw]; exact ⟨ht, rfl⟩
  · show TInv cfg w'.t ∧ w'.t.mask = t.mask; rw [hw]; exact ⟨ht, rfl⟩

/-- On return and after an unwind the bucket mask is `m` (nothing is claimed otherwise). -/
def sc_MaskSame (m : Nat) : Res World → Prop
  | .ok w' => w'.t.mask = m
  | .panic _ w' => w'.t.mask = m
  | .abort => True
  | .fault _ => True

theorem sc_K_of_safe {A : Prop} {m : Nat} {r : Res World} (hs : hx_Safe cfg A id r)
    (hm : sc_MaskSame m r) : cx_K cfg m id r := by
  cases r with
  | ok w' => exact ⟨hs, hm⟩
  | panic c w' => exact ⟨hs, hm⟩
  | abort => trivial
  | fault f => exact hs.elim

/-- The `retain` loop with a read-only predicate never changes the bucket mask. -/
theorem sc_retainByLoop_mask (env : Env) (p : Elem → World → Res (Bool × World))
    (hp : ∀ e w, st_RO w.t (p e w)) :
    ∀ (fuel : Nat) (it : RawIter) (w : World),
      sc_MaskSame w.t.mask (Set.retainByLoop cfg env p fuel it w) := by
  intro fuel
  induction fuel with
  | zero => intro it w; simp [Set.retainByLoop, sc_MaskSame]
  | succ fuel ih =>
    intro it w
    rw [ss_retainByLoop_succ]
    split
    · trivial
    · exact rfl
    · split
      · trivial
      · rename_i e he
        rcases hp e w with ⟨b, w1, hp1, ht1⟩ | ⟨c, w1, hp1, ht1⟩
        · rw [hp1]
          cases b with
          | true => simp only; rw [← ht1]; exact ih _ w1
          | false =>
            simp only
            split
            · trivial
            · rename_i x t2 hrm
              have hm2 : t2.mask = w.t.mask := (hs_removeAt_mask hrm).trans (by rw [ht1])
              have hdt := st_dropElem_t (cfg := cfg) env x { w1 with t := t2 }
              cases hd : dropElem cfg env x { w1 with t := t2 } with
              | mk dp w2 =>
                rw [hd] at hdt
                simp only at hdt
                have hm3 : w2.t.mask = w.t.mask := by rw [hdt]; exact hm2
                cases dp with
                | true => exact hm3
                | false =>
                  simp only [Bool.false_eq_true, if_false]
                  rw [← hm3]; exact ih _ w2
        · rw [hp1]
          show w1.t.mask = w.t.mask; rw [ht1]

theorem sc_retainBy_mask (env : Env) (p : Elem → World → Res (Bool × World))
    (hp : ∀ e w, st_RO w.t (p e w)) (w : World) :
    sc_MaskSame w.t.mask (Set.retainBy cfg env p w) := by
  unfold Set.retainBy
  split
  · trivial
  · exact sc_retainByLoop_mask env p hp _ _ w

theorem sc_removeAllLoop_K (hc : CfgOk cfg) (env : Env) :
    ∀ (xs : List Elem) (w : World), TInv cfg w.t →
      cx_K cfg w.t.mask id (Set.removeAllLoop cfg env xs w) := by
  intro xs
  induction xs with
  | nil => intro w h; exact ⟨h, rfl⟩
  | cons e rest ih =>
    intro w h
    rw [ss_removeAllLoop_cons]
    have hi := sc_mapRemove_K hc env e.k w h
    cases hr : Map.remove cfg env e.k w with
    | ok pr =>
      obtain ⟨o, w3⟩ := pr
      rw [hr] at hi
      exact (ih w3 hi.1).of_eq hi.2
    | panic c w' => rw [hr] at hi; exact hi
    | abort => trivial
    | fault f => rw [hr] at hi; exact hi.elim

theorem sc_bitandAssign_K (hc : CfgOk cfg) (env : Env) {other : Raw} (ho : Inv cfg other)
    (w : World) (h : TInv cfg w.t) :
    cx_K cfg w.t.mask id (Set.bitandAssign cfg env other w) :=
  sc_K_of_safe (st_bitandAssign (A := True) hc env ho w h)
    (sc_retainBy_mask env _ (fun e w => st_containsIn hc env ho e.k w) w)

theorem sc_subAssign_K (hc : CfgOk cfg) (env : Env) {other : Raw} (ho : Inv cfg other)
    (w : World) (h : TInv cfg w.t) :
    cx_K cfg w.t.mask id (Set.subAssign cfg env other w) := by
  refine sc_K_of_safe (st_subAssign (A := True) hc env ho w h) ?_
  unfold Set.subAssign
  split
  · rw [elemsOf_spec hc ho]
    have := sc_removeAllLoop_K hc env other.elems w h
    show sc_MaskSame w.t.mask (Set.removeAllLoop cfg env other.elems w)
    generalize Set.removeAllLoop cfg env other.elems w = r at this ⊢
    cases r with
    | ok w' => exact this.2
    | panic c w' => exact this.2
    | abort => trivial
    | fault f => trivial
  · refine sc_retainBy_mask env _ (fun e w => ?_) w
    rcases st_containsIn hc env ho e.k w with ⟨b, w', k1, k2⟩ | ⟨c, w', k1, k2⟩
    · simp only [k1, bind, Res.bind, pure]; exact .inl ⟨_, _, rfl, k2⟩
    · simp only [k1, bind, Res.bind]; exact .inr ⟨_, _, rfl, k2⟩

/-! ### the assigning operators that insert: `|=` and `^=`

One call `a |= &b` / `a ^= &b` performs up to `len(b)` insertions, each through its own
`reserve(1)`, and (`^=`) removals in between: the live size DURING the call is not visible at the
call boundaries (for `^=` it can exceed both the size before and the size after the call). It is
accounted for as at most `len(a) + len(b)` (`sc_CapStepN` with `n = len(b)`). Neither operator goes
through `extend`'s size-hint reservation. -/

/-- `tc_CapStep` with `n` more elements accounted for during the call. -/
def sc_CapStepN (t t' : Raw) (n : Nat) : Prop :=
  bucketMaskToCapacity t'.mask ≤ max (bucketMaskToCapacity t.mask) (max 14 (4 * (t.items + n)))

theorem sc_CapStepN.of_maskStep {t t' : Raw} (hinv : Inv cfg t) (h : ch_MaskStep cfg t t') (n : Nat) :
    sc_CapStepN t t' n := by
  have := ch_maskStep_bound hinv h
  unfold sc_CapStepN; omega

theorem sc_CapStepN.of_mask_eq {t t' : Raw} (h : t'.mask = t.mask) (n : Nat) : sc_CapStepN t t' n := by
  unfold sc_CapStepN; rw [h]; omega

/-- Outcome of a loop of at most `n` insertions started from `t`. -/
def sc_LoopOut (cfg : Cfg) (t : Raw) (n : Nat) : Res World → Prop
  | .ok w' => TInv cfg w'.t ∧ sc_CapStepN t w'.t n
  | .panic _ w' => TInv cfg w'.t ∧ sc_CapStepN t w'.t n
  | .abort => True
  | .fault _ => False

theorem sc_LoopOut.trans {t t1 : Raw} {n n1 : Nat} {r : Res World} (h : sc_LoopOut cfg t1 n1 r)
    (hcap : bucketMaskToCapacity t1.mask ≤
      max (bucketMaskToCapacity t.mask) (max 14 (4 * (t.items + n))))
    (hit : t1.items + n1 ≤ t.items + n) : sc_LoopOut cfg t n r := by
  cases r with
  | ok w' =>
    refine ⟨h.1, ?_⟩
    have h2 : bucketMaskToCapacity w'.t.mask ≤ _ := h.2
    unfold sc_CapStepN; omega
  | panic c w' =>
    refine ⟨h.1, ?_⟩
    have h2 : bucketMaskToCapacity w'.t.mask ≤ _ := h.2
    unfold sc_CapStepN; omega
  | abort => trivial
  | fault f => exact h.elim

/-- `find_or_find_insert_slot` does not change `len`. -/
theorem sc_search_items (hc : CfgOk cfg) (env : Env) (k : Nat) (owned : Option Elem) (w : World)
    (h : TInv cfg w.t) :
    match Set.search cfg env k owned w with
    | .ok (_, _, w') => w'.t.items = w.t.items
    | _ => True := by
  have hcore : ∀ g : World → World,
      match (do
        let (hv, w1) ← makeHash env k w
        let (r, w2) ← findOrFindInsertSlot cfg env hv k w1
        pure (hv, r, w2) : Res (Nat × Except Nat Nat × World)).onPanic g with
      | .ok (_, _, w') => w'.t.items = w.t.items
      | _ => True := by
    intro g
    cases hh : env.hash w.hc k with
    | none => simp only [ag_makeHash_none hh, bind, Res.bind, Res.onPanic]
    | some hv =>
      simp only [ag_makeHash_some hh, bind, Res.bind]
      have hf := findOrFindInsertSlot_spec hc hc.probe env hv k { w with hc := w.hc + 1 } h
      cases hr : findOrFindInsertSlot cfg env hv k { w with hc := w.hc + 1 } with
      | ok pr =>
        obtain ⟨r, w2⟩ := pr
        rw [hr] at hf
        cases r with
        | ok idx => exact hf.2.2.2.2.2.1
        | error slot => exact hf.2.2.2.2.2.2.2.1
      | panic c w' => simp only [Res.onPanic]
      | abort => simp only [Res.onPanic]
      | fault f => simp only [Res.onPanic]
  unfold Set.search
  cases owned with
  | some e => exact hcore _
  | none =>
    have := hcore id
    have hid : ∀ {α : Type} (r : Res α), r.onPanic id = r := by
      intro α r; cases r <;> rfl
    rw [hid] at this
    exact this

theorem sc_bitorAssignLoop (hc : CfgOk cfg) (hg : GuardRuns cfg) (env : Env) :
    ∀ (xs : List Elem) (w : World), TInv cfg w.t →
      sc_LoopOut cfg w.t xs.length (Set.bitorAssignLoop cfg env xs w) := by
  intro xs
  induction xs with
  | nil => intro w h; exact ⟨h, sc_CapStepN.of_mask_eq rfl _⟩
  | cons e rest ih =>
    intro w h
    rw [ss_bitorAssignLoop_cons]
    rcases st_getInner hc env e.k w h.1 with ⟨r, w1, k1, k2, _⟩ | ⟨c, w1, k1, k2⟩
    · have h1 : TInv cfg w1.t := by rw [k2]; exact h
      rw [k1]
      cases r with
      | some i =>
        exact (ih w1 h1).trans (by rw [k2]; omega) (by rw [k2, List.length_cons]; omega)
      | none =>
        simp only
        cases hcl : (Set.envOf env).clone w1.cc e with
        | none =>
          exact ⟨h1, sc_CapStepN.of_mask_eq (by show w1.t.mask = w.t.mask; rw [k2]) _⟩
        | some kv =>
          obtain ⟨kid, x⟩ := kv
          simp only
          have hi := sc_mapInsert_S hc hg env { e with kid := kid } { w1 with cc := w1.cc + 1 } h1
          have hv := Map.insert_inv hc hc.probe env { e with kid := kid }
            { w1 with cc := w1.cc + 1 } h1
          cases hr : Map.insert cfg env { e with kid := kid } { w1 with cc := w1.cc + 1 } with
          | ok pr =>
            obtain ⟨o, w3⟩ := pr
            rw [hr] at hi hv
            have hb := ch_maskStep_bound h1.1 hi.2
            have hit : w3.t.items ≤ w.t.items + 1 := by
              cases o with
              | none => have := hv.2.1; rw [this]; show w1.t.items + 1 ≤ _; rw [k2]
              | some v => obtain ⟨a, b⟩ := v; have := hv.2.1; rw [this]; show w1.t.items ≤ _; rw [k2]; omega
            refine (ih w3 hi.1).trans ?_ (by rw [List.length_cons]; omega)
            have hb' : bucketMaskToCapacity w3.t.mask ≤
                max (bucketMaskToCapacity w1.t.mask) (max 14 (4 * w1.t.items)) := hb
            rw [k2] at hb'
            omega
          | panic c w' =>
            rw [hr] at hi
            exact ⟨hi.1, sc_CapStepN.of_maskStep h.1 (by have := hi.2; rw [← k2]; exact this) _⟩
          | abort => trivial
          | fault f => rw [hr] at hi; exact hi.elim
    · rw [k1]
      exact ⟨by rw [k2]; exact h, sc_CapStepN.of_mask_eq (by rw [k2]) _⟩

theorem sc_bitorAssign (hc : CfgOk cfg) (hg : GuardRuns cfg) (env : Env) {other : Raw}
    (ho : Inv cfg other) (w : World) (h : TInv cfg w.t) :
    sc_LoopOut cfg w.t other.items (Set.bitorAssign cfg env other w) := by
  unfold Set.bitorAssign
  rw [elemsOf_spec hc ho, ← ab_elems_length hc ho]
  exact sc_bitorAssignLoop hc hg env _ w h

theorem sc_bitxorAssignLoop (hc : CfgOk cfg) (hg : GuardRuns cfg) (env : Env) :
    ∀ (xs : List Elem) (w : World), TInv cfg w.t →
      sc_LoopOut cfg w.t xs.length (Set.bitxorAssignLoop cfg env xs w) := by
  intro xs
  induction xs with
  | nil => intro w h; exact ⟨h, sc_CapStepN.of_mask_eq rfl _⟩
  | cons e rest ih =>
    intro w h
    rw [ss_bitxorAssignLoop_cons]
    have hs := sc_search hc hg env e.k none w h
    have hsi := sc_search_items hc env e.k none w h
    cases hr : Set.search cfg env e.k none w with
    | ok pr =>
      obtain ⟨hv, r, w2⟩ := pr
      rw [hr] at hs hsi
      have hsi : w2.t.items = w.t.items := hsi
      cases r with
      | ok idx =>
        obtain ⟨a1, am, x, a2⟩ := hs
        have hb := ch_maskStep_bound h.1 am
        obtain ⟨t', r1, r2, r3, _⟩ := en_removeAt_TInv hc a1 a2
        have hm' := hs_removeAt_mask r1
        simp only [r1]
        have hdt := st_dropElem_t (cfg := cfg) env x { w2 with t := t' }
        cases hd : dropElem cfg env x { w2 with t := t' } with
        | mk dp w3 =>
          rw [hd] at hdt
          simp only at hdt
          have h3 : TInv cfg w3.t := by rw [hdt]; exact r2
          have hcap3 : bucketMaskToCapacity w3.t.mask ≤
              max (bucketMaskToCapacity w.t.mask) (max 14 (4 * w.t.items)) := by
            rw [hdt, hm']; exact hb
          have hit3 : w3.t.items ≤ w.t.items := by rw [hdt]; omega
          cases dp with
          | true =>
            show TInv cfg w3.t ∧ sc_CapStepN w.t w3.t _
            refine ⟨h3, ?_⟩
            unfold sc_CapStepN; omega
          | false =>
            simp only [Bool.false_eq_true, if_false]
            exact (ih w3 h3).trans (by omega) (by rw [List.length_cons]; omega)
      | error slot =>
        obtain ⟨a1, am, a2, a3, a4, a5⟩ := hs
        have hb := ch_maskStep_bound h.1 am
        simp only
        cases hcl : (Set.envOf env).clone w2.cc e with
        | none =>
          refine ⟨a1, ?_⟩
          have hb' : bucketMaskToCapacity w2.t.mask ≤ _ := hb
          show sc_CapStepN w.t w2.t _
          unfold sc_CapStepN; omega
        | some kv =>
          obtain ⟨kid, y⟩ := kv
          obtain ⟨t', b1, b2, b3, _, b5, _⟩ :=
            ag_insertInSlot hc (t := { w2 with cc := w2.cc + 1 }.t) a1 a5 a2 a3 (fun _ => a4)
              { e with kid := kid } hv
          simp only [b1]
          refine (ih _ b2).trans ?_ ?_
          · show bucketMaskToCapacity t'.mask ≤ _
            rw [b3]
            have hb' : bucketMaskToCapacity w2.t.mask ≤ _ := hb
            show bucketMaskToCapacity w2.t.mask ≤ _
            omega
          · show t'.items + rest.length ≤ _
            rw [b5, List.length_cons]
            show w2.t.items + 1 + rest.length ≤ _
            omega
    | panic c w' =>
      rw [hr] at hs
      exact ⟨hs.1, sc_CapStepN.of_maskStep h.1 hs.2 _⟩
    | abort => trivial
    | fault f => rw [hr] at hs; exact hs.elim

theorem sc_bitxorAssign (hc : CfgOk cfg) (hg : GuardRuns cfg) (env : Env) {other : Raw}
    (ho : Inv cfg other) (w : World) (h : TInv cfg w.t) :
    sc_LoopOut cfg w.t other.items (Set.bitxorAssign cfg env other w) := by
  unfold Set.bitxorAssign
  rw [elemsOf_spec hc ho, ← ab_elems_length hc ho]
  exact sc_bitxorAssignLoop hc hg env _ w h

/-! ### one call `target.op(&other)` -/

/-- The calls of a `HashSet` churn workload: everything except the explicit reservations `reserve`
    and `shrink_to` / `shrink_to_fit`. The assigning operators are included: none of them goes
    through `extend`'s size-hint reservation (`|=` is a loop of `contains` + `insert`, `^=` a loop of
    `find_or_find_insert_slot` + `remove` / `insert_in_slot`, `&=` and `-=` only remove). -/
def SetChurnOp : SetOp → Prop
  | .reserve _ => False
  | .shrinkTo _ => False
  | _ => True

instance : DecidablePred SetChurnOp := fun op => by
  cases op <;> simp only [SetChurnOp] <;> infer_instance

/-- Elements a single call may add to its target one by one, beyond what the call boundaries show:
    `len(other)` for `|=` and `^=`, nothing for every other call. -/
def Set.opExtra : SetOp → Raw → Nat
  | .bitorAssign, o => o.items
  | .bitxorAssign, o => o.items
  | _, _ => 0

/-- Outcome of one `HashSet` call relative to the target table `t` it started from. -/
def sc_SC (cfg : Cfg) (t : Raw) (n : Nat) : Res (Ret × World) → Prop
  | .ok (_, w') => TInv cfg w'.t ∧ sc_CapStepN t w'.t n
  | .panic _ w' => TInv cfg w'.t ∧ sc_CapStepN t w'.t n
  | .abort => True
  | .fault _ => False

theorem sc_wrap_S {α : Type} (g : α → Ret) {t : Raw} (hinv : Inv cfg t) {r : Res (α × World)}
    (h : cx_S cfg t (·.2) r) : sc_SC cfg t 0 (Set.wrap g r) := by
  cases r with
  | ok pr => obtain ⟨x, w'⟩ := pr; exact ⟨h.1, sc_CapStepN.of_maskStep hinv h.2 _⟩
  | panic c w' => exact ⟨h.1, sc_CapStepN.of_maskStep hinv h.2 _⟩
  | abort => trivial
  | fault f => exact h.elim

theorem sc_wrapU_S {t : Raw} (hinv : Inv cfg t) {r : Res World}
    (h : cx_S cfg t id r) : sc_SC cfg t 0 (Set.wrapU r) := by
  cases r with
  | ok w' => exact ⟨h.1, sc_CapStepN.of_maskStep hinv h.2 _⟩
  | panic c w' => exact ⟨h.1, sc_CapStepN.of_maskStep hinv h.2 _⟩
  | abort => trivial
  | fault f => exact h.elim

theorem sc_wrap_K {α : Type} (g : α → Ret) {t : Raw} {r : Res (α × World)}
    (h : cx_K cfg t.mask (·.2) r) : sc_SC cfg t 0 (Set.wrap g r) := by
  cases r with
  | ok pr => obtain ⟨x, w'⟩ := pr; exact ⟨h.1, sc_CapStepN.of_mask_eq h.2 _⟩
  | panic c w' => exact ⟨h.1, sc_CapStepN.of_mask_eq h.2 _⟩
  | abort => trivial
  | fault f => exact h.elim

theorem sc_wrapU_K {t : Raw} {r : Res World}
    (h : cx_K cfg t.mask id r) : sc_SC cfg t 0 (Set.wrapU r) := by
  cases r with
  | ok w' => exact ⟨h.1, sc_CapStepN.of_mask_eq h.2 _⟩
  | panic c w' => exact ⟨h.1, sc_CapStepN.of_mask_eq h.2 _⟩
  | abort => trivial
  | fault f => exact h.elim

theorem sc_wrapU_L {t : Raw} {n : Nat} {r : Res World}
    (h : sc_LoopOut cfg t n r) : sc_SC cfg t n (Set.wrapU r) := by
  cases r with
  | ok w' => exact h
  | panic c w' => exact h
  | abort => trivial
  | fault f => exact h.elim

/-- **One `HashSet` churn call** `target.op(&other)` (`w.t` = the target), returned or unwound,
    every environment: the target stays valid and its capacity stays below the larger of the old
    capacity and `max 14 (4 * (len + extra))`, `extra = len(other)` for `|=` / `^=`, `0` otherwise. -/
theorem sc_call (hc : CfgOk cfg) (hg : GuardRuns cfg) (env : Env) (op : SetOp) (hop : SetChurnOp op)
    (other : Raw) (w : World) (h : TInv cfg w.t) (ho : TInv cfg other) :
    sc_SC cfg w.t (Set.opExtra op other) (Set.call cfg env op other w) := by
  cases op with
  | insert k kid => exact sc_wrap_S _ h.1 (sc_setInsert_S hc hg env k kid w h)
  | remove k => exact sc_wrap_K _ (sc_setRemove_K hc env k w h)
  | take k => exact sc_wrap_K _ (sc_mapRemoveEntry_K hc env k w h)
  | replace e => exact sc_wrap_S _ h.1 (sc_setReplace_S hc hg env e w h)
  | getOrInsert e => exact sc_wrap_S _ h.1 (sc_setGetOrInsert_S hc hg env e w h)
  | getOrInsertWith k k2 kid2 =>
    exact sc_wrap_S _ h.1 (sc_setGetOrInsertWith_S hc hg env k k2 kid2 w h)
  | contains k => exact sc_wrap_K _ (sc_setContains_K hc env k w h)
  | get k => exact sc_wrap_K _ (sc_mapGet_K hc env k w h)
  | entryInsert e => exact sc_wrap_S _ h.1 (sc_setEntryInsert_S hc hg env e w h)
  | entryOrInsert e => exact sc_wrapU_S h.1 (sc_setEntryOrInsert_S hc hg env e w h)
  | entryRemove e => exact sc_wrap_K _ (sc_setEntryRemove_K hc env e w h)
  | retain => exact sc_wrapU_K (tc_retain_K hc (Set.envOf env) w h)
  | clear => exact sc_wrapU_K (tc_clear_K hc env w h)
  | reserve n => exact hop.elim
  | shrinkTo m => exact hop.elim
  | union => exact sc_wrap_K _ ((st_lazyOp hc env (st_unionSteps hc h.1 ho.1) w).toK h)
  | intersection =>
    exact sc_wrap_K _ ((st_lazyOp hc env (st_intersectionSteps hc h.1 ho.1) w).toK h)
  | difference => exact sc_wrap_K _ ((st_lazyOp hc env (st_differenceSteps hc h.1 ho.1) w).toK h)
  | symmetricDifference =>
    exact sc_wrap_K _ ((st_lazyOp hc env (st_symmetricDifferenceSteps hc h.1 ho.1) w).toK h)
  | isSubset => exact sc_wrap_K _ ((st_isSubsetOf hc env h.1 ho.1 w).toK h)
  | isSuperset => exact sc_wrap_K _ ((st_isSubsetOf hc env ho.1 h.1 w).toK h)
  | isDisjoint => exact sc_wrap_K _ ((st_isDisjoint hc env ho.1 w h.1).toK h)
  | eq => exact sc_wrap_K _ ((st_setEq hc env ho.1 w h.1).toK h)
  | bitorAssign => exact sc_wrapU_L (sc_bitorAssign hc hg env ho.1 w h)
  | bitandAssign => exact sc_wrapU_K (sc_bitandAssign_K hc env ho.1 w h)
  | bitxorAssign => exact sc_wrapU_L (sc_bitxorAssign hc hg env ho.1 w h)
  | subAssign => exact sc_wrapU_K (sc_subAssign_K hc env ho.1 w h)

end setChurn

/-! ## 4. `HashSet`: pairs and histories -/

/-- The other side of a pair. -/
def Side.other : Side → Side
  | .a => .b
  | .b => .a

/-- The table of one side of a pair. -/
def Set.Pair.tbl (s : Set.Pair) : Side → Raw
  | .a => s.a
  | .b => s.b

/-- What the call `c`, issued in pair `s`, may add to the table of `side` beyond what the call
    boundaries show (`len(other)` when `c` is `|=` / `^=` ON that side, else `0`). -/
def Set.callExtra (c : SetCall) (s : Set.Pair) (side : Side) : Nat :=
  if c.side = side then Set.opExtra c.op (s.view c.side).2 else 0

/-- Both tables of a pair are valid. -/
def sc_PairT (cfg : Cfg) (s : Set.Pair) : Prop := TInv cfg s.a ∧ TInv cfg s.b

theorem sc_PairT.tbl {s : Set.Pair} (h : sc_PairT cfg s) (side : Side) : TInv cfg (s.tbl side) := by
  cases side with
  | a => exact h.1
  | b => exact h.2

/-- Outcome of one churn call on a pair. -/
def sc_S2 (cfg : Cfg) (c : SetCall) (s : Set.Pair) : Set.Out2 → Prop
  | .ret _ s' => sc_PairT cfg s' ∧
      ∀ side, sc_CapStepN (s.tbl side) (s'.tbl side) (Set.callExtra c s side)
  | .panic _ s' => sc_PairT cfg s' ∧
      ∀ side, sc_CapStepN (s.tbl side) (s'.tbl side) (Set.callExtra c s side)
  | .abort => True
  | .fault _ => False

/-- **One churn call on a pair of sets** (either side, returned or unwound), every environment. -/
theorem sc_step2 (hc : CfgOk cfg) (hg : GuardRuns cfg) (env : Env) (c : SetCall)
    (hop : SetChurnOp c.op) (s : Set.Pair) (hs : sc_PairT cfg s) :
    sc_S2 cfg c s (Set.step2 cfg env c s) := by
  obtain ⟨ha, hb⟩ := hs
  obtain ⟨sd, op⟩ := c
  cases sd with
  | a =>
    have hcall := sc_call hc hg env op hop s.b s.w ha hb
    have hst : Set.step2 cfg env ⟨.a, op⟩ s =
        match Set.call cfg env op s.b s.w with
        | .ok (r, w') => .ret r { w := w', b := s.b }
        | .panic cls w' => .panic cls { w := w', b := s.b }
        | .abort => .abort
        | .fault f => .fault f := rfl
    rw [hst]
    cases hr : Set.call cfg env op s.b s.w with
    | ok pr =>
      obtain ⟨r, w'⟩ := pr
      rw [hr] at hcall
      refine ⟨⟨hcall.1, hb⟩, fun side => ?_⟩
      cases side with
      | a => exact hcall.2
      | b => exact sc_CapStepN.of_mask_eq rfl _
    | panic cls w' =>
      rw [hr] at hcall
      refine ⟨⟨hcall.1, hb⟩, fun side => ?_⟩
      cases side with
      | a => exact hcall.2
      | b => exact sc_CapStepN.of_mask_eq rfl _
    | abort => trivial
    | fault f => rw [hr] at hcall; exact hcall.elim
  | b =>
    have hcall := sc_call hc hg env op hop s.w.t { s.w with t := s.b } hb ha
    have hst : Set.step2 cfg env ⟨.b, op⟩ s =
        match Set.call cfg env op s.w.t { s.w with t := s.b } with
        | .ok (r, w') => .ret r { w := { w' with t := s.w.t }, b := w'.t }
        | .panic cls w' => .panic cls { w := { w' with t := s.w.t }, b := w'.t }
        | .abort => .abort
        | .fault f => .fault f := rfl
    rw [hst]
    cases hr : Set.call cfg env op s.w.t { s.w with t := s.b } with
    | ok pr =>
      obtain ⟨r, w'⟩ := pr
      rw [hr] at hcall
      refine ⟨⟨ha, hcall.1⟩, fun side => ?_⟩
      cases side with
      | a => exact sc_CapStepN.of_mask_eq rfl _
      | b => exact hcall.2
    | panic cls w' =>
      rw [hr] at hcall
      refine ⟨⟨ha, hcall.1⟩, fun side => ?_⟩
      cases side with
      | a => exact sc_CapStepN.of_mask_eq rfl _
      | b => exact hcall.2
    | abort => trivial
    | fault f => rw [hr] at hcall; exact hcall.elim

/-- Peak live size of one side over a history of calls on a pair: the maximum, over all the pairs
    the run goes through (start, after every call — returned or unwound —, end), of `len()` of that
    side, where a `|=` / `^=` call on that side counts `len(self) + len(rhs)` for the state it is
    issued in (its insertions happen one by one inside the call). -/
def Set.run2Peak (cfg : Cfg) (env : Env) (side : Side) : List SetCall → Set.Pair → Nat
  | [], s => (s.tbl side).items
  | c :: rest, s =>
    match Set.step2 cfg env c s with
    | .ret _ s' =>
      max ((s.tbl side).items + Set.callExtra c s side) (Set.run2Peak cfg env side rest s')
    | .panic _ s' =>
      max ((s.tbl side).items + Set.callExtra c s side) (Set.run2Peak cfg env side rest s')
    | .abort => (s.tbl side).items + Set.callExtra c s side
    | .fault _ => (s.tbl side).items + Set.callExtra c s side

theorem Set.run2Peak_ge_start (env : Env) (side : Side) (cs : List SetCall) (s : Set.Pair) :
    (s.tbl side).items ≤ Set.run2Peak cfg env side cs s := by
  cases cs with
  | nil => exact Nat.le_refl _
  | cons c rest =>
    unfold Set.run2Peak
    split <;> omega

/-- `run2Peak` dominates `len()` of the side in every pair of `Set.states2`. -/
theorem Set.run2Peak_ge_states (env : Env) (side : Side) : ∀ (cs : List SetCall) (s : Set.Pair),
    ∀ s' ∈ Set.states2 cfg env cs s, (s'.tbl side).items ≤ Set.run2Peak cfg env side cs s := by
  intro cs
  induction cs with
  | nil =>
    intro s s' hs'
    simp only [Set.states2, List.mem_singleton] at hs'
    rw [hs']; exact Nat.le_refl _
  | cons c rest ih =>
    intro s s' hs'
    simp only [Set.states2, Set.run2Peak] at hs' ⊢
    cases hst : Set.step2 cfg env c s with
    | ret r s1 =>
      rw [hst] at hs'
      simp only at hs' ⊢
      rcases List.mem_cons.mp hs' with rfl | hs'
      · omega
      · have := ih s1 s' hs'; omega
    | panic cls s1 =>
      rw [hst] at hs'
      simp only at hs' ⊢
      rcases List.mem_cons.mp hs' with rfl | hs'
      · omega
      · have := ih s1 s' hs'; omega
    | abort =>
      rw [hst] at hs'
      simp only [List.mem_singleton] at hs' ⊢
      rw [hs']; omega
    | fault f =>
      rw [hst] at hs'
      simp only [List.mem_singleton] at hs' ⊢
      rw [hs']; omega

/-- Induction behind `set_churn_bound`, from any two valid tables. `P side` is the peak "so far". -/
theorem sc_run_bound (hc : CfgOk cfg) (hg : GuardRuns cfg) (env : Env)
    (cs : List SetCall) (hops : ∀ c ∈ cs, SetChurnOp c.op) (s0 : Set.Pair) (P : Side → Nat)
    (h0 : sc_PairT cfg s0)
    (hb : ∀ side, bucketMaskToCapacity (s0.tbl side).mask ≤ max 14 (4 * P side))
    (obs : List Map.Obs) (sf : Set.Pair) (hrun : Set.run2 cfg env cs s0 = some (obs, sf)) :
    sc_PairT cfg sf ∧
    ∀ side, bucketMaskToCapacity (sf.tbl side).mask ≤
      max 14 (4 * max (P side) (Set.run2Peak cfg env side cs s0)) := by
  induction cs generalizing s0 P obs with
  | nil =>
    simp only [Set.run2, Option.some.injEq, Prod.mk.injEq] at hrun
    rw [← hrun.2]
    exact ⟨h0, fun side => by have := hb side; omega⟩
  | cons c rest ih =>
    have hst := sc_step2 hc hg env c (hops c (List.mem_cons_self ..)) s0 h0
    have hrest : ∀ c ∈ rest, SetChurnOp c.op := fun o ho => hops o (List.mem_cons_of_mem _ ho)
    simp only [Set.run2] at hrun
    cases hs : Set.step2 cfg env c s0 with
    | ret r s1 =>
      rw [hs] at hrun hst
      simp only [Option.map_eq_some_iff] at hrun
      obtain ⟨⟨os, sf'⟩, hr, heq⟩ := hrun
      simp only [Prod.mk.injEq] at heq
      have := ih hrest s1 (fun side => max (P side) ((s0.tbl side).items + Set.callExtra c s0 side))
        hst.1 (fun side => by
          have h1 : bucketMaskToCapacity (s1.tbl side).mask ≤ _ := hst.2 side
          have h2 := hb side
          omega) os (by rw [hr, heq.2])
      refine ⟨this.1, fun side => ?_⟩
      have h2 := this.2 side
      simp only [Set.run2Peak, hs] at h2 ⊢
      omega
    | panic cls s1 =>
      rw [hs] at hrun hst
      simp only [Option.map_eq_some_iff] at hrun
      obtain ⟨⟨os, sf'⟩, hr, heq⟩ := hrun
      simp only [Prod.mk.injEq] at heq
      have := ih hrest s1 (fun side => max (P side) ((s0.tbl side).items + Set.callExtra c s0 side))
        hst.1 (fun side => by
          have h1 : bucketMaskToCapacity (s1.tbl side).mask ≤ _ := hst.2 side
          have h2 := hb side
          omega) os (by rw [hr, heq.2])
      refine ⟨this.1, fun side => ?_⟩
      have h2 := this.2 side
      simp only [Set.run2Peak, hs] at h2 ⊢
      omega
    | abort => rw [hs] at hrun; cases hrun
    | fault f => rw [hs] at hrun; cases hrun

/-- **C13 for `HashSet`, capacity form.** From `(HashSet::new(), HashSet::new())`, after any history
    of calls on either set — `insert`, `replace`, `get_or_insert`, `get_or_insert_with`, `entry` +
    `insert` / `or_insert` / `remove`, `remove`, `take`, `retain`, `clear`, look-ups, the four lazy
    set-algebra iterators, the predicates, `|=` `&=` `^=` `-=` in both directions; no `reserve`, no
    `shrink_to` — EVERY environment (panics caught and the history continued): for each side the
    capacity is at most `max 14 (4 * peak of that side)`. -/
theorem set_churn_bound (hc : CfgOk cfg) (hg : GuardRuns cfg) (env : Env)
    (cs : List SetCall) (hops : ∀ c ∈ cs, SetChurnOp c.op) (s0 : Set.Pair)
    (ha : s0.a = Raw.new cfg.W) (hb : s0.b = Raw.new cfg.W)
    (obs : List Map.Obs) (sf : Set.Pair) (hrun : Set.run2 cfg env cs s0 = some (obs, sf)) :
    ∀ side, TInv cfg (sf.tbl side) ∧
      bucketMaskToCapacity (sf.tbl side).mask ≤ max 14 (4 * Set.run2Peak cfg env side cs s0) := by
  have hT : sc_PairT cfg s0 := ⟨by rw [ha]; exact TInv.new hc, by rw [hb]; exact TInv.new hc⟩
  have hb0 : ∀ side, bucketMaskToCapacity (s0.tbl side).mask ≤ max 14 (4 * (fun _ => 0) side) := by
    intro side
    cases side with
    | a => show bucketMaskToCapacity s0.a.mask ≤ _; rw [ha]; simp [Raw.new, bucketMaskToCapacity]
    | b => show bucketMaskToCapacity s0.b.mask ≤ _; rw [hb]; simp [Raw.new, bucketMaskToCapacity]
  have := sc_run_bound hc hg env cs hops s0 (fun _ => 0) hT hb0 obs sf hrun
  intro side
  refine ⟨this.1.tbl side, ?_⟩
  have h2 := this.2 side
  omega

/-- The same with the workload's bound `n` on the live size of the side. -/
theorem set_churn_bound_n (hc : CfgOk cfg) (hg : GuardRuns cfg) (env : Env)
    (cs : List SetCall) (hops : ∀ c ∈ cs, SetChurnOp c.op) (s0 : Set.Pair)
    (ha : s0.a = Raw.new cfg.W) (hb : s0.b = Raw.new cfg.W)
    (obs : List Map.Obs) (sf : Set.Pair) (hrun : Set.run2 cfg env cs s0 = some (obs, sf))
    (side : Side) (n : Nat) (hn : Set.run2Peak cfg env side cs s0 ≤ n) :
    bucketMaskToCapacity (sf.tbl side).mask ≤ max 14 (4 * n) := by
  have := (set_churn_bound hc hg env cs hops s0 ha hb obs sf hrun side).2
  omega

/-- **C13 for `HashSet`, bucket-count / relative / bytes forms** (the fixed multiple is 4). -/
theorem set_churn_bound_bytes (hc : CfgOk cfg) (hg : GuardRuns cfg) (env : Env)
    (cs : List SetCall) (hops : ∀ c ∈ cs, SetChurnOp c.op) (s0 : Set.Pair)
    (ha : s0.a = Raw.new cfg.W) (hb : s0.b = Raw.new cfg.W)
    (obs : List Map.Obs) (sf : Set.Pair) (hrun : Set.run2 cfg env cs s0 = some (obs, sf))
    (side : Side) (n b : Nat) (hn : n ≠ 0) (hpk : Set.run2Peak cfg env side cs s0 ≤ n)
    (hbk : capacityToBuckets cfg.bits cfg.W cfg.size n = some b) :
    (sf.tbl side).buckets ≤ max 16 (32 * Set.run2Peak cfg env side cs s0 / 7) ∧
    (sf.tbl side).buckets ≤ 4 * b ∧
    ∃ sz, allocationSize cfg (sf.tbl side) = .ok sz ∧
      (∀ l, calculateLayoutFor cfg.bits cfg.W cfg.size (ctrlAlignOf cfg) b = some l →
        sz ≤ 4 * l.size) ∧
      (∀ L, calculateLayoutFor cfg.bits cfg.W cfg.size (ctrlAlignOf cfg) (4 * b) = some L →
        sz ≤ L.size) := by
  obtain ⟨hT, hC⟩ := set_churn_bound hc hg env cs hops s0 ha hb obs sf hrun side
  exact tc_buckets_bytes_of_cap hc hT hC hn hpk hbk

/-! ## 5. C13 termination and C12 in every reachable state -/

/-- **C13, termination, `HashTable`.** `HashTable::find(hash, eq)` with ANY hash and ANY `eq`
    closure, in any state satisfying the structural invariant — in particular an absent key in a
    table saturated with tombstones: it returns (the element of a live bucket, or `None`) or unwinds
    with the panic of `eq`; the table is untouched; never a fault, never the "probe sequence
    exhausted" outcome of the fuel-bounded loop. -/
theorem table_find_terminates (hc : CfgOk cfg) (env : Env) (hash q : Nat) (w : World)
    (h : Inv cfg w.t) :
    (∃ r w', Table.findElem cfg env hash q w = .ok (r, w') ∧ w'.t = w.t ∧
      ∀ e, r = some e → ∃ idx, idx < w.t.buckets ∧ w.t.slots[idx]?.join = some e) ∨
    (∃ w', Table.findElem cfg env hash q w = .panic "eq" w' ∧ w'.t = w.t) := by
  rcases find_total hc hc.probe env hash q w h with ⟨r, w', k1, k2, _, _, k5⟩ | ⟨w', k1, k2, _⟩
  · left
    cases r with
    | none =>
      refine ⟨none, w', by simp only [Table.findElem, k1, bind, Res.bind, pure], k2, ?_⟩
      intro e he; cases he
    | some idx =>
      obtain ⟨k3, _, x, hx⟩ := k5 idx rfl
      have hx' : w'.t.slots[idx]?.join = some x := by rw [k2]; exact hx
      refine ⟨some x, w', by simp only [Table.findElem, k1, bind, Res.bind, slotGet_ok hx', liftE, pure],
        k2, ?_⟩
      intro e he
      cases he
      exact ⟨idx, k3, hx⟩
  · right
    exact ⟨w', by simp only [Table.findElem, k1, bind, Res.bind], k2⟩

/-- **C13, termination, `HashSet`.** `contains` / `get` in any state satisfying the API invariant,
    whatever `Hash` and `Eq` do: they return or unwind with the table untouched; never a fault. -/
theorem set_lookup_terminates (hc : CfgOk cfg) (env : Env) (k : Nat) (w : World)
    (h : TInv cfg w.t) :
    ((∃ b w', Set.contains cfg env k w = .ok (b, w') ∧ w'.t = w.t) ∨
     (∃ c w', Set.contains cfg env k w = .panic c w' ∧ w'.t = w.t)) ∧
    ((∃ r w', Set.get cfg env k w = .ok (r, w') ∧ w'.t = w.t) ∨
     (∃ c w', Set.get cfg env k w = .panic c w' ∧ w'.t = w.t)) := by
  constructor
  · unfold Set.contains
    rcases st_getInner hc env k w h.1 with ⟨r, w', k1, k2, _⟩ | ⟨c, w', k1, k2⟩
    · left; exact ⟨r.isSome, w', by simp only [k1, bind, Res.bind, pure], k2⟩
    · right; exact ⟨c, w', by simp only [k1, bind, Res.bind], k2⟩
  · have h1 := Map.get_inv hc hc.probe env k w h
    unfold Set.get
    cases hr : Map.get cfg env k w with
    | ok pr => obtain ⟨r, w'⟩ := pr; rw [hr] at h1; exact Or.inl ⟨r, w', rfl, h1.1⟩
    | panic c w' => rw [hr] at h1; exact Or.inr ⟨c, w', rfl, h1.2.1⟩
    | abort => rw [hr] at h1; exact h1.elim
    | fault f => rw [hr] at h1; exact h1.elim

/-- **C12 in every reachable state of a `HashTable` history.** (`HashTable::try_reserve(n, hasher)`
    = `RawTable::try_reserve` = `Hb.tryReserve`, the function `HashMap::try_reserve` calls; the table
    model has no separate function. The re-hash closure is the table's `envFor cfg env`.) -/
theorem table_try_reserve_in_history (hc : CfgOk cfg) (hg : GuardRuns cfg) (env : Env)
    (ops : List TableOp) (w0 : World) (h0 : w0.t = Raw.new cfg.W) :
    ∀ w ∈ Table.statesH cfg env ops w0, ∀ additional,
      match tryReserve cfg (Table.envFor cfg env) additional w with
      | .ok (.ok (), w') =>
        TInv cfg w'.t ∧ w'.t.items = w.t.items ∧ List.Perm w'.t.elems w.t.elems ∧
        w.t.items + additional ≤ w'.t.capacity ∧ (additional ≤ w.t.gl → w' = w)
      | .ok (.error e, w') =>
        w'.t = w.t ∧ w'.log = w.log ∧
        (e = .capacityOverflow ∨ ∃ sz al, e = .allocError sz al ∧ env.allocOk w.ac = false)
      | .panic c w' => c = "hash" ∧ w'.t.mask = w.t.mask ∧ TInv cfg w'.t
      | .abort => False
      | .fault _ => False := by
  intro w hw additional
  have hT := table_states_TInv hc hg env ops w0 h0 w hw
  have h1 := tryReserve_spec hc hc.probe (Table.envFor cfg env) additional w hT
  cases hr : tryReserve cfg (Table.envFor cfg env) additional w with
  | ok pr =>
    obtain ⟨r, w'⟩ := pr
    rw [hr] at h1
    cases r with
    | ok u => cases u; exact ⟨h1.1, h1.2.1, h1.2.2.1, h1.2.2.2.1, h1.2.2.2.2.2.2⟩
    | error e =>
      refine ⟨h1.1, h1.2.1, ?_⟩
      rcases h1.2.2.2 with he | ⟨b, _, he, hno⟩
      · exact Or.inl he
      · exact Or.inr ⟨_, _, he, hno⟩
  | panic c w' => rw [hr] at h1; exact ⟨h1.1, h1.2.1, (h1.2.2 hg).1⟩
  | abort => rw [hr] at h1; exact h1
  | fault f => rw [hr] at h1; exact h1

/-- **C12 in every reachable state of a `HashSet` pair history**, either side
    (`HashSet::try_reserve` = `self.map.try_reserve` = `RawTable::try_reserve` = `Hb.tryReserve`). -/
theorem set_try_reserve_in_history (hc : CfgOk cfg) (hg : GuardRuns cfg) (env : Env)
    (cs : List SetCall) (s0 : Set.Pair) (ha : s0.a = Raw.new cfg.W) (hb : s0.b = Raw.new cfg.W) :
    ∀ s ∈ Set.states2 cfg env cs s0, ∀ (side : Side) (additional : Nat),
      match tryReserve cfg env additional (s.view side).1 with
      | .ok (.ok (), w') =>
        TInv cfg w'.t ∧ w'.t.items = (s.view side).1.t.items ∧
        List.Perm w'.t.elems (s.view side).1.t.elems ∧
        (s.view side).1.t.items + additional ≤ w'.t.capacity ∧
        (additional ≤ (s.view side).1.t.gl → w' = (s.view side).1)
      | .ok (.error e, w') =>
        w'.t = (s.view side).1.t ∧ w'.log = (s.view side).1.log ∧
        (e = .capacityOverflow ∨
          ∃ sz al, e = .allocError sz al ∧ env.allocOk (s.view side).1.ac = false)
      | .panic c w' => c = "hash" ∧ w'.t.mask = (s.view side).1.t.mask ∧ TInv cfg w'.t
      | .abort => False
      | .fault _ => False := by
  intro s hs side additional
  have hT := (set_states_TInv hc hg env cs s0 ha hb s hs side).1
  have h1 := tryReserve_spec hc hc.probe env additional (s.view side).1 hT
  cases hr : tryReserve cfg env additional (s.view side).1 with
  | ok pr =>
    obtain ⟨r, w'⟩ := pr
    rw [hr] at h1
    cases r with
    | ok u => cases u; exact ⟨h1.1, h1.2.1, h1.2.2.1, h1.2.2.2.1, h1.2.2.2.2.2.2⟩
    | error e =>
      refine ⟨h1.1, h1.2.1, ?_⟩
      rcases h1.2.2.2 with he | ⟨b, _, he, hno⟩
      · exact Or.inl he
      · exact Or.inr ⟨_, _, he, hno⟩
  | panic c w' => rw [hr] at h1; exact ⟨h1.1, h1.2.1, (h1.2.2 hg).1⟩
  | abort => rw [hr] at h1; exact h1
  | fault f => rw [hr] at h1; exact h1

/-! ## 6. non-vacuity: evaluated workloads -/

/-- `(mask, len, growth_left, #DELETED)` at the end of a `HashTable` run. -/
def tcSummary (cfg : Cfg) (env : Env) (ops : List TableOp) (w0 : World) :
    Option (Nat × Nat × Nat × Nat) :=
  (Table.runH cfg env ops w0).map fun r =>
    (r.2.t.mask, r.2.t.items, r.2.t.gl, r.2.t.countCtrl (· == DELETED))

def tcIns (k : Nat) : TableOp := .insertUnique k (chElem k)
def tcRem (k : Nat) : TableOp := .findEntryRemove k k none

/-- 120 calls: `insert_unique i; find_entry(i - 3).remove()` for `i < 60` — 60 elements pass through
    the table, at most 4 are live. -/
def tcOpsA : List TableOp := (List.range 60).flatMap fun i => [tcIns i, tcRem (i - 3)]

/-- 60 calls, live size ≤ 9 (the `HashTable` version of `chOpsB`): fill to 8 with `insert_unique`,
    slide a window (every `find_entry().remove()` leaves a tombstone), drop to 3 live elements, then
    slide a window of 3–4 elements with `entry().or_insert` / `find_entry().remove()`. -/
def tcOpsB : List TableOp :=
  (List.range 8).map (fun i => tcIns i) ++
  (List.range 5).flatMap (fun i => [tcIns (8 + i), tcRem i]) ++
  (List.range 5).map (fun i => tcRem (5 + i)) ++
  (List.range 18).flatMap (fun i =>
    [.entryOrInsert (13 + i) (13 + i) (chElem (13 + i)), tcRem (10 + i)]) ++
  [.find 30 30]

/-- Portable group width: 60 elements pass through, at most 4 live: the table never has more than
    8 buckets (capacity 7 ≤ `max 14 (4 * 4)`). -/
theorem table_churn_example_small :
    tcOpsA.length = 120 ∧ (∀ op ∈ tcOpsA, TableChurnOp op) ∧
    Table.runHPeak { ops := Generic.ops } chEnv tcOpsA { t := Raw.new 8 } = 4 ∧
    tcSummary { ops := Generic.ops } chEnv tcOpsA { t := Raw.new 8 } = some (7, 3, 4, 0) := by
  refine ⟨by decide +kernel, by decide +kernel, by decide +kernel, by decide +kernel⟩

/-- After 25 calls the 16-bucket table holds 3 elements, 11 tombstones and has no growth left; the
    26th call (`entry().or_insert`, whose `reserve(1)` runs first) rehashes in place: same mask, no
    tombstone, `growth_left = 10`. At the end: still 16 buckets. -/
theorem table_churn_example_reclaim :
    tcOpsB.length = 60 ∧ (∀ op ∈ tcOpsB, TableChurnOp op) ∧
    Table.runHPeak { ops := Generic.ops } chEnv tcOpsB { t := Raw.new 8 } = 9 ∧
    tcSummary { ops := Generic.ops } chEnv (tcOpsB.take 25) { t := Raw.new 8 } =
      some (15, 3, 0, 11) ∧
    tcSummary { ops := Generic.ops } chEnv (tcOpsB.take 26) { t := Raw.new 8 } =
      some (15, 4, 10, 0) ∧
    tcSummary { ops := Generic.ops } chEnv tcOpsB { t := Raw.new 8 } = some (15, 3, 11, 0) := by
  refine ⟨by decide +kernel, by decide +kernel, by decide +kernel, by decide +kernel,
    by decide +kernel, by decide +kernel⟩

/-- The hypotheses of `table_churn_bound` are satisfiable (`hs` is `generic_groupSpec` of
    `Hb/Proofs/Group.lean`, not imported here). -/
theorem table_churn_example_bound (hs : GroupSpec Generic.ops) :
    ∀ obs w, Table.runH { ops := Generic.ops } chEnv tcOpsB { t := Raw.new 8 } = some (obs, w) →
      bucketMaskToCapacity w.t.mask ≤ 36 ∧ w.t.buckets ≤ 41 := by
  intro obs w hrun
  have hc : CfgOk { ops := Generic.ops } := ⟨hs, by decide⟩
  have hg : GuardRuns { ops := Generic.ops } := Or.inr rfl
  have hops := table_churn_example_reclaim.2.1
  have hpk := table_churn_example_reclaim.2.2.1
  have h1 := table_churn_bound hc hg chEnv tcOpsB hops { t := Raw.new 8 } rfl obs w hrun
  have h2 := table_churn_bound_buckets hc hg chEnv tcOpsB hops { t := Raw.new 8 } rfl obs w hrun
  rw [hpk] at h1 h2
  exact ⟨by have := h1.2; omega, by omega⟩

/-- `((mask, len, growth_left, #DELETED) of a, the same of b)` at the end of a run on a pair. -/
def scSummary (cfg : Cfg) (env : Env) (cs : List SetCall) (s0 : Set.Pair) :
    Option ((Nat × Nat × Nat × Nat) × (Nat × Nat × Nat × Nat)) :=
  (Set.run2 cfg env cs s0).map fun r =>
    ((r.2.a.mask, r.2.a.items, r.2.a.gl, r.2.a.countCtrl (· == DELETED)),
     (r.2.b.mask, r.2.b.items, r.2.b.gl, r.2.b.countCtrl (· == DELETED)))

/-- `chEnv` with a `Clone` that succeeds (the assigning operators clone the right operand's
    elements). -/
def scEnv : Env := { chEnv with clone := fun _ e => some (e.kid + 1000, 0) }

def scIns (sd : Side) (k : Nat) : SetCall := ⟨sd, .insert k k⟩
def scRem (sd : Side) (k : Nat) : SetCall := ⟨sd, .remove k⟩

/-- 120 calls on side `a`: `insert i; remove (i - 3)` for `i < 60` — 60 elements pass through the
    set, at most 4 are live. -/
def scOpsC : List SetCall := (List.range 60).flatMap fun i => [scIns .a i, scRem .a (i - 3)]

/-- 80 calls on a pair: per round `b` receives two fresh keys, `a |= &b` (even rounds) or `a ^= &b`
    (odd rounds) moves them into `a`, `b` is emptied again, the two keys of the previous round leave
    `a`, then `a.is_subset(&b)`. 20 elements pass through `a`; the accounted live size of `a` is at
    most 4 (2 live + 2 in flight during the operator), of `b` at most 2. -/
def scOpsA : List SetCall :=
  (List.range 10).flatMap fun i =>
    [scIns .b (2 * i), scIns .b (2 * i + 1),
     ⟨.a, if i % 2 = 0 then .bitorAssign else .bitxorAssign⟩,
     scRem .b (2 * i), scRem .b (2 * i + 1), scRem .a (2 * i - 2), scRem .a (2 * i - 1),
     ⟨.a, .isSubset⟩]

/-- 60 calls on side `a`, live size ≤ 9 (the `HashSet` version of `chOpsB`). -/
def scOpsB : List SetCall :=
  (List.range 8).map (fun i => scIns .a i) ++
  (List.range 5).flatMap (fun i => [scIns .a (8 + i), scRem .a i]) ++
  (List.range 5).map (fun i => scRem .a (5 + i)) ++
  (List.range 18).flatMap (fun i =>
    [⟨.a, .getOrInsert (Set.elemOf (13 + i) (13 + i))⟩, ⟨.a, .take (10 + i)⟩]) ++
  [⟨.a, .contains 30⟩]

/-- Portable group width: 60 elements pass through set `a`, at most 4 live: never more than
    8 buckets (capacity 7 ≤ `max 14 (4 * 4)`). -/
theorem set_churn_example_small :
    scOpsC.length = 120 ∧ (∀ c ∈ scOpsC, SetChurnOp c.op) ∧
    Set.run2Peak { ops := Generic.ops } chEnv .a scOpsC (Set.Pair.new { ops := Generic.ops }) = 4 ∧
    scSummary { ops := Generic.ops } chEnv scOpsC (Set.Pair.new { ops := Generic.ops }) =
      some ((7, 3, 4, 0), (0, 0, 0, 0)) := by
  refine ⟨by decide +kernel, by decide +kernel, by decide +kernel, by decide +kernel⟩

/-- The assigning operators `|=` / `^=` in a churn workload: `a` never has more than 8 buckets,
    `b` never more than 4. -/
theorem set_churn_example_operators :
    scOpsA.length = 80 ∧ (∀ c ∈ scOpsA, SetChurnOp c.op) ∧
    scSummary { ops := Generic.ops } scEnv scOpsA (Set.Pair.new { ops := Generic.ops }) =
      some ((7, 2, 5, 0), (3, 0, 3, 0)) := by
  refine ⟨by decide +kernel, by decide +kernel, by decide +kernel⟩

theorem set_churn_example_operators_peak :
    Set.run2Peak { ops := Generic.ops } scEnv .a scOpsA (Set.Pair.new { ops := Generic.ops }) = 4 ∧
    Set.run2Peak { ops := Generic.ops } scEnv .b scOpsA (Set.Pair.new { ops := Generic.ops }) = 2 := by
  refine ⟨by decide +kernel, by decide +kernel⟩

/-- After 25 calls set `a` (16 buckets) holds 3 elements, 11 tombstones and has no growth left; the
    26th call (`get_or_insert`) rehashes in place; at the end still 16 buckets. -/
theorem set_churn_example_reclaim :
    scOpsB.length = 60 ∧ (∀ c ∈ scOpsB, SetChurnOp c.op) ∧
    Set.run2Peak { ops := Generic.ops } chEnv .a scOpsB (Set.Pair.new { ops := Generic.ops }) = 9 ∧
    scSummary { ops := Generic.ops } chEnv (scOpsB.take 25) (Set.Pair.new { ops := Generic.ops }) =
      some ((15, 3, 0, 11), (0, 0, 0, 0)) ∧
    scSummary { ops := Generic.ops } chEnv (scOpsB.take 26) (Set.Pair.new { ops := Generic.ops }) =
      some ((15, 4, 10, 0), (0, 0, 0, 0)) ∧
    scSummary { ops := Generic.ops } chEnv scOpsB (Set.Pair.new { ops := Generic.ops }) =
      some ((15, 3, 11, 0), (0, 0, 0, 0)) := by
  refine ⟨by decide +kernel, by decide +kernel, by decide +kernel, by decide +kernel,
    by decide +kernel, by decide +kernel⟩

#print axioms tc_stepH
#print axioms table_grow_step_bound
#print axioms tc_run_bound
#print axioms table_churn_bound
#print axioms table_churn_bound_prefix
#print axioms table_churn_bound_n
#print axioms table_churn_bound_buckets
#print axioms table_churn_bound_buckets_rel
#print axioms table_churn_bound_bytes
#print axioms clear_keeps_allocation
#print axioms drain_keeps_allocation
#print axioms with_capacity_zero_allocates_nothing
#print axioms shrink_never_enlarges
#print axioms table_reserve_step
#print axioms table_shrink_step
#print axioms table_clear_step
#print axioms table_drain_step
#print axioms set_reserve_call
#print axioms set_shrink_call
#print axioms set_clear_call
#print axioms table_states_TInv
#print axioms set_states_TInv
#print axioms sc_call
#print axioms sc_step2
#print axioms sc_run_bound
#print axioms set_churn_bound
#print axioms set_churn_bound_n
#print axioms set_churn_bound_bytes
#print axioms table_find_terminates
#print axioms set_lookup_terminates
#print axioms table_try_reserve_in_history
#print axioms set_try_reserve_in_history
#print axioms table_churn_example_small
#print axioms table_churn_example_reclaim
#print axioms table_churn_example_bound
#print axioms set_churn_example_small
#print axioms set_churn_example_operators
#print axioms set_churn_example_operators_peak
#print axioms set_churn_example_reclaim

end Hb
