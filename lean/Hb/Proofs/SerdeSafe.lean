/-
The serde visitors (`src/external_trait_impls/serde.rs`, model `Hb/Model/Serde.lean`) under EVERY
environment: arbitrary / inconsistent `Hash` and `Eq` answers per call number, panicking `Hash`/`Eq`,
panicking destructors, an allocator that may refuse. Property C20 (and the clauses of C04 / C03
about it).

§1 safety: `feed_safe`, `dropLocal_safe`, `dropLocal_quiet`, `visitMapGen_safe`,
   `deserializeInPlace_safe`, `deserAssign_safe`.
§2 ledger of object identities and allocator blocks: `feed_ledger`, `visitMapGen_ledger`,
   `deserializeInPlace_ledger`, `deserAssign_ledger`, `visitMapGen_no_double_drop`.
§3 the reservation made before the first element is read, for every environment.
-/
import Hb.Proofs.SerdeSpec
import Hb.Proofs.LedgerPanic
namespace Hb.Serde
open Hb
set_option linter.unusedVariables false

variable {cfg : Cfg}

/-! ## §1 safety -/

/-- What every outcome of the insertion loop guarantees: never `.fault`; on every exit (end of
    input, input error, panic) the collection being filled is valid and `len` is its number of
    elements; `.abort` only when the allocator refused a request. -/
def LoopSafe (cfg : Cfg) (env : Env) : Res (Except Unit Unit × World) → Prop
  | .ok (_, w') => TInv cfg w'.t ∧ w'.t.items = w'.t.elems.length
  | .panic _ w' => TInv cfg w'.t ∧ w'.t.items = w'.t.elems.length
  | .abort => ∃ j, env.allocOk j = false
  | .fault _ => False

theorem quietEnv_dropPanics (env : Env) (c : Nat) (e : Elem) :
    (quietEnv env).dropPanics c e = false := rfl

theorem quietEnv_allocOk (env : Env) (j : Nat) : (quietEnv env).allocOk j = env.allocOk j := rfl

/-- The loop `while let Some((k, v)) = map.next_entry()? { values.insert(k, v); }` from any valid
    collection, for every environment. -/
theorem feed_safe (hc : CfgOk cfg) (hg : GuardRuns cfg) (env : Env) (fail : Fail) :
    ∀ (toks : List Elem) (i : Nat) (w : World), TInv cfg w.t →
      LoopSafe cfg env (feed cfg env fail i toks w) := by
  intro toks
  induction toks with
  | nil =>
    intro i w h
    simp only [feed]
    split <;> exact hs_good hc h
  | cons e rest ih =>
    intro i w h
    simp only [feed]
    split
    · exact hs_good hc h
    · split
      · rcases ag_dropKeyR (cfg := cfg) env e.kid w with ⟨w1, h1, ht, _⟩ | ⟨w1, h1, ht, _⟩
        · rw [h1]; show TInv cfg w1.t ∧ _; rw [ht]; exact hs_good hc h
        · rw [h1]; show TInv cfg w1.t ∧ _; rw [ht]; exact hs_good hc h
      · have hs := hs_step_safe hc hg env (.insert e) w h
        simp only [Map.step] at hs
        cases hr : Map.insert cfg env e w with
        | ok pr =>
          obtain ⟨r, w1⟩ := pr
          rw [hr] at hs
          simp only
          exact ih (i + 1) _ (by rw [discard_t]; exact hs.1)
        | panic c w1 => rw [hr] at hs; exact hs
        | abort => rw [hr] at hs; exact ⟨_, hs⟩
        | fault f => rw [hr] at hs; exact hs.elim

/-- Dropping the local `values`: never faults, never aborts; afterwards the world's table is the
    static singleton whether or not a destructor panicked. -/
theorem dropLocal_safe (hc : CfgOk cfg) (env : Env) (w : World) (h : TInv cfg w.t) :
    match dropLocal cfg env w with
    | .ok w' => w'.t = Raw.new cfg.W
    | .panic c w' => c = "drop" ∧ w'.t = Raw.new cfg.W ∧
        ∃ k e, env.dropPanics k e = true
    | .abort => False
    | .fault _ => False := by
  have hsp := dropInnerTable_spec hc env w.t { w with t := Raw.new cfg.W } h
  unfold dropLocal
  cases hr : dropInnerTable cfg env w.t { w with t := Raw.new cfg.W } with
  | ok w' => rw [hr] at hsp; exact hsp.1
  | panic c w' =>
    rw [hr] at hsp
    obtain ⟨a, b, _, _, ds, e, rest, _, _, hp⟩ := hsp
    exact ⟨a, b, _, _, hp⟩
  | abort => rw [hr] at hsp; exact hsp
  | fault f => rw [hr] at hsp; exact hsp

/-- While unwinding (destructors cannot start a second panic) the drop of `values` always
    completes: `"panic while unwinding"` is unreachable. -/
theorem dropLocal_quiet (hc : CfgOk cfg) (env : Env) (w : World) (h : TInv cfg w.t) :
    ∃ w', dropLocal cfg (quietEnv env) w = .ok w' ∧ w'.t = Raw.new cfg.W := by
  have hsp := dropLocal_safe hc (quietEnv env) w h
  cases hr : dropLocal cfg (quietEnv env) w with
  | ok w' => rw [hr] at hsp; exact ⟨w', rfl, hsp⟩
  | panic c w' =>
    rw [hr] at hsp
    obtain ⟨_, _, k, e, hp⟩ := hsp
    rw [quietEnv_dropPanics] at hp; cases hp
  | abort => rw [hr] at hsp; exact hsp.elim
  | fault f => rw [hr] at hsp; exact hsp.elim

/-- **`visit_map` / `visit_seq`, every environment.** Never `.fault` — in particular
    `"panic while unwinding"` is unreachable; `.abort` only if the allocator refused a request;
    on success the deserialised collection is valid and `len` is its number of elements; when the
    input error is returned the partially built local collection is gone (the world's table is the
    static singleton); after a panic likewise, except when `with_capacity` itself panicked with
    `"capacity overflow"` before anything was built (then the world is untouched). -/
theorem visitMapGen_safe (hc : CfgOk cfg) (hg : GuardRuns cfg) (env : Env) (hint : Option Nat)
    (toks : List Elem) (fail : Fail) (w : World) :
    match visitMapGen cfg env hint toks fail w with
    | .ok (.ok (), w') => TInv cfg w'.t ∧ w'.t.items = w'.t.elems.length
    | .ok (.error (), w') => w'.t = Raw.new cfg.W
    | .panic c w' => w'.t = Raw.new cfg.W ∨ (c = "capacity" ∧ w' = w)
    | .abort => ∃ j, env.allocOk j = false
    | .fault _ => False := by
  unfold visitMapGen
  have hwc := withCapacity_spec hc env (cautious hint) w
  cases hc0 : withCapacity cfg env (cautious hint) w with
  | ok w0 =>
    rw [hc0] at hwc
    simp only
    have hf := feed_safe hc hg env fail toks 0 w0 hwc.1
    cases hfe : feed cfg env fail 0 toks w0 with
    | ok pr =>
      obtain ⟨x, w1⟩ := pr
      rw [hfe] at hf
      cases x with
      | ok u => cases u; exact hf
      | error u =>
        cases u
        simp only
        have hd := dropLocal_safe hc env w1 hf.1
        cases hdl : dropLocal cfg env w1 with
        | ok w2 => rw [hdl] at hd; exact hd
        | panic c w2 => rw [hdl] at hd; exact Or.inl hd.2.1
        | abort => rw [hdl] at hd; exact hd.elim
        | fault f => rw [hdl] at hd; exact hd.elim
    | panic c w1 =>
      rw [hfe] at hf
      simp only
      obtain ⟨w2, h2, ht⟩ := dropLocal_quiet hc env w1 hf.1
      rw [h2]
      exact Or.inl ht
    | abort => rw [hfe] at hf; exact hf
    | fault f => rw [hfe] at hf; exact hf.elim
  | panic c w0 => rw [hc0] at hwc; exact Or.inr hwc
  | abort => rw [hc0] at hwc; exact ⟨_, hwc⟩
  | fault f => rw [hc0] at hwc; exact hwc.elim

/-- **`deserialize_in_place`, every environment**: `clear`, `reserve(cautious(hint))`, then the
    insertion loop on `place` itself. Never `.fault`; after ANY outcome — success, input error,
    panic — `place` is a valid collection whose `len` is its number of elements (on an input error
    it holds the elements read so far: the source does no clean-up); `.abort` only if the allocator
    refused a request. -/
theorem deserializeInPlace_safe (hc : CfgOk cfg) (hg : GuardRuns cfg) (env : Env)
    (hint : Option Nat) (toks : List Elem) (fail : Fail) (w : World) (h : TInv cfg w.t) :
    LoopSafe cfg env (deserializeInPlace cfg env hint toks fail w) := by
  unfold deserializeInPlace
  have h0 := hs_step_safe hc hg env .clear w h
  simp only [Map.step] at h0
  cases hcl : clear cfg env w with
  | ok w0 =>
    rw [hcl] at h0
    simp only
    have h1 := hs_step_safe hc hg env (.reserve (cautious hint)) w0 h0.1
    simp only [Map.step, Map.reserve_eq] at h1
    cases hrs : reserve cfg env (cautious hint) w0 with
    | ok w1 =>
      rw [hrs] at h1
      exact feed_safe hc hg env fail toks 0 w1 h1.1
    | panic c w1 => rw [hrs] at h1; exact h1
    | abort => rw [hrs] at h1; exact ⟨_, h1⟩
    | fault f => rw [hrs] at h1; exact h1.elim
  | panic c w0 => rw [hcl] at h0; exact h0
  | abort => rw [hcl] at h0; exact ⟨_, h0⟩
  | fault f => rw [hcl] at h0; exact h0.elim

/-- **`*target = Deserialize::deserialize(input)?`, every environment.** Never `.fault`; on an input
    error and on a panic inside the visitor the old collection is untouched (`w'.t = w.t`); on
    success the target is the new (valid) collection and the old one has been dropped: its elements
    exactly once, in bucket order, and its block freed. If a destructor of the OLD collection
    panics the target already is the new collection. -/
theorem deserAssign_safe (hc : CfgOk cfg) (hg : GuardRuns cfg) (env : Env) (hint : Option Nat)
    (toks : List Elem) (fail : Fail) (w : World) (h : TInv cfg w.t) :
    match deserAssign cfg env hint toks fail w with
    | .ok (.ok (), w') => TInv cfg w'.t ∧ w'.t.items = w'.t.elems.length ∧
        ∃ w1, visitMapGen cfg env hint toks fail w = .ok (.ok (), w1) ∧ w'.t = w1.t ∧
          w'.log = freeEvs cfg w.t ++ dropEvs cfg w.t.elems.reverse ++ w1.log
    | .ok (.error (), w') => w'.t = w.t
    | .panic c w' =>
        ((∃ w1, visitMapGen cfg env hint toks fail w = .panic c w1) ∧ w'.t = w.t) ∨
        (c = "drop" ∧ TInv cfg w'.t ∧ w'.t.items = w'.t.elems.length ∧
          ∃ w1, visitMapGen cfg env hint toks fail w = .ok (.ok (), w1) ∧ w'.t = w1.t)
    | .abort => ∃ j, env.allocOk j = false
    | .fault _ => False := by
  have hv := visitMapGen_safe hc hg env hint toks fail w
  unfold deserAssign
  cases hr : visitMapGen cfg env hint toks fail w with
  | ok pr =>
    obtain ⟨x, w1⟩ := pr
    rw [hr] at hv
    cases x with
    | ok u =>
      cases u
      simp only
      have hsp := dropInnerTable_spec hc env w.t w1 h
      cases hd : dropInnerTable cfg env w.t w1 with
      | ok w2 =>
        rw [hd] at hsp
        obtain ⟨ht, hlog, _⟩ := hsp
        refine ⟨by rw [ht]; exact hv.1, by rw [ht]; exact hv.2, w1, rfl, ht, hlog⟩
      | panic c w2 =>
        rw [hd] at hsp
        obtain ⟨a, ht, _⟩ := hsp
        exact Or.inr ⟨a, by rw [ht]; exact hv.1, by rw [ht]; exact hv.2, w1, rfl, ht⟩
      | abort => rw [hd] at hsp; exact hsp.elim
      | fault f => rw [hd] at hsp; exact hsp.elim
    | error u => cases u; rfl
  | panic c w1 => exact Or.inl ⟨⟨w1, rfl⟩, rfl⟩
  | abort => rw [hr] at hv; exact hv
  | fault f => rw [hr] at hv; exact hv.elim

/-! ## §2 ledger of object identities and allocator blocks (element types with drop glue) -/

/-- Key objects created by the input once it has yielded `n` complete entries and — if `half` — the
    key of entry `n` (its `next_value` then failed). -/
def builtK (toks : List Elem) (n : Nat) (half : Bool) : List Nat :=
  kidsOf (toks.take n) ++ (if half then kidsOf ((toks.drop n).take 1) else [])

/-- Value objects created by the input once it has yielded `n` complete entries. -/
def builtV (toks : List Elem) (n : Nat) : List Nat := vidsOf (toks.take n)

theorem builtK_cons (e : Elem) (rest : List Elem) (n : Nat) (half : Bool) :
    builtK (e :: rest) (n + 1) half = e.kid :: builtK rest n half := by
  simp [builtK, kidsOf]

theorem builtV_cons (e : Elem) (rest : List Elem) (n : Nat) :
    builtV (e :: rest) (n + 1) = e.vid :: builtV rest n := by
  simp [builtV, vidsOf]

theorem builtK_zero_false (toks : List Elem) : builtK toks 0 false = [] := by simp [builtK, kidsOf]
theorem builtV_zero (toks : List Elem) : builtV toks 0 = [] := by simp [builtV, vidsOf]

theorem builtK_zero_true (e : Elem) (rest : List Elem) : builtK (e :: rest) 0 true = [e.kid] := by
  simp [builtK, kidsOf]

theorem builtK_all (toks : List Elem) : builtK toks toks.length false = kidsOf toks := by
  simp [builtK]

theorem builtV_all (toks : List Elem) : builtV toks toks.length = vidsOf toks := by
  simp [builtV]

theorem discard_log (hnd : cfg.needsDrop = true) (r : Option (Nat × Nat)) (w : World) :
    (discard cfg r w).log =
      (match r with | some (vid, _) => [Ev.dropV vid] | none => []) ++ w.log := by
  unfold discard dropVal
  cases r with
  | none => rfl
  | some p => obtain ⟨vid, v⟩ := p; simp [hnd]

/-- One `values.insert(key, value);` that returns, the returned old value being dropped: the key
    and the value object passed in are afterwards stored or dropped (exactly one of the two), every
    object stored before still is stored or was dropped; the allocator frame is kept. -/
theorem insert_discard_ledger (hc : CfgOk cfg) (hnd : cfg.needsDrop = true) (env : Env) (e : Elem)
    (w : World) (h : TInv cfg w.t) {r : Option (Nat × Nat)} {w1 : World}
    (hm : Map.insert cfg env e w = .ok (r, w1)) :
    TInv cfg w1.t ∧ ∃ new, (discard cfg r w1).log = new ++ w.log ∧
      List.Perm (kidsOf w1.t.elems ++ droppedK new) (kidsOf w.t.elems ++ [e.kid]) ∧
      List.Perm (vidsOf w1.t.elems ++ droppedV new) (vidsOf w.t.elems ++ [e.vid]) ∧
      ∀ L, hs_AllocInvL cfg w L → hs_AllocInvL cfg (discard cfg r w1) L := by
  have hs : Map.step cfg env (.insert e) w = .ok (.val r, w1) := by simp only [Map.step, hm]
  have hop : ∀ n, MapOp.insert e ≠ .drain n true := fun n hx => by cases hx
  have hsafe := hs_step_safe hc (Or.inl hnd) env (.insert e) w h
  rw [hs] at hsafe
  obtain ⟨new1, l1, k1, v1, _⟩ := step_ledger hc hnd env (.insert e) w h hop hs
  have hfr := fun L x => lp_ok_frame hc hnd env (.insert e) w h hop hs (L := L) x
  refine ⟨hsafe.1, ?_⟩
  have hdl := discard_log hnd r w1
  cases r with
  | none =>
    refine ⟨new1, by rw [hdl, l1]; rfl, ?_, ?_, fun L x => ?_⟩
    · simpa [hs_retK, insertedK] using k1
    · simpa [hs_retV, insertedV] using v1
    · exact (hfr L x).congr (discard_t _ _ _) hdl
  | some p =>
    obtain ⟨vid, v⟩ := p
    refine ⟨Ev.dropV vid :: new1, by rw [hdl, l1]; rfl, ?_, ?_, fun L x => ?_⟩
    · simpa [hs_retK, insertedK, droppedK] using k1
    · simp only [hs_retV, insertedV] at v1
      simp only [droppedV]
      refine List.perm_iff_count.2 fun y => ?_
      have := List.perm_iff_count.1 v1 y
      simp only [List.count_append, List.count_cons, List.count_nil] at this ⊢
      omega
    · have hi : Inv cfg (discard cfg (some (vid, v)) w1).t := by rw [discard_t]; exact hsafe.1.1
      exact lp_frame_drops (w := w1) (ds := [Ev.dropV vid]) hsafe.1.1 hi hdl
        (fun ev hev => ⟨vid, Or.inr (List.mem_singleton.1 hev)⟩) (by rw [discard_t]) (hfr L x)

/-- One `values.insert(key, value);` that unwinds: key and value passed in are stored or dropped;
    at most one object is lost — the replaced old value, when the destructor of the spare key
    panicked while that value sat in the return slot. -/
theorem insert_panic_ledger (hc : CfgOk cfg) (hnd : cfg.needsDrop = true) (env : Env) (e : Elem)
    (w : World) (h : TInv cfg w.t) {c : String} {w1 : World}
    (hm : Map.insert cfg env e w = .panic c w1) :
    TInv cfg w1.t ∧ ∃ new lostV, w1.log = new ++ w.log ∧
      List.Perm (kidsOf w1.t.elems ++ droppedK new) (kidsOf w.t.elems ++ [e.kid]) ∧
      List.Perm (vidsOf w1.t.elems ++ droppedV new ++ lostV) (vidsOf w.t.elems ++ [e.vid]) ∧
      (∀ L, hs_AllocInvL cfg w L → hs_AllocInvL cfg w1 L) ∧
      (lostV = [] ∨ (c = "drop" ∧ ∃ v, lostV = [v])) ∧
      ((∀ c e, env.dropPanics c e = false) → lostV = []) := by
  have hs : Map.step cfg env (.insert e) w = .panic c w1 := by simp only [Map.step, hm]
  have hop : ∀ n, MapOp.insert e ≠ .drain n true := fun n hx => by cases hx
  have hsafe := hs_step_safe hc (Or.inl hnd) env (.insert e) w h
  rw [hs] at hsafe
  obtain ⟨new, lostK, lostV, leaked, l1, k1, v1, fr, lk, dp, _, ls, _⟩ :=
    lp_step_panic hc hnd env (.insert e) w h hop hs
  have hlk : leaked = [] := lk (fun n f hx => by cases hx)
  obtain ⟨hlK, hlV⟩ : lostK = [] ∧ (lostV = [] ∨ (c = "drop" ∧ ∃ old ∈ w.t.elems, lostV = [old.vid])) := ls
  subst hlK
  subst hlk
  refine ⟨hsafe.1, new, lostV, l1, by simpa [insertedK] using k1, by simpa [insertedV] using v1,
    fun L x => by simpa using fr L x, ?_, fun hd => ((dp hd).2 (fun n hx => by cases hx)).2⟩
  rcases hlV with hl | ⟨hcd, old, _, hl⟩
  · exact Or.inl hl
  · exact Or.inr ⟨hcd, _, hl⟩

/-- Ledger of the insertion loop started at call number `i` from the valid collection `w.t`. -/
def LoopLedger (cfg : Cfg) (env : Env) (fail : Fail) (i : Nat) (toks : List Elem) (w : World) :
    Res (Except Unit Unit × World) → Prop
  | .ok (x, w') => ∃ (n : Nat) (half : Bool) (new : List Ev), w'.log = new ++ w.log ∧
      List.Perm (kidsOf w'.t.elems ++ droppedK new) (kidsOf w.t.elems ++ builtK toks n half) ∧
      List.Perm (vidsOf w'.t.elems ++ droppedV new) (vidsOf w.t.elems ++ builtV toks n) ∧
      (∀ L, hs_AllocInvL cfg w L → hs_AllocInvL cfg w' L) ∧ n ≤ toks.length ∧
      match x with
      | .ok () => n = toks.length ∧ half = false
      | .error () => (fail = .atKey (i + n) ∧ half = false) ∨
          (fail = .atVal (i + n) ∧ half = true ∧ n < toks.length)
  | .panic c w' => ∃ (n : Nat) (half : Bool) (new : List Ev) (lostV : List Nat),
      w'.log = new ++ w.log ∧
      List.Perm (kidsOf w'.t.elems ++ droppedK new) (kidsOf w.t.elems ++ builtK toks n half) ∧
      List.Perm (vidsOf w'.t.elems ++ droppedV new ++ lostV) (vidsOf w.t.elems ++ builtV toks n) ∧
      (∀ L, hs_AllocInvL cfg w L → hs_AllocInvL cfg w' L) ∧ n ≤ toks.length ∧
      (lostV = [] ∨ (c = "drop" ∧ ∃ v, lostV = [v])) ∧
      ((∀ c e, env.dropPanics c e = false) → lostV = []) ∧
      ((half = false ∧ 0 < n) ∨ (fail = .atVal (i + n) ∧ half = true ∧ n < toks.length ∧ c = "drop"))
  | _ => True

theorem perm_glue2 {a b1 b2 m z i2 : List Nat} {i1 : Nat}
    (P1 : (m ++ b1).Perm (z ++ [i1])) (P2 : (a ++ b2).Perm (m ++ i2)) :
    (a ++ (b2 ++ b1)).Perm (z ++ i1 :: i2) := by
  rw [List.perm_iff_count] at *
  intro x
  have h1 := P1 x
  have h2 := P2 x
  simp only [List.count_append, List.count_cons, List.count_nil] at *
  omega

theorem perm_glue3 {a b1 b2 l m z i2 : List Nat} {i1 : Nat}
    (P1 : (m ++ b1).Perm (z ++ [i1])) (P2 : (a ++ b2 ++ l).Perm (m ++ i2)) :
    (a ++ (b2 ++ b1) ++ l).Perm (z ++ i1 :: i2) := by
  rw [List.perm_iff_count] at *
  intro x
  have h1 := P1 x
  have h2 := P2 x
  simp only [List.count_append, List.count_cons, List.count_nil] at *
  omega

theorem feed_ledger (hc : CfgOk cfg) (hnd : cfg.needsDrop = true) (env : Env) (fail : Fail) :
    ∀ (toks : List Elem) (i : Nat) (w : World), TInv cfg w.t →
      LoopLedger cfg env fail i toks w (feed cfg env fail i toks w) := by
  intro toks
  induction toks with
  | nil =>
    intro i w h
    simp only [feed]
    split
    · rename_i hf
      exact ⟨0, false, [], rfl, by simp [builtK_zero_false, droppedK], by simp [builtV_zero, droppedV], fun _ x => x,
        Nat.le_refl _, Or.inl ⟨hf, rfl⟩⟩
    · exact ⟨0, false, [], rfl, by simp [builtK_zero_false, droppedK], by simp [builtV_zero, droppedV], fun _ x => x,
        Nat.le_refl _, rfl, rfl⟩
  | cons e rest ih =>
    intro i w h
    simp only [feed]
    split
    · rename_i hf
      exact ⟨0, false, [], rfl, by simp [builtK_zero_false, droppedK], by simp [builtV_zero, droppedV], fun _ x => x,
        Nat.zero_le _, Or.inl ⟨hf, rfl⟩⟩
    · split
      · rename_i _ hf
        have hd : hs_DropOnly [Ev.dropK e.kid] :=
          fun ev hev => ⟨e.kid, Or.inl (List.mem_singleton.1 hev)⟩
        rcases ag_dropKeyR (cfg := cfg) env e.kid w with ⟨w1, h1, ht, hl⟩ | ⟨w1, h1, ht, hl⟩
        · rw [h1]
          rw [if_pos hnd] at hl
          refine ⟨0, true, [Ev.dropK e.kid], hl, ?_, ?_, fun L x => ?_, Nat.zero_le _,
            Or.inr ⟨hf, rfl, Nat.succ_pos _⟩⟩
          · rw [ht, builtK_zero_true]; rfl
          · rw [ht, builtV_zero]; simp [droppedV]
          · exact lp_frame_drops h.1 (by rw [ht]; exact h.1) hl hd (by rw [ht]) x
        · rw [h1]
          rw [if_pos hnd] at hl
          refine ⟨0, true, [Ev.dropK e.kid], [], hl, ?_, ?_, fun L x => ?_, Nat.zero_le _,
            Or.inl rfl, fun _ => rfl, Or.inr ⟨hf, rfl, Nat.succ_pos _, rfl⟩⟩
          · rw [ht, builtK_zero_true]; rfl
          · rw [ht, builtV_zero]; simp [droppedV]
          · exact lp_frame_drops h.1 (by rw [ht]; exact h.1) hl hd (by rw [ht]) x
      · cases hr : Map.insert cfg env e w with
        | ok pr =>
          obtain ⟨r, w1⟩ := pr
          simp only
          obtain ⟨ht1, new1, l1, k1, v1, f1⟩ := insert_discard_ledger hc hnd env e w h hr
          have hih := ih (i + 1) (discard cfg r w1) (by rw [discard_t]; exact ht1)
          cases hfe : feed cfg env fail (i + 1) rest (discard cfg r w1) with
          | ok pr2 =>
            obtain ⟨x, w'⟩ := pr2
            rw [hfe] at hih
            obtain ⟨n, half, new2, l2, k2, v2, f2, hn, hx⟩ := hih
            rw [discard_t] at k2 v2
            refine ⟨n + 1, half, new2 ++ new1, by rw [l2, l1, List.append_assoc], ?_, ?_,
              fun L x => f2 L (f1 L x), by simp only [List.length_cons]; omega, ?_⟩
            · rw [hs_droppedK_append, builtK_cons]; exact perm_glue2 k1 k2
            · rw [hs_droppedV_append, builtV_cons]; exact perm_glue2 v1 v2
            · cases x with
              | ok u => cases u; exact ⟨by simp only [List.length_cons]; omega, hx.2⟩
              | error u =>
                cases u
                rw [show i + (n + 1) = i + 1 + n by omega]
                rcases hx with hx | ⟨a, b, c⟩
                · exact Or.inl hx
                · exact Or.inr ⟨a, b, by simp only [List.length_cons]; omega⟩
          | panic c w' =>
            rw [hfe] at hih
            obtain ⟨n, half, new2, lostV, l2, k2, v2, f2, hn, hl, hdp, hx⟩ := hih
            rw [discard_t] at k2 v2
            refine ⟨n + 1, half, new2 ++ new1, lostV, by rw [l2, l1, List.append_assoc], ?_, ?_,
              fun L x => f2 L (f1 L x), by simp only [List.length_cons]; omega, hl, hdp, ?_⟩
            · rw [hs_droppedK_append, builtK_cons]; exact perm_glue2 k1 k2
            · rw [hs_droppedV_append, builtV_cons]; exact perm_glue3 v1 v2
            · rw [show i + (n + 1) = i + 1 + n by omega]
              rcases hx with ⟨a, _⟩ | ⟨a, b, c, d⟩
              · exact Or.inl ⟨a, Nat.succ_pos _⟩
              · exact Or.inr ⟨a, b, by simp only [List.length_cons]; omega, d⟩
          | abort => trivial
          | fault f => trivial
        | panic c w1 =>
          simp only
          obtain ⟨ht1, new, lostV, l1, k1, v1, f1, hl, hdp⟩ := insert_panic_ledger hc hnd env e w h hr
          refine ⟨1, false, new, lostV, l1, ?_, ?_, f1, by simp, hl, hdp, Or.inl ⟨rfl, Nat.one_pos⟩⟩
          · rw [builtK_cons, builtK_zero_false]; exact k1
          · rw [builtV_cons, builtV_zero]; exact v1
        | abort => trivial
        | fault f => trivial

/-! ### `with_capacity` in front, drop of the local collection behind -/

theorem freeEvs_new : freeEvs cfg (Raw.new cfg.W) = [] := rfl

/-- `with_capacity(n)`: a valid empty table; the log gains at most the one allocator request; the
    allocator frame of "the world without a collection" carries over. -/
theorem withCapacity_ledger (hc : CfgOk cfg) (env : Env) (n : Nat) (w w0 : World)
    (h : withCapacity cfg env n w = .ok w0) :
    TInv cfg w0.t ∧ w0.t.elems = [] ∧ ∃ new, w0.log = new ++ w.log ∧
      droppedK new = [] ∧ droppedV new = [] ∧
      ∀ L, hs_AllocInvL cfg { w with t := Raw.new cfg.W } L → hs_AllocInvL cfg w0 L := by
  have hsp := withCapacity_spec hc env n w
  rw [h] at hsp
  obtain ⟨ht, _, _, hel, _, _⟩ := hsp
  refine ⟨ht, hel, ?_⟩
  unfold withCapacity at h
  have hfw := fallibleWithCapacity_spec hc env n .infallible w
  cases hr : fallibleWithCapacity cfg env n .infallible w with
  | ok pr =>
    obtain ⟨r, w1⟩ := pr
    rw [hr] at hfw h
    cases r with
    | ok new =>
      simp only [Res.ok.injEq] at h
      subst h
      obtain ⟨a1, a2, a3, _, a5⟩ := hfw
      by_cases h0 : n = 0
      · rw [if_pos h0] at a5
        obtain ⟨b1, b2⟩ := a5
        subst b2
        refine ⟨[], rfl, rfl, rfl, fun L x => x.congr (by simp [b1]) rfl⟩
      · rw [if_neg h0] at a5
        obtain ⟨b1, _, _, _, _, _, l, hl, b8⟩ := a5
        subst b8
        have hA : hs_AStep cfg { w with t := Raw.new cfg.W }
            { t := new, hc := w.hc, ec := w.ec, cc := w.cc, pc := w.pc, ac := w.ac + 1, dc := w.dc,
              log := .alloc l.size l.align :: w.log } [Ev.alloc l.size l.align] := by
          refine ⟨rfl, Or.inr (Or.inl ⟨b1, ?_⟩)⟩
          simp only [freeEvs_new, List.nil_append, hs_allocEv, layoutOf_eq hl]
        exact ⟨[Ev.alloc l.size l.align], rfl, rfl, rfl,
          fun L x => lp_frame_astep (Raw.new_inv hc) a1 hA x⟩
    | error e => simp at h
  | panic c w1 => rw [hr] at h; simp at h
  | abort => rw [hr] at h; simp at h
  | fault f => rw [hr] at h; simp at h

/-- The drop of the local `values` completes: every element is dropped exactly once, the block (if
    any) is freed with its own layout; the allocator frame is that of a world without collection. -/
theorem dropLocal_ok_ledger (hc : CfgOk cfg) (env : Env) (w1 w2 : World) (h : TInv cfg w1.t)
    (hd : dropLocal cfg env w1 = .ok w2) :
    w2.t = Raw.new cfg.W ∧
    w2.log = freeEvs cfg w1.t ++ dropEvs cfg w1.t.elems.reverse ++ w1.log ∧
    ∀ L, hs_AllocInvL cfg w1 L → hs_AllocInvL cfg w2 L := by
  have hsp := dropInnerTable_spec hc env w1.t { w1 with t := Raw.new cfg.W } h
  unfold dropLocal at hd
  rw [hd] at hsp
  obtain ⟨ht, hlog, _⟩ := hsp
  have ht' : w2.t = Raw.new cfg.W := ht
  have hlog' : w2.log = freeEvs cfg w1.t ++ (dropEvs cfg w1.t.elems.reverse ++ w1.log) := by
    rw [hlog, List.append_assoc]; rfl
  refine ⟨ht', by rw [hlog', List.append_assoc], fun L x => ?_⟩
  have a1 : hs_AllocInvL cfg { w1 with log := dropEvs cfg w1.t.elems.reverse ++ w1.log } L :=
    lp_frame_drops (w := w1)
      (w' := { w1 with log := dropEvs cfg w1.t.elems.reverse ++ w1.log }) h.1 h.1 rfl
      (hs_dropOnly_dropEvs _) rfl x
  have hA : hs_AStep cfg { w1 with log := dropEvs cfg w1.t.elems.reverse ++ w1.log } w2
      (freeEvs cfg w1.t) := ⟨hlog', Or.inr (Or.inr ⟨by rw [ht']; rfl, rfl⟩)⟩
  exact lp_frame_astep (w := { w1 with log := dropEvs cfg w1.t.elems.reverse ++ w1.log }) h.1
    (by rw [ht']; exact Raw.new_inv hc) hA a1

/-- A destructor panics while the local `values` is dropped (not unwinding yet): a prefix of the
    elements was dropped, the rest and the block are leaked. -/
theorem dropLocal_panic_ledger (hc : CfgOk cfg) (env : Env) (w1 w2 : World) (c : String)
    (h : TInv cfg w1.t) (hd : dropLocal cfg env w1 = .panic c w2) :
    c = "drop" ∧ w2.t = Raw.new cfg.W ∧
    ∃ ds e rest, w1.t.elems = ds ++ e :: rest ∧
      w2.log = dropEvs cfg (ds ++ [e]).reverse ++ w1.log ∧
      env.dropPanics (w1.dc + ds.length) e = true ∧
      ∀ L, hs_AllocInvL cfg w1 L → hs_AllocInvL cfg w2 (hs_blockOf cfg w1.t ++ L) := by
  have hsp := dropInnerTable_spec hc env w1.t { w1 with t := Raw.new cfg.W } h
  unfold dropLocal at hd
  rw [hd] at hsp
  obtain ⟨hcd, ht, _, _, ds, e, rest, hsplit, hdr, hpan⟩ := hsp
  have ht' : w2.t = Raw.new cfg.W := ht
  have hl : w2.log = dropEvs cfg (ds ++ [e]).reverse ++ w1.log := hdr.log
  exact ⟨hcd, ht', ds, e, rest, hsplit, hl, hpan,
    fun L x => lp_frame_leak hl (hs_dropOnly_dropEvs _) ht' x⟩

theorem dropped_free_drops (hnd : cfg.needsDrop = true) (t : Raw) (ds : List Elem) (l : List Ev) :
    droppedK (freeEvs cfg t ++ dropEvs cfg ds ++ l) = kidsOf ds ++ droppedK l ∧
    droppedV (freeEvs cfg t ++ dropEvs cfg ds ++ l) = vidsOf ds ++ droppedV l := by
  obtain ⟨dk, dv⟩ := hs_dropped_dropEvs hnd ds
  obtain ⟨fk, fv⟩ := hs_dropped_freeEvs (cfg := cfg) t
  simp only [hs_droppedK_append, hs_droppedV_append, dk, dv, fk, fv, List.nil_append, and_self]

theorem perm_dropAll {a b c : List Nat} (h : (a ++ b).Perm c) : (a.reverse ++ b).Perm c :=
  ((List.reverse_perm a).append_right b).trans h

theorem perm_dropAll3 {a b l c : List Nat} (h : (a ++ b ++ l).Perm c) :
    (a.reverse ++ b ++ l).Perm c :=
  (((List.reverse_perm a).append_right b).append_right l).trans h

theorem kidsOf_reverse (l : List Elem) : kidsOf l.reverse = (kidsOf l).reverse := by
  simp [kidsOf]
theorem vidsOf_reverse (l : List Elem) : vidsOf l.reverse = (vidsOf l).reverse := by
  simp [vidsOf]

/-- Ledger of `visit_map` / `visit_seq` (see `visitMapGen_ledger`). -/
def VisitLedger (cfg : Cfg) (env : Env) (fail : Fail) (toks : List Elem) (w : World) :
    Res (Except Unit Unit × World) → Prop
  | .ok (x, w') => ∃ (n : Nat) (half : Bool) (new : List Ev), w'.log = new ++ w.log ∧
      List.Perm (kidsOf w'.t.elems ++ droppedK new) (builtK toks n half) ∧
      List.Perm (vidsOf w'.t.elems ++ droppedV new) (builtV toks n) ∧
      (∀ L, hs_AllocInvL cfg { w with t := Raw.new cfg.W } L → hs_AllocInvL cfg w' L) ∧
      n ≤ toks.length ∧
      match x with
      | .ok () => n = toks.length ∧ half = false
      | .error () => w'.t = Raw.new cfg.W ∧
          ((fail = .atKey n ∧ half = false) ∨ (fail = .atVal n ∧ half = true ∧ n < toks.length))
  | .panic c w' => (c = "capacity" ∧ w' = w) ∨
      ∃ (n : Nat) (half : Bool) (new : List Ev) (lostK lostV : List Nat) (leaked : List (Nat × Nat)),
        w'.t = Raw.new cfg.W ∧ w'.log = new ++ w.log ∧
        List.Perm (droppedK new ++ lostK) (builtK toks n half) ∧
        List.Perm (droppedV new ++ lostV) (builtV toks n) ∧
        (∀ L, hs_AllocInvL cfg { w with t := Raw.new cfg.W } L → hs_AllocInvL cfg w' (leaked ++ L)) ∧
        n ≤ toks.length ∧
        (c ≠ "drop" → lostK = [] ∧ lostV = [] ∧ leaked = []) ∧
        ((∀ c e, env.dropPanics c e = false) → lostK = [] ∧ lostV = [] ∧ leaked = [])
  | _ => True

/-- **Ledger of `visit_map` / `visit_seq`, every environment** (element type with drop glue).
    With `new` the log entries written and `builtK toks n half` / `builtV toks n` the key / value
    objects the input had created when the visitor was left (`n` complete entries, plus the key of
    entry `n` if its `next_value` failed):
    * success: `n = toks.length`; every created object is stored in the returned collection or was
      dropped (exactly one of the two, with multiplicity) — overwritten values and spare keys;
    * input error returned: the collection is gone and every created object was dropped exactly
      once; the allocator frame is unchanged (every block requested was freed, with its layout);
    * panic: the collection is gone; every created object was dropped exactly once or is `lost`,
      and `lost`/`leaked` are empty unless the panic came from a destructor (`"drop"`): then the
      lost objects are the replaced value in `insert`'s return slot, or the elements behind the
      one whose destructor panicked while `values` was dropped after an input error, and in the
      latter case the block of `values` is leaked (`RawTable::drop` does not free it).
    No object of a token that was not consumed appears anywhere (the right-hand sides only list
    `toks.take n`). -/
theorem visitMapGen_ledger (hc : CfgOk cfg) (hnd : cfg.needsDrop = true) (env : Env)
    (hint : Option Nat) (toks : List Elem) (fail : Fail) (w : World) :
    VisitLedger cfg env fail toks w (visitMapGen cfg env hint toks fail w) := by
  unfold visitMapGen
  have hwc := withCapacity_spec hc env (cautious hint) w
  cases hc0 : withCapacity cfg env (cautious hint) w with
  | ok w0 =>
    simp only
    obtain ⟨ht0, hel0, newc, lc, kc, vc, fc⟩ := withCapacity_ledger hc env _ w w0 hc0
    have hf := feed_ledger hc hnd env fail toks 0 w0 ht0
    have hfs := feed_safe hc (Or.inl hnd) env fail toks 0 w0 ht0
    cases hfe : feed cfg env fail 0 toks w0 with
    | ok pr =>
      obtain ⟨x, w1⟩ := pr
      rw [hfe] at hf hfs
      obtain ⟨n, half, newf, lf, kf, vf, ff, hn, hx⟩ := hf
      rw [hel0] at kf vf
      simp only [kidsOf, vidsOf, List.map_nil, List.nil_append] at kf vf
      cases x with
      | ok u =>
        cases u
        refine ⟨n, half, newf ++ newc, by rw [lf, lc, List.append_assoc], ?_, ?_,
          fun L x => ff L (fc L x), hn, hx⟩
        · rw [hs_droppedK_append, kc, List.append_nil]; exact kf
        · rw [hs_droppedV_append, vc, List.append_nil]; exact vf
      | error u =>
        cases u
        simp only [Nat.zero_add] at hx
        simp only
        cases hdl : dropLocal cfg env w1 with
        | ok w2 =>
          obtain ⟨ht2, hl2, f2⟩ := dropLocal_ok_ledger hc env w1 w2 hfs.1 hdl
          obtain ⟨dk, dv⟩ := dropped_free_drops hnd w1.t w1.t.elems.reverse (newf ++ newc)
          have hel2 : w2.t.elems = [] := by rw [ht2]; rfl
          refine ⟨n, half, freeEvs cfg w1.t ++ dropEvs cfg w1.t.elems.reverse ++ (newf ++ newc),
            by rw [hl2, lf, lc]; simp only [List.append_assoc], ?_, ?_,
            fun L x => f2 L (ff L (fc L x)), hn, ht2, hx⟩
          · rw [dk, hel2, hs_droppedK_append, kc, List.append_nil, kidsOf_reverse]
            exact perm_dropAll kf
          · rw [dv, hel2, hs_droppedV_append, vc, List.append_nil, vidsOf_reverse]
            exact perm_dropAll vf
        | panic c w2 =>
          obtain ⟨hcd, ht2, ds, e, rest, hsplit, hl2, hpan, f2⟩ :=
            dropLocal_panic_ledger hc env w1 w2 c hfs.1 hdl
          obtain ⟨dk, dv⟩ := hs_dropped_dropEvs hnd (ds ++ [e]).reverse
          refine Or.inr ⟨n, half, dropEvs cfg (ds ++ [e]).reverse ++ (newf ++ newc), kidsOf rest,
            vidsOf rest, hs_blockOf cfg w1.t, ht2, by rw [hl2, lf, lc]; simp only [List.append_assoc],
            ?_, ?_, fun L x => f2 L (ff L (fc L x)), hn, fun hne => absurd hcd hne,
            fun hdp => by rw [hdp] at hpan; cases hpan⟩
          · rw [hs_droppedK_append, hs_droppedK_append, dk, kc, List.append_nil]
            rw [hsplit] at kf
            refine List.perm_iff_count.2 fun y => ?_
            have := List.perm_iff_count.1 kf y
            simp only [kidsOf, List.map_append, List.map_cons, List.map_nil, List.map_reverse,
              List.count_append, List.count_reverse, List.count_cons, List.count_nil] at this ⊢
            omega
          · rw [hs_droppedV_append, hs_droppedV_append, dv, vc, List.append_nil]
            rw [hsplit] at vf
            refine List.perm_iff_count.2 fun y => ?_
            have := List.perm_iff_count.1 vf y
            simp only [vidsOf, List.map_append, List.map_cons, List.map_nil, List.map_reverse,
              List.count_append, List.count_reverse, List.count_cons, List.count_nil] at this ⊢
            omega
        | abort => trivial
        | fault f => trivial
    | panic c w1 =>
      rw [hfe] at hf hfs
      obtain ⟨n, half, newf, lostV, lf, kf, vf, ff, hn, hl, hdp, _⟩ := hf
      rw [hel0] at kf vf
      simp only [kidsOf, vidsOf, List.map_nil, List.nil_append] at kf vf
      simp only
      obtain ⟨w2, hdl, _⟩ := dropLocal_quiet hc env w1 hfs.1
      rw [hdl]
      obtain ⟨ht2, hl2, f2⟩ := dropLocal_ok_ledger hc (quietEnv env) w1 w2 hfs.1 hdl
      obtain ⟨dk, dv⟩ := dropped_free_drops hnd w1.t w1.t.elems.reverse (newf ++ newc)
      refine Or.inr ⟨n, half, freeEvs cfg w1.t ++ dropEvs cfg w1.t.elems.reverse ++ (newf ++ newc),
        [], lostV, [], ht2, by rw [hl2, lf, lc]; simp only [List.append_assoc], ?_, ?_,
        fun L x => f2 L (ff L (fc L x)), hn, fun hne => ?_, fun hd => ⟨rfl, hdp hd, rfl⟩⟩
      · rw [dk, hs_droppedK_append, kc, List.append_nil, List.append_nil, kidsOf_reverse]
        exact perm_dropAll kf
      · rw [dv, hs_droppedV_append, vc, List.append_nil, vidsOf_reverse]
        exact perm_dropAll3 vf
      · rcases hl with hl | ⟨hcd, _⟩
        · exact ⟨rfl, hl, rfl⟩
        · exact absurd hcd hne
    | abort => trivial
    | fault f => trivial
  | panic c w0 => rw [hc0] at hwc; exact Or.inl hwc
  | abort => trivial
  | fault f => trivial

/-! ### no double drop, nothing foreign touched -/

theorem builtK_sublist (toks : List Elem) (n : Nat) (half : Bool) :
    (builtK toks n half).Sublist (kidsOf toks) := by
  have h1 : (toks.take n ++ (toks.drop n).take 1).Sublist toks := by
    conv => rhs; rw [← List.take_append_drop n toks]
    exact List.Sublist.append (List.Sublist.refl _) (List.take_sublist _ _)
  unfold builtK
  cases half
  · simp only [Bool.false_eq_true, if_false, List.append_nil]
    exact (List.take_sublist n toks).map _
  · simp only [if_true]
    rw [kidsOf, kidsOf, kidsOf, ← List.map_append]
    exact h1.map _

theorem builtV_sublist (toks : List Elem) (n : Nat) : (builtV toks n).Sublist (vidsOf toks) :=
  (List.take_sublist n toks).map _

theorem nodup_of_perm_sublist {a l b c : List Nat} (hp : (a ++ l).Perm b) (hs : b.Sublist c) :
    (c.Nodup → a.Nodup) ∧ ∀ x ∈ a, x ∈ c :=
  ⟨fun hn => (List.nodup_append.1 (hp.nodup_iff.2 (hs.nodup hn))).1,
   fun x hx => hs.subset (hp.subset (List.mem_append_left _ hx))⟩

/-- **No double drop in `visit_map` / `visit_seq`, every environment.** If the key (value) objects
    of the input are pairwise distinct, then — whatever `Hash`, `Eq`, the destructors and the
    allocator do — no key (value) object is dropped twice or dropped while still stored; and only
    objects of the input ever are stored or dropped. -/
theorem visitMapGen_no_double_drop (hc : CfgOk cfg) (hnd : cfg.needsDrop = true) (env : Env)
    (hint : Option Nat) (toks : List Elem) (fail : Fail) (w : World) :
    match visitMapGen cfg env hint toks fail w with
    | .ok (_, w') => ∃ new, w'.log = new ++ w.log ∧
        ((kidsOf toks).Nodup → (kidsOf w'.t.elems ++ droppedK new).Nodup) ∧
        ((vidsOf toks).Nodup → (vidsOf w'.t.elems ++ droppedV new).Nodup) ∧
        (∀ x ∈ kidsOf w'.t.elems ++ droppedK new, x ∈ kidsOf toks) ∧
        (∀ x ∈ vidsOf w'.t.elems ++ droppedV new, x ∈ vidsOf toks)
    | .panic c w' => (c = "capacity" ∧ w' = w) ∨ ∃ new, w'.log = new ++ w.log ∧
        w'.t = Raw.new cfg.W ∧
        ((kidsOf toks).Nodup → (droppedK new).Nodup) ∧
        ((vidsOf toks).Nodup → (droppedV new).Nodup) ∧
        (∀ x ∈ droppedK new, x ∈ kidsOf toks) ∧ (∀ x ∈ droppedV new, x ∈ vidsOf toks)
    | _ => True := by
  have h := visitMapGen_ledger hc hnd env hint toks fail w
  cases hr : visitMapGen cfg env hint toks fail w with
  | ok pr =>
    obtain ⟨x, w'⟩ := pr
    rw [hr] at h
    obtain ⟨n, half, new, l, k, v, _⟩ := h
    have k' := nodup_of_perm_sublist (l := []) (by simpa using k) (builtK_sublist toks n half)
    have v' := nodup_of_perm_sublist (l := []) (by simpa using v) (builtV_sublist toks n)
    exact ⟨new, l, k'.1, v'.1, k'.2, v'.2⟩
  | panic c w' =>
    rw [hr] at h
    rcases h with h | ⟨n, half, new, lostK, lostV, leaked, ht, l, k, v, _⟩
    · exact Or.inl h
    · have k' := nodup_of_perm_sublist k (builtK_sublist toks n half)
      have v' := nodup_of_perm_sublist v (builtV_sublist toks n)
      exact Or.inr ⟨new, l, ht, k'.1, v'.1, k'.2, v'.2⟩
  | abort => trivial
  | fault f => trivial

/-- On a fresh world (empty log) the allocator log of a `visit_map` that returned the input error
    is balanced: nothing remains allocated and every `free` returned a live block with the layout
    it was requested with. -/
theorem visitMapGen_error_balanced (hc : CfgOk cfg) (hnd : cfg.needsDrop = true) (env : Env)
    (hint : Option Nat) (toks : List Elem) (fail : Fail) (w w' : World) (hl : w.log = [])
    (h : visitMapGen cfg env hint toks fail w = .ok (.error (), w')) :
    liveBlocks w'.log = [] ∧ freesMatched w'.log := by
  have hled := visitMapGen_ledger hc hnd env hint toks fail w
  rw [h] at hled
  obtain ⟨n, half, new, _, _, _, fr, _, ht, _⟩ := hled
  have h0 : hs_AllocInvL cfg { w with t := Raw.new cfg.W } [] :=
    lp_allocInvL_new _ rfl hl
  obtain ⟨a, b⟩ := fr [] h0
  rw [ht, lp_blockOf_new] at b
  exact ⟨List.Perm.eq_nil (by simpa using b), a⟩

/-- The same after a panic that did not come from a destructor (`Hash`, `Eq`, capacity overflow):
    the unwinding released everything. -/
theorem visitMapGen_panic_balanced (hc : CfgOk cfg) (hnd : cfg.needsDrop = true) (env : Env)
    (hint : Option Nat) (toks : List Elem) (fail : Fail) (w w' : World) (c : String)
    (hl : w.log = []) (hcd : c ≠ "drop")
    (h : visitMapGen cfg env hint toks fail w = .panic c w') :
    liveBlocks w'.log = [] ∧ freesMatched w'.log := by
  have hled := visitMapGen_ledger hc hnd env hint toks fail w
  rw [h] at hled
  rcases hled with ⟨_, hw⟩ | ⟨n, half, new, lostK, lostV, leaked, ht, _, _, _, fr, _, hne, _⟩
  · rw [hw, hl]; exact ⟨rfl, trivial⟩
  · have h0 : hs_AllocInvL cfg { w with t := Raw.new cfg.W } [] := lp_allocInvL_new _ rfl hl
    obtain ⟨a, b⟩ := fr [] h0
    rw [ht, lp_blockOf_new, (hne hcd).2.2] at b
    exact ⟨List.Perm.eq_nil (by simpa using b), a⟩

/-! ### `deserialize_in_place` -/

/-- Ledger of `deserialize_in_place` (see `deserializeInPlace_ledger`). -/
def InPlaceLedger (cfg : Cfg) (env : Env) (fail : Fail) (toks : List Elem) (w : World) :
    Res (Except Unit Unit × World) → Prop
  | .ok (x, w') => ∃ (n : Nat) (half : Bool) (newl : List Ev),
      w'.log = newl ++ (dropEvs cfg w.t.elems.reverse ++ w.log) ∧
      List.Perm (kidsOf w'.t.elems ++ droppedK newl) (builtK toks n half) ∧
      List.Perm (vidsOf w'.t.elems ++ droppedV newl) (builtV toks n) ∧
      (∀ L, hs_AllocInvL cfg w L → hs_AllocInvL cfg w' L) ∧ n ≤ toks.length ∧
      match x with
      | .ok () => n = toks.length ∧ half = false
      | .error () => (fail = .atKey n ∧ half = false) ∨
          (fail = .atVal n ∧ half = true ∧ n < toks.length)
  | .panic c w' => ∃ (n : Nat) (half : Bool) (new : List Ev) (lostK lostV : List Nat),
      w'.log = new ++ w.log ∧
      List.Perm (kidsOf w'.t.elems ++ droppedK new ++ lostK)
        (kidsOf w.t.elems ++ builtK toks n half) ∧
      List.Perm (vidsOf w'.t.elems ++ droppedV new ++ lostV)
        (vidsOf w.t.elems ++ builtV toks n) ∧
      (∀ L, hs_AllocInvL cfg w L → hs_AllocInvL cfg w' L) ∧ n ≤ toks.length ∧
      (c ≠ "drop" → lostK = [] ∧ lostV = []) ∧
      ((∀ c e, env.dropPanics c e = false) → lostK = [] ∧ lostV = [])
  | _ => True

/-- `clear(); reserve(cautious(hint))` returned: the old elements were dropped exactly once (bucket
    order), the place is valid and empty, only allocator events were logged after the drops. -/
theorem inPlace_prologue (hc : CfgOk cfg) (hnd : cfg.needsDrop = true) (env : Env) (n : Nat)
    (w w0 w1 : World) (h : TInv cfg w.t) (h0 : clear cfg env w = .ok w0)
    (h1 : reserve cfg env n w0 = .ok w1) :
    TInv cfg w1.t ∧ w1.t.elems = [] ∧ ∃ newr, w1.log = newr ++ (dropEvs cfg w.t.elems.reverse ++ w.log) ∧
      droppedK newr = [] ∧ droppedV newr = [] ∧
      ∀ L, hs_AllocInvL cfg w L → hs_AllocInvL cfg w1 L := by
  have hp := probe_covers cfg hc.spec.width
  have hcl := clear_spec hc env w h
  rw [h0] at hcl
  obtain ⟨⟨ht0, _, hel0, hm0, _⟩, hdr⟩ := hcl
  have hre := lp_reserve_eff hc hp hnd env n w0 ht0
  rw [h1] at hre
  obtain ⟨newr, he⟩ := hre
  have hel1 : w1.t.elems = [] := by
    have := he.perm
    rw [hel0] at this
    exact List.eq_nil_of_append_eq_nil (List.Perm.eq_nil this) |>.1
  refine ⟨he.inv, hel1, newr, by rw [he.log, hdr.log], he.dK, he.dV, fun L x => ?_⟩
  exact he.frame L (lp_frame_drops h.1 ht0.1 hdr.log (hs_dropOnly_dropEvs _) hm0 x)

/-- **Ledger of `deserialize_in_place`, every environment** (element type with drop glue).
    When the call returns (success or input error): the elements `place` held before were dropped
    exactly once each by `clear` (the log continues `dropEvs old.reverse`), and every object the
    input created (`n` complete entries, plus the key of entry `n` if its value failed) is stored
    in `place` or was dropped (overwritten values, spare keys) — exactly one of the two; the
    allocator frame is kept (all frees matched, the only additional live block is `place`'s own).
    When it unwinds: old and created objects are stored, dropped once, or `lost`; `lost` is empty
    unless a destructor panicked. -/
theorem deserializeInPlace_ledger (hc : CfgOk cfg) (hnd : cfg.needsDrop = true) (env : Env)
    (hint : Option Nat) (toks : List Elem) (fail : Fail) (w : World) (h : TInv cfg w.t) :
    InPlaceLedger cfg env fail toks w (deserializeInPlace cfg env hint toks fail w) := by
  have hp := probe_covers cfg hc.spec.width
  unfold deserializeInPlace
  cases hcl : clear cfg env w with
  | ok w0 =>
    simp only
    have hcs := clear_spec hc env w h
    rw [hcl] at hcs
    obtain ⟨⟨ht0, _, hel0, hm0, _⟩, hdr⟩ := hcs
    obtain ⟨dk, dv⟩ := hs_dropped_dropEvs hnd w.t.elems.reverse
    cases hrs : reserve cfg env (cautious hint) w0 with
    | ok w1 =>
      simp only
      obtain ⟨ht1, hel1, newr, lr, kr, vr, fr⟩ := inPlace_prologue hc hnd env _ w w0 w1 h hcl hrs
      have hf := feed_ledger hc hnd env fail toks 0 w1 ht1
      cases hfe : feed cfg env fail 0 toks w1 with
      | ok pr =>
        obtain ⟨x, w'⟩ := pr
        rw [hfe] at hf
        obtain ⟨n, half, newf, lf, kf, vf, ff, hn, hx⟩ := hf
        rw [hel1] at kf vf
        simp only [kidsOf, vidsOf, List.map_nil, List.nil_append] at kf vf
        refine ⟨n, half, newf ++ newr, by rw [lf, lr, List.append_assoc], ?_, ?_,
          fun L x => ff L (fr L x), hn, ?_⟩
        · rw [hs_droppedK_append, kr, List.append_nil]; exact kf
        · rw [hs_droppedV_append, vr, List.append_nil]; exact vf
        · cases x with
          | ok u => cases u; exact hx
          | error u => cases u; simpa only [Nat.zero_add] using hx
      | panic c w' =>
        rw [hfe] at hf
        obtain ⟨n, half, newf, lostV, lf, kf, vf, ff, hn, hl, hdp, _⟩ := hf
        rw [hel1] at kf vf
        simp only [kidsOf, vidsOf, List.map_nil, List.nil_append] at kf vf
        refine ⟨n, half, newf ++ (newr ++ dropEvs cfg w.t.elems.reverse), [], lostV,
          by rw [lf, lr]; simp only [List.append_assoc], ?_, ?_, fun L x => ff L (fr L x), hn,
          fun hne => ?_, fun hd => ⟨rfl, hdp hd⟩⟩
        · rw [hs_droppedK_append, hs_droppedK_append, kr, dk, List.nil_append, List.append_nil,
            kidsOf_reverse]
          refine List.perm_iff_count.2 fun y => ?_
          have := List.perm_iff_count.1 kf y
          simp only [kidsOf, List.count_append, List.count_reverse] at this ⊢
          omega
        · rw [hs_droppedV_append, hs_droppedV_append, vr, dv, List.nil_append, vidsOf_reverse]
          refine List.perm_iff_count.2 fun y => ?_
          have := List.perm_iff_count.1 vf y
          simp only [vidsOf, List.count_append, List.count_reverse] at this ⊢
          omega
        · rcases hl with hl | ⟨hcd, _⟩
          · exact ⟨rfl, hl⟩
          · exact absurd hcd hne
      | abort => trivial
      | fault f => trivial
    | panic c w1 =>
      simp only
      have hre := lp_reserve_eff hc hp hnd env (cautious hint) w0 ht0
      rw [hrs] at hre
      obtain ⟨newr, ds, he⟩ := hre
      have hnil : w1.t.elems = [] ∧ ds = [] := by
        have := he.perm
        rw [hel0] at this
        exact List.eq_nil_of_append_eq_nil (List.Perm.eq_nil this)
      have hk := he.dK
      have hv := he.dV
      rw [hnil.2] at hk hv
      refine ⟨0, false, newr ++ dropEvs cfg w.t.elems.reverse, [], [],
        by rw [he.log, hdr.log, List.append_assoc], ?_, ?_,
        fun L x => he.frame L (lp_frame_drops h.1 ht0.1 hdr.log (hs_dropOnly_dropEvs _) hm0 x),
        Nat.zero_le _, fun _ => ⟨rfl, rfl⟩, fun _ => ⟨rfl, rfl⟩⟩
      · rw [hnil.1, hs_droppedK_append, hk, dk, builtK_zero_false, kidsOf_reverse]
        simp [kidsOf]
      · rw [hnil.1, hs_droppedV_append, hv, dv, builtV_zero, vidsOf_reverse]
        simp [vidsOf]
    | abort => trivial
    | fault f => trivial
  | panic c w0 =>
    simp only
    obtain ⟨new, lostK, lostV, leaked, l, k, v, fr, lk, dp, nd, _⟩ := lp_clear_panic hc hnd env w h hcl
    have hlk : leaked = [] := lk (fun n f hx => by cases hx)
    subst hlk
    refine ⟨0, false, new, lostK, lostV, l, ?_, ?_, fun L x => by simpa using fr L x,
      Nat.zero_le _, fun hne => (nd hne).2 (fun n hx => by cases hx),
      fun hd => (dp hd).2 (fun n hx => by cases hx)⟩
    · rw [builtK_zero_false]; simpa [insertedK] using k
    · rw [builtV_zero]; simpa [insertedV] using v
  | abort => trivial
  | fault f => trivial

/-! ### `*target = deserialize(input)?` -/

/-- Releasing the block of a detached table `old` that is accounted for in the frame. -/
theorem frame_free_detached {w1 w2 : World} {old : Raw} {ds : List Ev} {L : List (Nat × Nat)}
    (ht : w2.t = w1.t) (hl : w2.log = freeEvs cfg old ++ ds ++ w1.log) (hd : hs_DropOnly ds)
    (x : hs_AllocInvL cfg w1 (hs_blockOf cfg old ++ L)) : hs_AllocInvL cfg w2 L := by
  obtain ⟨a1, a2⟩ := x
  obtain ⟨e1, e2⟩ := hs_alloc_dropOnly hd w1.log
  unfold hs_AllocInvL
  rw [ht, hl]
  unfold freeEvs hs_blockOf at *
  cases hal : old.alloc with
  | false =>
    simp only [hal, Bool.false_eq_true, if_false, List.nil_append] at a2 ⊢
    rw [e1, e2]; exact ⟨a1, a2⟩
  | true =>
    simp only [hal, if_true, List.cons_append, List.nil_append,
      freesMatched, liveBlocks] at a2 ⊢
    rw [e1, e2]
    have hmem : ((layoutOf cfg old.buckets).size, (layoutOf cfg old.buckets).align) ∈
        liveBlocks w1.log := a2.symm.subset (by simp)
    refine ⟨⟨hmem, a1⟩, ?_⟩
    have := a2.erase ((layoutOf cfg old.buckets).size, (layoutOf cfg old.buckets).align)
    refine this.trans ?_
    have hp : (hs_blockOf cfg w1.t ++
        ((layoutOf cfg old.buckets).size, (layoutOf cfg old.buckets).align) :: L).Perm
        (((layoutOf cfg old.buckets).size, (layoutOf cfg old.buckets).align) ::
          (hs_blockOf cfg w1.t ++ L)) := List.perm_middle
    unfold hs_blockOf at hp
    exact (hp.erase _).trans (by rw [List.erase_cons_head])

/-- **Ledger of `*target = deserialize(input)?` on success, every environment**: the log is that
    of the visitor followed by the drop of the OLD collection — each of its elements exactly once,
    in bucket order, then its block; the created objects are stored in the new collection or were
    dropped once; the allocator frame is kept (the old block is gone, the new one is the target's). -/
theorem deserAssign_ledger (hc : CfgOk cfg) (hnd : cfg.needsDrop = true) (env : Env)
    (hint : Option Nat) (toks : List Elem) (fail : Fail) (w w' : World) (h : TInv cfg w.t)
    (hr : deserAssign cfg env hint toks fail w = .ok (.ok (), w')) :
    ∃ new, w'.log = freeEvs cfg w.t ++ dropEvs cfg w.t.elems.reverse ++ (new ++ w.log) ∧
      List.Perm (kidsOf w'.t.elems ++ droppedK new) (kidsOf toks) ∧
      List.Perm (vidsOf w'.t.elems ++ droppedV new) (vidsOf toks) ∧
      ∀ L, hs_AllocInvL cfg w L → hs_AllocInvL cfg w' L := by
  have hs := deserAssign_safe hc (Or.inl hnd) env hint toks fail w h
  rw [hr] at hs
  obtain ⟨_, _, w1, hv, ht, hlog⟩ := hs
  have hled := visitMapGen_ledger hc hnd env hint toks fail w
  rw [hv] at hled
  obtain ⟨n, half, new, l, k, v, fr, _, hn, hh⟩ := hled
  subst hn; subst hh
  rw [builtK_all] at k
  rw [builtV_all] at v
  refine ⟨new, by rw [hlog, l], by rw [ht]; exact k, by rw [ht]; exact v, fun L x => ?_⟩
  have x0 : hs_AllocInvL cfg { w with t := Raw.new cfg.W } (hs_blockOf cfg w.t ++ L) := by
    obtain ⟨a1, a2⟩ := x
    exact ⟨a1, by rw [lp_blockOf_new, List.nil_append]; exact a2⟩
  exact frame_free_detached ht hlog (hs_dropOnly_dropEvs _) (fr _ x0)

/-! ## §3 the reservation made before the first element is read, every environment -/

/-- **The reservation of `visit_map` / `visit_seq`, every environment.** `with_capacity(cautious(hint))`
    — the first thing the visitor does, so its allocator request (if any) is request number `w.ac`,
    the first one of the call — has exactly these outcomes, whatever the environment:
    * `cautious hint = 0` (no hint, or a claimed length of 0): nothing is requested, the world only
      gets the static empty table;
    * otherwise ONE request, for a block of `b ≤ 8192` buckets (at most
      `size * 8192 + (ctrl_align - 1) + 8192 + W` bytes), granted (`.ok`) or refused (`.abort`);
    * or the layout computation overflows `usize` (`"capacity overflow"` panic, world untouched; only
      for absurd element sizes / narrow `usize`);
    never `.fault`. The bound does not depend on the claimed length. -/
theorem reservation_bounded_every_env (hc : CfgOk cfg) (env : Env) (hint : Option Nat) (w : World) :
    match withCapacity cfg env (cautious hint) w with
    | .ok w0 =>
      (cautious hint = 0 ∧ w0 = { w with t := Raw.new cfg.W }) ∨
      (cautious hint ≠ 0 ∧ env.allocOk w.ac = true ∧ ∃ b l, b ≤ 8192 ∧
        capacityToBuckets cfg.bits cfg.W cfg.size (cautious hint) = some b ∧
        calculateLayoutFor cfg.bits cfg.W cfg.size (ctrlAlignOf cfg) b = some l ∧
        l.size ≤ cfg.size * 8192 + (ctrlAlignOf cfg - 1) + 8192 + cfg.W ∧
        w0.t.buckets = b ∧ w0.ac = w.ac + 1 ∧ w0.log = .alloc l.size l.align :: w.log)
    | .panic c w' => c = "capacity" ∧ w' = w
    | .abort => cautious hint ≠ 0 ∧ env.allocOk w.ac = false ∧
        ∀ b, capacityToBuckets cfg.bits cfg.W cfg.size (cautious hint) = some b → b ≤ 8192
    | .fault _ => False := by
  have hfw := fallibleWithCapacity_spec hc env (cautious hint) .infallible w
  unfold withCapacity
  cases hr : fallibleWithCapacity cfg env (cautious hint) .infallible w with
  | ok pr =>
    obtain ⟨r, w1⟩ := pr
    rw [hr] at hfw
    cases r with
    | ok new =>
      obtain ⟨_, _, _, _, a5⟩ := hfw
      by_cases h0 : cautious hint = 0
      · rw [if_pos h0] at a5
        obtain ⟨b1, b2⟩ := a5
        subst b1 b2
        exact Or.inl ⟨h0, rfl⟩
      · rw [if_neg h0] at a5
        obtain ⟨_, _, _, _, hb, hok, l, hl, b8⟩ := a5
        subst b8
        have hle := reserved_buckets_le _ _ _ hint _ hb
        exact Or.inr ⟨h0, hok, new.buckets, l, hle, hb, hl,
          layout_size_le _ _ _ _ _ l hle hl, rfl, rfl, rfl⟩
    | error e => exact absurd hfw.1 (by decide)
  | panic c w1 => rw [hr] at hfw; exact ⟨hfw.1, hfw.2.1⟩
  | abort =>
    rw [hr] at hfw
    exact ⟨hfw.2.2, hfw.2.1, fun b hb => reserved_buckets_le _ _ _ hint _ hb⟩
  | fault f => rw [hr] at hfw; exact hfw.elim

/-- Nothing at all happens before the first token when `cautious hint = 0`: with an empty input
    (ended or failed at the first `next_key`) the visitor returns with the world's log, allocator
    counter and every other counter unchanged, for every environment. -/
theorem no_request_before_first_token (env : Env) (hint : Option Nat) (fail : Fail) (w : World)
    (h0 : cautious hint = 0) :
    ∃ x, visitMapGen cfg env hint [] fail w = .ok (x, { w with t := Raw.new cfg.W }) := by
  have hw : withCapacity cfg env (cautious hint) w = .ok { w with t := Raw.new cfg.W } := by
    unfold withCapacity fallibleWithCapacity
    rw [if_pos h0]
  have hd : dropLocal cfg env { w with t := Raw.new cfg.W } = .ok { w with t := Raw.new cfg.W } := by
    unfold dropLocal dropInnerTable
    rfl
  unfold visitMapGen
  rw [hw]
  by_cases hf : fail = .atKey 0
  · exact ⟨.error (), by simp only [feed, hf, if_true, hd]⟩
  · exact ⟨.ok (), by simp only [feed, hf, if_false]⟩

/-- With `cautious hint = 0` the loop starts from the untouched world (static empty table): the
    first allocator request, if any, is issued by the first `insert`. -/
theorem visitMapGen_zero_hint (env : Env) (hint : Option Nat) (toks : List Elem) (fail : Fail)
    (w : World) (h0 : cautious hint = 0) :
    visitMapGen cfg env hint toks fail w = visitMapGen cfg env none toks fail w := by
  unfold visitMapGen
  rw [h0, cautious_none]

/-! ### the reservation of `deserialize_in_place`

REQUESTED: "the first allocator request issued by `deserializeInPlace` is for at most 8192 buckets".
FALSE as stated — already for a lawful environment. `clear()` returns early on an empty table, so a
`place` that was emptied by `remove` keeps its tombstones; `reserve(n)` then sees
`growth_left < n` and `reserve_rehash_inner` resizes to `max(n, full_capacity + 1)`:

  cfg = { ops := Sse2.ops, size := 8, needsDrop := false }, env = lawful (multiplicative hash,
        `Eq` = key equality, allocator never refuses; `cexEnv` below);
  place := `visit_map` of the 7168 distinct keys 0 … 7167 with claimed length 7168 (so
           `with_capacity(4096)`: 8192 buckets, capacity 7168, filled exactly), then `remove` of the
           keys 0 … 7167: `items = 0`, `growth_left = 3900`, 8192 buckets;
  `deserializeInPlace cfg env (some 4096) [] .never place`
    → `.ok`, 16384 buckets, allocator log `[free 73744 16, alloc 147472 16]`
  (`#eval inPlaceCex` at the end of this file reproduces it).

(`4096 > 3900`, `4096 > 7168 / 2`, so `resize_inner(max(4096, 7169))`, and 7169 elements need 16384
buckets.) This is the behaviour of the source (`raw/mod.rs`: `clear` — "Special case empty table",
`reserve_rehash_inner` — `usize::max(new_items, full_capacity + 1)`), not a model artefact, and not
a defect: the request is still bounded by a constant, but the constant is 16384 buckets, not 8192.
`inPlace_reservation_bounded` proves the 16384 bound for every environment and every `place`, and
the 8192 bound under the ADDED hypothesis that `place` carries no tombstones when it is empty
(`w.t.items ≠ 0 ∨ w.t.gl = bucketMaskToCapacity w.t.mask`). -/

theorem buckets_le_of_cap_le_8192 (bits W size cap b : Nat) (hcap : cap ≤ 8192)
    (h : capacityToBuckets bits W size cap = some b) : b ≤ 16384 := by
  by_cases hc : cap < 15
  · unfold capacityToBuckets at h
    rw [if_pos hc] at h
    simp only [Option.some.injEq] at h
    subst h
    repeat' split
    all_goals omega
  · have := capacityToBuckets_minimal bits W size cap b (by omega) h 14 (by omega)
    omega

/-- `reserve(add)` (`add ≤ 4096`) on a valid table without elements: either nothing is requested, or
    exactly one block is, for `b ≤ 16384` buckets — `b ≤ 8192` if the table has no tombstones. -/
theorem reserve_empty_request (hc : CfgOk cfg) (env : Env) (add : Nat) (w : World)
    (h : TInv cfg w.t) (hit : w.t.items = 0) (hadd : add ≤ 4096) :
    match reserve cfg env add w with
    | .ok w' => w'.log = w.log ∨
        ∃ b, b ≤ 16384 ∧ w'.t.buckets = b ∧ env.allocOk w.ac = true ∧
          w'.log = freeEvs cfg w.t ++ [Ev.alloc (layoutOf cfg b).size (layoutOf cfg b).align] ++ w.log ∧
          (w.t.gl = bucketMaskToCapacity w.t.mask → b ≤ 8192)
    | _ => True := by
  have hp := probe_covers cfg hc.spec.width
  unfold reserve
  by_cases hgt : add > w.t.gl
  · rw [if_pos hgt]
    unfold reserveRehash
    cases hca : checkedAdd cfg.bits w.t.items add with
    | none => simp only [capacityOverflow]
    | some newItems =>
      have hn := ag_checkedAdd_some hca
      rw [hit, Nat.zero_add] at hn
      subst hn
      simp only
      by_cases hbr : newItems ≤ bucketMaskToCapacity w.t.mask / 2
      · rw [if_pos hbr]
        have ha : w.t.alloc = true := by
          cases hal : w.t.alloc with
          | true => rfl
          | false =>
            have hs := ag_singleton_of_not_alloc h.1 hal
            rw [hs.2.1] at hbr
            simp [bucketMaskToCapacity] at hbr
            omega
        have hsp := rehashInPlace_spec hc hp env w h.1 ha
        cases hr : rehashInPlace cfg env w with
        | ok w' => rw [hr] at hsp; exact Or.inl hsp.2.2.2.2.2.2
        | panic c w' => trivial
        | abort => trivial
        | fault f => trivial
      · rw [if_neg hbr]
        have hsp := resizeInner_post hc hp env (max newItems (bucketMaskToCapacity w.t.mask + 1))
          .infallible w h.1 h.2 (by omega)
        cases hr : resizeInner cfg env (max newItems (bucketMaskToCapacity w.t.mask + 1))
            .infallible w with
        | ok pr =>
          obtain ⟨r, w'⟩ := pr
          rw [hr] at hsp
          cases r with
          | ok u =>
            cases u
            obtain ⟨_, _, _, _, _, a6, _, _, a9, _⟩ := hsp
            have hz : ¬ max newItems (bucketMaskToCapacity w.t.mask + 1) = 0 := by omega
            rw [if_neg hz] at a6 a9
            obtain ⟨_, hb, _, hok⟩ := a6
            refine Or.inr ⟨w'.t.buckets, ?_, rfl, hok, by rw [a9]; rfl, fun hgl => ?_⟩
            · exact buckets_le_of_cap_le_8192 _ _ _ _ _ (by omega) hb
            · have hm : max newItems (bucketMaskToCapacity w.t.mask + 1) = newItems := by omega
              rw [hm] at hb
              exact buckets_le_of_cap_le _ _ _ _ _ hadd hb
          | error e => trivial
        | panic c w' => trivial
        | abort => trivial
        | fault f => trivial
  · rw [if_neg hgt]
    exact Or.inl rfl

/-- **The reservation of `deserialize_in_place`, every environment.** After `clear()`, the call
    `reserve(cautious(hint))` — the only thing done before the first element is read — requests
    nothing, or exactly one block of `b ≤ 16384` buckets (releasing the old block). `b ≤ 8192` under
    the added hypothesis that `place` is non-empty or free of tombstones; without it 16384 is
    attained (see the comment above). -/
theorem inPlace_reservation_bounded (hc : CfgOk cfg) (env : Env) (hint : Option Nat) (w w0 : World)
    (h : TInv cfg w.t) (h0 : clear cfg env w = .ok w0) :
    match reserve cfg env (cautious hint) w0 with
    | .ok w1 => w1.log = w0.log ∨
        ∃ b, b ≤ 16384 ∧ w1.t.buckets = b ∧ env.allocOk w0.ac = true ∧
          w1.log = freeEvs cfg w0.t ++ [Ev.alloc (layoutOf cfg b).size (layoutOf cfg b).align] ++
            w0.log ∧
          ((w.t.items ≠ 0 ∨ w.t.gl = bucketMaskToCapacity w.t.mask) → b ≤ 8192)
    | _ => True := by
  have hcl := clear_spec hc env w h
  rw [h0] at hcl
  obtain ⟨⟨ht0, hit0, _, hm0, _, hz, hnz⟩, _⟩ := hcl
  have hgl : (w.t.items ≠ 0 ∨ w.t.gl = bucketMaskToCapacity w.t.mask) →
      w0.t.gl = bucketMaskToCapacity w0.t.mask := by
    intro hx
    by_cases hi : w.t.items = 0
    · rw [hz hi]
      rcases hx with hx | hx
      · exact absurd hi hx
      · exact hx
    · have := (hnz hi).2
      rw [hm0]; omega
  have hre := reserve_empty_request hc env (cautious hint) w0 ht0 hit0 (cautious_le hint)
  cases hr : reserve cfg env (cautious hint) w0 with
  | ok w1 =>
    rw [hr] at hre
    rcases hre with hre | ⟨b, hb, a1, a2, a3, a4⟩
    · exact Or.inl hre
    · exact Or.inr ⟨b, hb, a1, a2, a3, fun hx => a4 (hgl hx)⟩
  | panic c w1 => trivial
  | abort => trivial
  | fault f => trivial

/-! ### the counterexample to the 8192-bucket bound for `deserialize_in_place`, executable -/

def cexCfg : Cfg := { ops := Sse2.ops, size := 8, needsDrop := false }

def cexEnv : Env :=
  { hash := fun _ k => some (k * 0x9E3779B97F4A7C15 % 2 ^ 64)
    eq := fun _ q e => some (q == e.k)
    clone := fun _ _ => none
    pred := fun _ _ => none
    allocOk := fun _ => true
    dropPanics := fun _ _ => false }

def cexRemoveAll : List Nat → World → World
  | [], w => w
  | k :: rest, w =>
    match Map.remove cexCfg cexEnv k w with
    | .ok (_, w') => cexRemoveAll rest w'
    | _ => w

/-- `(buckets, items, growth_left)` of the emptied `place`, then the bucket count and the allocator
    events of `deserialize_in_place` with a claimed length of 4096 and no elements.
    Value: `some ((8192, 0, 3900), 16384, [free 73744 16, alloc 147472 16])`. -/
def inPlaceCex : Option ((Nat × Nat × Nat) × Nat × List Ev) :=
  let toks := (List.range 7168).map fun i => (⟨i, 0, 0, 0⟩ : Elem)
  match visitMapGen cexCfg cexEnv (some 7168) toks .never { t := Raw.new 16 } with
  | .ok (.ok (), w) =>
    let w2 := cexRemoveAll (List.range 7168) w
    let place : World := { t := w2.t }
    match deserializeInPlace cexCfg cexEnv (some 4096) [] .never place with
    | .ok (_, w3) => some ((place.t.buckets, place.t.items, place.t.gl), w3.t.buckets, w3.log)
    | _ => none
  | _ => none

#eval inPlaceCex

#print axioms feed_safe
#print axioms dropLocal_quiet
#print axioms visitMapGen_safe
#print axioms deserializeInPlace_safe
#print axioms deserAssign_safe
#print axioms feed_ledger
#print axioms visitMapGen_ledger
#print axioms visitMapGen_no_double_drop
#print axioms visitMapGen_error_balanced
#print axioms visitMapGen_panic_balanced
#print axioms deserializeInPlace_ledger
#print axioms deserAssign_ledger
#print axioms reservation_bounded_every_env
#print axioms no_request_before_first_token
#print axioms inPlace_reservation_bounded

end Hb.Serde
