/-
Elementary mutators of the table model preserve the structural invariant `Inv`.
-/
import Hb.Proofs.Defs
namespace Hb

variable {cfg : Cfg} {t : Raw}

/-! ### arrays -/

theorem getD_setIfInBounds {α} (a : Array α) (i j : Nat) (c d : α) :
    (a.setIfInBounds i c).getD j d = if i = j ∧ i < a.size then c else a.getD j d := by
  simp only [Array.getD_eq_getD_getElem?, Array.getElem?_setIfInBounds]
  by_cases h : i = j
  · subst h
    by_cases h2 : i < a.size
    · simp [h2]
    · simp [h2]
  · simp [h]

theorem Raw.buckets_eq (t : Raw) : t.buckets = t.mask + 1 := rfl

theorem CfgOk.W_cases (hc : CfgOk cfg) : cfg.W = 8 ∨ cfg.W = 16 := hc.spec.width

/-! ### `index2` / `indexBefore` -/

theorem wsub_mod_aux (P n W i k b : Nat) (hn : n = 2 ^ k) (hk : 2 ≤ k) (hW : W = 8 ∨ W = 16)
    (hP : P = 2 ^ b) (hlt : n + W < P) (hi : i < n) :
    ((i + P - W) % P) % n = if W ≤ n then (if i < W then n + i - W else i - W) else i := by
  have hkb : k < b := by
    apply Nat.lt_of_not_le
    intro hbk
    have : 2 ^ b ≤ 2 ^ k := Nat.pow_le_pow_right (by decide) hbk
    omega
  obtain ⟨d, rfl⟩ : ∃ d, b = k + (d + 1) := ⟨b - k - 1, by omega⟩
  have hPn : P = n * (2 ^ d * 2) := by rw [hP, hn, Nat.pow_add, Nat.pow_succ]
  have hdpos : 0 < 2 ^ d := Nat.two_pow_pos d
  rw [Nat.mod_mod_of_dvd _ ⟨_, hPn⟩]
  generalize hm : 2 ^ d * 2 = m at hPn
  have hm1 : 1 ≤ m := by omega
  obtain ⟨m', rfl⟩ : ∃ m', m = m' + 1 := ⟨m - 1, by omega⟩
  have hPn' : P = n * m' + n := by rw [hPn, Nat.mul_succ]
  split
  · rename_i hWn
    split
    · rename_i hiW
      have : i + P - W = (n + i - W) + n * m' := by omega
      rw [this, Nat.add_mul_mod_self_left, Nat.mod_eq_of_lt (by omega)]
    · rename_i hiW
      have : i + P - W = (i - W) + n * (m' + 1) := by rw [Nat.mul_succ]; omega
      rw [this, Nat.add_mul_mod_self_left, Nat.mod_eq_of_lt (by omega)]
  · rename_i hWn
    have hk3 : k < 4 := by
      apply Nat.lt_of_not_le
      intro h4
      have : 2 ^ 4 ≤ 2 ^ k := Nat.pow_le_pow_right (by decide) h4
      omega
    have hk' : k = 2 ∨ k = 3 := by omega
    rcases hk' with rfl | rfl
    · have : n = 4 := by rw [hn]
      subst this
      omega
    · have : n = 8 := by rw [hn]
      subst this
      omega

theorem IsAllocated.mask_eq (ha : t.IsAllocated cfg) :
    ∃ k, 2 ≤ k ∧ t.buckets = 2 ^ k ∧ t.mask = 2 ^ k - 1 := by
  obtain ⟨_, ⟨k, hk, hb⟩, _⟩ := ha
  refine ⟨k, hk, hb, ?_⟩
  rw [← hb, Raw.buckets_eq]; omega

/-- `indexBefore` and the masked part of `index2`. -/
theorem wsub_and (hc : CfgOk cfg) (ha : t.IsAllocated cfg) {i : Nat} (hi : i < t.buckets) :
    wrappingSub cfg.bits i cfg.W &&& t.mask =
      if cfg.W ≤ t.buckets then (if i < cfg.W then t.buckets + i - cfg.W else i - cfg.W) else i := by
  obtain ⟨k, hk, hb, hm⟩ := IsAllocated.mask_eq ha
  rw [hm, Nat.and_two_pow_sub_one_eq_mod, wrappingSub, ← hb]
  exact wsub_mod_aux _ _ _ _ k cfg.bits hb hk hc.W_cases rfl ha.2.2.2.2 hi

theorem indexBefore_lt (hc : CfgOk cfg) (ha : t.IsAllocated cfg) {i : Nat} (hi : i < t.buckets) :
    indexBefore cfg.bits cfg.W t.mask i < t.buckets := by
  rw [indexBefore, wsub_and hc ha hi]
  repeat' split
  all_goals omega

theorem indexBefore_small (hc : CfgOk cfg) (ha : t.IsAllocated cfg) {i : Nat} (hi : i < t.buckets)
    (hs : t.buckets < cfg.W) : indexBefore cfg.bits cfg.W t.mask i = i := by
  rw [indexBefore, wsub_and hc ha hi, if_neg (by omega)]

theorem index2_cases (hc : CfgOk cfg) (ha : t.IsAllocated cfg) {i : Nat} (hi : i < t.buckets) :
    index2 cfg.bits cfg.W t.mask i =
      (if cfg.W ≤ t.buckets then (if i < cfg.W then t.buckets + i else i) else cfg.W + i) := by
  rw [index2, wsub_and hc ha hi]
  repeat' split
  all_goals omega

theorem index2_lt (hc : CfgOk cfg) (ha : t.IsAllocated cfg) {i : Nat} (hi : i < t.buckets) :
    index2 cfg.bits cfg.W t.mask i < t.buckets + cfg.W := by
  rw [index2_cases hc ha hi]
  repeat' split
  all_goals omega

/-! ### `setCtrl` -/

theorem ctrlAt_def (t : Raw) (j : Nat) : t.ctrlAt j = t.ctrl.getD j 0 := rfl

theorem setCtrl_ok (hc : CfgOk cfg) (ha : t.IsAllocated cfg) {i : Nat} (hi : i < t.buckets) (c : Nat) :
    ∃ t', setCtrl cfg t i c = .ok t' ∧ t'.mask = t.mask ∧ t'.slots = t.slots ∧ t'.items = t.items ∧
      t'.gl = t.gl ∧ t'.alloc = t.alloc ∧ t'.ctrl.size = t.ctrl.size ∧
      (∀ j, t'.ctrlAt j = if j = i ∨ j = index2 cfg.bits cfg.W t.mask i then c else t.ctrlAt j) := by
  have h2 := index2_lt hc ha hi
  obtain ⟨hal, _, hsz, _, _⟩ := ha
  have hi' : i < t.ctrl.size := by omega
  have h2' : index2 cfg.bits cfg.W t.mask i < (t.ctrl.setIfInBounds i c).size := by
    rw [Array.size_setIfInBounds]; omega
  refine ⟨{ t with ctrl := (t.ctrl.setIfInBounds i c).setIfInBounds (index2 cfg.bits cfg.W t.mask i) c },
    ?_, rfl, rfl, rfl, rfl, rfl, ?_, ?_⟩
  · simp only [setCtrl, ctrlWr, hal, hi', h2', Bool.not_true, Bool.false_eq_true, if_false, if_true]
  · simp only [Array.size_setIfInBounds]
  · intro j
    simp only [ctrlAt_def, getD_setIfInBounds, Array.size_setIfInBounds]
    generalize index2 cfg.bits cfg.W t.mask i = i2 at *
    repeat' split
    all_goals first | rfl | (exfalso; omega)

/-! ### counting -/

theorem countP_range_set (f g : Nat → Bool) (i : Nat) (b : Bool) (n : Nat)
    (hg : ∀ j, j < n → g j = if j = i then b else f j) :
    (List.range n).countP g + (if i < n ∧ f i = true then 1 else 0) =
      (List.range n).countP f + (if i < n ∧ b = true then 1 else 0) := by
  induction n with
  | zero => simp
  | succ n ih =>
    have ih := ih (fun j hj => hg j (by omega))
    have hgn := hg n (by omega)
    simp only [List.range_succ, List.countP_append, List.countP_cons, List.countP_nil, hgn]
    by_cases hni : n = i
    · subst hni
      simp only [if_true] at *
      have h1 : ¬ (n < n ∧ f n = true) := by omega
      have h2 : ¬ (n < n ∧ b = true) := by omega
      rw [if_neg h1, if_neg h2] at ih
      cases f n <;> cases b <;> simp <;> omega
    · simp only [hni, if_false]
      have e1 : (i < n + 1 ∧ f i = true) ↔ (i < n ∧ f i = true) := by
        constructor <;> rintro ⟨a, b⟩ <;> exact ⟨by omega, b⟩
      have e2 : (i < n + 1 ∧ b = true) ↔ (i < n ∧ b = true) := by
        constructor <;> rintro ⟨a, b⟩ <;> exact ⟨by omega, b⟩
      simp only [e1, e2]
      omega

theorem countCtrl_set {t t' : Raw} {i : Nat} (c : Nat) (hm : t'.mask = t.mask) (hi : i < t.buckets)
    (h : ∀ j, j < t.buckets → t'.ctrlAt j = if j = i then c else t.ctrlAt j) (p : Nat → Bool) :
    t'.countCtrl p + (if p (t.ctrlAt i) then 1 else 0) = t.countCtrl p + (if p c then 1 else 0) := by
  have hb : t'.buckets = t.buckets := by simp only [Raw.buckets_eq, hm]
  have := countP_range_set (fun j => p (t.ctrlAt j)) (fun j => p (t'.ctrlAt j)) i (p c) t.buckets
    (by
      intro j hj
      show p (t'.ctrlAt j) = _
      rw [h j hj]
      split <;> rfl)
  simp only [hi, true_and] at this
  simpa only [Raw.countCtrl, hb] using this

theorem countCtrl_pos {i : Nat} (hi : i < t.buckets) (p : Nat → Bool) (hp : p (t.ctrlAt i) = true) :
    0 < t.countCtrl p := by
  rw [Raw.countCtrl, List.countP_pos_iff]
  exact ⟨i, List.mem_range.mpr hi, hp⟩

/-! ### structural part of the invariant -/

/-- Clauses `geom`, `valid`, `mirror` of `Inv`. -/
structure StructInv (cfg : Cfg) (t : Raw) : Prop where
  geom : t.IsSingleton cfg ∨ t.IsAllocated cfg
  valid : ∀ i, i < t.ctrl.size → ValidCtrl (t.ctrlAt i)
  mirror : t.alloc = true →
    (cfg.W ≤ t.buckets → ∀ j, j < cfg.W → t.ctrlAt (t.buckets + j) = t.ctrlAt j) ∧
    (t.buckets < cfg.W →
      (∀ j, t.buckets ≤ j → j < cfg.W → t.ctrlAt j = EMPTY) ∧
      (∀ j, j < t.buckets → t.ctrlAt (cfg.W + j) = t.ctrlAt j))

theorem Inv.struct (h : Inv cfg t) : StructInv cfg t := ⟨h.geom, h.valid, h.mirror⟩

theorem StructInv.allocated (h : StructInv cfg t) (ha : t.alloc = true) : t.IsAllocated cfg :=
  h.geom.resolve_left (fun hs => by rw [hs.1] at ha; cases ha)

theorem Inv.allocated (h : Inv cfg t) (ha : t.alloc = true) : t.IsAllocated cfg :=
  h.struct.allocated ha

/-- Any table whose control bytes are those of `t` with byte `i` and its mirror set to `c`. -/
theorem StructInv.update (hc : CfgOk cfg) {t t' : Raw} (h : StructInv cfg t) (ha : t.IsAllocated cfg)
    {i c : Nat} (hi : i < t.buckets) (hv : ValidCtrl c)
    (hm : t'.mask = t.mask) (hal : t'.alloc = true) (hss : t'.slots.size = t.slots.size)
    (hcs : t'.ctrl.size = t.ctrl.size)
    (hct : ∀ j, t'.ctrlAt j = if j = i ∨ j = index2 cfg.bits cfg.W t.mask i then c else t.ctrlAt j) :
    StructInv cfg t' ∧ t'.IsAllocated cfg := by
  have hb : t'.buckets = t.buckets := by simp only [Raw.buckets_eq, hm]
  have hall : t'.IsAllocated cfg := by
    obtain ⟨_, h2, h3, h4, h5⟩ := ha
    exact ⟨hal, by rw [hb]; exact h2, by rw [hcs, hb]; exact h3, by rw [hss, hb]; exact h4,
      by rw [hb]; exact h5⟩
  refine ⟨⟨Or.inr hall, ?_, ?_⟩, hall⟩
  · intro j hj
    rw [hct]
    split
    · exact hv
    · exact h.valid j (by omega)
  · intro _
    have hmir := h.mirror ha.1
    rw [hb]
    refine ⟨fun hWn j hj => ?_, fun hnW => ⟨fun j h1 h2 => ?_, fun j hj => ?_⟩⟩
    · have := hmir.1 hWn j hj
      by_cases hiW : i < cfg.W
      · have hi2 : index2 cfg.bits cfg.W t.mask i = t.buckets + i := by
          rw [index2_cases hc ha hi, if_pos hWn, if_pos hiW]
        rw [hct, hct, hi2]
        by_cases hji : j = i
        · subst hji; simp
        · rw [if_neg (by omega), if_neg (by omega)]; exact this
      · have hi2 : index2 cfg.bits cfg.W t.mask i = i := by
          rw [index2_cases hc ha hi, if_pos hWn, if_neg hiW]
        rw [hct, hct, hi2]
        rw [if_neg (by omega), if_neg (by omega)]; exact this
    · have := (hmir.2 hnW).1 j h1 h2
      have hi2 : index2 cfg.bits cfg.W t.mask i = cfg.W + i := by
        rw [index2_cases hc ha hi, if_neg (by omega)]
      rw [hct, hi2, if_neg (by omega)]; exact this
    · have := (hmir.2 hnW).2 j hj
      have hi2 : index2 cfg.bits cfg.W t.mask i = cfg.W + i := by
        rw [index2_cases hc ha hi, if_neg (by omega)]
      rw [hct, hct, hi2]
      by_cases hji : j = i
      · subst hji; simp
      · rw [if_neg (by omega), if_neg (by omega)]; exact this

theorem setCtrl_struct (hc : CfgOk cfg) (h : StructInv cfg t) (ha : t.alloc = true) {i : Nat}
    (hi : i < t.buckets) {c : Nat} (hv : ValidCtrl c) :
    ∃ t', setCtrl cfg t i c = .ok t' ∧ StructInv cfg t' := by
  have hall := h.allocated ha
  obtain ⟨t', he, h1, h2, _, _, h5, h6, h7⟩ := setCtrl_ok hc hall hi c
  exact ⟨t', he, (h.update hc hall hi hv h1 (by rw [h5, ha]) (by rw [h2]) h6 h7).1⟩

theorem setCtrl_struct' (hc : CfgOk cfg) (h : StructInv cfg t) (ha : t.alloc = true) {i : Nat}
    (hi : i < t.buckets) {c : Nat} (hv : ValidCtrl c) {t' : Raw} (he : setCtrl cfg t i c = .ok t') :
    StructInv cfg t' := by
  obtain ⟨t'', he', hs⟩ := setCtrl_struct hc h ha hi hv
  rw [he] at he'
  cases he'
  exact hs

/-! ### bytes -/

theorem tagFull_lt (bits hash : Nat) : tagFull bits hash < 128 := Nat.mod_lt _ (by decide)

theorem isFull_of_lt {c : Nat} (h : c < 128) : isFull c = true := by
  simp only [isFull, decide_eq_true_eq]; omega

theorem isFull_iff_of_valid {c : Nat} (hv : ValidCtrl c) : isFull c = true ↔ c < 128 := by
  simp only [isFull, decide_eq_true_eq]
  rcases hv with h | h | h
  · omega
  · rw [h, DELETED]
  · rw [h, EMPTY]

theorem isFull_false_of_special {c : Nat} (hs : isSpecial c = true) : isFull c = false := by
  simpa [isSpecial] using hs

theorem special_cases {c : Nat} (hv : ValidCtrl c) (hs : isSpecial c = true) :
    c = EMPTY ∨ c = DELETED := by
  have hf := isFull_false_of_special hs
  rcases hv with h | h | h
  · rw [isFull_of_lt h] at hf; cases hf
  · exact Or.inr h
  · exact Or.inl h

theorem ctrlRd_eq {i : Nat} (hi : i < t.ctrl.size) : ctrlRd t i = .ok (t.ctrlAt i) := by
  simp [ctrlRd, Raw.ctrlAt, Array.getD_eq_getD_getElem?, hi]

theorem index2_ge (hc : CfgOk cfg) (ha : t.IsAllocated cfg) {i : Nat} (hi : i < t.buckets) :
    index2 cfg.bits cfg.W t.mask i = i ∨ t.buckets ≤ index2 cfg.bits cfg.W t.mask i := by
  rw [index2_cases hc ha hi]
  repeat' split
  all_goals omega

/-- restriction of the `setCtrl` byte description to real buckets -/
theorem ctrlAt_bucket (hc : CfgOk cfg) (ha : t.IsAllocated cfg) {i c : Nat} (hi : i < t.buckets)
    {t' : Raw}
    (hct : ∀ j, t'.ctrlAt j = if j = i ∨ j = index2 cfg.bits cfg.W t.mask i then c else t.ctrlAt j) :
    ∀ j, j < t.buckets → t'.ctrlAt j = if j = i then c else t.ctrlAt j := by
  intro j hj
  rw [hct]
  have := index2_ge hc ha hi
  by_cases hji : j = i
  · simp [hji]
  · rw [if_neg (by omega), if_neg hji]

theorem slot_of_live (h : Inv cfg t) {i : Nat} (hi : i < t.slots.size) :
    (isFull (t.ctrlAt i) = false → t.slots[i]? = some none) ∧
    (isFull (t.ctrlAt i) = true → ∃ e, t.slots[i]? = some (some e)) := by
  have hl := h.live i hi
  have hsome : t.slots[i]? = some t.slots[i] := Array.getElem?_eq_getElem hi
  rw [hsome] at hl ⊢
  cases hx : t.slots[i] with
  | none =>
    rw [hx] at hl
    refine ⟨fun _ => rfl, fun hf => ?_⟩
    have := hl.mpr hf
    simp at this
  | some e =>
    rw [hx] at hl
    refine ⟨fun hf => ?_, fun _ => ⟨e, rfl⟩⟩
    have := hl.mp (by simp)
    rw [hf] at this; cases this

/-! ### generic one-bucket update -/

/-- A table obtained from `t` by setting control byte `i` (and its mirror) to `c`, slot `i` to `s`,
    and adjusting `items`/`gl` consistently, satisfies `Inv`. -/
theorem Inv.update (hc : CfgOk cfg) {t t' : Raw} (h : Inv cfg t) (hall : t.IsAllocated cfg)
    {i c : Nat} (hi : i < t.buckets) (hv : ValidCtrl c)
    (hm : t'.mask = t.mask) (hal : t'.alloc = true) (hcs : t'.ctrl.size = t.ctrl.size)
    (hct : ∀ j, t'.ctrlAt j = if j = i ∨ j = index2 cfg.bits cfg.W t.mask i then c else t.ctrlAt j)
    (s : Option Elem) (hsl : t'.slots = t.slots.setIfInBounds i s) (hs : s.isSome ↔ isFull c = true)
    (hitems : t'.items + (if isFull (t.ctrlAt i) = true then 1 else 0) =
      t.items + (if isFull c = true then 1 else 0))
    (hgl : t'.gl + (if isFull c = true then 1 else 0) + (if (c == DELETED) = true then 1 else 0) =
      t.gl + (if isFull (t.ctrlAt i) = true then 1 else 0) +
        (if (t.ctrlAt i == DELETED) = true then 1 else 0))
    (hsmall : t.buckets < cfg.W → (c == DELETED) = false) : Inv cfg t' := by
  have hb : t'.buckets = t.buckets := by simp only [Raw.buckets_eq, hm]
  have hss : t'.slots.size = t.slots.size := by rw [hsl, Array.size_setIfInBounds]
  have hst := h.struct.update hc hall hi hv hm hal hss hcs hct
  have hctn := ctrlAt_bucket hc hall hi hct
  have hF := countCtrl_set c hm hi hctn isFull
  have hD := countCtrl_set c hm hi hctn (· == DELETED)
  have hie := h.items_eq
  have hcnt := h.count hall.1
  refine ⟨hst.1.geom, hst.1.valid, hst.1.mirror, ?_, ?_, ?_, ?_⟩
  · omega
  · intro _
    rw [hm]
    omega
  · intro j hj
    rw [hss] at hj
    have hjn : j < t.buckets := by rw [← hall.2.2.2.1]; exact hj
    rw [hsl, Array.getElem?_setIfInBounds, hctn j hjn]
    by_cases hji : i = j
    · subst hji
      simp only [hj, if_true, Option.join_some]
      exact hs
    · rw [if_neg hji, if_neg (Ne.symm hji)]; exact h.live j hj
  · intro hnW
    rw [hb] at hnW
    have h0 := h.smallClean hnW
    have := hsmall hnW
    rw [this] at hD
    simp only [Bool.false_eq_true, if_false] at hD
    omega

/-! ### `insertInSlot` -/

theorem insertInSlot_inv (hc : CfgOk cfg) (h : Inv cfg t) (ha : t.alloc = true) {idx : Nat}
    (hi : idx < t.buckets) (hs : isSpecial (t.ctrlAt idx) = true)
    (hg : t.ctrlAt idx = EMPTY → 0 < t.gl) (e : Elem) (hash : Nat) :
    ∃ t', insertInSlot cfg t hash idx e = .ok t' ∧ Inv cfg t' ∧ t'.mask = t.mask ∧ t'.alloc = true ∧
      t'.items = t.items + 1 ∧ t'.slots = t.slots.setIfInBounds idx (some e) ∧
      (∀ j, j < t.buckets → t'.ctrlAt j = if j = idx then tagFull cfg.bits hash else t.ctrlAt j) ∧
      t'.gl = (if t.ctrlAt idx = EMPTY then t.gl - 1 else t.gl) := by
  have hall := h.allocated ha
  have hsz : idx < t.ctrl.size := by have := hall.2.2.1; omega
  have hssz : idx < t.slots.size := by have := hall.2.2.2.1; omega
  have hold := special_cases (h.valid idx hsz) hs
  have hnf := isFull_false_of_special hs
  have hslot : t.slots[idx]? = some none := (slot_of_live h hssz).1 hnf
  have hall0 : Raw.IsAllocated cfg
      { t with gl := t.gl - (if specialIsEmpty (t.ctrlAt idx) then 1 else 0) } := hall
  obtain ⟨t1, he, h1, h2, h3, h4, h5, h6, h7⟩ :=
    setCtrl_ok hc hall0 (i := idx) hi (tagFull cfg.bits hash)
  simp only at h1 h2 h3 h4 h5 h6 h7
  have hdec : ¬ t.gl < (if specialIsEmpty (t.ctrlAt idx) then 1 else 0) := by
    rcases hold with ho | ho
    · have := hg ho
      split <;> omega
    · rw [ho]
      simp [specialIsEmpty, DELETED]
  have hgl' : t.gl - (if specialIsEmpty (t.ctrlAt idx) then 1 else 0) =
      (if t.ctrlAt idx = EMPTY then t.gl - 1 else t.gl) := by
    rcases hold with ho | ho
    · rw [ho]; simp [specialIsEmpty, EMPTY]
    · rw [ho]; simp [specialIsEmpty, EMPTY, DELETED]
  have htf := isFull_of_lt (tagFull_lt cfg.bits hash)
  have htd : (tagFull cfg.bits hash == DELETED) = false := by
    have := tagFull_lt cfg.bits hash
    simp only [DELETED, beq_eq_false_iff_ne, ne_eq]; omega
  refine ⟨{ t1 with items := t1.items + 1, slots := t1.slots.setIfInBounds idx (some e) },
    ?_, ?_, h1, by rw [h5, ha], by simp only [h3], by simp only [h2], ?_, ?_⟩
  · simp only [insertInSlot, ctrlRd_eq hsz, recordItemInsertAt, hdec, if_false, setCtrlHash, he,
      slotPut, h2, hslot]
  · refine h.update hc hall hi (Or.inl (tagFull_lt cfg.bits hash)) h1 (by rw [h5, ha]) h6 h7
      (some e) (by simp only [h2]) (by simp [htf]) ?_ ?_ (fun _ => htd)
    · simp only [h3, hnf, htf, Bool.false_eq_true, if_false, if_true]
    · simp only [h4, hnf, htf, htd, Bool.false_eq_true, if_false, if_true]
      rcases hold with ho | ho
      · have := hg ho
        rw [hgl', ho]
        simp [EMPTY, DELETED]; omega
      · rw [hgl', ho]
        simp [EMPTY, DELETED]
  · exact ctrlAt_bucket hc hall hi h7
  · simp only [h4, hgl']

/-! ### groups: leading / trailing zeros of the EMPTY mask -/

theorem head?_of_pairwise {R : Nat → Nat → Prop} {xs : List Nat} (hp : xs.Pairwise R) {l : Nat}
    (hl : l ∈ xs) : ∃ h, xs.head? = some h ∧ (h = l ∨ R h l) := by
  cases xs with
  | nil => cases hl
  | cons a r =>
    refine ⟨a, rfl, ?_⟩
    rcases List.mem_cons.mp hl with rfl | hm
    · exact Or.inl rfl
    · exact Or.inr ((List.pairwise_cons.mp hp).1 _ hm)

theorem matchEmpty_pairwise (g : List Nat) : (Spec.matchEmpty g).Pairwise (· < ·) :=
  List.Pairwise.filter _ List.pairwise_lt_range

theorem mem_matchEmpty {g : List Nat} {l : Nat} (hl : l < g.length) (he : g.getD l 0 = EMPTY) :
    l ∈ Spec.matchEmpty g := by
  simp only [Spec.matchEmpty, Spec.lanesWhere, List.mem_filter, List.mem_range, beq_iff_eq]
  exact ⟨hl, he⟩

theorem spec_tz_le {g : List Nat} {l : Nat} (hl : l < g.length) (he : g.getD l 0 = EMPTY) :
    Spec.emptyTrailingZeros g ≤ l := by
  obtain ⟨h, hh, hle⟩ := head?_of_pairwise (matchEmpty_pairwise g) (mem_matchEmpty hl he)
  simp only [Spec.emptyTrailingZeros, hh]
  omega

theorem spec_lz_le {g : List Nat} {l : Nat} (hl : l < g.length) (he : g.getD l 0 = EMPTY) :
    Spec.emptyLeadingZeros g ≤ g.length - 1 - l := by
  have hp : (Spec.matchEmpty g).reverse.Pairwise (fun a b => b < a) :=
    List.pairwise_reverse.mpr (matchEmpty_pairwise g)
  obtain ⟨h, hh, hle⟩ := head?_of_pairwise hp (List.mem_reverse.mpr (mem_matchEmpty hl he))
  rw [List.head?_reverse] at hh
  simp only [Spec.emptyLeadingZeros, hh]
  omega

theorem loadGroup_eq {W pos : Nat} (h : pos + W ≤ t.ctrl.size) :
    loadGroup W t pos = .ok ((List.range W).map fun j => t.ctrlAt (pos + j)) := by
  rw [loadGroup, if_pos h]; rfl

theorem group_valid (h : Inv cfg t) {pos : Nat} (hp : pos + cfg.W ≤ t.ctrl.size) :
    ValidGroup cfg.ops.W ((List.range cfg.W).map fun j => t.ctrlAt (pos + j)) := by
  refine ⟨by simp [Cfg.W], ?_⟩
  intro b hb
  obtain ⟨j, hj, rfl⟩ := List.mem_map.mp hb
  have := List.mem_range.mp hj
  exact h.valid _ (by omega)

theorem group_getD (t : Raw) (W pos l : Nat) (hl : l < W) :
    ((List.range W).map fun j => t.ctrlAt (pos + j)).getD l 0 = t.ctrlAt (pos + l) := by
  simp [List.getD_eq_getElem?_getD, hl]

/-- In a table smaller than a group every loaded group contains the padding, so `erase` always
    takes the EMPTY branch. -/
theorem erase_small_empty (hc : CfgOk cfg) (h : Inv cfg t) (hall : t.IsAllocated cfg) {idx : Nat}
    (hi : idx < t.buckets) (hs : t.buckets < cfg.W) :
    ¬ (cfg.ops.emptyLeadingZeros ((List.range cfg.W).map fun j => t.ctrlAt (idx + j)) +
        cfg.ops.emptyTrailingZeros ((List.range cfg.W).map fun j => t.ctrlAt (idx + j)) ≥ cfg.W) := by
  have hsz := hall.2.2.1
  have hv := group_valid h (pos := idx) (by omega)
  rw [hc.spec.lz _ hv, hc.spec.tz _ hv]
  have hpad := (h.mirror hall.1).2 hs
  have hlen : ((List.range cfg.W).map fun j => t.ctrlAt (idx + j)).length = cfg.W := by simp
  have h1 := spec_tz_le (g := (List.range cfg.W).map fun j => t.ctrlAt (idx + j))
    (l := t.buckets - idx) (by rw [hlen]; omega)
    (by rw [group_getD _ _ _ _ (by omega)]; exact hpad.1 _ (by omega) (by omega))
  have h2 := spec_lz_le (g := (List.range cfg.W).map fun j => t.ctrlAt (idx + j))
    (l := cfg.W - 1 - idx) (by rw [hlen]; omega)
    (by rw [group_getD _ _ _ _ (by omega)]; exact hpad.1 _ (by omega) (by omega))
  rw [hlen] at h2
  omega

/-! ### `erase` / `removeAt` -/

theorem Inv.alloc_of_full (hc : CfgOk cfg) (h : Inv cfg t) {idx : Nat} (hi : idx < t.buckets)
    (hf : isFull (t.ctrlAt idx) = true) : t.alloc = true := by
  rcases h.geom with hs | ha
  · exfalso
    obtain ⟨_, hm, hctrl, _⟩ := hs
    have h0 : idx = 0 := by rw [Raw.buckets_eq, hm] at hi; omega
    have hW : 0 < cfg.W := by rcases hc.W_cases with h | h <;> omega
    subst h0
    rw [Raw.ctrlAt, hctrl] at hf
    simp [Array.getD_eq_getD_getElem?, hW, isFull, EMPTY] at hf
  · exact ha.1

theorem erase_ok (hc : CfgOk cfg) (h : Inv cfg t) {idx : Nat} (hi : idx < t.buckets)
    (hf : isFull (t.ctrlAt idx) = true) :
    ∃ t' c, erase cfg t idx = .ok t' ∧ (c = EMPTY ∨ c = DELETED) ∧ (t.buckets < cfg.W → c = EMPTY) ∧
      t'.mask = t.mask ∧ t'.slots = t.slots ∧ t'.items + 1 = t.items ∧
      t'.gl = (if c = EMPTY then t.gl + 1 else t.gl) ∧ t'.alloc = t.alloc ∧
      t'.ctrl.size = t.ctrl.size ∧
      (∀ j, t'.ctrlAt j = if j = idx ∨ j = index2 cfg.bits cfg.W t.mask idx then c else t.ctrlAt j) := by
  have ha := h.alloc_of_full hc hi hf
  have hall := h.allocated ha
  have hsz := hall.2.2.1
  have hib := indexBefore_lt hc hall hi
  have hitems : t.items ≠ 0 := by
    have := countCtrl_pos hi isFull hf
    rw [h.items_eq]; omega
  have hl1 := loadGroup_eq (t := t) (W := cfg.W) (pos := indexBefore cfg.bits cfg.W t.mask idx)
    (by omega)
  have hl2 := loadGroup_eq (t := t) (W := cfg.W) (pos := idx) (by omega)
  by_cases hbr : cfg.ops.emptyLeadingZeros
        ((List.range cfg.W).map fun j => t.ctrlAt (indexBefore cfg.bits cfg.W t.mask idx + j)) +
      cfg.ops.emptyTrailingZeros ((List.range cfg.W).map fun j => t.ctrlAt (idx + j)) ≥ cfg.W
  · obtain ⟨t1, he, h1, h2, h3, h4, h5, h6, h7⟩ := setCtrl_ok hc hall hi DELETED
    refine ⟨{ t1 with items := t1.items - 1 }, DELETED, ?_, Or.inr rfl, ?_, h1, h2, ?_, ?_, h5, h6, h7⟩
    · simp only [erase, hl1, hl2, hitems, if_false, hbr, if_true, he]
    · intro hs
      exfalso
      rw [indexBefore_small hc hall hi hs] at hbr
      exact erase_small_empty hc h hall hi hs hbr
    · show t1.items - 1 + 1 = t.items
      rw [h3]; omega
    · show t1.gl = _
      rw [h4, if_neg (by decide)]
  · have hall0 : Raw.IsAllocated cfg { t with gl := t.gl + 1 } := hall
    obtain ⟨t1, he, h1, h2, h3, h4, h5, h6, h7⟩ := setCtrl_ok hc hall0 (i := idx) hi EMPTY
    simp only at h1 h2 h3 h4 h5 h6 h7
    refine ⟨{ t1 with items := t1.items - 1 }, EMPTY, ?_, Or.inl rfl, fun _ => rfl, h1, h2, ?_, ?_,
      h5, h6, h7⟩
    · simp only [erase, hl1, hl2, hitems, if_false, hbr, he]
    · show t1.items - 1 + 1 = t.items
      rw [h3]; omega
    · show t1.gl = _
      rw [h4, if_pos rfl]

theorem removeAt_inv (hc : CfgOk cfg) (h : Inv cfg t) {idx : Nat} (hi : idx < t.buckets)
    (hf : isFull (t.ctrlAt idx) = true) :
    ∃ e t', removeAt cfg t idx = .ok (e, t') ∧ t.slots[idx]?.join = some e ∧ Inv cfg t' ∧
      t'.mask = t.mask ∧ t'.alloc = t.alloc ∧ t'.items + 1 = t.items ∧
      t'.slots = t.slots.setIfInBounds idx none ∧
      (∀ j, j < t.buckets → j ≠ idx → t'.ctrlAt j = t.ctrlAt j) ∧
      (t'.ctrlAt idx = EMPTY ∨ t'.ctrlAt idx = DELETED) ∧
      t'.gl = (if t'.ctrlAt idx = EMPTY then t.gl + 1 else t.gl) := by
  have ha := h.alloc_of_full hc hi hf
  have hall := h.allocated ha
  have hsz : idx < t.ctrl.size := by have := hall.2.2.1; omega
  have hssz : idx < t.slots.size := by have := hall.2.2.2.1; omega
  obtain ⟨e, hslot⟩ := (slot_of_live h hssz).2 hf
  obtain ⟨t1, c, he, hcc, hsm, h1, h2, h3, h4, h5, h6, h7⟩ := erase_ok hc h hi hf
  have hctn := ctrlAt_bucket hc hall hi h7
  have hcv : ValidCtrl c := by rcases hcc with r | r <;> simp [ValidCtrl, r]
  have hcf : isFull c = false := by rcases hcc with r | r <;> rw [r] <;> rfl
  have hod : (t.ctrlAt idx == DELETED) = false := by
    simp only [beq_eq_false_iff_ne, ne_eq]
    intro hd
    rw [hd] at hf
    exact absurd hf (by decide)
  have hcidx : ({ t1 with slots := t1.slots.setIfInBounds idx none } : Raw).ctrlAt idx = c := by
    have := hctn idx hi
    rw [if_pos rfl] at this
    exact this
  refine ⟨e, { t1 with slots := t1.slots.setIfInBounds idx none }, ?_, ?_, ?_, h1, h5, h3,
    by simp only [h2], ?_, ?_, ?_⟩
  · simp only [removeAt, ctrlRd_eq hsz, hf, Bool.not_true, Bool.false_eq_true, if_false, he,
      slotTake, h2, hslot]
  · rw [hslot]; rfl
  · refine h.update hc hall hi hcv h1 (by rw [h5, ha]) h6 h7 none (by simp only [h2])
      (by simp [hcf]) ?_ ?_ ?_
    · simp only [hf, hcf, Bool.false_eq_true, if_false, if_true]
      exact h3
    · simp only [hf, hcf, hod, Bool.false_eq_true, if_false, if_true]
      show t1.gl + 0 + _ = _
      rw [h4]
      rcases hcc with r | r <;> rw [r] <;> simp [EMPTY, DELETED]
    · intro hs
      rw [hsm hs]; rfl
  · intro j hj hne
    have := hctn j hj
    rw [if_neg hne] at this
    exact this
  · rw [hcidx]; exact hcc
  · rw [hcidx]; exact h4

/-! ### fresh / cleared tables -/

theorem countCtrl_eq_zero {t : Raw} (p : Nat → Bool) (h : ∀ j, j < t.buckets → p (t.ctrlAt j) = false) :
    t.countCtrl p = 0 := by
  rw [Raw.countCtrl, List.countP_eq_zero]
  intro j hj
  rw [h j (List.mem_range.mp hj)]
  exact Bool.false_ne_true

theorem ctrlAt_replicate {t : Raw} {m : Nat} (hctrl : t.ctrl = Array.replicate m EMPTY) {j : Nat}
    (hj : j < m) : t.ctrlAt j = EMPTY := by
  rw [Raw.ctrlAt, hctrl]
  simp [Array.getD_eq_getD_getElem?, hj]

/-- An allocated table with all control bytes EMPTY, no elements and full `growth_left`. -/
theorem fresh_inv {t : Raw} (hall : t.IsAllocated cfg)
    (hctrl : t.ctrl = Array.replicate (t.buckets + cfg.W) EMPTY)
    (hslots : t.slots = Array.replicate t.buckets none) (hitems : t.items = 0)
    (hgl : t.gl = bucketMaskToCapacity t.mask) : Inv cfg t := by
  have hE : ∀ j, j < t.buckets + cfg.W → t.ctrlAt j = EMPTY := fun j hj => ctrlAt_replicate hctrl hj
  have hsz := hall.2.2.1
  have hF : t.countCtrl isFull = 0 :=
    countCtrl_eq_zero _ (fun j hj => by rw [hE j (by omega)]; rfl)
  have hD : t.countCtrl (· == DELETED) = 0 :=
    countCtrl_eq_zero _ (fun j hj => by rw [hE j (by omega)]; rfl)
  refine ⟨Or.inr hall, ?_, ?_, ?_, ?_, ?_, ?_⟩
  · intro i hi
    rw [hE i (by omega)]
    exact Or.inr (Or.inr rfl)
  · intro _
    refine ⟨fun _ j hj => ?_, fun hnW => ⟨fun j _ h2 => ?_, fun j hj => ?_⟩⟩
    · rw [hE _ (by omega), hE _ (by omega)]
    · exact hE _ (by omega)
    · rw [hE _ (by omega), hE _ (by omega)]
  · rw [hitems, hF]
  · intro _
    rw [hF, hD, hgl]; rfl
  · intro i hi
    have hi' : i < t.buckets := by rw [← hall.2.2.2.1]; exact hi
    rw [hE i (by omega), hslots]
    simp [hi', isFull, EMPTY]
  · intro _
    exact hD

theorem newTable_inv {buckets k : Nat} (hb : buckets = 2 ^ k) (hk : 2 ≤ k)
    (hlt : buckets + cfg.W < 2 ^ cfg.bits) :
    Inv cfg { mask := buckets - 1, ctrl := Array.replicate (buckets + cfg.W) EMPTY,
              slots := Array.replicate buckets none, items := 0,
              gl := bucketMaskToCapacity (buckets - 1), alloc := true } := by
  have hpos : 0 < buckets := by rw [hb]; exact Nat.two_pow_pos k
  have hbk : buckets - 1 + 1 = buckets := by omega
  apply fresh_inv
  · refine ⟨rfl, ⟨k, hk, ?_⟩, ?_, ?_, ?_⟩
    · show buckets - 1 + 1 = 2 ^ k
      omega
    · show (Array.replicate (buckets + cfg.W) EMPTY).size = buckets - 1 + 1 + cfg.W
      rw [Array.size_replicate]; omega
    · show (Array.replicate buckets (none : Option Elem)).size = buckets - 1 + 1
      rw [Array.size_replicate]; omega
    · show buckets - 1 + 1 + cfg.W < _
      omega
  · show Array.replicate (buckets + cfg.W) EMPTY = Array.replicate (buckets - 1 + 1 + cfg.W) EMPTY
    rw [hbk]
  · show Array.replicate buckets none = Array.replicate (buckets - 1 + 1) none
    rw [hbk]
  · rfl
  · rfl

/-- Success of `calculateLayoutFor` bounds `buckets + W`. -/
theorem calculateLayoutFor_bound {bits W size ca buckets : Nat} {l : Layout}
    (h : calculateLayoutFor bits W size ca buckets = some l) : buckets + W < 2 ^ bits := by
  simp only [calculateLayoutFor] at h
  split at h
  · cases h
  · split at h
    · cases h
    · split at h
      · cases h
      · rename_i len hlen
        simp only [checkedAdd] at hlen
        split at hlen
        · omega
        · cases hlen

/-- The table returned by a successful `newTable` satisfies `Inv`. -/
theorem newTable_ok_inv {env : Env} {buckets k : Nat} {fb : Fallibility} {w w' : World} {t : Raw}
    (h : newTable cfg env buckets fb w = .ok (.ok t, w')) (hb : buckets = 2 ^ k) (hk : 2 ≤ k) :
    Inv cfg t := by
  simp only [newTable] at h
  split at h
  · cases fb <;> simp [capacityOverflow] at h
  · rename_i l hl
    have hlt := calculateLayoutFor_bound hl
    split at h
    · cases fb <;> simp [allocErr] at h
    · simp only [Res.ok.injEq, Prod.mk.injEq, Except.ok.injEq] at h
      rw [← h.1]
      exact newTable_inv hb hk hlt

/-- `CfgOk` is needed only for `0 < cfg.W` (with `W = 0` the one bucket of the singleton would read
    as byte `0`, i.e. full). -/
theorem Raw.new_inv (hc : CfgOk cfg) : Inv cfg (Raw.new cfg.W) := by
  have hW : 0 < cfg.W := by rcases hc.W_cases with h | h <;> omega
  have hE : ∀ j, j < cfg.W → (Raw.new cfg.W).ctrlAt j = EMPTY :=
    fun j hj => ctrlAt_replicate (t := Raw.new cfg.W) rfl hj
  have hb : (Raw.new cfg.W).buckets = 1 := rfl
  have hF : (Raw.new cfg.W).countCtrl isFull = 0 :=
    countCtrl_eq_zero _ (fun j hj => by rw [hE j (by omega)]; rfl)
  have hD : (Raw.new cfg.W).countCtrl (· == DELETED) = 0 :=
    countCtrl_eq_zero _ (fun j hj => by rw [hE j (by omega)]; rfl)
  refine ⟨Or.inl ⟨rfl, rfl, rfl, rfl, rfl, rfl⟩, ?_, ?_, ?_, ?_, ?_, ?_⟩
  · intro i hi
    have : i < cfg.W := by simpa [Raw.new] using hi
    rw [hE i this]
    exact Or.inr (Or.inr rfl)
  · intro h; cases h
  · rw [hF]; rfl
  · intro h; cases h
  · intro i hi
    exact absurd hi (by simp [Raw.new])
  · intro _; exact hD

theorem clearNoDrop_inv (hc : CfgOk cfg) (h : Inv cfg t) :
    Inv cfg (clearNoDrop { t with slots := Array.replicate t.slots.size none }) := by
  rcases h.geom with hs | hall
  · obtain ⟨h1, h2, h3, h4, h5, h6⟩ := hs
    have : clearNoDrop { t with slots := Array.replicate t.slots.size none } = Raw.new cfg.W := by
      cases t with
      | mk mask ctrl slots items gl alloc =>
        simp only at h1 h2 h3 h4 h5 h6
        subst h1 h2 h3 h4 h5 h6
        rfl
    rw [this]
    exact Raw.new_inv hc
  · obtain ⟨k, hk, hb, hm⟩ := IsAllocated.mask_eq hall
    have hne : t.mask ≠ 0 := by
      have : 2 ^ 2 ≤ 2 ^ k := Nat.pow_le_pow_right (by decide) hk
      omega
    have hsing : (t.mask == 0) = false := by simpa using hne
    obtain ⟨ha1, ha2, ha3, ha4, ha5⟩ := hall
    apply fresh_inv
    · refine ⟨ha1, ha2, ?_, ?_, ha5⟩
      · show (if (t.mask == 0) = true then t.ctrl else Array.replicate t.ctrl.size EMPTY).size = _
        rw [hsing]
        simp only [Bool.false_eq_true, if_false, Array.size_replicate]
        exact ha3
      · show (Array.replicate t.slots.size (none : Option Elem)).size = _
        rw [Array.size_replicate]; exact ha4
    · show (if (t.mask == 0) = true then t.ctrl else Array.replicate t.ctrl.size EMPTY) = _
      rw [hsing]
      simp only [Bool.false_eq_true, if_false]
      rw [ha3]; rfl
    · show Array.replicate t.slots.size none = _
      rw [ha4]; rfl
    · rfl
    · rfl

/-! ### non-vacuity -/

/-- A concrete allocated table (4 buckets, SSE2 width 16) with two full buckets passes the executable
    invariant checker. -/
example :
    invB { ops := Sse2.ops }
      { mask := 3
        ctrl := #[5, 255, 7, 255, 255, 255, 255, 255, 255, 255, 255, 255, 255, 255, 255, 255,
                  5, 255, 7, 255]
        slots := #[some ⟨1, 1, 1, 1⟩, none, some ⟨2, 2, 2, 2⟩, none]
        items := 2, gl := 1, alloc := true } = true := by
  decide

/-- The hypotheses of `insertInSlot_inv` / `removeAt_inv` are jointly satisfiable for every
    admissible configuration: insert into a fresh 4-bucket table, then remove again. -/
example (hc : CfgOk cfg) (e : Elem) (hash : Nat) :
    ∃ t t' t'' e', Inv cfg t ∧ insertInSlot cfg t hash 0 e = .ok t' ∧ Inv cfg t' ∧ t'.items = 1 ∧
      removeAt cfg t' 0 = .ok (e', t'') ∧ Inv cfg t'' ∧ e' = e := by
  have hlt : 4 + cfg.W < 2 ^ cfg.bits := by
    have : 2 ^ 16 ≤ 2 ^ cfg.bits := Nat.pow_le_pow_right (by decide) hc.bits
    rcases hc.W_cases with h | h <;> omega
  have h0 := newTable_inv (cfg := cfg) (buckets := 4) (k := 2) rfl (by decide) hlt
  have hE : ({ mask := 4 - 1, ctrl := Array.replicate (4 + cfg.W) EMPTY,
               slots := Array.replicate 4 none, items := 0,
               gl := bucketMaskToCapacity (4 - 1), alloc := true } : Raw).ctrlAt 0 = EMPTY :=
    ctrlAt_replicate rfl (by omega)
  obtain ⟨t', he, hinv, hm, hal, hit, hsl, hct, _⟩ :=
    insertInSlot_inv hc h0 rfl (idx := 0) (show 0 < 3 + 1 by omega) (by rw [hE]; rfl)
      (fun _ => show 0 < bucketMaskToCapacity (4 - 1) by decide) e hash
  have hb' : t'.buckets = 4 := by rw [Raw.buckets_eq, hm]
  have hfull : isFull (t'.ctrlAt 0) = true := by
    rw [hct 0 (show 0 < 3 + 1 by omega), if_pos rfl]
    exact isFull_of_lt (tagFull_lt _ _)
  obtain ⟨e', t'', hr, hsome, hinv'', _⟩ := removeAt_inv hc hinv (idx := 0) (by omega) hfull
  refine ⟨_, t', t'', e', h0, he, hinv, hit, hr, hinv'', ?_⟩
  rw [hsl] at hsome
  simp at hsome
  exact hsome.symm

#print axioms index2_cases
#print axioms setCtrl_ok
#print axioms countCtrl_set
#print axioms setCtrl_struct
#print axioms insertInSlot_inv
#print axioms erase_small_empty
#print axioms removeAt_inv
#print axioms clearNoDrop_inv
#print axioms newTable_inv
#print axioms newTable_ok_inv
#print axioms Raw.new_inv

end Hb
