/-
C02 / C04 / C05 — memory-safety / validity HISTORY theorems for `HashSet` (pairs of sets,
`Hb/Model/SetOps.lean`: `SetOp`, `SetCall`, `Set.Pair`, `Set.call`, `Set.step2`, `Set.run2`) and for
`HashTable` (`Hb/Model/TableOpsH.lean`: `TableOp`, `Table.stepH`, `Table.runH`, `Table.runHFaults`)
under EVERY environment: arbitrary, call-number dependent `Hash` / `Eq` / `Clone` / predicate answers
(any of them may be `none` = the callback panics), arbitrary `dropPanics`, arbitrary `allocOk`; for
the table the hashes supplied by the caller are arbitrary numbers and the re-hash closure is
arbitrary (no `hh`, no `TableOp.contract`).

§0 helpers, every environment: `st_find`, `st_fofis` (`find_or_find_insert_slot`), `st_insertInSlot`.
§1 `HashTable`: per function `st_findElem`, `st_findMut`, `st_insertUnique`, `st_findEntryRemove`,
   `st_entryInsert`, `st_entryOrInsert`, `st_entryAndModify`, `st_retain`, `st_extractIf`, `st_drain`,
   `st_clear`, `st_reserve`, `st_shrinkTo`, `st_getManyMut` (`st_hasDup_false`: the duplicate check
   never under-reports, so NO hypothesis on the element size is needed for safety); one lemma per
   constructor of `TableOp` (`st_t_*`), `st_stepH_safe`, `table_stepH_safe`; `Table.statesH`,
   `st_runH_inv`, `table_runH_safe`, `table_runH_safe_from`, `st_statesH_of_runH`.
§2 `HashSet`: building blocks `st_mapInsert`, `st_mapRemove`, `st_mapRemoveEntry`, `st_mapGet`,
   `st_getInner`, `st_search`, `st_entryFind`; single-set calls `st_setInsert` … `st_setEntryRemove`;
   read-only calls (`st_RO`, `st_containsIn`, `st_StepsOk`, `st_yieldAll`, `st_yieldsAny`, `st_allIn`,
   `st_lazyOp`, `st_isSubsetOf`, `st_isDisjoint`, `st_setEq`); assigning operators
   (`st_bitorAssign`, `st_bitxorAssign`, `st_removeAllLoop`, `st_retainByLoop` / `st_retainBy` for ANY
   read-only predicate, `st_bitandAssign`, `st_subAssign`); `set_call_safe`, `st_step2_safe`,
   `set_step2_safe`; `Set.run2Faults`, `Set.states2`, `st_run2_inv`, `set_run2_safe`,
   `set_run2_safe_new`, `set_run2_safe_from`, `st_states2_of_run2`.
§3 `LenIsYielded`, `st_lenIsYielded`, `len_equals_yielded_set_table`: in every reachable state
   `RawIter` yields exactly `items` buckets, the stored elements.
-/
import Hb.Model.SetOps
import Hb.Model.TableOpsH
import Hb.Proofs.HistoryX
import Hb.Proofs.SetSpec
import Hb.Proofs.IterSpec
namespace Hb

variable {cfg : Cfg}

/-! ## 0. helpers, every environment -/

/-- The abort reason used throughout: the allocator refused some request. -/
abbrev st_A (env : Env) : Prop := ∃ j, env.allocOk j = false

theorem st_bind_ok {α β : Type} (a : α) (f : α → Res β) : (Res.ok a >>= f) = f a := rfl
theorem st_bind_panic {α β : Type} (c : String) (w : World) (f : α → Res β) :
    ((Res.panic c w : Res α) >>= f) = .panic c w := rfl

/-- `find`, every environment: table untouched, a found bucket holds a live element. -/
theorem st_find (hc : CfgOk cfg) (env : Env) (hash q : Nat) (w : World) (h : Inv cfg w.t) :
    (∃ r w', find cfg env hash q w = .ok (r, w') ∧ w'.t = w.t ∧
      ∀ idx, r = some idx → ∃ e, w.t.slots[idx]?.join = some e) ∨
    (∃ w', find cfg env hash q w = .panic "eq" w' ∧ w'.t = w.t) := by
  rcases find_total hc hc.probe env hash q w h with ⟨r, w', k1, k2, _, _, k5⟩ | ⟨w', k1, k2, _⟩
  · exact .inl ⟨r, w', k1, k2, fun idx hi => (k5 idx hi).2.2⟩
  · exact .inr ⟨w', k1, k2⟩

/-- `find_or_find_insert_slot` (= `reserve(1)` + search), every environment. -/
theorem st_fofis (hc : CfgOk cfg) (hg : GuardRuns cfg) (env : Env) (hash q : Nat) (w : World)
    (h : TInv cfg w.t) :
    match findOrFindInsertSlot cfg env hash q w with
    | .ok (.ok idx, w') => TInv cfg w'.t ∧ ∃ x, w'.t.slots[idx]?.join = some x
    | .ok (.error slot, w') =>
      TInv cfg w'.t ∧ slot < w'.t.buckets ∧ isSpecial (w'.t.ctrlAt slot) = true ∧
      0 < w'.t.gl ∧ w'.t.alloc = true
    | .panic _ w' => TInv cfg w'.t
    | .abort => st_A env
    | .fault _ => False := by
  have h1 := findOrFindInsertSlot_spec hc hc.probe env hash q w h
  have h2 := hs_fofis_exact hc hc.probe env hash q w h
  cases hr : findOrFindInsertSlot cfg env hash q w with
  | ok pr =>
    obtain ⟨r, w'⟩ := pr
    rw [hr] at h1
    cases r with
    | ok idx => exact ⟨h1.1, h1.2.2.2.1⟩
    | error slot => exact ⟨h1.1, h1.2.1, h1.2.2.1, h1.2.2.2.2.1, h1.2.2.2.2.2.1⟩
  | panic c w' =>
    rw [hr] at h1
    rcases h1 with ⟨_, rfl⟩ | ⟨_, _, a⟩ | ⟨_, a, _⟩
    · exact h
    · exact (a hg).1
    · exact a
  | abort => rw [hr] at h2; exact ⟨_, h2⟩
  | fault f => rw [hr] at h1; exact h1.elim

/-- `insert_in_slot` at the slot `find_or_find_insert_slot` returned. -/
theorem st_insertInSlot (hc : CfgOk cfg) {t : Raw} (h : TInv cfg t) {slot : Nat}
    (hs : slot < t.buckets) (hsp : isSpecial (t.ctrlAt slot) = true) (hgl : 0 < t.gl)
    (ha : t.alloc = true) (hash : Nat) (e : Elem) :
    ∃ t', insertInSlot cfg t hash slot e = .ok t' ∧ TInv cfg t' := by
  obtain ⟨t', b1, b2, _⟩ := ag_insertInSlot hc h ha hs hsp (fun _ => hgl) e hash
  exact ⟨t', b1, b2⟩

theorem st_dropElem_t (env : Env) (e : Elem) (w : World) : (dropElem cfg env e w).2.t = w.t :=
  ts_dropElem_t env e w

/-! ## 1. `HashTable` -/

section table
open Table

/-- `HashTable::find`. -/
theorem st_findElem (hc : CfgOk cfg) (env : Env) (hash q : Nat) (w : World) (h : TInv cfg w.t)
    {A : Prop} : hx_Safe cfg A (·.2) (Table.findElem cfg env hash q w) := by
  rcases st_find hc env hash q w h.1 with ⟨r, w', k1, k2, k3⟩ | ⟨w', k1, k2⟩
  · cases r with
    | none =>
      simp only [Table.findElem, k1, bind, Res.bind, pure]
      show TInv cfg w'.t; rw [k2]; exact h
    | some idx =>
      obtain ⟨x, hx⟩ := k3 idx rfl
      have hx' : w'.t.slots[idx]?.join = some x := by rw [k2]; exact hx
      simp only [Table.findElem, k1, bind, Res.bind, slotGet_ok hx', liftE, pure]
      show TInv cfg w'.t; rw [k2]; exact h
  · simp only [Table.findElem, k1, bind, Res.bind]
    show TInv cfg w'.t; rw [k2]; exact h

/-- `HashTable::find_mut` + a write through the reference. -/
theorem st_findMut (hc : CfgOk cfg) (env : Env) (hash q nv : Nat) (w : World) (h : TInv cfg w.t)
    {A : Prop} : hx_Safe cfg A (·.2) (Table.findMut cfg env hash q nv w) := by
  rcases st_find hc env hash q w h.1 with ⟨r, w', k1, k2, k3⟩ | ⟨w', k1, k2⟩
  · cases r with
    | none =>
      simp only [Table.findMut, k1, bind, Res.bind, pure]
      show TInv cfg w'.t; rw [k2]; exact h
    | some idx =>
      obtain ⟨x, hx⟩ := k3 idx rfl
      have hx' : w'.t.slots[idx]?.join = some x := by rw [k2]; exact hx
      simp only [Table.findMut, k1, bind, Res.bind, slotGet_ok hx', liftE, pure]
      exact en_slotSet_TInv (by rw [k2]; exact h) hx' _
  · simp only [Table.findMut, k1, bind, Res.bind]
    show TInv cfg w'.t; rw [k2]; exact h

/-- `HashTable::insert_unique` with an arbitrary `hash` and an arbitrary re-hash closure. -/
theorem st_insertUnique (hc : CfgOk cfg) (hg : GuardRuns cfg) (env : Env) (hash : Nat) (e : Elem)
    (w : World) (h : TInv cfg w.t) :
    hx_Safe cfg (st_A env) id (Table.insertUnique cfg env hash e w) := by
  have hs := (hx_insOwned_safe hc hg env hash e w h).mono (fun ha => (⟨_, ha⟩ : st_A env))
  unfold Table.insertUnique
  unfold Map.insOwned at hs
  cases hr : (rawInsert cfg env hash e w).onPanic (·.dropElemQuiet cfg e) with
  | ok pr => obtain ⟨i, w'⟩ := pr; rw [hr] at hs; exact hs
  | panic c w' => rw [hr] at hs; exact hs
  | abort => rw [hr] at hs; exact hs
  | fault f => rw [hr] at hs; exact hs.elim

/-- `find_entry` + `OccupiedEntry::remove` (+ `VacantEntry::insert` into the freed bucket). -/
theorem st_findEntryRemove (hc : CfgOk cfg) (env : Env) (hash q : Nat) (re : Option Elem)
    (w : World) (h : TInv cfg w.t) {A : Prop} :
    hx_Safe cfg A (·.2) (Table.findEntryRemove cfg env hash q re w) := by
  rcases find_total hc hc.probe env hash q w h.1 with ⟨r, w1, k1, k2, _, _, k5⟩ | ⟨w1, k1, k2, _⟩
  · cases r with
    | some idx =>
      obtain ⟨k3, k4, old0, k6⟩ := k5 idx rfl
      obtain ⟨old, t1, r1, r2, r3, r4, r5, r6, r7, r8, r9, r10⟩ := removeAt_inv hc h.1 k3 k4
      have hT1 : TInv cfg t1 := h.of_inv r3 r4
      cases re with
      | none =>
        simp only [Table.findEntryRemove, k1, Res.onPanic, k2, r1]
        exact hT1
      | some ne =>
        have ha := h.1.alloc_of_full hc k3 k4
        have hbk : t1.buckets = w.t.buckets := by simp only [Raw.buckets_eq, r4]
        have hsp : isSpecial (t1.ctrlAt idx) = true := by
          rcases r9 with r9 | r9 <;> rw [r9] <;> decide
        have hgl : t1.ctrlAt idx = EMPTY → 0 < t1.gl := by
          intro he; rw [r10, if_pos he]; omega
        obtain ⟨t2, b1, b2, _⟩ :=
          ag_insertInSlot hc hT1 (by rw [r5, ha]) (by rw [hbk]; exact k3) hsp hgl ne hash
        simp only [Table.findEntryRemove, k1, Res.onPanic, k2, r1, b1]
        exact b2
    | none =>
      cases re with
      | none =>
        simp only [Table.findEntryRemove, k1, Res.onPanic]
        show TInv cfg w1.t; rw [k2]; exact h
      | some ne =>
        rcases ts_dropElemR (cfg := cfg) env ne w1 with ⟨w2, d1, d2⟩ | ⟨w2, d1, d2⟩
        · simp only [Table.findEntryRemove, k1, Res.onPanic, d1]
          show TInv cfg w2.t; rw [d2, k2]; exact h
        · simp only [Table.findEntryRemove, k1, Res.onPanic, d1]
          show TInv cfg w2.t; rw [d2, k2]; exact h
  · simp only [Table.findEntryRemove, k1, Res.onPanic]
    cases re with
    | none => show TInv cfg w1.t; rw [k2]; exact h
    | some ne => show TInv cfg (w1.dropElemQuiet cfg ne).t; rw [dropElemQuiet_t, k2]; exact h

/-- `HashTable::entry`. -/
theorem st_entry_cases (hc : CfgOk cfg) (hg : GuardRuns cfg) (env : Env) (hash q : Nat) (w : World)
    (h : TInv cfg w.t) :
    match Table.entry cfg env hash q w with
    | .ok (.ok idx, w') => TInv cfg w'.t ∧ ∃ x, w'.t.slots[idx]?.join = some x
    | .ok (.error slot, w') =>
      TInv cfg w'.t ∧ slot < w'.t.buckets ∧ isSpecial (w'.t.ctrlAt slot) = true ∧
      0 < w'.t.gl ∧ w'.t.alloc = true
    | .panic _ w' => TInv cfg w'.t
    | .abort => st_A env
    | .fault _ => False := st_fofis hc hg env hash q w h

/-- `entry(..).insert(new)`. -/
theorem st_entryInsert (hc : CfgOk cfg) (hg : GuardRuns cfg) (env : Env) (hash q : Nat) (ne : Elem)
    (w : World) (h : TInv cfg w.t) :
    hx_Safe cfg (st_A env) (·.2) (Table.entryInsert cfg env hash q ne w) := by
  have hs := st_entry_cases hc hg env hash q w h
  unfold Table.entryInsert
  cases hr : Table.entry cfg env hash q w with
  | ok pr =>
    obtain ⟨r, w1⟩ := pr
    rw [hr] at hs
    cases r with
    | ok idx =>
      obtain ⟨a1, x, a2⟩ := hs
      simp only [Res.onPanic, slotGet_ok a2]
      have hupd : TInv cfg (Map.slotSet w1.t idx ne) := en_slotSet_TInv a1 a2 ne
      have hdt := st_dropElem_t (cfg := cfg) env x
        { w1 with t := { w1.t with slots := w1.t.slots.setIfInBounds idx (some ne) } }
      cases hd : dropElem cfg env x
          { w1 with t := { w1.t with slots := w1.t.slots.setIfInBounds idx (some ne) } } with
      | mk p w2 =>
        rw [hd] at hdt
        simp only at hdt
        cases p with
        | true => simp only [if_true]; show TInv cfg w2.t; rw [hdt]; exact hupd
        | false =>
          simp only [Bool.false_eq_true, if_false]; show TInv cfg w2.t; rw [hdt]; exact hupd
    | error slot =>
      obtain ⟨a1, a2, a3, a4, a5⟩ := hs
      obtain ⟨t', b1, b2⟩ := st_insertInSlot hc a1 a2 a3 a4 a5 hash ne
      simp only [Res.onPanic, b1]
      exact b2
  | panic c w' =>
    rw [hr] at hs
    simp only [Res.onPanic]
    show TInv cfg (w'.dropElemQuiet cfg ne).t
    rw [dropElemQuiet_t]; exact hs
  | abort => rw [hr] at hs; exact hs
  | fault f => rw [hr] at hs; exact hs.elim

/-- `entry(..).or_insert(new)`. -/
theorem st_entryOrInsert (hc : CfgOk cfg) (hg : GuardRuns cfg) (env : Env) (hash q : Nat)
    (ne : Elem) (w : World) (h : TInv cfg w.t) :
    hx_Safe cfg (st_A env) (·.2) (Table.entryOrInsert cfg env hash q ne w) := by
  have hs := st_entry_cases hc hg env hash q w h
  unfold Table.entryOrInsert
  cases hr : Table.entry cfg env hash q w with
  | ok pr =>
    obtain ⟨r, w1⟩ := pr
    rw [hr] at hs
    cases r with
    | ok idx =>
      obtain ⟨a1, x, a2⟩ := hs
      simp only [Res.onPanic]
      rcases ts_dropElemR (cfg := cfg) env ne w1 with ⟨w2, d1, d2⟩ | ⟨w2, d1, d2⟩
      · simp only [d1]; show TInv cfg w2.t; rw [d2]; exact a1
      · simp only [d1]; show TInv cfg w2.t; rw [d2]; exact a1
    | error slot =>
      obtain ⟨a1, a2, a3, a4, a5⟩ := hs
      obtain ⟨t', b1, b2⟩ := st_insertInSlot hc a1 a2 a3 a4 a5 hash ne
      simp only [Res.onPanic, b1]
      exact b2
  | panic c w' =>
    rw [hr] at hs
    simp only [Res.onPanic]
    show TInv cfg (w'.dropElemQuiet cfg ne).t
    rw [dropElemQuiet_t]; exact hs
  | abort => rw [hr] at hs; exact hs
  | fault f => rw [hr] at hs; exact hs.elim

/-- `entry(..).and_modify(..)`. -/
theorem st_entryAndModify (hc : CfgOk cfg) (hg : GuardRuns cfg) (env : Env) (hash q nv : Nat)
    (w : World) (h : TInv cfg w.t) :
    hx_Safe cfg (st_A env) (·.2) (Table.entryAndModify cfg env hash q nv w) := by
  have hs := st_entry_cases hc hg env hash q w h
  unfold Table.entryAndModify
  cases hr : Table.entry cfg env hash q w with
  | ok pr =>
    obtain ⟨r, w1⟩ := pr
    rw [hr] at hs
    cases r with
    | ok idx =>
      obtain ⟨a1, x, a2⟩ := hs
      simp only [bind, Res.bind, slotGet_ok a2, liftE, pure]
      exact en_slotSet_TInv a1 a2 _
    | error slot =>
      simp only [bind, Res.bind, pure]
      exact hs.1
  | panic c w' => rw [hr] at hs; simp only [bind, Res.bind]; exact hs
  | abort => rw [hr] at hs; simp only [bind, Res.bind]; exact hs
  | fault f => rw [hr] at hs; exact hs.elim

/-! ### calls that are the same `RawTable` call as in `HashMap` -/

theorem st_retain (hc : CfgOk cfg) (env : Env) (w : World) (h : TInv cfg w.t) {A : Prop} :
    hx_Safe cfg A id (Map.retain cfg env w) := by
  have h1 := retain_spec hc env w h
  cases hr : Map.retain cfg env w with
  | ok w' => rw [hr] at h1; exact h1.1
  | panic c w' => rw [hr] at h1; exact h1.1
  | abort => rw [hr] at h1; exact h1.elim
  | fault f => rw [hr] at h1; exact h1.elim

theorem st_extractIf (hc : CfgOk cfg) (env : Env) (n : Nat) (w : World) (h : TInv cfg w.t)
    {A : Prop} : hx_Safe cfg A (·.2) (Map.extractIf cfg env n w) := by
  have h1 := extractIf_spec hc env n w h
  cases hr : Map.extractIf cfg env n w with
  | ok pr => obtain ⟨r, w'⟩ := pr; rw [hr] at h1; exact h1.1
  | panic c w' => rw [hr] at h1; exact h1.2.1
  | abort => rw [hr] at h1; exact h1.elim
  | fault f => rw [hr] at h1; exact h1.elim

theorem st_drain (hc : CfgOk cfg) (env : Env) (n : Nat) (fg : Bool) (w : World) (h : TInv cfg w.t)
    {A : Prop} : hx_Safe cfg A (·.2) (Map.drain cfg env n fg w) := by
  have h1 := drain_spec hc env n fg w h
  cases hr : Map.drain cfg env n fg w with
  | ok pr =>
    obtain ⟨r, w'⟩ := pr
    rw [hr] at h1
    show TInv cfg w'.t
    cases fg with
    | true => rw [h1.2.2.1 rfl]; exact TInv.new hc
    | false => exact (h1.2.2.2 rfl).1.2.1
  | panic c w' =>
    rw [hr] at h1
    show TInv cfg w'.t
    rw [h1.2.2.1]; exact TInv.new hc
  | abort => rw [hr] at h1; exact h1.elim
  | fault f => rw [hr] at h1; exact h1.elim

theorem st_clear (hc : CfgOk cfg) (env : Env) (w : World) (h : TInv cfg w.t) {A : Prop} :
    hx_Safe cfg A id (Hb.clear cfg env w) := by
  have h1 := clear_spec hc env w h
  cases hr : Hb.clear cfg env w with
  | ok w' => rw [hr] at h1; exact h1.1.1
  | panic c w' => rw [hr] at h1; exact h1.2.1.1
  | abort => rw [hr] at h1; exact h1.elim
  | fault f => rw [hr] at h1; exact h1.elim

theorem st_reserve (hc : CfgOk cfg) (hg : GuardRuns cfg) (env : Env) (n : Nat) (w : World)
    (h : TInv cfg w.t) : hx_Safe cfg (st_A env) id (Hb.reserve cfg env n w) :=
  (hx_reserve_safe hc hg env n w h).mono (fun ha => ⟨_, ha⟩)

theorem st_shrinkTo (hc : CfgOk cfg) (env : Env) (m : Nat) (w : World) (h : TInv cfg w.t) :
    hx_Safe cfg (st_A env) id (Hb.shrinkTo cfg env m w) := by
  have h1 := shrinkTo_spec hc hc.probe env m w h
  have h2 := hs_shrinkTo_exact hc hc.probe env m w h
  cases hr : Hb.shrinkTo cfg env m w with
  | ok w' => rw [hr] at h1; exact h1.1
  | panic c w' => rw [hr] at h1; exact h1.2.2
  | abort => rw [hr] at h2; exact ⟨_, h2⟩
  | fault f => rw [hr] at h1; exact h1.elim

/-! ### `get_many_mut`: no hypothesis on the element size is needed for SAFETY -/

/-- The duplicate check never under-reports, whatever the element size (for a zero-sized element
    in 0.15.2 it over-reports, defect F2 — a spurious panic, not a memory-safety problem). -/
theorem st_hasDup_false (cfg : Cfg) : ∀ l : List (Option Nat), Table.hasDup cfg l = false →
    (l.filterMap id).Nodup := by
  intro l
  induction l with
  | nil => intro _; simp
  | cons o rest ih =>
    intro hd
    cases o with
    | none => rw [ts_fm_none]; exact ih (by simpa [Table.hasDup] using hd)
    | some i =>
      rw [ts_fm_some, List.nodup_cons]
      simp only [Table.hasDup, Bool.or_eq_false_iff] at hd
      refine ⟨?_, ih hd.2⟩
      intro hmem
      rw [List.mem_filterMap] at hmem
      obtain ⟨a, ha, hai⟩ := hmem
      simp only [id] at hai
      subst hai
      have := List.any_eq_false.mp hd.1 (some i) ha
      simp at this

theorem st_getManyMut (hc : CfgOk cfg) (env : Env) (any : Bool) (reqs : List (Nat × Nat))
    (w : World) (h : TInv cfg w.t) {A : Prop} :
    hx_Safe cfg A (·.2) (Table.getManyMut cfg env any reqs w) := by
  unfold Table.getManyMut
  rcases ts_getManyLoop_spec hc hc.probe env any w.t h.1 reqs w [] rfl with
    ⟨idxs, w1, a1, a2, a3, a4, a5⟩ | ⟨w', a1, a2, a3, a4⟩
  · simp only [List.reverse_nil, List.nil_append] at a1
    rw [a1]
    by_cases hd : Table.hasDup cfg idxs = true
    · simp only [hd, if_true]
      show TInv cfg w1.t; rw [a2]; exact h
    · have hnd := st_hasDup_false cfg idxs (by simpa using hd)
      simp only [hd]
      obtain ⟨out, s', b1, b2, b3, _⟩ :=
        ts_go_spec cfg idxs 0 w.t [] h.1 (fun idx hidx => (a5 idx hidx).2.2) hnd
      simp only [List.reverse_nil, List.nil_append] at b1
      rw [a2, b1]
      exact h.of_inv b3 rfl
  · rw [a1]
    show TInv cfg w'.t; rw [a2]; exact h

/-! ### one call of `HashTable` -/

/-- What one `HashTable` call guarantees, whatever the environment does. -/
def st_SafeT (cfg : Cfg) (A : Prop) : Res (TRet × World) → Prop
  | .ok (_, w') => TInv cfg w'.t ∧ w'.t.items = w'.t.elems.length
  | .panic _ w' => TInv cfg w'.t ∧ w'.t.items = w'.t.elems.length
  | .abort => A
  | .fault _ => False

/-- Re-tag the value a Layer-2 function returns (what every branch of `Table.stepH` does). -/
def st_mapRes {α β : Type} (g : α → β) : Res (α × World) → Res (β × World)
  | .ok (x, w') => .ok (g x, w')
  | .panic c w' => .panic c w'
  | .abort => .abort
  | .fault f => .fault f

def st_mapResU {β : Type} (u : β) : Res World → Res (β × World)
  | .ok w' => .ok (u, w')
  | .panic c w' => .panic c w'
  | .abort => .abort
  | .fault f => .fault f

theorem st_wrapT {A : Prop} {α : Type} (hc : CfgOk cfg) (g : α → TRet) {r : Res (α × World)}
    (h : hx_Safe cfg A (·.2) r) : st_SafeT cfg A (st_mapRes g r) := by
  cases r with
  | ok pr => obtain ⟨x, w'⟩ := pr; exact hs_good hc h
  | panic c w' => exact hs_good hc h
  | abort => exact h
  | fault f => exact h.elim

theorem st_wrapTU {A : Prop} (hc : CfgOk cfg) {r : Res World} (h : hx_Safe cfg A id r) :
    st_SafeT cfg A (st_mapResU TRet.unit r) := by
  cases r with
  | ok w' => exact hs_good hc h
  | panic c w' => exact hs_good hc h
  | abort => exact h
  | fault f => exact h.elim


theorem st_wrapT' {A : Prop} {α : Type} (hc : CfgOk cfg) (g : α → TRet) {r : Res (α × World)}
    (h : hx_Safe cfg A (·.2) r) {r2 : Res (TRet × World)} (heq : r2 = st_mapRes g r) :
    st_SafeT cfg A r2 := heq ▸ st_wrapT hc g h

/-- `stepH … = st_mapRes g (f …)` for the branch at hand. -/
macro "st_eq " t:term : tactic =>
  `(tactic| (simp only [stepH]; generalize $t = r; cases r <;> rfl))

variable (hc : CfgOk cfg) (hg : GuardRuns cfg) (env : Env) (w : World) (h : TInv cfg w.t)
include hc h

theorem st_t_find (hash q : Nat) : st_SafeT cfg (st_A env) (stepH cfg env (.find hash q) w) :=
  st_wrapT' hc .elem (st_findElem hc (envFor cfg env) hash q w h)
    (by st_eq (findElem cfg (envFor cfg env) hash q w))

theorem st_t_findMut (hash q nv : Nat) :
    st_SafeT cfg (st_A env) (stepH cfg env (.findMut hash q nv) w) :=
  st_wrapT' hc .elem (st_findMut hc (envFor cfg env) hash q nv w h)
    (by st_eq (findMut cfg (envFor cfg env) hash q nv w))

theorem st_t_findEntryRemove (hash q : Nat) (re : Option Elem) :
    st_SafeT cfg (st_A env) (stepH cfg env (.findEntryRemove hash q re) w) :=
  st_wrapT' hc .elem (st_findEntryRemove hc (envFor cfg env) hash q re w h)
    (by st_eq (findEntryRemove cfg (envFor cfg env) hash q re w))

theorem st_t_retain : st_SafeT cfg (st_A env) (stepH cfg env .retain w) :=
  st_wrapTU hc (st_retain hc (envFor cfg env) w h)

theorem st_t_extractIf (n : Nat) : st_SafeT cfg (st_A env) (stepH cfg env (.extractIf n) w) :=
  st_wrapT' hc .elems (st_extractIf hc (envFor cfg env) n w h)
    (by st_eq (Map.extractIf cfg (envFor cfg env) n w))

theorem st_t_drain (n : Nat) (fg : Bool) :
    st_SafeT cfg (st_A env) (stepH cfg env (.drain n fg) w) :=
  st_wrapT' hc .elems (st_drain hc (envFor cfg env) n fg w h)
    (by st_eq (Map.drain cfg (envFor cfg env) n fg w))

theorem st_t_clear : st_SafeT cfg (st_A env) (stepH cfg env .clear w) :=
  st_wrapTU hc (st_clear hc (envFor cfg env) w h)

theorem st_t_shrinkTo (m : Nat) : st_SafeT cfg (st_A env) (stepH cfg env (.shrinkTo m) w) :=
  st_wrapTU hc (st_shrinkTo hc (envFor cfg env) m w h)

theorem st_t_getManyMut (any : Bool) (reqs : List (Nat × Nat)) :
    st_SafeT cfg (st_A env) (stepH cfg env (.getManyMut any reqs) w) :=
  st_wrapT' hc .many (st_getManyMut hc (envFor cfg env) any reqs w h)
    (by st_eq (getManyMut cfg (envFor cfg env) any reqs w))

theorem st_t_iterHash (hash : Nat) : st_SafeT cfg (st_A env) (stepH cfg env (.iterHash hash) w) := by
  obtain ⟨l, hl, _⟩ := Table.iterHash_spec hc hc.probe h.1 hash
  simp only [stepH, hl]
  exact hs_good hc h

theorem st_t_iter (p : Nat) : st_SafeT cfg (st_A env) (stepH cfg env (.iter p) w) := by
  simp only [stepH, iterObserve_spec hc h.1 p]
  exact hs_good hc h

theorem st_t_len : st_SafeT cfg (st_A env) (stepH cfg env .len w) := hs_good hc h

include hg

theorem st_t_insertUnique (hash : Nat) (e : Elem) :
    st_SafeT cfg (st_A env) (stepH cfg env (.insertUnique hash e) w) :=
  st_wrapTU hc (st_insertUnique hc hg (envFor cfg env) hash e w h)

theorem st_t_entryInsert (hash q : Nat) (ne : Elem) :
    st_SafeT cfg (st_A env) (stepH cfg env (.entryInsert hash q ne) w) :=
  st_wrapT' hc .occ (st_entryInsert hc hg (envFor cfg env) hash q ne w h)
    (by st_eq (entryInsert cfg (envFor cfg env) hash q ne w))

theorem st_t_entryOrInsert (hash q : Nat) (ne : Elem) :
    st_SafeT cfg (st_A env) (stepH cfg env (.entryOrInsert hash q ne) w) :=
  st_wrapT' hc .occ (st_entryOrInsert hc hg (envFor cfg env) hash q ne w h)
    (by st_eq (entryOrInsert cfg (envFor cfg env) hash q ne w))

theorem st_t_entryAndModify (hash q nv : Nat) :
    st_SafeT cfg (st_A env) (stepH cfg env (.entryAndModify hash q nv) w) :=
  st_wrapT' hc .occ (st_entryAndModify hc hg (envFor cfg env) hash q nv w h)
    (by st_eq (entryAndModify cfg (envFor cfg env) hash q nv w))

theorem st_t_reserve (n : Nat) : st_SafeT cfg (st_A env) (stepH cfg env (.reserve n) w) :=
  st_wrapTU hc (st_reserve hc hg (envFor cfg env) n w h)

/-- One `HashTable` call, every environment. -/
theorem st_stepH_safe (op : TableOp) : st_SafeT cfg (st_A env) (stepH cfg env op w) := by
  cases op with
  | find hash q => exact st_t_find hc env w h hash q
  | findMut hash q nv => exact st_t_findMut hc env w h hash q nv
  | insertUnique hash e => exact st_t_insertUnique hc hg env w h hash e
  | findEntryRemove hash q re => exact st_t_findEntryRemove hc env w h hash q re
  | entryInsert hash q ne => exact st_t_entryInsert hc hg env w h hash q ne
  | entryOrInsert hash q ne => exact st_t_entryOrInsert hc hg env w h hash q ne
  | entryAndModify hash q nv => exact st_t_entryAndModify hc hg env w h hash q nv
  | retain => exact st_t_retain hc env w h
  | extractIf n => exact st_t_extractIf hc env w h n
  | drain n fg => exact st_t_drain hc env w h n fg
  | clear => exact st_t_clear hc env w h
  | reserve n => exact st_t_reserve hc hg env w h n
  | shrinkTo m => exact st_t_shrinkTo hc env w h m
  | getManyMut any reqs => exact st_t_getManyMut hc env w h any reqs
  | iterHash hash => exact st_t_iterHash hc env w h hash
  | iter p => exact st_t_iter hc env w h p
  | len => exact st_t_len hc env w h

omit hc hg h

end table

/-- **T1.** One call of the `HashTable` API (`TableOp`: `find`, `find_mut`, `insert_unique`,
    `find_entry` + `remove` (+ re-insertion), `entry` + `insert` / `or_insert` / `and_modify`,
    `retain`, `extract_if`, `drain`, `clear`, `reserve`, `shrink_to`, `get_many_mut`, `iter_hash`,
    `iter`, `len`) from any valid table, for EVERY environment and EVERY caller-supplied hash: the
    hashes passed in are arbitrary numbers, the re-hash closure (`env.hash`) and the `eq` closures are
    arbitrary, call-number dependent and may panic, predicates and destructors may panic, the
    allocator may refuse. Never `.fault`; on return AND after an unwind the table is valid and `len`
    is the number of stored elements; `.abort` (`handle_alloc_error`) only if the allocator refuses
    some request. No hypothesis on the element size is needed (the zero-sized-element defect F2 of
    `get_many_mut` is a spurious "duplicate" panic, not a memory-safety problem). -/
theorem table_stepH_safe (hc : CfgOk cfg) (hg : GuardRuns cfg) (env : Env) (op : TableOp)
    (w : World) (h : TInv cfg w.t) :
    match Table.stepH cfg env op w with
    | .ok (_, w') => TInv cfg w'.t ∧ w'.t.items = w'.t.elems.length
    | .panic _ w' => TInv cfg w'.t ∧ w'.t.items = w'.t.elems.length
    | .abort => ∃ j, env.allocOk j = false
    | .fault _ => False := by
  have := st_stepH_safe hc hg env w h op
  generalize Table.stepH cfg env op w = r at this ⊢
  match r, this with
  | .ok (_, _), h => exact h
  | .panic _ _, h => exact h
  | .abort, h => exact h
  | .fault _, h => exact h

/-- The world after every prefix of the history (the first entry is the initial world; the list
    stops where the run stops). -/
def Table.statesH (cfg : Cfg) (env : Env) : List TableOp → World → List World
  | [], w => [w]
  | op :: rest, w =>
    match Table.stepH cfg env op w with
    | .ok (_, w') => w :: Table.statesH cfg env rest w'
    | .panic _ w' => w :: Table.statesH cfg env rest w'
    | .abort => [w]
    | .fault _ => [w]

/-- `HashTable` histories from any valid table. -/
theorem st_runH_inv (hc : CfgOk cfg) (hg : GuardRuns cfg) (env : Env) :
    ∀ (ops : List TableOp) (w : World), TInv cfg w.t →
      Table.runHFaults cfg env ops w = false ∧
      (∀ w' ∈ Table.statesH cfg env ops w, TInv cfg w'.t ∧ w'.t.items = w'.t.elems.length) ∧
      (∀ obs wf, Table.runH cfg env ops w = some (obs, wf) →
        TInv cfg wf.t ∧ wf.t.items = wf.t.elems.length) ∧
      ((∀ j, env.allocOk j = true) → ∃ obs wf, Table.runH cfg env ops w = some (obs, wf)) := by
  intro ops
  induction ops with
  | nil =>
    intro w h
    refine ⟨rfl, ?_, ?_, fun _ => ⟨[], w, rfl⟩⟩
    · intro w' hw'
      simp only [Table.statesH, List.mem_singleton] at hw'
      rw [hw']; exact hs_good hc h
    · intro obs wf hr
      simp only [Table.runH, Option.some.injEq, Prod.mk.injEq] at hr
      rw [← hr.2]; exact hs_good hc h
  | cons op rest ih =>
    intro w h
    have hs := st_stepH_safe hc hg env w h op
    cases hr : Table.stepH cfg env op w with
    | ok pr =>
      obtain ⟨r, w1⟩ := pr
      rw [hr] at hs
      obtain ⟨i1, i2, i3, i4⟩ := ih w1 hs.1
      simp only [Table.runH, Table.runHFaults, Table.statesH, hr]
      refine ⟨i1, ?_, ?_, ?_⟩
      · intro w' hw'
        rcases List.mem_cons.mp hw' with rfl | hw'
        · exact hs_good hc h
        · exact i2 w' hw'
      · intro obs wf hrun
        obtain ⟨⟨os, wf'⟩, h1, h2⟩ := Option.map_eq_some_iff.1 hrun
        simp only [Prod.mk.injEq] at h2
        rw [← h2.2]; exact i3 os wf' h1
      · intro hal
        obtain ⟨os, wf, h1⟩ := i4 hal
        exact ⟨_, _, by rw [h1]; rfl⟩
    | panic c w1 =>
      rw [hr] at hs
      obtain ⟨i1, i2, i3, i4⟩ := ih w1 hs.1
      simp only [Table.runH, Table.runHFaults, Table.statesH, hr]
      refine ⟨i1, ?_, ?_, ?_⟩
      · intro w' hw'
        rcases List.mem_cons.mp hw' with rfl | hw'
        · exact hs_good hc h
        · exact i2 w' hw'
      · intro obs wf hrun
        obtain ⟨⟨os, wf'⟩, h1, h2⟩ := Option.map_eq_some_iff.1 hrun
        simp only [Prod.mk.injEq] at h2
        rw [← h2.2]; exact i3 os wf' h1
      · intro hal
        obtain ⟨os, wf, h1⟩ := i4 hal
        exact ⟨_, _, by rw [h1]; rfl⟩
    | abort =>
      rw [hr] at hs
      obtain ⟨j, hj⟩ : ∃ j, env.allocOk j = false := hs
      refine ⟨by simp only [Table.runHFaults, hr], ?_, fun obs wf hn => ?_, fun hal => ?_⟩
      · intro w' hw'
        simp only [Table.statesH, hr, List.mem_singleton] at hw'
        rw [hw']; exact hs_good hc h
      · simp [Table.runH, hr] at hn
      · rw [hal] at hj; cases hj
    | fault f => rw [hr] at hs; exact hs.elim

/-- **T2.** Every history of `HashTable` calls on `HashTable::new()`, for EVERY environment and
    EVERY caller-supplied hash (no consistency between the hashes passed in, the re-hash closure and
    the `eq` closures is assumed; any of them may panic): no call reaches undefined behaviour
    (`runHFaults`); after every call, returned or unwound (panics are caught and the history goes
    on), the table satisfies the API invariant `TInv cfg` and `items = elems.length` (`statesH`
    lists the world after every prefix); the history is cut short only by `handle_alloc_error`, i.e.
    never if the allocator never refuses. The world `w0` may start with any counters and log. -/
theorem table_runH_safe (hc : CfgOk cfg) (hg : GuardRuns cfg) (env : Env) (ops : List TableOp)
    (w0 : World) (h0 : w0.t = Raw.new cfg.W) :
    Table.runHFaults cfg env ops w0 = false ∧
    (∀ w ∈ Table.statesH cfg env ops w0, TInv cfg w.t ∧ w.t.items = w.t.elems.length) ∧
    (∀ obs w, Table.runH cfg env ops w0 = some (obs, w) →
      TInv cfg w.t ∧ w.t.items = w.t.elems.length) ∧
    ((∀ j, env.allocOk j = true) → ∃ obs w, Table.runH cfg env ops w0 = some (obs, w)) :=
  st_runH_inv hc hg env ops w0 (by rw [h0]; exact TInv.new hc)

/-- **T2'.** The same from any valid starting table. -/
theorem table_runH_safe_from (hc : CfgOk cfg) (hg : GuardRuns cfg) (env : Env) (ops : List TableOp)
    (w0 : World) (h0 : TInv cfg w0.t) :
    Table.runHFaults cfg env ops w0 = false ∧
    (∀ w ∈ Table.statesH cfg env ops w0, TInv cfg w.t ∧ w.t.items = w.t.elems.length) ∧
    (∀ obs w, Table.runH cfg env ops w0 = some (obs, w) →
      TInv cfg w.t ∧ w.t.items = w.t.elems.length) ∧
    ((∀ j, env.allocOk j = true) → ∃ obs w, Table.runH cfg env ops w0 = some (obs, w)) :=
  st_runH_inv hc hg env ops w0 h0

/-- `statesH` ends with the final world of `runH`. -/
theorem st_statesH_of_runH (env : Env) : ∀ (ops : List TableOp) (w : World) (obs : List Table.TObs)
    (wf : World), Table.runH cfg env ops w = some (obs, wf) →
      (Table.statesH cfg env ops w).length = ops.length + 1 ∧
      (Table.statesH cfg env ops w).getLast? = some wf ∧ obs.length = ops.length := by
  intro ops
  induction ops with
  | nil =>
    intro w obs wf hr
    simp only [Table.runH, Option.some.injEq, Prod.mk.injEq] at hr
    obtain ⟨rfl, rfl⟩ := hr
    exact ⟨rfl, rfl, rfl⟩
  | cons op rest ih =>
    intro w obs wf hr
    cases hst : Table.stepH cfg env op w with
    | ok pr =>
      obtain ⟨r, w1⟩ := pr
      simp only [Table.runH, hst] at hr
      obtain ⟨⟨os, wf'⟩, h1, h2⟩ := Option.map_eq_some_iff.1 hr
      simp only [Prod.mk.injEq] at h2
      obtain ⟨rfl, rfl⟩ := h2
      obtain ⟨j1, j2, j3⟩ := ih w1 os wf' h1
      simp only [Table.statesH, hst, List.length_cons, j1, j3, true_and, and_true]
      rw [List.getLast?_cons, j2]; rfl
    | panic cls w1 =>
      simp only [Table.runH, hst] at hr
      obtain ⟨⟨os, wf'⟩, h1, h2⟩ := Option.map_eq_some_iff.1 hr
      simp only [Prod.mk.injEq] at h2
      obtain ⟨rfl, rfl⟩ := h2
      obtain ⟨j1, j2, j3⟩ := ih w1 os wf' h1
      simp only [Table.statesH, hst, List.length_cons, j1, j3, true_and, and_true]
      rw [List.getLast?_cons, j2]; rfl
    | abort => simp [Table.runH, hst] at hr
    | fault f => simp [Table.runH, hst] at hr

/-! ## 2. `HashSet` -/

section set

/-! ### building blocks -/

theorem st_mapInsert (hc : CfgOk cfg) (hg : GuardRuns cfg) (env : Env) (e : Elem) (w : World)
    (h : TInv cfg w.t) : hx_Safe cfg (st_A env) (·.2) (Map.insert cfg env e w) := by
  have h1 := Map.insert_inv hc hc.probe env e w h
  have h2 := hs_insert_exact hc hc.probe env e w h
  cases hr : Map.insert cfg env e w with
  | ok pr =>
    obtain ⟨r, w'⟩ := pr
    rw [hr] at h1
    cases r with
    | none => exact h1.1
    | some v => obtain ⟨a, b⟩ := v; exact h1.1
  | panic c w' => rw [hr] at h1; exact h1.2 (fun _ => hg)
  | abort => rw [hr] at h2; exact ⟨_, h2⟩
  | fault f => rw [hr] at h1; exact h1.elim

theorem st_mapRemove (hc : CfgOk cfg) (env : Env) (k : Nat) (w : World) (h : TInv cfg w.t)
    {A : Prop} : hx_Safe cfg A (·.2) (Map.remove cfg env k w) := by
  have h1 := Map.remove_inv hc hc.probe env k w h
  cases hr : Map.remove cfg env k w with
  | ok pr =>
    obtain ⟨r, w'⟩ := pr
    rw [hr] at h1
    cases r with
    | none => exact h1.2.2
    | some v => exact h1.1
  | panic c w' =>
    rw [hr] at h1
    rcases h1 with ⟨_, _, _, a⟩ | ⟨_, a, _⟩
    · exact a
    · exact a
  | abort => rw [hr] at h1; exact h1.elim
  | fault f => rw [hr] at h1; exact h1.elim

theorem st_mapRemoveEntry (hc : CfgOk cfg) (env : Env) (k : Nat) (w : World) (h : TInv cfg w.t)
    {A : Prop} : hx_Safe cfg A (·.2) (Map.removeEntry cfg env k w) := by
  have h1 := Map.removeEntry_inv hc hc.probe env k w h
  cases hr : Map.removeEntry cfg env k w with
  | ok pr =>
    obtain ⟨r, w'⟩ := pr
    rw [hr] at h1
    cases r with
    | none => exact h1.2.2
    | some v => exact h1.1
  | panic c w' => rw [hr] at h1; exact h1.2.2.2
  | abort => rw [hr] at h1; exact h1.elim
  | fault f => rw [hr] at h1; exact h1.elim

theorem st_mapGet (hc : CfgOk cfg) (env : Env) (k : Nat) (w : World) (h : TInv cfg w.t)
    {A : Prop} : hx_Safe cfg A (·.2) (Map.get cfg env k w) := by
  have h1 := Map.get_inv hc hc.probe env k w h
  cases hr : Map.get cfg env k w with
  | ok pr => obtain ⟨r, w'⟩ := pr; rw [hr] at h1; exact h1.2.2.1
  | panic c w' => rw [hr] at h1; exact h1.2.2.2
  | abort => rw [hr] at h1; exact h1.elim
  | fault f => rw [hr] at h1; exact h1.elim

/-- `get_inner` (with the `is_empty()` shortcut): table untouched, a found bucket is live. -/
theorem st_getInner (hc : CfgOk cfg) (env : Env) (k : Nat) (w : World) (h : Inv cfg w.t) :
    (∃ r w', Map.getInner cfg env k w = .ok (r, w') ∧ w'.t = w.t ∧
      ∀ idx, r = some idx → ∃ x, w.t.slots[idx]?.join = some x) ∨
    (∃ c w', Map.getInner cfg env k w = .panic c w' ∧ w'.t = w.t) := by
  rcases ag_getInner hc hc.probe env k w h with ⟨r, w', k1, k2, _, k4⟩ | ⟨c, w', k1, k2, _⟩
  · exact .inl ⟨r, w', k1, k2, fun idx hi => (k4 idx hi).2.2⟩
  · exact .inr ⟨c, w', k1, k2⟩

/-- `make_hash` + `find_or_find_insert_slot`, the by-value argument dropped on unwinding. -/
theorem st_search (hc : CfgOk cfg) (hg : GuardRuns cfg) (env : Env) (k : Nat) (owned : Option Elem)
    (w : World) (h : TInv cfg w.t) :
    match Set.search cfg env k owned w with
    | .ok (_, .ok idx, w') => TInv cfg w'.t ∧ ∃ x, w'.t.slots[idx]?.join = some x
    | .ok (_, .error slot, w') =>
      TInv cfg w'.t ∧ slot < w'.t.buckets ∧ isSpecial (w'.t.ctrlAt slot) = true ∧
      0 < w'.t.gl ∧ w'.t.alloc = true
    | .panic _ w' => TInv cfg w'.t
    | .abort => st_A env
    | .fault _ => False := by
  have hcore : ∀ g : World → World, (∀ w, (g w).t = w.t) →
      match (do
        let (hv, w1) ← makeHash env k w
        let (r, w2) ← findOrFindInsertSlot cfg env hv k w1
        pure (hv, r, w2) : Res (Nat × Except Nat Nat × World)).onPanic g with
      | .ok (_, .ok idx, w') => TInv cfg w'.t ∧ ∃ x, w'.t.slots[idx]?.join = some x
      | .ok (_, .error slot, w') =>
        TInv cfg w'.t ∧ slot < w'.t.buckets ∧ isSpecial (w'.t.ctrlAt slot) = true ∧
        0 < w'.t.gl ∧ w'.t.alloc = true
      | .panic _ w' => TInv cfg w'.t
      | .abort => st_A env
      | .fault _ => False := by
    intro g hgt
    cases hh : env.hash w.hc k with
    | none =>
      simp only [ag_makeHash_none hh, bind, Res.bind, Res.onPanic]
      rw [hgt]; exact h
    | some hv =>
      simp only [ag_makeHash_some hh, bind, Res.bind]
      have hf := st_fofis hc hg env hv k { w with hc := w.hc + 1 } h
      cases hr : findOrFindInsertSlot cfg env hv k { w with hc := w.hc + 1 } with
      | ok pr =>
        obtain ⟨r, w2⟩ := pr
        rw [hr] at hf
        cases r with
        | ok idx => exact hf
        | error slot => exact hf
      | panic c w' =>
        rw [hr] at hf
        simp only [Res.onPanic]
        rw [hgt]; exact hf
      | abort => rw [hr] at hf; exact hf
      | fault f => rw [hr] at hf; exact hf.elim
  unfold Set.search
  cases owned with
  | some e => exact hcore _ (fun w => dropElemQuiet_t w e)
  | none =>
    have := hcore id (fun _ => rfl)
    have hid : ∀ {α : Type} (r : Res α), r.onPanic id = r := by
      intro α r; cases r <;> rfl
    rw [hid] at this
    exact this

/-- `HashMap::entry`'s look-up (hash, `find`), the owned key dropped on unwinding. -/
theorem st_entryFind (hc : CfgOk cfg) (env : Env) (e : Elem) (w : World) (h : Inv cfg w.t) :
    (∃ hv r w', Set.entryFind cfg env e w = .ok (hv, r, w') ∧ w'.t = w.t ∧
      ∀ idx, r = some idx → ∃ x, w.t.slots[idx]?.join = some x) ∨
    (∃ c w', Set.entryFind cfg env e w = .panic c w' ∧ w'.t = w.t) := by
  unfold Set.entryFind
  cases hh : env.hash w.hc e.k with
  | none =>
    right
    simp only [ag_makeHash_none hh, bind, Res.bind, Res.onPanic]
    exact ⟨_, _, rfl, by rw [dropElemQuiet_t]⟩
  | some hv =>
    simp only [ag_makeHash_some hh, bind, Res.bind]
    rcases st_find hc env hv e.k { w with hc := w.hc + 1 } h with ⟨r, w', k1, k2, k3⟩ | ⟨w', k1, k2⟩
    · left
      rw [k1]
      exact ⟨hv, r, w', rfl, k2, k3⟩
    · right
      rw [k1]
      exact ⟨_, _, rfl, by rw [dropElemQuiet_t]; exact k2⟩

/-! ### single-set calls -/

theorem st_setInsert (hc : CfgOk cfg) (hg : GuardRuns cfg) (env : Env) (k kid : Nat) (w : World)
    (h : TInv cfg w.t) : hx_Safe cfg (st_A env) (·.2) (Set.insert cfg env k kid w) :=
  (st_mapInsert hc hg env (Set.elemOf k kid) w h).bind (fun a ha => by obtain ⟨r, w'⟩ := a; exact ha)

theorem st_setRemove (hc : CfgOk cfg) (env : Env) (k : Nat) (w : World) (h : TInv cfg w.t)
    {A : Prop} : hx_Safe cfg A (·.2) (Set.remove cfg env k w) :=
  (st_mapRemove hc env k w h).bind (fun a ha => by obtain ⟨r, w'⟩ := a; exact ha)

theorem st_setContains (hc : CfgOk cfg) (env : Env) (k : Nat) (w : World) (h : TInv cfg w.t)
    {A : Prop} : hx_Safe cfg A (·.2) (Set.contains cfg env k w) := by
  unfold Set.contains
  rcases st_getInner hc env k w h.1 with ⟨r, w', k1, k2, _⟩ | ⟨c, w', k1, k2⟩
  · simp only [k1, bind, Res.bind, pure]
    show TInv cfg w'.t; rw [k2]; exact h
  · simp only [k1, bind, Res.bind]
    show TInv cfg w'.t; rw [k2]; exact h

theorem st_setReplace (hc : CfgOk cfg) (hg : GuardRuns cfg) (env : Env) (e : Elem) (w : World)
    (h : TInv cfg w.t) : hx_Safe cfg (st_A env) (·.2) (Set.replace cfg env e w) := by
  have hs := st_search hc hg env e.k (some e) w h
  unfold Set.replace
  cases hr : Set.search cfg env e.k (some e) w with
  | ok pr =>
    obtain ⟨hv, r, w2⟩ := pr
    rw [hr] at hs
    cases r with
    | ok idx =>
      obtain ⟨a1, x, a2⟩ := hs
      simp only [bind, Res.bind, slotGet_ok a2, liftE, pure]
      exact en_slotSet_TInv a1 a2 e
    | error slot =>
      obtain ⟨a1, a2, a3, a4, a5⟩ := hs
      obtain ⟨t', b1, b2⟩ := st_insertInSlot hc a1 a2 a3 a4 a5 hv e
      simp only [bind, Res.bind, b1, liftE, pure]
      exact b2
  | panic c w' => rw [hr] at hs; exact hs
  | abort => rw [hr] at hs; exact hs
  | fault f => rw [hr] at hs; exact hs.elim

theorem st_setGetOrInsert (hc : CfgOk cfg) (hg : GuardRuns cfg) (env : Env) (e : Elem) (w : World)
    (h : TInv cfg w.t) : hx_Safe cfg (st_A env) (·.2) (Set.getOrInsert cfg env e w) := by
  have hs := st_search hc hg env e.k (some e) w h
  unfold Set.getOrInsert
  cases hr : Set.search cfg env e.k (some e) w with
  | ok pr =>
    obtain ⟨hv, r, w2⟩ := pr
    rw [hr] at hs
    cases r with
    | ok idx =>
      obtain ⟨a1, x, a2⟩ := hs
      simp only [bind, Res.bind, slotGet_ok a2, liftE]
      exact (hx_dropKeyR_safe env e.kid w2 a1).bind (fun a ha => ha)
    | error slot =>
      obtain ⟨a1, a2, a3, a4, a5⟩ := hs
      obtain ⟨t', b1, b2⟩ := st_insertInSlot hc a1 a2 a3 a4 a5 hv e
      simp only [bind, Res.bind, b1, liftE, pure]
      exact b2
  | panic c w' => rw [hr] at hs; exact hs
  | abort => rw [hr] at hs; exact hs
  | fault f => rw [hr] at hs; exact hs.elim

theorem st_setGetOrInsertWith (hc : CfgOk cfg) (hg : GuardRuns cfg) (env : Env) (k k2 kid2 : Nat)
    (w : World) (h : TInv cfg w.t) :
    hx_Safe cfg (st_A env) (·.2) (Set.getOrInsertWith cfg env k k2 kid2 w) := by
  have hs := st_search hc hg env k none w h
  unfold Set.getOrInsertWith
  cases hr : Set.search cfg env k none w with
  | ok pr =>
    obtain ⟨hv, r, w2⟩ := pr
    rw [hr] at hs
    cases r with
    | ok idx =>
      obtain ⟨a1, x, a2⟩ := hs
      simp only [bind, Res.bind, slotGet_ok a2, liftE, pure]
      exact a1
    | error slot =>
      obtain ⟨a1, a2, a3, a4, a5⟩ := hs
      simp only [bind, Res.bind]
      cases heq : env.eq w2.ec k (Set.elemOf k2 kid2) with
      | none =>
        show TInv cfg (World.dropElemQuiet cfg _ _).t
        rw [dropElemQuiet_t]; exact a1
      | some b =>
        cases b with
        | false =>
          show TInv cfg (World.dropElemQuiet cfg _ _).t
          rw [dropElemQuiet_t]; exact a1
        | true =>
          obtain ⟨t', b1, b2⟩ := st_insertInSlot hc a1 a2 a3 a4 a5 hv (Set.elemOf k2 kid2)
          simp only [b1, liftE, pure]
          exact b2
  | panic c w' => rw [hr] at hs; exact hs
  | abort => rw [hr] at hs; exact hs
  | fault f => rw [hr] at hs; exact hs.elim

theorem st_setEntryInsert (hc : CfgOk cfg) (hg : GuardRuns cfg) (env : Env) (e : Elem) (w : World)
    (h : TInv cfg w.t) : hx_Safe cfg (st_A env) (·.2) (Set.entryInsert cfg env e w) := by
  unfold Set.entryInsert
  rcases st_entryFind hc env e w h.1 with ⟨hv, r, w2, k1, k2, k3⟩ | ⟨c, w', k1, k2⟩
  · have h2 : TInv cfg w2.t := by rw [k2]; exact h
    simp only [k1, bind, Res.bind]
    cases r with
    | some idx =>
      obtain ⟨x, hx⟩ := k3 idx rfl
      simp only
      rcases ag_dropKeyR (cfg := cfg) env e.kid w2 with ⟨w3, d1, d2, _⟩ | ⟨w3, d1, d2, _⟩
      · have hx3 : w3.t.slots[idx]?.join = some x := by rw [d2, k2]; exact hx
        simp only [d1, slotGet_ok hx3, liftE, pure]
        show TInv cfg w3.t; rw [d2]; exact h2
      · simp only [d1]
        show TInv cfg w3.t; rw [d2]; exact h2
    | none =>
      simp only
      have hi := (hx_insOwned_safe hc hg env hv e w2 h2).mono (fun ha => (⟨_, ha⟩ : st_A env))
      exact hx_Safe.bind (pb := fun x : Elem × World => x.2) hi
        (fun a ha => by obtain ⟨i, w3⟩ := a; exact ha)
  · simp only [k1, bind, Res.bind]
    show TInv cfg w'.t; rw [k2]; exact h

theorem st_setEntryOrInsert (hc : CfgOk cfg) (hg : GuardRuns cfg) (env : Env) (e : Elem) (w : World)
    (h : TInv cfg w.t) : hx_Safe cfg (st_A env) id (Set.entryOrInsert cfg env e w) :=
  hx_Safe.bind (pb := id) (st_setEntryInsert hc hg env e w h)
    (fun a ha => by obtain ⟨x, w'⟩ := a; exact ha)

theorem st_setEntryRemove (hc : CfgOk cfg) (env : Env) (e : Elem) (w : World) (h : TInv cfg w.t)
    {A : Prop} : hx_Safe cfg A (·.2) (Set.entryRemove cfg env e w) := by
  unfold Set.entryRemove
  rcases st_entryFind hc env e w h.1 with ⟨hv, r, w2, k1, k2, k3⟩ | ⟨c, w', k1, k2⟩
  · have h2 : TInv cfg w2.t := by rw [k2]; exact h
    simp only [k1, bind, Res.bind]
    rcases ag_dropKeyR (cfg := cfg) env e.kid w2 with ⟨w3, d1, d2, _⟩ | ⟨w3, d1, d2, _⟩
    · have h3 : TInv cfg w3.t := by rw [d2]; exact h2
      simp only [d1]
      cases r with
      | some idx =>
        obtain ⟨x, hx⟩ := k3 idx rfl
        have hx3 : w3.t.slots[idx]?.join = some x := by rw [d2, k2]; exact hx
        obtain ⟨t', r1, r2, _⟩ := en_removeAt_TInv hc h3 hx3
        simp only [r1, liftE, pure]
        exact r2
      | none => exact h3
    · simp only [d1]
      show TInv cfg w3.t; rw [d2]; exact h2
  · simp only [k1, bind, Res.bind]
    show TInv cfg w'.t; rw [k2]; exact h

/-! ### calls that only read: the lazy set-algebra iterators and the predicates -/

/-- Outcome of a call that only reads: returns or unwinds with the target table untouched. -/
def st_RO {α : Type} (t : Raw) (r : Res (α × World)) : Prop :=
  (∃ a w', r = .ok (a, w') ∧ w'.t = t) ∨ (∃ c w', r = .panic c w' ∧ w'.t = t)

theorem st_RO.safe {α : Type} {t : Raw} {r : Res (α × World)} (h : st_RO t r) (ht : TInv cfg t)
    {A : Prop} : hx_Safe cfg A (·.2) r := by
  rcases h with ⟨a, w', rfl, hw⟩ | ⟨c, w', rfl, hw⟩
  · show TInv cfg w'.t; rw [hw]; exact ht
  · show TInv cfg w'.t; rw [hw]; exact ht

/-- `t.contains(k)` on a table that is not the target, every environment. -/
theorem st_containsIn (hc : CfgOk cfg) (env : Env) {t : Raw} (ht : Inv cfg t) (k : Nat) (w : World) :
    st_RO w.t (Set.containsIn cfg env t k w) := by
  unfold Set.containsIn
  rcases st_getInner hc env k { w with t := t } ht with ⟨r, w', k1, _, _⟩ | ⟨c, w', k1, _⟩
  · rw [k1]; exact .inl ⟨_, _, rfl, rfl⟩
  · rw [k1]; exact .inr ⟨_, _, rfl, rfl⟩

/-- Every table a step probes is a valid table. -/
def st_StepsOk (cfg : Cfg) (ss : List Set.Step) : Prop :=
  ∀ s ∈ ss, ∀ t want, s.probe = some (t, want) → Inv cfg t

theorem st_stepsOk_plain (l : List Elem) : st_StepsOk cfg (Set.plain l) := by
  intro s hs t want hp
  simp only [Set.plain, List.mem_map] at hs
  obtain ⟨e, _, rfl⟩ := hs
  cases hp

theorem st_stepsOk_filtered (l : List Elem) {t : Raw} (ht : Inv cfg t) (want : Bool) :
    st_StepsOk cfg (Set.filtered l t want) := by
  intro s hs t' want' hp
  simp only [Set.filtered, List.mem_map] at hs
  obtain ⟨e, _, rfl⟩ := hs
  simp only [Option.some.injEq, Prod.mk.injEq] at hp
  rw [← hp.1]; exact ht

theorem st_stepsOk_append {a b : List Set.Step} (ha : st_StepsOk cfg a) (hb : st_StepsOk cfg b) :
    st_StepsOk cfg (a ++ b) := by
  intro s hs
  rcases List.mem_append.mp hs with h | h
  · exact ha s h
  · exact hb s h

theorem st_differenceSteps (hc : CfgOk cfg) {a b : Raw} (ha : Inv cfg a) (hb : Inv cfg b) :
    ∃ ss, Set.differenceSteps cfg a b = .ok ss ∧ st_StepsOk cfg ss := by
  simp only [Set.differenceSteps, elemsOf_spec hc ha]
  exact ⟨_, rfl, st_stepsOk_filtered _ hb _⟩

theorem st_intersectionSteps (hc : CfgOk cfg) {a b : Raw} (ha : Inv cfg a) (hb : Inv cfg b) :
    ∃ ss, Set.intersectionSteps cfg a b = .ok ss ∧ st_StepsOk cfg ss := by
  unfold Set.intersectionSteps Set.smallerLarger
  by_cases hle : a.items ≤ b.items
  · simp only [if_pos hle, elemsOf_spec hc ha]
    exact ⟨_, rfl, st_stepsOk_filtered _ hb _⟩
  · simp only [if_neg hle, elemsOf_spec hc hb]
    exact ⟨_, rfl, st_stepsOk_filtered _ ha _⟩

theorem st_unionSteps (hc : CfgOk cfg) {a b : Raw} (ha : Inv cfg a) (hb : Inv cfg b) :
    ∃ ss, Set.unionSteps cfg a b = .ok ss ∧ st_StepsOk cfg ss := by
  unfold Set.unionSteps Set.smallerLarger
  by_cases hle : a.items ≤ b.items
  · simp only [if_pos hle, elemsOf_spec hc hb, Set.differenceSteps, elemsOf_spec hc ha]
    exact ⟨_, rfl, st_stepsOk_append (st_stepsOk_plain _) (st_stepsOk_filtered _ hb _)⟩
  · simp only [if_neg hle, elemsOf_spec hc ha, Set.differenceSteps, elemsOf_spec hc hb]
    exact ⟨_, rfl, st_stepsOk_append (st_stepsOk_plain _) (st_stepsOk_filtered _ ha _)⟩

theorem st_symmetricDifferenceSteps (hc : CfgOk cfg) {a b : Raw} (ha : Inv cfg a) (hb : Inv cfg b) :
    ∃ ss, Set.symmetricDifferenceSteps cfg a b = .ok ss ∧ st_StepsOk cfg ss := by
  simp only [Set.symmetricDifferenceSteps, Set.differenceSteps, elemsOf_spec hc ha,
    elemsOf_spec hc hb]
  exact ⟨_, rfl, st_stepsOk_append (st_stepsOk_filtered _ hb _) (st_stepsOk_filtered _ ha _)⟩

theorem st_yieldAll (hc : CfgOk cfg) (env : Env) : ∀ (ss : List Set.Step) (w : World)
    (acc : List Elem), st_StepsOk cfg ss → st_RO w.t (Set.yieldAll cfg env ss w acc) := by
  intro ss
  induction ss with
  | nil => intro w acc _; exact .inl ⟨_, _, rfl, rfl⟩
  | cons s rest ih =>
    intro w acc hok
    have hrest : st_StepsOk cfg rest := fun s' hs' => hok s' (List.mem_cons_of_mem _ hs')
    rw [ss_yieldAll_cons]
    cases hp : s.probe with
    | none => exact ih w _ hrest
    | some tw =>
      obtain ⟨t, want⟩ := tw
      have ht := hok s List.mem_cons_self t want hp
      simp only
      rcases st_containsIn hc env ht s.e.k w with ⟨b, w', k1, k2⟩ | ⟨c, w', k1, k2⟩
      · rw [k1]; simp only; rw [← k2]; exact ih w' _ hrest
      · rw [k1]; exact .inr ⟨_, _, rfl, k2⟩

theorem st_yieldsAny (hc : CfgOk cfg) (env : Env) : ∀ (ss : List Set.Step) (w : World),
    st_StepsOk cfg ss → st_RO w.t (Set.yieldsAny cfg env ss w) := by
  intro ss
  induction ss with
  | nil => intro w _; exact .inl ⟨_, _, rfl, rfl⟩
  | cons s rest ih =>
    intro w hok
    have hrest : st_StepsOk cfg rest := fun s' hs' => hok s' (List.mem_cons_of_mem _ hs')
    rw [ss_yieldsAny_cons]
    cases hp : s.probe with
    | none => exact .inl ⟨_, _, rfl, rfl⟩
    | some tw =>
      obtain ⟨t, want⟩ := tw
      have ht := hok s List.mem_cons_self t want hp
      simp only
      rcases st_containsIn hc env ht s.e.k w with ⟨b, w', k1, k2⟩ | ⟨c, w', k1, k2⟩
      · rw [k1]; simp only
        split
        · exact .inl ⟨_, _, rfl, k2⟩
        · rw [← k2]; exact ih w' hrest
      · rw [k1]; exact .inr ⟨_, _, rfl, k2⟩

theorem st_allIn (hc : CfgOk cfg) (env : Env) {t : Raw} (ht : Inv cfg t) :
    ∀ (xs : List Elem) (w : World), st_RO w.t (Set.allIn cfg env t xs w) := by
  intro xs
  induction xs with
  | nil => intro w; exact .inl ⟨_, _, rfl, rfl⟩
  | cons e rest ih =>
    intro w
    rw [ss_allIn_cons]
    rcases st_containsIn hc env ht e.k w with ⟨b, w', k1, k2⟩ | ⟨c, w', k1, k2⟩
    · rw [k1]
      cases b with
      | true => simp only; rw [← k2]; exact ih w'
      | false => exact .inl ⟨_, _, rfl, k2⟩
    · rw [k1]; exact .inr ⟨_, _, rfl, k2⟩

theorem st_lazyOp (hc : CfgOk cfg) (env : Env) {steps : Except String (List Set.Step)}
    (hs : ∃ ss, steps = .ok ss ∧ st_StepsOk cfg ss) (w : World) :
    st_RO w.t (Set.lazyOp cfg env steps w) := by
  obtain ⟨ss, rfl, hok⟩ := hs
  exact st_yieldAll hc env ss w [] hok

theorem st_isSubsetOf (hc : CfgOk cfg) (env : Env) {a b : Raw} (ha : Inv cfg a) (hb : Inv cfg b)
    (w : World) : st_RO w.t (Set.isSubsetOf cfg env a b w) := by
  unfold Set.isSubsetOf
  split
  · rw [elemsOf_spec hc ha]; exact st_allIn hc env hb _ w
  · exact .inl ⟨_, _, rfl, rfl⟩

theorem st_isDisjoint (hc : CfgOk cfg) (env : Env) {b : Raw} (hb : Inv cfg b) (w : World)
    (ha : Inv cfg w.t) : st_RO w.t (Set.isDisjoint cfg env b w) := by
  obtain ⟨ss, h1, hok⟩ := st_intersectionSteps hc ha hb
  unfold Set.isDisjoint
  rw [h1]
  rcases st_yieldsAny hc env ss w hok with ⟨x, w', k1, k2⟩ | ⟨c, w', k1, k2⟩
  · simp only [k1, bind, Res.bind, pure]; exact .inl ⟨_, _, rfl, k2⟩
  · simp only [k1, bind, Res.bind]; exact .inr ⟨_, _, rfl, k2⟩

theorem st_setEq (hc : CfgOk cfg) (env : Env) {b : Raw} (hb : Inv cfg b) (w : World)
    (ha : Inv cfg w.t) : st_RO w.t (Set.setEq cfg env b w) := by
  unfold Set.setEq
  split
  · exact .inl ⟨_, _, rfl, rfl⟩
  · rw [elemsOf_spec hc ha]; exact st_allIn hc env hb _ w

/-! ### assigning operator forms -/

theorem st_bitorAssignLoop (hc : CfgOk cfg) (hg : GuardRuns cfg) (env : Env) :
    ∀ (xs : List Elem) (w : World), TInv cfg w.t →
      hx_Safe cfg (st_A env) id (Set.bitorAssignLoop cfg env xs w) := by
  intro xs
  induction xs with
  | nil => intro w h; exact h
  | cons e rest ih =>
    intro w h
    rw [ss_bitorAssignLoop_cons]
    rcases st_getInner hc env e.k w h.1 with ⟨r, w1, k1, k2, _⟩ | ⟨c, w1, k1, k2⟩
    · have h1 : TInv cfg w1.t := by rw [k2]; exact h
      rw [k1]
      cases r with
      | some i => exact ih w1 h1
      | none =>
        simp only
        cases hcl : (Set.envOf env).clone w1.cc e with
        | none => exact h1
        | some kv =>
          obtain ⟨kid, x⟩ := kv
          simp only
          have hi := st_mapInsert hc hg env { e with kid := kid } { w1 with cc := w1.cc + 1 } h1
          cases hr : Map.insert cfg env { e with kid := kid } { w1 with cc := w1.cc + 1 } with
          | ok pr => obtain ⟨o, w3⟩ := pr; rw [hr] at hi; exact ih w3 hi
          | panic c w' => rw [hr] at hi; exact hi
          | abort => rw [hr] at hi; exact hi
          | fault f => rw [hr] at hi; exact hi.elim
    · rw [k1]
      show TInv cfg w1.t; rw [k2]; exact h

theorem st_bitorAssign (hc : CfgOk cfg) (hg : GuardRuns cfg) (env : Env) {other : Raw}
    (ho : Inv cfg other) (w : World) (h : TInv cfg w.t) :
    hx_Safe cfg (st_A env) id (Set.bitorAssign cfg env other w) := by
  unfold Set.bitorAssign
  rw [elemsOf_spec hc ho]
  exact st_bitorAssignLoop hc hg env _ w h

theorem st_removeAllLoop (hc : CfgOk cfg) (env : Env) {A : Prop} :
    ∀ (xs : List Elem) (w : World), TInv cfg w.t →
      hx_Safe cfg A id (Set.removeAllLoop cfg env xs w) := by
  intro xs
  induction xs with
  | nil => intro w h; exact h
  | cons e rest ih =>
    intro w h
    rw [ss_removeAllLoop_cons]
    have hi := st_mapRemove (A := A) hc env e.k w h
    cases hr : Map.remove cfg env e.k w with
    | ok pr => obtain ⟨o, w3⟩ := pr; rw [hr] at hi; exact ih w3 hi
    | panic c w' => rw [hr] at hi; exact hi
    | abort => rw [hr] at hi; exact hi
    | fault f => rw [hr] at hi; exact hi.elim

theorem st_bitxorAssignLoop (hc : CfgOk cfg) (hg : GuardRuns cfg) (env : Env) :
    ∀ (xs : List Elem) (w : World), TInv cfg w.t →
      hx_Safe cfg (st_A env) id (Set.bitxorAssignLoop cfg env xs w) := by
  intro xs
  induction xs with
  | nil => intro w h; exact h
  | cons e rest ih =>
    intro w h
    rw [ss_bitxorAssignLoop_cons]
    have hs := st_search hc hg env e.k none w h
    cases hr : Set.search cfg env e.k none w with
    | ok pr =>
      obtain ⟨hv, r, w2⟩ := pr
      rw [hr] at hs
      cases r with
      | ok idx =>
        obtain ⟨a1, x, a2⟩ := hs
        obtain ⟨t', r1, r2, _⟩ := en_removeAt_TInv hc a1 a2
        simp only [r1]
        have hdt := st_dropElem_t (cfg := cfg) env x { w2 with t := t' }
        cases hd : dropElem cfg env x { w2 with t := t' } with
        | mk dp w3 =>
          rw [hd] at hdt
          simp only at hdt
          have h3 : TInv cfg w3.t := by rw [hdt]; exact r2
          cases dp with
          | true => exact h3
          | false => simp only [Bool.false_eq_true, if_false]; exact ih w3 h3
      | error slot =>
        obtain ⟨a1, a2, a3, a4, a5⟩ := hs
        simp only
        cases hcl : (Set.envOf env).clone w2.cc e with
        | none => exact a1
        | some kv =>
          obtain ⟨kid, y⟩ := kv
          obtain ⟨t', b1, b2⟩ := st_insertInSlot hc a1 a2 a3 a4 a5 hv { e with kid := kid }
          simp only [b1]
          exact ih _ b2
    | panic c w' => rw [hr] at hs; exact hs
    | abort => rw [hr] at hs; exact hs
    | fault f => rw [hr] at hs; exact hs.elim

theorem st_bitxorAssign (hc : CfgOk cfg) (hg : GuardRuns cfg) (env : Env) {other : Raw}
    (ho : Inv cfg other) (w : World) (h : TInv cfg w.t) :
    hx_Safe cfg (st_A env) id (Set.bitxorAssign cfg env other w) := by
  unfold Set.bitxorAssign
  rw [elemsOf_spec hc ho]
  exact st_bitxorAssignLoop hc hg env _ w h

/-- `retain` with a predicate that only reads (a look-up in another table, which may unwind):
    erase-while-iterating stays inside the table whatever the predicate answers. -/
theorem st_retainByLoop (hc : CfgOk cfg) (env : Env) (p : Elem → World → Res (Bool × World))
    (hp : ∀ e w, st_RO w.t (p e w)) {A : Prop} :
    ∀ (fuel : Nat) (it : RawIter) (w : World), TInv cfg w.t → IterOk cfg w.t it →
      (it.rem w.t).length < fuel → hx_Safe cfg A id (Set.retainByLoop cfg env p fuel it w) := by
  intro fuel
  induction fuel with
  | zero => intro it w _ _ hlen; omega
  | succ fuel ih =>
    intro it w h hok hlen
    obtain ⟨it', hnext, hok', hrem'⟩ := rawIter_next_spec hc h.1 it hok
    rw [ss_retainByLoop_succ, hnext]
    cases hrem : it.rem w.t with
    | nil => exact h
    | cons idx rest =>
      rw [hrem] at hrem' hlen
      simp only [List.head?_cons, List.tail_cons] at hrem' ⊢
      have hidx := hok.rem_full idx (by rw [hrem]; exact List.mem_cons_self)
      have hsz : idx < w.t.slots.size := by
        have ha := h.1.alloc_of_full hc hidx.1 hidx.2
        rw [(h.1.allocated ha).2.2.2.1]; exact hidx.1
      obtain ⟨e, he⟩ := Option.isSome_iff_exists.mp ((h.1.live idx hsz).2 hidx.2)
      simp only [slotGet_ok he]
      rcases hp e w with ⟨b, w1, hp1, ht1⟩ | ⟨c, w1, hp1, ht1⟩
      · rw [hp1]
        cases b with
        | true =>
          simp only
          have hlen' : (it'.rem w1.t).length < fuel := by
            rw [ht1, hrem']; simp only [List.length_cons] at hlen; omega
          exact ih it' w1 (by rw [ht1]; exact h) (by rw [ht1]; exact hok') hlen'
        | false =>
          simp only
          obtain ⟨x, t', r1, _, r3, r4, _, _, _, r8, r9, _⟩ := removeAt_inv hc h.1 hidx.1 hidx.2
          have hT' : TInv cfg t' := h.of_inv r3 r4
          have hdead : isFull (t'.ctrlAt idx) = false := by
            rcases r9 with r9 | r9 <;> rw [r9] <;> decide
          rw [ht1]
          simp only [r1]
          have hdt := st_dropElem_t (cfg := cfg) env x { w1 with t := t' }
          cases hd : dropElem cfg env x { w1 with t := t' } with
          | mk dp w2 =>
            rw [hd] at hdt
            simp only at hdt
            cases dp with
            | true => show TInv cfg w2.t; rw [hdt]; exact hT'
            | false =>
              simp only [Bool.false_eq_true, if_false]
              obtain ⟨hokn, hremn⟩ := ss_iterOk_after_remove hok hok'
                (by rw [hrem, hrem']) r4 r8 hdead
              have hlen' : (it'.rem w2.t).length < fuel := by
                rw [hdt, hremn, hrem']; simp only [List.length_cons] at hlen; omega
              exact ih it' w2 (by rw [hdt]; exact hT') (by rw [hdt]; exact hokn) hlen'
      · rw [hp1]
        show TInv cfg w1.t; rw [ht1]; exact h

theorem st_retainBy (hc : CfgOk cfg) (env : Env) (p : Elem → World → Res (Bool × World))
    (hp : ∀ e w, st_RO w.t (p e w)) (w : World) (h : TInv cfg w.t) {A : Prop} :
    hx_Safe cfg A id (Set.retainBy cfg env p w) := by
  obtain ⟨it, hnew, hok, hrem⟩ := rawIter_new_spec hc h.1
  have hlen : (it.rem w.t).length < w.t.buckets + 2 := by
    rw [hrem]; have := fullList_length_le w.t; omega
  unfold Set.retainBy
  rw [hnew]
  exact st_retainByLoop hc env p hp _ it w h hok hlen

theorem st_bitandAssign (hc : CfgOk cfg) (env : Env) {other : Raw} (ho : Inv cfg other) (w : World)
    (h : TInv cfg w.t) {A : Prop} : hx_Safe cfg A id (Set.bitandAssign cfg env other w) :=
  st_retainBy hc env _ (fun e w => st_containsIn hc env ho e.k w) w h

theorem st_subAssign (hc : CfgOk cfg) (env : Env) {other : Raw} (ho : Inv cfg other) (w : World)
    (h : TInv cfg w.t) {A : Prop} : hx_Safe cfg A id (Set.subAssign cfg env other w) := by
  unfold Set.subAssign
  split
  · rw [elemsOf_spec hc ho]; exact st_removeAllLoop hc env _ w h
  · refine st_retainBy hc env _ (fun e w => ?_) w h
    rcases st_containsIn hc env ho e.k w with ⟨b, w', k1, k2⟩ | ⟨c, w', k1, k2⟩
    · simp only [k1, bind, Res.bind, pure]; exact .inl ⟨_, _, rfl, k2⟩
    · simp only [k1, bind, Res.bind]; exact .inr ⟨_, _, rfl, k2⟩

/-! ### one call `target.op(&other)` -/

/-- What one `HashSet` call guarantees for its target, whatever the environment does. -/
def st_SafeS (cfg : Cfg) (A : Prop) : Res (Ret × World) → Prop
  | .ok (_, w') => TInv cfg w'.t ∧ w'.t.items = w'.t.elems.length
  | .panic _ w' => TInv cfg w'.t ∧ w'.t.items = w'.t.elems.length
  | .abort => A
  | .fault _ => False

theorem st_wrapS {A : Prop} {α : Type} (hc : CfgOk cfg) (g : α → Ret) {r : Res (α × World)}
    (h : hx_Safe cfg A (·.2) r) : st_SafeS cfg A (Set.wrap g r) := by
  cases r with
  | ok pr => obtain ⟨x, w'⟩ := pr; exact hs_good hc h
  | panic c w' => exact hs_good hc h
  | abort => exact h
  | fault f => exact h.elim

theorem st_wrapSU {A : Prop} (hc : CfgOk cfg) {r : Res World} (h : hx_Safe cfg A id r) :
    st_SafeS cfg A (Set.wrapU r) := by
  cases r with
  | ok w' => exact hs_good hc h
  | panic c w' => exact hs_good hc h
  | abort => exact h
  | fault f => exact h.elim

/-- One call `target.op(&other)` (`w.t` = the target set) from any two valid tables, every
    environment: never a fault; the target is valid on return and after an unwind; the right operand
    is not touched (it is not part of the outcome). -/
theorem set_call_safe (hc : CfgOk cfg) (hg : GuardRuns cfg) (env : Env) (op : SetOp) (other : Raw)
    (w : World) (h : TInv cfg w.t) (ho : TInv cfg other) :
    st_SafeS cfg (st_A env) (Set.call cfg env op other w) := by
  cases op with
  | insert k kid => exact st_wrapS hc _ (st_setInsert hc hg env k kid w h)
  | remove k => exact st_wrapS hc _ (st_setRemove hc env k w h)
  | take k => exact st_wrapS hc _ (st_mapRemoveEntry hc env k w h)
  | replace e => exact st_wrapS hc _ (st_setReplace hc hg env e w h)
  | getOrInsert e => exact st_wrapS hc _ (st_setGetOrInsert hc hg env e w h)
  | getOrInsertWith k k2 kid2 => exact st_wrapS hc _ (st_setGetOrInsertWith hc hg env k k2 kid2 w h)
  | contains k => exact st_wrapS hc _ (st_setContains hc env k w h)
  | get k => exact st_wrapS hc _ (st_mapGet hc env k w h)
  | entryInsert e => exact st_wrapS hc _ (st_setEntryInsert hc hg env e w h)
  | entryOrInsert e => exact st_wrapSU hc (st_setEntryOrInsert hc hg env e w h)
  | entryRemove e => exact st_wrapS hc _ (st_setEntryRemove hc env e w h)
  | retain => exact st_wrapSU hc (st_retain hc (Set.envOf env) w h)
  | clear => exact st_wrapSU hc (st_clear hc env w h)
  | reserve n => exact st_wrapSU hc (st_reserve hc hg env n w h)
  | shrinkTo m => exact st_wrapSU hc (st_shrinkTo hc env m w h)
  | union => exact st_wrapS hc _ ((st_lazyOp hc env (st_unionSteps hc h.1 ho.1) w).safe h)
  | intersection =>
    exact st_wrapS hc _ ((st_lazyOp hc env (st_intersectionSteps hc h.1 ho.1) w).safe h)
  | difference => exact st_wrapS hc _ ((st_lazyOp hc env (st_differenceSteps hc h.1 ho.1) w).safe h)
  | symmetricDifference =>
    exact st_wrapS hc _ ((st_lazyOp hc env (st_symmetricDifferenceSteps hc h.1 ho.1) w).safe h)
  | isSubset => exact st_wrapS hc _ ((st_isSubsetOf hc env h.1 ho.1 w).safe h)
  | isSuperset => exact st_wrapS hc _ ((st_isSubsetOf hc env ho.1 h.1 w).safe h)
  | isDisjoint => exact st_wrapS hc _ ((st_isDisjoint hc env ho.1 w h.1).safe h)
  | eq => exact st_wrapS hc _ ((st_setEq hc env ho.1 w h.1).safe h)
  | bitorAssign => exact st_wrapSU hc (st_bitorAssign hc hg env ho.1 w h)
  | bitandAssign => exact st_wrapSU hc (st_bitandAssign hc env ho.1 w h)
  | bitxorAssign => exact st_wrapSU hc (st_bitxorAssign hc hg env ho.1 w h)
  | subAssign => exact st_wrapSU hc (st_subAssign hc env ho.1 w h)

/-! ### one call on a pair, whole histories -/

/-- Both sets of a pair are valid tables whose `len` is the number of stored elements. -/
def st_PairGood (cfg : Cfg) (s : Set.Pair) : Prop :=
  (TInv cfg s.a ∧ s.a.items = s.a.elems.length) ∧ (TInv cfg s.b ∧ s.b.items = s.b.elems.length)

/-- Outcome predicate of one call on a pair of sets. -/
def st_Safe2 (cfg : Cfg) (A : Prop) : Set.Out2 → Prop
  | .ret _ s' => st_PairGood cfg s'
  | .panic _ s' => st_PairGood cfg s'
  | .abort => A
  | .fault _ => False

theorem st_step2_safe (hc : CfgOk cfg) (hg : GuardRuns cfg) (env : Env) (c : SetCall) (s : Set.Pair)
    (ha : TInv cfg s.a) (hb : TInv cfg s.b) :
    st_Safe2 cfg (st_A env) (Set.step2 cfg env c s) := by
  obtain ⟨side, op⟩ := c
  cases side with
  | a =>
    have hs := set_call_safe hc hg env op s.b s.w ha hb
    have hst : Set.step2 cfg env ⟨.a, op⟩ s =
        match Set.call cfg env op s.b s.w with
        | .ok (r, w') => .ret r { w := w', b := s.b }
        | .panic cls w' => .panic cls { w := w', b := s.b }
        | .abort => .abort
        | .fault f => .fault f := rfl
    rw [hst]
    cases hcall : Set.call cfg env op s.b s.w with
    | ok pr => obtain ⟨r, w'⟩ := pr; rw [hcall] at hs; exact ⟨hs, hs_good hc hb⟩
    | panic cls w' => rw [hcall] at hs; exact ⟨hs, hs_good hc hb⟩
    | abort => rw [hcall] at hs; exact hs
    | fault f => rw [hcall] at hs; exact hs.elim
  | b =>
    have hs := set_call_safe hc hg env op s.w.t { s.w with t := s.b } hb ha
    have hst : Set.step2 cfg env ⟨.b, op⟩ s =
        match Set.call cfg env op s.w.t { s.w with t := s.b } with
        | .ok (r, w') => .ret r { w := { w' with t := s.w.t }, b := w'.t }
        | .panic cls w' => .panic cls { w := { w' with t := s.w.t }, b := w'.t }
        | .abort => .abort
        | .fault f => .fault f := rfl
    rw [hst]
    cases hcall : Set.call cfg env op s.w.t { s.w with t := s.b } with
    | ok pr => obtain ⟨r, w'⟩ := pr; rw [hcall] at hs; exact ⟨hs_good hc ha, hs⟩
    | panic cls w' => rw [hcall] at hs; exact ⟨hs_good hc ha, hs⟩
    | abort => rw [hcall] at hs; exact hs
    | fault f => rw [hcall] at hs; exact hs.elim

end set

/-- **S1.** One call on a pair of sets (any `SetOp` — `insert`, `remove`, `take`, `replace`,
    `get_or_insert`, `get_or_insert_with`, `contains`, `get`, `entry` + `insert` / `or_insert` /
    `remove`, `retain`, `clear`, `reserve`, `shrink_to`, the four lazy set-algebra iterators,
    `is_subset` / `is_superset` / `is_disjoint` / `==`, `|=` `&=` `^=` `-=` — on either side), from
    any two valid tables, for EVERY environment (`Hash` / `Eq` / `Clone` / predicate answers
    arbitrary and call-number dependent, any callback or destructor may panic, the allocator may
    refuse): never `.fault`; on return AND after an unwind BOTH tables are valid and `len` is the
    number of stored elements; `.abort` (`handle_alloc_error`) only if the allocator refuses some
    request. -/
theorem set_step2_safe (hc : CfgOk cfg) (hg : GuardRuns cfg) (env : Env) (c : SetCall) (s : Set.Pair)
    (ha : TInv cfg s.a) (hb : TInv cfg s.b) :
    match Set.step2 cfg env c s with
    | .ret _ s' => (TInv cfg s'.a ∧ s'.a.items = s'.a.elems.length) ∧
        (TInv cfg s'.b ∧ s'.b.items = s'.b.elems.length)
    | .panic _ s' => (TInv cfg s'.a ∧ s'.a.items = s'.a.elems.length) ∧
        (TInv cfg s'.b ∧ s'.b.items = s'.b.elems.length)
    | .abort => ∃ j, env.allocOk j = false
    | .fault _ => False := by
  have := st_step2_safe hc hg env c s ha hb
  generalize Set.step2 cfg env c s = r at this ⊢
  match r, this with
  | .ret _ _, h => exact h
  | .panic _ _, h => exact h
  | .abort, h => exact h
  | .fault _, h => exact h

/-- The run hit a `fault` (undefined behaviour in the real code) somewhere. -/
def Set.run2Faults (cfg : Cfg) (env : Env) : List SetCall → Set.Pair → Bool
  | [], _ => false
  | c :: rest, s =>
    match Set.step2 cfg env c s with
    | .ret _ s' => Set.run2Faults cfg env rest s'
    | .panic _ s' => Set.run2Faults cfg env rest s'
    | .abort => false
    | .fault _ => true

/-- The pair after every prefix of the history (the first entry is the initial pair; the list stops
    where the run stops). -/
def Set.states2 (cfg : Cfg) (env : Env) : List SetCall → Set.Pair → List Set.Pair
  | [], s => [s]
  | c :: rest, s =>
    match Set.step2 cfg env c s with
    | .ret _ s' => s :: Set.states2 cfg env rest s'
    | .panic _ s' => s :: Set.states2 cfg env rest s'
    | .abort => [s]
    | .fault _ => [s]

/-- Set-pair histories from any two valid tables. -/
theorem st_run2_inv (hc : CfgOk cfg) (hg : GuardRuns cfg) (env : Env) :
    ∀ (cs : List SetCall) (s : Set.Pair), st_PairGood cfg s →
      Set.run2Faults cfg env cs s = false ∧
      (∀ s' ∈ Set.states2 cfg env cs s, st_PairGood cfg s') ∧
      (∀ obs sf, Set.run2 cfg env cs s = some (obs, sf) → st_PairGood cfg sf) ∧
      ((∀ j, env.allocOk j = true) → ∃ obs sf, Set.run2 cfg env cs s = some (obs, sf)) := by
  intro cs
  induction cs with
  | nil =>
    intro s h
    refine ⟨rfl, ?_, ?_, fun _ => ⟨[], s, rfl⟩⟩
    · intro s' hs'
      simp only [Set.states2, List.mem_singleton] at hs'
      rw [hs']; exact h
    · intro obs sf hr
      simp only [Set.run2, Option.some.injEq, Prod.mk.injEq] at hr
      rw [← hr.2]; exact h
  | cons c rest ih =>
    intro s h
    have hs := st_step2_safe hc hg env c s h.1.1 h.2.1
    cases hr : Set.step2 cfg env c s with
    | ret r s1 =>
      rw [hr] at hs
      obtain ⟨i1, i2, i3, i4⟩ := ih s1 hs
      simp only [Set.run2, Set.run2Faults, Set.states2, hr]
      refine ⟨i1, ?_, ?_, ?_⟩
      · intro s' hs'
        rcases List.mem_cons.mp hs' with rfl | hs'
        · exact h
        · exact i2 s' hs'
      · intro obs sf hrun
        obtain ⟨⟨os, sf'⟩, h1, h2⟩ := Option.map_eq_some_iff.1 hrun
        simp only [Prod.mk.injEq] at h2
        rw [← h2.2]; exact i3 os sf' h1
      · intro hal
        obtain ⟨os, sf, h1⟩ := i4 hal
        exact ⟨_, _, by rw [h1]; rfl⟩
    | panic cls s1 =>
      rw [hr] at hs
      obtain ⟨i1, i2, i3, i4⟩ := ih s1 hs
      simp only [Set.run2, Set.run2Faults, Set.states2, hr]
      refine ⟨i1, ?_, ?_, ?_⟩
      · intro s' hs'
        rcases List.mem_cons.mp hs' with rfl | hs'
        · exact h
        · exact i2 s' hs'
      · intro obs sf hrun
        obtain ⟨⟨os, sf'⟩, h1, h2⟩ := Option.map_eq_some_iff.1 hrun
        simp only [Prod.mk.injEq] at h2
        rw [← h2.2]; exact i3 os sf' h1
      · intro hal
        obtain ⟨os, sf, h1⟩ := i4 hal
        exact ⟨_, _, by rw [h1]; rfl⟩
    | abort =>
      rw [hr] at hs
      obtain ⟨j, hj⟩ : ∃ j, env.allocOk j = false := hs
      refine ⟨by simp only [Set.run2Faults, hr], ?_, fun obs sf hn => ?_, fun hal => ?_⟩
      · intro s' hs'
        simp only [Set.states2, hr, List.mem_singleton] at hs'
        rw [hs']; exact h
      · simp [Set.run2, hr] at hn
      · rw [hal] at hj; cases hj
    | fault f => rw [hr] at hs; exact hs.elim

/-- **S2.** Every history of calls on a pair `(HashSet::new(), HashSet::new())` — single-set calls
    on either set interleaved with the lazy set-algebra iterators, the predicates and the assigning
    operators in both directions — for EVERY environment: no call reaches undefined behaviour
    (`run2Faults`); after every call, returned or unwound (panics are caught and the history goes
    on), BOTH tables satisfy the API invariant `TInv cfg` and `items = elems.length` (`states2`
    lists the pair after every prefix); the history is cut short only by `handle_alloc_error`, i.e.
    never if the allocator never refuses. The world `s0.w` may start with any counters and log
    (`Set.Pair.new cfg` is the instance with an empty log and zero counters, `set_run2_safe_new`). -/
theorem set_run2_safe (hc : CfgOk cfg) (hg : GuardRuns cfg) (env : Env) (cs : List SetCall)
    (s0 : Set.Pair) (ha : s0.a = Raw.new cfg.W) (hb : s0.b = Raw.new cfg.W) :
    Set.run2Faults cfg env cs s0 = false ∧
    (∀ s ∈ Set.states2 cfg env cs s0,
      (TInv cfg s.a ∧ s.a.items = s.a.elems.length) ∧ (TInv cfg s.b ∧ s.b.items = s.b.elems.length)) ∧
    (∀ obs sf, Set.run2 cfg env cs s0 = some (obs, sf) →
      (TInv cfg sf.a ∧ sf.a.items = sf.a.elems.length) ∧
      (TInv cfg sf.b ∧ sf.b.items = sf.b.elems.length)) ∧
    ((∀ j, env.allocOk j = true) → ∃ obs sf, Set.run2 cfg env cs s0 = some (obs, sf)) :=
  st_run2_inv hc hg env cs s0
    ⟨hs_good hc (by rw [ha]; exact TInv.new hc), hs_good hc (by rw [hb]; exact TInv.new hc)⟩

/-- **S2 (instance).** Histories from `Set.Pair.new cfg`. -/
theorem set_run2_safe_new (hc : CfgOk cfg) (hg : GuardRuns cfg) (env : Env) (cs : List SetCall) :
    Set.run2Faults cfg env cs (Set.Pair.new cfg) = false ∧
    (∀ s ∈ Set.states2 cfg env cs (Set.Pair.new cfg),
      (TInv cfg s.a ∧ s.a.items = s.a.elems.length) ∧ (TInv cfg s.b ∧ s.b.items = s.b.elems.length)) ∧
    (∀ obs sf, Set.run2 cfg env cs (Set.Pair.new cfg) = some (obs, sf) →
      (TInv cfg sf.a ∧ sf.a.items = sf.a.elems.length) ∧
      (TInv cfg sf.b ∧ sf.b.items = sf.b.elems.length)) ∧
    ((∀ j, env.allocOk j = true) →
      ∃ obs sf, Set.run2 cfg env cs (Set.Pair.new cfg) = some (obs, sf)) :=
  set_run2_safe hc hg env cs (Set.Pair.new cfg) rfl rfl

/-- **S2'.** The same from any two valid tables. -/
theorem set_run2_safe_from (hc : CfgOk cfg) (hg : GuardRuns cfg) (env : Env) (cs : List SetCall)
    (s0 : Set.Pair) (ha : TInv cfg s0.a) (hb : TInv cfg s0.b) :
    Set.run2Faults cfg env cs s0 = false ∧
    (∀ s ∈ Set.states2 cfg env cs s0,
      (TInv cfg s.a ∧ s.a.items = s.a.elems.length) ∧ (TInv cfg s.b ∧ s.b.items = s.b.elems.length)) ∧
    (∀ obs sf, Set.run2 cfg env cs s0 = some (obs, sf) →
      (TInv cfg sf.a ∧ sf.a.items = sf.a.elems.length) ∧
      (TInv cfg sf.b ∧ sf.b.items = sf.b.elems.length)) ∧
    ((∀ j, env.allocOk j = true) → ∃ obs sf, Set.run2 cfg env cs s0 = some (obs, sf)) :=
  st_run2_inv hc hg env cs s0 ⟨hs_good hc ha, hs_good hc hb⟩

/-! ## 3. `len()` = number of elements an iteration yields, in every reachable state -/

/-- `RawIter` over `t` (`RawIter::new`, then `next` until `None`) yields exactly `t.items` buckets,
    every one of them holds a live element, the elements yielded are the stored elements
    `t.elems` — so `len()` is the number of elements yielded. -/
def LenIsYielded (cfg : Cfg) (t : Raw) : Prop :=
  ∃ it l, RawIter.new cfg t = .ok it ∧ RawIter.drainAll cfg t (t.buckets + 2) it [] = .ok l ∧
    l.length = t.items ∧ l.filterMap (fun i => t.slots[i]?.join) = t.elems ∧
    t.elems.length = t.items

theorem st_lenIsYielded (hc : CfgOk cfg) {t : Raw} (h : Inv cfg t) : LenIsYielded cfg t := by
  obtain ⟨it, hnew, _, _⟩ := rawIter_new_spec hc h
  refine ⟨it, t.fullList, hnew, rawIter_drainAll_spec hc h it hnew, fullList_length hc h, ?_,
    ab_elems_length hc h⟩
  rw [ab_elems_map hc h]
  exact ab_filterMap_eq_map _ _ _ (fun i hi => h.ab_full hc hi)

/-- **L.** In every state a history of `HashSet` calls on a pair of fresh sets, or a history of
    `HashTable` calls on a fresh table, can reach — after every call, returned or unwound, whatever
    `Hash` / `Eq` / `Clone` / the predicates / the destructors / the caller-supplied hashes did —
    a full iteration yields exactly `len()` elements, namely the stored ones. -/
theorem len_equals_yielded_set_table (hc : CfgOk cfg) (hg : GuardRuns cfg) (env : Env) :
    (∀ (cs : List SetCall) (s0 : Set.Pair), s0.a = Raw.new cfg.W → s0.b = Raw.new cfg.W →
      (∀ s ∈ Set.states2 cfg env cs s0, LenIsYielded cfg s.a ∧ LenIsYielded cfg s.b) ∧
      (∀ obs sf, Set.run2 cfg env cs s0 = some (obs, sf) →
        LenIsYielded cfg sf.a ∧ LenIsYielded cfg sf.b)) ∧
    (∀ (ops : List TableOp) (w0 : World), w0.t = Raw.new cfg.W →
      (∀ w ∈ Table.statesH cfg env ops w0, LenIsYielded cfg w.t) ∧
      (∀ obs wf, Table.runH cfg env ops w0 = some (obs, wf) → LenIsYielded cfg wf.t)) := by
  refine ⟨fun cs s0 ha hb => ?_, fun ops w0 h0 => ?_⟩
  · obtain ⟨_, h2, h3, _⟩ := set_run2_safe hc hg env cs s0 ha hb
    exact ⟨fun s hs => ⟨st_lenIsYielded hc (h2 s hs).1.1.1, st_lenIsYielded hc (h2 s hs).2.1.1⟩,
      fun obs sf hr => ⟨st_lenIsYielded hc (h3 obs sf hr).1.1.1,
        st_lenIsYielded hc (h3 obs sf hr).2.1.1⟩⟩
  · obtain ⟨_, h2, h3, _⟩ := table_runH_safe hc hg env ops w0 h0
    exact ⟨fun w hw => st_lenIsYielded hc (h2 w hw).1.1,
      fun obs wf hr => st_lenIsYielded hc (h3 obs wf hr).1.1⟩

/-- `states2` ends with the final pair of `run2`. -/
theorem st_states2_of_run2 (env : Env) : ∀ (cs : List SetCall) (s : Set.Pair) (obs : List Map.Obs)
    (sf : Set.Pair), Set.run2 cfg env cs s = some (obs, sf) →
      (Set.states2 cfg env cs s).length = cs.length + 1 ∧
      (Set.states2 cfg env cs s).getLast? = some sf ∧ obs.length = cs.length := by
  intro cs
  induction cs with
  | nil =>
    intro s obs sf hr
    simp only [Set.run2, Option.some.injEq, Prod.mk.injEq] at hr
    obtain ⟨rfl, rfl⟩ := hr
    exact ⟨rfl, rfl, rfl⟩
  | cons c rest ih =>
    intro s obs sf hr
    cases hst : Set.step2 cfg env c s with
    | ret r s1 =>
      simp only [Set.run2, hst] at hr
      obtain ⟨⟨os, sf'⟩, h1, h2⟩ := Option.map_eq_some_iff.1 hr
      simp only [Prod.mk.injEq] at h2
      obtain ⟨rfl, rfl⟩ := h2
      obtain ⟨j1, j2, j3⟩ := ih s1 os sf' h1
      simp only [Set.states2, hst, List.length_cons, j1, j3, true_and, and_true]
      rw [List.getLast?_cons, j2]; rfl
    | panic cls s1 =>
      simp only [Set.run2, hst] at hr
      obtain ⟨⟨os, sf'⟩, h1, h2⟩ := Option.map_eq_some_iff.1 hr
      simp only [Prod.mk.injEq] at h2
      obtain ⟨rfl, rfl⟩ := h2
      obtain ⟨j1, j2, j3⟩ := ih s1 os sf' h1
      simp only [Set.states2, hst, List.length_cons, j1, j3, true_and, and_true]
      rw [List.getLast?_cons, j2]; rfl
    | abort => simp [Set.run2, hst] at hr
    | fault f => simp [Set.run2, hst] at hr

#print axioms table_stepH_safe
#print axioms table_runH_safe
#print axioms table_runH_safe_from
#print axioms set_call_safe
#print axioms set_step2_safe
#print axioms set_run2_safe
#print axioms set_run2_safe_new
#print axioms set_run2_safe_from
#print axioms len_equals_yielded_set_table

end Hb
