/-
C01 — the HashMap model refines the association-list specification (`Hb/Model/Spec.lean`) for every
lawful environment: every hash function `H` (colliding ones included), every table size, both
scanners (`CfgOk` only).

* abstraction `abs t = t.elems` (stored elements in bucket order), invariant
  `RI cfg H t = InvL cfg H t ∧ t.LayoutOk cfg`; results are stated up to `List.Perm`
  (`AL.perm_find`, `AL.Step.perm` transport them along permutations of key-distinct lists);
* per call: `get_refines`, `getMut_refines`, `removeEntry_refines`, `remove_refines`,
  `insert_refines`, `clear_refines`, `reserve_refines`, `tryReserve_refines`, `shrinkTo_refines`,
  `retain_refines` (with `rf_erase_behind_iterator`);
* `step_refines` (one `MapOp`), `run_refines` / `C01_run_refines` (histories from `new()`).

Outcomes other than the specified return: only the `"capacity"` panic (capacity overflow) of
`insert` / `reserve`, which leaves the table untouched; never `fault`, never `abort` (allocator
never refuses, destructors and the predicate do not panic — `LawfulP`).
Growth (`GrowthLawful`) is taken as a hypothesis in the `_refines` theorems and discharged from
`Hb/Proofs/GrowLawful.lean` in `step_refines'` / `C01_run_refines`.
-/
import Hb.Model.Spec
import Hb.Proofs.FindSpec
import Hb.Proofs.InvLStep
import Hb.Proofs.Resize
import Hb.Proofs.Rehash
import Hb.Proofs.IterSpec
import Hb.Proofs.GrowLawful
namespace Hb

variable {cfg : Cfg}

/-! ## 0. hypotheses and abstraction -/

/-- Lawful environment whose predicate is the pure function `P`, whose allocator never refuses and
    whose destructors never panic. -/
structure LawfulP (env : Env) (H : Nat → Nat) (P : AL.Pred) : Prop extends Lawful env H where
  pred : ∀ c e, env.pred c e = some (P e)
  alloc : ∀ j, env.allocOk j = true
  nodropPanic : ∀ c e, env.dropPanics c e = false

/-- Abstraction function (the theorems below spell it `t.elems`). -/
def abs (t : Raw) : AL := t.elems

@[simp] theorem abs_eq (t : Raw) : abs t = t.elems := rfl

/-- Table invariant at this level. -/
def RI (cfg : Cfg) (H : Nat → Nat) (t : Raw) : Prop := InvL cfg H t ∧ t.LayoutOk cfg

theorem CfgOk.probe (hc : CfgOk cfg) : ProbeCovers cfg := probe_covers cfg hc.spec.width

/-! ## 1. association lists -/

namespace AL

theorem find_some_iff {l : AL} (hn : l.keysNodup) {k : Nat} {e : Elem} :
    l.find k = some e ↔ e ∈ l ∧ e.k = k := by
  induction l with
  | nil => simp [find]
  | cons a l ih =>
    have hn' : keysNodup l := by
      unfold keysNodup at hn ⊢
      rw [List.map_cons, List.nodup_cons] at hn; exact hn.2
    have ha : ∀ x ∈ l, x.k ≠ a.k := by
      intro x hx hk
      unfold keysNodup at hn
      rw [List.map_cons, List.nodup_cons] at hn
      exact hn.1 (hk ▸ List.mem_map_of_mem hx)
    have ih := ih hn'
    unfold find at ih ⊢
    rw [List.find?_cons]
    by_cases hak : a.k = k
    · have : (a.k == k) = true := by simpa using hak
      rw [this]
      constructor
      · intro h; cases h; exact ⟨List.mem_cons_self, hak⟩
      · rintro ⟨hm, hk⟩
        rcases List.mem_cons.mp hm with rfl | hm
        · rfl
        · exact absurd (hk.trans hak.symm) (ha e hm)
    · have : (a.k == k) = false := by simpa using hak
      rw [this]
      simp only
      rw [ih]
      constructor
      · rintro ⟨hm, hk⟩; exact ⟨List.mem_cons_of_mem _ hm, hk⟩
      · rintro ⟨hm, hk⟩
        rcases List.mem_cons.mp hm with rfl | hm
        · exact absurd hk hak
        · exact ⟨hm, hk⟩

theorem find_none_iff {l : AL} {k : Nat} : l.find k = none ↔ ∀ e ∈ l, e.k ≠ k := by
  unfold find
  rw [List.find?_eq_none]
  simp

theorem keysNodup_perm {l l' : AL} (hp : List.Perm l l') (hn : l.keysNodup) : l'.keysNodup := by
  unfold keysNodup at *
  exact (hp.map (fun x : Elem => x.k)).nodup hn

/-- `find` does not depend on the order. -/
theorem perm_find {l l' : AL} (hp : List.Perm l l') (hn : l.keysNodup) (k : Nat) :
    l.find k = l'.find k := by
  have hn' := keysNodup_perm hp hn
  apply Option.ext
  intro e
  rw [find_some_iff hn, find_some_iff hn', hp.mem_iff]

theorem perm_setVal {l l' : AL} (hp : List.Perm l l') (k vid v : Nat) :
    List.Perm (l.setVal k vid v) (l'.setVal k vid v) := hp.map _

theorem perm_setPayload {l l' : AL} (hp : List.Perm l l') (k nv : Nat) :
    List.Perm (l.setPayload k nv) (l'.setPayload k nv) := hp.map _

theorem perm_erase {l l' : AL} (hp : List.Perm l l') (k : Nat) :
    List.Perm (l.erase k) (l'.erase k) := hp.filter _

theorem perm_retain (P : Pred) {l l' : AL} (hp : List.Perm l l') :
    List.Perm (l.retain P) (l'.retain P) := hp.filterMap _

theorem keysNodup_nil : keysNodup [] := by simp [keysNodup]

theorem keysNodup_cons {l : AL} {e : Elem} (hn : l.keysNodup) (hf : l.find e.k = none) :
    keysNodup (e :: l) := by
  unfold keysNodup at hn ⊢
  rw [List.map_cons, List.nodup_cons]
  refine ⟨?_, hn⟩
  intro hm
  obtain ⟨x, hx, hk⟩ := List.mem_map.mp hm
  exact find_none_iff.mp hf x hx hk

theorem setVal_keys (l : AL) (k vid v : Nat) : (l.setVal k vid v).map (·.k) = l.map (·.k) := by
  unfold setVal
  rw [List.map_map]
  apply List.map_congr_left
  intro x _
  simp only [Function.comp]
  split <;> rfl

theorem setPayload_keys (l : AL) (k nv : Nat) : (l.setPayload k nv).map (·.k) = l.map (·.k) := by
  unfold setPayload
  rw [List.map_map]
  apply List.map_congr_left
  intro x _
  simp only [Function.comp]
  split <;> rfl

theorem keysNodup_setVal {l : AL} (hn : l.keysNodup) (k vid v : Nat) :
    (l.setVal k vid v).keysNodup := by
  unfold keysNodup; rw [setVal_keys]; exact hn

theorem keysNodup_setPayload {l : AL} (hn : l.keysNodup) (k nv : Nat) :
    (l.setPayload k nv).keysNodup := by
  unfold keysNodup; rw [setPayload_keys]; exact hn

theorem keysNodup_erase {l : AL} (hn : l.keysNodup) (k : Nat) : (l.erase k).keysNodup := by
  unfold keysNodup erase at *
  exact hn.sublist ((List.filter_sublist).map _)

theorem keysNodup_retain (P : Pred) {l : AL} (hn : l.keysNodup) : (l.retain P).keysNodup := by
  induction l with
  | nil => exact keysNodup_nil
  | cons a l ih =>
    unfold keysNodup at hn
    rw [List.map_cons, List.nodup_cons] at hn
    have ih := ih hn.2
    unfold retain at ih ⊢
    rw [List.filterMap_cons]
    split
    · exact ih
    · rename_i b hb
      split at hb
      · cases hb
        unfold keysNodup at ih ⊢
        rw [List.map_cons, List.nodup_cons]
        refine ⟨?_, ih⟩
        intro hm
        obtain ⟨x, hx, hk⟩ := List.mem_map.mp hm
        obtain ⟨y, hy, hyx⟩ := List.mem_filterMap.mp hx
        split at hyx
        · cases hyx
          exact hn.1 (List.mem_map.mpr ⟨y, hy, hk⟩)
        · cases hyx
      · cases hb

/-- A step from `l` can be replayed from any permutation of `l`, up to permutation. -/
theorem Step.perm {P : Pred} {op : MapOp} {l l1 l' : AL} {r : Ret} (hs : Step P op l r l1)
    (hp : List.Perm l l') (hn : l.keysNodup) :
    ∃ l1', Step P op l' r l1' ∧ List.Perm l1 l1' := by
  cases hs with
  | insertNew e _ h =>
    exact ⟨e :: l', .insertNew e l' (by rw [← perm_find hp hn]; exact h), hp.cons e⟩
  | insertOld e old _ h =>
    exact ⟨_, .insertOld e old l' (by rw [← perm_find hp hn]; exact h), perm_setVal hp _ _ _⟩
  | get k => rw [perm_find hp hn]; exact ⟨l', .get k l', hp⟩
  | getMut k nv => rw [perm_find hp hn]; exact ⟨_, .getMut k nv l', perm_setPayload hp _ _⟩
  | remove k => rw [perm_find hp hn]; exact ⟨_, .remove k l', perm_erase hp _⟩
  | removeEntry k => rw [perm_find hp hn]; exact ⟨_, .removeEntry k l', perm_erase hp _⟩
  | clear => exact ⟨[], .clear l', List.Perm.refl _⟩
  | reserve n => exact ⟨l', .reserve n l', hp⟩
  | tryReserve n r => exact ⟨l', .tryReserve n r l', hp⟩
  | shrinkTo m => exact ⟨l', .shrinkTo m l', hp⟩
  | retain => exact ⟨_, .retain l', perm_retain P hp⟩

/-- Steps keep the keys pairwise distinct. -/
theorem Step.keysNodup {P : Pred} {op : MapOp} {l l1 : AL} {r : Ret} (hs : Step P op l r l1)
    (hn : l.keysNodup) : l1.keysNodup := by
  cases hs with
  | insertNew e _ h => exact keysNodup_cons hn h
  | insertOld e old _ h => exact keysNodup_setVal hn _ _ _
  | get k => exact hn
  | getMut k nv => exact keysNodup_setPayload hn _ _
  | remove k => exact keysNodup_erase hn _
  | removeEntry k => exact keysNodup_erase hn _
  | clear => exact keysNodup_nil
  | reserve n => exact hn
  | tryReserve n r => exact hn
  | shrinkTo m => exact hn
  | retain => exact keysNodup_retain P hn

end AL

/-! ## 2. the abstract contents of a table -/

theorem rf_join_some {o : Option (Option Elem)} {e : Elem} : o.join = some e ↔ o = some (some e) := by
  cases o with
  | none => simp
  | some x => cases x <;> simp

theorem mem_elems {t : Raw} {e : Elem} : e ∈ t.elems ↔ ∃ i : Nat, t.slots[i]?.join = some e := by
  unfold Raw.elems
  rw [List.mem_filterMap]
  constructor
  · rintro ⟨a, ha, hae⟩
    simp only [id] at hae
    subst hae
    obtain ⟨i, hi⟩ := List.mem_iff_getElem?.mp ha
    refine ⟨i, ?_⟩
    rw [Array.getElem?_toList] at hi
    rw [hi]; rfl
  · rintro ⟨i, hi⟩
    rw [rf_join_some] at hi
    refine ⟨some e, ?_, rfl⟩
    apply List.mem_iff_getElem?.mpr
    exact ⟨i, by rw [Array.getElem?_toList]; exact hi⟩

private theorem rf_keysNodup_aux : ∀ (l : List (Option Elem)),
    (∀ (i j : Nat) (e e2 : Elem), l[i]? = some (some e) → l[j]? = some (some e2) → e.k = e2.k → i = j) →
    ((l.filterMap id).map (·.k)).Nodup := by
  intro l
  induction l with
  | nil => intro _; simp
  | cons a l ih =>
    intro h
    have ih := ih (fun i j e e2 h1 h2 hk => by
      have := h (i + 1) (j + 1) e e2 (by simpa using h1) (by simpa using h2) hk
      omega)
    cases a with
    | none => simpa using ih
    | some e =>
      simp only [List.filterMap_cons, id, List.map_cons, List.nodup_cons]
      refine ⟨?_, ih⟩
      intro hm
      obtain ⟨x, hx, hk⟩ := List.mem_map.mp hm
      obtain ⟨a, ha, hae⟩ := List.mem_filterMap.mp hx
      have hae' : a = some x := hae
      subst hae'
      obtain ⟨j, hj⟩ := List.mem_iff_getElem?.mp ha
      have := h 0 (j + 1) e x (by simp) (by simpa using hj) hk.symm
      omega

/-- The keys of the stored elements are pairwise distinct. -/
theorem elems_keysNodup {H : Nat → Nat} {t : Raw} (h : InvL cfg H t) : AL.keysNodup t.elems := by
  unfold AL.keysNodup Raw.elems
  apply rf_keysNodup_aux
  intro i j e e2 h1 h2 hk
  rw [Array.getElem?_toList] at h1 h2
  exact h.nodup i j e e2 (rf_join_some.mpr h1) (rf_join_some.mpr h2) hk

/-- `AL.find` on the abstraction is look-up of the bucket holding the key. -/
theorem elems_find {H : Nat → Nat} {t : Raw} (h : InvL cfg H t) {k : Nat} {e : Elem} :
    AL.find t.elems k = some e ↔ ∃ i : Nat, t.slots[i]?.join = some e ∧ e.k = k := by
  rw [AL.find_some_iff (elems_keysNodup h), mem_elems]
  constructor
  · rintro ⟨⟨i, hi⟩, hk⟩; exact ⟨i, hi, hk⟩
  · rintro ⟨i, hi, hk⟩; exact ⟨⟨i, hi⟩, hk⟩

theorem elems_find_none {t : Raw} {k : Nat} :
    AL.find t.elems k = none ↔ ∀ (i : Nat) (e : Elem), t.slots[i]?.join = some e → e.k ≠ k := by
  rw [AL.find_none_iff]
  constructor
  · intro h i e he; exact h e (mem_elems.mpr ⟨i, he⟩)
  · intro h e he
    obtain ⟨i, hi⟩ := mem_elems.mp he
    exact h i e hi

/-- `items` is the number of stored elements. -/
theorem elems_length (hc : CfgOk cfg) {t : Raw} (h : Inv cfg t) : t.elems.length = t.items := by
  rw [elems_eq_fullList h, ← fullList_length hc h]
  have : ∀ l : List Nat, (∀ i ∈ l, ∃ e, t.slots[i]?.join = some e) →
      (l.filterMap fun i => t.slots[i]?.join).length = l.length := by
    intro l
    induction l with
    | nil => intro _; rfl
    | cons a l ih =>
      intro hl
      obtain ⟨e, he⟩ := hl a List.mem_cons_self
      simp only [List.filterMap_cons, he, List.length_cons]
      rw [ih (fun i hi => hl i (List.mem_cons_of_mem _ hi))]
  apply this
  intro i hi
  obtain ⟨hib, hif⟩ := (mem_fullList _ _).1 hi
  have hall := h.allocated (h.alloc_of_full hc hib hif)
  obtain ⟨e, he⟩ := (slot_of_live h (by rw [hall.2.2.2.1]; exact hib)).2 hif
  exact ⟨e, by rw [he]; rfl⟩

theorem elems_nil_of_items (hc : CfgOk cfg) {t : Raw} (h : Inv cfg t) (h0 : t.items = 0) :
    t.elems = [] := by
  apply List.eq_nil_of_length_eq_zero
  rw [elems_length hc h, h0]

/-- An empty well-formed table satisfies the hash-dependent invariant for every `H`. -/
theorem invL_of_empty (H : Nat → Nat) {t : Raw} (h : Inv cfg t) (he : t.elems = []) :
    InvL cfg H t := by
  have hno : ∀ (i : Nat) (e : Elem), t.slots[i]?.join = some e → False := by
    intro i e hi
    have : e ∈ t.elems := mem_elems.mpr ⟨i, hi⟩
    rw [he] at this; cases this
  exact ⟨h, fun i e hi => (hno i e hi).elim, fun i e hi => (hno i e hi).elim,
    fun i j e e2 hi => (hno i e hi).elim⟩

theorem RI_new (hc : CfgOk cfg) (H : Nat → Nat) : RI cfg H (Raw.new cfg.W) :=
  ⟨invL_of_empty H (Raw.new_inv hc) rfl, Raw.new_layoutOk cfg⟩

/-! ## 3. look-ups -/

@[simp] theorem rf_bind_ok {α β} (a : α) (f : α → Res β) : (Res.ok a >>= f) = f a := rfl
@[simp] theorem rf_pure {α} (a : α) : (pure a : Res α) = .ok a := rfl
@[simp] theorem rf_bind_panic {α β} (c : String) (w : World) (f : α → Res β) :
    ((Res.panic c w : Res α) >>= f) = .panic c w := rfl

theorem rf_makeHash_lawful {env : Env} {H : Nat → Nat} (hl : Lawful env H) (k : Nat) (w : World) :
    makeHash env k w = .ok (H k, { w with hc := w.hc + 1 }) := by
  simp only [makeHash, World.hashCall, hl.hash]

/-- `get_inner`: the bucket holding `k`, if any. -/
theorem rf_getInner_spec (hc : CfgOk cfg) {env : Env} {H : Nat → Nat} (hl : Lawful env H) (k : Nat)
    (w : World) (h : InvL cfg H w.t) :
    ∃ r w1, Map.getInner cfg env k w = .ok (r, w1) ∧ w1.t = w.t ∧ w1.log = w.log ∧
      (∀ idx, r = some idx ↔ ∃ e, w.t.slots[idx]?.join = some e ∧ e.k = k) ∧
      (r = none ↔ ∀ (i : Nat) (e : Elem), w.t.slots[i]?.join = some e → e.k ≠ k) := by
  by_cases h0 : w.t.items = 0
  · have hnil := elems_nil_of_items hc h.toInv h0
    have hno : ∀ (i : Nat) (e : Elem), w.t.slots[i]?.join = some e → False := by
      intro i e hi
      have : e ∈ w.t.elems := mem_elems.mpr ⟨i, hi⟩
      rw [hnil] at this; cases this
    refine ⟨none, w, by simp only [Map.getInner, h0, if_true], rfl, rfl, fun idx => ⟨?_, ?_⟩,
      ⟨fun _ i e hi => (hno i e hi).elim, fun _ => rfl⟩⟩
    · intro hi; cases hi
    · rintro ⟨e, he, _⟩; exact (hno idx e he).elim
  · obtain ⟨r, w', hf, ht, hlog, h1, h2⟩ :=
      find_spec hc hc.probe env H hl k { w with hc := w.hc + 1 } h
    refine ⟨r, w', ?_, ht, hlog, h1, h2⟩
    simp only [Map.getInner, h0, if_false, rf_makeHash_lawful hl, rf_bind_ok]
    exact hf

/-- **`get` / `get_key_value` / `contains_key`.** -/
theorem get_refines (hc : CfgOk cfg) {env : Env} {H : Nat → Nat} (hl : Lawful env H) (k : Nat)
    (w : World) (h : RI cfg H w.t) :
    ∃ w', Map.get cfg env k w = .ok (AL.find w.t.elems k, w') ∧ w'.t = w.t ∧ w'.log = w.log := by
  obtain ⟨r, w1, hg, ht, hlog, h1, h2⟩ := rf_getInner_spec hc hl k w h.1
  cases r with
  | none =>
    have : AL.find w.t.elems k = none := elems_find_none.mpr (h2.mp rfl)
    refine ⟨w1, ?_, ht, hlog⟩
    rw [this]
    simp only [Map.get, hg, rf_bind_ok, rf_pure]
  | some idx =>
    obtain ⟨e, he, hk⟩ := (h1 idx).mp rfl
    have : AL.find w.t.elems k = some e := (elems_find h.1).mpr ⟨idx, he, hk⟩
    refine ⟨w1, ?_, ht, hlog⟩
    rw [this]
    simp only [Map.get, hg, rf_bind_ok, ht, slotGet_ok he, liftE, rf_pure]

/-! ## 4. removal -/

/-- Taking the element with key `k` out of a key-distinct list is `erase`. -/
theorem rf_erase_of_perm {l l' : AL} {e : Elem} (hp : List.Perm (e :: l') l) (hn : l.keysNodup) :
    List.Perm l' (AL.erase l e.k) := by
  have hn' : AL.keysNodup (e :: l') := AL.keysNodup_perm hp.symm hn
  have h1 : AL.erase (e :: l') e.k = l' := by
    unfold AL.keysNodup at hn'
    rw [List.map_cons, List.nodup_cons] at hn'
    unfold AL.erase
    rw [List.filter_cons]
    simp only [bne_self_eq_false, Bool.false_eq_true, if_false]
    rw [List.filter_eq_self]
    intro x hx
    simp only [bne_iff_ne, ne_eq]
    intro hk
    exact hn'.1 (hk ▸ List.mem_map_of_mem hx)
  have := AL.perm_erase hp e.k
  rw [h1] at this
  exact this

theorem rf_erase_absent {l : AL} {k : Nat} (h : AL.find l k = none) : AL.erase l k = l := by
  unfold AL.erase
  rw [List.filter_eq_self]
  intro x hx
  simp only [bne_iff_ne, ne_eq]
  exact AL.find_none_iff.mp h x hx

/-- Removing the element in a live bucket `idx`: invariant, layout, abstract contents. -/
theorem rf_removeAt_RI (hc : CfgOk cfg) {H : Nat → Nat} {t : Raw} (h : RI cfg H t) {idx : Nat} {e : Elem}
    (he : t.slots[idx]?.join = some e) :
    ∃ t', removeAt cfg t idx = .ok (e, t') ∧ RI cfg H t' ∧ List.Perm (e :: t'.elems) t.elems ∧
      t'.slots = t.slots.setIfInBounds idx none ∧ t'.mask = t.mask ∧ t'.items + 1 = t.items := by
  have hi : idx < t.buckets := h.1.toInv.slot_lt he
  have hf : isFull (t.ctrlAt idx) = true :=
    (h.1.toInv.live idx (slot_some_lt he)).mp (by rw [he]; rfl)
  obtain ⟨e', t', hr, he', hI, hs, hm, hit⟩ := removeAt_invL hc H h.1 hi hf
  obtain ⟨e2, t2, hr2, _, _, _, hal, _⟩ := removeAt_inv hc h.1.toInv hi hf
  rw [hr] at hr2
  cases hr2
  rw [he] at he'
  cases he'
  refine ⟨t', hr, ⟨hI, h.2.of_eq hm hal⟩, elems_take_perm (rf_join_some.mp he) hs, hs, hm, hit⟩

/-- **`remove_entry`.** -/
theorem removeEntry_refines (hc : CfgOk cfg) {env : Env} {H : Nat → Nat} (hl : Lawful env H)
    (k : Nat) (w : World) (h : RI cfg H w.t) :
    ∃ w', Map.removeEntry cfg env k w = .ok (AL.find w.t.elems k, w') ∧
      List.Perm w'.t.elems (AL.erase w.t.elems k) ∧ RI cfg H w'.t ∧ w'.log = w.log ∧
      w'.dc = w.dc := by
  obtain ⟨r, w2, hf, ht, hlog, h1, h2⟩ :=
    find_spec hc hc.probe env H hl k { w with hc := w.hc + 1 } h.1
  have hdc : w2.dc = w.dc := by
    rcases find_run hc hc.probe env (H k) k { w with hc := w.hc + 1 } h.1.toInv with
      ⟨idx, w', k1, k2, _⟩ | ⟨w', k1, k2, _⟩ | ⟨w', k1, _⟩
    · rw [hf] at k1; cases k1; obtain ⟨n, rfl⟩ := k2; rfl
    · rw [hf] at k1; cases k1; obtain ⟨n, rfl⟩ := k2; rfl
    · rw [hf] at k1; cases k1
  cases r with
  | none =>
    have hfn : AL.find w.t.elems k = none := elems_find_none.mpr (h2.mp rfl)
    refine ⟨w2, ?_, ?_, by rw [ht]; exact h, hlog, hdc⟩
    · rw [hfn]
      simp only [Map.removeEntry, rf_makeHash_lawful hl, rf_bind_ok, hf, rf_pure]
    · rw [rf_erase_absent hfn, ht]
  | some idx =>
    obtain ⟨e, he, hk⟩ := (h1 idx).mp rfl
    have hfs : AL.find w.t.elems k = some e := (elems_find h.1).mpr ⟨idx, he, hk⟩
    obtain ⟨t', hr, hRI, hp, _⟩ := rf_removeAt_RI hc h he
    refine ⟨{ w2 with t := t' }, ?_, ?_, hRI, hlog, hdc⟩
    · rw [hfs]
      simp only [Map.removeEntry, rf_makeHash_lawful hl, rf_bind_ok, hf, ht, hr, liftE, rf_pure]
    · subst hk
      exact rf_erase_of_perm hp (elems_keysNodup h.1)

/-- **`remove`**: the value is returned, the stored key object is dropped. -/
theorem remove_refines (hc : CfgOk cfg) {env : Env} {H : Nat → Nat} (hl : Lawful env H)
    (hnd : ∀ c e, env.dropPanics c e = false) (k : Nat) (w : World) (h : RI cfg H w.t) :
    ∃ w', Map.remove cfg env k w =
        .ok ((AL.find w.t.elems k).map fun e => (e.vid, e.v), w') ∧
      List.Perm w'.t.elems (AL.erase w.t.elems k) ∧ RI cfg H w'.t ∧
      w'.log = (match AL.find w.t.elems k with
                | some e => if cfg.needsDrop then [Ev.dropK e.kid] else []
                | none => []) ++ w.log := by
  obtain ⟨w1, hr, hp, hRI, hlog, _⟩ := removeEntry_refines hc hl k w h
  cases hfk : AL.find w.t.elems k with
  | none =>
    rw [hfk] at hr
    refine ⟨w1, ?_, hp, hRI, by simpa using hlog⟩
    simp only [Map.remove, hr, rf_bind_ok, rf_pure, Option.map_none]
  | some e =>
    rw [hfk] at hr
    by_cases hd : cfg.needsDrop = true
    · refine ⟨{ w1 with dc := w1.dc + 1, log := .dropK e.kid :: w1.log }, ?_, hp, hRI, ?_⟩
      · simp only [Map.remove, hr, rf_bind_ok, rf_pure, Option.map_some, dropKeyR, dropKey, hd,
          if_true, hnd, Bool.false_eq_true, if_false]
      · simp only [hd, if_true, hlog, List.cons_append, List.nil_append]
    · refine ⟨w1, ?_, hp, hRI, ?_⟩
      · simp only [Map.remove, hr, rf_bind_ok, rf_pure, Option.map_some, dropKeyR, dropKey, hd,
          Bool.false_eq_true, if_false]
      · simp only [hd, Bool.false_eq_true, if_false, hlog, List.nil_append]

/-! ## 5. growth under a lawful hasher -/

/-- The destructor events of a log. -/
def dropsOf (l : List Ev) : List Ev :=
  l.filter fun ev => match ev with
    | .dropK _ => true
    | .dropV _ => true
    | _ => false

theorem rf_resizeLoop_no_panic {env : Env} {H : Nat → Nat} (hl : Lawful env H) (old : Raw) :
    ∀ (idxs : List Nat) (new : Raw) (w : World) (c : String) (w' : World),
      resizeLoop cfg env old idxs new w ≠ .panic c w' := by
  intro idxs
  induction idxs with
  | nil => intro new w c w' h; simp [resizeLoop] at h
  | cons i rest ih =>
    intro new w c w' h
    rw [resizeLoop] at h
    simp only [World.hashCall, hl.hash] at h
    repeat' split at h
    all_goals first
      | cases h
      | exact ih _ _ _ _ h

/-- Under a lawful hasher `resize_inner` can only panic in the allocation of the new table. -/
theorem rf_resizeInner_panic_src {env : Env} {H : Nat → Nat} (hl : Lawful env H)
    {capacity : Nat} {fb : Fallibility} {w : World} {c : String} {w' : World}
    (h : resizeInner cfg env capacity fb w = .panic c w') :
    fallibleWithCapacity cfg env capacity fb w = .panic c w' := by
  unfold resizeInner at h
  split at h
  · rename_i c0 w0 hr
    cases h
    exact hr
  · cases h
  · cases h
  · cases h
  · rename_i new w1 hr
    simp only at h
    split at h
    · cases h
    · split at h
      · rename_i c1 w1' hrl
        exact absurd hrl (rf_resizeLoop_no_panic hl _ _ _ _ _ _)
      · cases h
      · cases h
      · split at h
        · cases h
        · split at h
          · cases h
          · have hfree : ∀ m w0, freeBuckets cfg m w0 ≠ .panic c w' := by
              intro m w0 hfb
              simp only [freeBuckets] at hfb
              split at hfb <;> cases hfb
            split at h
            all_goals first
              | (cases h; done)
              | (rename_i hfb; cases h; exact absurd hfb (hfree _ _))

theorem rf_resizeInner_panic (hc : CfgOk cfg) {env : Env} {H : Nat → Nat} (hl : Lawful env H)
    {capacity : Nat} {fb : Fallibility} {w : World} {c : String} {w' : World}
    (h : resizeInner cfg env capacity fb w = .panic c w') :
    c = "capacity" ∧ w' = w ∧ fb = .infallible := by
  have hfw := fallibleWithCapacity_spec hc env capacity fb w
  rw [rf_resizeInner_panic_src hl h] at hfw
  exact ⟨hfw.1, hfw.2.1, hfw.2.2.1⟩

theorem rf_alignDown_mono {x y : Nat} (a : Nat) (h : x ≤ y) : alignDown x a ≤ alignDown y a := by
  unfold alignDown
  have h1 := Nat.div_add_mod x a
  have h2 := Nat.div_add_mod y a
  have h3 : a * (x / a) ≤ a * (y / a) := Nat.mul_le_mul_left a (Nat.div_le_div_right h)
  omega

/-- A smaller block has a computable layout if a larger one has. -/
theorem rf_layout_mono {bits W size ca b b' : Nat} (hle : b' ≤ b)
    (h : (calculateLayoutFor bits W size ca b).isSome = true) :
    (calculateLayoutFor bits W size ca b').isSome = true := by
  cases hb' : calculateLayoutFor bits W size ca b' with
  | some l => rfl
  | none =>
    exfalso
    obtain ⟨l, hl⟩ := Option.isSome_iff_exists.mp h
    obtain ⟨h1, h2, h3, _, h5, h6, h7⟩ := calculateLayoutFor_eq_some _ _ _ _ _ _ hl
    have hmul : size * b' ≤ size * b := Nat.mul_le_mul_left size hle
    have hal := rf_alignDown_mono ca (show size * b' + (ca - 1) ≤ size * b + (ca - 1) by omega)
    rw [h3] at h5
    rcases (calculateLayoutFor_none_iff _ _ _ _ _).mp hb' with k | k | k | k <;> omega

/-- With a never-refusing allocator, `fallible_with_capacity` cannot panic when the layout of the
    requested block is computable. -/
theorem rf_fwc_no_panic {env : Env} (halloc : ∀ j, env.allocOk j = true) {cap mb : Nat}
    (hcb : capacityToBuckets cfg.bits cfg.W cfg.size cap = some mb)
    (hlay : (calculateLayoutFor cfg.bits cfg.W cfg.size (ctrlAlignOf cfg) mb).isSome = true)
    (fb : Fallibility) (w : World) (c : String) (w' : World) :
    fallibleWithCapacity cfg env cap fb w ≠ .panic c w' := by
  intro h
  unfold fallibleWithCapacity at h
  split at h
  · cases h
  · rw [hcb] at h
    simp only [newTable] at h
    obtain ⟨l, hl⟩ := Option.isSome_iff_exists.mp hlay
    rw [hl] at h
    simp only [doAlloc, halloc, if_true] at h
    cases h

theorem rf_rehashInner_no_panic {env : Env} {H : Nat → Nat} (hl : Lawful env H) (i : Nat) :
    ∀ (fuel : Nat) (w : World) (c : String) (w' : World),
      rehashInner cfg env i fuel w ≠ .panic c w' := by
  intro fuel
  induction fuel with
  | zero => intro w c w' h; simp [rehashInner] at h
  | succ n ih =>
    intro w c w' h
    rw [rehashInner] at h
    simp only [World.hashCall, hl.hash] at h
    repeat' split at h
    all_goals first
      | cases h
      | exact ih _ _ _ h

theorem rf_rehashOuter_no_panic {env : Env} {H : Nat → Nat} (hl : Lawful env H) :
    ∀ (fuel i : Nat) (w : World) (c : String) (w' : World),
      rehashOuter cfg env fuel i w ≠ .panic c w' := by
  intro fuel
  induction fuel with
  | zero => intro i w c w' h; simp [rehashOuter] at h
  | succ n ih =>
    intro i w c w' h
    rw [rehashOuter] at h
    split at h
    · cases h
    · split at h
      · split at h
        · exact ih _ _ _ _ h
        · exact rf_rehashInner_no_panic hl _ _ _ _ _ h
      · exact ih _ _ _ _ h

theorem rf_rehashInPlace_no_panic {env : Env} {H : Nat → Nat} (hl : Lawful env H) (w : World)
    (c : String) (w' : World) : rehashInPlace cfg env w ≠ .panic c w' := by
  intro h
  unfold rehashInPlace at h
  split at h
  · cases h
  · split at h
    · simp only at h
      split at h <;> cases h
    · exact rf_rehashOuter_no_panic hl _ _ _ _ _ h

theorem rf_checkedAdd_some {bits a b c : Nat} (h : checkedAdd bits a b = some c) : c = a + b := by
  unfold checkedAdd at h
  split at h
  · cases h; rfl
  · cases h

theorem rf_dropsOf_resize_log (a b : List Ev) (l : List Ev)
    (ha : ∀ ev ∈ a, ∃ s al, ev = .alloc s al ∨ ev = .free s al)
    (hb : ∀ ev ∈ b, ∃ s al, ev = .alloc s al ∨ ev = .free s al) :
    dropsOf (a ++ b ++ l) = dropsOf l := by
  unfold dropsOf
  rw [List.filter_append, List.filter_append]
  have h1 : ∀ (x : List Ev), (∀ ev ∈ x, ∃ s al, ev = .alloc s al ∨ ev = .free s al) →
      x.filter (fun ev => match ev with | .dropK _ => true | .dropV _ => true | _ => false) = [] := by
    intro x hx
    rw [List.filter_eq_nil_iff]
    intro ev hev
    obtain ⟨s, al, h | h⟩ := hx ev hev <;> subst h <;> simp
  rw [h1 a ha, h1 b hb]
  rfl

/-- `reserve_rehash_inner` under a lawful hasher and a never-refusing allocator. -/
theorem rf_reserveRehash_spec (hc : CfgOk cfg) (hgrow : GrowthLawful cfg) {env : Env} {H : Nat → Nat}
    (hl : Lawful env H) (halloc : ∀ j, env.allocOk j = true) (n : Nat) (fb : Fallibility)
    (w : World) (h : RI cfg H w.t) (hn : w.t.gl < n) :
    match reserveRehash cfg env n fb w with
    | .ok (.ok (), w') =>
      RI cfg H w'.t ∧ List.Perm w'.t.elems w.t.elems ∧ n ≤ w'.t.gl ∧
        dropsOf w'.log = dropsOf w.log
    | .ok (.error e, w') => fb = .fallible ∧ e = .capacityOverflow ∧ w' = w
    | .panic c w' => fb = .infallible ∧ c = "capacity" ∧ w' = w
    | .abort => False
    | .fault _ => False := by
  unfold reserveRehash
  cases hca : checkedAdd cfg.bits w.t.items n with
  | none => cases fb <;> simp [capacityOverflow]
  | some newItems =>
    have hni := rf_checkedAdd_some hca
    simp only
    by_cases hle : newItems ≤ bucketMaskToCapacity w.t.mask / 2
    · rw [if_pos hle]
      have ha : w.t.alloc = true := by
        rcases h.1.toInv.geom with hs | hal
        · exfalso
          have hm := hs.2.1
          rw [hm] at hle
          simp [bucketMaskToCapacity] at hle
          omega
        · exact hal.1
      have hsp := rehashInPlace_spec hc hc.probe env w h.1.toInv ha
      cases hr : rehashInPlace cfg env w with
      | ok w' =>
        rw [hr] at hsp
        obtain ⟨hI, hm, hit, _, hcap, hperm, hlog⟩ := hsp
        simp only
        refine ⟨⟨hgrow.rehash env H hl w w' h.1 ha hr, ?_⟩, hperm, by omega, by rw [hlog]⟩
        intro _
        have := h.2 ha
        simpa only [Raw.buckets, hm] using this
      | panic c w' => exact absurd hr (rf_rehashInPlace_no_panic hl _ _ _)
      | abort => rw [hr] at hsp; exact hsp.elim
      | fault f => rw [hr] at hsp; exact hsp.elim
    · rw [if_neg hle]
      have hcap0 : w.t.items ≤ max newItems (bucketMaskToCapacity w.t.mask + 1) := by omega
      have hsp := resizeInner_spec_partial hc hc.probe env
        (max newItems (bucketMaskToCapacity w.t.mask + 1)) fb w h.1.toInv h.2 hcap0
      cases hr : resizeInner cfg env (max newItems (bucketMaskToCapacity w.t.mask + 1)) fb w with
      | ok pr =>
        obtain ⟨r, w'⟩ := pr
        cases r with
        | ok u =>
          cases u
          rw [hr] at hsp
          obtain ⟨hI, hlo, hit, _, hcapge, _, hperm, _, hlog, _⟩ := hsp
          simp only
          refine ⟨⟨hgrow.resize env H hl _ fb w w' h.1 h.2 hcap0 hr, hlo⟩, hperm, ?_, ?_⟩
          · rcases hcapge with h0 | hge <;> omega
          · rw [hlog]
            apply rf_dropsOf_resize_log
            · intro ev hev
              split at hev
              · simp only [List.mem_singleton] at hev
                exact ⟨_, _, Or.inr hev⟩
              · cases hev
            · intro ev hev
              split at hev
              · cases hev
              · simp only [List.mem_singleton] at hev
                exact ⟨_, _, Or.inl hev⟩
        | error e =>
          rw [hr] at hsp
          obtain ⟨hfb, _, _, _, hor⟩ := hsp
          rcases hor with ⟨he, hw⟩ | ⟨b, _, _, hao, _⟩
          · exact ⟨hfb, he, hw⟩
          · rw [halloc] at hao; cases hao
      | panic c w' =>
        obtain ⟨h1, h2, h3⟩ := rf_resizeInner_panic hc hl hr
        exact ⟨h3, h1, h2⟩
      | abort =>
        rw [hr] at hsp
        have := hsp.2
        rw [halloc] at this; cases this
      | fault f => rw [hr] at hsp; exact hsp.elim

/-- **`reserve`** (`RawTable::reserve`): either it succeeds — invariant kept, same elements, room for
    `n` more, no destructor ran — or it reports capacity overflow with the world untouched. -/
theorem reserve_RI (hc : CfgOk cfg) (hgrow : GrowthLawful cfg) {env : Env} {H : Nat → Nat}
    (hl : Lawful env H) (halloc : ∀ j, env.allocOk j = true) (n : Nat) (w : World)
    (h : RI cfg H w.t) :
    (∃ w', Hb.reserve cfg env n w = .ok w' ∧ RI cfg H w'.t ∧ List.Perm w'.t.elems w.t.elems ∧
      n ≤ w'.t.gl ∧ dropsOf w'.log = dropsOf w.log) ∨
    Hb.reserve cfg env n w = .panic "capacity" w := by
  unfold Hb.reserve
  by_cases hn : n > w.t.gl
  · rw [if_pos hn]
    have hsp := rf_reserveRehash_spec hc hgrow hl halloc n .infallible w h hn
    cases hr : reserveRehash cfg env n .infallible w with
    | ok pr =>
      obtain ⟨r, w'⟩ := pr
      cases r with
      | ok u =>
        cases u
        rw [hr] at hsp
        exact .inl ⟨w', rfl, hsp⟩
      | error e =>
        rw [hr] at hsp
        exact absurd hsp.1 (by decide)
    | panic c w' =>
      rw [hr] at hsp
      obtain ⟨_, h1, h2⟩ := hsp
      subst h1 h2
      exact .inr rfl
    | abort => rw [hr] at hsp; exact hsp.elim
    | fault f => rw [hr] at hsp; exact hsp.elim
  · rw [if_neg hn]
    exact .inl ⟨w, rfl, h, List.Perm.refl _, by omega, rfl⟩

/-- **`try_reserve`** (`RawTable::try_reserve`). -/
theorem tryReserve_RI (hc : CfgOk cfg) (hgrow : GrowthLawful cfg) {env : Env} {H : Nat → Nat}
    (hl : Lawful env H) (halloc : ∀ j, env.allocOk j = true) (n : Nat) (w : World)
    (h : RI cfg H w.t) :
    (∃ w', Hb.tryReserve cfg env n w = .ok (.ok (), w') ∧ RI cfg H w'.t ∧
      List.Perm w'.t.elems w.t.elems ∧ n ≤ w'.t.gl ∧ dropsOf w'.log = dropsOf w.log) ∨
    Hb.tryReserve cfg env n w = .ok (.error .capacityOverflow, w) := by
  unfold Hb.tryReserve
  by_cases hn : n > w.t.gl
  · rw [if_pos hn]
    have hsp := rf_reserveRehash_spec hc hgrow hl halloc n .fallible w h hn
    cases hr : reserveRehash cfg env n .fallible w with
    | ok pr =>
      obtain ⟨r, w'⟩ := pr
      cases r with
      | ok u =>
        cases u
        rw [hr] at hsp
        exact .inl ⟨w', rfl, hsp⟩
      | error e =>
        rw [hr] at hsp
        obtain ⟨_, h1, h2⟩ := hsp
        subst h1 h2
        exact .inr rfl
    | panic c w' =>
      rw [hr] at hsp
      exact absurd hsp.1 (by decide)
    | abort => rw [hr] at hsp; exact hsp.elim
    | fault f => rw [hr] at hsp; exact hsp.elim
  · rw [if_neg hn]
    exact .inl ⟨w, rfl, h, List.Perm.refl _, by omega, rfl⟩

/-! ## 6. in-place updates of one element -/

/-- Overwriting the element in a live bucket. -/
theorem rf_update_perm {t : Raw} {idx : Nat} {e : Elem} (e' : Elem)
    (he : t.slots[idx]?.join = some e) :
    ∃ l0, List.Perm (e :: l0) t.elems ∧
      List.Perm (Raw.elems { t with slots := t.slots.setIfInBounds idx (some e') }) (e' :: l0) := by
  have hlt : idx < t.slots.size := slot_some_lt he
  let t0 : Raw := { t with slots := t.slots.setIfInBounds idx none }
  refine ⟨t0.elems, elems_take_perm (rf_join_some.mp he) rfl, ?_⟩
  have h0 : t0.slots[idx]? = some none := by
    show (t.slots.setIfInBounds idx none)[idx]? = some none
    rw [Array.getElem?_setIfInBounds_self_of_lt hlt]
  have := elems_put e' h0
  have hss : t0.slots.setIfInBounds idx (some e') = t.slots.setIfInBounds idx (some e') := by
    show (t.slots.setIfInBounds idx none).setIfInBounds idx (some e') = _
    rw [Array.setIfInBounds_setIfInBounds]
  rw [hss] at this
  exact this

/-- Mapping a key-local update over a key-distinct list touches only the element with that key. -/
theorem rf_map_key_perm {l l0 : AL} {e : Elem} (g : Elem → Elem) (hp : List.Perm (e :: l0) l)
    (hn : l.keysNodup) (hg : ∀ x : Elem, x.k ≠ e.k → g x = x) :
    List.Perm (l.map g) (g e :: l0) := by
  have hn' : AL.keysNodup (e :: l0) := AL.keysNodup_perm hp.symm hn
  unfold AL.keysNodup at hn'
  rw [List.map_cons, List.nodup_cons] at hn'
  have h1 : l0.map g = l0 := by
    conv => rhs; rw [← List.map_id l0]
    apply List.map_congr_left
    intro x hx
    simp only [id]
    apply hg
    intro hk
    exact hn'.1 (hk ▸ List.mem_map_of_mem hx)
  have := (hp.map g).symm
  rw [List.map_cons, h1] at this
  exact this

/-- **`get_mut(k).map(|v| *v = nv)`.** -/
theorem getMut_refines (hc : CfgOk cfg) {env : Env} {H : Nat → Nat} (hl : Lawful env H)
    (k nv : Nat) (w : World) (h : RI cfg H w.t) :
    ∃ w', Map.getMut cfg env k nv w =
        .ok ((AL.find w.t.elems k).map fun e => { e with v := nv }, w') ∧
      List.Perm w'.t.elems (AL.setPayload w.t.elems k nv) ∧ RI cfg H w'.t ∧ w'.log = w.log := by
  obtain ⟨r, w1, hg, ht, hlog, h1, h2⟩ := rf_getInner_spec hc hl k w h.1
  cases r with
  | none =>
    have hfn : AL.find w.t.elems k = none := elems_find_none.mpr (h2.mp rfl)
    refine ⟨w1, ?_, ?_, by rw [ht]; exact h, hlog⟩
    · rw [hfn]
      simp only [Map.getMut, hg, rf_bind_ok, rf_pure, Option.map_none]
    · rw [ht]
      have : AL.setPayload w.t.elems k nv = w.t.elems := by
        unfold AL.setPayload
        conv => rhs; rw [← List.map_id w.t.elems]
        apply List.map_congr_left
        intro x hx
        have := AL.find_none_iff.mp hfn x hx
        simp [this]
      rw [this]
  | some idx =>
    obtain ⟨e, he, hk⟩ := (h1 idx).mp rfl
    have hfs : AL.find w.t.elems k = some e := (elems_find h.1).mpr ⟨idx, he, hk⟩
    obtain ⟨l0, hp1, hp2⟩ := rf_update_perm { e with v := nv } he
    refine ⟨{ w1 with t := { w1.t with slots := w1.t.slots.setIfInBounds idx (some { e with v := nv }) } },
      ?_, ?_, ⟨?_, ?_⟩, hlog⟩
    · rw [hfs]
      simp only [Map.getMut, hg, rf_bind_ok, ht, slotGet_ok he, liftE, rf_pure, Option.map_some]
    · show List.Perm (Raw.elems { w1.t with slots := _ }) _
      rw [ht]
      refine hp2.trans ?_
      subst hk
      have := rf_map_key_perm (fun x => if x.k == e.k then { x with v := nv } else x) hp1
        (elems_keysNodup h.1) (fun x hx => by simp [hx])
      simp only [beq_self_eq_true, if_true] at this
      exact this.symm
    · show InvL cfg H { w1.t with slots := _ }
      rw [ht]
      exact value_update_invL h.1 he e.vid nv
    · exact Raw.LayoutOk.of_eq (t := w1.t) (by rw [ht]; exact h.2) rfl rfl

/-! ## 7. `insert` -/

theorem dropsOf_dropK (kid : Nat) (l : List Ev) : dropsOf (.dropK kid :: l) = .dropK kid :: dropsOf l := by
  simp [dropsOf]

theorem dropsOf_dropV (vid : Nat) (l : List Ev) : dropsOf (.dropV vid :: l) = .dropV vid :: dropsOf l := by
  simp [dropsOf]

theorem rf_dropKeyR_ok {env : Env} (hnd : ∀ c e, env.dropPanics c e = false) (kid : Nat) (w : World) :
    ∃ w', dropKeyR cfg env kid w = .ok w' ∧ w'.t = w.t ∧
      w'.log = (if cfg.needsDrop then [Ev.dropK kid] else []) ++ w.log := by
  by_cases hd : cfg.needsDrop = true
  · exact ⟨{ w with dc := w.dc + 1, log := .dropK kid :: w.log },
      by simp only [dropKeyR, dropKey, hd, if_true, hnd, Bool.false_eq_true, if_false], rfl,
      by simp only [hd, if_true, List.cons_append, List.nil_append]⟩
  · exact ⟨w, by simp only [dropKeyR, dropKey, hd, Bool.false_eq_true, if_false], rfl,
      by simp only [hd, Bool.false_eq_true, if_false, List.nil_append]⟩

/-- `find_or_find_insert_slot` = `reserve(1)`, then the search on the (possibly regrown) table. -/
theorem fofis_refines (hc : CfgOk cfg) (hgrow : GrowthLawful cfg) {env : Env} {H : Nat → Nat}
    (hl : Lawful env H) (halloc : ∀ j, env.allocOk j = true) (q : Nat) (w1 : World)
    (h : RI cfg H w1.t) :
    (∃ (r : Except Nat Nat) (w2 w3 : World),
      findOrFindInsertSlot cfg env (H q) q w1 = .ok (r, w3) ∧ w3.t = w2.t ∧
      w3.log = w2.log ∧ RI cfg H w2.t ∧ List.Perm w2.t.elems w1.t.elems ∧ 1 ≤ w2.t.gl ∧
      dropsOf w2.log = dropsOf w1.log ∧
      (∀ idx, r = .ok idx ↔ ∃ e, w2.t.slots[idx]?.join = some e ∧ e.k = q) ∧
      (∀ slot, r = .error slot ↔ (findInsertSlot cfg w2.t (H q) = .ok slot ∧
        ∀ (i : Nat) (e : Elem), w2.t.slots[i]?.join = some e → e.k ≠ q))) ∨
    findOrFindInsertSlot cfg env (H q) q w1 = .panic "capacity" w1 := by
  rcases reserve_RI hc hgrow hl halloc 1 w1 h with ⟨w2, hr, hRI, hp, hgl, hd⟩ | hr
  · obtain ⟨r, w3, hf, ht, hlog, _, h1, h2⟩ := fofis_spec hc hc.probe env H hl q w2 hRI.1
    refine .inl ⟨r, w2, w3, ?_, ht, hlog, hRI, hp, hgl, hd, h1, h2⟩
    simp only [findOrFindInsertSlot, hr]
    exact hf
  · right
    simp only [findOrFindInsertSlot, hr]

/-- **`HashMap::insert`.** A fresh key is added; for a present key the value is replaced, the
    ORIGINALLY stored key object is kept (`kid` unchanged) and the spare new key object is dropped.
    The only other outcome is the capacity-overflow panic of `reserve(1)`, which leaves the table
    untouched (the arguments are dropped by unwinding). -/
theorem insert_refines (hc : CfgOk cfg) (hgrow : GrowthLawful cfg) {env : Env} {H : Nat → Nat}
    (hl : Lawful env H) (halloc : ∀ j, env.allocOk j = true)
    (hnd : ∀ c e, env.dropPanics c e = false) (e : Elem) (w : World) (h : RI cfg H w.t) :
    (∃ r w', Map.insert cfg env e w = .ok (r, w') ∧ RI cfg H w'.t ∧
      match AL.find w.t.elems e.k with
      | none => r = none ∧ List.Perm w'.t.elems (e :: w.t.elems) ∧
          dropsOf w'.log = dropsOf w.log
      | some old => r = some (old.vid, old.v) ∧
          List.Perm w'.t.elems (AL.setVal w.t.elems e.k e.vid e.v) ∧
          dropsOf w'.log = (if cfg.needsDrop then [Ev.dropK e.kid] else []) ++ dropsOf w.log) ∨
    (∃ w', Map.insert cfg env e w = .panic "capacity" w' ∧ w'.t = w.t ∧
      w'.log = (if cfg.needsDrop then [Ev.dropV e.vid, Ev.dropK e.kid] else []) ++ w.log) := by
  have hkn := elems_keysNodup h.1
  rcases fofis_refines hc hgrow hl halloc e.k { w with hc := w.hc + 1 } h with
    ⟨r, w2, w3, hfo, ht, hlog, hRI, hp, hgl, hd, h1, h2⟩ | hfo
  · left
    have hp : List.Perm w2.t.elems w.t.elems := hp
    have hd : dropsOf w2.log = dropsOf w.log := hd
    have hfind : AL.find w.t.elems e.k = AL.find w2.t.elems e.k := AL.perm_find hp.symm hkn e.k
    cases r with
    | ok idx =>
      obtain ⟨old, hold, hk⟩ := (h1 idx).mp rfl
      have hfs : AL.find w2.t.elems e.k = some old := (elems_find hRI.1).mpr ⟨idx, hold, hk⟩
      have hold3 : w3.t.slots[idx]?.join = some old := by rw [ht]; exact hold
      obtain ⟨w4, hdk, ht4, hlog4⟩ := rf_dropKeyR_ok (cfg := cfg) hnd e.kid ({ w3 with t := { w3.t with slots := w3.t.slots.setIfInBounds idx (some { old with vid := e.vid, v := e.v }) } } : World)
      obtain ⟨l0, hp1, hp2⟩ := rf_update_perm { old with vid := e.vid, v := e.v } hold
      refine ⟨some (old.vid, old.v), w4, ?_, ?_, ?_⟩
      · simp only [Map.insert, rf_makeHash_lawful hl, rf_bind_ok, hfo, rf_pure, Res.onPanic]
        simp only [slotGet_ok hold3, hdk]
      · rw [ht4]
        show RI cfg H { w3.t with slots := _ }
        rw [ht]
        exact ⟨value_update_invL hRI.1 hold e.vid e.v, Raw.LayoutOk.of_eq hRI.2 rfl rfl⟩
      · rw [hfind, hfs]
        refine ⟨rfl, ?_, ?_⟩
        · rw [ht4]
          show List.Perm (Raw.elems { w3.t with slots := _ }) _
          rw [ht]
          refine hp2.trans ?_
          have := rf_map_key_perm
            (fun x => if x.k == old.k then { x with vid := e.vid, v := e.v } else x) hp1
            (elems_keysNodup hRI.1) (fun x hx => by simp [hx])
          simp only [beq_self_eq_true, if_true] at this
          rw [← hk]
          exact this.symm.trans (AL.perm_setVal hp _ _ _)
        · rw [hlog4]
          show dropsOf (_ ++ w3.log) = _
          rw [hlog]
          split
          · simp only [List.cons_append, List.nil_append, dropsOf_dropK, hd]
          · simp only [List.nil_append, hd]
    | error slot =>
      obtain ⟨hfis, hfresh⟩ := (h2 slot).mp rfl
      have hfn : AL.find w2.t.elems e.k = none := elems_find_none.mpr hfresh
      have ha : w2.t.alloc = true := by
        rcases hRI.1.toInv.geom with hs | hal
        · have := hs.2.2.2.2.2; omega
        · exact hal.1
      obtain ⟨slot', hfis', hlt, hsp⟩ := findInsertSlot_ok hc hc.probe hRI.1.toInv (H e.k)
      rw [hfis] at hfis'
      cases hfis'
      obtain ⟨t', hins, hI, hsl, hm, _⟩ := insertInSlot_invL hc hc.probe H hRI.1 ha e
        hfresh hfis (fun _ => by omega)
      obtain ⟨t2, hins2, _, _, hal2, _⟩ := insertInSlot_inv hc hRI.1.toInv ha hlt hsp
        (fun _ => by omega) e (H e.k)
      rw [hins] at hins2
      cases hins2
      have hssz : slot < w2.t.slots.size := by
        have := (hRI.1.toInv.allocated ha).2.2.2.1; omega
      have hnone : w2.t.slots[slot]? = some none :=
        (slot_of_live hRI.1.toInv hssz).1 (isFull_false_of_special hsp)
      refine ⟨none, { w3 with t := t' }, ?_, ⟨hI, hRI.2.of_eq hm (by rw [hal2, ha])⟩, ?_⟩
      · simp only [Map.insert, rf_makeHash_lawful hl, rf_bind_ok, hfo, rf_pure, Res.onPanic]
        rw [ht]
        simp only [hins]
      · rw [hfind, hfn]
        refine ⟨rfl, ?_, ?_⟩
        · show List.Perm t'.elems _
          have := elems_put e hnone
          unfold Raw.elems at this ⊢
          rw [hsl]
          exact this.trans (hp.cons e)
        · show dropsOf w3.log = _
          rw [hlog, hd]
  · right
    refine ⟨World.dropElemQuiet cfg { w with hc := w.hc + 1 } e, ?_, ?_, ?_⟩
    · simp only [Map.insert, rf_makeHash_lawful hl, rf_bind_ok, hfo, rf_bind_panic, Res.onPanic]
    · unfold World.dropElemQuiet; split <;> rfl
    · unfold World.dropElemQuiet; split <;> rfl

/-! ## 8. `clear`, `shrink_to` -/

theorem rf_dropElem_ok {env : Env} (hnd : ∀ c e, env.dropPanics c e = false) (e : Elem) (w : World) :
    ∃ w', dropElem cfg env e w = (false, w') ∧ w'.t = w.t ∧ w'.log = dropEvs cfg [e] ++ w.log := by
  by_cases hd : cfg.needsDrop = true
  · exact ⟨{ w with dc := w.dc + 1, log := .dropV e.vid :: .dropK e.kid :: w.log },
      by simp only [dropElem, hd, if_true, hnd], rfl, by simp [dropEvs, hd]⟩
  · exact ⟨w, by simp only [dropElem, hd, Bool.false_eq_true, if_false], rfl, by simp [dropEvs, hd]⟩

/-- `drop_elements` walk with non-panicking destructors: every listed bucket is emptied, the shape
    of the table is untouched, each element is dropped once, in walk order. -/
theorem rf_dropElementsLoop_spec {env : Env} (hnd : ∀ c e, env.dropPanics c e = false) :
    ∀ (idxs : List Nat) (w : World), idxs.Nodup →
      (∀ i ∈ idxs, ∃ e, w.t.slots[i]? = some (some e)) →
      ∃ w', dropElementsLoop cfg env idxs w = .ok (false, w') ∧ w'.t.mask = w.t.mask ∧
        w'.t.ctrl = w.t.ctrl ∧ w'.t.alloc = w.t.alloc ∧ w'.t.slots.size = w.t.slots.size ∧
        w'.log = dropEvs cfg (idxs.filterMap fun i => w.t.slots[i]?.join).reverse ++ w.log := by
  intro idxs
  induction idxs with
  | nil => intro w _ _; exact ⟨w, rfl, rfl, rfl, rfl, rfl, by simp [dropEvs_nil]⟩
  | cons i rest ih =>
    intro w hnd' hsl
    obtain ⟨e, he⟩ := hsl i List.mem_cons_self
    rw [List.nodup_cons] at hnd'
    have htake : slotTake w.t i = .ok (e, { w.t with slots := w.t.slots.setIfInBounds i none }) := by
      simp only [slotTake, he]
    obtain ⟨w1, hde, ht1, hlog1⟩ := rf_dropElem_ok (cfg := cfg) hnd e
      ({ w with t := { w.t with slots := w.t.slots.setIfInBounds i none } } : World)
    have hslots1 : ∀ j ∈ rest, w1.t.slots[j]? = w.t.slots[j]? := by
      intro j hj
      rw [ht1]
      show (w.t.slots.setIfInBounds i none)[j]? = _
      rw [Array.getElem?_setIfInBounds_ne]
      intro hij; subst hij; exact hnd'.1 hj
    obtain ⟨w', hrun, hm, hct, hal, hsz, hlog⟩ := ih w1 hnd'.2 (fun j hj => by
      rw [hslots1 j hj]; exact hsl j (List.mem_cons_of_mem _ hj))
    refine ⟨w', ?_, by rw [hm, ht1], by rw [hct, ht1], by rw [hal, ht1], ?_, ?_⟩
    · rw [dropElementsLoop]
      simp only [htake, hde, Bool.false_eq_true, if_false]
      exact hrun
    · rw [hsz, ht1]
      show (w.t.slots.setIfInBounds i none).size = _
      rw [Array.size_setIfInBounds]
    · rw [hlog, hlog1]
      have hfm : (rest.filterMap fun j => w1.t.slots[j]?.join) =
          rest.filterMap fun j => w.t.slots[j]?.join := by
        apply List.filterMap_congr
        intro j hj
        rw [hslots1 j hj]
      have hei : w.t.slots[i]?.join = some e := by rw [he]; rfl
      rw [hfm]
      simp only [List.filterMap_cons, hei, List.reverse_cons, dropEvs_append, List.append_assoc]

theorem rf_clearNoDrop_shape {t t1 : Raw} (hm : t1.mask = t.mask) (hct : t1.ctrl = t.ctrl)
    (hal : t1.alloc = t.alloc) (hsz : t1.slots.size = t.slots.size) :
    clearNoDrop { t1 with slots := Array.replicate t1.slots.size none } =
      clearNoDrop { t with slots := Array.replicate t.slots.size none } := by
  simp only [clearNoDrop, Raw.isEmptySingleton, hm, hct, hal, hsz]
  rfl

theorem rf_elems_replicate (t : Raw) :
    (clearNoDrop { t with slots := Array.replicate t.slots.size none }).elems = [] := by
  simp [Raw.elems, clearNoDrop]

theorem rf_clear_RI (hc : CfgOk cfg) {H : Nat → Nat} {t : Raw} (h : RI cfg H t) :
    RI cfg H (clearNoDrop { t with slots := Array.replicate t.slots.size none }) :=
  ⟨invL_of_empty H (clearNoDrop_inv hc h.1.toInv) (rf_elems_replicate t),
    Raw.LayoutOk.of_eq h.2 rfl rfl⟩

theorem rf_fullList_slots (hc : CfgOk cfg) {t : Raw} (h : Inv cfg t) :
    ∀ i ∈ t.fullList, ∃ e, t.slots[i]? = some (some e) := by
  intro i hi
  obtain ⟨hib, hif⟩ := (mem_fullList _ _).1 hi
  have hall := h.allocated (h.alloc_of_full hc hib hif)
  exact (slot_of_live h (by rw [hall.2.2.2.1]; exact hib)).2 hif

/-- **`clear`**: the map is empty afterwards and every stored element has been dropped exactly once,
    in bucket order. -/
theorem clear_refines (hc : CfgOk cfg) {env : Env} {H : Nat → Nat}
    (hnd : ∀ c e, env.dropPanics c e = false) (w : World) (h : RI cfg H w.t) :
    ∃ w', Hb.clear cfg env w = .ok w' ∧ w'.t.elems = [] ∧ RI cfg H w'.t ∧
      w'.log = dropEvs cfg w.t.elems.reverse ++ w.log := by
  by_cases h0 : w.t.items = 0
  · have hnil := elems_nil_of_items hc h.1.toInv h0
    exact ⟨w, by simp only [Hb.clear, h0, if_true], hnil, h, by rw [hnil]; simp [dropEvs_nil]⟩
  · by_cases hd : cfg.needsDrop = true
    · have hnd' : w.t.fullList.Nodup := by
        exact (fullList_sorted w.t).imp (fun hab => Nat.ne_of_lt hab)
      obtain ⟨w1, hrun, hm, hct, hal, hsz, hlog⟩ := rf_dropElementsLoop_spec (cfg := cfg) hnd
        w.t.fullList w hnd' (rf_fullList_slots hc h.1.toInv)
      refine ⟨{ w1 with t := clearNoDrop { w1.t with slots := Array.replicate w1.t.slots.size none } },
        ?_, ?_, ?_, ?_⟩
      · simp only [Hb.clear, h0, if_false, dropElements, hd, true_and, ne_eq, not_false_eq_true,
          if_true, fullIndices_spec hc h.1.toInv, hrun, Bool.false_eq_true]
      · exact rf_elems_replicate _
      · show RI cfg H (clearNoDrop _)
        rw [rf_clearNoDrop_shape hm hct hal hsz]
        exact rf_clear_RI hc h
      · show w1.log = _
        rw [hlog, ← elems_eq_fullList h.1.toInv]
    · refine ⟨{ w with t := clearNoDrop { w.t with slots := Array.replicate w.t.slots.size none } },
        ?_, rf_elems_replicate _, rf_clear_RI hc h, ?_⟩
      · simp only [Hb.clear, h0, if_false, dropElements, hd, Bool.false_eq_true, false_and,
          Array.size_replicate]
      · simp [dropEvs, hd]

/-- `drop_inner_table` of a detached table without elements: only the block is freed. -/
theorem rf_dropInnerTable_empty {env : Env} {old : Raw} (hinv : Inv cfg old) (hlo : old.LayoutOk cfg)
    (h0 : old.items = 0) (w : World) :
    ∃ w', dropInnerTable cfg env old w = .ok w' ∧ w'.t = w.t ∧ dropsOf w'.log = dropsOf w.log := by
  unfold dropInnerTable
  by_cases hs : old.isEmptySingleton = true
  · rw [if_pos hs]; exact ⟨w, rfl, rfl, rfl⟩
  · rw [if_neg hs]
    have ha : old.alloc = true := by
      rw [hinv.isEmptySingleton_eq] at hs
      cases h : old.alloc
      · rw [h] at hs; simp at hs
      · rfl
    simp only [dropElements, h0, ne_eq, not_true_eq_false, and_false, if_false, Bool.false_eq_true]
    rw [freeBuckets_ok hlo ha]
    exact ⟨_, rfl, rfl, by simp [dropsOf]⟩

/-- **`shrink_to`** (and `shrink_to_fit` = `shrink_to(0)`): same elements afterwards; it cannot even
    hit capacity overflow, because the smaller block's layout is computable whenever the current
    one is (`rf_layout_mono`). -/
theorem shrinkTo_refines (hc : CfgOk cfg) (hgrow : GrowthLawful cfg) {env : Env} {H : Nat → Nat}
    (hl : Lawful env H) (halloc : ∀ j, env.allocOk j = true) (m : Nat) (w : World)
    (h : RI cfg H w.t) :
    ∃ w', Hb.shrinkTo cfg env m w = .ok w' ∧ RI cfg H w'.t ∧ List.Perm w'.t.elems w.t.elems ∧
      dropsOf w'.log = dropsOf w.log := by
  unfold Hb.shrinkTo
  simp only
  by_cases h0 : max w.t.items m = 0
  · rw [if_pos h0]
    have hi0 : w.t.items = 0 := by omega
    obtain ⟨w', hr, ht, hd⟩ := rf_dropInnerTable_empty (env := env) h.1.toInv h.2 hi0
      { w with t := Raw.new cfg.W }
    refine ⟨w', hr, by rw [ht]; exact RI_new hc H, ?_, hd⟩
    rw [ht, elems_nil_of_items hc h.1.toInv hi0]
    exact List.Perm.refl _
  · rw [if_neg h0]
    cases hcb : capacityToBuckets cfg.bits cfg.W cfg.size (max w.t.items m) with
    | none => exact ⟨w, rfl, h, List.Perm.refl _, rfl⟩
    | some mb =>
      simp only
      by_cases hlt : mb < w.t.buckets
      · rw [if_pos hlt]
        have hlaymb : (calculateLayoutFor cfg.bits cfg.W cfg.size (ctrlAlignOf cfg) mb).isSome = true := by
          obtain ⟨k, hk, hbk, _⟩ := capacityToBuckets_spec cfg.bits cfg.W cfg.size _ mb hc.bits h0 hcb
          have ha : w.t.alloc = true := by
            rcases h.1.toInv.geom with hs | hal
            · exfalso
              have hm := hs.2.1
              have : 2 ^ 2 ≤ 2 ^ k := Nat.pow_le_pow_right (by decide) hk
              simp only [Raw.buckets, hm] at hlt
              omega
            · exact hal.1
          exact rf_layout_mono (Nat.le_of_lt hlt) (h.2 ha)
        by_cases hi0 : w.t.items = 0
        · rw [if_pos hi0]
          have hsp := fallibleWithCapacity_spec hc env (max w.t.items m) .infallible w
          cases hr : fallibleWithCapacity cfg env (max w.t.items m) .infallible w with
          | ok pr =>
            obtain ⟨r, w1⟩ := pr
            cases r with
            | ok new =>
              have hlo := fallibleWithCapacity_layoutOk hc hr
              rw [hr] at hsp
              obtain ⟨hI, _, hel, _, hrest⟩ := hsp
              rw [if_neg h0] at hrest
              obtain ⟨_, _, _, _, _, _, l, _, hw1⟩ := hrest
              have ht1 : w1.t = w.t := by rw [hw1]
              obtain ⟨w', hd, ht, hdl⟩ := rf_dropInnerTable_empty (env := env) (old := w1.t)
                (by rw [ht1]; exact h.1.toInv) (by rw [ht1]; exact h.2) (by rw [ht1]; exact hi0)
                { w1 with t := new }
              refine ⟨w', hd, by rw [ht]; exact ⟨invL_of_empty H hI hel, hlo⟩, ?_, ?_⟩
              · rw [ht, elems_nil_of_items hc h.1.toInv hi0]
                show List.Perm new.elems []
                rw [hel]
              · rw [hdl]
                show dropsOf w1.log = _
                rw [hw1]
                simp [dropsOf]
            | error e =>
              rw [hr] at hsp
              exact absurd hsp.1 (by decide)
          | panic c w' => exact absurd hr (rf_fwc_no_panic halloc hcb hlaymb _ _ _ _)
          | abort =>
            rw [hr] at hsp
            have := hsp.2.1
            rw [halloc] at this; cases this
          | fault f => rw [hr] at hsp; exact hsp.elim
        · rw [if_neg hi0]
          have hcap0 : w.t.items ≤ max w.t.items m := by omega
          have hsp := resizeInner_spec_partial hc hc.probe env (max w.t.items m) .infallible w
            h.1.toInv h.2 hcap0
          cases hr : resizeInner cfg env (max w.t.items m) .infallible w with
          | ok pr =>
            obtain ⟨r, w'⟩ := pr
            cases r with
            | ok u =>
              cases u
              rw [hr] at hsp
              obtain ⟨_, hlo, _, _, _, _, hperm, _, hlog, _⟩ := hsp
              refine ⟨w', rfl, ⟨hgrow.resize env H hl _ _ w w' h.1 h.2 hcap0 hr, hlo⟩, hperm, ?_⟩
              rw [hlog]
              apply rf_dropsOf_resize_log
              · intro ev hev
                split at hev
                · simp only [List.mem_singleton] at hev
                  exact ⟨_, _, Or.inr hev⟩
                · cases hev
              · intro ev hev
                split at hev
                · cases hev
                · simp only [List.mem_singleton] at hev
                  exact ⟨_, _, Or.inl hev⟩
            | error e =>
              rw [hr] at hsp
              exact absurd hsp.1 (by decide)
          | panic c w' =>
            exact absurd (rf_resizeInner_panic_src hl hr) (rf_fwc_no_panic halloc hcb hlaymb _ _ _ _)
          | abort =>
            rw [hr] at hsp
            have := hsp.2
            rw [halloc] at this; cases this
          | fault f => rw [hr] at hsp; exact hsp.elim
      · rw [if_neg hlt]
        exact ⟨w, rfl, h, List.Perm.refl _, rfl⟩

/-! ## 9. `retain`: erasing behind the iterator -/

theorem rf_mem_fullFrom {t : Raw} {a i : Nat} :
    i ∈ t.fullFrom a ↔ a ≤ i ∧ i < t.buckets ∧ isFull (t.ctrlAt i) = true := by
  unfold Raw.fullFrom
  rw [List.mem_filter, List.mem_range'_1]
  constructor
  · rintro ⟨⟨h1, h2⟩, h3⟩; exact ⟨h1, by omega, h3⟩
  · rintro ⟨h1, h2, h3⟩; exact ⟨⟨h1, by omega⟩, h3⟩

theorem rf_fullFrom_congr {t t' : Raw} (hm : t'.mask = t.mask) (a : Nat)
    (h : ∀ i, a ≤ i → i < t.buckets → isFull (t'.ctrlAt i) = isFull (t.ctrlAt i)) :
    t'.fullFrom a = t.fullFrom a := by
  have hb : t'.buckets = t.buckets := by simp only [Raw.buckets, hm]
  unfold Raw.fullFrom
  rw [hb]
  apply List.filter_congr
  intro i hi
  rw [List.mem_range'_1] at hi
  exact h i hi.1 (by omega)

theorem rf_fullList_erase {t t' : Raw} (hm : t'.mask = t.mask) {idx : Nat}
    (hne : ∀ i, i < t.buckets → i ≠ idx → isFull (t'.ctrlAt i) = isFull (t.ctrlAt i))
    (hidx : isFull (t'.ctrlAt idx) = false) :
    t'.fullList = t.fullList.filter (· != idx) := by
  have hb : t'.buckets = t.buckets := by simp only [Raw.buckets, hm]
  unfold Raw.fullList
  rw [hb, List.filter_filter]
  apply List.filter_congr
  intro i hi
  rw [List.mem_range] at hi
  by_cases hii : i = idx
  · subst hii; simp [hidx]
  · rw [hne i hi hii]; simp [hii]

/-- Dropping the head of a final segment of a duplicate-free list = filtering it out. -/
theorem rf_drop_filter {l : List Nat} (hnd : l.Nodup) {k x : Nat} {r : List Nat}
    (h : l.drop k = x :: r) : (l.filter (· != x)).drop k = r := by
  have hl : l = l.take k ++ x :: r := by rw [← h, List.take_append_drop]
  have hk : k ≤ l.length := by
    by_contra hn
    rw [List.drop_of_length_le (by omega)] at h
    cases h
  rw [hl] at hnd
  have hparts := List.nodup_append.mp hnd
  have hx1 : ∀ y ∈ l.take k, (y != x) = true := by
    intro y hy
    simp only [bne_iff_ne, ne_eq]
    intro hyx; subst hyx
    exact hparts.2.2 y hy y List.mem_cons_self rfl
  have hx2 : ∀ y ∈ r, (y != x) = true := by
    intro y hy
    simp only [bne_iff_ne, ne_eq]
    intro hyx; subst hyx
    exact (List.nodup_cons.mp hparts.2.1).1 hy
  have : l.filter (· != x) = l.take k ++ r := by
    conv => lhs; rw [hl]
    rw [List.filter_append, List.filter_cons]
    simp only [bne_self_eq_false, Bool.false_eq_true, if_false]
    rw [List.filter_eq_self.mpr hx1, List.filter_eq_self.mpr hx2]
  rw [this]
  exact List.drop_left' (List.length_take_of_le hk)

/-- The iterator state only looks at the control bytes and the mask. -/
theorem rf_iterOk_congr_ctrl {t t' : Raw} {it : RawIter} (h : IterOk cfg t it)
    (hm : t'.mask = t.mask) (hct : t'.ctrl = t.ctrl) :
    IterOk cfg t' it ∧ it.rem t' = it.rem t := by
  have hff : ∀ a, t'.fullFrom a = t.fullFrom a := fun a =>
    rf_fullFrom_congr hm a (fun i _ _ => by simp only [Raw.ctrlAt, hct])
  have hfl : t'.fullList = t.fullList := by rw [← fullFrom_zero, ← fullFrom_zero, hff]
  have hrem : it.rem t' = it.rem t := by
    simp only [RawIter.rem, RawIterRange.rem, hff]
  refine ⟨⟨⟨h.range.next_eq, h.range.dvd, ?_⟩, ?_⟩, hrem⟩
  · obtain ⟨k, hk⟩ := h.range.suffix
    exact ⟨k, by rw [hfl, ← hk]; exact hrem⟩
  · rw [hrem]; exact h.items

/-- **Erasing behind the iterator.** After `next` has yielded bucket `idx`, erasing that bucket does
    not disturb the iterator: its state is still good for the new table and it will yield exactly
    the same remaining buckets. -/
theorem rf_erase_behind_iterator (hc : CfgOk cfg) {t t' : Raw} (h : Inv cfg t) {it it' : RawIter}
    {idx : Nat} {rest : List Nat} (hok : IterOk cfg t it) (hrem : it.rem t = idx :: rest)
    (hok' : IterOk cfg t it') (hrem' : it'.rem t = rest) {x : Elem}
    (hr : removeAt cfg t idx = .ok (x, t')) :
    IterOk cfg t' it' ∧ it'.rem t' = rest := by
  have hsorted := hok.rem_sorted
  rw [hrem] at hsorted
  have hidx := hok.rem_full idx (by rw [hrem]; exact List.mem_cons_self)
  obtain ⟨e2, t2, hr2, _, _, hm, _, _, _, hne, hcase, _⟩ := removeAt_inv hc h hidx.1 hidx.2
  rw [hr] at hr2
  cases hr2
  have hnotin : idx ∉ rest := by
    intro hin
    have := (List.pairwise_cons.mp hsorted).1 idx hin
    omega
  have hfne : ∀ i, i < t.buckets → i ≠ idx → isFull (t'.ctrlAt i) = isFull (t.ctrlAt i) :=
    fun i hi hii => by rw [hne i hi hii]
  have hfidx : isFull (t'.ctrlAt idx) = false := by
    rcases hcase with hcs | hcs <;> rw [hcs] <;> rfl
  have hff : t'.fullFrom it'.range.nextCtrl = t.fullFrom it'.range.nextCtrl := by
    apply rf_fullFrom_congr hm
    intro i hai hib
    apply hfne i hib
    intro hii
    subst hii
    apply hnotin
    rw [← hrem']
    simp only [RawIter.rem, RawIterRange.rem, List.mem_append]
    exact Or.inr (rf_mem_fullFrom.mpr ⟨hai, hidx.1, hidx.2⟩)
  have hremeq : it'.rem t' = it'.rem t := by
    simp only [RawIter.rem, RawIterRange.rem, hff]
  refine ⟨⟨⟨hok'.range.next_eq, hok'.range.dvd, ?_⟩, ?_⟩, by rw [hremeq, hrem']⟩
  · obtain ⟨k, hk⟩ := hok.range.suffix
    have hk' : t.fullList.drop k = idx :: rest := by rw [← hk]; exact hrem
    refine ⟨k, ?_⟩
    rw [rf_fullList_erase hm hfne hfidx]
    have hnd : t.fullList.Nodup := (fullList_sorted t).imp (fun hab => Nat.ne_of_lt hab)
    rw [rf_drop_filter hnd hk']
    exact hremeq.trans hrem'
  · rw [hremeq]; exact hok'.items

theorem rf_filterMap_slots_congr {a b : Array (Option Elem)} {idx : Nat} {v : Option Elem}
    (hb : b = a.setIfInBounds idx v) {rest : List Nat} (hni : idx ∉ rest) :
    (rest.filterMap fun i => b[i]?.join) = rest.filterMap fun i => a[i]?.join := by
  apply List.filterMap_congr
  intro j hj
  rw [hb, Array.getElem?_setIfInBounds_ne]
  intro hij; subst hij; exact hni hj

/-- The elements `retain` removes, as they are when dropped (payload already updated), in order. -/
def AL.removed (P : AL.Pred) (l : AL) : AL :=
  l.filterMap fun x => if (P x).1 then none else some { x with v := (P x).2 }

theorem rf_removed_cons (P : AL.Pred) (e : Elem) (l : AL) :
    AL.removed P (e :: l) =
      if (P e).1 then AL.removed P l else { e with v := (P e).2 } :: AL.removed P l := by
  unfold AL.removed
  rw [List.filterMap_cons]
  split <;> simp_all

theorem rf_retain_cons (P : AL.Pred) (e : Elem) (l : AL) :
    AL.retain P (e :: l) =
      if (P e).1 then { e with v := (P e).2 } :: AL.retain P l else AL.retain P l := by
  unfold AL.retain
  rw [List.filterMap_cons]
  split <;> simp_all

/-- The `retain` loop: the buckets `rest` still ahead of the iterator are processed in order, each
    element once; elements answered `false` are erased, the others get their new payload. -/
theorem rf_retainLoop_spec (hc : CfgOk cfg) {env : Env} {H : Nat → Nat} {P : AL.Pred}
    (hlp : LawfulP env H P) :
    ∀ (rest : List Nat) (fuel : Nat) (it : RawIter) (w : World) (pre : List Elem),
      rest.length < fuel → RI cfg H w.t → IterOk cfg w.t it → it.rem w.t = rest →
      List.Perm w.t.elems (pre ++ rest.filterMap fun i => w.t.slots[i]?.join) →
      ∃ w', Map.retainLoop cfg env fuel it w = .ok w' ∧ RI cfg H w'.t ∧
        List.Perm w'.t.elems (pre ++ AL.retain P (rest.filterMap fun i => w.t.slots[i]?.join)) ∧
        w'.log = dropEvs cfg (AL.removed P (rest.filterMap fun i => w.t.slots[i]?.join)).reverse ++
          w.log := by
  intro rest
  induction rest with
  | nil =>
    intro fuel it w pre hf hRI hok hrem hperm
    obtain ⟨f, rfl⟩ : ∃ f, fuel = f + 1 := ⟨fuel - 1, by simp at hf; omega⟩
    obtain ⟨it', hnext, _, _⟩ := rawIter_next_spec hc hRI.1.toInv it hok
    rw [hrem] at hnext
    refine ⟨w, ?_, hRI, hperm, by simp [AL.removed, dropEvs_nil]⟩
    rw [Map.retainLoop]
    simp only [hnext, List.head?_nil]
  | cons idx rest ih =>
    intro fuel it w pre hf hRI hok hrem hperm
    obtain ⟨f, rfl⟩ : ∃ f, fuel = f + 1 := ⟨fuel - 1, by simp at hf; omega⟩
    have hf' : rest.length < f := by simp at hf; omega
    obtain ⟨it', hnext, hok', hrem'⟩ := rawIter_next_spec hc hRI.1.toInv it hok
    rw [hrem] at hnext hrem'
    simp only [List.head?_cons, List.tail_cons] at hnext hrem'
    have hsorted := hok.rem_sorted
    rw [hrem] at hsorted
    have hnotin : idx ∉ rest := by
      intro hin
      have := (List.pairwise_cons.mp hsorted).1 idx hin
      omega
    have hidx := hok.rem_full idx (by rw [hrem]; exact List.mem_cons_self)
    have hall := hRI.1.toInv.allocated (hRI.1.toInv.alloc_of_full hc hidx.1 hidx.2)
    obtain ⟨e, he⟩ := (slot_of_live hRI.1.toInv (by rw [hall.2.2.2.1]; exact hidx.1)).2 hidx.2
    have hej : w.t.slots[idx]?.join = some e := by rw [he]; rfl
    -- the abstract contents, split at the current element
    obtain ⟨l0, hp1, hp2⟩ := rf_update_perm { e with v := (P e).2 } hej
    have hl0 : List.Perm l0 (pre ++ rest.filterMap fun i => w.t.slots[i]?.join) := by
      have h1 : List.Perm (e :: l0) (e :: (pre ++ rest.filterMap fun i => w.t.slots[i]?.join)) := by
        refine hp1.trans (hperm.trans ?_)
        simp only [List.filterMap_cons, hej]
        exact List.perm_middle
      exact h1.cons_inv
    -- the table after the payload update
    have hRI1 : RI cfg H { w.t with slots := w.t.slots.setIfInBounds idx (some { e with v := (P e).2 }) } :=
      ⟨value_update_invL hRI.1 hej e.vid (P e).2, Raw.LayoutOk.of_eq hRI.2 rfl rfl⟩
    obtain ⟨hok1, hrem1⟩ := rf_iterOk_congr_ctrl hok'
      (t' := { w.t with slots := w.t.slots.setIfInBounds idx (some { e with v := (P e).2 }) }) rfl rfl
    rw [hrem'] at hrem1
    have hfm1 := rf_filterMap_slots_congr (a := w.t.slots) (idx := idx)
      (v := some { e with v := (P e).2 }) rfl hnotin
    have hstep : Map.retainLoop cfg env (f + 1) it w =
        if (P e).1 then Map.retainLoop cfg env f it' { w with pc := w.pc + 1, t := { w.t with slots := w.t.slots.setIfInBounds idx (some { e with v := (P e).2 }) } }
        else
          match removeAt cfg { w.t with slots := w.t.slots.setIfInBounds idx (some { e with v := (P e).2 }) } idx with
          | .error f => .fault f
          | .ok (x, t2) =>
            let (p, w2) := dropElem cfg env x { w with pc := w.pc + 1, t := t2 }
            if p then .panic "drop" w2 else Map.retainLoop cfg env f it' w2 := by
      rw [Map.retainLoop]
      simp only [hnext, slotGet_ok hej, hlp.pred]
      rfl
    rw [hstep]
    rw [List.filterMap_cons, hej]
    simp only
    rw [rf_retain_cons, rf_removed_cons]
    by_cases hkeep : (P e).1 = true
    · rw [if_pos hkeep, if_pos hkeep, if_pos hkeep]
      obtain ⟨w', hrun, hRI', hp', hlog'⟩ := ih f it' { w with pc := w.pc + 1, t := { w.t with slots := w.t.slots.setIfInBounds idx (some { e with v := (P e).2 }) } }
        (pre ++ [{ e with v := (P e).2 }]) hf' hRI1 hok1 hrem1 (by
          show List.Perm (Raw.elems { w.t with slots := _ }) _
          refine hp2.trans ?_
          show List.Perm _ (_ ++ rest.filterMap fun i => (w.t.slots.setIfInBounds idx _)[i]?.join)
          rw [hfm1, List.append_assoc]
          exact ((hl0.cons _).trans List.perm_middle.symm))
      refine ⟨w', hrun, hRI', ?_, ?_⟩
      · refine hp'.trans ?_
        show List.Perm (_ ++ AL.retain P (rest.filterMap fun i => (w.t.slots.setIfInBounds idx _)[i]?.join)) _
        rw [hfm1, List.append_assoc]
        exact List.Perm.refl _
      · rw [hlog']
        show dropEvs cfg (AL.removed P (rest.filterMap fun i => (w.t.slots.setIfInBounds idx _)[i]?.join)).reverse ++ w.log = _
        rw [hfm1]
    · rw [if_neg hkeep, if_neg hkeep, if_neg hkeep]
      have he1 : (w.t.slots.setIfInBounds idx (some { e with v := (P e).2 }))[idx]?.join =
          some { e with v := (P e).2 } := by
        rw [Array.getElem?_setIfInBounds_self_of_lt (slot_some_lt hej)]; rfl
      obtain ⟨t2, hr, hRI2, hpt, hsl2, _⟩ := rf_removeAt_RI hc hRI1 he1
      obtain ⟨hok2, hrem2⟩ := rf_erase_behind_iterator hc hRI1.1.toInv
        (it := it) (it' := it') (idx := idx) (rest := rest)
        (by exact (rf_iterOk_congr_ctrl hok (t' := { w.t with slots := w.t.slots.setIfInBounds idx (some { e with v := (P e).2 }) }) rfl rfl).1)
        (by rw [(rf_iterOk_congr_ctrl hok (t' := { w.t with slots := w.t.slots.setIfInBounds idx (some { e with v := (P e).2 }) }) rfl rfl).2]; exact hrem)
        hok1 hrem1 hr
      obtain ⟨w2, hde, ht2, hlog2⟩ := rf_dropElem_ok (cfg := cfg) hlp.nodropPanic { e with v := (P e).2 }
        ({ w with pc := w.pc + 1, t := t2 } : World)
      have hfm2 : (rest.filterMap fun i => t2.slots[i]?.join) =
          rest.filterMap fun i => w.t.slots[i]?.join := by
        rw [rf_filterMap_slots_congr hsl2 hnotin]
        exact hfm1
      obtain ⟨w', hrun, hRI', hp', hlog'⟩ := ih f it' w2 pre hf' (by rw [ht2]; exact hRI2)
        (by rw [ht2]; exact hok2) (by rw [ht2]; exact hrem2) (by
          rw [ht2]
          show List.Perm t2.elems (_ ++ rest.filterMap fun i => t2.slots[i]?.join)
          rw [hfm2]
          have h1 : List.Perm ({ e with v := (P e).2 } :: t2.elems) ({ e with v := (P e).2 } :: l0) :=
            hpt.trans hp2
          exact h1.cons_inv.trans hl0)
      refine ⟨w', ?_, hRI', ?_, ?_⟩
      · simp only [hr, hde, Bool.false_eq_true, if_false]
        exact hrun
      · refine hp'.trans ?_
        rw [ht2]
        show List.Perm (_ ++ AL.retain P (rest.filterMap fun i => t2.slots[i]?.join)) _
        rw [hfm2]
      · rw [hlog', hlog2, ht2]
        show dropEvs cfg (AL.removed P (rest.filterMap fun i => t2.slots[i]?.join)).reverse ++
          (dropEvs cfg [_] ++ w.log) = _
        rw [hfm2, List.reverse_cons, dropEvs_append, List.append_assoc]

/-- **`retain`**: the predicate is called once per element, in bucket order; elements answered
    `false` are removed and dropped (exactly once each, in bucket order, nothing else is dropped),
    the others keep their key object and get the new payload. -/
theorem retain_refines (hc : CfgOk cfg) {env : Env} {H : Nat → Nat} {P : AL.Pred}
    (hlp : LawfulP env H P) (w : World) (h : RI cfg H w.t) :
    ∃ w', Map.retain cfg env w = .ok w' ∧ RI cfg H w'.t ∧
      List.Perm w'.t.elems (AL.retain P w.t.elems) ∧
      w'.log = dropEvs cfg (AL.removed P w.t.elems).reverse ++ w.log := by
  obtain ⟨it, hnew, hok, hrem⟩ := rawIter_new_spec hc h.1.toInv
  have hlen := fullList_length_le w.t
  obtain ⟨w', hrun, hRI', hp, hlog⟩ := rf_retainLoop_spec hc hlp w.t.fullList (w.t.buckets + 2) it w []
    (by omega) h hok hrem (by rw [List.nil_append, ← elems_eq_fullList h.1.toInv])
  rw [List.nil_append, ← elems_eq_fullList h.1.toInv] at hp
  rw [← elems_eq_fullList h.1.toInv] at hlog
  exact ⟨w', by simp only [Map.retain, hnew]; exact hrun, hRI', hp, hlog⟩

/-- **`HashMap::reserve`.** -/
theorem reserve_refines (hc : CfgOk cfg) (hgrow : GrowthLawful cfg) {env : Env} {H : Nat → Nat}
    (hl : Lawful env H) (halloc : ∀ j, env.allocOk j = true) (n : Nat) (w : World)
    (h : RI cfg H w.t) :
    (∃ w', Map.reserve cfg env n w = .ok w' ∧ RI cfg H w'.t ∧ List.Perm w'.t.elems w.t.elems ∧
      n ≤ w'.t.gl ∧ dropsOf w'.log = dropsOf w.log) ∨
    Map.reserve cfg env n w = .panic "capacity" w :=
  reserve_RI hc hgrow hl halloc n w h

/-- **`HashMap::try_reserve`**: `Ok(())` with room for `n` more, or `Err(CapacityOverflow)` with the
    world untouched (the allocator never refuses here, so `AllocError` cannot occur). -/
theorem tryReserve_refines (hc : CfgOk cfg) (hgrow : GrowthLawful cfg) {env : Env} {H : Nat → Nat}
    (hl : Lawful env H) (halloc : ∀ j, env.allocOk j = true) (n : Nat) (w : World)
    (h : RI cfg H w.t) :
    (∃ w', Map.tryReserve cfg env n w = .ok (none, w') ∧ RI cfg H w'.t ∧
      List.Perm w'.t.elems w.t.elems ∧ n ≤ w'.t.gl ∧ dropsOf w'.log = dropsOf w.log) ∨
    Map.tryReserve cfg env n w = .ok (some .capacityOverflow, w) := by
  rcases tryReserve_RI hc hgrow hl halloc n w h with ⟨w', hr, hrest⟩ | hr
  · exact .inl ⟨w', by simp only [Map.tryReserve, hr, rf_bind_ok, rf_pure], hrest⟩
  · exact .inr (by simp only [Map.tryReserve, hr, rf_bind_ok, rf_pure])

/-! ## 10. one call, and whole histories -/

/-- The calls covered by the refinement theorem (everything but the partial-iteration observers). -/
def MapOp.basic : MapOp → Bool
  | .extractIf _ => false
  | .drain _ _ => false
  | .iter _ => false
  | _ => true

/-- Calls that may end in the `"capacity"` panic (`capacity overflow`), leaving the map untouched. -/
def MapOp.mayOverflow : MapOp → Bool
  | .insert _ => true
  | .reserve _ => true
  | _ => false

/-- **One call refines one specification step** (up to bucket order), or is a capacity-overflow
    panic of a growing call that leaves the table untouched. `try_reserve` reports the overflow as
    an ordinary return value, which `AL.Step.tryReserve` allows. -/
theorem step_refines (hc : CfgOk cfg) (hgrow : GrowthLawful cfg) {env : Env} {H : Nat → Nat}
    {P : AL.Pred} (hlp : LawfulP env H P) (op : MapOp) (hop : op.basic = true) (w : World)
    (h : RI cfg H w.t) :
    (∃ r w' l', Map.step cfg env op w = .ok (r, w') ∧ AL.Step P op w.t.elems r l' ∧
      List.Perm w'.t.elems l' ∧ RI cfg H w'.t) ∨
    (∃ w', Map.step cfg env op w = .panic "capacity" w' ∧ w'.t = w.t ∧ op.mayOverflow = true) := by
  have hl := hlp.toLawful
  cases op with
  | insert e =>
    rcases insert_refines hc hgrow hl hlp.alloc hlp.nodropPanic e w h with
      ⟨r, w', hr, hRI, hm⟩ | ⟨w', hr, ht, _⟩
    · left
      cases hf : AL.find w.t.elems e.k with
      | none =>
        rw [hf] at hm
        obtain ⟨rfl, hp, _⟩ := hm
        exact ⟨.val none, w', _, by simp only [Map.step, hr], .insertNew e _ hf, hp, hRI⟩
      | some old =>
        rw [hf] at hm
        obtain ⟨rfl, hp, _⟩ := hm
        exact ⟨.val (some (old.vid, old.v)), w', _, by simp only [Map.step, hr],
          .insertOld e old _ hf, hp, hRI⟩
    · exact .inr ⟨w', by simp only [Map.step, hr], ht, rfl⟩
  | get k =>
    obtain ⟨w', hr, ht, _⟩ := get_refines hc hl k w h
    exact .inl ⟨_, w', _, by simp only [Map.step, hr], .get k _, by rw [ht], by rw [ht]; exact h⟩
  | getMut k nv =>
    obtain ⟨w', hr, hp, hRI, _⟩ := getMut_refines hc hl k nv w h
    exact .inl ⟨_, w', _, by simp only [Map.step, hr], .getMut k nv _, hp, hRI⟩
  | remove k =>
    obtain ⟨w', hr, hp, hRI, _⟩ := remove_refines hc hl hlp.nodropPanic k w h
    exact .inl ⟨_, w', _, by simp only [Map.step, hr], .remove k _, hp, hRI⟩
  | removeEntry k =>
    obtain ⟨w', hr, hp, hRI, _⟩ := removeEntry_refines hc hl k w h
    exact .inl ⟨_, w', _, by simp only [Map.step, hr], .removeEntry k _, hp, hRI⟩
  | clear =>
    obtain ⟨w', hr, hnil, hRI, _⟩ := clear_refines hc hlp.nodropPanic w h
    exact .inl ⟨_, w', _, by simp only [Map.step, hr], .clear _, by rw [hnil], hRI⟩
  | reserve n =>
    rcases reserve_RI hc hgrow hl hlp.alloc n w h with ⟨w', hr, hRI, hp, _⟩ | hr
    · exact .inl ⟨_, w', _, by simp only [Map.step, Map.reserve, hr], .reserve n _, hp, hRI⟩
    · exact .inr ⟨w, by simp only [Map.step, Map.reserve, hr], rfl, rfl⟩
  | tryReserve n =>
    rcases tryReserve_RI hc hgrow hl hlp.alloc n w h with ⟨w', hr, hRI, hp, _⟩ | hr
    · exact .inl ⟨_, w', _, by simp only [Map.step, Map.tryReserve, hr, rf_bind_ok, rf_pure],
        .tryReserve n none _, hp, hRI⟩
    · exact .inl ⟨_, w, _, by simp only [Map.step, Map.tryReserve, hr, rf_bind_ok, rf_pure],
        .tryReserve n (some .capacityOverflow) _, List.Perm.refl _, h⟩
  | shrinkTo m =>
    obtain ⟨w', hr, hRI, hp, _⟩ := shrinkTo_refines hc hgrow hl hlp.alloc m w h
    exact .inl ⟨_, w', _, by simp only [Map.step, hr], .shrinkTo m _, hp, hRI⟩
  | retain =>
    obtain ⟨w', hr, hRI, hp, _⟩ := retain_refines hc hlp w h
    exact .inl ⟨_, w', _, by simp only [Map.step, hr], .retain _, hp, hRI⟩
  | extractIf n => cases hop
  | drain n f => cases hop
  | iter p => cases hop

/-- A history on the abstract map: what each call returned (or that it was a capacity-overflow
    panic, which leaves the map as it was). -/
inductive AL.Trace (P : AL.Pred) : List MapOp → AL → List Map.Obs → AL → Prop where
  | nil (l : AL) : AL.Trace P [] l [] l
  | ret {op : MapOp} {ops : List MapOp} {l l' lf : AL} {r : Ret} {os : List Map.Obs}
      (hs : AL.Step P op l r l') (ht : AL.Trace P ops l' os lf) :
      AL.Trace P (op :: ops) l (.ret r :: os) lf
  | overflow {op : MapOp} {ops : List MapOp} {l lf : AL} {os : List Map.Obs}
      (ho : op.mayOverflow = true) (ht : AL.Trace P ops l os lf) :
      AL.Trace P (op :: ops) l (.panic "capacity" :: os) lf

/-- Histories from any good state related to an abstract map `l`. -/
theorem run_refines_from (hc : CfgOk cfg) (hgrow : GrowthLawful cfg) {env : Env} {H : Nat → Nat}
    {P : AL.Pred} (hlp : LawfulP env H P) :
    ∀ (ops : List MapOp) (w : World) (l : AL), (∀ op ∈ ops, op.basic = true) → RI cfg H w.t →
      List.Perm w.t.elems l →
      ∃ os wf lf, Map.run cfg env ops w = some (os, wf) ∧ AL.Trace P ops l os lf ∧
        List.Perm wf.t.elems lf ∧ lf.keysNodup ∧ RI cfg H wf.t := by
  intro ops
  induction ops with
  | nil =>
    intro w l _ hRI hp
    exact ⟨[], w, l, rfl, .nil l, hp, AL.keysNodup_perm hp (elems_keysNodup hRI.1), hRI⟩
  | cons op ops ih =>
    intro w l hb hRI hp
    have hkn := elems_keysNodup hRI.1
    rcases step_refines hc hgrow hlp op (hb op List.mem_cons_self) w hRI with
      ⟨r, w', l', hstep, hs, hp', hRI'⟩ | ⟨w', hstep, ht, ho⟩
    · obtain ⟨l1, hs1, hp1⟩ := hs.perm hp hkn
      obtain ⟨os, wf, lf, hrun, htr, hpf, hnf, hRIf⟩ :=
        ih w' l1 (fun o ho => hb o (List.mem_cons_of_mem _ ho)) hRI' (hp'.trans hp1)
      exact ⟨.ret r :: os, wf, lf, by simp only [Map.run, hstep, hrun, Option.map_some],
        .ret hs1 htr, hpf, hnf, hRIf⟩
    · obtain ⟨os, wf, lf, hrun, htr, hpf, hnf, hRIf⟩ :=
        ih w' l (fun o ho => hb o (List.mem_cons_of_mem _ ho)) (by rw [ht]; exact hRI)
          (by rw [ht]; exact hp)
      exact ⟨.panic "capacity" :: os, wf, lf, by simp only [Map.run, hstep, hrun, Option.map_some],
        .overflow ho htr, hpf, hnf, hRIf⟩

/-- **C01.** Every history of basic calls on a fresh `HashMap`, for every lawful environment (any
    hash function), never faults or aborts; what the calls return is what the association-list
    specification returns, call by call; and the final contents are, up to bucket order, the final
    abstract map, whose keys are pairwise distinct. -/
theorem run_refines (hc : CfgOk cfg) (hgrow : GrowthLawful cfg) {env : Env} {H : Nat → Nat}
    {P : AL.Pred} (hlp : LawfulP env H P) (ops : List MapOp) (hb : ∀ op ∈ ops, op.basic = true)
    (w0 : World) (h0 : w0.t = Raw.new cfg.W) :
    ∃ os wf lf, Map.run cfg env ops w0 = some (os, wf) ∧ AL.Trace P ops [] os lf ∧
      List.Perm wf.t.elems lf ∧ lf.keysNodup ∧ RI cfg H wf.t := by
  apply run_refines_from hc hgrow hlp ops w0 [] hb
  · rw [h0]; exact RI_new hc H
  · rw [h0]; exact List.Perm.refl _

/-! ### with growth discharged (`Hb/Proofs/GrowLawful.lean`) -/

/-- `step_refines` without the growth hypothesis. -/
theorem step_refines' (hc : CfgOk cfg) {env : Env} {H : Nat → Nat} {P : AL.Pred}
    (hlp : LawfulP env H P) (op : MapOp) (hop : op.basic = true) (w : World) (h : RI cfg H w.t) :
    (∃ r w' l', Map.step cfg env op w = .ok (r, w') ∧ AL.Step P op w.t.elems r l' ∧
      List.Perm w'.t.elems l' ∧ RI cfg H w'.t) ∨
    (∃ w', Map.step cfg env op w = .panic "capacity" w' ∧ w'.t = w.t ∧ op.mayOverflow = true) :=
  step_refines hc (growthLawful hc hc.probe) hlp op hop w h

/-- **C01, unconditional**: `CfgOk cfg` (either scanner, any `usize` width ≥ 16), any hash function
    `H`, any pure predicate `P`, any history of basic calls on a fresh map. -/
theorem C01_run_refines (hc : CfgOk cfg) {env : Env} {H : Nat → Nat} {P : AL.Pred}
    (hlp : LawfulP env H P) (ops : List MapOp) (hb : ∀ op ∈ ops, op.basic = true)
    (w0 : World) (h0 : w0.t = Raw.new cfg.W) :
    ∃ os wf lf, Map.run cfg env ops w0 = some (os, wf) ∧ AL.Trace P ops [] os lf ∧
      List.Perm wf.t.elems lf ∧ lf.keysNodup ∧ RI cfg H wf.t :=
  run_refines hc (growthLawful hc hc.probe) hlp ops hb w0 h0

/-! ## 11. non-vacuity -/

/-- `H k = k * 2^57 + k`: tag `k % 128`, start position `k % buckets`. -/
def rfH : Nat → Nat := fun k => k * 2 ^ 57 + k

/-- Keep the elements with an odd payload, bumping every payload by one. -/
def rfP : AL.Pred := fun e => (e.v % 2 == 1, e.v + 1)

def rfEnv : Env :=
  { hash := fun _ k => some (rfH k), eq := fun _ q e => some (q == e.k), clone := fun _ _ => none,
    pred := fun _ e => some (rfP e), allocOk := fun _ => true, dropPanics := fun _ _ => false }

theorem rfEnv_lawfulP : LawfulP rfEnv rfH rfP :=
  { hash := fun _ _ => rfl, eq := fun _ _ _ => rfl, pred := fun _ _ => rfl, alloc := fun _ => rfl,
    nodropPanic := fun _ _ => rfl }

/-- insert 1, insert 2, insert 1 again (new key object 11, new value), get, get_mut, remove,
    retain. -/
def rfOps : List MapOp :=
  [.insert ⟨1, 10, 100, 7⟩, .insert ⟨2, 20, 200, 8⟩, .insert ⟨1, 11, 101, 9⟩, .get 1,
   .getMut 2 4, .remove 2, .retain]

/-- What the specification says these calls return. -/
def rfObs : List Map.Obs :=
  [.ret (.val none), .ret (.val none), .ret (.val (some (100, 7))), .ret (.elem (some ⟨1, 10, 101, 9⟩)),
   .ret (.elem (some ⟨2, 20, 200, 4⟩)), .ret (.val (some (200, 4))), .ret .unit]

/-- Flat encoding of observations (the model types have no decidable equality). -/
def rfCode : Map.Obs → List Nat
  | .ret .unit => [0]
  | .ret (.elem none) => [1]
  | .ret (.elem (some e)) => [2, e.k, e.kid, e.vid, e.v]
  | .ret (.val none) => [3]
  | .ret (.val (some (a, b))) => [4, a, b]
  | .ret (.tre none) => [5]
  | .ret (.tre (some _)) => [6]
  | .panic _ => [7]
  | _ => [8]

/-- The history on the abstract map: the originally stored key object `10` survives the second
    insert of key `1`. -/
example : AL.Trace rfP rfOps [] rfObs [⟨1, 10, 101, 10⟩] :=
  .ret (.insertNew _ _ rfl) <| .ret (.insertNew _ _ rfl) <| .ret (.insertOld _ ⟨1, 10, 100, 7⟩ _ rfl) <|
  .ret (.get 1 _) <| .ret (.getMut 2 4 _) <| .ret (.remove 2 _) <| .ret (.retain _) <| .nil _

/-- The same history through the model with the SSE2 scanner: same observations, and the final
    table holds exactly the final abstract map (the second key object `11` and the removed / replaced
    objects have been dropped). -/
example :
    (match Map.run { ops := Sse2.ops } rfEnv rfOps { t := Raw.new 16 } with
     | some (os, wf) => some (os.map rfCode, wf.t.elems, wf.log.filter fun ev =>
         match ev with | .dropK _ => true | .dropV _ => true | _ => false)
     | none => none) =
    some (rfObs.map rfCode, [⟨1, 10, 101, 10⟩], [.dropK 20, .dropK 11]) := by
  decide +kernel

/-- ... and with the portable (generic) scanner. -/
example :
    (match Map.run { ops := Generic.ops } rfEnv rfOps { t := Raw.new 8 } with
     | some (os, wf) => some (os.map rfCode, wf.t.elems)
     | none => none) =
    some (rfObs.map rfCode, [⟨1, 10, 101, 10⟩]) := by
  decide +kernel

#print axioms elems_find
#print axioms AL.perm_find
#print axioms get_refines
#print axioms getMut_refines
#print axioms removeEntry_refines
#print axioms remove_refines
#print axioms reserve_RI
#print axioms tryReserve_RI
#print axioms reserve_refines
#print axioms tryReserve_refines
#print axioms insert_refines
#print axioms clear_refines
#print axioms shrinkTo_refines
#print axioms rf_erase_behind_iterator
#print axioms retain_refines
#print axioms step_refines
#print axioms run_refines
#print axioms step_refines'
#print axioms C01_run_refines

end Hb
