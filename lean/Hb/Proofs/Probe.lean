/-
The triangular probe sequence of hashbrown (`ProbeSeq::move_next`, raw/mod.rs:83) visits every
group of a power-of-two table exactly once during its first `buckets / WIDTH` steps.

Main results
  tri_injective           triangular numbers are injective mod `2^k` on `[0, 2^k)`
  tri_surjective          ... hence surjective
  probePos_closed         closed form of `probePos`
  probe_covers            `ProbeCovers cfg` (Defs.lean) for `W ∈ {8, 16}`
  probe_windows_disjoint  the first `buckets / W` windows are pairwise disjoint
-/
import Hb.Proofs.Defs
import Mathlib.Data.Nat.Prime.Basic
import Mathlib.Data.Nat.ModEq
import Mathlib.Data.Fintype.Card
import Mathlib.Tactic.Ring
import Mathlib.Tactic.Linarith

namespace Hb

/-! ### triangular numbers mod `2^k` -/

theorem two_mul_tri (a : Nat) : 2 * (a * (a + 1) / 2) = a * (a + 1) :=
  Nat.mul_div_cancel' (Nat.even_mul_succ_self a).two_dvd

theorem tri_succ (s : Nat) : (s + 1) * (s + 1 + 1) / 2 = s * (s + 1) / 2 + (s + 1) := by
  have h : (s + 1) * (s + 1 + 1) = s * (s + 1) + 2 * (s + 1) := by ring
  rw [h, Nat.add_mul_div_left _ _ (by omega : 0 < 2)]

theorem tri_injective_le (k a b : Nat) (ha : a < 2 ^ k) (hb : b < 2 ^ k) (hba : b ≤ a)
    (h : a * (a + 1) / 2 % 2 ^ k = b * (b + 1) / 2 % 2 ^ k) : a = b := by
  have hp : 2 ^ (k + 1) = 2 * 2 ^ k := by rw [pow_succ, Nat.mul_comm]
  have h2 : a * (a + 1) % 2 ^ (k + 1) = b * (b + 1) % 2 ^ (k + 1) := by
    rw [← two_mul_tri a, ← two_mul_tri b, hp, Nat.mul_mod_mul_left, Nat.mul_mod_mul_left, h]
  have hd : 2 ^ (k + 1) ∣ a * (a + 1) - b * (b + 1) :=
    Nat.dvd_of_mod_eq_zero (Nat.sub_mod_eq_zero_of_mod_eq h2)
  have hf : a * (a + 1) - b * (b + 1) = (a - b) * (a + b + 1) := by
    obtain ⟨c, rfl⟩ := Nat.exists_eq_add_of_le hba
    have e : (b + c) * (b + c + 1) = b * (b + 1) + c * (b + c + b + 1) := by ring
    rw [e, Nat.add_sub_cancel_left, Nat.add_sub_cancel_left]
  rw [hf] at hd
  rcases Nat.even_or_odd (a - b) with he | ho
  · have ho : Odd (a + b + 1) := by
      obtain ⟨c, hc⟩ := he
      exact ⟨b + c, by omega⟩
    have hc : Nat.Coprime (2 ^ (k + 1)) (a + b + 1) := (Nat.coprime_two_left.mpr ho).pow_left _
    have h3 : 2 ^ (k + 1) ∣ a - b := hc.dvd_of_dvd_mul_right hd
    have h4 := Nat.eq_zero_of_dvd_of_lt h3 (by omega)
    omega
  · have hc : Nat.Coprime (2 ^ (k + 1)) (a - b) := (Nat.coprime_two_left.mpr ho).pow_left _
    have h3 : 2 ^ (k + 1) ∣ a + b + 1 := hc.dvd_of_dvd_mul_left hd
    have h4 := Nat.le_of_dvd (by omega) h3
    omega

/-- Triangular numbers are injective mod `2^k` on `[0, 2^k)`. -/
theorem tri_injective (k : Nat) (a b : Nat) (ha : a < 2 ^ k) (hb : b < 2 ^ k)
    (h : a * (a + 1) / 2 % 2 ^ k = b * (b + 1) / 2 % 2 ^ k) : a = b := by
  rcases Nat.le_total b a with hba | hab
  · exact tri_injective_le k a b ha hb hba h
  · exact (tri_injective_le k b a hb ha hab h.symm).symm

/-- Triangular numbers hit every residue mod `2^k` from an argument in `[0, 2^k)`. -/
theorem tri_surjective (k : Nat) (r : Nat) (hr : r < 2 ^ k) :
    ∃ s, s < 2 ^ k ∧ s * (s + 1) / 2 % 2 ^ k = r := by
  let f : Fin (2 ^ k) → Fin (2 ^ k) :=
    fun s => ⟨s.val * (s.val + 1) / 2 % 2 ^ k, Nat.mod_lt _ (Nat.two_pow_pos k)⟩
  have hinj : Function.Injective f := by
    intro a b hab
    have : a.val * (a.val + 1) / 2 % 2 ^ k = b.val * (b.val + 1) / 2 % 2 ^ k :=
      congrArg Fin.val hab
    exact Fin.ext (tri_injective k a.val b.val a.isLt b.isLt this)
  have : Finite (Fin (2 ^ k)) := ⟨Equiv.refl _⟩
  obtain ⟨s, hs⟩ := Finite.surjective_of_injective hinj ⟨r, hr⟩
  exact ⟨s.val, s.isLt, congrArg Fin.val hs⟩

/-! ### closed form of the probe sequence -/

theorem probePos_closed (W bits mask hash s k : Nat) (hm : mask + 1 = 2 ^ k) :
    (probePos W bits mask hash s).stride = W * s ∧
    (probePos W bits mask hash s).pos = (h1 bits hash + W * (s * (s + 1) / 2)) % 2 ^ k := by
  have hmask : mask = 2 ^ k - 1 := by omega
  subst hmask
  induction s with
  | zero =>
    simp [probePos, probeSeq, Nat.and_two_pow_sub_one_eq_mod]
  | succ s ih =>
    obtain ⟨ih1, ih2⟩ := ih
    constructor
    · simp only [probePos, ProbeSeq.moveNext, ih1]; ring
    · simp only [probePos, ProbeSeq.moveNext, ih1, ih2, Nat.and_two_pow_sub_one_eq_mod,
        Nat.mod_add_mod, tri_succ]
      congr 1; ring

/-! ### arithmetic core of coverage and disjointness -/

theorem exists_shift (n p i : Nat) (hi : i < n) : ∃ d, d < n ∧ (p + d) % n = i := by
  have hn : 0 < n := by omega
  have hp : p % n < n := Nat.mod_lt _ hn
  by_cases h : p % n ≤ i
  · refine ⟨i - p % n, by omega, ?_⟩
    rw [← Nat.mod_add_mod, Nat.add_sub_cancel' h, Nat.mod_eq_of_lt hi]
  · refine ⟨i + n - p % n, by omega, ?_⟩
    rw [← Nat.mod_add_mod, Nat.add_sub_cancel' (by omega), Nat.add_mod_right, Nat.mod_eq_of_lt hi]

theorem two_pow_split (j k : Nat) (hjk : j ≤ k) : 2 ^ k = 2 ^ j * 2 ^ (k - j) := by
  rw [← pow_add, Nat.add_sub_cancel' hjk]

theorem cover_core (j k p0 i : Nat) (hjk : j ≤ k) (hi : i < 2 ^ k) :
    ∃ s, s < 2 ^ (k - j) ∧ ∃ l, l < 2 ^ j ∧
      ((p0 + 2 ^ j * (s * (s + 1) / 2)) % 2 ^ k + l) % 2 ^ k = i := by
  have hn := two_pow_split j k hjk
  have hWpos : 0 < 2 ^ j := Nat.two_pow_pos j
  obtain ⟨d, hd, hdi⟩ := exists_shift (2 ^ k) p0 i hi
  have hq : d / 2 ^ j < 2 ^ (k - j) := Nat.div_lt_of_lt_mul (hn ▸ hd)
  obtain ⟨s, hs, hsq⟩ := tri_surjective (k - j) (d / 2 ^ j) hq
  refine ⟨s, hs, d % 2 ^ j, Nat.mod_lt _ hWpos, ?_⟩
  rw [Nat.mod_add_mod]
  have hT := (Nat.div_add_mod (s * (s + 1) / 2) (2 ^ (k - j))).symm
  rw [hsq] at hT
  have hdd := (Nat.div_add_mod d (2 ^ j)).symm
  generalize s * (s + 1) / 2 = T at hT ⊢
  generalize T / 2 ^ (k - j) = c at hT
  have e : p0 + 2 ^ j * T + d % 2 ^ j = p0 + d + 2 ^ k * c := by
    rw [hn, hT]; conv_rhs => rw [hdd]
    ring
  rw [e, Nat.add_mul_mod_self_left, hdi]

theorem disjoint_core (j k p0 s s' l l' : Nat) (hjk : j ≤ k)
    (hs : s < 2 ^ (k - j)) (hs' : s' < 2 ^ (k - j)) (hl : l < 2 ^ j) (hl' : l' < 2 ^ j)
    (h : ((p0 + 2 ^ j * (s * (s + 1) / 2)) % 2 ^ k + l) % 2 ^ k =
         ((p0 + 2 ^ j * (s' * (s' + 1) / 2)) % 2 ^ k + l') % 2 ^ k) : s = s' := by
  have hn := two_pow_split j k hjk
  have hWpos : 0 < 2 ^ j := Nat.two_pow_pos j
  have hmpos : 0 < 2 ^ (k - j) := Nat.two_pow_pos _
  apply tri_injective (k - j) s s' hs hs'
  rw [Nat.mod_add_mod, Nat.mod_add_mod] at h
  -- reduce each side
  have red : ∀ T l : Nat, l < 2 ^ j →
      (p0 + 2 ^ j * T + l) % 2 ^ k = (p0 + (2 ^ j * (T % 2 ^ (k - j)) + l)) % 2 ^ k ∧
      2 ^ j * (T % 2 ^ (k - j)) + l < 2 ^ k := by
    intro T l hl
    have hT := (Nat.div_add_mod T (2 ^ (k - j))).symm
    have hr : T % 2 ^ (k - j) < 2 ^ (k - j) := Nat.mod_lt _ hmpos
    generalize T % 2 ^ (k - j) = r at hT hr ⊢
    generalize T / 2 ^ (k - j) = c at hT
    constructor
    · have e : p0 + 2 ^ j * T + l = p0 + (2 ^ j * r + l) + 2 ^ k * c := by
        rw [hn, hT]; ring
      rw [e, Nat.add_mul_mod_self_left]
    · have h1 : 2 ^ j * (r + 1) ≤ 2 ^ j * 2 ^ (k - j) := Nat.mul_le_mul_left _ hr
      rw [Nat.mul_add, Nat.mul_one] at h1
      omega
  obtain ⟨e1, b1⟩ := red (s * (s + 1) / 2) l hl
  obtain ⟨e2, b2⟩ := red (s' * (s' + 1) / 2) l' hl'
  rw [e1, e2] at h
  have h3 : (2 ^ j * (s * (s + 1) / 2 % 2 ^ (k - j)) + l) % 2 ^ k =
      (2 ^ j * (s' * (s' + 1) / 2 % 2 ^ (k - j)) + l') % 2 ^ k :=
    Nat.ModEq.add_left_cancel' p0 h
  rw [Nat.mod_eq_of_lt b1, Nat.mod_eq_of_lt b2] at h3
  have h4 := congrArg (· / 2 ^ j) h3
  simpa [Nat.mul_add_div hWpos, Nat.div_eq_of_lt hl, Nat.div_eq_of_lt hl'] using h4

/-! ### coverage and disjointness of probe windows -/

theorem mem_window (cfg : Cfg) (t : Raw) (pos i : Nat) :
    i ∈ window cfg t pos ↔ ∃ l, l < cfg.W ∧ (pos + l) &&& t.mask = i := by
  simp [window, List.mem_map, List.mem_range]

/-- The first `max 1 (buckets / W)` probe windows cover every bucket. -/
theorem probe_covers (cfg : Cfg) (hW : cfg.W = 8 ∨ cfg.W = 16) : ProbeCovers cfg := by
  intro t hash i hk hi
  obtain ⟨k, hk⟩ := hk
  have hm : t.mask + 1 = 2 ^ k := hk
  have hmask : t.mask = 2 ^ k - 1 := by omega
  obtain ⟨j, hj⟩ : ∃ j, cfg.W = 2 ^ j := by
    rcases hW with h | h
    · exact ⟨3, h⟩
    · exact ⟨4, h⟩
  rw [hk] at hi
  by_cases hle : cfg.W ≤ t.buckets
  · have hjk : j ≤ k := by
      rw [hj, hk] at hle
      exact (Nat.pow_le_pow_iff_right (by omega)).1 hle
    obtain ⟨s, hs, l, hl, h⟩ := cover_core j k (h1 cfg.bits hash) i hjk hi
    refine ⟨s, ?_, ?_⟩
    · rw [hk, hj, Nat.pow_div hjk (by omega)]
      exact Nat.lt_of_lt_of_le hs (Nat.le_max_right _ _)
    · rw [mem_window]
      refine ⟨l, hj ▸ hl, ?_⟩
      rw [(probePos_closed cfg.W cfg.bits t.mask hash s k hm).2, hmask,
        Nat.and_two_pow_sub_one_eq_mod, hj]
      exact h
  · refine ⟨0, by omega, ?_⟩
    rw [mem_window]
    generalize (probePos cfg.W cfg.bits t.mask hash 0).pos = p0
    obtain ⟨d, hd, hdi⟩ := exists_shift (2 ^ k) p0 i hi
    refine ⟨d, ?_, ?_⟩
    · rw [hk] at hle; omega
    · rw [hmask, Nat.and_two_pow_sub_one_eq_mod]; exact hdi

/-- Two different steps among the first `buckets / W` load disjoint windows. -/
theorem probe_windows_disjoint (cfg : Cfg) (hW : cfg.W = 8 ∨ cfg.W = 16) (t : Raw) (hash : Nat)
    (hk : ∃ k, t.buckets = 2 ^ k) (hle : cfg.W ≤ t.buckets) (s s' : Nat)
    (hs : s < t.buckets / cfg.W) (hs' : s' < t.buckets / cfg.W) (hne : s ≠ s') :
    ∀ i, i ∈ window cfg t (probePos cfg.W cfg.bits t.mask hash s).pos →
      i ∉ window cfg t (probePos cfg.W cfg.bits t.mask hash s').pos := by
  intro i h1' h2'
  obtain ⟨k, hk⟩ := hk
  have hm : t.mask + 1 = 2 ^ k := hk
  have hmask : t.mask = 2 ^ k - 1 := by omega
  obtain ⟨j, hj⟩ : ∃ j, cfg.W = 2 ^ j := by
    rcases hW with h | h
    · exact ⟨3, h⟩
    · exact ⟨4, h⟩
  have hjk : j ≤ k := by
    rw [hj, hk] at hle
    exact (Nat.pow_le_pow_iff_right (by omega)).1 hle
  rw [hk, hj, Nat.pow_div hjk (by omega)] at hs hs'
  rw [mem_window] at h1' h2'
  obtain ⟨l, hl, e⟩ := h1'
  obtain ⟨l', hl', e'⟩ := h2'
  rw [(probePos_closed cfg.W cfg.bits t.mask hash _ k hm).2, hmask,
    Nat.and_two_pow_sub_one_eq_mod, hj] at e e'
  rw [hj] at hl hl'
  exact hne (disjoint_core j k (h1 cfg.bits hash) s s' l l' hjk hs hs' hl hl' (e.trans e'.symm))

/-- The position repeats with period `2 * (buckets / W)` (stated with `W = 2^j`, `buckets = 2^k`). -/
theorem probe_period (W bits mask hash s k j : Nat) (hm : mask + 1 = 2 ^ k) (hW : W = 2 ^ j)
    (hjk : j ≤ k) :
    (probePos W bits mask hash (s + 2 * 2 ^ (k - j))).pos = (probePos W bits mask hash s).pos := by
  rw [(probePos_closed W bits mask hash _ k hm).2, (probePos_closed W bits mask hash s k hm).2]
  have hn := two_pow_split j k hjk
  generalize 2 ^ (k - j) = m at hn
  have e : (s + 2 * m) * (s + 2 * m + 1) = s * (s + 1) + 2 * (m * (2 * s + 2 * m + 1)) := by ring
  rw [e, Nat.add_mul_div_left _ _ (by omega : 0 < 2), hW]
  have e2 : h1 bits hash + 2 ^ j * (s * (s + 1) / 2 + m * (2 * s + 2 * m + 1)) =
      h1 bits hash + 2 ^ j * (s * (s + 1) / 2) + 2 ^ k * (2 * s + 2 * m + 1) := by
    rw [hn]; ring
  rw [e2, Nat.add_mul_mod_self_left]

/-! ### non-vacuity -/

example : (probePos 16 64 63 12345 3).pos = (12345 % 2 ^ 64 + 16 * 6) % 64 := by decide
example : (probePos 16 64 63 12345 3) = { pos := 25, stride := 48 } := by decide
/-- All four windows of a 64-bucket, width-16 table, from an unaligned start. -/
example : (List.range 4).map (fun s => (probePos 16 64 63 12345 s).pos) = [57, 9, 41, 25] := by
  decide

#print axioms tri_injective
#print axioms tri_surjective
#print axioms probePos_closed
#print axioms probe_covers
#print axioms probe_windows_disjoint
#print axioms probe_period

end Hb
