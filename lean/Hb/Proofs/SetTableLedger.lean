/-
C03 / C04 — ownership and allocator LEDGER over `HashTable` histories (`Hb/Model/TableOpsH.lean`:
`TableOp`, `Table.stepH`, `Table.runH`) and over histories on a PAIR of `HashSet`s
(`Hb/Model/SetOps.lean`: `SetOp`, `SetCall`, `Set.step2`, `Set.run2`), for EVERY environment
(arbitrary, call-number dependent `Hash` / `Eq` / `Clone` / predicate answers, arbitrary caller
supplied hashes for the table — ownership does not depend on look-ups being right), element type
with drop glue (`cfg.needsDrop = true`, so that every destructor call is in the log), `CfgOk cfg`.

§0 framed allocator effect `sl_AD` ("whatever other blocks `X` are live, the call turns the block of
   `t` into the block of `t'`, every `free` matched") and `sl_Eff` (= `lx_Eff` of `LedgerX.lean` with
   the framed allocator part; `sl_Eff.toLx`); glue lemmas; primitives (`sl_dropKeyR`, `sl_dropElem`,
   `sl_slotSet`, `sl_removeAt`, `sl_reserve`, `sl_fofis`, `sl_insertInSlot`, `sl_rawInsert`).
§1 `HashTable`: tables `Table.insH` / `Table.retH` (elements moved in / handed back by value), one
   lemma per function (`tl_*`), `table_stepH_ledger`, `table_runH_ledger_from`, `table_runH_ledger`,
   `table_runH_allocInv` (allocator invariant after every prefix), `table_dropAll_ledger`,
   `table_runH_no_double_drop`.
§3 (placed after §2 in the file) `HashTable` calls that UNWIND (C04): `tl_LedgerP`, one lemma per
   function (`tl_*_panic`, transporting `lp_Eff` / `step_ledger_panic` of `LedgerPanic.lean`),
   `table_step_ledger_panic`, `Table.lossy`, `tl_runH_ledger_panics`, `table_no_double_drop_panics`.
   NOT done: the unwinding ledger for `HashSet` pairs (`set_step2_ledger_panic`).
§2 `HashSet` pairs: tables `Set.insK` (objects moved in by the caller + clones created by `|=` / `^=`,
   `Set.bitorClones` / `Set.bitxorClones`, + the object `get_or_insert_with`'s closure makes when it
   runs) / `Set.retK`; one lemma per function (`sk_*`), `set_call_ledger`, `set_step2_ledger`,
   `set_run2_ledger_from`, `set_run2_ledger`, `set_dropAll2_ledger`, `set_run2_no_double_drop`.
-/
import Hb.Proofs.SetTableSafe
import Hb.Proofs.LedgerX
import Hb.Proofs.LedgerPanic
namespace Hb

variable {cfg : Cfg}

/-! ## 0. framed allocator effect -/

/-- Allocator effect of log entries `new` written while table `t` became `t'`, FRAMED by any set `X`
    of other live blocks: if before all frees were matched and the live blocks were the block of
    `t` plus `X`, then afterwards all frees are matched and the live blocks are the block of `t'`
    plus `X`. -/
def sl_AD (cfg : Cfg) (t t' : Raw) (new : List Ev) : Prop :=
  ∀ (L : List Ev) (X : List (Nat × Nat)), freesMatched L →
    List.Perm (liveBlocks L) (hs_blockOf cfg t ++ X) →
    freesMatched (new ++ L) ∧ List.Perm (liveBlocks (new ++ L)) (hs_blockOf cfg t' ++ X)

theorem sl_AD.nil {t t' : Raw} (hb : hs_blockOf cfg t' = hs_blockOf cfg t) : sl_AD cfg t t' [] := by
  intro L X hf hl
  rw [hb]
  exact ⟨hf, hl⟩

theorem sl_AD.trans {t t1 t2 : Raw} {n1 n2 : List Ev} (h1 : sl_AD cfg t t1 n1)
    (h2 : sl_AD cfg t1 t2 n2) : sl_AD cfg t t2 (n2 ++ n1) := by
  intro L X hf hl
  obtain ⟨a, b⟩ := h1 L X hf hl
  rw [List.append_assoc]
  exact h2 (n1 ++ L) X a b

theorem sl_AD.drops {t t' : Raw} {ds : List Ev} (hd : hs_DropOnly ds)
    (hb : hs_blockOf cfg t' = hs_blockOf cfg t) : sl_AD cfg t t' ds := by
  intro L X hf hl
  obtain ⟨e1, e2⟩ := hs_alloc_dropOnly hd L
  rw [e1, hb]
  exact ⟨e2.2 hf, hl⟩

theorem sl_free_step {L : List Ev} {X : List (Nat × Nat)} {s a : Nat} (hf : freesMatched L)
    (hl : List.Perm (liveBlocks L) ((s, a) :: X)) :
    freesMatched (Ev.free s a :: L) ∧ List.Perm (liveBlocks (Ev.free s a :: L)) X := by
  refine ⟨⟨hl.mem_iff.2 List.mem_cons_self, hf⟩, ?_⟩
  show List.Perm ((liveBlocks L).erase (s, a)) X
  have := hl.erase (s, a)
  rwa [List.erase_cons_head] at this

/-- The frame rule for an allocator step. -/
theorem sl_AD.of_astep {w w' : World} {new : List Ev} (h : Inv cfg w.t) (h' : Inv cfg w'.t)
    (hs : hs_AStep cfg w w' new) : sl_AD cfg w.t w'.t new := by
  obtain ⟨_, hcase⟩ := hs
  rcases hcase with ⟨hn, hm⟩ | ⟨hal, hn⟩ | ⟨hal, hn⟩
  · rw [hn]; exact sl_AD.nil (hs_blockOf_congr h h' hm)
  · intro L X hf hl
    rw [hn]
    have hb' : hs_blockOf cfg w'.t =
        [((layoutOf cfg w'.t.buckets).size, (layoutOf cfg w'.t.buckets).align)] := by
      unfold hs_blockOf; rw [if_pos hal]
    rw [hb']
    have h1 : freesMatched (hs_allocEv cfg w'.t :: L) := hf
    unfold freeEvs
    cases hwa : w.t.alloc with
    | false =>
      have hb : hs_blockOf cfg w.t = [] := by unfold hs_blockOf; rw [hwa]; rfl
      rw [hb] at hl
      simp only [Bool.false_eq_true, if_false, List.nil_append, List.singleton_append]
      exact ⟨h1, List.Perm.cons _ hl⟩
    | true =>
      have hb : hs_blockOf cfg w.t =
          [((layoutOf cfg w.t.buckets).size, (layoutOf cfg w.t.buckets).align)] := by
        unfold hs_blockOf; rw [if_pos hwa]
      rw [hb] at hl
      simp only [if_true, List.cons_append, List.nil_append]
      have h2 : List.Perm (liveBlocks (hs_allocEv cfg w'.t :: L))
          (((layoutOf cfg w.t.buckets).size, (layoutOf cfg w.t.buckets).align) ::
            (((layoutOf cfg w'.t.buckets).size, (layoutOf cfg w'.t.buckets).align) :: X)) :=
        (List.Perm.cons _ hl).trans (List.Perm.swap _ _ _)
      exact sl_free_step h1 h2
  · intro L X hf hl
    rw [hn]
    have hb' : hs_blockOf cfg w'.t = [] := by unfold hs_blockOf; rw [hal]; rfl
    rw [hb']
    unfold freeEvs
    cases hwa : w.t.alloc with
    | false =>
      have hb : hs_blockOf cfg w.t = [] := by unfold hs_blockOf; rw [hwa]; rfl
      rw [hb] at hl
      simp only [Bool.false_eq_true, if_false, List.nil_append]
      exact ⟨hf, hl⟩
    | true =>
      have hb : hs_blockOf cfg w.t =
          [((layoutOf cfg w.t.buckets).size, (layoutOf cfg w.t.buckets).align)] := by
        unfold hs_blockOf; rw [if_pos hwa]
      rw [hb] at hl
      simp only [if_true, List.cons_append, List.nil_append]
      exact sl_free_step hf hl

/-- The frame `X = []` gives the single-collection invariant `hs_AllocInv` of `History.lean`. -/
theorem sl_AD.allocInv {w w' : World} {new : List Ev} (ha : sl_AD cfg w.t w'.t new)
    (hl : w'.log = new ++ w.log) (hi : hs_AllocInv cfg w) : hs_AllocInv cfg w' := by
  obtain ⟨f, l⟩ := hi
  obtain ⟨f', l'⟩ := ha w.log [] f (by rw [l, List.append_nil])
  rw [List.append_nil] at l'
  refine ⟨by rw [hl]; exact f', ?_⟩
  rw [hl]
  generalize liveBlocks (new ++ w.log) = lb at l'
  unfold hs_blockOf at l' ⊢
  split at l' <;> rename_i hc
  · rw [if_pos hc]; exact List.perm_singleton.1 l'
  · rw [if_neg hc]; exact List.perm_nil.1 l'

/-- `w ⟶ w'` wrote the log entries `new`; `iK`/`iV` are the key/value objects that entered the
    accounting, `oK`/`oV` those that left it by value: every object stored before or entered is
    afterwards stored, dropped (in `new`) or has left; the allocator effect is framed (`sl_AD`). -/
def sl_Eff (cfg : Cfg) (w w' : World) (iK oK iV oV : List Nat) : Prop :=
  ∃ new, w'.log = new ++ w.log ∧
    List.Perm (kidsOf w'.t.elems ++ droppedK new ++ oK) (kidsOf w.t.elems ++ iK) ∧
    List.Perm (vidsOf w'.t.elems ++ droppedV new ++ oV) (vidsOf w.t.elems ++ iV) ∧
    sl_AD cfg w.t w'.t new

theorem sl_Eff.toLx {w w' : World} {iK oK iV oV : List Nat} (h : sl_Eff cfg w w' iK oK iV oV) :
    lx_Eff cfg w w' iK oK iV oV := by
  obtain ⟨new, l, k, v, a⟩ := h
  exact ⟨new, l, k, v, a.allocInv l⟩

theorem sl_Eff.trans {a b c : World} {i1 o1 j1 p1 i2 o2 j2 p2 : List Nat}
    (h1 : sl_Eff cfg a b i1 o1 j1 p1) (h2 : sl_Eff cfg b c i2 o2 j2 p2) :
    sl_Eff cfg a c (i1 ++ i2) (o1 ++ o2) (j1 ++ j2) (p1 ++ p2) := by
  obtain ⟨n1, l1, k1, v1, a1⟩ := h1
  obtain ⟨n2, l2, k2, v2, a2⟩ := h2
  refine ⟨n2 ++ n1, by rw [l2, l1, List.append_assoc], ?_, ?_, a1.trans a2⟩
  · rw [hs_droppedK_append]; exact hs_perm_glue k1 k2
  · rw [hs_droppedV_append]; exact hs_perm_glue v1 v2

/-- The in/out lists may be replaced by others with the same balance. -/
theorem sl_Eff.to {w w' : World} {iK oK iV oV : List Nat} (h : sl_Eff cfg w w' iK oK iV oV)
    (iK' oK' iV' oV' : List Nat)
    (hK : List.Perm (oK' ++ iK) (oK ++ iK')) (hV : List.Perm (oV' ++ iV) (oV ++ iV')) :
    sl_Eff cfg w w' iK' oK' iV' oV' := by
  obtain ⟨n, l, k, v, a⟩ := h
  refine ⟨n, l, ?_, ?_, a⟩
  · rw [List.perm_iff_count] at *
    intro x
    have h1 := k x
    have h2 := hK x
    simp only [List.count_append] at *
    omega
  · rw [List.perm_iff_count] at *
    intro x
    have h1 := v x
    have h2 := hV x
    simp only [List.count_append] at *
    omega

theorem sl_Eff.right {w w1 w2 : World} {iK oK iV oV : List Nat} (h : sl_Eff cfg w w1 iK oK iV oV)
    (ht : w2.t = w1.t) (hl : w2.log = w1.log) : sl_Eff cfg w w2 iK oK iV oV := by
  unfold sl_Eff at *
  rw [ht, hl]; exact h

theorem sl_Eff.left {w0 w w1 : World} {iK oK iV oV : List Nat} (h : sl_Eff cfg w w1 iK oK iV oV)
    (ht : w0.t = w.t) (hl : w0.log = w.log) : sl_Eff cfg w0 w1 iK oK iV oV := by
  unfold sl_Eff at *
  rw [ht, hl]; exact h

theorem sl_same {w w' : World} (ht : w'.t = w.t) (hl : w'.log = w.log) :
    sl_Eff cfg w w' [] [] [] [] :=
  ⟨[], by rw [hl]; rfl, by rw [ht]; simp [droppedK], by rw [ht]; simp [droppedV],
    sl_AD.nil (by rw [ht])⟩

/-- Destructor calls on objects that were not stored. -/
theorem sl_drops {w w' : World} {ds : List Ev} (ht : w'.t = w.t) (hl : w'.log = ds ++ w.log)
    (hd : hs_DropOnly ds) : sl_Eff cfg w w' (droppedK ds) [] (droppedV ds) [] :=
  ⟨ds, hl, by rw [ht]; simp, by rw [ht]; simp, sl_AD.drops hd (by rw [ht])⟩

/-- An allocator step (or none) together with a change of the stored elements. -/
theorem sl_astep {w w' : World} {new : List Ev} {iK oK iV oV : List Nat}
    (h : Inv cfg w.t) (h' : Inv cfg w'.t) (hA : hs_AStep cfg w w' new)
    (hK : List.Perm (kidsOf w'.t.elems ++ oK) (kidsOf w.t.elems ++ iK))
    (hV : List.Perm (vidsOf w'.t.elems ++ oV) (vidsOf w.t.elems ++ iV)) :
    sl_Eff cfg w w' iK oK iV oV := by
  refine ⟨new, hA.1, ?_, ?_, sl_AD.of_astep h h' hA⟩
  · rw [hA.dropped.1, List.append_nil]; exact hK
  · rw [hA.dropped.2, List.append_nil]; exact hV

/-- A change of the stored elements inside the same block, nothing logged. -/
theorem sl_inplace {w w' : World} {iK oK iV oV : List Nat}
    (h : Inv cfg w.t) (h' : Inv cfg w'.t) (hl : w'.log = w.log) (hm : w'.t.mask = w.t.mask)
    (hK : List.Perm (kidsOf w'.t.elems ++ oK) (kidsOf w.t.elems ++ iK))
    (hV : List.Perm (vidsOf w'.t.elems ++ oV) (vidsOf w.t.elems ++ iV)) :
    sl_Eff cfg w w' iK oK iV oV :=
  sl_astep h h' ((hs_AStep.refl w).congr hl hm (ag_alloc_eq h h' hm)) hK hV

theorem sl_dropped_rev (hnd : cfg.needsDrop = true) (l : List Elem) :
    List.Perm (droppedK (dropEvs cfg l.reverse)) (kidsOf l) ∧
    List.Perm (droppedV (dropEvs cfg l.reverse)) (vidsOf l) := by
  rw [(hs_dropped_dropEvs hnd l.reverse).1, (hs_dropped_dropEvs hnd l.reverse).2]
  exact ⟨(List.reverse_perm l).map _, (List.reverse_perm l).map _⟩

theorem sl_kidsOf_nil : kidsOf [] = [] := rfl
theorem sl_vidsOf_nil : vidsOf [] = [] := rfl
theorem sl_droppedK_nil : droppedK [] = [] := rfl
theorem sl_droppedV_nil : droppedV [] = [] := rfl

/-- Closing tactic for the balance goals: count occurrences, using the listed `Perm` facts. -/
macro "sl_count" "[" hs:term,* "]" : tactic => do
  let tacs ← hs.getElems.mapM fun h => `(tactic| have := (List.perm_iff_count.1 $h) x)
  `(tactic| (rw [List.perm_iff_count]; intro x; $[$tacs]*;
             simp only [List.count_append, List.count_nil, List.append_nil, List.nil_append,
               hs_droppedK_append, hs_droppedV_append, sl_kidsOf_nil, sl_vidsOf_nil,
               sl_droppedK_nil, sl_droppedV_nil] at *;
             omega))

/-! ### primitives -/

theorem sl_dropKeyR (hnd : cfg.needsDrop = true) (env : Env) (kid : Nat) (w : World) :
    lx_R (dropKeyR cfg env kid w) (fun w' => w'.t = w.t ∧ sl_Eff cfg w w' [kid] [] [] []) := by
  rcases ag_dropKeyR (cfg := cfg) env kid w with ⟨w', d1, d2, d3⟩ | ⟨w', d1, d2, d3⟩
  · rw [d1]
    rw [if_pos hnd] at d3
    exact ⟨d2, sl_drops d2 d3 (fun ev hev => ⟨kid, Or.inl (List.mem_singleton.1 hev)⟩)⟩
  · rw [d1]; trivial

/-- Drop of a whole element that is not (any more) stored. -/
theorem sl_dropElem (hnd : cfg.needsDrop = true) (env : Env) (e : Elem) (w : World) :
    (dropElem cfg env e w).2.t = w.t ∧
    sl_Eff cfg w (dropElem cfg env e w).2 [e.kid] [] [e.vid] [] := by
  have hl : (dropElem cfg env e w).2.log = [Ev.dropV e.vid, Ev.dropK e.kid] ++ w.log := by
    unfold dropElem; rw [if_pos hnd]; rfl
  have ht := ts_dropElem_t (cfg := cfg) env e w
  refine ⟨ht, sl_drops ht hl ?_⟩
  intro ev hev
  simp only [List.mem_cons, List.not_mem_nil, or_false] at hev
  rcases hev with rfl | rfl
  · exact ⟨_, Or.inr rfl⟩
  · exact ⟨_, Or.inl rfl⟩

theorem sl_dropElemR (hnd : cfg.needsDrop = true) (env : Env) (e : Elem) (w : World) :
    lx_R (Table.dropElemR cfg env e w)
      (fun w' => w'.t = w.t ∧ sl_Eff cfg w w' [e.kid] [] [e.vid] []) := by
  obtain ⟨a, b⟩ := sl_dropElem hnd env e w
  unfold Table.dropElemR
  cases hd : dropElem cfg env e w with
  | mk p w2 =>
    rw [hd] at a b
    cases p with
    | true => simp only [if_true]; trivial
    | false => simp only [Bool.false_eq_true, if_false]; exact ⟨a, b⟩

/-- Overwriting the live slot `idx` (holding `old`) with `e'`. -/
theorem sl_slotSet {w : World} (h : TInv cfg w.t) {idx : Nat} {old : Elem}
    (he : w.t.slots[idx]?.join = some old) (e' : Elem) :
    sl_Eff cfg w { w with t := Map.slotSet w.t idx e' } [e'.kid] [old.kid] [e'.vid] [old.vid] := by
  have hrep := hs_elems_replace he e'
  have hT := en_slotSet_TInv h he e'
  refine sl_inplace h.1 hT.1 rfl rfl ?_ ?_
  · have := hrep.map Elem.kid
    simp only [List.map_cons] at this
    exact (List.perm_append_singleton _ _).trans (this.trans (List.perm_append_singleton _ _).symm)
  · have := hrep.map Elem.vid
    simp only [List.map_cons] at this
    exact (List.perm_append_singleton _ _).trans (this.trans (List.perm_append_singleton _ _).symm)

/-- `RawTable::remove(bucket)`: the element leaves the table. -/
theorem sl_removeAt (hc : CfgOk cfg) {w : World} (h : TInv cfg w.t) {idx : Nat} {old : Elem}
    (he : w.t.slots[idx]?.join = some old) :
    ∃ t', removeAt cfg w.t idx = .ok (old, t') ∧ TInv cfg t' ∧ t'.mask = w.t.mask ∧
      sl_Eff cfg w { w with t := t' } [] [old.kid] [] [old.vid] := by
  obtain ⟨hi, hf⟩ := en_live h.1 he
  obtain ⟨x, t', r1, r2, r3, r4, _, r6, r7, _⟩ := removeAt_inv hc h.1 hi hf
  rw [he] at r2
  cases r2
  have hperm : List.Perm (old :: t'.elems) w.t.elems := elems_take_perm (rf_join_some.mp he) r7
  refine ⟨t', r1, h.of_inv r3 r4, r4, sl_inplace h.1 r3 rfl r4 ?_ ?_⟩
  · have := hperm.map Elem.kid
    simp only [List.map_cons] at this
    simpa [kidsOf] using (List.perm_append_singleton _ _).trans this
  · have := hperm.map Elem.vid
    simp only [List.map_cons] at this
    simpa [vidsOf] using (List.perm_append_singleton _ _).trans this

/-- `RawTable::reserve`: same elements, at most an allocator step. -/
theorem sl_reserve (hc : CfgOk cfg) (env : Env) (n : Nat) (w : World) (h : TInv cfg w.t) :
    lx_R (Hb.reserve cfg env n w) (fun w' => TInv cfg w'.t ∧ sl_Eff cfg w w' [] [] [] []) := by
  have hres := reserve_spec hc hc.probe env n w h
  have hex := hs_reserve_exact hc hc.probe env n w h
  cases hr : Hb.reserve cfg env n w with
  | ok w1 =>
    rw [hr] at hres hex
    obtain ⟨a1, _, a3, _⟩ := hres
    obtain ⟨new, hA⟩ := hex
    exact ⟨a1, sl_astep h.1 a1.1 hA (lx_perm_same a3).1 (lx_perm_same a3).2⟩
  | panic c w' => trivial
  | abort => trivial
  | fault f => trivial

/-- `find_or_find_insert_slot` (= `reserve(1)` + search): same elements, at most an allocator step;
    an occupied bucket holds a live element, a vacant slot is fit for `insert_in_slot`. -/
theorem sl_fofis (hc : CfgOk cfg) (env : Env) (hash q : Nat) (w : World) (h : TInv cfg w.t) :
    lx_R (findOrFindInsertSlot cfg env hash q w) (fun a =>
      TInv cfg a.2.t ∧ sl_Eff cfg w a.2 [] [] [] [] ∧
      match a.1 with
      | .ok idx => ∃ x, a.2.t.slots[idx]?.join = some x
      | .error slot => slot < a.2.t.buckets ∧ isSpecial (a.2.t.ctrlAt slot) = true ∧
          (a.2.t.ctrlAt slot = EMPTY → 0 < a.2.t.gl) ∧ a.2.t.alloc = true) := by
  have h1 := findOrFindInsertSlot_spec hc hc.probe env hash q w h
  have h2 := hs_fofis_exact hc hc.probe env hash q w h
  cases hr : findOrFindInsertSlot cfg env hash q w with
  | ok pr =>
    obtain ⟨r, w'⟩ := pr
    rw [hr] at h1 h2
    obtain ⟨new, hA⟩ := h2
    cases r with
    | ok idx =>
      obtain ⟨a1, _, _, a4, a5, _⟩ := h1
      exact ⟨a1, sl_astep h.1 a1.1 hA (lx_perm_same a5).1 (lx_perm_same a5).2, a4⟩
    | error slot =>
      obtain ⟨a1, a2, a3, a4, _, a6, a7, _⟩ := h1
      exact ⟨a1, sl_astep h.1 a1.1 hA (lx_perm_same a7).1 (lx_perm_same a7).2, a2, a3, a4, a6⟩
  | panic c w' => trivial
  | abort => trivial
  | fault f => trivial

/-- `insert_in_slot` at a slot `find_or_find_insert_slot` (or `remove`) left fit for it. -/
theorem sl_insertInSlot (hc : CfgOk cfg) {w : World} (h : TInv cfg w.t) {slot : Nat}
    (hs : slot < w.t.buckets) (hsp : isSpecial (w.t.ctrlAt slot) = true)
    (hgl : w.t.ctrlAt slot = EMPTY → 0 < w.t.gl) (ha : w.t.alloc = true) (hash : Nat) (e : Elem) :
    ∃ t', insertInSlot cfg w.t hash slot e = .ok t' ∧ TInv cfg t' ∧
      sl_Eff cfg w { w with t := t' } [e.kid] [] [e.vid] [] := by
  obtain ⟨t', b1, b2, b3, _, _, b6, _⟩ := ag_insertInSlot hc h ha hs hsp hgl e hash
  exact ⟨t', b1, b2, sl_inplace h.1 b2.1 rfl b3 (lx_ins_perm b6).1 (lx_ins_perm b6).2⟩

/-- `RawTable::insert`: the element is stored; at most an allocator step is logged. -/
theorem sl_rawInsert (hc : CfgOk cfg) (env : Env) (hash : Nat) (e : Elem) (w : World)
    (h : TInv cfg w.t) :
    lx_R (rawInsert cfg env hash e w)
      (fun a => TInv cfg a.2.t ∧ sl_Eff cfg w a.2 [e.kid] [] [e.vid] []) := by
  have hp := hc.probe
  obtain ⟨slot, hfs, hlt, hsp⟩ := findInsertSlot_ok hc hp h.1 hash
  have hsz : slot < w.t.ctrl.size := by have := h.1.buckets_le_size hc; omega
  unfold rawInsert
  simp only [hfs, ctrlRd_ok hsz]
  by_cases hbr : w.t.gl = 0 ∧ specialIsEmpty (w.t.ctrlAt slot) = true
  · rw [if_pos hbr]
    have hres := reserve_spec hc hp env 1 w h
    have hex := hs_reserve_exact hc hp env 1 w h
    cases hr : reserve cfg env 1 w with
    | ok w1 =>
      rw [hr] at hres hex
      obtain ⟨a1, a2, a3, _, a5, a6, a7, _⟩ := hres
      obtain ⟨new, hA⟩ := hex
      obtain ⟨slot', hfs', hlt', hsp'⟩ := findInsertSlot_ok hc hp a1.1 hash
      obtain ⟨t', b1, b2, b3, b4, _, b6, _⟩ :=
        ag_insertInSlot hc a1 (a6 (by omega)) hlt' hsp' (fun _ => by omega) e hash
      simp only [hfs', b1]
      have hperm := b6.trans (List.Perm.cons e a3)
      have hA' : hs_AStep cfg w { w1 with t := t' } new :=
        hA.congr rfl b3 (by rw [b4, a6 (by omega)])
      exact ⟨b2, sl_astep h.1 b2.1 hA' (lx_ins_perm hperm).1 (lx_ins_perm hperm).2⟩
    | panic c w' => trivial
    | abort => trivial
    | fault f => trivial
  · rw [if_neg hbr]
    have hold := special_cases (h.1.validAt slot) hsp
    have hge : w.t.ctrlAt slot = EMPTY → 0 < w.t.gl := by
      intro he
      have : specialIsEmpty (w.t.ctrlAt slot) = true := by rw [he]; decide
      by_contra hn
      exact hbr ⟨by omega, this⟩
    have ha : w.t.alloc = true := by
      cases hal : w.t.alloc with
      | true => rfl
      | false =>
        exfalso
        have hs := ag_singleton_of_not_alloc h.1 hal
        have h0 : slot = 0 := by have := hs.2.1; simp only [Raw.buckets] at hlt; omega
        have hW : 0 < cfg.W := by rcases hc.W_cases with hW | hW <;> omega
        have hE : w.t.ctrlAt slot = EMPTY := by
          rw [h0]; simp [Raw.ctrlAt, hs.2.2.1, hW]
        have := hge hE
        have := hs.2.2.2.2.2
        omega
    obtain ⟨t', b1, b2, b3, _, _, b6, _⟩ := ag_insertInSlot hc h ha hlt hsp hge e hash
    simp only [b1]
    exact ⟨b2, sl_inplace h.1 b2.1 rfl b3 (lx_ins_perm b6).1 (lx_ins_perm b6).2⟩

/-! ## 1. `HashTable` -/

/-- Elements MOVED INTO the table by one call (a table element is one object: identity `kid`; the
    `vid` component is carried along and obeys the same equation). `find_entry` + `remove` with
    `re = some ne` moves `ne` in (it is stored in the freed bucket, or dropped when the entry is
    absent); `entry(..).insert(ne)` / `.or_insert(ne)` move `ne` in (stored, or — `or_insert` on an
    occupied entry — dropped). Look-ups, writes through `&mut T`, bulk removals, capacity calls and
    observations move nothing in. -/
def Table.insH : TableOp → List Elem
  | .find _ _ => []
  | .findMut _ _ _ => []
  | .insertUnique _ e => [e]
  | .findEntryRemove _ _ re => re.toList
  | .entryInsert _ _ ne => [ne]
  | .entryOrInsert _ _ ne => [ne]
  | .entryAndModify _ _ _ => []
  | .retain => []
  | .extractIf _ => []
  | .drain _ _ => []
  | .clear => []
  | .reserve _ => []
  | .shrinkTo _ => []
  | .getManyMut _ _ => []
  | .iterHash _ => []
  | .iter _ => []
  | .len => []

/-- Elements handed back to the caller BY VALUE by call `op` returning `r`: the element
    `OccupiedEntry::remove` returns, the elements `extract_if` / `drain` yielded. Everything else
    returns references, flags or nothing. -/
def Table.retH : TableOp → TRet → List Elem
  | .findEntryRemove _ _ _, .elem r => r.toList
  | .extractIf _, .elems l => l
  | .drain _ _, .elems l => l
  | _, _ => []

theorem tl_setV_kid (e : Elem) (nv : Nat) : (Table.setV cfg e nv).kid = e.kid := by
  unfold Table.setV; split <;> rfl

theorem tl_setV_vid (e : Elem) (nv : Nat) : (Table.setV cfg e nv).vid = e.vid := by
  unfold Table.setV; split <;> rfl

/-- A write through `&mut T` that keeps the object. -/
theorem sl_setV {w : World} (h : TInv cfg w.t) {idx : Nat} {old : Elem}
    (he : w.t.slots[idx]?.join = some old) (nv : Nat) :
    sl_Eff cfg w { w with t := Map.slotSet w.t idx (Table.setV cfg old nv) } [] [] [] [] :=
  (sl_slotSet h he (Table.setV cfg old nv)).to [] [] [] []
    (by rw [tl_setV_kid]; lx_perm) (by rw [tl_setV_vid]; lx_perm)

theorem tl_findElem (hc : CfgOk cfg) (env : Env) (hash q : Nat) (w : World) (h : TInv cfg w.t) :
    lx_R (Table.findElem cfg env hash q w) (fun a => sl_Eff cfg w a.2 [] [] [] []) := by
  rcases find_total hc hc.probe env hash q w h.1 with ⟨r, w', k1, k2, k3, _, k5⟩ | ⟨w', k1, k2, _⟩
  · cases r with
    | none =>
      simp only [Table.findElem, k1, bind, Res.bind, pure]
      exact sl_same k2 k3
    | some idx =>
      obtain ⟨_, _, x, hx⟩ := k5 idx rfl
      have hx' : w'.t.slots[idx]?.join = some x := by rw [k2]; exact hx
      simp only [Table.findElem, k1, bind, Res.bind, slotGet_ok hx', liftE, pure]
      exact sl_same k2 k3
  · simp only [Table.findElem, k1, bind, Res.bind]
    trivial

theorem tl_findMut (hc : CfgOk cfg) (env : Env) (hash q nv : Nat) (w : World) (h : TInv cfg w.t) :
    lx_R (Table.findMut cfg env hash q nv w) (fun a => sl_Eff cfg w a.2 [] [] [] []) := by
  rcases find_total hc hc.probe env hash q w h.1 with ⟨r, w', k1, k2, k3, _, k5⟩ | ⟨w', k1, k2, _⟩
  · cases r with
    | none =>
      simp only [Table.findMut, k1, bind, Res.bind, pure]
      exact sl_same k2 k3
    | some idx =>
      obtain ⟨_, _, x, hx⟩ := k5 idx rfl
      have hx' : w'.t.slots[idx]?.join = some x := by rw [k2]; exact hx
      simp only [Table.findMut, k1, bind, Res.bind, slotGet_ok hx', liftE, pure]
      exact (sl_setV (by rw [k2]; exact h) hx' nv).left k2.symm k3.symm
  · simp only [Table.findMut, k1, bind, Res.bind]
    trivial

theorem tl_insertUnique (hc : CfgOk cfg) (env : Env) (hash : Nat) (e : Elem) (w : World)
    (h : TInv cfg w.t) :
    lx_R (Table.insertUnique cfg env hash e w)
      (fun w' => sl_Eff cfg w w' [e.kid] [] [e.vid] []) := by
  have hs := (sl_rawInsert hc env hash e w h).onPanic (g := (·.dropElemQuiet cfg e))
  unfold Table.insertUnique
  cases hr : (rawInsert cfg env hash e w).onPanic (·.dropElemQuiet cfg e) with
  | ok pr => obtain ⟨i, w'⟩ := pr; rw [hr] at hs; exact hs.2
  | panic c w' => trivial
  | abort => trivial
  | fault f => trivial

theorem tl_findEntryRemove (hc : CfgOk cfg) (hnd : cfg.needsDrop = true) (env : Env)
    (hash q : Nat) (re : Option Elem) (w : World) (h : TInv cfg w.t) :
    lx_R (Table.findEntryRemove cfg env hash q re w) (fun a =>
      sl_Eff cfg w a.2 (kidsOf re.toList) (kidsOf a.1.toList) (vidsOf re.toList)
        (vidsOf a.1.toList)) := by
  rcases find_total hc hc.probe env hash q w h.1 with ⟨r, w1, k1, k2, k3, _, k5⟩ | ⟨w1, k1, k2, _⟩
  · have hT1 : TInv cfg w1.t := by rw [k2]; exact h
    cases r with
    | some idx =>
      obtain ⟨k3', k4, old0, k6⟩ := k5 idx rfl
      obtain ⟨old, t1, r1, r2, r3, r4, r5, r6, r7, r8, r9, r10⟩ := removeAt_inv hc h.1 k3' k4
      have he : w1.t.slots[idx]?.join = some old := by rw [k2]; exact r2
      obtain ⟨t1', r1', hT', hm, hrem⟩ := sl_removeAt hc hT1 he
      rw [k2, r1] at r1'
      simp only [Except.ok.injEq, Prod.mk.injEq, true_and] at r1'
      subst r1'
      cases re with
      | none =>
        simp only [Table.findEntryRemove, k1, Res.onPanic, k2, r1]
        exact hrem.left k2.symm k3.symm
      | some ne =>
        have ha := h.1.alloc_of_full hc k3' k4
        have hbk : t1.buckets = w.t.buckets := by simp only [Raw.buckets_eq, r4]
        have hsp : isSpecial (t1.ctrlAt idx) = true := by
          rcases r9 with r9 | r9 <;> rw [r9] <;> decide
        have hgl : t1.ctrlAt idx = EMPTY → 0 < t1.gl := by
          intro he; rw [r10, if_pos he]; omega
        obtain ⟨t2, b1, b2, eff2⟩ := sl_insertInSlot hc (w := { w1 with t := t1 }) hT'
          (by rw [hbk]; exact k3') hsp hgl (by show t1.alloc = true; rw [r5, ha]) hash ne
        simp only [Table.findEntryRemove, k1, Res.onPanic, k2, r1, b1]
        show sl_Eff cfg w _ [ne.kid] [old.kid] [ne.vid] [old.vid]
        exact ((hrem.trans eff2).left k2.symm k3.symm).to _ _ _ _ (by lx_perm) (by lx_perm)
    | none =>
      cases re with
      | none =>
        simp only [Table.findEntryRemove, k1, Res.onPanic]
        exact sl_same k2 k3
      | some ne =>
        have hd := sl_dropElemR hnd env ne w1
        simp only [Table.findEntryRemove, k1, Res.onPanic]
        cases hr : Table.dropElemR cfg env ne w1 with
        | ok w2 =>
          rw [hr] at hd
          show sl_Eff cfg w _ [ne.kid] [] [ne.vid] []
          exact hd.2.left k2.symm k3.symm
        | panic c w2 => trivial
        | abort => trivial
        | fault f => trivial
  · simp only [Table.findEntryRemove, k1, Res.onPanic]
    trivial

theorem tl_entryInsert (hc : CfgOk cfg) (hnd : cfg.needsDrop = true) (env : Env) (hash q : Nat)
    (ne : Elem) (w : World) (h : TInv cfg w.t) :
    lx_R (Table.entryInsert cfg env hash q ne w)
      (fun a => sl_Eff cfg w a.2 [ne.kid] [] [ne.vid] []) := by
  have hs := sl_fofis hc env hash q w h
  unfold Table.entryInsert Table.entry
  cases hr : findOrFindInsertSlot cfg env hash q w with
  | ok pr =>
    obtain ⟨r, w1⟩ := pr
    rw [hr] at hs
    obtain ⟨a1, eff, a3⟩ := hs
    cases r with
    | ok idx =>
      obtain ⟨x, a2⟩ := a3
      simp only [Res.onPanic, slotGet_ok a2]
      have hset := sl_slotSet a1 a2 ne
      obtain ⟨dt, deff⟩ := sl_dropElem hnd env x
        { w1 with t := { w1.t with slots := w1.t.slots.setIfInBounds idx (some ne) } }
      cases hd : dropElem cfg env x
          { w1 with t := { w1.t with slots := w1.t.slots.setIfInBounds idx (some ne) } } with
      | mk p w2 =>
        rw [hd] at dt deff
        cases p with
        | true => simp only [if_true]; trivial
        | false =>
          simp only [Bool.false_eq_true, if_false]
          exact ((eff.trans hset).trans deff).to _ _ _ _ (by lx_perm) (by lx_perm)
    | error slot =>
      obtain ⟨b1, b2, b3, b4⟩ := a3
      obtain ⟨t', c1, c2, eff2⟩ := sl_insertInSlot hc a1 b1 b2 b3 b4 hash ne
      simp only [Res.onPanic, c1]
      exact (eff.trans eff2).to _ _ _ _ (by lx_perm) (by lx_perm)
  | panic c w' => trivial
  | abort => trivial
  | fault f => trivial

theorem tl_entryOrInsert (hc : CfgOk cfg) (hnd : cfg.needsDrop = true) (env : Env) (hash q : Nat)
    (ne : Elem) (w : World) (h : TInv cfg w.t) :
    lx_R (Table.entryOrInsert cfg env hash q ne w)
      (fun a => sl_Eff cfg w a.2 [ne.kid] [] [ne.vid] []) := by
  have hs := sl_fofis hc env hash q w h
  unfold Table.entryOrInsert Table.entry
  cases hr : findOrFindInsertSlot cfg env hash q w with
  | ok pr =>
    obtain ⟨r, w1⟩ := pr
    rw [hr] at hs
    obtain ⟨a1, eff, a3⟩ := hs
    cases r with
    | ok idx =>
      simp only [Res.onPanic]
      have hd := sl_dropElemR hnd env ne w1
      cases hq : Table.dropElemR cfg env ne w1 with
      | ok w2 =>
        rw [hq] at hd
        exact (eff.trans hd.2).to _ _ _ _ (by lx_perm) (by lx_perm)
      | panic c w2 => trivial
      | abort => trivial
      | fault f => trivial
    | error slot =>
      obtain ⟨b1, b2, b3, b4⟩ := a3
      obtain ⟨t', c1, c2, eff2⟩ := sl_insertInSlot hc a1 b1 b2 b3 b4 hash ne
      simp only [Res.onPanic, c1]
      exact (eff.trans eff2).to _ _ _ _ (by lx_perm) (by lx_perm)
  | panic c w' => trivial
  | abort => trivial
  | fault f => trivial

theorem tl_entryAndModify (hc : CfgOk cfg) (env : Env) (hash q nv : Nat) (w : World)
    (h : TInv cfg w.t) :
    lx_R (Table.entryAndModify cfg env hash q nv w) (fun a => sl_Eff cfg w a.2 [] [] [] []) := by
  have hs := sl_fofis hc env hash q w h
  unfold Table.entryAndModify Table.entry
  cases hr : findOrFindInsertSlot cfg env hash q w with
  | ok pr =>
    obtain ⟨r, w1⟩ := pr
    rw [hr] at hs
    obtain ⟨a1, eff, a3⟩ := hs
    cases r with
    | ok idx =>
      obtain ⟨x, a2⟩ := a3
      simp only [bind, Res.bind, slotGet_ok a2, liftE, pure]
      exact (eff.trans (sl_setV a1 a2 nv)).to _ _ _ _ (by lx_perm) (by lx_perm)
    | error slot =>
      simp only [bind, Res.bind, pure]
      exact eff
  | panic c w' => simp only [bind, Res.bind]; trivial
  | abort => simp only [bind, Res.bind]; trivial
  | fault f => simp only [bind, Res.bind]; trivial

/-- The writes through the references `get_many_mut` returned keep every object. -/
theorem tl_go : ∀ (l : List (Option Nat)) (i : Nat) (t t' : Raw) (acc out : List (Option Elem)),
    Table.getManyMut.go cfg l i t acc = .ok (out, t') →
    t'.mask = t.mask ∧ List.Perm (kidsOf t'.elems) (kidsOf t.elems) ∧
      List.Perm (vidsOf t'.elems) (vidsOf t.elems) := by
  intro l
  induction l with
  | nil =>
    intro i t t' acc out h
    simp only [Table.getManyMut.go] at h
    cases h
    exact ⟨rfl, List.Perm.refl _, List.Perm.refl _⟩
  | cons o rest ih =>
    intro i t t' acc out h
    cases o with
    | none =>
      simp only [Table.getManyMut.go] at h
      exact ih (i + 1) t t' _ out h
    | some p =>
      simp only [Table.getManyMut.go] at h
      cases hg : slotGet t p with
      | error f => rw [hg] at h; cases h
      | ok e =>
        rw [hg] at h
        simp only at h
        obtain ⟨m1, k1, v1⟩ := ih (i + 1) _ t' _ out h
        have hrep := hs_elems_replace (lx_slotGet_inv hg) (Table.setV cfg e (e.v + 1000 * (i + 1)))
        refine ⟨m1, k1.trans ?_, v1.trans ?_⟩
        · have := hrep.map Elem.kid
          simp only [List.map_cons, tl_setV_kid] at this
          exact this.cons_inv
        · have := hrep.map Elem.vid
          simp only [List.map_cons, tl_setV_vid] at this
          exact this.cons_inv

theorem tl_getManyMut (hc : CfgOk cfg) (env : Env) (any : Bool) (reqs : List (Nat × Nat))
    (w : World) (h : TInv cfg w.t) :
    lx_R (Table.getManyMut cfg env any reqs w) (fun a => lx_Eff cfg w a.2 [] [] [] []) := by
  have hsafe := st_getManyMut (A := True) hc env any reqs w h
  unfold Table.getManyMut at hsafe ⊢
  rcases ts_getManyLoop_spec hc hc.probe env any w.t h.1 reqs w [] rfl with
    ⟨idxs, w1, a1, a2, a3, _, _⟩ | ⟨w', a1, _⟩
  · simp only [List.reverse_nil, List.nil_append] at a1
    rw [a1] at hsafe ⊢
    by_cases hd : Table.hasDup cfg idxs = true
    · simp only [hd, if_true]; trivial
    · simp only [hd] at hsafe ⊢
      cases hb : Table.getManyMut.go cfg idxs 0 w1.t [] with
      | error f => trivial
      | ok pr =>
        obtain ⟨es, t'⟩ := pr
        rw [hb] at hsafe
        have hT' : TInv cfg t' := hsafe
        obtain ⟨m1, k1, v1⟩ := tl_go idxs 0 w1.t t' [] es hb
        refine (lx_inplace (w := w1) (w' := { w1 with t := t' }) (by rw [a2]; exact h.1) hT'.1
          rfl m1 ?_ ?_).left a2.symm a3.symm
        · simpa using k1
        · simpa using v1
  · rw [a1]; trivial

/-- **T-L1 — ledger of one returned `HashTable` call.** Element type with drop glue, EVERY
    environment and every caller-supplied hash, any valid table, any call of `TableOp` (except the
    `mem::forget`-ed drain, which leaks by design) that returns `r`: with `new` the log entries the
    call wrote, as multisets of object identities
      `stored after ++ dropped by the table (in new) ++ handed back = stored before ++ moved in`
    (`Table.insH`, `Table.retH`), and the allocator invariant `hs_AllocInv` (all frees matched, the
    only live block is the table's own, none for the unallocated singleton) is kept. -/
theorem table_stepH_ledger (hc : CfgOk cfg) (hnd : cfg.needsDrop = true) (env : Env) (op : TableOp)
    (w : World) (h : TInv cfg w.t) (hop : ∀ n, op ≠ .drain n true) {r : TRet} {w' : World}
    (hs : Table.stepH cfg env op w = .ok (r, w')) :
    ∃ new, w'.log = new ++ w.log ∧
      List.Perm (kidsOf w'.t.elems ++ droppedK new ++ kidsOf (Table.retH op r))
        (kidsOf w.t.elems ++ kidsOf (Table.insH op)) ∧
      List.Perm (vidsOf w'.t.elems ++ droppedV new ++ vidsOf (Table.retH op r))
        (vidsOf w.t.elems ++ vidsOf (Table.insH op)) ∧
      (hs_AllocInv cfg w → hs_AllocInv cfg w') := by
  show lx_Eff cfg w w' (kidsOf (Table.insH op)) (kidsOf (Table.retH op r))
    (vidsOf (Table.insH op)) (vidsOf (Table.retH op r))
  cases op with
  | find hash q =>
    have hl := tl_findElem hc (Table.envFor cfg env) hash q w h
    simp only [Table.stepH] at hs
    cases hr : Table.findElem cfg (Table.envFor cfg env) hash q w with
    | ok pr => obtain ⟨r0, w0⟩ := pr; rw [hr] at hs hl; cases hs; exact hl.toLx
    | panic c w0 => rw [hr] at hs; cases hs
    | abort => rw [hr] at hs; cases hs
    | fault f => rw [hr] at hs; cases hs
  | findMut hash q nv =>
    have hl := tl_findMut hc (Table.envFor cfg env) hash q nv w h
    simp only [Table.stepH] at hs
    cases hr : Table.findMut cfg (Table.envFor cfg env) hash q nv w with
    | ok pr => obtain ⟨r0, w0⟩ := pr; rw [hr] at hs hl; cases hs; exact hl.toLx
    | panic c w0 => rw [hr] at hs; cases hs
    | abort => rw [hr] at hs; cases hs
    | fault f => rw [hr] at hs; cases hs
  | insertUnique hash e =>
    have hl := tl_insertUnique hc (Table.envFor cfg env) hash e w h
    simp only [Table.stepH] at hs
    cases hr : Table.insertUnique cfg (Table.envFor cfg env) hash e w with
    | ok w0 => rw [hr] at hs hl; cases hs; exact hl.toLx
    | panic c w0 => rw [hr] at hs; cases hs
    | abort => rw [hr] at hs; cases hs
    | fault f => rw [hr] at hs; cases hs
  | findEntryRemove hash q re =>
    have hl := tl_findEntryRemove hc hnd (Table.envFor cfg env) hash q re w h
    simp only [Table.stepH] at hs
    cases hr : Table.findEntryRemove cfg (Table.envFor cfg env) hash q re w with
    | ok pr => obtain ⟨r0, w0⟩ := pr; rw [hr] at hs hl; cases hs; exact hl.toLx
    | panic c w0 => rw [hr] at hs; cases hs
    | abort => rw [hr] at hs; cases hs
    | fault f => rw [hr] at hs; cases hs
  | entryInsert hash q ne =>
    have hl := tl_entryInsert hc hnd (Table.envFor cfg env) hash q ne w h
    simp only [Table.stepH] at hs
    cases hr : Table.entryInsert cfg (Table.envFor cfg env) hash q ne w with
    | ok pr => obtain ⟨r0, w0⟩ := pr; rw [hr] at hs hl; cases hs; exact hl.toLx
    | panic c w0 => rw [hr] at hs; cases hs
    | abort => rw [hr] at hs; cases hs
    | fault f => rw [hr] at hs; cases hs
  | entryOrInsert hash q ne =>
    have hl := tl_entryOrInsert hc hnd (Table.envFor cfg env) hash q ne w h
    simp only [Table.stepH] at hs
    cases hr : Table.entryOrInsert cfg (Table.envFor cfg env) hash q ne w with
    | ok pr => obtain ⟨r0, w0⟩ := pr; rw [hr] at hs hl; cases hs; exact hl.toLx
    | panic c w0 => rw [hr] at hs; cases hs
    | abort => rw [hr] at hs; cases hs
    | fault f => rw [hr] at hs; cases hs
  | entryAndModify hash q nv =>
    have hl := tl_entryAndModify hc (Table.envFor cfg env) hash q nv w h
    simp only [Table.stepH] at hs
    cases hr : Table.entryAndModify cfg (Table.envFor cfg env) hash q nv w with
    | ok pr => obtain ⟨r0, w0⟩ := pr; rw [hr] at hs hl; cases hs; exact hl.toLx
    | panic c w0 => rw [hr] at hs; cases hs
    | abort => rw [hr] at hs; cases hs
    | fault f => rw [hr] at hs; cases hs
  | retain =>
    simp only [Table.stepH] at hs
    cases hr : Map.retain cfg (Table.envFor cfg env) w with
    | ok w0 =>
      rw [hr] at hs; cases hs
      exact step_ledger hc hnd (Table.envFor cfg env) .retain w h (fun n hn => by cases hn)
        (r := .unit) (by simp only [Map.step, hr])
    | panic c w0 => rw [hr] at hs; cases hs
    | abort => rw [hr] at hs; cases hs
    | fault f => rw [hr] at hs; cases hs
  | extractIf n =>
    simp only [Table.stepH] at hs
    cases hr : Map.extractIf cfg (Table.envFor cfg env) n w with
    | ok pr =>
      obtain ⟨l, w0⟩ := pr
      rw [hr] at hs; cases hs
      exact step_ledger hc hnd (Table.envFor cfg env) (.extractIf n) w h (fun n hn => by cases hn)
        (r := .elems l) (by simp only [Map.step, hr])
    | panic c w0 => rw [hr] at hs; cases hs
    | abort => rw [hr] at hs; cases hs
    | fault f => rw [hr] at hs; cases hs
  | drain n fg =>
    cases fg with
    | true => exact absurd rfl (hop n)
    | false =>
      simp only [Table.stepH] at hs
      cases hr : Map.drain cfg (Table.envFor cfg env) n false w with
      | ok pr =>
        obtain ⟨l, w0⟩ := pr
        rw [hr] at hs; cases hs
        exact step_ledger hc hnd (Table.envFor cfg env) (.drain n false) w h
          (fun n hn => by cases hn) (r := .elems l) (by simp only [Map.step, hr])
      | panic c w0 => rw [hr] at hs; cases hs
      | abort => rw [hr] at hs; cases hs
      | fault f => rw [hr] at hs; cases hs
  | clear =>
    simp only [Table.stepH] at hs
    cases hr : Hb.clear cfg (Table.envFor cfg env) w with
    | ok w0 =>
      rw [hr] at hs; cases hs
      exact step_ledger hc hnd (Table.envFor cfg env) .clear w h (fun n hn => by cases hn)
        (r := .unit) (by simp only [Map.step, hr])
    | panic c w0 => rw [hr] at hs; cases hs
    | abort => rw [hr] at hs; cases hs
    | fault f => rw [hr] at hs; cases hs
  | reserve n =>
    have hl := sl_reserve hc (Table.envFor cfg env) n w h
    simp only [Table.stepH] at hs
    cases hr : Hb.reserve cfg (Table.envFor cfg env) n w with
    | ok w0 => rw [hr] at hs hl; cases hs; exact hl.2.toLx
    | panic c w0 => rw [hr] at hs; cases hs
    | abort => rw [hr] at hs; cases hs
    | fault f => rw [hr] at hs; cases hs
  | shrinkTo m =>
    simp only [Table.stepH] at hs
    cases hr : Hb.shrinkTo cfg (Table.envFor cfg env) m w with
    | ok w0 =>
      rw [hr] at hs; cases hs
      exact step_ledger hc hnd (Table.envFor cfg env) (.shrinkTo m) w h (fun n hn => by cases hn)
        (r := .unit) (by simp only [Map.step, hr])
    | panic c w0 => rw [hr] at hs; cases hs
    | abort => rw [hr] at hs; cases hs
    | fault f => rw [hr] at hs; cases hs
  | getManyMut any reqs =>
    have hl := tl_getManyMut hc (Table.envFor cfg env) any reqs w h
    simp only [Table.stepH] at hs
    cases hr : Table.getManyMut cfg (Table.envFor cfg env) any reqs w with
    | ok pr => obtain ⟨r0, w0⟩ := pr; rw [hr] at hs hl; cases hs; exact hl
    | panic c w0 => rw [hr] at hs; cases hs
    | abort => rw [hr] at hs; cases hs
    | fault f => rw [hr] at hs; cases hs
  | iterHash hash =>
    simp only [Table.stepH] at hs
    cases hr : Table.iterHash cfg w.t hash with
    | ok l => rw [hr] at hs; cases hs; exact lx_same rfl rfl
    | error f => rw [hr] at hs; cases hs
  | iter p =>
    simp only [Table.stepH] at hs
    cases hr : Map.iterObserve cfg w.t p with
    | ok pr =>
      obtain ⟨pre, x1, x2, x3⟩ := pr
      rw [hr] at hs; cases hs; exact lx_same rfl rfl
    | error f => rw [hr] at hs; cases hs
  | len =>
    simp only [Table.stepH] at hs
    cases hs
    exact lx_same rfl rfl

/-! ### `HashTable` histories -/

theorem sl_kidsOf_append (a b : List Elem) : kidsOf (a ++ b) = kidsOf a ++ kidsOf b :=
  List.map_append
theorem sl_vidsOf_append (a b : List Elem) : vidsOf (a ++ b) = vidsOf a ++ vidsOf b :=
  List.map_append

/-- Elements moved into the table by a history. -/
def Table.insHs : List TableOp → List Elem
  | [] => []
  | op :: r => Table.insH op ++ Table.insHs r

/-- Elements handed back by value by the returned calls of a history. -/
def Table.returnedH : List (TableOp × Table.TObs) → List Elem
  | [] => []
  | (op, .ret r) :: rest => Table.retH op r ++ Table.returnedH rest
  | (_, .panic _) :: rest => Table.returnedH rest

/-- No call of the history is a `mem::forget`-ed drain (which leaks the not yet yielded elements
    and the block, by design). -/
def Table.NoForget (ops : List TableOp) : Prop := ∀ op ∈ ops, ∀ n, op ≠ .drain n true

/-- Ledger of a `HashTable` history from any valid table, with the allocator invariant after every
    prefix. -/
theorem tl_runH_ledger (hc : CfgOk cfg) (hnd : cfg.needsDrop = true) (env : Env) :
    ∀ (ops : List TableOp) (w wf : World) (obs : List Table.TObs), TInv cfg w.t →
      Table.NoForget ops → Table.runH cfg env ops w = some (obs, wf) →
      (∀ o ∈ obs, ∃ r, o = .ret r) →
      lx_Eff cfg w wf (kidsOf (Table.insHs ops)) (kidsOf (Table.returnedH (ops.zip obs)))
        (vidsOf (Table.insHs ops)) (vidsOf (Table.returnedH (ops.zip obs))) ∧ TInv cfg wf.t ∧
      (hs_AllocInv cfg w → ∀ w' ∈ Table.statesH cfg env ops w, hs_AllocInv cfg w') := by
  intro ops
  induction ops with
  | nil =>
    intro w wf obs h _ hrun _
    simp only [Table.runH, Option.some.injEq, Prod.mk.injEq] at hrun
    obtain ⟨h1, h2⟩ := hrun
    subst h1 h2
    refine ⟨lx_same rfl rfl, h, fun ha w' hw' => ?_⟩
    simp only [Table.statesH, List.mem_singleton] at hw'
    rw [hw']; exact ha
  | cons op rest ih =>
    intro w wf obs h hnf hrun hret
    have hop : ∀ n, op ≠ .drain n true := hnf op List.mem_cons_self
    have hnf' : Table.NoForget rest := fun o ho => hnf o (List.mem_cons_of_mem _ ho)
    have hsafe := table_stepH_safe hc (Or.inl hnd) env op w h
    cases hr : Table.stepH cfg env op w with
    | ok pr =>
      obtain ⟨r, w1⟩ := pr
      simp only [Table.runH, hr] at hrun
      obtain ⟨⟨os, wf'⟩, h1, h2⟩ := Option.map_eq_some_iff.1 hrun
      simp only [Prod.mk.injEq] at h2
      obtain ⟨h2a, h2b⟩ := h2
      subst h2a h2b
      have e1 : lx_Eff cfg w w1 (kidsOf (Table.insH op)) (kidsOf (Table.retH op r))
          (vidsOf (Table.insH op)) (vidsOf (Table.retH op r)) :=
        table_stepH_ledger hc hnd env op w h hop hr
      rw [hr] at hsafe
      obtain ⟨e2, t2, a2⟩ := ih w1 wf' os hsafe.1 hnf' h1
        (fun o ho => hret o (List.mem_cons_of_mem _ ho))
      refine ⟨?_, t2, fun ha w' hw' => ?_⟩
      · simp only [List.zip_cons_cons, Table.returnedH, Table.insHs, sl_kidsOf_append,
          sl_vidsOf_append]
        exact e1.trans e2
      · simp only [Table.statesH, hr, List.mem_cons] at hw'
        rcases hw' with rfl | hw'
        · exact ha
        · exact a2 (e1.choose_spec.2.2.2 ha) w' hw'
    | panic c w1 =>
      simp only [Table.runH, hr] at hrun
      obtain ⟨⟨os, wf'⟩, h1, h2⟩ := Option.map_eq_some_iff.1 hrun
      simp only [Prod.mk.injEq] at h2
      obtain ⟨r, hr'⟩ := hret (.panic c) (by rw [← h2.1]; exact List.mem_cons_self)
      cases hr'
    | abort => simp [Table.runH, hr] at hrun
    | fault f => simp [Table.runH, hr] at hrun

/-- **T-L2' — ledger of a `HashTable` history from any valid table**, in the shape of
    `runX_ledger_from`. -/
theorem table_runH_ledger_from (hc : CfgOk cfg) (hnd : cfg.needsDrop = true) (env : Env)
    (ops : List TableOp) (w wf : World) (obs : List Table.TObs) (h : TInv cfg w.t)
    (hnf : Table.NoForget ops) (hrun : Table.runH cfg env ops w = some (obs, wf))
    (hret : ∀ o ∈ obs, ∃ r, o = .ret r) :
    ∃ new, wf.log = new ++ w.log ∧
      List.Perm (kidsOf wf.t.elems ++ droppedK new ++ kidsOf (Table.returnedH (ops.zip obs)))
        (kidsOf w.t.elems ++ kidsOf (Table.insHs ops)) ∧
      List.Perm (vidsOf wf.t.elems ++ droppedV new ++ vidsOf (Table.returnedH (ops.zip obs)))
        (vidsOf w.t.elems ++ vidsOf (Table.insHs ops)) ∧
      (hs_AllocInv cfg w → hs_AllocInv cfg wf) ∧ TInv cfg wf.t := by
  obtain ⟨⟨new, l, k, v, a⟩, t, _⟩ := tl_runH_ledger hc hnd env ops w wf obs h hnf hrun hret
  exact ⟨new, l, k, v, a, t⟩

/-- **T-L2 — ledger of a `HashTable` history (C03).** Every history of `HashTable` calls on
    `HashTable::new()` with an empty log (element type with drop glue, no forgotten drain, EVERY
    environment, EVERY caller-supplied hash) in which every call returns: as multisets of object
    identities `stored ++ dropped by the table ++ handed back to the caller = moved in`; all frees
    are matched and the only live block is the table's own (none if it is the unallocated
    singleton). -/
theorem table_runH_ledger (hc : CfgOk cfg) (hnd : cfg.needsDrop = true) (env : Env)
    (ops : List TableOp) (w0 : World) (h0 : w0.t = Raw.new cfg.W) (hl0 : w0.log = [])
    (hnf : Table.NoForget ops) {obs : List Table.TObs} {wf : World}
    (hrun : Table.runH cfg env ops w0 = some (obs, wf)) (hret : ∀ o ∈ obs, ∃ r, o = .ret r) :
    List.Perm (kidsOf wf.t.elems ++ droppedK wf.log ++ kidsOf (Table.returnedH (ops.zip obs)))
      (kidsOf (Table.insHs ops)) ∧
    List.Perm (vidsOf wf.t.elems ++ droppedV wf.log ++ vidsOf (Table.returnedH (ops.zip obs)))
      (vidsOf (Table.insHs ops)) ∧
    hs_AllocInv cfg wf ∧ TInv cfg wf.t := by
  have hel : w0.t.elems = [] := by rw [h0]; rfl
  obtain ⟨new, l, k, v, a, t⟩ := table_runH_ledger_from hc hnd env ops w0 wf obs
    (by rw [h0]; exact TInv.new hc) hnf hrun hret
  rw [hl0, List.append_nil] at l
  rw [hel] at k v
  rw [l]
  exact ⟨by simpa [kidsOf] using k, by simpa [vidsOf] using v, a (hs_allocInv_new w0 h0 hl0), t⟩

/-- **T-L2, allocator invariant along the history.** After EVERY prefix of such a history (the worlds
    `Table.statesH` lists): every `free` so far returned a block that was live, with the layout it
    was requested with, and the live blocks are exactly the table's own block — none when the table
    is the unallocated singleton. -/
theorem table_runH_allocInv (hc : CfgOk cfg) (hnd : cfg.needsDrop = true) (env : Env)
    (ops : List TableOp) (w0 : World) (h0 : w0.t = Raw.new cfg.W) (hl0 : w0.log = [])
    (hnf : Table.NoForget ops) {obs : List Table.TObs} {wf : World}
    (hrun : Table.runH cfg env ops w0 = some (obs, wf)) (hret : ∀ o ∈ obs, ∃ r, o = .ret r) :
    ∀ w ∈ Table.statesH cfg env ops w0,
      freesMatched w.log ∧ liveBlocks w.log = hs_blockOf cfg w.t ∧
      (w.t.alloc = false → liveBlocks w.log = []) := by
  obtain ⟨_, _, a⟩ := tl_runH_ledger hc hnd env ops w0 wf obs (by rw [h0]; exact TInv.new hc) hnf
    hrun hret
  intro w hw
  obtain ⟨f, l⟩ := a (hs_allocInv_new w0 h0 hl0) w hw
  refine ⟨f, l, fun hal => ?_⟩
  rw [l]; unfold hs_blockOf; rw [hal]; rfl

/-- Releasing a table's block (if any). -/
theorem sl_AD.free (t : Raw) : sl_AD cfg t (Raw.new cfg.W) (freeEvs cfg t) := by
  intro L X hf hl
  have hb' : hs_blockOf cfg (Raw.new cfg.W) = [] := rfl
  rw [hb']
  unfold freeEvs
  cases hwa : t.alloc with
  | false =>
    have hb : hs_blockOf cfg t = [] := by unfold hs_blockOf; rw [hwa]; rfl
    rw [hb] at hl
    simp only [Bool.false_eq_true, if_false, List.nil_append]
    exact ⟨hf, hl⟩
  | true =>
    have hb : hs_blockOf cfg t =
        [((layoutOf cfg t.buckets).size, (layoutOf cfg t.buckets).align)] := by
      unfold hs_blockOf; rw [if_pos hwa]
    rw [hb] at hl
    simp only [if_true, List.cons_append, List.nil_append]
    exact sl_free_step hf hl

/-- `drop_inner_table` of a detached valid table `old` (destructors do not panic): every element
    of `old` is dropped, its block (if any) is released; FRAMED allocator effect. -/
theorem sl_dropInner (hc : CfgOk cfg) (hnd : cfg.needsDrop = true) (env : Env)
    (hdp : ∀ c e, env.dropPanics c e = false) (old : Raw) (hT : TInv cfg old) (w : World) :
    ∃ wd new, dropInnerTable cfg env old w = .ok wd ∧ wd.t = w.t ∧ wd.log = new ++ w.log ∧
      List.Perm (droppedK new) (kidsOf old.elems) ∧ List.Perm (droppedV new) (vidsOf old.elems) ∧
      sl_AD cfg old (Raw.new cfg.W) new := by
  have hsp := dropInnerTable_spec hc env old w hT
  cases hr : dropInnerTable cfg env old w with
  | ok wd =>
    rw [hr] at hsp
    obtain ⟨ht, hlog, _⟩ := hsp
    obtain ⟨dk, dv⟩ := sl_dropped_rev (cfg := cfg) hnd old.elems
    refine ⟨wd, freeEvs cfg old ++ dropEvs cfg old.elems.reverse, rfl, ht, hlog, ?_, ?_, ?_⟩
    · rw [hs_droppedK_append, (hs_dropped_freeEvs old).1]; exact dk
    · rw [hs_droppedV_append, (hs_dropped_freeEvs old).2]; exact dv
    · exact (sl_AD.drops (t := old) (t' := old) (hs_dropOnly_dropEvs _) rfl).trans (sl_AD.free old)
  | panic c w' =>
    rw [hr] at hsp
    obtain ⟨_, _, _, _, ds, e, rest, _, _, hp⟩ := hsp
    rw [hdp] at hp; cases hp
  | abort => rw [hr] at hsp; exact hsp.elim
  | fault f => rw [hr] at hsp; exact hsp.elim

/-- **T-L2, drop of the table.** After additionally dropping the table (destructors do not panic):
    nothing is stored any more; every element moved in was dropped exactly once or handed back
    exactly once; nothing remains allocated and every `free` returned a block that was live, with
    the layout it was requested with. -/
theorem table_dropAll_ledger (hc : CfgOk cfg) (hnd : cfg.needsDrop = true) (env : Env)
    (hdp : ∀ c e, env.dropPanics c e = false) (ops : List TableOp)
    (w0 : World) (h0 : w0.t = Raw.new cfg.W) (hl0 : w0.log = []) (hnf : Table.NoForget ops)
    {obs : List Table.TObs} {wf : World} (hrun : Table.runH cfg env ops w0 = some (obs, wf))
    (hret : ∀ o ∈ obs, ∃ r, o = .ret r) :
    ∃ wd, dropInnerTable cfg env wf.t { wf with t := Raw.new cfg.W } = .ok wd ∧
      wd.t = Raw.new cfg.W ∧
      List.Perm (droppedK wd.log ++ kidsOf (Table.returnedH (ops.zip obs)))
        (kidsOf (Table.insHs ops)) ∧
      List.Perm (droppedV wd.log ++ vidsOf (Table.returnedH (ops.zip obs)))
        (vidsOf (Table.insHs ops)) ∧
      liveBlocks wd.log = [] ∧ freesMatched wd.log := by
  obtain ⟨k, v, ⟨af, al⟩, t⟩ := table_runH_ledger hc hnd env ops w0 h0 hl0 hnf hrun hret
  obtain ⟨wd, new, hr, ht, hlog, dk, dv, ad⟩ :=
    sl_dropInner hc hnd env hdp wf.t t { wf with t := Raw.new cfg.W }
  obtain ⟨f', l'⟩ := ad wf.log [] af (by rw [al, List.append_nil])
  have hlog' : wd.log = new ++ wf.log := hlog
  refine ⟨wd, hr, ht, ?_, ?_, ?_, ?_⟩
  · rw [hlog', hs_droppedK_append]
    sl_count [k, dk]
  · rw [hlog', hs_droppedV_append]
    sl_count [v, dv]
  · rw [hlog']; exact List.perm_nil.1 l'
  · rw [hlog']; exact f'

/-- With pairwise distinct identities moved in, no object is dropped twice, none is both dropped
    and handed back, none is both stored and dropped / handed back. -/
theorem table_runH_no_double_drop (hc : CfgOk cfg) (hnd : cfg.needsDrop = true) (env : Env)
    (ops : List TableOp) (w0 : World) (h0 : w0.t = Raw.new cfg.W) (hl0 : w0.log = [])
    (hnf : Table.NoForget ops) {obs : List Table.TObs} {wf : World}
    (hrun : Table.runH cfg env ops w0 = some (obs, wf)) (hret : ∀ o ∈ obs, ∃ r, o = .ret r)
    (hK : (kidsOf (Table.insHs ops)).Nodup) :
    (kidsOf wf.t.elems).Nodup ∧ (droppedK wf.log).Nodup ∧
    (kidsOf (Table.returnedH (ops.zip obs))).Nodup ∧
    (∀ x ∈ kidsOf (Table.returnedH (ops.zip obs)),
      x ∉ droppedK wf.log ∧ x ∉ kidsOf wf.t.elems) ∧
    (∀ x ∈ droppedK wf.log, x ∉ kidsOf wf.t.elems) := by
  obtain ⟨k, _, _, _⟩ := table_runH_ledger hc hnd env ops w0 h0 hl0 hnf hrun hret
  exact hs_nodup_parts k hK

/-! ## 2. `HashSet` (pairs of sets) -/

/-- Key-object ledger of (a part of) a returned call: `sl_Eff` for some value-object lists (a set
    element is one object, the value side is `()`). -/
def sk_Eff (cfg : Cfg) (w w' : World) (iK oK : List Nat) : Prop :=
  ∃ iV oV, sl_Eff cfg w w' iK oK iV oV

theorem sl_Eff.sk {w w' : World} {iK oK iV oV : List Nat} (h : sl_Eff cfg w w' iK oK iV oV) :
    sk_Eff cfg w w' iK oK := ⟨iV, oV, h⟩

theorem sk_Eff.trans {a b c : World} {i1 o1 i2 o2 : List Nat}
    (h1 : sk_Eff cfg a b i1 o1) (h2 : sk_Eff cfg b c i2 o2) :
    sk_Eff cfg a c (i1 ++ i2) (o1 ++ o2) := by
  obtain ⟨_, _, e1⟩ := h1
  obtain ⟨_, _, e2⟩ := h2
  exact (e1.trans e2).sk

theorem sk_Eff.to {w w' : World} {iK oK : List Nat} (h : sk_Eff cfg w w' iK oK)
    (iK' oK' : List Nat) (hK : List.Perm (oK' ++ iK) (oK ++ iK')) : sk_Eff cfg w w' iK' oK' := by
  obtain ⟨iV, oV, e⟩ := h
  exact (e.to iK' oK' iV oV hK (List.Perm.refl _)).sk

theorem sk_Eff.left {w0 w w1 : World} {iK oK : List Nat} (h : sk_Eff cfg w w1 iK oK)
    (ht : w0.t = w.t) (hl : w0.log = w.log) : sk_Eff cfg w0 w1 iK oK := by
  obtain ⟨iV, oV, e⟩ := h
  exact (e.left ht hl).sk

theorem sk_Eff.right {w w1 w2 : World} {iK oK : List Nat} (h : sk_Eff cfg w w1 iK oK)
    (ht : w2.t = w1.t) (hl : w2.log = w1.log) : sk_Eff cfg w w2 iK oK := by
  obtain ⟨iV, oV, e⟩ := h
  exact (e.right ht hl).sk

theorem sk_same {w w' : World} (ht : w'.t = w.t) (hl : w'.log = w.log) : sk_Eff cfg w w' [] [] :=
  (sl_same ht hl).sk

/-! ### building blocks -/

/-- `HashMap::insert` as used by the set: the new key object is stored, or (key present) dropped. -/
theorem sk_mapInsert (hc : CfgOk cfg) (hnd : cfg.needsDrop = true) (env : Env) (e : Elem)
    (w : World) (h : TInv cfg w.t) :
    lx_R (Map.insert cfg env e w) (fun a => TInv cfg a.2.t ∧ sk_Eff cfg w a.2 [e.kid] []) := by
  have h2 := hs_insert_exact hc hc.probe env e w h
  have hsafe := st_mapInsert hc (Or.inl hnd) env e w h
  cases hr : Map.insert cfg env e w with
  | ok pr =>
    obtain ⟨r0, w'⟩ := pr
    rw [hr] at h2 hsafe
    have h' : TInv cfg w'.t := hsafe
    refine ⟨h', ?_⟩
    cases r0 with
    | none =>
      obtain ⟨hperm, new, hA⟩ := h2
      exact (sl_astep h.1 h'.1 hA (lx_ins_perm hperm).1 (lx_ins_perm hperm).2).sk
    | some v =>
      obtain ⟨rv, pl⟩ := v
      obtain ⟨old, new, w2, hA, hrv, hperm, hm, ha, hlog⟩ := h2
      rw [if_pos hnd] at hlog
      have hA' : hs_AStep cfg w { w' with log := w2.log } new := hA.congr rfl hm ha
      have e1 : sl_Eff cfg w { w' with log := w2.log } [] [] [e.vid] [old.vid] := by
        refine sl_astep h.1 h'.1 hA' ?_ ?_
        · have := hperm.map Elem.kid
          simp only [List.map_cons] at this
          simpa [kidsOf] using this.cons_inv
        · have := hperm.map Elem.vid
          simp only [List.map_cons] at this
          exact (List.perm_append_singleton _ _).trans
            (this.trans (List.perm_append_singleton _ _).symm)
      have e2 : sl_Eff cfg { w' with log := w2.log } w' [e.kid] [] [] [] :=
        sl_drops (ds := [Ev.dropK e.kid]) rfl hlog
          (fun ev hev => ⟨e.kid, Or.inl (List.mem_singleton.1 hev)⟩)
      exact ((e1.trans e2).sk).to _ _ (by lx_perm)
  | panic c w' => trivial
  | abort => trivial
  | fault f => trivial

/-- `HashMap::remove` as used by the set: the removed key object is dropped. -/
theorem sk_mapRemove (hc : CfgOk cfg) (hnd : cfg.needsDrop = true) (env : Env) (k : Nat)
    (w : World) (h : TInv cfg w.t) :
    lx_R (Map.remove cfg env k w) (fun a => TInv cfg a.2.t ∧ sk_Eff cfg w a.2 [] []) := by
  have h2 := hs_remove_exact hc hc.probe env k w h
  have hsafe := st_mapRemove (A := True) hc env k w h
  cases hr : Map.remove cfg env k w with
  | ok pr =>
    obtain ⟨r0, w'⟩ := pr
    rw [hr] at h2 hsafe
    have h' : TInv cfg w'.t := hsafe
    refine ⟨h', ?_⟩
    cases r0 with
    | none => exact sk_same h2.1 h2.2
    | some v =>
      obtain ⟨rv, pl⟩ := v
      obtain ⟨x, hrv, hperm, hm, hlog⟩ := h2
      rw [if_pos hnd] at hlog
      have e1 : sl_Eff cfg w { w' with log := w.log } [] [x.kid] [] [x.vid] := by
        refine sl_inplace h.1 h'.1 rfl hm ?_ ?_
        · have := hperm.map Elem.kid
          simp only [List.map_cons] at this
          simpa [kidsOf] using (List.perm_append_singleton _ _).trans this
        · have := hperm.map Elem.vid
          simp only [List.map_cons] at this
          simpa [vidsOf] using (List.perm_append_singleton _ _).trans this
      have e2 : sl_Eff cfg { w' with log := w.log } w' [x.kid] [] [] [] :=
        sl_drops (ds := [Ev.dropK x.kid]) rfl hlog
          (fun ev hev => ⟨x.kid, Or.inl (List.mem_singleton.1 hev)⟩)
      exact ((e1.trans e2).sk).to _ _ (by lx_perm)
  | panic c w' => trivial
  | abort => trivial
  | fault f => trivial

/-- `HashMap::remove_entry` (= `HashSet::take`): the removed element is handed back. -/
theorem sk_removeEntry (hc : CfgOk cfg) (env : Env) (k : Nat) (w : World) (h : TInv cfg w.t) :
    lx_R (Map.removeEntry cfg env k w) (fun a => sk_Eff cfg w a.2 [] (kidsOf a.1.toList)) := by
  have h2 := Map.removeEntry_inv hc hc.probe env k w h
  cases hr : Map.removeEntry cfg env k w with
  | ok pr =>
    obtain ⟨r0, w'⟩ := pr
    rw [hr] at h2
    cases r0 with
    | none => exact sk_same h2.1 h2.2.1
    | some x =>
      obtain ⟨h', hlog, _, hperm, hm⟩ := h2
      refine (sl_inplace (iV := []) (oV := [x.vid]) h.1 h'.1 hlog hm ?_ ?_).sk
      · have := hperm.map Elem.kid
        simp only [List.map_cons] at this
        simpa [kidsOf] using (List.perm_append_singleton _ _).trans this
      · have := hperm.map Elem.vid
        simp only [List.map_cons] at this
        simpa [vidsOf] using (List.perm_append_singleton _ _).trans this
  | panic c w' => trivial
  | abort => trivial
  | fault f => trivial

/-- A computation that only reads: on return table and log are what they were. -/
def sk_RO {α : Type} (w : World) (r : Res (α × World)) : Prop :=
  lx_R r (fun a => a.2.t = w.t ∧ a.2.log = w.log)

theorem sk_getInner (hc : CfgOk cfg) (env : Env) (k : Nat) (w : World) (h : Inv cfg w.t) :
    sk_RO w (Map.getInner cfg env k w) := by
  rcases ag_getInner hc hc.probe env k w h with ⟨r, w', k1, k2, k3, _⟩ | ⟨c, w', k1, _⟩
  · unfold sk_RO; rw [k1]; exact ⟨k2, k3⟩
  · unfold sk_RO; rw [k1]; trivial

theorem sk_mapGet (hc : CfgOk cfg) (env : Env) (k : Nat) (w : World) (h : TInv cfg w.t) :
    sk_RO w (Map.get cfg env k w) := by
  have h1 := Map.get_inv hc hc.probe env k w h
  unfold sk_RO
  cases hr : Map.get cfg env k w with
  | ok pr => obtain ⟨r, w'⟩ := pr; rw [hr] at h1; exact ⟨h1.1, h1.2.1⟩
  | panic c w' => trivial
  | abort => trivial
  | fault f => trivial

/-- `make_hash` + `find_or_find_insert_slot`. -/
theorem sk_search (hc : CfgOk cfg) (env : Env) (k : Nat) (owned : Option Elem) (w : World)
    (h : TInv cfg w.t) :
    lx_R (Set.search cfg env k owned w) (fun a =>
      TInv cfg a.2.2.t ∧ sl_Eff cfg w a.2.2 [] [] [] [] ∧
      match a.2.1 with
      | .ok idx => ∃ x, a.2.2.t.slots[idx]?.join = some x
      | .error slot => slot < a.2.2.t.buckets ∧ isSpecial (a.2.2.t.ctrlAt slot) = true ∧
          (a.2.2.t.ctrlAt slot = EMPTY → 0 < a.2.2.t.gl) ∧ a.2.2.t.alloc = true) := by
  have hcore : ∀ g : World → World,
      lx_R ((do
        let (hv, w1) ← makeHash env k w
        let (r, w2) ← findOrFindInsertSlot cfg env hv k w1
        pure (hv, r, w2) : Res (Nat × Except Nat Nat × World)).onPanic g) (fun a =>
      TInv cfg a.2.2.t ∧ sl_Eff cfg w a.2.2 [] [] [] [] ∧
      match a.2.1 with
      | .ok idx => ∃ x, a.2.2.t.slots[idx]?.join = some x
      | .error slot => slot < a.2.2.t.buckets ∧ isSpecial (a.2.2.t.ctrlAt slot) = true ∧
          (a.2.2.t.ctrlAt slot = EMPTY → 0 < a.2.2.t.gl) ∧ a.2.2.t.alloc = true) := by
    intro g
    cases hh : env.hash w.hc k with
    | none =>
      simp only [ag_makeHash_none hh, bind, Res.bind, Res.onPanic]
      trivial
    | some hv =>
      simp only [ag_makeHash_some hh, bind, Res.bind]
      have hf := sl_fofis hc env hv k { w with hc := w.hc + 1 } h
      cases hr : findOrFindInsertSlot cfg env hv k { w with hc := w.hc + 1 } with
      | ok pr =>
        obtain ⟨r, w2⟩ := pr
        rw [hr] at hf
        exact ⟨hf.1, hf.2.1.left rfl rfl, hf.2.2⟩
      | panic c w' => trivial
      | abort => trivial
      | fault f => trivial
  unfold Set.search
  cases owned with
  | some e => exact hcore _
  | none =>
    have := hcore id
    have hid : ∀ {α : Type} (r : Res α), r.onPanic id = r := by
      intro α r; cases r <;> rfl
    rw [hid] at this
    exact this

/-- `HashMap::entry`'s look-up (hash, `find`). -/
theorem sk_entryFind (hc : CfgOk cfg) (env : Env) (e : Elem) (w : World) (h : Inv cfg w.t) :
    lx_R (Set.entryFind cfg env e w) (fun a => a.2.2.t = w.t ∧ a.2.2.log = w.log ∧
      ∀ idx, a.2.1 = some idx → ∃ x, w.t.slots[idx]?.join = some x) := by
  unfold Set.entryFind
  cases hh : env.hash w.hc e.k with
  | none =>
    simp only [ag_makeHash_none hh, bind, Res.bind, Res.onPanic]
    trivial
  | some hv =>
    simp only [ag_makeHash_some hh, bind, Res.bind]
    rcases find_total hc hc.probe env hv e.k { w with hc := w.hc + 1 } h with
      ⟨r, w', k1, k2, k3, _, k5⟩ | ⟨w', k1, _⟩
    · rw [k1]
      exact ⟨k2, k3, fun idx hi => (k5 idx hi).2.2⟩
    · rw [k1]; trivial

/-! ### single-set calls -/

theorem sk_setInsert (hc : CfgOk cfg) (hnd : cfg.needsDrop = true) (env : Env) (k kid : Nat)
    (w : World) (h : TInv cfg w.t) :
    lx_R (Set.insert cfg env k kid w) (fun a => sk_Eff cfg w a.2 [kid] []) :=
  (sk_mapInsert hc hnd env (Set.elemOf k kid) w h).bind (fun _ ha => ha.2)

theorem sk_setRemove (hc : CfgOk cfg) (hnd : cfg.needsDrop = true) (env : Env) (k : Nat)
    (w : World) (h : TInv cfg w.t) :
    lx_R (Set.remove cfg env k w) (fun a => sk_Eff cfg w a.2 [] []) :=
  (sk_mapRemove hc hnd env k w h).bind (fun _ ha => ha.2)

theorem sk_setContains (hc : CfgOk cfg) (env : Env) (k : Nat) (w : World) (h : TInv cfg w.t) :
    lx_R (Set.contains cfg env k w) (fun a => sk_Eff cfg w a.2 [] []) :=
  (sk_getInner hc env k w h.1).bind (fun _ ha => sk_same ha.1 ha.2)

theorem sk_setReplace (hc : CfgOk cfg) (env : Env) (e : Elem) (w : World) (h : TInv cfg w.t) :
    lx_R (Set.replace cfg env e w) (fun a => sk_Eff cfg w a.2 [e.kid] (kidsOf a.1.toList)) := by
  have hs := sk_search hc env e.k (some e) w h
  unfold Set.replace
  cases hr : Set.search cfg env e.k (some e) w with
  | ok pr =>
    obtain ⟨hv, r, w2⟩ := pr
    rw [hr] at hs
    obtain ⟨a1, eff, a3⟩ := hs
    cases r with
    | ok idx =>
      obtain ⟨x, a2⟩ := a3
      simp only [bind, Res.bind, slotGet_ok a2, liftE, pure]
      show sk_Eff cfg w _ [e.kid] [x.kid]
      exact ((eff.trans (sl_slotSet a1 a2 e)).sk).to _ _ (by lx_perm)
    | error slot =>
      obtain ⟨b1, b2, b3, b4⟩ := a3
      obtain ⟨t', c1, c2, eff2⟩ := sl_insertInSlot hc a1 b1 b2 b3 b4 hv e
      simp only [bind, Res.bind, c1, liftE, pure]
      show sk_Eff cfg w _ [e.kid] []
      exact ((eff.trans eff2).sk).to _ _ (by lx_perm)
  | panic c w' => trivial
  | abort => trivial
  | fault f => trivial

theorem sk_setGetOrInsert (hc : CfgOk cfg) (hnd : cfg.needsDrop = true) (env : Env) (e : Elem)
    (w : World) (h : TInv cfg w.t) :
    lx_R (Set.getOrInsert cfg env e w) (fun a => sk_Eff cfg w a.2 [e.kid] []) := by
  have hs := sk_search hc env e.k (some e) w h
  unfold Set.getOrInsert
  cases hr : Set.search cfg env e.k (some e) w with
  | ok pr =>
    obtain ⟨hv, r, w2⟩ := pr
    rw [hr] at hs
    obtain ⟨a1, eff, a3⟩ := hs
    cases r with
    | ok idx =>
      obtain ⟨x, a2⟩ := a3
      simp only [bind, Res.bind, slotGet_ok a2, liftE]
      exact (sl_dropKeyR hnd env e.kid w2).bind (fun a ha =>
        ((eff.trans ha.2).sk).to _ _ (by lx_perm))
    | error slot =>
      obtain ⟨b1, b2, b3, b4⟩ := a3
      obtain ⟨t', c1, c2, eff2⟩ := sl_insertInSlot hc a1 b1 b2 b3 b4 hv e
      simp only [bind, Res.bind, c1, liftE, pure]
      exact ((eff.trans eff2).sk).to _ _ (by lx_perm)
  | panic c w' => trivial
  | abort => trivial
  | fault f => trivial

/-- The object `get_or_insert_with`'s closure makes — it exists only if the closure runs, i.e. if
    the look-up ended on a vacant slot. -/
def Set.gowCreated (cfg : Cfg) (env : Env) (k kid2 : Nat) (w : World) : List Nat :=
  match Set.search cfg env k none w with
  | .ok (_, .error _, _) => [kid2]
  | _ => []

theorem sk_setGetOrInsertWith (hc : CfgOk cfg) (env : Env) (k k2 kid2 : Nat) (w : World)
    (h : TInv cfg w.t) :
    lx_R (Set.getOrInsertWith cfg env k k2 kid2 w)
      (fun a => sk_Eff cfg w a.2 (Set.gowCreated cfg env k kid2 w) []) := by
  have hs := sk_search hc env k none w h
  unfold Set.getOrInsertWith Set.gowCreated
  cases hr : Set.search cfg env k none w with
  | ok pr =>
    obtain ⟨hv, r, w2⟩ := pr
    rw [hr] at hs
    obtain ⟨a1, eff, a3⟩ := hs
    cases r with
    | ok idx =>
      obtain ⟨x, a2⟩ := a3
      simp only [bind, Res.bind, slotGet_ok a2, liftE, pure]
      exact eff.sk
    | error slot =>
      obtain ⟨b1, b2, b3, b4⟩ := a3
      simp only [bind, Res.bind]
      cases heq : env.eq w2.ec k (Set.elemOf k2 kid2) with
      | none => trivial
      | some b =>
        cases b with
        | false => trivial
        | true =>
          obtain ⟨t', c1, c2, eff2⟩ := sl_insertInSlot hc (w := { w2 with ec := w2.ec + 1 }) a1 b1 b2
            b3 b4 hv (Set.elemOf k2 kid2)
          simp only [c1, liftE, pure]
          exact (((eff.right (w2 := { w2 with ec := w2.ec + 1 }) rfl rfl).trans eff2).sk).to _ _
            (by simp only [Set.elemOf]; lx_perm)
  | panic c w' => trivial
  | abort => trivial
  | fault f => trivial

theorem sk_setEntryInsert (hc : CfgOk cfg) (hnd : cfg.needsDrop = true) (env : Env) (e : Elem)
    (w : World) (h : TInv cfg w.t) :
    lx_R (Set.entryInsert cfg env e w) (fun a => sk_Eff cfg w a.2 [e.kid] []) := by
  have hs := sk_entryFind hc env e w h.1
  unfold Set.entryInsert
  cases hr : Set.entryFind cfg env e w with
  | ok pr =>
    obtain ⟨hv, r, w2⟩ := pr
    rw [hr] at hs
    obtain ⟨k2, k3, k4⟩ := hs
    have h2 : TInv cfg w2.t := by rw [k2]; exact h
    simp only [bind, Res.bind]
    cases r with
    | some idx =>
      obtain ⟨x, hx⟩ := k4 idx rfl
      simp only
      have hd := sl_dropKeyR hnd env e.kid w2
      cases hq : dropKeyR cfg env e.kid w2 with
      | ok w3 =>
        rw [hq] at hd
        have hx3 : w3.t.slots[idx]?.join = some x := by rw [hd.1, k2]; exact hx
        simp only [slotGet_ok hx3, liftE, pure]
        exact (hd.2.left k2.symm k3.symm).sk
      | panic c w3 => trivial
      | abort => trivial
      | fault f => trivial
    | none =>
      simp only
      have hi := (sl_rawInsert hc env hv e w2 h2).onPanic (g := (·.dropElemQuiet cfg e))
      unfold Set.vacantInsert
      cases hq : (rawInsert cfg env hv e w2).onPanic (·.dropElemQuiet cfg e) with
      | ok pr => obtain ⟨i, w3⟩ := pr; rw [hq] at hi; exact (hi.2.left k2.symm k3.symm).sk
      | panic c w3 => trivial
      | abort => trivial
      | fault f => trivial
  | panic c w' => trivial
  | abort => trivial
  | fault f => trivial

theorem sk_setEntryOrInsert (hc : CfgOk cfg) (hnd : cfg.needsDrop = true) (env : Env) (e : Elem)
    (w : World) (h : TInv cfg w.t) :
    lx_R (Set.entryOrInsert cfg env e w) (fun w' => sk_Eff cfg w w' [e.kid] []) :=
  (sk_setEntryInsert hc hnd env e w h).bind (fun _ ha => ha)

theorem sk_setEntryRemove (hc : CfgOk cfg) (hnd : cfg.needsDrop = true) (env : Env) (e : Elem)
    (w : World) (h : TInv cfg w.t) :
    lx_R (Set.entryRemove cfg env e w)
      (fun a => sk_Eff cfg w a.2 [e.kid] (kidsOf a.1.toList)) := by
  have hs := sk_entryFind hc env e w h.1
  unfold Set.entryRemove
  cases hr : Set.entryFind cfg env e w with
  | ok pr =>
    obtain ⟨hv, r, w2⟩ := pr
    rw [hr] at hs
    obtain ⟨k2, k3, k4⟩ := hs
    simp only [bind, Res.bind]
    have hd := sl_dropKeyR hnd env e.kid w2
    cases hq : dropKeyR cfg env e.kid w2 with
    | ok w3 =>
      rw [hq] at hd
      have h3 : TInv cfg w3.t := by rw [hd.1, k2]; exact h
      have eff := hd.2.left k2.symm k3.symm
      simp only
      cases r with
      | some idx =>
        obtain ⟨x, hx⟩ := k4 idx rfl
        have hx3 : w3.t.slots[idx]?.join = some x := by rw [hd.1, k2]; exact hx
        obtain ⟨t', r1, _, _, hrem⟩ := sl_removeAt hc h3 hx3
        simp only [r1, liftE, pure]
        show sk_Eff cfg w _ [e.kid] [x.kid]
        exact ((eff.trans hrem).sk).to _ _ (by lx_perm)
      | none => exact eff.sk
    | panic c w3 => trivial
    | abort => trivial
    | fault f => trivial
  | panic c w' => trivial
  | abort => trivial
  | fault f => trivial

/-- `retain` (= `HashMap::retain`): every element is kept or dropped. -/
theorem sk_retain (hc : CfgOk cfg) (hnd : cfg.needsDrop = true) (env : Env) (w : World)
    (h : TInv cfg w.t) : lx_R (Map.retain cfg env w) (fun w' => sk_Eff cfg w w' [] []) := by
  have h2 := retain_spec hc env w h
  cases hr : Map.retain cfg env w with
  | ok w' =>
    rw [hr] at h2
    obtain ⟨h', hel, _, hlog, hlen⟩ := h2
    have hm := hs_retain_mask env hr
    obtain ⟨dk, dv⟩ := hs_dropped_dropEvs hnd (retainDropped env w.pc w.t.elems).reverse
    obtain ⟨sk, sv⟩ := hs_retain_split env w.t.elems w.pc (by rw [hlen, ab_elems_length hc h.1])
    refine sl_Eff.sk (iV := []) (oV := []) ⟨_, hlog, ?_, ?_,
      sl_AD.drops (hs_dropOnly_dropEvs _) (hs_blockOf_congr h.1 h'.1 hm)⟩
    · rw [hel, dk]
      simp only [List.append_nil]
      exact (List.Perm.append_left _ ((List.reverse_perm _).map _)).trans sk
    · rw [hel, dv]
      simp only [List.append_nil]
      exact (List.Perm.append_left _ ((List.reverse_perm _).map _)).trans sv
  | panic c w' => trivial
  | abort => trivial
  | fault f => trivial

theorem sk_clear (hc : CfgOk cfg) (hnd : cfg.needsDrop = true) (env : Env) (w : World)
    (h : TInv cfg w.t) : lx_R (Hb.clear cfg env w) (fun w' => sk_Eff cfg w w' [] []) := by
  have h2 := clear_spec hc env w h
  cases hr : Hb.clear cfg env w with
  | ok w' =>
    rw [hr] at h2
    obtain ⟨⟨h', _, hel, hm, _⟩, hdr⟩ := h2
    obtain ⟨dk, dv⟩ := sl_dropped_rev (cfg := cfg) hnd w.t.elems
    refine sl_Eff.sk (iV := []) (oV := []) ⟨_, hdr.log, ?_, ?_,
      sl_AD.drops (hs_dropOnly_dropEvs _) (hs_blockOf_congr h.1 h'.1 hm)⟩
    · rw [hel]; sl_count [dk]
    · rw [hel]; sl_count [dv]
  | panic c w' => trivial
  | abort => trivial
  | fault f => trivial

theorem sk_shrinkTo (hc : CfgOk cfg) (env : Env) (m : Nat) (w : World) (h : TInv cfg w.t) :
    lx_R (Hb.shrinkTo cfg env m w) (fun w' => sk_Eff cfg w w' [] []) := by
  have h1 := shrinkTo_spec hc hc.probe env m w h
  have h2 := hs_shrinkTo_exact hc hc.probe env m w h
  cases hr : Hb.shrinkTo cfg env m w with
  | ok w' =>
    rw [hr] at h1 h2
    obtain ⟨new, hA⟩ := h2
    exact (sl_astep h.1 h1.1.1 hA (lx_perm_same h1.2.1).1 (lx_perm_same h1.2.1).2).sk
  | panic c w' => trivial
  | abort => trivial
  | fault f => trivial

/-! ### calls that only read -/

theorem sk_RO.eff {α : Type} {w : World} {r : Res (α × World)} (h : sk_RO w r) :
    lx_R r (fun a => sk_Eff cfg w a.2 [] []) :=
  lx_R.mono h (fun _ ha => sk_same ha.1 ha.2)

theorem sk_containsIn (hc : CfgOk cfg) (env : Env) {t : Raw} (ht : Inv cfg t) (k : Nat)
    (w : World) : sk_RO w (Set.containsIn cfg env t k w) := by
  unfold Set.containsIn sk_RO
  rcases ag_getInner hc hc.probe env k { w with t := t } ht with
    ⟨r, w', k1, _, k3, _⟩ | ⟨c, w', k1, _⟩
  · rw [k1]; exact ⟨rfl, k3⟩
  · rw [k1]; trivial

theorem sk_yieldAll (hc : CfgOk cfg) (env : Env) : ∀ (ss : List Set.Step) (w : World)
    (acc : List Elem), st_StepsOk cfg ss → sk_RO w (Set.yieldAll cfg env ss w acc) := by
  intro ss
  induction ss with
  | nil => intro w acc _; exact ⟨rfl, rfl⟩
  | cons s rest ih =>
    intro w acc hok
    have hrest : st_StepsOk cfg rest := fun s' hs' => hok s' (List.mem_cons_of_mem _ hs')
    rw [ss_yieldAll_cons]
    cases hp : s.probe with
    | none => exact ih w _ hrest
    | some tw =>
      obtain ⟨t, want⟩ := tw
      have ht := hok s List.mem_cons_self t want hp
      simp only
      have hcn := sk_containsIn hc env ht s.e.k w
      unfold sk_RO at hcn
      cases hq : Set.containsIn cfg env t s.e.k w with
      | ok pr =>
        obtain ⟨b, w'⟩ := pr
        rw [hq] at hcn
        simp only
        have := ih w' (if (b == want) = true then s.e :: acc else acc) hrest
        unfold sk_RO at this ⊢
        exact lx_R.mono this (fun a ha => ⟨ha.1.trans hcn.1, ha.2.trans hcn.2⟩)
      | panic c w' => trivial
      | abort => trivial
      | fault f => trivial

theorem sk_yieldsAny (hc : CfgOk cfg) (env : Env) : ∀ (ss : List Set.Step) (w : World),
    st_StepsOk cfg ss → sk_RO w (Set.yieldsAny cfg env ss w) := by
  intro ss
  induction ss with
  | nil => intro w _; exact ⟨rfl, rfl⟩
  | cons s rest ih =>
    intro w hok
    have hrest : st_StepsOk cfg rest := fun s' hs' => hok s' (List.mem_cons_of_mem _ hs')
    rw [ss_yieldsAny_cons]
    cases hp : s.probe with
    | none => exact ⟨rfl, rfl⟩
    | some tw =>
      obtain ⟨t, want⟩ := tw
      have ht := hok s List.mem_cons_self t want hp
      simp only
      have hcn := sk_containsIn hc env ht s.e.k w
      unfold sk_RO at hcn
      cases hq : Set.containsIn cfg env t s.e.k w with
      | ok pr =>
        obtain ⟨b, w'⟩ := pr
        rw [hq] at hcn
        simp only
        split
        · exact hcn
        · have := ih w' hrest
          unfold sk_RO at this ⊢
          exact lx_R.mono this (fun a ha => ⟨ha.1.trans hcn.1, ha.2.trans hcn.2⟩)
      | panic c w' => trivial
      | abort => trivial
      | fault f => trivial

theorem sk_allIn (hc : CfgOk cfg) (env : Env) {t : Raw} (ht : Inv cfg t) :
    ∀ (xs : List Elem) (w : World), sk_RO w (Set.allIn cfg env t xs w) := by
  intro xs
  induction xs with
  | nil => intro w; exact ⟨rfl, rfl⟩
  | cons e rest ih =>
    intro w
    rw [ss_allIn_cons]
    have hcn := sk_containsIn hc env ht e.k w
    unfold sk_RO at hcn
    cases hq : Set.containsIn cfg env t e.k w with
    | ok pr =>
      obtain ⟨b, w'⟩ := pr
      rw [hq] at hcn
      cases b with
      | true =>
        simp only
        have := ih w'
        unfold sk_RO at this ⊢
        exact lx_R.mono this (fun a ha => ⟨ha.1.trans hcn.1, ha.2.trans hcn.2⟩)
      | false => exact hcn
    | panic c w' => trivial
    | abort => trivial
    | fault f => trivial

theorem sk_lazyOp (hc : CfgOk cfg) (env : Env) {steps : Except String (List Set.Step)}
    (hs : ∃ ss, steps = .ok ss ∧ st_StepsOk cfg ss) (w : World) :
    sk_RO w (Set.lazyOp cfg env steps w) := by
  obtain ⟨ss, rfl, hok⟩ := hs
  exact sk_yieldAll hc env ss w [] hok

theorem sk_isSubsetOf (hc : CfgOk cfg) (env : Env) {a b : Raw} (ha : Inv cfg a) (hb : Inv cfg b)
    (w : World) : sk_RO w (Set.isSubsetOf cfg env a b w) := by
  unfold Set.isSubsetOf
  split
  · rw [elemsOf_spec hc ha]; exact sk_allIn hc env hb _ w
  · exact ⟨rfl, rfl⟩

theorem sk_isDisjoint (hc : CfgOk cfg) (env : Env) {b : Raw} (hb : Inv cfg b) (w : World)
    (ha : Inv cfg w.t) : sk_RO w (Set.isDisjoint cfg env b w) := by
  obtain ⟨ss, h1, hok⟩ := st_intersectionSteps hc ha hb
  unfold Set.isDisjoint
  rw [h1]
  exact lx_R.bind (sk_yieldsAny hc env ss w hok) (fun _ ha => ha)

theorem sk_setEq (hc : CfgOk cfg) (env : Env) {b : Raw} (hb : Inv cfg b) (w : World)
    (ha : Inv cfg w.t) : sk_RO w (Set.setEq cfg env b w) := by
  unfold Set.setEq
  split
  · exact ⟨rfl, rfl⟩
  · rw [elemsOf_spec hc ha]; exact sk_allIn hc env hb _ w

/-! ### assigning operator forms -/

/-- The clones `target |= &other` creates: the identities `Clone` returned during the call, in
    order (one per element of `other` the look-up did not find; the last one may have been dropped
    again by an unwinding `insert`). -/
def Set.bitorClones (cfg : Cfg) (env : Env) : List Elem → World → List Nat
  | [], _ => []
  | e :: rest, w =>
    match Map.getInner cfg env e.k w with
    | .ok (some _, w1) => Set.bitorClones cfg env rest w1
    | .ok (none, w1) =>
      match (Set.envOf env).clone w1.cc e with
      | none => []
      | some (kid, _) =>
        match Map.insert cfg env { e with kid := kid } { w1 with cc := w1.cc + 1 } with
        | .ok (_, w3) => kid :: Set.bitorClones cfg env rest w3
        | _ => [kid]
    | _ => []

theorem sk_bitorAssignLoop (hc : CfgOk cfg) (hnd : cfg.needsDrop = true) (env : Env) :
    ∀ (xs : List Elem) (w : World), TInv cfg w.t →
      lx_R (Set.bitorAssignLoop cfg env xs w)
        (fun w' => sk_Eff cfg w w' (Set.bitorClones cfg env xs w) []) := by
  intro xs
  induction xs with
  | nil => intro w _; exact sk_same rfl rfl
  | cons e rest ih =>
    intro w h
    rw [ss_bitorAssignLoop_cons]
    simp only [Set.bitorClones]
    have hg := sk_getInner hc env e.k w h.1
    unfold sk_RO at hg
    cases hq : Map.getInner cfg env e.k w with
    | ok pr =>
      obtain ⟨r, w1⟩ := pr
      rw [hq] at hg
      have h1 : TInv cfg w1.t := by rw [hg.1]; exact h
      cases r with
      | some i =>
        simp only
        exact lx_R.mono (ih w1 h1) (fun _ ha => ha.left hg.1.symm hg.2.symm)
      | none =>
        simp only
        cases hcl : (Set.envOf env).clone w1.cc e with
        | none => trivial
        | some kv =>
          obtain ⟨kid, x⟩ := kv
          simp only
          have hi := sk_mapInsert hc hnd env { e with kid := kid } { w1 with cc := w1.cc + 1 } h1
          cases hr : Map.insert cfg env { e with kid := kid } { w1 with cc := w1.cc + 1 } with
          | ok pr =>
            obtain ⟨o, w3⟩ := pr
            rw [hr] at hi
            simp only
            refine lx_R.mono (ih w3 hi.1) (fun _ ha => ?_)
            exact ((hi.2.left (w0 := w) hg.1.symm hg.2.symm).trans ha).to _ _ (by lx_perm)
          | panic c w' => trivial
          | abort => trivial
          | fault f => trivial
    | panic c w' => trivial
    | abort => trivial
    | fault f => trivial

theorem sk_removeAllLoop (hc : CfgOk cfg) (hnd : cfg.needsDrop = true) (env : Env) :
    ∀ (xs : List Elem) (w : World), TInv cfg w.t →
      lx_R (Set.removeAllLoop cfg env xs w) (fun w' => sk_Eff cfg w w' [] []) := by
  intro xs
  induction xs with
  | nil => intro w _; exact sk_same rfl rfl
  | cons e rest ih =>
    intro w h
    rw [ss_removeAllLoop_cons]
    have hi := sk_mapRemove hc hnd env e.k w h
    cases hr : Map.remove cfg env e.k w with
    | ok pr =>
      obtain ⟨o, w3⟩ := pr
      rw [hr] at hi
      simp only
      exact lx_R.mono (ih w3 hi.1) (fun _ ha => (hi.2.trans ha).to _ _ (by lx_perm))
    | panic c w' => trivial
    | abort => trivial
    | fault f => trivial

/-- The clones `target ^= &other` creates (one per element of `other` whose look-up ended on a
    vacant slot). -/
def Set.bitxorClones (cfg : Cfg) (env : Env) : List Elem → World → List Nat
  | [], _ => []
  | e :: rest, w =>
    match Set.search cfg env e.k none w with
    | .ok (_, .ok idx, w2) =>
      match removeAt cfg w2.t idx with
      | .error _ => []
      | .ok (x, t') =>
        if (dropElem cfg env x { w2 with t := t' }).1 then []
        else Set.bitxorClones cfg env rest (dropElem cfg env x { w2 with t := t' }).2
    | .ok (h, .error slot, w2) =>
      match (Set.envOf env).clone w2.cc e with
      | none => []
      | some (kid, _) =>
        match insertInSlot cfg w2.t h slot { e with kid := kid } with
        | .error _ => [kid]
        | .ok t' => kid :: Set.bitxorClones cfg env rest { w2 with cc := w2.cc + 1, t := t' }
    | _ => []

theorem sk_bitxorAssignLoop (hc : CfgOk cfg) (hnd : cfg.needsDrop = true) (env : Env) :
    ∀ (xs : List Elem) (w : World), TInv cfg w.t →
      lx_R (Set.bitxorAssignLoop cfg env xs w)
        (fun w' => sk_Eff cfg w w' (Set.bitxorClones cfg env xs w) []) := by
  intro xs
  induction xs with
  | nil => intro w _; exact sk_same rfl rfl
  | cons e rest ih =>
    intro w h
    rw [ss_bitxorAssignLoop_cons]
    simp only [Set.bitxorClones]
    have hs := sk_search hc env e.k none w h
    cases hr : Set.search cfg env e.k none w with
    | ok pr =>
      obtain ⟨hv, r, w2⟩ := pr
      rw [hr] at hs
      obtain ⟨a1, eff, a3⟩ := hs
      cases r with
      | ok idx =>
        obtain ⟨x, a2⟩ := a3
        obtain ⟨t', r1, r2, _, hrem⟩ := sl_removeAt hc a1 a2
        simp only [r1]
        obtain ⟨dt, deff⟩ := sl_dropElem hnd env x { w2 with t := t' }
        cases hd : dropElem cfg env x { w2 with t := t' } with
        | mk dp w3 =>
          rw [hd] at dt deff
          simp only at dt
          have h3 : TInv cfg w3.t := by rw [dt]; exact r2
          cases dp with
          | true => simp only [if_true]; trivial
          | false =>
            simp only [Bool.false_eq_true, if_false]
            refine lx_R.mono (ih w3 h3) (fun _ ha => ?_)
            exact ((((eff.trans hrem).trans deff).sk).trans ha).to _ _ (by lx_perm)
      | error slot =>
        obtain ⟨b1, b2, b3, b4⟩ := a3
        simp only
        cases hcl : (Set.envOf env).clone w2.cc e with
        | none => trivial
        | some kv =>
          obtain ⟨kid, y⟩ := kv
          obtain ⟨t', c1, c2, eff2⟩ := sl_insertInSlot hc (w := { w2 with cc := w2.cc + 1 }) a1 b1 b2
            b3 b4 hv { e with kid := kid }
          simp only [c1]
          refine lx_R.mono (ih _ c2) (fun _ ha => ?_)
          exact ((((eff.right (w2 := { w2 with cc := w2.cc + 1 }) rfl rfl).trans eff2).sk).trans
            ha).to _ _ (by lx_perm)
    | panic c w' => trivial
    | abort => trivial
    | fault f => trivial

/-- `retain` with a predicate that only reads: every element is kept or dropped. -/
theorem sk_retainByLoop (hc : CfgOk cfg) (hnd : cfg.needsDrop = true) (env : Env)
    (p : Elem → World → Res (Bool × World)) (hp : ∀ e w, sk_RO w (p e w)) :
    ∀ (fuel : Nat) (it : RawIter) (w : World), TInv cfg w.t → IterOk cfg w.t it →
      (it.rem w.t).length < fuel →
      lx_R (Set.retainByLoop cfg env p fuel it w) (fun w' => sk_Eff cfg w w' [] []) := by
  intro fuel
  induction fuel with
  | zero => intro it w _ _ hlen; omega
  | succ fuel ih =>
    intro it w h hok hlen
    obtain ⟨it', hnext, hok', hrem'⟩ := rawIter_next_spec hc h.1 it hok
    rw [ss_retainByLoop_succ, hnext]
    cases hrem : it.rem w.t with
    | nil => exact sk_same rfl rfl
    | cons idx rest =>
      rw [hrem] at hrem' hlen
      simp only [List.head?_cons, List.tail_cons] at hrem' ⊢
      have hidx := hok.rem_full idx (by rw [hrem]; exact List.mem_cons_self)
      have hsz : idx < w.t.slots.size := by
        have ha := h.1.alloc_of_full hc hidx.1 hidx.2
        rw [(h.1.allocated ha).2.2.2.1]; exact hidx.1
      obtain ⟨e, he⟩ := Option.isSome_iff_exists.mp ((h.1.live idx hsz).2 hidx.2)
      simp only [slotGet_ok he]
      have hpe := hp e w
      unfold sk_RO at hpe
      cases hp1 : p e w with
      | ok pr =>
        obtain ⟨b, w1⟩ := pr
        rw [hp1] at hpe
        obtain ⟨ht1, hl1⟩ := hpe
        cases b with
        | true =>
          simp only
          have hlen' : (it'.rem w1.t).length < fuel := by
            rw [ht1, hrem']; simp only [List.length_cons] at hlen; omega
          exact lx_R.mono (ih it' w1 (by rw [ht1]; exact h) (by rw [ht1]; exact hok') hlen')
            (fun _ ha => ha.left ht1.symm hl1.symm)
        | false =>
          simp only
          obtain ⟨x, t', r1, r2, r3, r4, _, _, _, r8, r9, _⟩ := removeAt_inv hc h.1 hidx.1 hidx.2
          have hT' : TInv cfg t' := h.of_inv r3 r4
          have hdead : isFull (t'.ctrlAt idx) = false := by
            rcases r9 with r9 | r9 <;> rw [r9] <;> decide
          have he1 : w1.t.slots[idx]?.join = some x := by rw [ht1]; exact r2
          obtain ⟨t'', q1, _, _, hrem1⟩ := sl_removeAt hc (w := w1) (by rw [ht1]; exact h) he1
          rw [ht1, r1] at q1
          simp only [Except.ok.injEq, Prod.mk.injEq, true_and] at q1
          subst q1
          rw [ht1]
          simp only [r1]
          obtain ⟨dt, deff⟩ := sl_dropElem hnd env x { w1 with t := t' }
          cases hd : dropElem cfg env x { w1 with t := t' } with
          | mk dp w2 =>
            rw [hd] at dt deff
            simp only at dt
            cases dp with
            | true => simp only [if_true]; trivial
            | false =>
              simp only [Bool.false_eq_true, if_false]
              obtain ⟨hokn, hremn⟩ := ss_iterOk_after_remove hok hok'
                (by rw [hrem, hrem']) r4 r8 hdead
              have hlen' : (it'.rem w2.t).length < fuel := by
                rw [dt, hremn, hrem']; simp only [List.length_cons] at hlen; omega
              refine lx_R.mono
                (ih it' w2 (by rw [dt]; exact hT') (by rw [dt]; exact hokn) hlen') (fun _ ha => ?_)
              exact ((((hrem1.trans deff).left ht1.symm hl1.symm).sk).trans ha).to _ _ (by lx_perm)
      | panic c w1 => trivial
      | abort => trivial
      | fault f => trivial

theorem sk_retainBy (hc : CfgOk cfg) (hnd : cfg.needsDrop = true) (env : Env)
    (p : Elem → World → Res (Bool × World)) (hp : ∀ e w, sk_RO w (p e w)) (w : World)
    (h : TInv cfg w.t) :
    lx_R (Set.retainBy cfg env p w) (fun w' => sk_Eff cfg w w' [] []) := by
  obtain ⟨it, hnew, hok, hrem⟩ := rawIter_new_spec hc h.1
  have hlen : (it.rem w.t).length < w.t.buckets + 2 := by
    rw [hrem]; have := fullList_length_le w.t; omega
  unfold Set.retainBy
  rw [hnew]
  exact sk_retainByLoop hc hnd env p hp _ it w h hok hlen

theorem sk_bitandAssign (hc : CfgOk cfg) (hnd : cfg.needsDrop = true) (env : Env) {other : Raw}
    (ho : Inv cfg other) (w : World) (h : TInv cfg w.t) :
    lx_R (Set.bitandAssign cfg env other w) (fun w' => sk_Eff cfg w w' [] []) :=
  sk_retainBy hc hnd env _ (fun e w => sk_containsIn hc env ho e.k w) w h

theorem sk_subAssign (hc : CfgOk cfg) (hnd : cfg.needsDrop = true) (env : Env) {other : Raw}
    (ho : Inv cfg other) (w : World) (h : TInv cfg w.t) :
    lx_R (Set.subAssign cfg env other w) (fun w' => sk_Eff cfg w w' [] []) := by
  unfold Set.subAssign
  split
  · rw [elemsOf_spec hc ho]; exact sk_removeAllLoop hc hnd env _ w h
  · refine sk_retainBy hc hnd env _ (fun e w => ?_) w h
    exact lx_R.bind (sk_containsIn hc env ho e.k w) (fun _ ha => ha)

/-! ### one call `target.op(&other)` -/

/-- Key objects ENTERING the accounting with one call `target.op(&other)` (`w.t` = the target):
    the objects the caller moves in (`insert`, `replace`, `get_or_insert`, the three `entry` forms),
    the object `get_or_insert_with`'s closure makes if it runs (`Set.gowCreated`), and the CLONES the
    operators `|=` / `^=` create from elements of the other set (`Set.bitorClones`,
    `Set.bitxorClones`: counted as moved in when created, as `run2_ledger` of `PairHistory.lean`
    does for `clone`). Everything else moves nothing in. -/
def Set.insK (cfg : Cfg) (env : Env) (op : SetOp) (other : Raw) (w : World) : List Nat :=
  match op with
  | .insert _ kid => [kid]
  | .remove _ => []
  | .take _ => []
  | .replace e => [e.kid]
  | .getOrInsert e => [e.kid]
  | .getOrInsertWith k _ kid2 => Set.gowCreated cfg env k kid2 w
  | .contains _ => []
  | .get _ => []
  | .entryInsert e => [e.kid]
  | .entryOrInsert e => [e.kid]
  | .entryRemove e => [e.kid]
  | .retain => []
  | .clear => []
  | .reserve _ => []
  | .shrinkTo _ => []
  | .union => []
  | .intersection => []
  | .difference => []
  | .symmetricDifference => []
  | .isSubset => []
  | .isSuperset => []
  | .isDisjoint => []
  | .eq => []
  | .bitorAssign =>
    match Set.elemsOf cfg other with
    | .ok xs => Set.bitorClones cfg env xs w
    | .error _ => []
  | .bitandAssign => []
  | .bitxorAssign =>
    match Set.elemsOf cfg other with
    | .ok xs => Set.bitxorClones cfg env xs w
    | .error _ => []
  | .subAssign => []

/-- Key objects handed back to the caller BY VALUE by call `op` returning `r`: the element `take`
    removed, the element `replace` replaced, the element `OccupiedEntry::remove` removed. Look-ups
    and the lazy set-algebra iterators return references. -/
def Set.retK : SetOp → Ret → List Nat
  | .take _, .elem r => kidsOf r.toList
  | .replace _, .elem r => kidsOf r.toList
  | .entryRemove _, .elem r => kidsOf r.toList
  | _, _ => []

/-- Un-wrapping `Set.wrap`. -/
theorem sk_wrap {α : Type} {g : α → Ret} {x : Res (α × World)} {r : Ret} {w' : World}
    (h : Set.wrap g x = .ok (r, w')) : ∃ a, x = .ok (a, w') ∧ r = g a := by
  cases x with
  | ok pr =>
    obtain ⟨a, w1⟩ := pr
    simp only [Set.wrap, Res.ok.injEq, Prod.mk.injEq] at h
    exact ⟨a, by rw [h.2], h.1.symm⟩
  | panic c w1 => cases h
  | abort => cases h
  | fault f => cases h

theorem sk_wrapU {x : Res World} {r : Ret} {w' : World}
    (h : Set.wrapU x = .ok (r, w')) : x = .ok w' ∧ r = .unit := by
  cases x with
  | ok w1 =>
    simp only [Set.wrapU, Res.ok.injEq, Prod.mk.injEq] at h
    exact ⟨by rw [h.2], h.1.symm⟩
  | panic c w1 => cases h
  | abort => cases h
  | fault f => cases h

/-- **S-L0 — ledger of one returned call `target.op(&other)`** (`w.t` = the target set, `other`
    the right operand, any two valid tables, every environment): key objects stored in the target
    before or entering (`Set.insK`) are afterwards stored in the target, dropped, or handed back
    (`Set.retK`); framed allocator effect on the target's block. -/
theorem set_call_ledger (hc : CfgOk cfg) (hnd : cfg.needsDrop = true) (env : Env) (op : SetOp)
    (other : Raw) (w : World) (h : TInv cfg w.t) (ho : TInv cfg other) {r : Ret} {w' : World}
    (hs : Set.call cfg env op other w = .ok (r, w')) :
    sk_Eff cfg w w' (Set.insK cfg env op other w) (Set.retK op r) := by
  cases op with
  | insert k kid =>
    obtain ⟨a, hx, rfl⟩ := sk_wrap hs
    exact (sk_setInsert hc hnd env k kid w h).elim hx
  | remove k =>
    obtain ⟨a, hx, rfl⟩ := sk_wrap hs
    exact (sk_setRemove hc hnd env k w h).elim hx
  | take k =>
    obtain ⟨a, hx, rfl⟩ := sk_wrap hs
    exact (sk_removeEntry hc env k w h).elim hx
  | replace e =>
    obtain ⟨a, hx, rfl⟩ := sk_wrap hs
    exact (sk_setReplace hc env e w h).elim hx
  | getOrInsert e =>
    obtain ⟨a, hx, rfl⟩ := sk_wrap hs
    exact (sk_setGetOrInsert hc hnd env e w h).elim hx
  | getOrInsertWith k k2 kid2 =>
    obtain ⟨a, hx, rfl⟩ := sk_wrap hs
    exact (sk_setGetOrInsertWith hc env k k2 kid2 w h).elim hx
  | contains k =>
    obtain ⟨a, hx, rfl⟩ := sk_wrap hs
    exact (sk_setContains hc env k w h).elim hx
  | get k =>
    obtain ⟨a, hx, rfl⟩ := sk_wrap hs
    exact ((sk_mapGet hc env k w h).eff).elim hx
  | entryInsert e =>
    obtain ⟨a, hx, rfl⟩ := sk_wrap hs
    exact (sk_setEntryInsert hc hnd env e w h).elim hx
  | entryOrInsert e =>
    obtain ⟨hx, rfl⟩ := sk_wrapU hs
    exact (sk_setEntryOrInsert hc hnd env e w h).elim hx
  | entryRemove e =>
    obtain ⟨a, hx, rfl⟩ := sk_wrap hs
    exact (sk_setEntryRemove hc hnd env e w h).elim hx
  | retain =>
    obtain ⟨hx, rfl⟩ := sk_wrapU hs
    exact (sk_retain hc hnd (Set.envOf env) w h).elim hx
  | clear =>
    obtain ⟨hx, rfl⟩ := sk_wrapU hs
    exact (sk_clear hc hnd env w h).elim hx
  | reserve n =>
    obtain ⟨hx, rfl⟩ := sk_wrapU hs
    exact ((sl_reserve hc env n w h).elim hx).2.sk
  | shrinkTo m =>
    obtain ⟨hx, rfl⟩ := sk_wrapU hs
    exact (sk_shrinkTo hc env m w h).elim hx
  | union =>
    obtain ⟨a, hx, rfl⟩ := sk_wrap hs
    exact ((sk_lazyOp hc env (st_unionSteps hc h.1 ho.1) w).eff).elim hx
  | intersection =>
    obtain ⟨a, hx, rfl⟩ := sk_wrap hs
    exact ((sk_lazyOp hc env (st_intersectionSteps hc h.1 ho.1) w).eff).elim hx
  | difference =>
    obtain ⟨a, hx, rfl⟩ := sk_wrap hs
    exact ((sk_lazyOp hc env (st_differenceSteps hc h.1 ho.1) w).eff).elim hx
  | symmetricDifference =>
    obtain ⟨a, hx, rfl⟩ := sk_wrap hs
    exact ((sk_lazyOp hc env (st_symmetricDifferenceSteps hc h.1 ho.1) w).eff).elim hx
  | isSubset =>
    obtain ⟨a, hx, rfl⟩ := sk_wrap hs
    exact ((sk_isSubsetOf hc env h.1 ho.1 w).eff).elim hx
  | isSuperset =>
    obtain ⟨a, hx, rfl⟩ := sk_wrap hs
    exact ((sk_isSubsetOf hc env ho.1 h.1 w).eff).elim hx
  | isDisjoint =>
    obtain ⟨a, hx, rfl⟩ := sk_wrap hs
    exact ((sk_isDisjoint hc env ho.1 w h.1).eff).elim hx
  | eq =>
    obtain ⟨a, hx, rfl⟩ := sk_wrap hs
    exact ((sk_setEq hc env ho.1 w h.1).eff).elim hx
  | bitorAssign =>
    obtain ⟨hx, rfl⟩ := sk_wrapU hs
    simp only [Set.insK, Set.bitorAssign, elemsOf_spec hc ho.1] at hx ⊢
    exact (sk_bitorAssignLoop hc hnd env _ w h).elim hx
  | bitandAssign =>
    obtain ⟨hx, rfl⟩ := sk_wrapU hs
    exact (sk_bitandAssign hc hnd env ho.1 w h).elim hx
  | bitxorAssign =>
    obtain ⟨hx, rfl⟩ := sk_wrapU hs
    simp only [Set.insK, Set.bitxorAssign, elemsOf_spec hc ho.1] at hx ⊢
    exact (sk_bitxorAssignLoop hc hnd env _ w h).elim hx
  | subAssign =>
    obtain ⟨hx, rfl⟩ := sk_wrapU hs
    exact (sk_subAssign hc hnd env ho.1 w h).elim hx

/-! ### one call on a pair, whole histories -/

/-- Allocator invariant of a pair of sets: all frees matched, and the live blocks are exactly the
    block of `a` and the block of `b` (each absent for an unallocated singleton). -/
def sk_AllocInv2 (cfg : Cfg) (s : Set.Pair) : Prop :=
  freesMatched s.w.log ∧
    List.Perm (liveBlocks s.w.log) (hs_blockOf cfg s.a ++ hs_blockOf cfg s.b)

/-- Key-object ledger between two pairs of sets: `s ⟶ s'` wrote the log entries `new`; every key
    object stored in `a` or `b` before, or entering (`iK`), is afterwards stored in `a` or `b`,
    dropped (in `new`) or has left by value (`oK`) — as multisets of identities; and whatever log
    `L` the history started from, if its live blocks were the blocks of `a` and `b` and its frees
    matched, the same holds after `new`. -/
def sk_Led2 (cfg : Cfg) (s s' : Set.Pair) (iK oK : List Nat) : Prop :=
  ∃ new, s'.w.log = new ++ s.w.log ∧
    List.Perm (kidsOf s'.a.elems ++ kidsOf s'.b.elems ++ droppedK new ++ oK)
      (kidsOf s.a.elems ++ kidsOf s.b.elems ++ iK) ∧
    (∀ L, freesMatched L →
      List.Perm (liveBlocks L) (hs_blockOf cfg s.a ++ hs_blockOf cfg s.b) →
      freesMatched (new ++ L) ∧
        List.Perm (liveBlocks (new ++ L)) (hs_blockOf cfg s'.a ++ hs_blockOf cfg s'.b))

theorem sk_Led2.refl (s : Set.Pair) : sk_Led2 cfg s s [] [] :=
  ⟨[], rfl, by simp only [sl_droppedK_nil, List.append_nil]; exact List.Perm.refl _,
    fun _ hf hl => ⟨hf, hl⟩⟩

theorem sk_Led2.trans {a b c : Set.Pair} {i1 o1 i2 o2 : List Nat}
    (h1 : sk_Led2 cfg a b i1 o1) (h2 : sk_Led2 cfg b c i2 o2) :
    sk_Led2 cfg a c (i1 ++ i2) (o1 ++ o2) := by
  obtain ⟨n1, l1, k1, a1⟩ := h1
  obtain ⟨n2, l2, k2, a2⟩ := h2
  refine ⟨n2 ++ n1, by rw [l2, l1, List.append_assoc], ?_, fun L hf hl => ?_⟩
  · sl_count [k1, k2]
  · obtain ⟨f1, p1⟩ := a1 L hf hl
    rw [List.append_assoc]
    exact a2 (n1 ++ L) f1 p1

theorem sk_Led2.allocInv {s s' : Set.Pair} {iK oK : List Nat} (h : sk_Led2 cfg s s' iK oK)
    (ha : sk_AllocInv2 cfg s) : sk_AllocInv2 cfg s' := by
  obtain ⟨new, l, _, a⟩ := h
  obtain ⟨f, p⟩ := a s.w.log ha.1 ha.2
  unfold sk_AllocInv2
  rw [l]
  exact ⟨f, p⟩

/-- Key objects entering the accounting with one call of a pair history (`Set.insK` on the view the
    call sees). -/
def SetCall.insK (cfg : Cfg) (env : Env) (c : SetCall) (s : Set.Pair) : List Nat :=
  Set.insK cfg env c.op (s.view c.side).2 (s.view c.side).1

/-- **S-L1 — ledger of one returned call on a pair of sets.** Element type with drop glue, EVERY
    environment, any two valid tables, any `SetCall` that returns `r`: every key object that was
    stored in either set before, was moved in, or was created by `Clone` during the call
    (`SetCall.insK`) is afterwards in exactly one of {set `a`, set `b`, the destructor log of this
    call, the return value (`Set.retK`)}; the allocator invariant of the pair is kept. -/
theorem set_step2_ledger (hc : CfgOk cfg) (hnd : cfg.needsDrop = true) (env : Env) (c : SetCall)
    (s : Set.Pair) (ha : TInv cfg s.a) (hb : TInv cfg s.b) {r : Ret} {s' : Set.Pair}
    (hst : Set.step2 cfg env c s = .ret r s') :
    sk_Led2 cfg s s' (c.insK cfg env s) (Set.retK c.op r) := by
  obtain ⟨side, op⟩ := c
  cases side with
  | a =>
    have hst' : Set.step2 cfg env ⟨.a, op⟩ s =
        match Set.call cfg env op s.b s.w with
        | .ok (r, w') => .ret r { w := w', b := s.b }
        | .panic cls w' => .panic cls { w := w', b := s.b }
        | .abort => .abort
        | .fault f => .fault f := rfl
    rw [hst'] at hst
    cases hcall : Set.call cfg env op s.b s.w with
    | ok pr =>
      obtain ⟨r', w'⟩ := pr
      rw [hcall] at hst
      simp only [Set.Out2.ret.injEq] at hst
      obtain ⟨rfl, rfl⟩ := hst
      obtain ⟨_, _, new, l, k, _, ad⟩ := set_call_ledger hc hnd env op s.b s.w ha hb hcall
      refine ⟨new, l, ?_, fun L hf hl => ?_⟩
      · show List.Perm (kidsOf w'.t.elems ++ kidsOf s.b.elems ++ droppedK new ++ _)
          (kidsOf s.w.t.elems ++ kidsOf s.b.elems ++ Set.insK cfg env op s.b s.w)
        sl_count [k]
      · exact ad L (hs_blockOf cfg s.b) hf hl
    | panic cls w' => rw [hcall] at hst; cases hst
    | abort => rw [hcall] at hst; cases hst
    | fault f => rw [hcall] at hst; cases hst
  | b =>
    have hst' : Set.step2 cfg env ⟨.b, op⟩ s =
        match Set.call cfg env op s.w.t { s.w with t := s.b } with
        | .ok (r, w') => .ret r { w := { w' with t := s.w.t }, b := w'.t }
        | .panic cls w' => .panic cls { w := { w' with t := s.w.t }, b := w'.t }
        | .abort => .abort
        | .fault f => .fault f := rfl
    rw [hst'] at hst
    cases hcall : Set.call cfg env op s.w.t { s.w with t := s.b } with
    | ok pr =>
      obtain ⟨r', w'⟩ := pr
      rw [hcall] at hst
      simp only [Set.Out2.ret.injEq] at hst
      obtain ⟨rfl, rfl⟩ := hst
      obtain ⟨_, _, new, l, k, _, ad⟩ :=
        set_call_ledger hc hnd env op s.w.t { s.w with t := s.b } hb ha hcall
      refine ⟨new, l, ?_, fun L hf hl => ?_⟩
      · show List.Perm (kidsOf s.w.t.elems ++ kidsOf w'.t.elems ++ droppedK new ++ _)
          (kidsOf s.w.t.elems ++ kidsOf s.b.elems ++
            Set.insK cfg env op s.w.t { s.w with t := s.b })
        have k' : List.Perm (kidsOf w'.t.elems ++ droppedK new ++ Set.retK op r')
          (kidsOf s.b.elems ++ Set.insK cfg env op s.w.t { s.w with t := s.b }) := k
        sl_count [k']
      · have hl' : List.Perm (liveBlocks L) (hs_blockOf cfg s.b ++ hs_blockOf cfg s.w.t) :=
          hl.trans List.perm_append_comm
        obtain ⟨f, p⟩ := ad L (hs_blockOf cfg s.w.t) hf hl'
        exact ⟨f, p.trans List.perm_append_comm⟩
    | panic cls w' => rw [hcall] at hst; cases hst
    | abort => rw [hcall] at hst; cases hst
    | fault f => rw [hcall] at hst; cases hst

/-- Key objects entering the accounting during a pair history: moved in by the caller, or created
    by `Clone` (counted when created). -/
def Set.insK2 (cfg : Cfg) (env : Env) : List SetCall → Set.Pair → List Nat
  | [], _ => []
  | c :: rest, s =>
    match Set.step2 cfg env c s with
    | .ret _ s' => c.insK cfg env s ++ Set.insK2 cfg env rest s'
    | .panic _ s' => c.insK cfg env s ++ Set.insK2 cfg env rest s'
    | .abort => []
    | .fault _ => []

/-- Key objects handed back to the caller by the returned calls of a pair history. -/
def Set.returnedK2 : List (SetCall × Map.Obs) → List Nat
  | [] => []
  | (c, .ret r) :: rest => Set.retK c.op r ++ Set.returnedK2 rest
  | (_, .panic _) :: rest => Set.returnedK2 rest

/-- Ledger of a pair history from any two valid tables, with the allocator invariant after every
    prefix (`Set.states2`). -/
theorem sk_run2_ledger (hc : CfgOk cfg) (hnd : cfg.needsDrop = true) (env : Env) :
    ∀ (cs : List SetCall) (s sf : Set.Pair) (obs : List Map.Obs), TInv cfg s.a → TInv cfg s.b →
      Set.run2 cfg env cs s = some (obs, sf) → (∀ o ∈ obs, ∃ r, o = .ret r) →
      sk_Led2 cfg s sf (Set.insK2 cfg env cs s) (Set.returnedK2 (cs.zip obs)) ∧
      TInv cfg sf.a ∧ TInv cfg sf.b ∧
      (sk_AllocInv2 cfg s → ∀ s' ∈ Set.states2 cfg env cs s, sk_AllocInv2 cfg s') := by
  intro cs
  induction cs with
  | nil =>
    intro s sf obs ha hb hrun _
    simp only [Set.run2, Option.some.injEq, Prod.mk.injEq] at hrun
    obtain ⟨h1, h2⟩ := hrun
    subst h1 h2
    refine ⟨sk_Led2.refl s, ha, hb, fun hi s' hs' => ?_⟩
    simp only [Set.states2, List.mem_singleton] at hs'
    rw [hs']; exact hi
  | cons c rest ih =>
    intro s sf obs ha hb hrun hret
    cases hr : Set.step2 cfg env c s with
    | ret r s1 =>
      simp only [Set.run2, hr] at hrun
      obtain ⟨⟨os, sf'⟩, h1, h2⟩ := Option.map_eq_some_iff.1 hrun
      simp only [Prod.mk.injEq] at h2
      obtain ⟨h2a, h2b⟩ := h2
      subst h2a h2b
      have e1 := set_step2_ledger hc hnd env c s ha hb hr
      have hg := st_step2_safe hc (Or.inl hnd) env c s ha hb
      rw [hr] at hg
      obtain ⟨e2, ta, tb, al⟩ := ih s1 sf' os hg.1.1 hg.2.1 h1
        (fun o ho => hret o (List.mem_cons_of_mem _ ho))
      refine ⟨?_, ta, tb, fun hi s' hs' => ?_⟩
      · simp only [List.zip_cons_cons, Set.returnedK2, Set.insK2, hr]
        exact e1.trans e2
      · simp only [Set.states2, hr, List.mem_cons] at hs'
        rcases hs' with rfl | hs'
        · exact hi
        · exact al (e1.allocInv hi) s' hs'
    | panic cls s1 =>
      simp only [Set.run2, hr] at hrun
      obtain ⟨⟨os, sf'⟩, h1, h2⟩ := Option.map_eq_some_iff.1 hrun
      simp only [Prod.mk.injEq] at h2
      obtain ⟨r, hr'⟩ := hret (.panic cls) (by rw [← h2.1]; exact List.mem_cons_self)
      cases hr'
    | abort => simp [Set.run2, hr] at hrun
    | fault f => simp [Set.run2, hr] at hrun

theorem sk_allocInv2_new (s0 : Set.Pair) (ha : s0.a = Raw.new cfg.W) (hb : s0.b = Raw.new cfg.W)
    (hl0 : s0.w.log = []) : sk_AllocInv2 cfg s0 := by
  unfold sk_AllocInv2
  rw [hl0, ha, hb]
  exact ⟨trivial, List.Perm.refl _⟩

/-- **S-L2 — ledger of a history on a pair of sets (C03).** Every history of `HashSet` calls on a
    fresh pair `(HashSet::new(), HashSet::new())` with an empty log (element type with drop glue,
    EVERY environment) in which every call returns: as multisets of object identities
      `stored(a) ++ stored(b) ++ dropped ++ handed back = moved in ++ clones created`
    (`Set.insK2`: the objects the caller moved in plus the clones `|=` / `^=` created, counted when
    created; `Set.returnedK2`: what `take` / `replace` / `OccupiedEntry::remove` handed back); every
    `free` returned a block that was live with the layout it was requested with, and the live
    blocks are exactly the blocks of `a` and `b`; both tables are valid. -/
theorem set_run2_ledger (hc : CfgOk cfg) (hnd : cfg.needsDrop = true) (env : Env)
    (cs : List SetCall) (s0 : Set.Pair) (ha : s0.a = Raw.new cfg.W) (hb : s0.b = Raw.new cfg.W)
    (hl0 : s0.w.log = []) {obs : List Map.Obs} {sf : Set.Pair}
    (hrun : Set.run2 cfg env cs s0 = some (obs, sf)) (hret : ∀ o ∈ obs, ∃ r, o = .ret r) :
    List.Perm (kidsOf sf.a.elems ++ kidsOf sf.b.elems ++ droppedK sf.w.log ++
        Set.returnedK2 (cs.zip obs)) (Set.insK2 cfg env cs s0) ∧
    freesMatched sf.w.log ∧
    List.Perm (liveBlocks sf.w.log) (hs_blockOf cfg sf.a ++ hs_blockOf cfg sf.b) ∧
    TInv cfg sf.a ∧ TInv cfg sf.b := by
  obtain ⟨led, ta, tb, _⟩ := sk_run2_ledger hc hnd env cs s0 sf obs (by rw [ha]; exact TInv.new hc)
    (by rw [hb]; exact TInv.new hc) hrun hret
  obtain ⟨af, al⟩ := led.allocInv (sk_allocInv2_new s0 ha hb hl0)
  obtain ⟨new, l, k, _⟩ := led
  rw [hl0, List.append_nil] at l
  have e0 : (Raw.new cfg.W).elems = [] := rfl
  rw [ha, hb, e0] at k
  rw [l]
  exact ⟨by simpa [kidsOf] using k, by rw [← l]; exact af, by rw [← l]; exact al, ta, tb⟩

/-- **S-L2' — the same from any two valid tables** (`new` = the log entries the history wrote). -/
theorem set_run2_ledger_from (hc : CfgOk cfg) (hnd : cfg.needsDrop = true) (env : Env)
    (cs : List SetCall) (s sf : Set.Pair) (obs : List Map.Obs) (ha : TInv cfg s.a)
    (hb : TInv cfg s.b) (hrun : Set.run2 cfg env cs s = some (obs, sf))
    (hret : ∀ o ∈ obs, ∃ r, o = .ret r) :
    (∃ new, sf.w.log = new ++ s.w.log ∧
      List.Perm (kidsOf sf.a.elems ++ kidsOf sf.b.elems ++ droppedK new ++
          Set.returnedK2 (cs.zip obs))
        (kidsOf s.a.elems ++ kidsOf s.b.elems ++ Set.insK2 cfg env cs s)) ∧
    (sk_AllocInv2 cfg s → sk_AllocInv2 cfg sf) ∧ TInv cfg sf.a ∧ TInv cfg sf.b := by
  obtain ⟨led, ta, tb, _⟩ := sk_run2_ledger hc hnd env cs s sf obs ha hb hrun hret
  refine ⟨?_, led.allocInv, ta, tb⟩
  obtain ⟨new, l, k, _⟩ := led
  exact ⟨new, l, k⟩

/-- **S-L2, allocator invariant along the history.** After EVERY prefix (the pairs `Set.states2`
    lists): all frees matched, and the live blocks are the blocks of `a` and of `b` — a set that is
    the unallocated singleton owns none. -/
theorem set_run2_allocInv (hc : CfgOk cfg) (hnd : cfg.needsDrop = true) (env : Env)
    (cs : List SetCall) (s0 : Set.Pair) (ha : s0.a = Raw.new cfg.W) (hb : s0.b = Raw.new cfg.W)
    (hl0 : s0.w.log = []) {obs : List Map.Obs} {sf : Set.Pair}
    (hrun : Set.run2 cfg env cs s0 = some (obs, sf)) (hret : ∀ o ∈ obs, ∃ r, o = .ret r) :
    ∀ s ∈ Set.states2 cfg env cs s0,
      freesMatched s.w.log ∧
      List.Perm (liveBlocks s.w.log) (hs_blockOf cfg s.a ++ hs_blockOf cfg s.b) ∧
      (s.a.alloc = false → s.b.alloc = false → liveBlocks s.w.log = []) := by
  obtain ⟨_, _, _, al⟩ := sk_run2_ledger hc hnd env cs s0 sf obs (by rw [ha]; exact TInv.new hc)
    (by rw [hb]; exact TInv.new hc) hrun hret
  intro s hs
  obtain ⟨f, p⟩ := al (sk_allocInv2_new s0 ha hb hl0) s hs
  refine ⟨f, p, fun h1 h2 => ?_⟩
  have e1 : hs_blockOf cfg s.a = [] := by unfold hs_blockOf; rw [h1]; rfl
  have e2 : hs_blockOf cfg s.b = [] := by unfold hs_blockOf; rw [h2]; rfl
  rw [e1, e2] at p
  exact List.perm_nil.1 p

/-- **S-L2, drop of both sets.** After additionally dropping set `a` and then set `b` (destructors
    do not panic): every key object moved in or created by `Clone` was dropped exactly once or
    handed back exactly once; nothing remains allocated and every `free` was matched. -/
theorem set_dropAll2_ledger (hc : CfgOk cfg) (hnd : cfg.needsDrop = true) (env : Env)
    (hdp : ∀ c e, env.dropPanics c e = false) (cs : List SetCall) (s0 : Set.Pair)
    (ha : s0.a = Raw.new cfg.W) (hb : s0.b = Raw.new cfg.W) (hl0 : s0.w.log = [])
    {obs : List Map.Obs} {sf : Set.Pair} (hrun : Set.run2 cfg env cs s0 = some (obs, sf))
    (hret : ∀ o ∈ obs, ∃ r, o = .ret r) :
    ∃ w1 wd, dropInnerTable cfg env sf.a { sf.w with t := Raw.new cfg.W } = .ok w1 ∧
      dropInnerTable cfg env sf.b w1 = .ok wd ∧ wd.t = Raw.new cfg.W ∧
      List.Perm (droppedK wd.log ++ Set.returnedK2 (cs.zip obs)) (Set.insK2 cfg env cs s0) ∧
      liveBlocks wd.log = [] ∧ freesMatched wd.log := by
  obtain ⟨k, af, al, ta, tb⟩ := set_run2_ledger hc hnd env cs s0 ha hb hl0 hrun hret
  obtain ⟨w1, n1, hr1, ht1, hl1, dk1, _, ad1⟩ :=
    sl_dropInner hc hnd env hdp sf.a ta { sf.w with t := Raw.new cfg.W }
  obtain ⟨wd, n2, hr2, ht2, hl2, dk2, _, ad2⟩ := sl_dropInner hc hnd env hdp sf.b tb w1
  have hl1' : w1.log = n1 ++ sf.w.log := hl1
  obtain ⟨f1, p1⟩ := ad1 sf.w.log (hs_blockOf cfg sf.b) af al
  have p1' : List.Perm (liveBlocks (n1 ++ sf.w.log)) (hs_blockOf cfg sf.b ++ []) := by
    rw [List.append_nil]; exact p1
  obtain ⟨f2, p2⟩ := ad2 (n1 ++ sf.w.log) [] f1 p1'
  have hlog : wd.log = n2 ++ (n1 ++ sf.w.log) := by rw [hl2, hl1']
  refine ⟨w1, wd, hr1, hr2, by rw [ht2, ht1], ?_, ?_, ?_⟩
  · rw [hlog]
    sl_count [k, dk1, dk2]
  · rw [hlog]; exact List.perm_nil.1 p2
  · rw [hlog]; exact f2

/-- With pairwise distinct identities moved in / created, no key object is stored twice (in one set
    or across the two), none is dropped twice, none is both dropped and handed back, none is both
    stored and dropped / handed back. -/
theorem set_run2_no_double_drop (hc : CfgOk cfg) (hnd : cfg.needsDrop = true) (env : Env)
    (cs : List SetCall) (s0 : Set.Pair) (ha : s0.a = Raw.new cfg.W) (hb : s0.b = Raw.new cfg.W)
    (hl0 : s0.w.log = []) {obs : List Map.Obs} {sf : Set.Pair}
    (hrun : Set.run2 cfg env cs s0 = some (obs, sf)) (hret : ∀ o ∈ obs, ∃ r, o = .ret r)
    (hK : (Set.insK2 cfg env cs s0).Nodup) :
    (kidsOf sf.a.elems ++ kidsOf sf.b.elems).Nodup ∧ (droppedK sf.w.log).Nodup ∧
    (Set.returnedK2 (cs.zip obs)).Nodup ∧
    (∀ x ∈ Set.returnedK2 (cs.zip obs),
      x ∉ droppedK sf.w.log ∧ x ∉ kidsOf sf.a.elems ++ kidsOf sf.b.elems) ∧
    (∀ x ∈ droppedK sf.w.log, x ∉ kidsOf sf.a.elems ++ kidsOf sf.b.elems) := by
  obtain ⟨k, _⟩ := set_run2_ledger hc hnd env cs s0 ha hb hl0 hrun hret
  exact hs_nodup_parts k hK

/-! ## 3. `HashTable` calls that UNWIND (C04) -/

/-- Ledger of one `HashTable` call `op` that unwound with panic class `c` from `w` leaving `w'`:
    `new` = the log entries written; `lostK` / `lostV` = objects neither stored nor dropped
    afterwards; `leaked` = blocks neither freed nor owned by the table afterwards. Nothing is lost
    or leaked unless the panic is a destructor's (`c = "drop"`) — or the call is an `extract_if`
    whose predicate panicked after elements had been yielded (they are with the caller). -/
def tl_LedgerP (cfg : Cfg) (env : Env) (op : TableOp) (c : String) (w w' : World) : Prop :=
  ∃ (new : List Ev) (lostK lostV : List Nat) (leaked : List (Nat × Nat)), w'.log = new ++ w.log ∧
    List.Perm (kidsOf w'.t.elems ++ droppedK new ++ lostK)
      (kidsOf w.t.elems ++ kidsOf (Table.insH op)) ∧
    List.Perm (vidsOf w'.t.elems ++ droppedV new ++ lostV)
      (vidsOf w.t.elems ++ vidsOf (Table.insH op)) ∧
    (∀ L, hs_AllocInvL cfg w L → hs_AllocInvL cfg w' (leaked ++ L)) ∧
    ((∀ n f, op ≠ .drain n f) → leaked = []) ∧
    ((∀ c e, env.dropPanics c e = false) →
      leaked = [] ∧ ((∀ n, op ≠ .extractIf n) → lostK = [] ∧ lostV = [])) ∧
    (c ≠ "drop" → leaked = [] ∧ ((∀ n, op ≠ .extractIf n) → lostK = [] ∧ lostV = []))

/-- A part of a call that loses nothing, after which the elements the call moved in were dropped
    (by the unwinding, or by a destructor call that then panicked). -/
theorem tl_ledgerP_of_eff (hnd : cfg.needsDrop = true) {env : Env} {op : TableOp} {c : String}
    {w w1 w' : World} {new : List Ev} {ds : List Elem} (he : lp_Eff cfg w w1 new ds)
    (ht : w'.t = w1.t) (hl : w'.log = dropEvs cfg (Table.insH op) ++ w1.log) :
    tl_LedgerP cfg env op c w w' := by
  obtain ⟨dk, dv⟩ := hs_dropped_dropEvs hnd (Table.insH op)
  refine ⟨dropEvs cfg (Table.insH op) ++ new, [], [], [], by rw [hl, he.log, List.append_assoc],
    ?_, ?_, ?_, fun _ => rfl, fun _ => ⟨rfl, fun _ => ⟨rfl, rfl⟩⟩,
    fun _ => ⟨rfl, fun _ => ⟨rfl, rfl⟩⟩⟩
  · rw [hs_droppedK_append, dk, ht]
    have hk := he.permK
    sl_count [hk]
  · rw [hs_droppedV_append, dv, ht]
    have hv := he.permV
    sl_count [hv]
  · intro L x
    rw [List.nil_append]
    exact lp_frame_drops (w := w1) he.inv.1 (by rw [ht]; exact he.inv.1) hl (hs_dropOnly_dropEvs _)
      (by rw [ht]) (he.frame L x)

theorem tl_dropElem_log (hnd : cfg.needsDrop = true) (env : Env) (e : Elem) (w : World) :
    (dropElem cfg env e w).2.log = dropEvs cfg [e] ++ w.log := by
  unfold dropElem dropEvs
  rw [if_pos hnd, if_pos hnd]
  rfl

/-- `RawTable::insert` unwinding: only inside `reserve(1)`. -/
theorem tl_rawInsert_panic (hc : CfgOk cfg) (hnd : cfg.needsDrop = true) (env : Env) (hash : Nat)
    (e : Elem) (w : World) (h : TInv cfg w.t) :
    match rawInsert cfg env hash e w with
    | .panic _ w' => ∃ new ds, lp_Eff cfg w w' new ds
    | _ => True := by
  have hp := hc.probe
  obtain ⟨slot, hfs, hlt, hsp⟩ := findInsertSlot_ok hc hp h.1 hash
  have hsz : slot < w.t.ctrl.size := by have := h.1.buckets_le_size hc; omega
  unfold rawInsert
  simp only [hfs, ctrlRd_ok hsz]
  by_cases hbr : w.t.gl = 0 ∧ specialIsEmpty (w.t.ctrlAt slot) = true
  · rw [if_pos hbr]
    have hres := lp_reserve_eff hc hp hnd env 1 w h
    cases hr : reserve cfg env 1 w with
    | ok w1 =>
      simp only
      cases findInsertSlot cfg w1.t hash with
      | error f => trivial
      | ok slot' =>
        simp only
        cases insertInSlot cfg w1.t hash slot' e with
        | error f => trivial
        | ok t' => trivial
    | panic c w' => rw [hr] at hres; exact hres
    | abort => trivial
    | fault f => trivial
  · rw [if_neg hbr]
    cases insertInSlot cfg w.t hash slot e with
    | error f => trivial
    | ok t' => trivial

theorem tl_find_panic (hc : CfgOk cfg) (env : Env) (hash q : Nat) (w : World) (h : TInv cfg w.t)
    {c : String} {w' : World} (hr : find cfg env hash q w = .panic c w') :
    lp_Eff cfg w w' [] [] := by
  rcases find_total hc hc.probe env hash q w h.1 with ⟨r, w1, k1, _⟩ | ⟨w1, k1, k2, k3⟩
  · rw [k1] at hr; cases hr
  · rw [k1] at hr
    simp only [Res.panic.injEq] at hr
    rw [← hr.2]
    exact lp_Eff.of_same h k2 k3

theorem tl_findElem_panic (hc : CfgOk cfg) (env : Env) (hash q : Nat) (w : World)
    (h : TInv cfg w.t) {c : String} {w' : World}
    (hr : Table.findElem cfg env hash q w = .panic c w') : lp_Eff cfg w w' [] [] := by
  unfold Table.findElem at hr
  cases hf : find cfg env hash q w with
  | ok pr =>
    obtain ⟨r, w1⟩ := pr
    rw [hf] at hr
    simp only [bind, Res.bind] at hr
    cases r with
    | none => cases hr
    | some idx =>
      simp only at hr
      cases hg : slotGet w1.t idx with
      | error f => rw [hg] at hr; cases hr
      | ok e => rw [hg] at hr; cases hr
  | panic c1 w1 =>
    rw [hf] at hr
    simp only [bind, Res.bind, Res.panic.injEq] at hr
    obtain ⟨rfl, rfl⟩ := hr
    exact tl_find_panic hc env hash q w h hf
  | abort => rw [hf] at hr; cases hr
  | fault f => rw [hf] at hr; cases hr

theorem tl_findMut_panic (hc : CfgOk cfg) (env : Env) (hash q nv : Nat) (w : World)
    (h : TInv cfg w.t) {c : String} {w' : World}
    (hr : Table.findMut cfg env hash q nv w = .panic c w') : lp_Eff cfg w w' [] [] := by
  unfold Table.findMut at hr
  cases hf : find cfg env hash q w with
  | ok pr =>
    obtain ⟨r, w1⟩ := pr
    rw [hf] at hr
    simp only [bind, Res.bind] at hr
    cases r with
    | none => cases hr
    | some idx =>
      simp only at hr
      cases hg : slotGet w1.t idx with
      | error f => rw [hg] at hr; cases hr
      | ok e => rw [hg] at hr; cases hr
  | panic c1 w1 =>
    rw [hf] at hr
    simp only [bind, Res.bind, Res.panic.injEq] at hr
    obtain ⟨rfl, rfl⟩ := hr
    exact tl_find_panic hc env hash q w h hf
  | abort => rw [hf] at hr; cases hr
  | fault f => rw [hf] at hr; cases hr

theorem tl_insertUnique_panic (hc : CfgOk cfg) (hnd : cfg.needsDrop = true) (env : Env)
    (hash : Nat) (e : Elem) (w : World) (h : TInv cfg w.t) {c : String} {w' : World}
    (hr : Table.insertUnique cfg env hash e w = .panic c w') :
    tl_LedgerP cfg env (.insertUnique hash e) c w w' := by
  have hp := tl_rawInsert_panic hc hnd env hash e w h
  unfold Table.insertUnique at hr
  cases hq : rawInsert cfg env hash e w with
  | ok pr => obtain ⟨i, w1⟩ := pr; rw [hq] at hr; cases hr
  | panic c1 w1 =>
    rw [hq] at hr hp
    simp only [Res.onPanic, Res.panic.injEq] at hr
    obtain ⟨rfl, rfl⟩ := hr
    obtain ⟨new, ds, he⟩ := hp
    exact tl_ledgerP_of_eff hnd he (dropElemQuiet_t w1 e) (dropElemQuiet_log w1 e)
  | abort => rw [hq] at hr; cases hr
  | fault f => rw [hq] at hr; cases hr

theorem tl_findEntryRemove_panic (hc : CfgOk cfg) (hnd : cfg.needsDrop = true) (env : Env)
    (hash q : Nat) (re : Option Elem) (w : World) (h : TInv cfg w.t) {c : String} {w' : World}
    (hr : Table.findEntryRemove cfg env hash q re w = .panic c w') :
    tl_LedgerP cfg env (.findEntryRemove hash q re) c w w' := by
  rcases find_total hc hc.probe env hash q w h.1 with ⟨r, w1, k1, k2, k3, _, k5⟩ | ⟨w1, k1, k2, k3⟩
  · have he1 : lp_Eff cfg w w1 [] [] := lp_Eff.of_same h k2 k3
    cases r with
    | some idx =>
      simp only [Table.findEntryRemove, k1, Res.onPanic] at hr
      cases hq : removeAt cfg w1.t idx with
      | error f => rw [hq] at hr; cases hr
      | ok pr =>
        obtain ⟨old, t1⟩ := pr
        rw [hq] at hr
        cases re with
        | none => cases hr
        | some ne =>
          simp only at hr
          cases hi : insertInSlot cfg t1 hash idx ne with
          | error f => rw [hi] at hr; cases hr
          | ok t2 => rw [hi] at hr; cases hr
    | none =>
      cases re with
      | none => simp only [Table.findEntryRemove, k1, Res.onPanic] at hr; cases hr
      | some ne =>
        simp only [Table.findEntryRemove, k1, Res.onPanic] at hr
        unfold Table.dropElemR at hr
        have hlog := tl_dropElem_log hnd env ne w1
        have ht := ts_dropElem_t (cfg := cfg) env ne w1
        cases hd : dropElem cfg env ne w1 with
        | mk p w2 =>
          rw [hd] at hr hlog ht
          cases p with
          | true =>
            simp only [if_true, Res.panic.injEq] at hr
            obtain ⟨rfl, rfl⟩ := hr
            exact tl_ledgerP_of_eff hnd he1 ht hlog
          | false => simp only [Bool.false_eq_true, if_false] at hr; cases hr
  · simp only [Table.findEntryRemove, k1, Res.onPanic, Res.panic.injEq] at hr
    obtain ⟨rfl, rfl⟩ := hr
    have he1 : lp_Eff cfg w w1 [] [] := lp_Eff.of_same h k2 k3
    cases re with
    | none =>
      exact tl_ledgerP_of_eff (op := .findEntryRemove hash q none) hnd he1 rfl
        (by show w1.log = dropEvs cfg [] ++ w1.log; rw [dropEvs_nil]; rfl)
    | some ne => exact tl_ledgerP_of_eff hnd he1 (dropElemQuiet_t w1 ne) (dropElemQuiet_log w1 ne)

theorem tl_entryInsert_panic (hc : CfgOk cfg) (hnd : cfg.needsDrop = true) (env : Env)
    (hash q : Nat) (ne : Elem) (w : World) (h : TInv cfg w.t) {c : String} {w' : World}
    (hr : Table.entryInsert cfg env hash q ne w = .panic c w') :
    tl_LedgerP cfg env (.entryInsert hash q ne) c w w' := by
  have hs := sl_fofis hc env hash q w h
  have hp := lp_fofis_panic hc hc.probe hnd env hash q w h
  unfold Table.entryInsert Table.entry at hr
  cases hq : findOrFindInsertSlot cfg env hash q w with
  | ok pr =>
    obtain ⟨r, w1⟩ := pr
    rw [hq] at hr hs
    obtain ⟨a1, eff, a3⟩ := hs
    cases r with
    | ok idx =>
      obtain ⟨x, a2⟩ := a3
      simp only [Res.onPanic, slotGet_ok a2] at hr
      have hset := sl_slotSet a1 a2 ne
      obtain ⟨dt, deff⟩ := sl_dropElem hnd env x
        { w1 with t := { w1.t with slots := w1.t.slots.setIfInBounds idx (some ne) } }
      cases hd : dropElem cfg env x
          { w1 with t := { w1.t with slots := w1.t.slots.setIfInBounds idx (some ne) } } with
      | mk p w2 =>
        rw [hd] at hr dt deff
        cases p with
        | false => simp only [Bool.false_eq_true, if_false] at hr; cases hr
        | true =>
          simp only [if_true, Res.panic.injEq] at hr
          obtain ⟨rfl, rfl⟩ := hr
          obtain ⟨new, l, k, v, ad⟩ := ((eff.trans hset).trans deff).to [ne.kid] [] [ne.vid] []
            (by lx_perm) (by lx_perm)
          have k' : List.Perm (kidsOf w2.t.elems ++ droppedK new ++ [])
              (kidsOf w.t.elems ++ kidsOf (Table.insH (.entryInsert hash q ne))) := k
          have v' : List.Perm (vidsOf w2.t.elems ++ droppedV new ++ [])
              (vidsOf w.t.elems ++ vidsOf (Table.insH (.entryInsert hash q ne))) := v
          refine ⟨new, [], [], [], l, k', v', fun L x => ?_,
            fun _ => rfl, fun _ => ⟨rfl, fun _ => ⟨rfl, rfl⟩⟩, fun _ => ⟨rfl, fun _ => ⟨rfl, rfl⟩⟩⟩
          rw [List.nil_append]
          obtain ⟨f, p⟩ := ad w.log L x.1 x.2
          unfold hs_AllocInvL
          rw [l]
          exact ⟨f, p⟩
    | error slot =>
      obtain ⟨b1, b2, b3, b4⟩ := a3
      obtain ⟨t', c1, _⟩ := sl_insertInSlot hc a1 b1 b2 b3 b4 hash ne
      simp only [Res.onPanic, c1] at hr
      cases hr
  | panic c1 w1 =>
    rw [hq] at hr hp
    simp only [Res.onPanic, Res.panic.injEq] at hr
    obtain ⟨rfl, rfl⟩ := hr
    obtain ⟨new, ds, he⟩ := hp
    exact tl_ledgerP_of_eff hnd he (dropElemQuiet_t w1 ne) (dropElemQuiet_log w1 ne)
  | abort => rw [hq] at hr; cases hr
  | fault f => rw [hq] at hr; cases hr

theorem tl_entryOrInsert_panic (hc : CfgOk cfg) (hnd : cfg.needsDrop = true) (env : Env)
    (hash q : Nat) (ne : Elem) (w : World) (h : TInv cfg w.t) {c : String} {w' : World}
    (hr : Table.entryOrInsert cfg env hash q ne w = .panic c w') :
    tl_LedgerP cfg env (.entryOrInsert hash q ne) c w w' := by
  have hs := sl_fofis hc env hash q w h
  have hok := lp_reserve_eff hc hc.probe hnd env 1 w h
  have hp := lp_fofis_panic hc hc.probe hnd env hash q w h
  have hex := hs_fofis_exact hc hc.probe env hash q w h
  have hsp := findOrFindInsertSlot_spec hc hc.probe env hash q w h
  unfold Table.entryOrInsert Table.entry at hr
  cases hq : findOrFindInsertSlot cfg env hash q w with
  | ok pr =>
    obtain ⟨r, w1⟩ := pr
    rw [hq] at hr hs hex hsp
    obtain ⟨a1, eff, a3⟩ := hs
    obtain ⟨new, hA⟩ := hex
    cases r with
    | ok idx =>
      have he1 : lp_Eff cfg w w1 new [] := lp_Eff.of_astep h a1 hA hsp.2.2.2.2.1
      simp only [Res.onPanic] at hr
      unfold Table.dropElemR at hr
      have hlog := tl_dropElem_log hnd env ne w1
      have ht := ts_dropElem_t (cfg := cfg) env ne w1
      cases hd : dropElem cfg env ne w1 with
      | mk p w2 =>
        rw [hd] at hr hlog ht
        cases p with
        | true =>
          simp only [if_true, Res.panic.injEq] at hr
          obtain ⟨rfl, rfl⟩ := hr
          exact tl_ledgerP_of_eff hnd he1 ht hlog
        | false => simp only [Bool.false_eq_true, if_false] at hr; cases hr
    | error slot =>
      obtain ⟨b1, b2, b3, b4⟩ := a3
      obtain ⟨t', c1, _⟩ := sl_insertInSlot hc a1 b1 b2 b3 b4 hash ne
      simp only [Res.onPanic, c1] at hr
      cases hr
  | panic c1 w1 =>
    rw [hq] at hr hp
    simp only [Res.onPanic, Res.panic.injEq] at hr
    obtain ⟨rfl, rfl⟩ := hr
    obtain ⟨new, ds, he⟩ := hp
    exact tl_ledgerP_of_eff hnd he (dropElemQuiet_t w1 ne) (dropElemQuiet_log w1 ne)
  | abort => rw [hq] at hr; cases hr
  | fault f => rw [hq] at hr; cases hr

theorem tl_entryAndModify_panic (hc : CfgOk cfg) (hnd : cfg.needsDrop = true) (env : Env)
    (hash q nv : Nat) (w : World) (h : TInv cfg w.t) {c : String} {w' : World}
    (hr : Table.entryAndModify cfg env hash q nv w = .panic c w') :
    ∃ new ds, lp_Eff cfg w w' new ds := by
  have hs := sl_fofis hc env hash q w h
  have hp := lp_fofis_panic hc hc.probe hnd env hash q w h
  unfold Table.entryAndModify Table.entry at hr
  cases hq : findOrFindInsertSlot cfg env hash q w with
  | ok pr =>
    obtain ⟨r, w1⟩ := pr
    rw [hq] at hr hs
    obtain ⟨a1, eff, a3⟩ := hs
    cases r with
    | ok idx =>
      obtain ⟨x, a2⟩ := a3
      simp only [bind, Res.bind, slotGet_ok a2, liftE, pure] at hr
      cases hr
    | error slot => simp only [bind, Res.bind, pure] at hr; cases hr
  | panic c1 w1 =>
    rw [hq] at hr hp
    simp only [bind, Res.bind, Res.panic.injEq] at hr
    obtain ⟨rfl, rfl⟩ := hr
    exact hp
  | abort => rw [hq] at hr; simp only [bind, Res.bind] at hr; cases hr
  | fault f => rw [hq] at hr; simp only [bind, Res.bind] at hr; cases hr

theorem tl_getManyMut_panic (hc : CfgOk cfg) (env : Env) (any : Bool) (reqs : List (Nat × Nat))
    (w : World) (h : TInv cfg w.t) {c : String} {w' : World}
    (hr : Table.getManyMut cfg env any reqs w = .panic c w') : lp_Eff cfg w w' [] [] := by
  unfold Table.getManyMut at hr
  rcases ts_getManyLoop_spec hc hc.probe env any w.t h.1 reqs w [] rfl with
    ⟨idxs, w1, a1, a2, a3, _, _⟩ | ⟨w1, a1, a2, a3, _⟩
  · simp only [List.reverse_nil, List.nil_append] at a1
    rw [a1] at hr
    by_cases hd : Table.hasDup cfg idxs = true
    · simp only [hd, if_true, Res.panic.injEq] at hr
      rw [← hr.2]
      exact lp_Eff.of_same h a2 a3
    · simp only [hd] at hr
      cases hb : Table.getManyMut.go cfg idxs 0 w1.t [] with
      | error f => rw [hb] at hr; cases hr
      | ok pr => obtain ⟨es, t'⟩ := pr; rw [hb] at hr; cases hr
  · rw [a1] at hr
    simp only [Res.panic.injEq] at hr
    rw [← hr.2]
    exact lp_Eff.of_same h a2 a3

/-- A call that moves nothing in and whose unwinding loses nothing. -/
theorem tl_ledgerP_of_eff0 (hnd : cfg.needsDrop = true) {env : Env} {op : TableOp} {c : String}
    {w w' : World} {new : List Ev} {ds : List Elem} (he : lp_Eff cfg w w' new ds)
    (hi : Table.insH op = []) : tl_LedgerP cfg env op c w w' :=
  tl_ledgerP_of_eff hnd he rfl (by rw [hi, dropEvs_nil]; rfl)

/-- Transport of `step_ledger_panic` for the calls that are the same `RawTable` call as in
    `HashMap`. -/
theorem tl_ledgerP_of_map (hc : CfgOk cfg) (hnd : cfg.needsDrop = true) (env : Env) {top : TableOp}
    (mop : MapOp) (hi : Table.insH top = []) (hmi : insertedK [mop] = [] ∧ insertedV [mop] = [])
    (hdr : (∀ n f, top ≠ .drain n f) → ∀ n f, mop ≠ .drain n f)
    (hex : (∀ n, top ≠ .extractIf n) → ∀ n, mop ≠ .extractIf n)
    (hop : ∀ n, mop ≠ .drain n true) (w : World) (h : TInv cfg w.t) {c : String} {w' : World}
    (hs : Map.step cfg env mop w = .panic c w') : tl_LedgerP cfg env top c w w' := by
  obtain ⟨new, lostK, lostV, leaked, a1, a2, a3, a4, a5, a6, a7, _⟩ :=
    step_ledger_panic hc hnd env mop w h hop hs
  rw [hmi.1] at a2
  rw [hmi.2] at a3
  refine ⟨new, lostK, lostV, leaked, a1, by rw [hi]; exact a2, by rw [hi]; exact a3, a4,
    fun hd => a5 (hdr hd), fun hdp => ⟨(a6 hdp).1, fun hx => (a6 hdp).2 (hex hx)⟩,
    fun hcd => ⟨(a7 hcd).1, fun hx => (a7 hcd).2 (hex hx)⟩⟩

theorem tl_LedgerP.ofEnvFor {env : Env} {op : TableOp} {c : String} {w w' : World}
    (h : tl_LedgerP cfg (Table.envFor cfg env) op c w w') : tl_LedgerP cfg env op c w w' := by
  obtain ⟨new, lk, lv, lkd, a1, a2, a3, a4, a5, a6, a7⟩ := h
  exact ⟨new, lk, lv, lkd, a1, a2, a3, a4, a5, fun hdp => a6 hdp, a7⟩

/-- **T-P1 — ledger of one `HashTable` call that UNWINDS (C04).** Element type with drop glue,
    every environment, any valid table, any call (except the forgotten drain) that unwinds with
    panic class `c`: `stored after ++ dropped (in new) ++ lost = stored before ++ moved in` — the
    elements the call moved in are dropped by the unwinding — with `lost = []` and nothing leaked
    unless the panic is a destructor's (`c = "drop"`; never if no destructor panics), or the call
    is an `extract_if` whose predicate panicked after elements had been yielded (they are with the
    caller); only a `drain` can leak its block. All frees stay matched (`hs_AllocInvL`). -/
theorem table_step_ledger_panic (hc : CfgOk cfg) (hnd : cfg.needsDrop = true) (env : Env)
    (op : TableOp) (w : World) (h : TInv cfg w.t) (hop : ∀ n, op ≠ .drain n true) {c : String}
    {w' : World} (hs : Table.stepH cfg env op w = .panic c w') :
    ∃ (new : List Ev) (lostK lostV : List Nat) (leaked : List (Nat × Nat)), w'.log = new ++ w.log ∧
      List.Perm (kidsOf w'.t.elems ++ droppedK new ++ lostK)
        (kidsOf w.t.elems ++ kidsOf (Table.insH op)) ∧
      List.Perm (vidsOf w'.t.elems ++ droppedV new ++ lostV)
        (vidsOf w.t.elems ++ vidsOf (Table.insH op)) ∧
      (∀ L, hs_AllocInvL cfg w L → hs_AllocInvL cfg w' (leaked ++ L)) ∧
      ((∀ n f, op ≠ .drain n f) → leaked = []) ∧
      ((∀ c e, env.dropPanics c e = false) →
        leaked = [] ∧ ((∀ n, op ≠ .extractIf n) → lostK = [] ∧ lostV = [])) ∧
      (c ≠ "drop" → leaked = [] ∧ ((∀ n, op ≠ .extractIf n) → lostK = [] ∧ lostV = [])) := by
  show tl_LedgerP cfg env op c w w'
  cases op with
  | find hash q =>
    simp only [Table.stepH] at hs
    cases hr : Table.findElem cfg (Table.envFor cfg env) hash q w with
    | ok pr => rw [hr] at hs; cases hs
    | panic c0 w0 =>
      rw [hr] at hs
      simp only [Res.panic.injEq] at hs
      obtain ⟨rfl, rfl⟩ := hs
      exact (tl_ledgerP_of_eff0 (env := Table.envFor cfg env) hnd (tl_findElem_panic hc _ hash q w h hr) rfl).ofEnvFor
    | abort => rw [hr] at hs; cases hs
    | fault f => rw [hr] at hs; cases hs
  | findMut hash q nv =>
    simp only [Table.stepH] at hs
    cases hr : Table.findMut cfg (Table.envFor cfg env) hash q nv w with
    | ok pr => rw [hr] at hs; cases hs
    | panic c0 w0 =>
      rw [hr] at hs
      simp only [Res.panic.injEq] at hs
      obtain ⟨rfl, rfl⟩ := hs
      exact (tl_ledgerP_of_eff0 (env := Table.envFor cfg env) hnd (tl_findMut_panic hc _ hash q nv w h hr) rfl).ofEnvFor
    | abort => rw [hr] at hs; cases hs
    | fault f => rw [hr] at hs; cases hs
  | insertUnique hash e =>
    simp only [Table.stepH] at hs
    cases hr : Table.insertUnique cfg (Table.envFor cfg env) hash e w with
    | ok pr => rw [hr] at hs; cases hs
    | panic c0 w0 =>
      rw [hr] at hs
      simp only [Res.panic.injEq] at hs
      obtain ⟨rfl, rfl⟩ := hs
      exact (tl_insertUnique_panic hc hnd _ hash e w h hr).ofEnvFor
    | abort => rw [hr] at hs; cases hs
    | fault f => rw [hr] at hs; cases hs
  | findEntryRemove hash q re =>
    simp only [Table.stepH] at hs
    cases hr : Table.findEntryRemove cfg (Table.envFor cfg env) hash q re w with
    | ok pr => rw [hr] at hs; cases hs
    | panic c0 w0 =>
      rw [hr] at hs
      simp only [Res.panic.injEq] at hs
      obtain ⟨rfl, rfl⟩ := hs
      exact (tl_findEntryRemove_panic hc hnd _ hash q re w h hr).ofEnvFor
    | abort => rw [hr] at hs; cases hs
    | fault f => rw [hr] at hs; cases hs
  | entryInsert hash q ne =>
    simp only [Table.stepH] at hs
    cases hr : Table.entryInsert cfg (Table.envFor cfg env) hash q ne w with
    | ok pr => rw [hr] at hs; cases hs
    | panic c0 w0 =>
      rw [hr] at hs
      simp only [Res.panic.injEq] at hs
      obtain ⟨rfl, rfl⟩ := hs
      exact (tl_entryInsert_panic hc hnd _ hash q ne w h hr).ofEnvFor
    | abort => rw [hr] at hs; cases hs
    | fault f => rw [hr] at hs; cases hs
  | entryOrInsert hash q ne =>
    simp only [Table.stepH] at hs
    cases hr : Table.entryOrInsert cfg (Table.envFor cfg env) hash q ne w with
    | ok pr => rw [hr] at hs; cases hs
    | panic c0 w0 =>
      rw [hr] at hs
      simp only [Res.panic.injEq] at hs
      obtain ⟨rfl, rfl⟩ := hs
      exact (tl_entryOrInsert_panic hc hnd _ hash q ne w h hr).ofEnvFor
    | abort => rw [hr] at hs; cases hs
    | fault f => rw [hr] at hs; cases hs
  | entryAndModify hash q nv =>
    simp only [Table.stepH] at hs
    cases hr : Table.entryAndModify cfg (Table.envFor cfg env) hash q nv w with
    | ok pr => rw [hr] at hs; cases hs
    | panic c0 w0 =>
      rw [hr] at hs
      simp only [Res.panic.injEq] at hs
      obtain ⟨rfl, rfl⟩ := hs
      obtain ⟨new, ds, he⟩ := tl_entryAndModify_panic hc hnd _ hash q nv w h hr
      exact (tl_ledgerP_of_eff0 (env := Table.envFor cfg env) hnd he rfl).ofEnvFor
    | abort => rw [hr] at hs; cases hs
    | fault f => rw [hr] at hs; cases hs
  | retain =>
    simp only [Table.stepH] at hs
    cases hr : Map.retain cfg (Table.envFor cfg env) w with
    | ok pr => rw [hr] at hs; cases hs
    | panic c0 w0 =>
      rw [hr] at hs
      simp only [Res.panic.injEq] at hs
      obtain ⟨rfl, rfl⟩ := hs
      exact (tl_ledgerP_of_map hc hnd (Table.envFor cfg env) .retain rfl ⟨rfl, rfl⟩
        (fun _ n f hn => by cases hn) (fun _ n hn => by cases hn)
        (fun n hn => by cases hn) w h (by simp only [Map.step, hr])).ofEnvFor
    | abort => rw [hr] at hs; cases hs
    | fault f => rw [hr] at hs; cases hs
  | extractIf k =>
    simp only [Table.stepH] at hs
    cases hr : Map.extractIf cfg (Table.envFor cfg env) k w with
    | ok pr => rw [hr] at hs; cases hs
    | panic c0 w0 =>
      rw [hr] at hs
      simp only [Res.panic.injEq] at hs
      obtain ⟨rfl, rfl⟩ := hs
      exact (tl_ledgerP_of_map hc hnd (Table.envFor cfg env) (.extractIf k) rfl ⟨rfl, rfl⟩
        (fun _ n f hn => by cases hn) (fun hx n _ => absurd rfl (hx k))
        (fun n hn => by cases hn) w h (by simp only [Map.step, hr])).ofEnvFor
    | abort => rw [hr] at hs; cases hs
    | fault f => rw [hr] at hs; cases hs
  | drain k fg =>
    cases fg with
    | true => exact absurd rfl (hop k)
    | false =>
      simp only [Table.stepH] at hs
      cases hr : Map.drain cfg (Table.envFor cfg env) k false w with
      | ok pr => rw [hr] at hs; cases hs
      | panic c0 w0 =>
        rw [hr] at hs
        simp only [Res.panic.injEq] at hs
        obtain ⟨rfl, rfl⟩ := hs
        exact (tl_ledgerP_of_map hc hnd (Table.envFor cfg env) (.drain k false) rfl ⟨rfl, rfl⟩
          (fun hd n f _ => absurd rfl (hd k false)) (fun _ n hn => by cases hn)
          (fun n hn => by cases hn) w h (by simp only [Map.step, hr])).ofEnvFor
      | abort => rw [hr] at hs; cases hs
      | fault f => rw [hr] at hs; cases hs
  | clear =>
    simp only [Table.stepH] at hs
    cases hr : Hb.clear cfg (Table.envFor cfg env) w with
    | ok pr => rw [hr] at hs; cases hs
    | panic c0 w0 =>
      rw [hr] at hs
      simp only [Res.panic.injEq] at hs
      obtain ⟨rfl, rfl⟩ := hs
      exact (tl_ledgerP_of_map hc hnd (Table.envFor cfg env) .clear rfl ⟨rfl, rfl⟩
        (fun _ n f hn => by cases hn) (fun _ n hn => by cases hn)
        (fun n hn => by cases hn) w h (by simp only [Map.step, hr])).ofEnvFor
    | abort => rw [hr] at hs; cases hs
    | fault f => rw [hr] at hs; cases hs
  | reserve n =>
    simp only [Table.stepH] at hs
    cases hr : Hb.reserve cfg (Table.envFor cfg env) n w with
    | ok pr => rw [hr] at hs; cases hs
    | panic c0 w0 =>
      rw [hr] at hs
      simp only [Res.panic.injEq] at hs
      obtain ⟨rfl, rfl⟩ := hs
      exact (tl_ledgerP_of_map hc hnd (Table.envFor cfg env) (.reserve n) rfl ⟨rfl, rfl⟩
        (fun _ n f hn => by cases hn) (fun _ n hn => by cases hn)
        (fun n hn => by cases hn) w h (by simp only [Map.step, Map.reserve_eq, hr])).ofEnvFor
    | abort => rw [hr] at hs; cases hs
    | fault f => rw [hr] at hs; cases hs
  | shrinkTo m =>
    simp only [Table.stepH] at hs
    cases hr : Hb.shrinkTo cfg (Table.envFor cfg env) m w with
    | ok pr => rw [hr] at hs; cases hs
    | panic c0 w0 =>
      rw [hr] at hs
      simp only [Res.panic.injEq] at hs
      obtain ⟨rfl, rfl⟩ := hs
      exact (tl_ledgerP_of_map hc hnd (Table.envFor cfg env) (.shrinkTo m) rfl ⟨rfl, rfl⟩
        (fun _ n f hn => by cases hn) (fun _ n hn => by cases hn)
        (fun n hn => by cases hn) w h (by simp only [Map.step, hr])).ofEnvFor
    | abort => rw [hr] at hs; cases hs
    | fault f => rw [hr] at hs; cases hs
  | getManyMut any reqs =>
    simp only [Table.stepH] at hs
    cases hr : Table.getManyMut cfg (Table.envFor cfg env) any reqs w with
    | ok pr => rw [hr] at hs; cases hs
    | panic c0 w0 =>
      rw [hr] at hs
      simp only [Res.panic.injEq] at hs
      obtain ⟨rfl, rfl⟩ := hs
      exact (tl_ledgerP_of_eff0 (env := Table.envFor cfg env) hnd (tl_getManyMut_panic hc _ any reqs w h hr) rfl).ofEnvFor
    | abort => rw [hr] at hs; cases hs
    | fault f => rw [hr] at hs; cases hs
  | iterHash hash =>
    simp only [Table.stepH] at hs
    cases hr : Table.iterHash cfg w.t hash with
    | ok l => rw [hr] at hs; cases hs
    | error f => rw [hr] at hs; cases hs
  | iter p =>
    simp only [Table.stepH] at hs
    cases hr : Map.iterObserve cfg w.t p with
    | ok pr => obtain ⟨pre, x1, x2, x3⟩ := pr; rw [hr] at hs; cases hs
    | error f => rw [hr] at hs; cases hs
  | len => simp only [Table.stepH] at hs; cases hs

/-- An observed panic after which objects may be missing from the ledger: a destructor's panic, or
    an `extract_if` that unwound (what it had yielded is with the caller). -/
def Table.lossy (p : TableOp × Table.TObs) : Bool :=
  match p.2 with
  | .ret _ => false
  | .panic c => c == "drop" || (match p.1 with | .extractIf _ => true | _ => false)

/-- Key-object ledger of a `HashTable` history with any number of observed panics. -/
theorem tl_runH_ledger_panics (hc : CfgOk cfg) (hnd : cfg.needsDrop = true) (env : Env) :
    ∀ (ops : List TableOp) (w wf : World) (obs : List Table.TObs), TInv cfg w.t →
      Table.NoForget ops → Table.runH cfg env ops w = some (obs, wf) →
      ∃ new lostK, wf.log = new ++ w.log ∧
        List.Perm (kidsOf wf.t.elems ++ droppedK new ++
            kidsOf (Table.returnedH (ops.zip obs)) ++ lostK)
          (kidsOf w.t.elems ++ kidsOf (Table.insHs ops)) ∧
        TInv cfg wf.t ∧ ((∀ p ∈ ops.zip obs, Table.lossy p = false) → lostK = []) := by
  intro ops
  induction ops with
  | nil =>
    intro w wf obs h _ hrun
    simp only [Table.runH, Option.some.injEq, Prod.mk.injEq] at hrun
    obtain ⟨h1, h2⟩ := hrun
    subst h1 h2
    exact ⟨[], [], rfl, by simp [Table.returnedH, Table.insHs, droppedK, kidsOf], h, fun _ => rfl⟩
  | cons op rest ih =>
    intro w wf obs h hnf hrun
    have hop : ∀ n, op ≠ .drain n true := hnf op List.mem_cons_self
    have hnf' : Table.NoForget rest := fun o ho => hnf o (List.mem_cons_of_mem _ ho)
    have hsafe := table_stepH_safe hc (Or.inl hnd) env op w h
    cases hr : Table.stepH cfg env op w with
    | ok pr =>
      obtain ⟨r, w1⟩ := pr
      simp only [Table.runH, hr] at hrun
      obtain ⟨⟨os, wf'⟩, h1, h2⟩ := Option.map_eq_some_iff.1 hrun
      simp only [Prod.mk.injEq] at h2
      obtain ⟨h2a, h2b⟩ := h2
      subst h2a h2b
      obtain ⟨new1, l1, k1, _, _⟩ := table_stepH_ledger hc hnd env op w h hop hr
      rw [hr] at hsafe
      obtain ⟨new2, lost2, l2, k2, t2, z2⟩ := ih w1 wf' os hsafe.1 hnf' h1
      refine ⟨new2 ++ new1, lost2, by rw [l2, l1, List.append_assoc], ?_, t2, fun hl => ?_⟩
      · simp only [List.zip_cons_cons, Table.returnedH, Table.insHs, sl_kidsOf_append]
        sl_count [k1, k2]
      · exact z2 (fun p hp => hl p (by
          simp only [List.zip_cons_cons]; exact List.mem_cons_of_mem _ hp))
    | panic c w1 =>
      simp only [Table.runH, hr] at hrun
      obtain ⟨⟨os, wf'⟩, h1, h2⟩ := Option.map_eq_some_iff.1 hrun
      simp only [Prod.mk.injEq] at h2
      obtain ⟨h2a, h2b⟩ := h2
      subst h2a h2b
      obtain ⟨new1, lost1, _, _, l1, k1, _, _, _, _, a7⟩ :=
        table_step_ledger_panic hc hnd env op w h hop hr
      rw [hr] at hsafe
      obtain ⟨new2, lost2, l2, k2, t2, z2⟩ := ih w1 wf' os hsafe.1 hnf' h1
      refine ⟨new2 ++ new1, lost1 ++ lost2, by rw [l2, l1, List.append_assoc], ?_, t2,
        fun hl => ?_⟩
      · simp only [List.zip_cons_cons, Table.returnedH, Table.insHs, sl_kidsOf_append]
        sl_count [k1, k2]
      · have hz2 := z2 (fun p hp => hl p (by
          simp only [List.zip_cons_cons]; exact List.mem_cons_of_mem _ hp))
        have hl0 := hl (op, .panic c) (by simp only [List.zip_cons_cons]; exact List.mem_cons_self)
        simp only [Table.lossy, Bool.or_eq_false_iff, beq_eq_false_iff_ne, ne_eq] at hl0
        have hne : ∀ n, op ≠ .extractIf n := by
          intro n hn
          rw [hn] at hl0
          exact absurd hl0.2 (by simp)
        rw [((a7 hl0.1).2 hne).1, hz2]
        rfl
    | abort => simp [Table.runH, hr] at hrun
    | fault f => simp [Table.runH, hr] at hrun

/-- **T-P2 — no double drop in `HashTable` histories WITH panics (C04).** Every history on
    `HashTable::new()` (drop glue, no forgotten drain, EVERY environment; calls may return or unwind,
    panics are caught and the history goes on): `stored ++ dropped ++ handed back ++ lost = moved in`
    for some `lost`, which is empty unless a destructor panicked or an `extract_if` unwound; hence
    with pairwise distinct identities moved in, no object is dropped twice, handed back twice,
    dropped and handed back, or released while still stored. -/
theorem table_no_double_drop_panics (hc : CfgOk cfg) (hnd : cfg.needsDrop = true) (env : Env)
    (ops : List TableOp) (w0 : World) (h0 : w0.t = Raw.new cfg.W) (hl0 : w0.log = [])
    (hnf : Table.NoForget ops) {obs : List Table.TObs} {wf : World}
    (hrun : Table.runH cfg env ops w0 = some (obs, wf)) :
    (∃ lostK, List.Perm (kidsOf wf.t.elems ++ droppedK wf.log ++
          kidsOf (Table.returnedH (ops.zip obs)) ++ lostK) (kidsOf (Table.insHs ops)) ∧
        ((∀ p ∈ ops.zip obs, Table.lossy p = false) → lostK = [])) ∧
    ((kidsOf (Table.insHs ops)).Nodup →
      (kidsOf wf.t.elems ++ droppedK wf.log ++ kidsOf (Table.returnedH (ops.zip obs))).Nodup) := by
  obtain ⟨new, lostK, l, k, _, z⟩ := tl_runH_ledger_panics hc hnd env ops w0 wf obs
    (by rw [h0]; exact TInv.new hc) hnf hrun
  rw [hl0, List.append_nil] at l
  have hel : w0.t.elems = [] := by rw [h0]; rfl
  rw [hel, sl_kidsOf_nil, List.nil_append, ← l] at k
  refine ⟨⟨lostK, k, z⟩, fun hn => ?_⟩
  have := (k.nodup_iff).2 hn
  exact (List.nodup_append.1 this).1

#print axioms table_stepH_ledger
#print axioms table_runH_ledger_from
#print axioms table_runH_ledger
#print axioms table_runH_allocInv
#print axioms table_dropAll_ledger
#print axioms table_runH_no_double_drop
#print axioms table_step_ledger_panic
#print axioms table_no_double_drop_panics
#print axioms set_call_ledger
#print axioms set_step2_ledger
#print axioms set_run2_ledger_from
#print axioms set_run2_ledger
#print axioms set_run2_allocInv
#print axioms set_dropAll2_ledger
#print axioms set_run2_no_double_drop

end Hb
