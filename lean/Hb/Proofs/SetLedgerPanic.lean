/-
C04 — key-object and allocator LEDGER of `HashSet` calls that UNWIND, on a PAIR of sets
(`Hb/Model/SetOps.lean`: `SetOp`, `SetCall`, `Set.call`, `Set.step2`, `Set.run2`), completing §2 / §3 of
`Hb/Proofs/SetTableLedger.lean` (`set_step2_ledger` covers calls that RETURN, `table_step_ledger_panic`
covers `HashTable` calls that unwind).  EVERY environment (arbitrary, call-number dependent `Hash` /
`Eq` / `Clone` / predicate / `Drop` behaviour, an allocator that may refuse), element type with drop
glue (`cfg.needsDrop = true`, so that every destructor call is in the log), `CfgOk cfg`.

§0 `sp_Eff cfg w w' iK lostK`: the part of a call between `w` and `w'` wrote the log entries `new`;
     `stored(w') ++ dropped(new) ++ lostK = stored(w) ++ iK` as multisets of key-object identities;
     the allocator frame `∀ X, hs_AllocInvL cfg w X → hs_AllocInvL cfg w' X` (all frees matched, live
     blocks = the table's own block plus ANY set `X` of other live blocks — nothing leaked).
     `sk_Eff.sp`, `lp_Eff.sp` (from the ledgers of returned parts / of `LedgerPanic.lean`),
     `sp_Eff.trans`, `.to`, `.left`, `.right`; `sp_P` (predicate on the `.panic` outcome).
§1 calls that ARE a `HashMap` call (`insert`, `remove`, `take`, `get`, `retain`, `clear`, `reserve`,
     `shrink_to`): transport of `step_ledger_panic` (`sp_of_map`).
§2 calls that only read (`contains`, the four lazy set-algebra iterators, `is_subset`, `is_superset`,
     `is_disjoint`, `==`): table and log untouched when `Hash` / `Eq` unwinds (`sp_RO`).
§3 `replace`, `get_or_insert`, `get_or_insert_with`, `entry().insert()`, `entry().or_insert()`,
     `entry()` + `remove`.
§4 `|=`, `&=`, `^=`, `-=` (loops; a clone created just before the unwind is in `Set.bitorClones` /
     `Set.bitxorClones`, hence in `Set.insK`).
§5 `set_call_ledger_panic`, `set_step2_ledger_panic`, `sp_run2_ledger_panics`,
     `set_no_double_drop_panics`.

Deviation from the request: the allocator clause is stated in the `hs_AllocInvL` frame form of
`table_step_ledger_panic` (on the log the call actually started from, for every set `X` of other live
blocks) rather than as `sl_AD` (which quantifies over every earlier log): the unwinding lemmas of
`LedgerPanic.lean` this file transports are in that form.  No set call leaks a block (`leaked = []`
always: there is no `drain` among the `SetOp`s); key objects are lost (`lostK ≠ []`) only by `clear`
when a destructor panics (the elements after the panicking one are leaked by `clear`'s guard).
-/
import Hb.Proofs.SetTableLedger
namespace Hb

variable {cfg : Cfg}

/-! ## 0. the ledger of a part of a call that ends in an unwind -/

/-- `w ⟶ w'` wrote the log entries `new`; every key object stored before or entering (`iK`) is
    afterwards stored, dropped (in `new`) or lost (`lostK`); the allocator frame is kept for every
    set `X` of other live blocks. -/
def sp_Eff (cfg : Cfg) (w w' : World) (iK lostK : List Nat) : Prop :=
  ∃ new, w'.log = new ++ w.log ∧
    List.Perm (kidsOf w'.t.elems ++ droppedK new ++ lostK) (kidsOf w.t.elems ++ iK) ∧
    (∀ X, hs_AllocInvL cfg w X → hs_AllocInvL cfg w' X)

theorem sk_Eff.sp {w w' : World} {iK oK : List Nat} (h : sk_Eff cfg w w' iK oK) :
    sp_Eff cfg w w' iK oK := by
  obtain ⟨_, _, new, l, k, _, ad⟩ := h
  refine ⟨new, l, k, fun X hx => ?_⟩
  obtain ⟨f, p⟩ := ad w.log X hx.1 hx.2
  unfold hs_AllocInvL
  rw [l]
  exact ⟨f, p⟩

theorem lp_Eff.sp {w w' : World} {new : List Ev} {ds : List Elem} (h : lp_Eff cfg w w' new ds) :
    sp_Eff cfg w w' [] [] :=
  ⟨new, h.log, by simpa using h.permK, h.frame⟩

theorem sp_Eff.trans {a b c : World} {i1 l1 i2 l2 : List Nat} (h1 : sp_Eff cfg a b i1 l1)
    (h2 : sp_Eff cfg b c i2 l2) : sp_Eff cfg a c (i1 ++ i2) (l1 ++ l2) := by
  obtain ⟨n1, e1, k1, f1⟩ := h1
  obtain ⟨n2, e2, k2, f2⟩ := h2
  refine ⟨n2 ++ n1, by rw [e2, e1, List.append_assoc], ?_, fun X hx => f2 X (f1 X hx)⟩
  sl_count [k1, k2]

/-- The in / lost lists may be replaced by others with the same balance. -/
theorem sp_Eff.to {w w' : World} {iK lK : List Nat} (h : sp_Eff cfg w w' iK lK) (iK' lK' : List Nat)
    (hK : List.Perm (lK' ++ iK) (lK ++ iK')) : sp_Eff cfg w w' iK' lK' := by
  obtain ⟨n, e, k, f⟩ := h
  refine ⟨n, e, ?_, f⟩
  sl_count [k, hK]

theorem sp_Eff.right {w w1 w2 : World} {iK lK : List Nat} (h : sp_Eff cfg w w1 iK lK)
    (ht : w2.t = w1.t) (hl : w2.log = w1.log) : sp_Eff cfg w w2 iK lK := by
  obtain ⟨n, e, k, f⟩ := h
  exact ⟨n, by rw [hl, e], by rw [ht]; exact k, fun X hx => (f X hx).congr ht hl⟩

theorem sp_Eff.left {w0 w w1 : World} {iK lK : List Nat} (h : sp_Eff cfg w w1 iK lK)
    (ht : w0.t = w.t) (hl : w0.log = w.log) : sp_Eff cfg w0 w1 iK lK := by
  obtain ⟨n, e, k, f⟩ := h
  exact ⟨n, by rw [hl, e], by rw [ht]; exact k, fun X hx => f X (hx.congr ht.symm hl.symm)⟩

theorem sp_same {w w' : World} (ht : w'.t = w.t) (hl : w'.log = w.log) : sp_Eff cfg w w' [] [] :=
  (sk_same ht hl).sp

/-- The unwinding drops an element the call still owned. -/
theorem sp_dropElemQuiet (hnd : cfg.needsDrop = true) (w : World) (e : Elem) :
    sp_Eff cfg w (w.dropElemQuiet cfg e) [e.kid] [] := by
  have h : sl_Eff cfg w (w.dropElemQuiet cfg e) (droppedK (dropEvs cfg [e])) []
      (droppedV (dropEvs cfg [e])) [] :=
    sl_drops (dropElemQuiet_t w e) (dropElemQuiet_log w e) (hs_dropOnly_dropEvs [e])
  rw [(hs_dropped_dropEvs hnd [e]).1] at h
  exact h.sk.sp

/-- … after a part that lost nothing. -/
theorem sp_then_dropQuiet (hnd : cfg.needsDrop = true) {w w1 : World} {iK : List Nat} (e : Elem)
    (h : sp_Eff cfg w w1 iK []) : sp_Eff cfg w (w1.dropElemQuiet cfg e) (iK ++ [e.kid]) [] :=
  h.trans (sp_dropElemQuiet hnd w1 e)

/-- Predicate on the `.panic` outcome of a computation. -/
def sp_P {α : Type} (r : Res α) (Q : String → World → Prop) : Prop :=
  match r with
  | .panic c w' => Q c w'
  | _ => True

theorem sp_P.mono {α : Type} {r : Res α} {Q Q' : String → World → Prop} (h : sp_P r Q)
    (hq : ∀ c w', Q c w' → Q' c w') : sp_P r Q' := by
  cases r with
  | panic c w' => exact hq c w' h
  | ok a => trivial
  | abort => trivial
  | fault f => trivial

theorem sp_P.elim {α : Type} {r : Res α} {Q : String → World → Prop} (h : sp_P r Q) {c : String}
    {w' : World} (hr : r = .panic c w') : Q c w' := by
  rw [hr] at h; exact h

theorem sp_wrap_panic {α : Type} {g : α → Ret} {x : Res (α × World)} {c : String} {w' : World}
    (h : Set.wrap g x = .panic c w') : x = .panic c w' := by
  cases x with
  | ok pr => obtain ⟨a, w1⟩ := pr; cases h
  | panic c1 w1 => simpa [Set.wrap] using h
  | abort => cases h
  | fault f => cases h

theorem sp_wrapU_panic {x : Res World} {c : String} {w' : World}
    (h : Set.wrapU x = .panic c w') : x = .panic c w' := by
  cases x with
  | ok w1 => cases h
  | panic c1 w1 => simpa [Set.wrapU] using h
  | abort => cases h
  | fault f => cases h

/-! ## 1. calls that are a `HashMap` call -/

/-- Transport of `step_ledger_panic` (`LedgerPanic.lean`) for a `MapOp` other than `drain` /
    `extract_if`: nothing is leaked; key objects are lost only by `clear`, only when a destructor
    panics. -/
theorem sp_of_map (hc : CfgOk cfg) (hnd : cfg.needsDrop = true) (env : Env) (mop : MapOp)
    (hop : ∀ n f, mop ≠ .drain n f) (hex : ∀ n, mop ≠ .extractIf n) (w : World) (h : TInv cfg w.t)
    {c : String} {w' : World} (hs : Map.step cfg env mop w = .panic c w') :
    ∃ lostK, sp_Eff cfg w w' (insertedK [mop]) lostK ∧ (c ≠ "drop" → lostK = []) ∧
      ((∀ c e, env.dropPanics c e = false) → lostK = []) ∧ (mop ≠ .clear → lostK = []) := by
  obtain ⟨new, lostK, lostV, leaked, a1, a2, _, a4, a5, a6, a7, a8, _⟩ :=
    step_ledger_panic hc hnd env mop w h (fun n => hop n true) hs
  have hl : leaked = [] := a5 hop
  refine ⟨lostK, ⟨new, a1, a2, fun X hx => ?_⟩, fun hc' => ((a7 hc').2 hex).1,
    fun hd => ((a6 hd).2 hex).1, fun hne => ?_⟩
  · have := a4 X hx
    rwa [hl, List.nil_append] at this
  · cases mop with
    | clear => exact absurd rfl hne
    | extractIf n => exact absurd rfl (hex n)
    | drain n f => exact absurd rfl (hop n f)
    | insert e => exact a8.1
    | remove k => exact a8.1
    | get k => exact a8.1
    | getMut k nv => exact a8.1
    | removeEntry k => exact a8.1
    | reserve n => exact a8.1
    | tryReserve n => exact a8.1
    | shrinkTo m => exact a8.1
    | retain => exact a8.1
    | iter p => exact a8.1

/-- A set call `f` that is the `HashMap` call `mop` up to the returned value. -/
theorem sp_of_map' (hc : CfgOk cfg) (hnd : cfg.needsDrop = true) (env : Env) (mop : MapOp)
    (hop : ∀ n f, mop ≠ .drain n f) (hex : ∀ n, mop ≠ .extractIf n) (hcl : mop ≠ .clear)
    (w : World) (h : TInv cfg w.t) {c : String} {w' : World}
    (hs : Map.step cfg env mop w = .panic c w') : sp_Eff cfg w w' (insertedK [mop]) [] := by
  obtain ⟨lostK, e, _, _, z⟩ := sp_of_map hc hnd env mop hop hex w h hs
  rw [z hcl] at e
  exact e

theorem sp_mapInsert (hc : CfgOk cfg) (hnd : cfg.needsDrop = true) (env : Env) (e : Elem)
    (w : World) (h : TInv cfg w.t) :
    sp_P (Map.insert cfg env e w) (fun _ w' => sp_Eff cfg w w' [e.kid] []) := by
  cases hr : Map.insert cfg env e w with
  | panic c w' =>
    exact sp_of_map' hc hnd env (.insert e) (fun _ _ hn => by cases hn) (fun _ hn => by cases hn)
      (fun hn => by cases hn) w h (c := c) (by simp only [Map.step, hr])
  | ok a => trivial
  | abort => trivial
  | fault f => trivial

theorem sp_mapRemove (hc : CfgOk cfg) (hnd : cfg.needsDrop = true) (env : Env) (k : Nat)
    (w : World) (h : TInv cfg w.t) :
    sp_P (Map.remove cfg env k w) (fun _ w' => sp_Eff cfg w w' [] []) := by
  cases hr : Map.remove cfg env k w with
  | panic c w' =>
    exact sp_of_map' hc hnd env (.remove k) (fun _ _ hn => by cases hn) (fun _ hn => by cases hn)
      (fun hn => by cases hn) w h (c := c) (by simp only [Map.step, hr])
  | ok a => trivial
  | abort => trivial
  | fault f => trivial

/-! ## 2. calls that only read -/

/-- A computation that only reads: on return AND when it unwinds, table and log are what they
    were. -/
def sp_RO {α : Type} (w : World) (r : Res (α × World)) : Prop :=
  match r with
  | .ok a => a.2.t = w.t ∧ a.2.log = w.log
  | .panic _ w' => w'.t = w.t ∧ w'.log = w.log
  | _ => True

theorem sp_RO.of_eq {α : Type} {w w1 : World} {r : Res (α × World)} (h : sp_RO w1 r)
    (ht : w1.t = w.t) (hl : w1.log = w.log) : sp_RO w r := by
  cases r with
  | ok a => exact ⟨h.1.trans ht, h.2.trans hl⟩
  | panic c w' => exact ⟨h.1.trans ht, h.2.trans hl⟩
  | abort => trivial
  | fault f => trivial

theorem sp_RO.eff {α : Type} {w : World} {r : Res (α × World)} (h : sp_RO w r) :
    sp_P r (fun _ w' => sp_Eff cfg w w' [] []) := by
  cases r with
  | panic c w' => exact sp_same h.1 h.2
  | ok a => trivial
  | abort => trivial
  | fault f => trivial

theorem sp_getInner (hc : CfgOk cfg) (env : Env) (k : Nat) (w : World) (h : Inv cfg w.t) :
    sp_RO w (Map.getInner cfg env k w) := by
  rcases ag_getInner hc hc.probe env k w h with ⟨r, w', k1, k2, k3, _⟩ | ⟨c, w', k1, k2, k3, _⟩
  · unfold sp_RO; rw [k1]; exact ⟨k2, k3⟩
  · unfold sp_RO; rw [k1]; exact ⟨k2, k3⟩

theorem sp_containsIn (hc : CfgOk cfg) (env : Env) {t : Raw} (ht : Inv cfg t) (k : Nat)
    (w : World) : sp_RO w (Set.containsIn cfg env t k w) := by
  unfold Set.containsIn sp_RO
  rcases ag_getInner hc hc.probe env k { w with t := t } ht with
    ⟨r, w', k1, _, k3, _⟩ | ⟨c, w', k1, _, k3, _⟩
  · rw [k1]; exact ⟨rfl, k3⟩
  · rw [k1]; exact ⟨rfl, k3⟩

theorem sp_yieldAll (hc : CfgOk cfg) (env : Env) : ∀ (ss : List Set.Step) (w : World)
    (acc : List Elem), st_StepsOk cfg ss → sp_RO w (Set.yieldAll cfg env ss w acc) := by
  intro ss
  induction ss with
  | nil => intro w acc _; exact ⟨rfl, rfl⟩
  | cons s rest ih =>
    intro w acc hok
    have hrest : st_StepsOk cfg rest := fun s' hs' => hok s' (List.mem_cons_of_mem _ hs')
    rw [ss_yieldAll_cons]
    cases hp : s.probe with
    | none => exact ih w _ hrest
    | some tw =>
      obtain ⟨t, want⟩ := tw
      have ht := hok s List.mem_cons_self t want hp
      simp only
      have hcn := sp_containsIn hc env ht s.e.k w
      cases hq : Set.containsIn cfg env t s.e.k w with
      | ok pr =>
        obtain ⟨b, w'⟩ := pr
        rw [hq] at hcn
        simp only
        exact (ih w' (if (b == want) = true then s.e :: acc else acc) hrest).of_eq hcn.1 hcn.2
      | panic c w' => rw [hq] at hcn; exact hcn
      | abort => trivial
      | fault f => trivial

theorem sp_yieldsAny (hc : CfgOk cfg) (env : Env) : ∀ (ss : List Set.Step) (w : World),
    st_StepsOk cfg ss → sp_RO w (Set.yieldsAny cfg env ss w) := by
  intro ss
  induction ss with
  | nil => intro w _; exact ⟨rfl, rfl⟩
  | cons s rest ih =>
    intro w hok
    have hrest : st_StepsOk cfg rest := fun s' hs' => hok s' (List.mem_cons_of_mem _ hs')
    rw [ss_yieldsAny_cons]
    cases hp : s.probe with
    | none => exact ⟨rfl, rfl⟩
    | some tw =>
      obtain ⟨t, want⟩ := tw
      have ht := hok s List.mem_cons_self t want hp
      simp only
      have hcn := sp_containsIn hc env ht s.e.k w
      cases hq : Set.containsIn cfg env t s.e.k w with
      | ok pr =>
        obtain ⟨b, w'⟩ := pr
        rw [hq] at hcn
        simp only
        split
        · exact hcn
        · exact (ih w' hrest).of_eq hcn.1 hcn.2
      | panic c w' => rw [hq] at hcn; exact hcn
      | abort => trivial
      | fault f => trivial

theorem sp_allIn (hc : CfgOk cfg) (env : Env) {t : Raw} (ht : Inv cfg t) :
    ∀ (xs : List Elem) (w : World), sp_RO w (Set.allIn cfg env t xs w) := by
  intro xs
  induction xs with
  | nil => intro w; exact ⟨rfl, rfl⟩
  | cons e rest ih =>
    intro w
    rw [ss_allIn_cons]
    have hcn := sp_containsIn hc env ht e.k w
    cases hq : Set.containsIn cfg env t e.k w with
    | ok pr =>
      obtain ⟨b, w'⟩ := pr
      rw [hq] at hcn
      cases b with
      | true => simp only; exact (ih w').of_eq hcn.1 hcn.2
      | false => exact hcn
    | panic c w' => rw [hq] at hcn; exact hcn
    | abort => trivial
    | fault f => trivial

theorem sp_lazyOp (hc : CfgOk cfg) (env : Env) {steps : Except String (List Set.Step)}
    (hs : ∃ ss, steps = .ok ss ∧ st_StepsOk cfg ss) (w : World) :
    sp_RO w (Set.lazyOp cfg env steps w) := by
  obtain ⟨ss, rfl, hok⟩ := hs
  exact sp_yieldAll hc env ss w [] hok

theorem sp_isSubsetOf (hc : CfgOk cfg) (env : Env) {a b : Raw} (ha : Inv cfg a) (hb : Inv cfg b)
    (w : World) : sp_RO w (Set.isSubsetOf cfg env a b w) := by
  unfold Set.isSubsetOf
  split
  · rw [elemsOf_spec hc ha]; exact sp_allIn hc env hb _ w
  · exact ⟨rfl, rfl⟩

theorem sp_isDisjoint (hc : CfgOk cfg) (env : Env) {b : Raw} (hb : Inv cfg b) (w : World)
    (ha : Inv cfg w.t) : sp_RO w (Set.isDisjoint cfg env b w) := by
  obtain ⟨ss, h1, hok⟩ := st_intersectionSteps hc ha hb
  unfold Set.isDisjoint
  rw [h1]
  have := sp_yieldsAny hc env ss w hok
  simp only [bind, Res.bind]
  cases hq : Set.yieldsAny cfg env ss w with
  | ok pr => obtain ⟨b', w'⟩ := pr; rw [hq] at this; exact this
  | panic c w' => rw [hq] at this; exact this
  | abort => trivial
  | fault f => trivial

theorem sp_setEq (hc : CfgOk cfg) (env : Env) {b : Raw} (hb : Inv cfg b) (w : World)
    (ha : Inv cfg w.t) : sp_RO w (Set.setEq cfg env b w) := by
  unfold Set.setEq
  split
  · exact ⟨rfl, rfl⟩
  · rw [elemsOf_spec hc ha]; exact sp_allIn hc env hb _ w

/-! ## 3. `replace`, `get_or_insert`, `get_or_insert_with`, the `entry` forms -/

theorem sp_P.onPanic_drop (hnd : cfg.needsDrop = true) {α : Type} {r : Res α} {w : World}
    {iK : List Nat} (e : Elem) (h : sp_P r (fun _ w' => sp_Eff cfg w w' iK [])) :
    sp_P (r.onPanic (·.dropElemQuiet cfg e)) (fun _ w' => sp_Eff cfg w w' (iK ++ [e.kid]) []) := by
  cases r with
  | panic c w1 => exact sp_then_dropQuiet hnd e h
  | ok a => trivial
  | abort => trivial
  | fault f => trivial

theorem sp_dropKeyR (hnd : cfg.needsDrop = true) (env : Env) (kid : Nat) (w : World) :
    sp_P (dropKeyR cfg env kid w) (fun _ w' => w'.t = w.t ∧ sp_Eff cfg w w' [kid] []) := by
  rcases ag_dropKeyR (cfg := cfg) env kid w with ⟨w', d1, d2, d3⟩ | ⟨w', d1, d2, d3⟩
  · rw [d1]; trivial
  · rw [d1]
    rw [if_pos hnd] at d3
    exact ⟨d2, (sl_drops d2 d3 (fun ev hev => ⟨kid, Or.inl (List.mem_singleton.1 hev)⟩)).sk.sp⟩

/-- `make_hash` + `find_or_find_insert_slot` unwinding (`Hash`, `"capacity"`, a hasher panic inside
    `reserve(1)`, `Eq`): the by-value argument the caller passed (if any) is dropped by the
    unwinding; nothing else happens to the stored objects. -/
theorem sp_search (hc : CfgOk cfg) (hnd : cfg.needsDrop = true) (env : Env) (k : Nat)
    (owned : Option Elem) (w : World) (h : TInv cfg w.t) :
    sp_P (Set.search cfg env k owned w) (fun _ w' =>
      sp_Eff cfg w w' (match owned with | some e => [e.kid] | none => []) []) := by
  have hcore : sp_P (do
        let (hv, w1) ← makeHash env k w
        let (r, w2) ← findOrFindInsertSlot cfg env hv k w1
        pure (hv, r, w2) : Res (Nat × Except Nat Nat × World))
      (fun _ w' => sp_Eff cfg w w' [] []) := by
    cases hh : env.hash w.hc k with
    | none =>
      simp only [ag_makeHash_none hh, bind, Res.bind]
      exact sp_same rfl rfl
    | some hv =>
      simp only [ag_makeHash_some hh, bind, Res.bind]
      have hf := lp_fofis_panic hc hc.probe hnd env hv k { w with hc := w.hc + 1 } h
      cases hr : findOrFindInsertSlot cfg env hv k { w with hc := w.hc + 1 } with
      | ok pr => trivial
      | panic c w' =>
        rw [hr] at hf
        obtain ⟨new, ds, he⟩ := hf
        exact he.sp.left (w0 := w) rfl rfl
      | abort => trivial
      | fault f => trivial
  unfold Set.search
  cases owned with
  | some e => exact sp_P.onPanic_drop hnd e hcore
  | none => exact hcore

theorem sp_setReplace (hc : CfgOk cfg) (hnd : cfg.needsDrop = true) (env : Env) (e : Elem)
    (w : World) (h : TInv cfg w.t) :
    sp_P (Set.replace cfg env e w) (fun _ w' => sp_Eff cfg w w' [e.kid] []) := by
  have hs := sk_search hc env e.k (some e) w h
  have hp := sp_search hc hnd env e.k (some e) w h
  unfold Set.replace
  cases hr : Set.search cfg env e.k (some e) w with
  | ok pr =>
    obtain ⟨hv, r, w2⟩ := pr
    rw [hr] at hs
    obtain ⟨a1, eff, a3⟩ := hs
    cases r with
    | ok idx =>
      obtain ⟨x, a2⟩ := a3
      simp only [bind, Res.bind, slotGet_ok a2, liftE, pure]
      trivial
    | error slot =>
      obtain ⟨b1, b2, b3, b4⟩ := a3
      obtain ⟨t', c1, c2, eff2⟩ := sl_insertInSlot hc a1 b1 b2 b3 b4 hv e
      simp only [bind, Res.bind, c1, liftE, pure]
      trivial
  | panic c w' => rw [hr] at hp; exact hp
  | abort => trivial
  | fault f => trivial

theorem sp_setGetOrInsert (hc : CfgOk cfg) (hnd : cfg.needsDrop = true) (env : Env) (e : Elem)
    (w : World) (h : TInv cfg w.t) :
    sp_P (Set.getOrInsert cfg env e w) (fun _ w' => sp_Eff cfg w w' [e.kid] []) := by
  have hs := sk_search hc env e.k (some e) w h
  have hp := sp_search hc hnd env e.k (some e) w h
  unfold Set.getOrInsert
  cases hr : Set.search cfg env e.k (some e) w with
  | ok pr =>
    obtain ⟨hv, r, w2⟩ := pr
    rw [hr] at hs
    obtain ⟨a1, eff, a3⟩ := hs
    cases r with
    | ok idx =>
      obtain ⟨x, a2⟩ := a3
      simp only [bind, Res.bind, slotGet_ok a2, liftE]
      have hd := sp_dropKeyR (cfg := cfg) hnd env e.kid w2
      cases hq : dropKeyR cfg env e.kid w2 with
      | ok w3 => trivial
      | panic c w3 =>
        rw [hq] at hd
        exact (eff.sk.sp.trans hd.2).to _ _ (by lx_perm)
      | abort => trivial
      | fault f => trivial
    | error slot =>
      obtain ⟨b1, b2, b3, b4⟩ := a3
      obtain ⟨t', c1, c2, eff2⟩ := sl_insertInSlot hc a1 b1 b2 b3 b4 hv e
      simp only [bind, Res.bind, c1, liftE, pure]
      trivial
  | panic c w' => rw [hr] at hp; exact hp
  | abort => trivial
  | fault f => trivial

theorem sp_setGetOrInsertWith (hc : CfgOk cfg) (hnd : cfg.needsDrop = true) (env : Env)
    (k k2 kid2 : Nat) (w : World) (h : TInv cfg w.t) :
    sp_P (Set.getOrInsertWith cfg env k k2 kid2 w)
      (fun _ w' => sp_Eff cfg w w' (Set.gowCreated cfg env k kid2 w) []) := by
  have hs := sk_search hc env k none w h
  have hp := sp_search hc hnd env k none w h
  unfold Set.getOrInsertWith Set.gowCreated
  cases hr : Set.search cfg env k none w with
  | ok pr =>
    obtain ⟨hv, r, w2⟩ := pr
    rw [hr] at hs
    obtain ⟨a1, eff, a3⟩ := hs
    cases r with
    | ok idx =>
      obtain ⟨x, a2⟩ := a3
      simp only [bind, Res.bind, slotGet_ok a2, liftE, pure]
      trivial
    | error slot =>
      obtain ⟨b1, b2, b3, b4⟩ := a3
      simp only [bind, Res.bind]
      have hdrop : sp_Eff cfg w (World.dropElemQuiet cfg { w2 with ec := w2.ec + 1 }
          (Set.elemOf k2 kid2)) [kid2] [] :=
        ((eff.sk.sp.right (w2 := { w2 with ec := w2.ec + 1 }) rfl rfl).trans
          (sp_dropElemQuiet hnd _ (Set.elemOf k2 kid2))).to _ _ (by simp only [Set.elemOf]; lx_perm)
      cases heq : env.eq w2.ec k (Set.elemOf k2 kid2) with
      | none => exact hdrop
      | some b =>
        cases b with
        | false => exact hdrop
        | true =>
          obtain ⟨t', c1, c2, eff2⟩ := sl_insertInSlot hc (w := { w2 with ec := w2.ec + 1 }) a1 b1 b2
            b3 b4 hv (Set.elemOf k2 kid2)
          simp only [c1, liftE, pure]
          trivial
  | panic c w' => rw [hr] at hp; exact hp
  | abort => trivial
  | fault f => trivial

/-- `HashMap::entry`'s look-up unwinding: the owned key is dropped. -/
theorem sp_entryFind (hc : CfgOk cfg) (hnd : cfg.needsDrop = true) (env : Env) (e : Elem)
    (w : World) (h : Inv cfg w.t) :
    sp_P (Set.entryFind cfg env e w) (fun _ w' => sp_Eff cfg w w' [e.kid] []) := by
  unfold Set.entryFind
  cases hh : env.hash w.hc e.k with
  | none =>
    simp only [ag_makeHash_none hh, bind, Res.bind, Res.onPanic]
    exact (sp_dropElemQuiet hnd _ e).left (w0 := w) rfl rfl
  | some hv =>
    simp only [ag_makeHash_some hh, bind, Res.bind]
    rcases find_total hc hc.probe env hv e.k { w with hc := w.hc + 1 } h with
      ⟨r, w', k1, _⟩ | ⟨w', k1, k2, k3⟩
    · rw [k1]; trivial
    · rw [k1]
      exact (sp_then_dropQuiet hnd e (sp_same k2 k3)).left (w0 := w) rfl rfl

theorem sp_setEntryInsert (hc : CfgOk cfg) (hnd : cfg.needsDrop = true) (env : Env) (e : Elem)
    (w : World) (h : TInv cfg w.t) :
    sp_P (Set.entryInsert cfg env e w) (fun _ w' => sp_Eff cfg w w' [e.kid] []) := by
  have hs := sk_entryFind hc env e w h.1
  have hp := sp_entryFind hc hnd env e w h.1
  unfold Set.entryInsert
  cases hr : Set.entryFind cfg env e w with
  | ok pr =>
    obtain ⟨hv, r, w2⟩ := pr
    rw [hr] at hs
    obtain ⟨k2, k3, k4⟩ := hs
    have h2 : TInv cfg w2.t := by rw [k2]; exact h
    simp only [bind, Res.bind]
    cases r with
    | some idx =>
      obtain ⟨x, hx⟩ := k4 idx rfl
      simp only
      have hd := sl_dropKeyR hnd env e.kid w2
      have hdp := sp_dropKeyR (cfg := cfg) hnd env e.kid w2
      cases hq : dropKeyR cfg env e.kid w2 with
      | ok w3 =>
        rw [hq] at hd
        have hx3 : w3.t.slots[idx]?.join = some x := by rw [hd.1, k2]; exact hx
        simp only [slotGet_ok hx3, liftE, pure]
        trivial
      | panic c w3 => rw [hq] at hdp; exact hdp.2.left k2.symm k3.symm
      | abort => trivial
      | fault f => trivial
    | none =>
      simp only
      have hi := tl_rawInsert_panic hc hnd env hv e w2 h2
      unfold Set.vacantInsert
      cases hq : rawInsert cfg env hv e w2 with
      | ok pr => obtain ⟨i, w3⟩ := pr; trivial
      | panic c w3 =>
        rw [hq] at hi
        obtain ⟨new, ds, he⟩ := hi
        exact (sp_then_dropQuiet hnd e he.sp).left k2.symm k3.symm
      | abort => trivial
      | fault f => trivial
  | panic c w' => rw [hr] at hp; exact hp
  | abort => trivial
  | fault f => trivial

theorem sp_setEntryOrInsert (hc : CfgOk cfg) (hnd : cfg.needsDrop = true) (env : Env) (e : Elem)
    (w : World) (h : TInv cfg w.t) :
    sp_P (Set.entryOrInsert cfg env e w) (fun _ w' => sp_Eff cfg w w' [e.kid] []) := by
  have := sp_setEntryInsert hc hnd env e w h
  unfold Set.entryOrInsert
  cases hq : Set.entryInsert cfg env e w with
  | ok pr => obtain ⟨x, w'⟩ := pr; trivial
  | panic c w' => rw [hq] at this; exact this
  | abort => trivial
  | fault f => trivial

theorem sp_setEntryRemove (hc : CfgOk cfg) (hnd : cfg.needsDrop = true) (env : Env) (e : Elem)
    (w : World) (h : TInv cfg w.t) :
    sp_P (Set.entryRemove cfg env e w) (fun _ w' => sp_Eff cfg w w' [e.kid] []) := by
  have hs := sk_entryFind hc env e w h.1
  have hp := sp_entryFind hc hnd env e w h.1
  unfold Set.entryRemove
  cases hr : Set.entryFind cfg env e w with
  | ok pr =>
    obtain ⟨hv, r, w2⟩ := pr
    rw [hr] at hs
    obtain ⟨k2, k3, k4⟩ := hs
    simp only [bind, Res.bind]
    have hd := sl_dropKeyR hnd env e.kid w2
    have hdp := sp_dropKeyR (cfg := cfg) hnd env e.kid w2
    cases hq : dropKeyR cfg env e.kid w2 with
    | ok w3 =>
      rw [hq] at hd
      have h3 : TInv cfg w3.t := by rw [hd.1, k2]; exact h
      simp only
      cases r with
      | some idx =>
        obtain ⟨x, hx⟩ := k4 idx rfl
        have hx3 : w3.t.slots[idx]?.join = some x := by rw [hd.1, k2]; exact hx
        obtain ⟨t', r1, _, _, hrem⟩ := sl_removeAt hc h3 hx3
        simp only [r1, liftE, pure]
        trivial
      | none => trivial
    | panic c w3 => rw [hq] at hdp; exact hdp.2.left k2.symm k3.symm
    | abort => trivial
    | fault f => trivial
  | panic c w' => rw [hr] at hp; exact hp
  | abort => trivial
  | fault f => trivial

/-! ## 4. assigning operator forms -/

/-- `target |= &other` unwinding (`Hash` / `Eq` in the look-up, `Clone`, or anything inside
    `HashMap::insert`): the clones created so far are stored, except that the last one — if
    `insert` unwound — was dropped by the unwinding; it is in `Set.bitorClones` all the same. -/
theorem sp_bitorAssignLoop (hc : CfgOk cfg) (hnd : cfg.needsDrop = true) (env : Env) :
    ∀ (xs : List Elem) (w : World), TInv cfg w.t →
      sp_P (Set.bitorAssignLoop cfg env xs w)
        (fun _ w' => sp_Eff cfg w w' (Set.bitorClones cfg env xs w) []) := by
  intro xs
  induction xs with
  | nil => intro w _; trivial
  | cons e rest ih =>
    intro w h
    rw [ss_bitorAssignLoop_cons]
    simp only [Set.bitorClones]
    have hg := sp_getInner hc env e.k w h.1
    cases hq : Map.getInner cfg env e.k w with
    | ok pr =>
      obtain ⟨r, w1⟩ := pr
      rw [hq] at hg
      have hg1 : w1.t = w.t := hg.1
      have hg2 : w1.log = w.log := hg.2
      have h1 : TInv cfg w1.t := by rw [hg1]; exact h
      cases r with
      | some i =>
        simp only
        exact sp_P.mono (ih w1 h1) (fun _ _ ha => ha.left hg1.symm hg2.symm)
      | none =>
        simp only
        cases hcl : (Set.envOf env).clone w1.cc e with
        | none => exact sp_same hg1 hg2
        | some kv =>
          obtain ⟨kid, x⟩ := kv
          simp only
          have hi := sk_mapInsert hc hnd env { e with kid := kid } { w1 with cc := w1.cc + 1 } h1
          have hip := sp_mapInsert hc hnd env { e with kid := kid } { w1 with cc := w1.cc + 1 } h1
          cases hr : Map.insert cfg env { e with kid := kid } { w1 with cc := w1.cc + 1 } with
          | ok pr =>
            obtain ⟨o, w3⟩ := pr
            rw [hr] at hi
            simp only
            refine sp_P.mono (ih w3 hi.1) (fun _ _ ha => ?_)
            exact ((hi.2.sp.left (w0 := w) hg1.symm hg2.symm).trans ha).to _ _ (by lx_perm)
          | panic c w' =>
            rw [hr] at hip
            exact hip.left (w0 := w) hg1.symm hg2.symm
          | abort => trivial
          | fault f => trivial
    | panic c w' => rw [hq] at hg; exact sp_same hg.1 hg.2
    | abort => trivial
    | fault f => trivial

theorem sp_removeAllLoop (hc : CfgOk cfg) (hnd : cfg.needsDrop = true) (env : Env) :
    ∀ (xs : List Elem) (w : World), TInv cfg w.t →
      sp_P (Set.removeAllLoop cfg env xs w) (fun _ w' => sp_Eff cfg w w' [] []) := by
  intro xs
  induction xs with
  | nil => intro w _; trivial
  | cons e rest ih =>
    intro w h
    rw [ss_removeAllLoop_cons]
    have hi := sk_mapRemove hc hnd env e.k w h
    have hip := sp_mapRemove hc hnd env e.k w h
    cases hr : Map.remove cfg env e.k w with
    | ok pr =>
      obtain ⟨o, w3⟩ := pr
      rw [hr] at hi
      simp only
      exact sp_P.mono (ih w3 hi.1) (fun _ _ ha => (hi.2.sp.trans ha).to _ _ (by lx_perm))
    | panic c w' => rw [hr] at hip; exact hip
    | abort => trivial
    | fault f => trivial

/-- `target ^= &other` unwinding (the look-up with its `reserve(1)`, the destructor of a removed
    element, `Clone`). -/
theorem sp_bitxorAssignLoop (hc : CfgOk cfg) (hnd : cfg.needsDrop = true) (env : Env) :
    ∀ (xs : List Elem) (w : World), TInv cfg w.t →
      sp_P (Set.bitxorAssignLoop cfg env xs w)
        (fun _ w' => sp_Eff cfg w w' (Set.bitxorClones cfg env xs w) []) := by
  intro xs
  induction xs with
  | nil => intro w _; trivial
  | cons e rest ih =>
    intro w h
    rw [ss_bitxorAssignLoop_cons]
    simp only [Set.bitxorClones]
    have hs := sk_search hc env e.k none w h
    have hp := sp_search hc hnd env e.k none w h
    cases hr : Set.search cfg env e.k none w with
    | ok pr =>
      obtain ⟨hv, r, w2⟩ := pr
      rw [hr] at hs
      obtain ⟨a1, eff, a3⟩ := hs
      cases r with
      | ok idx =>
        obtain ⟨x, a2⟩ := a3
        obtain ⟨t', r1, r2, _, hrem⟩ := sl_removeAt hc a1 a2
        simp only [r1]
        obtain ⟨dt, deff⟩ := sl_dropElem hnd env x { w2 with t := t' }
        cases hd : dropElem cfg env x { w2 with t := t' } with
        | mk dp w3 =>
          rw [hd] at dt deff
          simp only at dt
          have h3 : TInv cfg w3.t := by rw [dt]; exact r2
          cases dp with
          | true =>
            simp only [if_true]
            exact (((eff.trans hrem).trans deff).sk.sp).to _ _ (by lx_perm)
          | false =>
            simp only [Bool.false_eq_true, if_false]
            refine sp_P.mono (ih w3 h3) (fun _ _ ha => ?_)
            exact ((((eff.trans hrem).trans deff).sk.sp).trans ha).to _ _ (by lx_perm)
      | error slot =>
        obtain ⟨b1, b2, b3, b4⟩ := a3
        simp only
        cases hcl : (Set.envOf env).clone w2.cc e with
        | none => exact eff.sk.sp.right (w2 := { w2 with cc := w2.cc + 1 }) rfl rfl
        | some kv =>
          obtain ⟨kid, y⟩ := kv
          obtain ⟨t', c1, c2, eff2⟩ := sl_insertInSlot hc (w := { w2 with cc := w2.cc + 1 }) a1 b1 b2
            b3 b4 hv { e with kid := kid }
          simp only [c1]
          refine sp_P.mono (ih _ c2) (fun _ _ ha => ?_)
          exact ((((eff.right (w2 := { w2 with cc := w2.cc + 1 }) rfl rfl).trans eff2).sk.sp).trans
            ha).to _ _ (by lx_perm)
    | panic c w' => rw [hr] at hp; exact hp
    | abort => trivial
    | fault f => trivial

theorem sp_RO.sk {α : Type} {w : World} {r : Res (α × World)} (h : sp_RO w r) : sk_RO w r := by
  cases r with
  | ok a => exact h
  | panic c w' => trivial
  | abort => trivial
  | fault f => trivial

/-- `retain` with a predicate that only reads, unwinding: the predicate (`Hash` / `Eq` of its
    look-up) or the destructor of a removed element (which is in the log: dropped, not lost). -/
theorem sp_retainByLoop (hc : CfgOk cfg) (hnd : cfg.needsDrop = true) (env : Env)
    (p : Elem → World → Res (Bool × World)) (hp : ∀ e w, sp_RO w (p e w)) :
    ∀ (fuel : Nat) (it : RawIter) (w : World), TInv cfg w.t → IterOk cfg w.t it →
      (it.rem w.t).length < fuel →
      sp_P (Set.retainByLoop cfg env p fuel it w) (fun _ w' => sp_Eff cfg w w' [] []) := by
  intro fuel
  induction fuel with
  | zero => intro it w _ _ hlen; omega
  | succ fuel ih =>
    intro it w h hok hlen
    obtain ⟨it', hnext, hok', hrem'⟩ := rawIter_next_spec hc h.1 it hok
    rw [ss_retainByLoop_succ, hnext]
    cases hrem : it.rem w.t with
    | nil => trivial
    | cons idx rest =>
      rw [hrem] at hrem' hlen
      simp only [List.head?_cons, List.tail_cons] at hrem' ⊢
      have hidx := hok.rem_full idx (by rw [hrem]; exact List.mem_cons_self)
      have hsz : idx < w.t.slots.size := by
        have ha := h.1.alloc_of_full hc hidx.1 hidx.2
        rw [(h.1.allocated ha).2.2.2.1]; exact hidx.1
      obtain ⟨e, he⟩ := Option.isSome_iff_exists.mp ((h.1.live idx hsz).2 hidx.2)
      simp only [slotGet_ok he]
      have hpe := hp e w
      cases hp1 : p e w with
      | ok pr =>
        obtain ⟨b, w1⟩ := pr
        rw [hp1] at hpe
        have ht1 : w1.t = w.t := hpe.1
        have hl1 : w1.log = w.log := hpe.2
        cases b with
        | true =>
          simp only
          have hlen' : (it'.rem w1.t).length < fuel := by
            rw [ht1, hrem']; simp only [List.length_cons] at hlen; omega
          exact sp_P.mono (ih it' w1 (by rw [ht1]; exact h) (by rw [ht1]; exact hok') hlen')
            (fun _ _ ha => ha.left ht1.symm hl1.symm)
        | false =>
          simp only
          obtain ⟨x, t', r1, r2, r3, r4, _, _, _, r8, r9, _⟩ := removeAt_inv hc h.1 hidx.1 hidx.2
          have hT' : TInv cfg t' := h.of_inv r3 r4
          have hdead : isFull (t'.ctrlAt idx) = false := by
            rcases r9 with r9 | r9 <;> rw [r9] <;> decide
          have he1 : w1.t.slots[idx]?.join = some x := by rw [ht1]; exact r2
          obtain ⟨t'', q1, _, _, hrem1⟩ := sl_removeAt hc (w := w1) (by rw [ht1]; exact h) he1
          rw [ht1, r1] at q1
          simp only [Except.ok.injEq, Prod.mk.injEq, true_and] at q1
          subst q1
          rw [ht1]
          simp only [r1]
          obtain ⟨dt, deff⟩ := sl_dropElem hnd env x { w1 with t := t' }
          cases hd : dropElem cfg env x { w1 with t := t' } with
          | mk dp w2 =>
            rw [hd] at dt deff
            simp only at dt
            cases dp with
            | true =>
              simp only [if_true]
              exact (((hrem1.trans deff).left ht1.symm hl1.symm).sk.sp).to _ _ (by lx_perm)
            | false =>
              simp only [Bool.false_eq_true, if_false]
              obtain ⟨hokn, hremn⟩ := ss_iterOk_after_remove hok hok'
                (by rw [hrem, hrem']) r4 r8 hdead
              have hlen' : (it'.rem w2.t).length < fuel := by
                rw [dt, hremn, hrem']; simp only [List.length_cons] at hlen; omega
              refine sp_P.mono
                (ih it' w2 (by rw [dt]; exact hT') (by rw [dt]; exact hokn) hlen') (fun _ _ ha => ?_)
              exact ((((hrem1.trans deff).left ht1.symm hl1.symm).sk.sp).trans ha).to _ _ (by lx_perm)
      | panic c w1 => rw [hp1] at hpe; exact sp_same hpe.1 hpe.2
      | abort => trivial
      | fault f => trivial

theorem sp_retainBy (hc : CfgOk cfg) (hnd : cfg.needsDrop = true) (env : Env)
    (p : Elem → World → Res (Bool × World)) (hp : ∀ e w, sp_RO w (p e w)) (w : World)
    (h : TInv cfg w.t) :
    sp_P (Set.retainBy cfg env p w) (fun _ w' => sp_Eff cfg w w' [] []) := by
  obtain ⟨it, hnew, hok, hrem⟩ := rawIter_new_spec hc h.1
  have hlen : (it.rem w.t).length < w.t.buckets + 2 := by
    rw [hrem]; have := fullList_length_le w.t; omega
  unfold Set.retainBy
  rw [hnew]
  exact sp_retainByLoop hc hnd env p hp _ it w h hok hlen

theorem sp_bitandAssign (hc : CfgOk cfg) (hnd : cfg.needsDrop = true) (env : Env) {other : Raw}
    (ho : Inv cfg other) (w : World) (h : TInv cfg w.t) :
    sp_P (Set.bitandAssign cfg env other w) (fun _ w' => sp_Eff cfg w w' [] []) :=
  sp_retainBy hc hnd env _ (fun e w => sp_containsIn hc env ho e.k w) w h

theorem sp_subAssign (hc : CfgOk cfg) (hnd : cfg.needsDrop = true) (env : Env) {other : Raw}
    (ho : Inv cfg other) (w : World) (h : TInv cfg w.t) :
    sp_P (Set.subAssign cfg env other w) (fun _ w' => sp_Eff cfg w w' [] []) := by
  unfold Set.subAssign
  split
  · rw [elemsOf_spec hc ho]; exact sp_removeAllLoop hc hnd env _ w h
  · refine sp_retainBy hc hnd env _ (fun e w => ?_) w h
    have := sp_containsIn hc env ho e.k w
    simp only [bind, Res.bind]
    cases hq : Set.containsIn cfg env other e.k w with
    | ok pr => obtain ⟨b, w'⟩ := pr; rw [hq] at this; exact this
    | panic c w' => rw [hq] at this; exact this
    | abort => trivial
    | fault f => trivial

/-! ## 5. one unwinding call, pairs, histories -/

theorem sp_P.bind {α β : Type} {r : Res α} {f : α → Res β} {Q : String → World → Prop}
    (hr : sp_P r Q) (hf : ∀ a, sp_P (f a) Q) : sp_P (r.bind f) Q := by
  cases r with
  | ok a => exact hf a
  | panic c w => exact hr
  | abort => trivial
  | fault f => trivial

theorem sp_setInsert (hc : CfgOk cfg) (hnd : cfg.needsDrop = true) (env : Env) (k kid : Nat)
    (w : World) (h : TInv cfg w.t) :
    sp_P (Set.insert cfg env k kid w) (fun _ w' => sp_Eff cfg w w' [kid] []) :=
  (sp_mapInsert hc hnd env (Set.elemOf k kid) w h).bind (fun a => by obtain ⟨r, w'⟩ := a; trivial)

theorem sp_setRemove (hc : CfgOk cfg) (hnd : cfg.needsDrop = true) (env : Env) (k : Nat)
    (w : World) (h : TInv cfg w.t) :
    sp_P (Set.remove cfg env k w) (fun _ w' => sp_Eff cfg w w' [] []) :=
  (sp_mapRemove hc hnd env k w h).bind (fun a => by obtain ⟨r, w'⟩ := a; trivial)

theorem sp_setContains (hc : CfgOk cfg) (env : Env) (k : Nat) (w : World) (h : TInv cfg w.t) :
    sp_P (Set.contains cfg env k w) (fun _ w' => sp_Eff cfg w w' [] []) :=
  (sp_getInner hc env k w h.1).eff.bind (fun a => by obtain ⟨r, w'⟩ := a; trivial)

/-- Packaging: a call whose unwinding loses nothing. -/
theorem sp_done {w w' : World} {iK : List Nat} {c : String} {D P : Prop}
    (e : sp_Eff cfg w w' iK []) :
    ∃ lostK, sp_Eff cfg w w' iK lostK ∧ (c ≠ "drop" → lostK = []) ∧ (D → lostK = []) ∧
      (P → lostK = []) :=
  ⟨[], e, fun _ => rfl, fun _ => rfl, fun _ => rfl⟩

/-- **S-P0 — ledger of one call `target.op(&other)` that UNWINDS** (`w.t` = the target set, `other`
    the right operand, any two valid tables, every environment, panic class `c`): as multisets of
    key-object identities
      `stored(target) after ++ dropped (in new) ++ lost = stored(target) before ++ Set.insK`
    (`Set.insK`: the object the caller moved in — dropped by the unwinding unless it was already
    stored —, the object `get_or_insert_with`'s closure made, the clones `|=` / `^=` created up to
    and including the one created just before the unwind). `lost = []` unless the call is `clear`
    AND the panic is a destructor's (`c = "drop"`, impossible if no destructor panics): `clear`'s
    guard then leaks the elements after the panicking one. The allocator frame is kept (`sp_Eff`):
    no block is leaked by any set call. -/
theorem set_call_ledger_panic (hc : CfgOk cfg) (hnd : cfg.needsDrop = true) (env : Env) (op : SetOp)
    (other : Raw) (w : World) (h : TInv cfg w.t) (ho : TInv cfg other) {c : String} {w' : World}
    (hs : Set.call cfg env op other w = .panic c w') :
    ∃ lostK, sp_Eff cfg w w' (Set.insK cfg env op other w) lostK ∧ (c ≠ "drop" → lostK = []) ∧
      ((∀ c e, env.dropPanics c e = false) → lostK = []) ∧ (op ≠ .clear → lostK = []) := by
  cases op with
  | insert k kid => exact sp_done ((sp_setInsert hc hnd env k kid w h).elim (sp_wrap_panic hs))
  | remove k => exact sp_done ((sp_setRemove hc hnd env k w h).elim (sp_wrap_panic hs))
  | take k =>
    have hx : Map.removeEntry cfg env k w = .panic c w' := sp_wrap_panic hs
    exact sp_done (sp_of_map' hc hnd env (.removeEntry k) (fun _ _ hn => by cases hn)
      (fun _ hn => by cases hn) (fun hn => by cases hn) w h (c := c) (by simp only [Map.step, hx]))
  | replace e => exact sp_done ((sp_setReplace hc hnd env e w h).elim (sp_wrap_panic hs))
  | getOrInsert e => exact sp_done ((sp_setGetOrInsert hc hnd env e w h).elim (sp_wrap_panic hs))
  | getOrInsertWith k k2 kid2 =>
    exact sp_done ((sp_setGetOrInsertWith hc hnd env k k2 kid2 w h).elim (sp_wrap_panic hs))
  | contains k => exact sp_done ((sp_setContains hc env k w h).elim (sp_wrap_panic hs))
  | get k =>
    have hx : Map.get cfg env k w = .panic c w' := sp_wrap_panic hs
    exact sp_done (sp_of_map' hc hnd env (.get k) (fun _ _ hn => by cases hn)
      (fun _ hn => by cases hn) (fun hn => by cases hn) w h (c := c) (by simp only [Map.step, hx]))
  | entryInsert e => exact sp_done ((sp_setEntryInsert hc hnd env e w h).elim (sp_wrap_panic hs))
  | entryOrInsert e => exact sp_done ((sp_setEntryOrInsert hc hnd env e w h).elim (sp_wrapU_panic hs))
  | entryRemove e => exact sp_done ((sp_setEntryRemove hc hnd env e w h).elim (sp_wrap_panic hs))
  | retain =>
    have hx : Map.retain cfg (Set.envOf env) w = .panic c w' := sp_wrapU_panic hs
    exact sp_done (sp_of_map' hc hnd (Set.envOf env) .retain (fun _ _ hn => by cases hn)
      (fun _ hn => by cases hn) (fun hn => by cases hn) w h (c := c) (by simp only [Map.step, hx]))
  | clear =>
    have hx : Hb.clear cfg env w = .panic c w' := sp_wrapU_panic hs
    obtain ⟨lostK, e, z1, z2, _⟩ := sp_of_map hc hnd env .clear (fun _ _ hn => by cases hn)
      (fun _ hn => by cases hn) w h (c := c) (w' := w') (by simp only [Map.step, hx])
    exact ⟨lostK, e, z1, z2, fun hne => absurd rfl hne⟩
  | reserve n =>
    have hx : Map.reserve cfg env n w = .panic c w' := sp_wrapU_panic hs
    exact sp_done (sp_of_map' hc hnd env (.reserve n) (fun _ _ hn => by cases hn)
      (fun _ hn => by cases hn) (fun hn => by cases hn) w h (c := c) (by simp only [Map.step, hx]))
  | shrinkTo m =>
    have hx : Hb.shrinkTo cfg env m w = .panic c w' := sp_wrapU_panic hs
    exact sp_done (sp_of_map' hc hnd env (.shrinkTo m) (fun _ _ hn => by cases hn)
      (fun _ hn => by cases hn) (fun hn => by cases hn) w h (c := c) (by simp only [Map.step, hx]))
  | union =>
    exact sp_done (((sp_lazyOp hc env (st_unionSteps hc h.1 ho.1) w).eff).elim (sp_wrap_panic hs))
  | intersection =>
    exact sp_done
      (((sp_lazyOp hc env (st_intersectionSteps hc h.1 ho.1) w).eff).elim (sp_wrap_panic hs))
  | difference =>
    exact sp_done
      (((sp_lazyOp hc env (st_differenceSteps hc h.1 ho.1) w).eff).elim (sp_wrap_panic hs))
  | symmetricDifference =>
    exact sp_done
      (((sp_lazyOp hc env (st_symmetricDifferenceSteps hc h.1 ho.1) w).eff).elim (sp_wrap_panic hs))
  | isSubset => exact sp_done (((sp_isSubsetOf hc env h.1 ho.1 w).eff).elim (sp_wrap_panic hs))
  | isSuperset => exact sp_done (((sp_isSubsetOf hc env ho.1 h.1 w).eff).elim (sp_wrap_panic hs))
  | isDisjoint => exact sp_done (((sp_isDisjoint hc env ho.1 w h.1).eff).elim (sp_wrap_panic hs))
  | eq => exact sp_done (((sp_setEq hc env ho.1 w h.1).eff).elim (sp_wrap_panic hs))
  | bitorAssign =>
    have hx := sp_wrapU_panic hs
    simp only [Set.insK, Set.bitorAssign, elemsOf_spec hc ho.1] at hx ⊢
    exact sp_done ((sp_bitorAssignLoop hc hnd env _ w h).elim hx)
  | bitandAssign => exact sp_done ((sp_bitandAssign hc hnd env ho.1 w h).elim (sp_wrapU_panic hs))
  | bitxorAssign =>
    have hx := sp_wrapU_panic hs
    simp only [Set.insK, Set.bitxorAssign, elemsOf_spec hc ho.1] at hx ⊢
    exact sp_done ((sp_bitxorAssignLoop hc hnd env _ w h).elim hx)
  | subAssign => exact sp_done ((sp_subAssign hc hnd env ho.1 w h).elim (sp_wrapU_panic hs))

/-- Key-object ledger between two pairs of sets for a call (or history) with unwinding: `new` = the
    log entries written; every key object stored in `a` or `b` before, or entering (`iK`), is
    afterwards stored in `a` or `b`, dropped (in `new`), or in `oK` (handed back / lost); the
    allocator invariant of the pair (all frees matched, live blocks = exactly the blocks of `a` and
    `b`: nothing leaked) is kept. -/
def sp_Led2 (cfg : Cfg) (s s' : Set.Pair) (iK oK : List Nat) : Prop :=
  ∃ new, s'.w.log = new ++ s.w.log ∧
    List.Perm (kidsOf s'.a.elems ++ kidsOf s'.b.elems ++ droppedK new ++ oK)
      (kidsOf s.a.elems ++ kidsOf s.b.elems ++ iK) ∧
    (sk_AllocInv2 cfg s → sk_AllocInv2 cfg s')

theorem sk_Led2.sp {s s' : Set.Pair} {iK oK : List Nat} (h : sk_Led2 cfg s s' iK oK) :
    sp_Led2 cfg s s' iK oK := by
  have ha := h.allocInv
  obtain ⟨new, l, k, _⟩ := h
  exact ⟨new, l, k, ha⟩

theorem sp_Led2.refl (s : Set.Pair) : sp_Led2 cfg s s [] [] := (sk_Led2.refl s).sp

theorem sp_Led2.trans {a b c : Set.Pair} {i1 o1 i2 o2 : List Nat} (h1 : sp_Led2 cfg a b i1 o1)
    (h2 : sp_Led2 cfg b c i2 o2) : sp_Led2 cfg a c (i1 ++ i2) (o1 ++ o2) := by
  obtain ⟨n1, l1, k1, a1⟩ := h1
  obtain ⟨n2, l2, k2, a2⟩ := h2
  refine ⟨n2 ++ n1, by rw [l2, l1, List.append_assoc], ?_, fun x => a2 (a1 x)⟩
  sl_count [k1, k2]

/-- **S-P1 — ledger of one call on a pair of sets that UNWINDS (C04).** Element type with drop glue,
    EVERY environment, any two valid tables, any `SetCall` that unwinds with panic class `cls`:
      `stored(a') ++ stored(b') ++ dropped (in new) ++ lost = stored(a) ++ stored(b) ++ moved in ++ clones created`
    as multisets of key-object identities (`SetCall.insK`), with `lost = []` unless the call is
    `clear` and `cls = "drop"` (never if no destructor panics); the allocator invariant of the pair
    is kept — no set call leaks a block. -/
theorem set_step2_ledger_panic (hc : CfgOk cfg) (hnd : cfg.needsDrop = true) (env : Env)
    (c : SetCall) (s : Set.Pair) (ha : TInv cfg s.a) (hb : TInv cfg s.b) {cls : String}
    {s' : Set.Pair} (hst : Set.step2 cfg env c s = .panic cls s') :
    ∃ lostK, sp_Led2 cfg s s' (c.insK cfg env s) lostK ∧ (cls ≠ "drop" → lostK = []) ∧
      ((∀ c e, env.dropPanics c e = false) → lostK = []) ∧ (c.op ≠ .clear → lostK = []) := by
  obtain ⟨side, op⟩ := c
  cases side with
  | a =>
    have hst' : Set.step2 cfg env ⟨.a, op⟩ s =
        match Set.call cfg env op s.b s.w with
        | .ok (r, w') => .ret r { w := w', b := s.b }
        | .panic cls w' => .panic cls { w := w', b := s.b }
        | .abort => .abort
        | .fault f => .fault f := rfl
    rw [hst'] at hst
    cases hcall : Set.call cfg env op s.b s.w with
    | ok pr => obtain ⟨r', w'⟩ := pr; rw [hcall] at hst; cases hst
    | panic cls' w' =>
      rw [hcall] at hst
      simp only [Set.Out2.panic.injEq] at hst
      obtain ⟨rfl, rfl⟩ := hst
      obtain ⟨lostK, ⟨new, l, k, fr⟩, z1, z2, z3⟩ :=
        set_call_ledger_panic hc hnd env op s.b s.w ha hb hcall
      refine ⟨lostK, ⟨new, l, ?_, fun hi => fr (hs_blockOf cfg s.b) hi⟩, z1, z2, z3⟩
      show List.Perm (kidsOf w'.t.elems ++ kidsOf s.b.elems ++ droppedK new ++ lostK)
        (kidsOf s.w.t.elems ++ kidsOf s.b.elems ++ Set.insK cfg env op s.b s.w)
      sl_count [k]
    | abort => rw [hcall] at hst; cases hst
    | fault f => rw [hcall] at hst; cases hst
  | b =>
    have hst' : Set.step2 cfg env ⟨.b, op⟩ s =
        match Set.call cfg env op s.w.t { s.w with t := s.b } with
        | .ok (r, w') => .ret r { w := { w' with t := s.w.t }, b := w'.t }
        | .panic cls w' => .panic cls { w := { w' with t := s.w.t }, b := w'.t }
        | .abort => .abort
        | .fault f => .fault f := rfl
    rw [hst'] at hst
    cases hcall : Set.call cfg env op s.w.t { s.w with t := s.b } with
    | ok pr => obtain ⟨r', w'⟩ := pr; rw [hcall] at hst; cases hst
    | panic cls' w' =>
      rw [hcall] at hst
      simp only [Set.Out2.panic.injEq] at hst
      obtain ⟨rfl, rfl⟩ := hst
      obtain ⟨lostK, ⟨new, l, k, fr⟩, z1, z2, z3⟩ :=
        set_call_ledger_panic hc hnd env op s.w.t { s.w with t := s.b } hb ha hcall
      refine ⟨lostK, ⟨new, l, ?_, fun hi => ?_⟩, z1, z2, z3⟩
      · show List.Perm (kidsOf s.w.t.elems ++ kidsOf w'.t.elems ++ droppedK new ++ lostK)
          (kidsOf s.w.t.elems ++ kidsOf s.b.elems ++
            Set.insK cfg env op s.w.t { s.w with t := s.b })
        have k' : List.Perm (kidsOf w'.t.elems ++ droppedK new ++ lostK)
          (kidsOf s.b.elems ++ Set.insK cfg env op s.w.t { s.w with t := s.b }) := k
        sl_count [k']
      · obtain ⟨f, p⟩ := fr (hs_blockOf cfg s.w.t) ⟨hi.1, hi.2.trans List.perm_append_comm⟩
        exact ⟨f, p.trans List.perm_append_comm⟩
    | abort => rw [hcall] at hst; cases hst
    | fault f => rw [hcall] at hst; cases hst

/-- An observed panic after which key objects may be missing from the ledger: a destructor's panic
    inside `clear`. -/
def Set.lossy (p : SetCall × Map.Obs) : Bool :=
  match p.2 with
  | .ret _ => false
  | .panic c => c == "drop" && (match p.1.op with | .clear => true | _ => false)

/-- Ledger of a pair history with any number of observed panics, from any two valid tables. -/
theorem sp_run2_ledger_panics (hc : CfgOk cfg) (hnd : cfg.needsDrop = true) (env : Env) :
    ∀ (cs : List SetCall) (s sf : Set.Pair) (obs : List Map.Obs), TInv cfg s.a → TInv cfg s.b →
      Set.run2 cfg env cs s = some (obs, sf) →
      ∃ lostK, sp_Led2 cfg s sf (Set.insK2 cfg env cs s) (Set.returnedK2 (cs.zip obs) ++ lostK) ∧
        TInv cfg sf.a ∧ TInv cfg sf.b ∧ ((∀ p ∈ cs.zip obs, Set.lossy p = false) → lostK = []) := by
  intro cs
  induction cs with
  | nil =>
    intro s sf obs ha hb hrun
    simp only [Set.run2, Option.some.injEq, Prod.mk.injEq] at hrun
    obtain ⟨h1, h2⟩ := hrun
    subst h1 h2
    exact ⟨[], sp_Led2.refl s, ha, hb, fun _ => rfl⟩
  | cons c rest ih =>
    intro s sf obs ha hb hrun
    have hg := st_step2_safe hc (Or.inl hnd) env c s ha hb
    cases hr : Set.step2 cfg env c s with
    | ret r s1 =>
      simp only [Set.run2, hr] at hrun
      obtain ⟨⟨os, sf'⟩, h1, h2⟩ := Option.map_eq_some_iff.1 hrun
      simp only [Prod.mk.injEq] at h2
      obtain ⟨h2a, h2b⟩ := h2
      subst h2a h2b
      have e1 := (set_step2_ledger hc hnd env c s ha hb hr).sp
      rw [hr] at hg
      obtain ⟨lost2, e2, ta, tb, z2⟩ := ih s1 sf' os hg.1.1 hg.2.1 h1
      refine ⟨lost2, ?_, ta, tb, fun hl => z2 (fun p hp => hl p (by
        simp only [List.zip_cons_cons]; exact List.mem_cons_of_mem _ hp))⟩
      simp only [List.zip_cons_cons, Set.returnedK2, Set.insK2, hr]
      have := e1.trans e2
      rwa [← List.append_assoc] at this
    | panic cls s1 =>
      simp only [Set.run2, hr] at hrun
      obtain ⟨⟨os, sf'⟩, h1, h2⟩ := Option.map_eq_some_iff.1 hrun
      simp only [Prod.mk.injEq] at h2
      obtain ⟨h2a, h2b⟩ := h2
      subst h2a h2b
      obtain ⟨lost1, e1, z1, _, z3⟩ := set_step2_ledger_panic hc hnd env c s ha hb hr
      rw [hr] at hg
      obtain ⟨lost2, e2, ta, tb, z2⟩ := ih s1 sf' os hg.1.1 hg.2.1 h1
      refine ⟨lost1 ++ lost2, ?_, ta, tb, fun hl => ?_⟩
      · simp only [List.zip_cons_cons, Set.returnedK2, Set.insK2, hr]
        obtain ⟨n, l, k, al⟩ := e1.trans e2
        refine ⟨n, l, ?_, al⟩
        sl_count [k]
      · have hz2 := z2 (fun p hp => hl p (by
          simp only [List.zip_cons_cons]; exact List.mem_cons_of_mem _ hp))
        have hl0 := hl (c, .panic cls) (by simp only [List.zip_cons_cons]; exact List.mem_cons_self)
        have hz1 : lost1 = [] := by
          by_cases hcls : cls = "drop"
          · apply z3
            intro hop
            simp only [Set.lossy, hcls, hop, beq_self_eq_true, Bool.and_self] at hl0
            cases hl0
          · exact z1 hcls
        rw [hz1, hz2]
        rfl
    | abort => simp [Set.run2, hr] at hrun
    | fault f => simp [Set.run2, hr] at hrun

/-- **S-P2 — no double drop in histories on a pair of sets WITH panics (C04).** Every history of
    `HashSet` calls on a fresh pair `(HashSet::new(), HashSet::new())` with an empty log (drop glue,
    EVERY environment; calls may return or unwind, panics are caught and the history goes on):
      `stored(a) ++ stored(b) ++ dropped ++ handed back ++ lost = moved in ++ clones created`
    for some `lost`, which is empty unless a `clear` ended in a destructor's panic; all frees are
    matched and the live blocks are exactly the blocks of `a` and `b`; both tables are valid; hence
    with pairwise distinct identities moved in / created, no key object is stored twice, dropped
    twice, handed back twice, dropped and handed back, or released while still stored. -/
theorem set_no_double_drop_panics (hc : CfgOk cfg) (hnd : cfg.needsDrop = true) (env : Env)
    (cs : List SetCall) (s0 : Set.Pair) (ha : s0.a = Raw.new cfg.W) (hb : s0.b = Raw.new cfg.W)
    (hl0 : s0.w.log = []) {obs : List Map.Obs} {sf : Set.Pair}
    (hrun : Set.run2 cfg env cs s0 = some (obs, sf)) :
    (∃ lostK, List.Perm (kidsOf sf.a.elems ++ kidsOf sf.b.elems ++ droppedK sf.w.log ++
          Set.returnedK2 (cs.zip obs) ++ lostK) (Set.insK2 cfg env cs s0) ∧
        ((∀ p ∈ cs.zip obs, Set.lossy p = false) → lostK = [])) ∧
    sk_AllocInv2 cfg sf ∧ TInv cfg sf.a ∧ TInv cfg sf.b ∧
    ((Set.insK2 cfg env cs s0).Nodup →
      (kidsOf sf.a.elems ++ kidsOf sf.b.elems ++ droppedK sf.w.log ++
        Set.returnedK2 (cs.zip obs)).Nodup) := by
  obtain ⟨lostK, ⟨new, l, k, al⟩, ta, tb, z⟩ := sp_run2_ledger_panics hc hnd env cs s0 sf obs
    (by rw [ha]; exact TInv.new hc) (by rw [hb]; exact TInv.new hc) hrun
  rw [hl0, List.append_nil] at l
  have e0 : (Raw.new cfg.W).elems = [] := rfl
  rw [ha, hb, e0, ← l] at k
  have k' : List.Perm (kidsOf sf.a.elems ++ kidsOf sf.b.elems ++ droppedK sf.w.log ++
      Set.returnedK2 (cs.zip obs) ++ lostK) (Set.insK2 cfg env cs s0) := by
    sl_count [k]
  refine ⟨⟨lostK, k', z⟩, al (sk_allocInv2_new s0 ha hb hl0), ta, tb, fun hn => ?_⟩
  have := (k'.nodup_iff).2 hn
  exact (List.nodup_append.1 this).1

/-- The same from any two valid tables (`new` = the log entries the history wrote). -/
theorem set_run2_ledger_panics_from (hc : CfgOk cfg) (hnd : cfg.needsDrop = true) (env : Env)
    (cs : List SetCall) (s sf : Set.Pair) (obs : List Map.Obs) (ha : TInv cfg s.a)
    (hb : TInv cfg s.b) (hrun : Set.run2 cfg env cs s = some (obs, sf)) :
    ∃ new lostK, sf.w.log = new ++ s.w.log ∧
      List.Perm (kidsOf sf.a.elems ++ kidsOf sf.b.elems ++ droppedK new ++
          Set.returnedK2 (cs.zip obs) ++ lostK)
        (kidsOf s.a.elems ++ kidsOf s.b.elems ++ Set.insK2 cfg env cs s) ∧
      (sk_AllocInv2 cfg s → sk_AllocInv2 cfg sf) ∧ TInv cfg sf.a ∧ TInv cfg sf.b ∧
      ((∀ p ∈ cs.zip obs, Set.lossy p = false) → lostK = []) := by
  obtain ⟨lostK, ⟨new, l, k, al⟩, ta, tb, z⟩ :=
    sp_run2_ledger_panics hc hnd env cs s sf obs ha hb hrun
  refine ⟨new, lostK, l, ?_, al, ta, tb, z⟩
  sl_count [k]

#print axioms set_call_ledger_panic
#print axioms set_step2_ledger_panic
#print axioms sp_run2_ledger_panics
#print axioms set_no_double_drop_panics
#print axioms set_run2_ledger_panics_from

end Hb
