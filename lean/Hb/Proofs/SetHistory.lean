/-
C07 — ONE history theorem over two `HashSet`s.

`Hb/Props/C07.lean` proves every call of the `HashSet` API for ANY two tables satisfying the
hash-dependent invariant `InvL cfg H` (+ `LayoutOk`). This file closes the gap to "any two sets built
by any histories":

* `MSet.Call` / `MSet.Step` / `MSet.Trace`: the reference semantics on pairs of mathematical sets,
  represented as key-distinct lists of stored objects and specified up to permutation (§1; that it
  is the mathematical one: `MSet.Call.mem_after`, `MSet.Call.ret_bool`, `MSet.Call.ret_elems`,
  `MSet.Call.keysNodup`, `MSet.Call.perm` (independence of list order), … in §4);
* `call_refines` (one call `target.op(&other)`, all 27 `SetOp`s — each theorem of C07.lean is one
  case), `set_step_refines` (one call on a pair, either side), `set_history_refines` (every history
  from `(new(), new())`), `reachable_pairs_satisfy_C07`, `C07_on_reachable_pairs`,
  `two_histories_satisfy_C07` (§3);
* a concrete lawful environment and an evaluated history with binary calls in both size regimes
  (§5).

Hypotheses: `CfgOk cfg` (either scanner, `usize` ≥ 16 bits) and `SetLawfulP env H p`: `Hash = H`
for an ARBITRARY function `H` (deterministic hasher), `Eq` = equality of keys, `Clone` never panics,
the `retain` closure is the pure predicate `p`, the allocator never refuses, destructors never
panic. Under these the only outcomes besides the documented return are the `"notequiv"` panic of
`get_or_insert_with` and the `"capacity"` panic (capacity overflow in `reserve`; possible because
`usize` may be as small as 16 bits) of the growing calls, which the reference allows explicitly
(`MSet.Call.overflow`, `.bitorOverflow`, `.bitxorOverflow`): a one-element call leaves the set
unchanged, `|=` / `^=` may stop part-way. Never `fault` (UB), never `abort`.
-/
import Hb.Model.SetOps
import Hb.Props.C07
import Hb.Proofs.Refine
import Hb.Proofs.EntrySpec
import Hb.Proofs.History
namespace Hb

variable {cfg : Cfg} {env : Env} {H : Nat → Nat}

/-! ## 0. hypotheses -/

/-- Lawful environment for set histories: `Hash = H` (deterministic hasher, any function),
    `Eq` = equality of keys, `Clone` never panics (`SetLawful`), the `retain` closure is the pure
    predicate `p` (it sees `&T`; whatever payload it proposes is discarded by `Set.envOf`), the
    allocator never refuses, destructors never panic. -/
structure SetLawfulP (env : Env) (H : Nat → Nat) (p : Elem → Bool) : Prop extends SetLawful env H where
  pred : ∀ c e, ∃ v, env.pred c e = some (p e, v)
  alloc : ∀ j, env.allocOk j = true
  nodropPanic : ∀ c e, env.dropPanics c e = false

/-! ## 1. the reference: mathematical sets as key-distinct lists, up to permutation -/

namespace MSet

/-- The keys of an abstract set. -/
def ks (l : AL) : List Nat := l.map (·.k)

/-- Calls whose only other outcome is the capacity-overflow panic of their `reserve`, which leaves
    the set as it was. -/
def growsOne : SetOp → Bool
  | .insert _ _ => true
  | .replace _ => true
  | .getOrInsert _ => true
  | .getOrInsertWith _ _ _ => true
  | .entryInsert _ => true
  | .entryOrInsert _ => true
  | .reserve _ => true
  | _ => false

/-- `U = T ∪ O` as the lazy iterator yields it: all of the larger operand, then what the smaller
    one adds (`self.len() <= other.len()` decides). -/
def unionSpec (T O : AL) : AL :=
  if T.length ≤ O.length then O ++ T.filter (fun e => decide (e.k ∉ ks O))
  else T ++ O.filter (fun e => decide (e.k ∉ ks T))

/-- `T ∩ O`: the objects of the smaller operand whose key is in the larger one. -/
def interSpec (T O : AL) : AL :=
  if T.length ≤ O.length then T.filter (fun e => decide (e.k ∈ ks O))
  else O.filter (fun e => decide (e.k ∈ ks T))

/-- `T ∖ O`: the objects of `T` whose key is not in `O`. -/
def diffSpec (T O : AL) : AL := T.filter (fun e => decide (e.k ∉ ks O))

/-- `T △ O = (T ∖ O) ++ (O ∖ T)`. -/
def symSpec (T O : AL) : AL := diffSpec T O ++ diffSpec O T

/-- One call `target.op(other)` on abstract sets: `Call p op T O o T'` = "with target `T` and right
    operand `O` the call may be observed as `o` and leave the target as `T'`" (the right operand is
    never modified). `T'` and list-valued returns are specified up to permutation (iteration order
    is unspecified). `p` is the `retain` predicate. -/
inductive Call (p : Elem → Bool) : SetOp → AL → AL → Map.Obs → AL → Prop where
  | insertNew (k kid : Nat) {T O T' : AL} (h : T.find k = none)
      (hp : T'.Perm (Set.elemOf k kid :: T)) : Call p (.insert k kid) T O (.ret (.bool true)) T'
  | insertOld (k kid : Nat) (old : Elem) {T O T' : AL} (h : T.find k = some old)
      (hp : T'.Perm (T.setVal k 0 0)) : Call p (.insert k kid) T O (.ret (.bool false)) T'
  | remove (k : Nat) {T O T' : AL} (hp : T'.Perm (T.erase k)) :
      Call p (.remove k) T O (.ret (.bool (T.find k).isSome)) T'
  | take (k : Nat) {T O T' : AL} (hp : T'.Perm (T.erase k)) :
      Call p (.take k) T O (.ret (.elem (T.find k))) T'
  | replaceNew (e : Elem) {T O T' : AL} (h : T.find e.k = none) (hp : T'.Perm (e :: T)) :
      Call p (.replace e) T O (.ret (.elem none)) T'
  | replaceOld (e old : Elem) {T O T' : AL} (h : T.find e.k = some old)
      (hp : T'.Perm (e :: T.erase e.k)) : Call p (.replace e) T O (.ret (.elem (some old))) T'
  | getOrInsertNew (e : Elem) {T O T' : AL} (h : T.find e.k = none) (hp : T'.Perm (e :: T)) :
      Call p (.getOrInsert e) T O (.ret (.elem (some e))) T'
  | getOrInsertOld (e old : Elem) {T O T' : AL} (h : T.find e.k = some old) (hp : T'.Perm T) :
      Call p (.getOrInsert e) T O (.ret (.elem (some old))) T'
  | getOrInsertWithOld (k k2 kid2 : Nat) (old : Elem) {T O T' : AL} (h : T.find k = some old)
      (hp : T'.Perm T) : Call p (.getOrInsertWith k k2 kid2) T O (.ret (.elem (some old))) T'
  | getOrInsertWithNew (k kid2 : Nat) {T O T' : AL} (h : T.find k = none)
      (hp : T'.Perm (Set.elemOf k kid2 :: T)) :
      Call p (.getOrInsertWith k k kid2) T O (.ret (.elem (some (Set.elemOf k kid2)))) T'
  | getOrInsertWithBad (k k2 kid2 : Nat) {T O T' : AL} (h : T.find k = none) (hne : k2 ≠ k)
      (hp : T'.Perm T) : Call p (.getOrInsertWith k k2 kid2) T O (.panic "notequiv") T'
  | contains (k : Nat) {T O T' : AL} (hp : T'.Perm T) :
      Call p (.contains k) T O (.ret (.bool (T.find k).isSome)) T'
  | get (k : Nat) {T O T' : AL} (hp : T'.Perm T) :
      Call p (.get k) T O (.ret (.elem (T.find k))) T'
  | entryInsertNew (e : Elem) {T O T' : AL} (h : T.find e.k = none) (hp : T'.Perm (e :: T)) :
      Call p (.entryInsert e) T O (.ret (.elem (some e))) T'
  | entryInsertOld (e old : Elem) {T O T' : AL} (h : T.find e.k = some old) (hp : T'.Perm T) :
      Call p (.entryInsert e) T O (.ret (.elem (some old))) T'
  | entryOrInsertNew (e : Elem) {T O T' : AL} (h : T.find e.k = none) (hp : T'.Perm (e :: T)) :
      Call p (.entryOrInsert e) T O (.ret .unit) T'
  | entryOrInsertOld (e old : Elem) {T O T' : AL} (h : T.find e.k = some old) (hp : T'.Perm T) :
      Call p (.entryOrInsert e) T O (.ret .unit) T'
  | entryRemove (e : Elem) {T O T' : AL} (hp : T'.Perm (T.erase e.k)) :
      Call p (.entryRemove e) T O (.ret (.elem (T.find e.k))) T'
  | retain {T O T' : AL} (hp : T'.Perm (T.filter p)) : Call p .retain T O (.ret .unit) T'
  | clear {T O : AL} : Call p .clear T O (.ret .unit) []
  | reserve (n : Nat) {T O T' : AL} (hp : T'.Perm T) : Call p (.reserve n) T O (.ret .unit) T'
  | shrinkTo (m : Nat) {T O T' : AL} (hp : T'.Perm T) : Call p (.shrinkTo m) T O (.ret .unit) T'
  | union {T O T' ys : AL} (hy : ys.Perm (unionSpec T O)) (hp : T'.Perm T) :
      Call p .union T O (.ret (.elems ys)) T'
  | intersection {T O T' ys : AL} (hy : ys.Perm (interSpec T O)) (hp : T'.Perm T) :
      Call p .intersection T O (.ret (.elems ys)) T'
  | difference {T O T' ys : AL} (hy : ys.Perm (diffSpec T O)) (hp : T'.Perm T) :
      Call p .difference T O (.ret (.elems ys)) T'
  | symmetricDifference {T O T' ys : AL} (hy : ys.Perm (symSpec T O)) (hp : T'.Perm T) :
      Call p .symmetricDifference T O (.ret (.elems ys)) T'
  | isSubset {T O T' : AL} (hp : T'.Perm T) :
      Call p .isSubset T O (.ret (.bool (decide (∀ k ∈ ks T, k ∈ ks O)))) T'
  | isSuperset {T O T' : AL} (hp : T'.Perm T) :
      Call p .isSuperset T O (.ret (.bool (decide (∀ k ∈ ks O, k ∈ ks T)))) T'
  | isDisjoint {T O T' : AL} (hp : T'.Perm T) :
      Call p .isDisjoint T O (.ret (.bool (decide (∀ k ∈ ks T, k ∉ ks O)))) T'
  | eq {T O T' : AL} (hp : T'.Perm T) :
      Call p .eq T O
        (.ret (.bool (decide ((∀ k ∈ ks T, k ∈ ks O) ∧ ∀ k ∈ ks O, k ∈ ks T)))) T'
  | bitorAssign {T O T' : AL} (hsub : ∀ x ∈ T, x ∈ T') (hn : T'.keysNodup)
      (hk : ∀ k, k ∈ ks T' ↔ k ∈ ks T ∨ k ∈ ks O) : Call p .bitorAssign T O (.ret .unit) T'
  | bitandAssign {T O T' : AL} (hp : T'.Perm (T.filter fun e => decide (e.k ∈ ks O))) :
      Call p .bitandAssign T O (.ret .unit) T'
  | subAssign {T O T' : AL} (hp : T'.Perm (diffSpec T O)) : Call p .subAssign T O (.ret .unit) T'
  | bitxorAssign {T O T' : AL} (hkeep : ∀ x ∈ T, x.k ∉ ks O → x ∈ T') (hn : T'.keysNodup)
      (hk : ∀ k, k ∈ ks T' ↔ (k ∈ ks T ∧ k ∉ ks O) ∨ (k ∉ ks T ∧ k ∈ ks O)) :
      Call p .bitxorAssign T O (.ret .unit) T'
  /-- capacity overflow in the `reserve` of a call that adds at most one element: set unchanged -/
  | overflow (op : SetOp) {T O T' : AL} (ho : growsOne op = true) (hp : T'.Perm T) :
      Call p op T O (.panic "capacity") T'
  /-- capacity overflow part-way through `target |= &other`: some of the new keys are in -/
  | bitorOverflow {T O T' : AL} (hsub : ∀ x ∈ T, x ∈ T') (hn : T'.keysNodup)
      (hk : ∀ k, k ∈ ks T' → k ∈ ks T ∨ k ∈ ks O) : Call p .bitorAssign T O (.panic "capacity") T'
  /-- capacity overflow part-way through `target ^= &other`: a prefix of `other` has been toggled -/
  | bitxorOverflow {T O T' : AL} (hkeep : ∀ x ∈ T, x.k ∉ ks O → x ∈ T') (hn : T'.keysNodup)
      (hk : ∀ k, k ∈ ks T' → k ∈ ks T ∨ k ∈ ks O) : Call p .bitxorAssign T O (.panic "capacity") T'

/-- One call of a history on a pair `(A, B)` of abstract sets. -/
def Step (p : Elem → Bool) (c : SetCall) (s : AL × AL) (o : Map.Obs) (s' : AL × AL) : Prop :=
  match c.side with
  | .a => Call p c.op s.1 s.2 o s'.1 ∧ s'.2 = s.2
  | .b => Call p c.op s.2 s.1 o s'.2 ∧ s'.1 = s.1

/-- A history on a pair of abstract sets and what each call is observed to return. -/
inductive Trace (p : Elem → Bool) : List SetCall → AL × AL → List Map.Obs → AL × AL → Prop where
  | nil (s : AL × AL) : Trace p [] s [] s
  | cons {c : SetCall} {cs : List SetCall} {s s' sf : AL × AL} {o : Map.Obs} {os : List Map.Obs}
      (hs : Step p c s o s') (ht : Trace p cs s' os sf) : Trace p (c :: cs) s (o :: os) sf

end MSet


/-- search at RI level -/
theorem sh_search (hc : CfgOk cfg) (hl : Lawful env H) (halloc : ∀ j, env.allocOk j = true)
    (k : Nat) (owned : Option Elem) (w : World) (h : RI cfg H w.t) :
    (∃ (r : Except Nat Nat) (w3 : World), Set.search cfg env k owned w = .ok (H k, r, w3) ∧
      RI cfg H w3.t ∧ List.Perm w3.t.elems w.t.elems ∧ 1 ≤ w3.t.gl ∧
      (∀ idx, r = .ok idx ↔ ∃ e, w3.t.slots[idx]?.join = some e ∧ e.k = k) ∧
      (∀ slot, r = .error slot ↔ (findInsertSlot cfg w3.t (H k) = .ok slot ∧
        ∀ (i : Nat) (e : Elem), w3.t.slots[i]?.join = some e → e.k ≠ k))) ∨
    (∃ w', Set.search cfg env k owned w = .panic "capacity" w' ∧ w'.t = w.t) := by
  rcases fofis_refines hc (growthLawful hc hc.probe) hl halloc k { w with hc := w.hc + 1 } h with
    ⟨r, w2, w3, hfo, ht, _, hRI, hp, hgl, _, h1, h2⟩ | hfo
  · left
    refine ⟨r, w3, ?_, by rw [ht]; exact hRI, by rw [ht]; exact hp, by rw [ht]; exact hgl,
      by rw [ht]; exact h1, by rw [ht]; exact h2⟩
    unfold Set.search
    cases owned <;>
      simp only [rf_makeHash_lawful hl, rf_bind_ok, hfo, rf_pure, Res.onPanic]
  · right
    unfold Set.search
    cases owned with
    | none =>
      exact ⟨{ w with hc := w.hc + 1 },
        by simp only [rf_makeHash_lawful hl, rf_bind_ok, hfo, rf_bind_panic], rfl⟩
    | some e =>
      refine ⟨World.dropElemQuiet cfg { w with hc := w.hc + 1 } e,
        by simp only [rf_makeHash_lawful hl, rf_bind_ok, hfo, rf_bind_panic, Res.onPanic], ?_⟩
      rw [dropElemQuiet_t]

/-! ## 2. one call refines the reference -/

/-- "The outcome `r` of call `op` on target `w.t` with right operand `other` is a reference
    outcome, and the target satisfies `RI` afterwards" (never `fault`, never `abort`). -/
def sh_Ref (cfg : Cfg) (H : Nat → Nat) (p : Elem → Bool) (op : SetOp) (other : Raw) (w : World) :
    Res (Ret × World) → Prop
  | .ok (x, w') => RI cfg H w'.t ∧ MSet.Call p op w.t.elems other.elems (.ret x) w'.t.elems
  | .panic c w' => RI cfg H w'.t ∧ MSet.Call p op w.t.elems other.elems (.panic c) w'.t.elems
  | .abort => False
  | .fault _ => False

theorem sh_wrap_ok {α : Type} (f : α → Ret) (x : α) (w' : World) :
    Set.wrap f (.ok (x, w')) = .ok (f x, w') := rfl
theorem sh_wrap_panic {α : Type} (f : α → Ret) (c : String) (w' : World) :
    Set.wrap f (.panic c w' : Res (α × World)) = .panic c w' := rfl
theorem sh_wrapU_ok (w' : World) : Set.wrapU (.ok w') = .ok (.unit, w') := rfl
theorem sh_wrapU_panic (c : String) (w' : World) : Set.wrapU (.panic c w') = .panic c w' := rfl

variable {p : Elem → Bool}

/-- insert_in_slot of a fresh key after a successful search -/
theorem sh_insert_fresh (hc : CfgOk cfg) {w w3 : World} (e : Elem) (hRI : RI cfg H w3.t)
    (hp : List.Perm w3.t.elems w.t.elems) (hgl : 1 ≤ w3.t.gl) {slot : Nat}
    (hfis : findInsertSlot cfg w3.t (H e.k) = .ok slot)
    (hfresh : ∀ (i : Nat) (x : Elem), w3.t.slots[i]?.join = some x → x.k ≠ e.k) :
    ∃ t', insertInSlot cfg w3.t (H e.k) slot e = .ok t' ∧ RI cfg H t' ∧
      List.Perm t'.elems (e :: w.t.elems) := by
  have ha : w3.t.alloc = true := ag_alloc_of_gl hRI.1.toInv (by omega)
  obtain ⟨t', hins, hRI', hp', _, _⟩ := en_insertInSlot_RI hc hRI ha e
    (elems_find_none.mpr hfresh) hfis (fun _ => by omega)
  exact ⟨t', hins, hRI', hp'.trans (hp.cons e)⟩

theorem sh_replace (hc : CfgOk cfg) (hlp : SetLawfulP env H p) (e : Elem) (other : Raw) (w : World)
    (h : RI cfg H w.t) :
    sh_Ref cfg H p (.replace e) other w (Set.call cfg env (.replace e) other w) := by
  have hl := hlp.toLawful
  have hkn := elems_keysNodup h.1
  rcases sh_search hc hl hlp.alloc e.k (some e) w h with
    ⟨r, w3, hs, hRI, hp, hgl, h1, h2⟩ | ⟨w', hs, ht⟩
  · have hfind : AL.find w.t.elems e.k = AL.find w3.t.elems e.k := AL.perm_find hp.symm hkn e.k
    cases r with
    | ok idx =>
      obtain ⟨old, hold, hk⟩ := (h1 idx).mp rfl
      have hfs : AL.find w3.t.elems e.k = some old := (elems_find hRI.1).mpr ⟨idx, hold, hk⟩
      have hcall : Set.call cfg env (.replace e) other w =
          .ok (.elem (some old), { w3 with t := Map.slotSet w3.t idx e }) := by
        simp only [Set.call, Set.replace, hs, rf_bind_ok, slotGet_ok hold, liftE, rf_pure,
          sh_wrap_ok]
        rfl
      rw [hcall]
      refine ⟨en_slotSet_RI hRI hold e hk.symm, .replaceOld e old (by rw [hfind, hfs]) ?_⟩
      obtain ⟨l0, hp1, hp2⟩ := rf_update_perm e hold
      have h3 := rf_erase_of_perm hp1 (elems_keysNodup hRI.1)
      rw [hk] at h3
      exact hp2.trans ((h3.trans (AL.perm_erase hp e.k)).cons e)
    | error slot =>
      obtain ⟨hfis, hfresh⟩ := (h2 slot).mp rfl
      obtain ⟨t', hins, hRI', hp'⟩ := sh_insert_fresh hc e hRI hp hgl hfis hfresh
      have hcall : Set.call cfg env (.replace e) other w = .ok (.elem none, { w3 with t := t' }) := by
        simp only [Set.call, Set.replace, hs, rf_bind_ok, hins, liftE, rf_pure, sh_wrap_ok]
      rw [hcall]
      exact ⟨hRI', .replaceNew e (by rw [hfind]; exact elems_find_none.mpr hfresh) hp'⟩
  · have hcall : Set.call cfg env (.replace e) other w = .panic "capacity" w' := by
      simp only [Set.call, Set.replace, hs, rf_bind_panic, sh_wrap_panic]
    rw [hcall]
    exact ⟨by rw [ht]; exact h, .overflow _ rfl (by rw [ht])⟩

theorem sh_getOrInsert (hc : CfgOk cfg) (hlp : SetLawfulP env H p) (e : Elem) (other : Raw)
    (w : World) (h : RI cfg H w.t) :
    sh_Ref cfg H p (.getOrInsert e) other w (Set.call cfg env (.getOrInsert e) other w) := by
  have hl := hlp.toLawful
  have hkn := elems_keysNodup h.1
  rcases sh_search hc hl hlp.alloc e.k (some e) w h with
    ⟨r, w3, hs, hRI, hp, hgl, h1, h2⟩ | ⟨w', hs, ht⟩
  · have hfind : AL.find w.t.elems e.k = AL.find w3.t.elems e.k := AL.perm_find hp.symm hkn e.k
    cases r with
    | ok idx =>
      obtain ⟨old, hold, hk⟩ := (h1 idx).mp rfl
      have hfs : AL.find w3.t.elems e.k = some old := (elems_find hRI.1).mpr ⟨idx, hold, hk⟩
      obtain ⟨w4, hdk, ht4, _⟩ := en_dropKeyR_ok (cfg := cfg) hlp.nodropPanic e.kid w3
      have hcall : Set.call cfg env (.getOrInsert e) other w = .ok (.elem (some old), w4) := by
        simp only [Set.call, Set.getOrInsert, hs, rf_bind_ok, slotGet_ok hold, liftE, rf_pure,
          hdk, sh_wrap_ok]
      rw [hcall]
      exact ⟨by rw [ht4]; exact hRI, .getOrInsertOld e old (by rw [hfind, hfs]) (by rw [ht4]; exact hp)⟩
    | error slot =>
      obtain ⟨hfis, hfresh⟩ := (h2 slot).mp rfl
      obtain ⟨t', hins, hRI', hp'⟩ := sh_insert_fresh hc e hRI hp hgl hfis hfresh
      have hcall : Set.call cfg env (.getOrInsert e) other w =
          .ok (.elem (some e), { w3 with t := t' }) := by
        simp only [Set.call, Set.getOrInsert, hs, rf_bind_ok, hins, liftE, rf_pure, sh_wrap_ok]
      rw [hcall]
      exact ⟨hRI', .getOrInsertNew e (by rw [hfind]; exact elems_find_none.mpr hfresh) hp'⟩
  · have hcall : Set.call cfg env (.getOrInsert e) other w = .panic "capacity" w' := by
      simp only [Set.call, Set.getOrInsert, hs, rf_bind_panic, sh_wrap_panic]
    rw [hcall]
    exact ⟨by rw [ht]; exact h, .overflow _ rfl (by rw [ht])⟩

theorem sh_getOrInsertWith (hc : CfgOk cfg) (hlp : SetLawfulP env H p) (k k2 kid2 : Nat)
    (other : Raw) (w : World) (h : RI cfg H w.t) :
    sh_Ref cfg H p (.getOrInsertWith k k2 kid2) other w
      (Set.call cfg env (.getOrInsertWith k k2 kid2) other w) := by
  have hl := hlp.toLawful
  have hkn := elems_keysNodup h.1
  rcases sh_search hc hl hlp.alloc k none w h with
    ⟨r, w3, hs, hRI, hp, hgl, h1, h2⟩ | ⟨w', hs, ht⟩
  · have hfind : AL.find w.t.elems k = AL.find w3.t.elems k := AL.perm_find hp.symm hkn k
    cases r with
    | ok idx =>
      obtain ⟨old, hold, hk⟩ := (h1 idx).mp rfl
      have hfs : AL.find w3.t.elems k = some old := (elems_find hRI.1).mpr ⟨idx, hold, hk⟩
      have hcall : Set.call cfg env (.getOrInsertWith k k2 kid2) other w =
          .ok (.elem (some old), w3) := by
        simp only [Set.call, Set.getOrInsertWith, hs, rf_bind_ok, slotGet_ok hold, liftE, rf_pure,
          sh_wrap_ok]
      rw [hcall]
      exact ⟨hRI, .getOrInsertWithOld k k2 kid2 old (by rw [hfind, hfs]) hp⟩
    | error slot =>
      obtain ⟨hfis, hfresh⟩ := (h2 slot).mp rfl
      have hnone : AL.find w.t.elems k = none := by rw [hfind]; exact elems_find_none.mpr hfresh
      by_cases hkk : k2 = k
      · subst hkk
        have hfis' : findInsertSlot cfg ({ w3 with ec := w3.ec + 1 } : World).t
            (H (Set.elemOf k2 kid2).k) = .ok slot := hfis
        obtain ⟨t', hins, hRI', hp'⟩ := sh_insert_fresh (w := w) (w3 := { w3 with ec := w3.ec + 1 })
          hc (Set.elemOf k2 kid2) hRI hp hgl hfis' hfresh
        have hcall : Set.call cfg env (.getOrInsertWith k2 k2 kid2) other w =
            .ok (.elem (some (Set.elemOf k2 kid2)), { w3 with ec := w3.ec + 1, t := t' }) := by
          have hins' : insertInSlot cfg w3.t (H k2) slot (Set.elemOf k2 kid2) = .ok t' := hins
          simp only [Set.call, Set.getOrInsertWith, hs, rf_bind_ok, hl.eq, Set.elemOf, beq_self_eq_true,
            liftE, rf_pure]
          simp only [Set.elemOf] at hins'
          simp only [hins']
          rfl
        rw [hcall]
        exact ⟨hRI', .getOrInsertWithNew k2 kid2 hnone hp'⟩
      · have hne : (k == (Set.elemOf k2 kid2).k) = false := by
          simp only [Set.elemOf, beq_eq_false_iff_ne, ne_eq]; exact fun h => hkk h.symm
        have hcall : Set.call cfg env (.getOrInsertWith k k2 kid2) other w =
            .panic "notequiv"
              (World.dropElemQuiet cfg { w3 with ec := w3.ec + 1 } (Set.elemOf k2 kid2)) := by
          simp only [Set.call, Set.getOrInsertWith, hs, rf_bind_ok, hl.eq, hne, sh_wrap_panic]
        rw [hcall]
        refine ⟨by rw [dropElemQuiet_t]; exact hRI, .getOrInsertWithBad k k2 kid2 hnone hkk ?_⟩
        rw [dropElemQuiet_t]; exact hp
  · have hcall : Set.call cfg env (.getOrInsertWith k k2 kid2) other w = .panic "capacity" w' := by
      simp only [Set.call, Set.getOrInsertWith, hs, rf_bind_panic, sh_wrap_panic]
    rw [hcall]
    exact ⟨by rw [ht]; exact h, .overflow _ rfl (by rw [ht])⟩

theorem sh_insert (hc : CfgOk cfg) (hlp : SetLawfulP env H p) (k kid : Nat) (other : Raw)
    (w : World) (h : RI cfg H w.t) :
    sh_Ref cfg H p (.insert k kid) other w (Set.call cfg env (.insert k kid) other w) := by
  have hl := hlp.toLawful
  rcases insert_refines hc (growthLawful hc hc.probe) hl hlp.alloc hlp.nodropPanic
    (Set.elemOf k kid) w h with ⟨r, w', hr, hRI, hm⟩ | ⟨w', hr, ht, _⟩
  · cases hf : AL.find w.t.elems k with
    | none =>
      have hf' : AL.find w.t.elems (Set.elemOf k kid).k = none := hf
      rw [hf'] at hm
      obtain ⟨rfl, hp, _⟩ := hm
      have hcall : Set.call cfg env (.insert k kid) other w = .ok (.bool true, w') := by
        simp only [Set.call, Set.insert, hr, rf_bind_ok, rf_pure, sh_wrap_ok, Option.isNone]
      rw [hcall]
      exact ⟨hRI, .insertNew k kid hf hp⟩
    | some old =>
      have hf' : AL.find w.t.elems (Set.elemOf k kid).k = some old := hf
      rw [hf'] at hm
      obtain ⟨rfl, hp, _⟩ := hm
      have hcall : Set.call cfg env (.insert k kid) other w = .ok (.bool false, w') := by
        simp only [Set.call, Set.insert, hr, rf_bind_ok, rf_pure, sh_wrap_ok, Option.isNone]
      rw [hcall]
      exact ⟨hRI, .insertOld k kid old hf hp⟩
  · have hcall : Set.call cfg env (.insert k kid) other w = .panic "capacity" w' := by
      simp only [Set.call, Set.insert, hr, rf_bind_panic, sh_wrap_panic]
    rw [hcall]
    exact ⟨by rw [ht]; exact h, .overflow _ rfl (by rw [ht])⟩

theorem sh_remove (hc : CfgOk cfg) (hlp : SetLawfulP env H p) (k : Nat) (other : Raw)
    (w : World) (h : RI cfg H w.t) :
    sh_Ref cfg H p (.remove k) other w (Set.call cfg env (.remove k) other w) := by
  obtain ⟨w', hr, hp, hRI, _⟩ := remove_refines hc hlp.toLawful hlp.nodropPanic k w h
  have hcall : Set.call cfg env (.remove k) other w =
      .ok (.bool (AL.find w.t.elems k).isSome, w') := by
    simp only [Set.call, Set.remove, hr, rf_bind_ok, rf_pure, sh_wrap_ok, Option.isSome_map]
  rw [hcall]
  exact ⟨hRI, .remove k hp⟩

theorem sh_take (hc : CfgOk cfg) (hlp : SetLawfulP env H p) (k : Nat) (other : Raw)
    (w : World) (h : RI cfg H w.t) :
    sh_Ref cfg H p (.take k) other w (Set.call cfg env (.take k) other w) := by
  obtain ⟨w', hr, hp, hRI, _⟩ := removeEntry_refines hc hlp.toLawful k w h
  have hcall : Set.call cfg env (.take k) other w = .ok (.elem (AL.find w.t.elems k), w') := by
    simp only [Set.call, Set.take, hr, sh_wrap_ok]
  rw [hcall]
  exact ⟨hRI, .take k hp⟩

theorem sh_get (hc : CfgOk cfg) (hlp : SetLawfulP env H p) (k : Nat) (other : Raw)
    (w : World) (h : RI cfg H w.t) :
    sh_Ref cfg H p (.get k) other w (Set.call cfg env (.get k) other w) := by
  obtain ⟨w', hr, ht, _⟩ := get_refines hc hlp.toLawful k w h
  have hcall : Set.call cfg env (.get k) other w = .ok (.elem (AL.find w.t.elems k), w') := by
    simp only [Set.call, Set.get, hr, sh_wrap_ok]
  rw [hcall]
  exact ⟨by rw [ht]; exact h, .get k (by rw [ht])⟩

theorem sh_contains (hc : CfgOk cfg) (hlp : SetLawfulP env H p) (k : Nat) (other : Raw)
    (w : World) (h : RI cfg H w.t) :
    sh_Ref cfg H p (.contains k) other w (Set.call cfg env (.contains k) other w) := by
  obtain ⟨r, w', hg, ht, _, h1, h2⟩ := rf_getInner_spec hc hlp.toLawful k w h.1
  have hrs : r.isSome = (AL.find w.t.elems k).isSome := by
    cases r with
    | none => rw [elems_find_none.mpr (h2.mp rfl)]; rfl
    | some idx =>
      obtain ⟨e, he, hk⟩ := (h1 idx).mp rfl
      rw [(elems_find h.1).mpr ⟨idx, he, hk⟩]; rfl
  have hcall : Set.call cfg env (.contains k) other w =
      .ok (.bool (AL.find w.t.elems k).isSome, w') := by
    simp only [Set.call, Set.contains, hg, rf_bind_ok, rf_pure, sh_wrap_ok, hrs]
  rw [hcall]
  exact ⟨by rw [ht]; exact h, .contains k (by rw [ht])⟩

theorem sh_entryInsert (hc : CfgOk cfg) (hlp : SetLawfulP env H p) (e : Elem) (other : Raw)
    (w : World) (h : RI cfg H w.t) :
    sh_Ref cfg H p (.entryInsert e) other w (Set.call cfg env (.entryInsert e) other w) ∧
    sh_Ref cfg H p (.entryOrInsert e) other w (Set.call cfg env (.entryOrInsert e) other w) ∧
    sh_Ref cfg H p (.entryRemove e) other w (Set.call cfg env (.entryRemove e) other w) := by
  have hsp := set_entry_spec hc hlp.toLawful hlp.alloc hlp.nodropPanic e w h
  cases hf : AL.find w.t.elems e.k with
  | some x =>
    rw [hf] at hsp
    obtain ⟨⟨w1, h1, h2, ht, _⟩, ⟨w2, h3, hRI2, hp2, _⟩⟩ := hsp
    refine ⟨?_, ?_, ?_⟩
    · have hcall : Set.call cfg env (.entryInsert e) other w = .ok (.elem (some x), w1) := by
        simp only [Set.call, h1, sh_wrap_ok]
      rw [hcall]
      exact ⟨by rw [ht]; exact h, .entryInsertOld e x hf (by rw [ht])⟩
    · have hcall : Set.call cfg env (.entryOrInsert e) other w = .ok (.unit, w1) := by
        simp only [Set.call, h2, sh_wrapU_ok]
      rw [hcall]
      exact ⟨by rw [ht]; exact h, .entryOrInsertOld e x hf (by rw [ht])⟩
    · have hcall : Set.call cfg env (.entryRemove e) other w =
          .ok (.elem (AL.find w.t.elems e.k), w2) := by
        simp only [Set.call, h3, sh_wrap_ok, hf]
      rw [hcall]
      exact ⟨hRI2, .entryRemove e hp2⟩
  | none =>
    rw [hf] at hsp
    obtain ⟨hins, ⟨w2, h3, ht2, _⟩⟩ := hsp
    have hrem : sh_Ref cfg H p (.entryRemove e) other w
        (Set.call cfg env (.entryRemove e) other w) := by
      have hcall : Set.call cfg env (.entryRemove e) other w =
          .ok (.elem (AL.find w.t.elems e.k), w2) := by
        simp only [Set.call, h3, sh_wrap_ok, hf]
      rw [hcall]
      refine ⟨by rw [ht2]; exact h, .entryRemove e ?_⟩
      rw [ht2, rf_erase_absent hf]
    rcases hins with ⟨w1, h1, h2, hRI, hp, _⟩ | ⟨w1, h1, h2, ht, _⟩
    · refine ⟨?_, ?_, hrem⟩
      · have hcall : Set.call cfg env (.entryInsert e) other w = .ok (.elem (some e), w1) := by
          simp only [Set.call, h1, sh_wrap_ok]
        rw [hcall]
        exact ⟨hRI, .entryInsertNew e hf hp⟩
      · have hcall : Set.call cfg env (.entryOrInsert e) other w = .ok (.unit, w1) := by
          simp only [Set.call, h2, sh_wrapU_ok]
        rw [hcall]
        exact ⟨hRI, .entryOrInsertNew e hf hp⟩
    · refine ⟨?_, ?_, hrem⟩
      · have hcall : Set.call cfg env (.entryInsert e) other w = .panic "capacity" w1 := by
          simp only [Set.call, h1, sh_wrap_panic]
        rw [hcall]
        exact ⟨by rw [ht]; exact h, .overflow _ rfl (by rw [ht])⟩
      · have hcall : Set.call cfg env (.entryOrInsert e) other w = .panic "capacity" w1 := by
          simp only [Set.call, h2, sh_wrapU_panic]
        rw [hcall]
        exact ⟨by rw [ht]; exact h, .overflow _ rfl (by rw [ht])⟩

/-- The environment a set's `retain` runs in is lawful for the predicate `e ↦ (p e, e.v)`. -/
theorem sh_envOf_lawfulP (hlp : SetLawfulP env H p) :
    LawfulP (Set.envOf env) H (fun e => (p e, e.v)) := by
  refine ⟨⟨hlp.hash, hlp.eq⟩, fun c e => ?_, hlp.alloc, hlp.nodropPanic⟩
  obtain ⟨v, hv⟩ := hlp.pred c e
  simp only [Set.envOf, hv]

theorem sh_retain_filter (l : AL) :
    AL.retain (fun e => (p e, e.v)) l = l.filter p := by
  induction l with
  | nil => rfl
  | cons x l ih =>
    simp only [AL.retain, List.filterMap_cons, List.filter_cons] at ih ⊢
    cases hx : p x <;> simp [ih]

theorem sh_retain (hc : CfgOk cfg) (hlp : SetLawfulP env H p) (other : Raw)
    (w : World) (h : RI cfg H w.t) :
    sh_Ref cfg H p .retain other w (Set.call cfg env .retain other w) := by
  obtain ⟨w', hr, hRI, hp, _⟩ := retain_refines hc (sh_envOf_lawfulP hlp) w h
  have hcall : Set.call cfg env .retain other w = .ok (.unit, w') := by
    simp only [Set.call, Set.retain, hr, sh_wrapU_ok]
  rw [hcall]
  rw [sh_retain_filter] at hp
  exact ⟨hRI, .retain hp⟩

theorem sh_clear (hc : CfgOk cfg) (hlp : SetLawfulP env H p) (other : Raw)
    (w : World) (h : RI cfg H w.t) :
    sh_Ref cfg H p .clear other w (Set.call cfg env .clear other w) := by
  obtain ⟨w', hr, hnil, hRI, _⟩ := clear_refines hc hlp.nodropPanic w h
  have hcall : Set.call cfg env .clear other w = .ok (.unit, w') := by
    simp only [Set.call, hr, sh_wrapU_ok]
  rw [hcall]
  refine ⟨hRI, ?_⟩
  rw [hnil]
  exact .clear

theorem sh_reserve (hc : CfgOk cfg) (hlp : SetLawfulP env H p) (n : Nat) (other : Raw)
    (w : World) (h : RI cfg H w.t) :
    sh_Ref cfg H p (.reserve n) other w (Set.call cfg env (.reserve n) other w) := by
  rcases reserve_RI hc (growthLawful hc hc.probe) hlp.toLawful hlp.alloc n w h with
    ⟨w', hr, hRI, hp, _⟩ | hr
  · have hcall : Set.call cfg env (.reserve n) other w = .ok (.unit, w') := by
      simp only [Set.call, Map.reserve_eq, hr, sh_wrapU_ok]
    rw [hcall]
    exact ⟨hRI, .reserve n hp⟩
  · have hcall : Set.call cfg env (.reserve n) other w = .panic "capacity" w := by
      simp only [Set.call, Map.reserve_eq, hr, sh_wrapU_panic]
    rw [hcall]
    exact ⟨h, .overflow _ rfl (List.Perm.refl _)⟩

theorem sh_shrinkTo (hc : CfgOk cfg) (hlp : SetLawfulP env H p) (m : Nat) (other : Raw)
    (w : World) (h : RI cfg H w.t) :
    sh_Ref cfg H p (.shrinkTo m) other w (Set.call cfg env (.shrinkTo m) other w) := by
  obtain ⟨w', hr, hRI, hp, _⟩ :=
    shrinkTo_refines hc (growthLawful hc hc.probe) hlp.toLawful hlp.alloc m w h
  have hcall : Set.call cfg env (.shrinkTo m) other w = .ok (.unit, w') := by
    simp only [Set.call, hr, sh_wrapU_ok]
  rw [hcall]
  exact ⟨hRI, .shrinkTo m hp⟩

/-! ### binary calls that leave both sets alone -/

theorem sh_bool_decide {r : Bool} {P : Prop} [Decidable P] (h : r = true ↔ P) : r = decide P := by
  cases r
  · have : ¬ P := fun hp => by have := h.mpr hp; cases this
    simp [this]
  · have : P := h.mp rfl
    simp [this]

theorem sh_union_eq (hc : CfgOk cfg) {a b : Raw} (ha : Inv cfg a) (hb : Inv cfg b) :
    ss_union a b = MSet.unionSpec a.elems b.elems := by
  unfold ss_union MSet.unionSpec ss_diff
  rw [ag_items_eq_length hc ha, ag_items_eq_length hc hb]
  rfl

theorem sh_inter_eq (hc : CfgOk cfg) {a b : Raw} (ha : Inv cfg a) (hb : Inv cfg b) :
    ss_inter a b = MSet.interSpec a.elems b.elems := by
  unfold ss_inter MSet.interSpec
  rw [ag_items_eq_length hc ha, ag_items_eq_length hc hb]
  rfl

theorem sh_lazy (hc : CfgOk cfg) (hlp : SetLawfulP env H p) (other : Raw)
    (w : World) (h : RI cfg H w.t) (ho : RI cfg H other) :
    sh_Ref cfg H p .union other w (Set.call cfg env .union other w) ∧
    sh_Ref cfg H p .intersection other w (Set.call cfg env .intersection other w) ∧
    sh_Ref cfg H p .difference other w (Set.call cfg env .difference other w) ∧
    sh_Ref cfg H p .symmetricDifference other w
      (Set.call cfg env .symmetricDifference other w) := by
  have hl := hlp.toLawful
  refine ⟨?_, ?_, ?_, ?_⟩
  · obtain ⟨w', hr, ht, _⟩ := union_spec hc hc.probe hl w h.1 ho.1
    have hcall : Set.call cfg env .union other w = .ok (.elems (ss_union w.t other), w') := by
      simp only [Set.call, hr, sh_wrap_ok]
    rw [hcall]
    exact ⟨by rw [ht]; exact h,
      .union (by rw [sh_union_eq hc h.1.toInv ho.1.toInv]) (by rw [ht])⟩
  · obtain ⟨w', hr, ht, _⟩ := intersection_spec hc hc.probe hl w h.1 ho.1
    have hcall : Set.call cfg env .intersection other w =
        .ok (.elems (ss_inter w.t other), w') := by
      simp only [Set.call, hr, sh_wrap_ok]
    rw [hcall]
    exact ⟨by rw [ht]; exact h,
      .intersection (by rw [sh_inter_eq hc h.1.toInv ho.1.toInv]) (by rw [ht])⟩
  · obtain ⟨w', hr, ht, _⟩ := difference_spec hc hc.probe hl w h.1 ho.1
    have hcall : Set.call cfg env .difference other w = .ok (.elems (ss_diff w.t other), w') := by
      simp only [Set.call, hr, sh_wrap_ok]
    rw [hcall]
    exact ⟨by rw [ht]; exact h, .difference (List.Perm.refl _) (by rw [ht])⟩
  · obtain ⟨w', hr, ht, _⟩ := symmetricDifference_spec hc hc.probe hl w h.1 ho.1
    have hcall : Set.call cfg env .symmetricDifference other w =
        .ok (.elems (ss_symdiff w.t other), w') := by
      simp only [Set.call, hr, sh_wrap_ok]
    rw [hcall]
    exact ⟨by rw [ht]; exact h, .symmetricDifference (List.Perm.refl _) (by rw [ht])⟩

theorem sh_preds (hc : CfgOk cfg) (hlp : SetLawfulP env H p) (other : Raw)
    (w : World) (h : RI cfg H w.t) (ho : RI cfg H other) :
    sh_Ref cfg H p .isSubset other w (Set.call cfg env .isSubset other w) ∧
    sh_Ref cfg H p .isSuperset other w (Set.call cfg env .isSuperset other w) ∧
    sh_Ref cfg H p .isDisjoint other w (Set.call cfg env .isDisjoint other w) ∧
    sh_Ref cfg H p .eq other w (Set.call cfg env .eq other w) := by
  have hl := hlp.toLawful
  refine ⟨?_, ?_, ?_, ?_⟩
  · obtain ⟨r, w', hr, ht, _, hiff⟩ := isSubset_spec hc hc.probe hl w h.1 ho.1
    have hcall : Set.call cfg env .isSubset other w = .ok (.bool r, w') := by
      simp only [Set.call, hr, sh_wrap_ok]
    rw [hcall, sh_bool_decide hiff]
    exact ⟨by rw [ht]; exact h, .isSubset (by rw [ht])⟩
  · obtain ⟨r, w', hr, ht, _, hiff⟩ := isSuperset_spec hc hc.probe hl w h.1 ho.1
    have hcall : Set.call cfg env .isSuperset other w = .ok (.bool r, w') := by
      simp only [Set.call, hr, sh_wrap_ok]
    rw [hcall, sh_bool_decide hiff]
    exact ⟨by rw [ht]; exact h, .isSuperset (by rw [ht])⟩
  · obtain ⟨r, w', hr, ht, _, hiff⟩ := isDisjoint_spec hc hc.probe hl w h.1 ho.1
    have hcall : Set.call cfg env .isDisjoint other w = .ok (.bool r, w') := by
      simp only [Set.call, hr, sh_wrap_ok]
    rw [hcall, sh_bool_decide hiff]
    exact ⟨by rw [ht]; exact h, .isDisjoint (by rw [ht])⟩
  · obtain ⟨r, w', hr, ht, _, hiff⟩ := setEq_spec hc hc.probe hl w h.1 ho.1
    have hiff' : r = true ↔
        ((∀ k ∈ MSet.ks w.t.elems, k ∈ MSet.ks other.elems) ∧
          ∀ k ∈ MSet.ks other.elems, k ∈ MSet.ks w.t.elems) := by
      rw [hiff]
      constructor
      · intro hh; exact ⟨fun k hk => (hh k).mp hk, fun k hk => (hh k).mpr hk⟩
      · rintro ⟨h1, h2⟩ k; exact ⟨h1 k, h2 k⟩
    have hcall : Set.call cfg env .eq other w = .ok (.bool r, w') := by
      simp only [Set.call, hr, sh_wrap_ok]
    rw [hcall, sh_bool_decide hiff']
    exact ⟨by rw [ht]; exact h, .eq (by rw [ht])⟩

/-! ### `&=` and `-=`: contents from `SetSpec.lean`, plus a frame argument (bucket count kept, no
destructor panic) for `LayoutOk` -/

theorem sh_retainByLoop_frame (hnd : ∀ c e, env.dropPanics c e = false)
    (pp : Elem → World → Res (Bool × World))
    (hpp : ∀ e w, ∃ b w1, pp e w = .ok (b, w1) ∧ w1.t = w.t) :
    ∀ (fuel : Nat) (it : RawIter) (w : World) (m : Nat), w.t.mask = m →
      match Set.retainByLoop cfg env pp fuel it w with
      | .ok w' => w'.t.mask = m
      | .panic _ _ => False
      | .abort => True
      | .fault _ => True := by
  intro fuel
  induction fuel with
  | zero => intro it w m _; simp only [Set.retainByLoop]
  | succ fuel ih =>
    intro it w m hm
    rw [ss_retainByLoop_succ]
    cases hn : it.next cfg w.t with
    | error f => trivial
    | ok pr =>
      obtain ⟨o, it'⟩ := pr
      cases o with
      | none => exact hm
      | some idx =>
        simp only []
        cases hg : slotGet w.t idx with
        | error f => trivial
        | ok e =>
          obtain ⟨b, w1, hp1, ht1⟩ := hpp e w
          simp only [hp1]
          cases b with
          | true => exact ih it' w1 m (by rw [ht1]; exact hm)
          | false =>
            simp only []
            cases hr : removeAt cfg w1.t idx with
            | error f => trivial
            | ok pr2 =>
              obtain ⟨x, t2⟩ := pr2
              obtain ⟨w2, hd, ht2, _⟩ := rf_dropElem_ok (cfg := cfg) hnd x { w1 with t := t2 }
              simp only [hd, Bool.false_eq_true, if_false]
              refine ih it' w2 m ?_
              rw [ht2]
              show t2.mask = m
              rw [hs_removeAt_mask hr, ht1]; exact hm

theorem sh_retainBy_frame (hnd : ∀ c e, env.dropPanics c e = false)
    (pp : Elem → World → Res (Bool × World))
    (hpp : ∀ e w, ∃ b w1, pp e w = .ok (b, w1) ∧ w1.t = w.t) (w : World) :
    match Set.retainBy cfg env pp w with
    | .ok w' => w'.t.mask = w.t.mask
    | .panic _ _ => False
    | .abort => True
    | .fault _ => True := by
  unfold Set.retainBy
  cases RawIter.new cfg w.t with
  | error f => trivial
  | ok it => exact sh_retainByLoop_frame hnd pp hpp _ it w _ rfl

theorem sh_removeAll_frame (hc : CfgOk cfg) (hl : Lawful env H)
    (hnd : ∀ c e, env.dropPanics c e = false) :
    ∀ (xs : List Elem) (w : World), RI cfg H w.t →
      match Set.removeAllLoop cfg env xs w with
      | .ok w' => w'.t.LayoutOk cfg
      | .panic _ _ => False
      | .abort => True
      | .fault _ => True := by
  intro xs
  induction xs with
  | nil => intro w h; exact h.2
  | cons e rest ih =>
    intro w h
    obtain ⟨w', hr, _, hRI, _⟩ := remove_refines hc hl hnd e.k w h
    rw [ss_removeAllLoop_cons, hr]
    exact ih w' hRI

theorem sh_mem_perm {l1 l2 : List Elem} (h1 : l1.Nodup) (h2 : l2.Nodup)
    (h : ∀ x, x ∈ l1 ↔ x ∈ l2) : l1.Perm l2 :=
  (List.perm_ext_iff_of_nodup h1 h2).mpr h

theorem sh_bitandAssign (hc : CfgOk cfg) (hlp : SetLawfulP env H p) (other : Raw)
    (w : World) (h : RI cfg H w.t) (ho : RI cfg H other) :
    sh_Ref cfg H p .bitandAssign other w (Set.call cfg env .bitandAssign other w) := by
  have hl := hlp.toLawful
  obtain ⟨w', hinv, hor⟩ := bitandAssign_spec (env := env) hc hc.probe hl w h.1 ho.1
  have hfr := sh_retainBy_frame (cfg := cfg) (env := env) hlp.nodropPanic
    (fun e w => Set.containsIn cfg env other e.k w)
    (fun e w => by
      obtain ⟨w1, h1, h2, _⟩ := containsIn_spec hc hc.probe hl ho.1 e.k w
      exact ⟨_, w1, h1, h2⟩) w
  rcases hor with ⟨hr, hmem⟩ | hr
  · have hr' : Set.retainBy cfg env (fun e w => Set.containsIn cfg env other e.k w) w = .ok w' := hr
    rw [hr'] at hfr
    have hcall : Set.call cfg env .bitandAssign other w = .ok (.unit, w') := by
      simp only [Set.call, hr, sh_wrapU_ok]
    rw [hcall]
    refine ⟨⟨hinv, ss_layoutOk_of_mask h.1.toInv hinv.toInv hfr h.2⟩, .bitandAssign ?_⟩
    refine sh_mem_perm (ss_elems_nodup hinv) ((ss_elems_nodup h.1).filter _) (fun x => ?_)
    rw [hmem, List.mem_filter, decide_eq_true_eq]
    rfl
  · have hr' : Set.retainBy cfg env (fun e w => Set.containsIn cfg env other e.k w) w =
        .panic "drop" w' := hr
    rw [hr'] at hfr
    exact hfr.elim

theorem sh_subAssign (hc : CfgOk cfg) (hlp : SetLawfulP env H p) (other : Raw)
    (w : World) (h : RI cfg H w.t) (ho : RI cfg H other) :
    sh_Ref cfg H p .subAssign other w (Set.call cfg env .subAssign other w) := by
  have hl := hlp.toLawful
  obtain ⟨w', hinv, hor⟩ := subAssign_spec (env := env) hc hc.probe hl w h.1 ho.1
  have hfr : match Set.subAssign cfg env other w with
      | .ok w' => w'.t.mask = w.t.mask ∨ w'.t.LayoutOk cfg
      | .panic _ _ => False
      | .abort => True
      | .fault _ => True := by
    unfold Set.subAssign
    by_cases hlt : other.items < w.t.items
    · rw [if_pos hlt, elemsOf_spec hc ho.1.toInv]
      simp only []
      have := sh_removeAll_frame hc hl hlp.nodropPanic other.elems w h
      cases hx : Set.removeAllLoop cfg env other.elems w <;> rw [hx] at this
      · exact Or.inr this
      · exact this
      · trivial
      · trivial
    · rw [if_neg hlt]
      have := sh_retainBy_frame (cfg := cfg) (env := env) hlp.nodropPanic
        (fun e w => do
          let (b, w') ← Set.containsIn cfg env other e.k w
          pure (!b, w'))
        (fun e w => by
          obtain ⟨w1, h1, h2, _⟩ := containsIn_spec hc hc.probe hl ho.1 e.k w
          exact ⟨!decide (e.k ∈ keys other), w1, by simp only [h1, rf_bind_ok, rf_pure], h2⟩) w
      cases hx : Set.retainBy cfg env (fun e w => do
          let (b, w') ← Set.containsIn cfg env other e.k w
          pure (!b, w')) w <;> rw [hx] at this
      · exact Or.inl this
      · exact this
      · trivial
      · trivial
  rcases hor with ⟨hr, hmem⟩ | hr
  · rw [hr] at hfr
    have hcall : Set.call cfg env .subAssign other w = .ok (.unit, w') := by
      simp only [Set.call, hr, sh_wrapU_ok]
    rw [hcall]
    have hlay : w'.t.LayoutOk cfg := by
      rcases hfr with hm | hlay
      · exact ss_layoutOk_of_mask h.1.toInv hinv.toInv hm h.2
      · exact hlay
    refine ⟨⟨hinv, hlay⟩, .subAssign ?_⟩
    refine sh_mem_perm (ss_elems_nodup hinv) ((ss_elems_nodup h.1).filter _) (fun x => ?_)
    rw [hmem, MSet.diffSpec, List.mem_filter, decide_eq_true_eq]
    rfl
  · rw [hr] at hfr
    exact hfr.elim

/-! ### `|=`: total version of the loop (capacity overflow may stop it part-way) -/

theorem sh_bitorLoop (hc : CfgOk cfg) (hlp : SetLawfulP env H p) :
    ∀ (xs : List Elem) (w : World), RI cfg H w.t →
    ∃ w', RI cfg H w'.t ∧ (∀ x ∈ w.t.elems, x ∈ w'.t.elems) ∧
      ((Set.bitorAssignLoop cfg env xs w = .ok w' ∧
          ∀ k, k ∈ keys w'.t ↔ k ∈ keys w.t ∨ k ∈ xs.map (·.k)) ∨
        (Set.bitorAssignLoop cfg env xs w = .panic "capacity" w' ∧
          ∀ k, k ∈ keys w'.t → k ∈ keys w.t ∨ k ∈ xs.map (·.k))) := by
  have hl := hlp.toLawful
  intro xs
  induction xs with
  | nil => intro w h; exact ⟨w, h, fun _ hx => hx, Or.inl ⟨rfl, fun k => by simp⟩⟩
  | cons e rest ih =>
    intro w h
    obtain ⟨r, w1, hg, ht, _, h1, h2⟩ := rf_getInner_spec hc hl e.k w h.1
    rw [ss_bitorAssignLoop_cons, hg]
    cases r with
    | some idx =>
      obtain ⟨old, ho, hk⟩ := (h1 idx).mp rfl
      have hpres : e.k ∈ keys w.t := ss_mem_keys.mpr ⟨idx, old, ho, hk⟩
      obtain ⟨w', i1, i2, i3⟩ := ih w1 (by rw [ht]; exact h)
      rw [ht] at i2 i3
      refine ⟨w', i1, i2, ?_⟩
      simp only []
      rcases i3 with ⟨i3, i4⟩ | ⟨i3, i4⟩
      · refine Or.inl ⟨i3, fun k => ?_⟩
        rw [i4, List.map_cons, List.mem_cons]
        constructor
        · rintro (hk' | hk')
          · exact Or.inl hk'
          · exact Or.inr (Or.inr hk')
        · rintro (hk' | rfl | hk')
          · exact Or.inl hk'
          · exact Or.inl hpres
          · exact Or.inr hk'
      · refine Or.inr ⟨i3, fun k hk' => ?_⟩
        rcases i4 k hk' with h' | h'
        · exact Or.inl h'
        · exact Or.inr (List.mem_cons_of_mem _ h')
    | none =>
      have hfresh := h2.mp rfl
      obtain ⟨kid, hcl⟩ := hlp.toSetLawful.envOf_clone w1.cc e
      simp only [hcl]
      have hRI2 : RI cfg H ({ w1 with cc := w1.cc + 1 } : World).t := by
        show RI cfg H w1.t; rw [ht]; exact h
      rcases insert_refines hc (growthLawful hc hc.probe) hl hlp.alloc hlp.nodropPanic
        ({ e with kid := kid } : Elem) { w1 with cc := w1.cc + 1 } hRI2 with
        ⟨r, w3, hr, hRI3, hm⟩ | ⟨w3, hr, ht3, _⟩
      · have hfn : AL.find ({ w1 with cc := w1.cc + 1 } : World).t.elems
            ({ e with kid := kid } : Elem).k = none := by
          show AL.find w1.t.elems e.k = none; rw [ht]; exact elems_find_none.mpr hfresh
        rw [hfn] at hm
        obtain ⟨_, hp, _⟩ := hm
        have hp : List.Perm w3.t.elems ({ e with kid := kid } :: w.t.elems) := by
          have : List.Perm w3.t.elems ({ e with kid := kid } :: w1.t.elems) := hp
          rw [ht] at this; exact this
        simp only [hr]
        obtain ⟨w', i1, i2, i3⟩ := ih w3 hRI3
        have hk3 : ∀ k, k ∈ keys w3.t ↔ k = e.k ∨ k ∈ keys w.t := by
          intro k
          have := (hp.map (·.k)).mem_iff (a := k)
          simp only [keys]; rw [this, List.map_cons, List.mem_cons]
        refine ⟨w', i1, fun x hx => i2 x (hp.mem_iff.mpr (List.mem_cons_of_mem _ hx)), ?_⟩
        rcases i3 with ⟨i3, i4⟩ | ⟨i3, i4⟩
        · refine Or.inl ⟨i3, fun k => ?_⟩
          rw [i4, hk3, List.map_cons, List.mem_cons]; tauto
        · refine Or.inr ⟨i3, fun k hk' => ?_⟩
          rw [List.map_cons, List.mem_cons]
          rcases i4 k hk' with h' | h'
          · rcases (hk3 k).mp h' with h'' | h''
            · exact Or.inr (Or.inl h'')
            · exact Or.inl h''
          · exact Or.inr (Or.inr h')
      · simp only [hr]
        refine ⟨w3, by rw [ht3]; exact hRI2, ?_, Or.inr ⟨rfl, ?_⟩⟩
        · intro x hx; rw [ht3]; show x ∈ w1.t.elems; rw [ht]; exact hx
        · intro k hk'
          rw [ht3] at hk'
          left
          have : k ∈ keys w1.t := hk'
          rw [ht] at this; exact this

theorem sh_bitorAssign (hc : CfgOk cfg) (hlp : SetLawfulP env H p) (other : Raw)
    (w : World) (h : RI cfg H w.t) (ho : RI cfg H other) :
    sh_Ref cfg H p .bitorAssign other w (Set.call cfg env .bitorAssign other w) := by
  obtain ⟨w', hRI, hsub, hor⟩ := sh_bitorLoop hc hlp other.elems w h
  have hun : Set.bitorAssign cfg env other w = Set.bitorAssignLoop cfg env other.elems w := by
    unfold Set.bitorAssign; rw [elemsOf_spec hc ho.1.toInv]
  rcases hor with ⟨hr, hk⟩ | ⟨hr, hk⟩
  · have hcall : Set.call cfg env .bitorAssign other w = .ok (.unit, w') := by
      simp only [Set.call, hun, hr, sh_wrapU_ok]
    rw [hcall]
    exact ⟨hRI, .bitorAssign hsub (elems_keysNodup hRI.1) hk⟩
  · have hcall : Set.call cfg env .bitorAssign other w = .panic "capacity" w' := by
      simp only [Set.call, hun, hr, sh_wrapU_panic]
    rw [hcall]
    exact ⟨hRI, .bitorOverflow hsub (elems_keysNodup hRI.1) hk⟩

/-! ### `^=`: total version of the loop -/

theorem sh_mem_erase {l : AL} {k : Nat} {x : Elem} : x ∈ AL.erase l k ↔ x ∈ l ∧ x.k ≠ k := by
  simp [AL.erase, List.mem_filter]

theorem sh_keys_erase {t t0 : Raw} {k0 : Nat} (hp : List.Perm t.elems (AL.erase t0.elems k0))
    (k : Nat) : k ∈ keys t ↔ k ∈ keys t0 ∧ k ≠ k0 := by
  simp only [keys, List.mem_map, hp.mem_iff, sh_mem_erase]
  constructor
  · rintro ⟨x, ⟨hx, hne⟩, rfl⟩; exact ⟨⟨x, hx, rfl⟩, hne⟩
  · rintro ⟨⟨x, hx, rfl⟩, hne⟩; exact ⟨x, ⟨hx, hne⟩, rfl⟩

theorem sh_keys_cons {t t0 : Raw} {e : Elem} (hp : List.Perm t.elems (e :: t0.elems))
    (k : Nat) : k ∈ keys t ↔ k = e.k ∨ k ∈ keys t0 := by
  have := (hp.map (·.k)).mem_iff (a := k)
  simp only [keys]; rw [this, List.map_cons, List.mem_cons]

theorem sh_bitxorLoop (hc : CfgOk cfg) (hlp : SetLawfulP env H p) :
    ∀ (xs : List Elem) (w : World), RI cfg H w.t → (xs.map (·.k)).Nodup →
    ∃ w', RI cfg H w'.t ∧ (∀ x ∈ w.t.elems, x.k ∉ xs.map (·.k) → x ∈ w'.t.elems) ∧
      ((Set.bitxorAssignLoop cfg env xs w = .ok w' ∧
          ∀ k, k ∈ keys w'.t ↔
            (k ∈ keys w.t ∧ k ∉ xs.map (·.k)) ∨ (k ∉ keys w.t ∧ k ∈ xs.map (·.k))) ∨
        (Set.bitxorAssignLoop cfg env xs w = .panic "capacity" w' ∧
          ∀ k, k ∈ keys w'.t → k ∈ keys w.t ∨ k ∈ xs.map (·.k))) := by
  have hl := hlp.toLawful
  intro xs
  induction xs with
  | nil =>
    intro w h _
    exact ⟨w, h, fun _ hx _ => hx, Or.inl ⟨rfl, fun k => by simp⟩⟩
  | cons e rest ih =>
    intro w h hnd
    rw [List.map_cons, List.nodup_cons] at hnd
    obtain ⟨hne, hnd'⟩ := hnd
    rw [ss_bitxorAssignLoop_cons]
    rcases sh_search hc hl hlp.alloc e.k none w h with
      ⟨r, w3, hs, hRI, hp, hgl, h1, h2⟩ | ⟨w', hs, ht⟩
    · rw [hs]
      cases r with
      | ok idx =>
        obtain ⟨old, hold, hk⟩ := (h1 idx).mp rfl
        have hpres : e.k ∈ keys w.t := by
          have : e.k ∈ keys w3.t := ss_mem_keys.mpr ⟨idx, old, hold, hk⟩
          simp only [keys] at this ⊢
          exact ((hp.map (·.k)).mem_iff).mp this
        obtain ⟨t', hr, hRI', hp', _⟩ := en_removeAt_RI hc hRI hold
        obtain ⟨w4, hd, ht4, _⟩ := rf_dropElem_ok (cfg := cfg) hlp.nodropPanic old { w3 with t := t' }
        simp only [hr, hd, Bool.false_eq_true, if_false]
        have hp4 : List.Perm w4.t.elems (AL.erase w.t.elems e.k) := by
          rw [ht4]; show List.Perm t'.elems _
          rw [hk] at hp'
          exact hp'.trans (AL.perm_erase hp e.k)
        obtain ⟨w', i1, i2, i3⟩ := ih w4 (by rw [ht4]; exact hRI') hnd'
        have hkE := sh_keys_erase hp4
        refine ⟨w', i1, ?_, ?_⟩
        · intro x hx hxk
          rw [List.map_cons, List.mem_cons, not_or] at hxk
          exact i2 x (hp4.mem_iff.mpr (sh_mem_erase.mpr ⟨hx, hxk.1⟩)) hxk.2
        · rcases i3 with ⟨i3, i4⟩ | ⟨i3, i4⟩
          · refine Or.inl ⟨i3, fun k => ?_⟩
            rw [i4, hkE, List.map_cons, List.mem_cons]
            by_cases hke : k = e.k
            · subst hke; tauto
            · tauto
          · refine Or.inr ⟨i3, fun k hk' => ?_⟩
            rw [List.map_cons, List.mem_cons]
            rcases i4 k hk' with h' | h'
            · exact Or.inl ((hkE k).mp h').1
            · exact Or.inr (Or.inr h')
      | error slot =>
        obtain ⟨hfis, hfresh⟩ := (h2 slot).mp rfl
        have habs : e.k ∉ keys w.t := by
          intro hin
          have : e.k ∈ keys w3.t := by
            simp only [keys] at hin ⊢
            exact ((hp.map (·.k)).mem_iff).mpr hin
          obtain ⟨i, x, hx, hxk⟩ := ss_mem_keys.mp this
          exact hfresh i x hx hxk
        obtain ⟨kid, hcl⟩ := hlp.toSetLawful.envOf_clone w3.cc e
        have hfis' : findInsertSlot cfg ({ w3 with cc := w3.cc + 1 } : World).t
            (H ({ e with kid := kid } : Elem).k) = .ok slot := hfis
        obtain ⟨t', hins, hRI', hp'⟩ := sh_insert_fresh (w := w) (w3 := { w3 with cc := w3.cc + 1 })
          hc ({ e with kid := kid } : Elem) hRI hp hgl hfis' hfresh
        have hins' : insertInSlot cfg w3.t (H e.k) slot { e with kid := kid } = .ok t' := hins
        simp only [hcl, hins']
        obtain ⟨w', i1, i2, i3⟩ := ih { w3 with cc := w3.cc + 1, t := t' } hRI' hnd'
        have hkI : ∀ k, k ∈ keys t' ↔ k = e.k ∨ k ∈ keys w.t :=
          fun k => sh_keys_cons (e := ({ e with kid := kid } : Elem)) hp' k
        refine ⟨w', i1, ?_, ?_⟩
        · intro x hx hxk
          rw [List.map_cons, List.mem_cons, not_or] at hxk
          exact i2 x (hp'.mem_iff.mpr (List.mem_cons_of_mem _ hx)) hxk.2
        · rcases i3 with ⟨i3, i4⟩ | ⟨i3, i4⟩
          · refine Or.inl ⟨i3, fun k => ?_⟩
            rw [i4]
            show (k ∈ keys t' ∧ _) ∨ (k ∉ keys t' ∧ _) ↔ _
            rw [hkI, List.map_cons, List.mem_cons]
            by_cases hke : k = e.k
            · subst hke; tauto
            · tauto
          · refine Or.inr ⟨i3, fun k hk' => ?_⟩
            rw [List.map_cons, List.mem_cons]
            rcases i4 k hk' with h' | h'
            · rcases (hkI k).mp h' with h'' | h''
              · exact Or.inr (Or.inl h'')
              · exact Or.inl h''
            · exact Or.inr (Or.inr h')
    · rw [hs]
      refine ⟨w', by rw [ht]; exact h, fun x hx _ => by rw [ht]; exact hx, Or.inr ⟨rfl, ?_⟩⟩
      intro k hk'; rw [ht] at hk'; exact Or.inl hk'

theorem sh_bitxorAssign (hc : CfgOk cfg) (hlp : SetLawfulP env H p) (other : Raw)
    (w : World) (h : RI cfg H w.t) (ho : RI cfg H other) :
    sh_Ref cfg H p .bitxorAssign other w (Set.call cfg env .bitxorAssign other w) := by
  obtain ⟨w', hRI, hkeep, hor⟩ := sh_bitxorLoop hc hlp other.elems w h (ss_keys_nodup ho.1)
  have hun : Set.bitxorAssign cfg env other w = Set.bitxorAssignLoop cfg env other.elems w := by
    unfold Set.bitxorAssign; rw [elemsOf_spec hc ho.1.toInv]
  rcases hor with ⟨hr, hk⟩ | ⟨hr, hk⟩
  · have hcall : Set.call cfg env .bitxorAssign other w = .ok (.unit, w') := by
      simp only [Set.call, hun, hr, sh_wrapU_ok]
    rw [hcall]
    exact ⟨hRI, .bitxorAssign hkeep (elems_keysNodup hRI.1) hk⟩
  · have hcall : Set.call cfg env .bitxorAssign other w = .panic "capacity" w' := by
      simp only [Set.call, hun, hr, sh_wrapU_panic]
    rw [hcall]
    exact ⟨hRI, .bitxorOverflow hkeep (elems_keysNodup hRI.1) hk⟩

/-! ## 3. one call, whole histories -/

/-- **One call `target.op(other)` refines the reference** (each theorem of `Hb/Props/C07.lean` is one
    case): never `fault`/`abort`; what it returns (or the class of its panic) and the target set
    afterwards are a reference outcome; the target satisfies `RI` again. -/
theorem call_refines (hc : CfgOk cfg) (hlp : SetLawfulP env H p) (op : SetOp) (other : Raw)
    (w : World) (h : RI cfg H w.t) (ho : RI cfg H other) :
    sh_Ref cfg H p op other w (Set.call cfg env op other w) := by
  cases op with
  | insert k kid => exact sh_insert hc hlp k kid other w h
  | remove k => exact sh_remove hc hlp k other w h
  | take k => exact sh_take hc hlp k other w h
  | replace e => exact sh_replace hc hlp e other w h
  | getOrInsert e => exact sh_getOrInsert hc hlp e other w h
  | getOrInsertWith k k2 kid2 => exact sh_getOrInsertWith hc hlp k k2 kid2 other w h
  | contains k => exact sh_contains hc hlp k other w h
  | get k => exact sh_get hc hlp k other w h
  | entryInsert e => exact (sh_entryInsert hc hlp e other w h).1
  | entryOrInsert e => exact (sh_entryInsert hc hlp e other w h).2.1
  | entryRemove e => exact (sh_entryInsert hc hlp e other w h).2.2
  | retain => exact sh_retain hc hlp other w h
  | clear => exact sh_clear hc hlp other w h
  | reserve n => exact sh_reserve hc hlp n other w h
  | shrinkTo m => exact sh_shrinkTo hc hlp m other w h
  | union => exact (sh_lazy hc hlp other w h ho).1
  | intersection => exact (sh_lazy hc hlp other w h ho).2.1
  | difference => exact (sh_lazy hc hlp other w h ho).2.2.1
  | symmetricDifference => exact (sh_lazy hc hlp other w h ho).2.2.2
  | isSubset => exact (sh_preds hc hlp other w h ho).1
  | isSuperset => exact (sh_preds hc hlp other w h ho).2.1
  | isDisjoint => exact (sh_preds hc hlp other w h ho).2.2.1
  | eq => exact (sh_preds hc hlp other w h ho).2.2.2
  | bitorAssign => exact sh_bitorAssign hc hlp other w h ho
  | bitandAssign => exact sh_bitandAssign hc hlp other w h ho
  | bitxorAssign => exact sh_bitxorAssign hc hlp other w h ho
  | subAssign => exact sh_subAssign hc hlp other w h ho

/-- What the client observes of one call on a pair, and the pair afterwards (`none` = `fault` or
    `abort`). -/
def Set.Out2.observe : Set.Out2 → Option (Map.Obs × Set.Pair)
  | .ret r s => some (.ret r, s)
  | .panic c s => some (.panic c, s)
  | .abort => none
  | .fault _ => none

/-- The abstract pair: the stored objects of both sets in bucket order. -/
def Set.Pair.abs (s : Set.Pair) : AL × AL := (s.a.elems, s.b.elems)

/-- Both sets of a pair satisfy the hash-dependent invariant and have a computable block layout:
    exactly the hypotheses on tables of the theorems in `Hb/Props/C07.lean`. -/
structure PairOk (cfg : Cfg) (H : Nat → Nat) (s : Set.Pair) : Prop where
  invA : InvL cfg H s.a
  layA : s.a.LayoutOk cfg
  invB : InvL cfg H s.b
  layB : s.b.LayoutOk cfg

/-- **One call of a set history refines the reference**, from ANY pair of tables satisfying `InvL`
    (+ `LayoutOk`): the call returns what the reference returns (or panics with the class the
    reference allows), both sets satisfy `InvL` / `LayoutOk` afterwards, and their contents are the
    reference's. -/
theorem set_step_refines (hc : CfgOk cfg) (hlp : SetLawfulP env H p) (c : SetCall) (s : Set.Pair)
    (hs : PairOk cfg H s) :
    ∃ o s', (Set.step2 cfg env c s).observe = some (o, s') ∧ MSet.Step p c s.abs o s'.abs ∧
      PairOk cfg H s' := by
  obtain ⟨side, op⟩ := c
  cases side with
  | a =>
    have hr := call_refines hc hlp op s.b s.w ⟨hs.invA, hs.layA⟩ ⟨hs.invB, hs.layB⟩
    have hst : Set.step2 cfg env ⟨.a, op⟩ s =
        match Set.call cfg env op s.b s.w with
        | .ok (r, w') => .ret r { w := w', b := s.b }
        | .panic cls w' => .panic cls { w := w', b := s.b }
        | .abort => .abort
        | .fault f => .fault f := rfl
    rw [hst]
    cases hcall : Set.call cfg env op s.b s.w with
    | ok pr =>
      obtain ⟨r, w'⟩ := pr
      rw [hcall] at hr
      exact ⟨.ret r, _, rfl, ⟨hr.2, rfl⟩, ⟨hr.1.1, hr.1.2, hs.invB, hs.layB⟩⟩
    | panic cls w' =>
      rw [hcall] at hr
      exact ⟨.panic cls, _, rfl, ⟨hr.2, rfl⟩, ⟨hr.1.1, hr.1.2, hs.invB, hs.layB⟩⟩
    | abort => rw [hcall] at hr; exact hr.elim
    | fault f => rw [hcall] at hr; exact hr.elim
  | b =>
    have hr := call_refines hc hlp op s.w.t { s.w with t := s.b } ⟨hs.invB, hs.layB⟩
      ⟨hs.invA, hs.layA⟩
    have hst : Set.step2 cfg env ⟨.b, op⟩ s =
        match Set.call cfg env op s.w.t { s.w with t := s.b } with
        | .ok (r, w') => .ret r { w := { w' with t := s.w.t }, b := w'.t }
        | .panic cls w' => .panic cls { w := { w' with t := s.w.t }, b := w'.t }
        | .abort => .abort
        | .fault f => .fault f := rfl
    rw [hst]
    cases hcall : Set.call cfg env op s.w.t { s.w with t := s.b } with
    | ok pr =>
      obtain ⟨r, w'⟩ := pr
      rw [hcall] at hr
      exact ⟨.ret r, _, rfl, ⟨hr.2, rfl⟩, ⟨hs.invA, hs.layA, hr.1.1, hr.1.2⟩⟩
    | panic cls w' =>
      rw [hcall] at hr
      exact ⟨.panic cls, _, rfl, ⟨hr.2, rfl⟩, ⟨hs.invA, hs.layA, hr.1.1, hr.1.2⟩⟩
    | abort => rw [hcall] at hr; exact hr.elim
    | fault f => rw [hcall] at hr; exact hr.elim

/-- Histories from any good pair. -/
theorem set_history_refines_from (hc : CfgOk cfg) (hlp : SetLawfulP env H p) :
    ∀ (cs : List SetCall) (s : Set.Pair), PairOk cfg H s →
      ∃ os sf, Set.run2 cfg env cs s = some (os, sf) ∧ MSet.Trace p cs s.abs os sf.abs ∧
        PairOk cfg H sf := by
  intro cs
  induction cs with
  | nil => intro s hs; exact ⟨[], s, rfl, .nil _, hs⟩
  | cons c cs ih =>
    intro s hs
    obtain ⟨o, s', hobs, hstep, hs'⟩ := set_step_refines hc hlp c s hs
    obtain ⟨os, sf, hrun, htr, hsf⟩ := ih s' hs'
    refine ⟨o :: os, sf, ?_, .cons hstep htr, hsf⟩
    cases hst : Set.step2 cfg env c s with
    | ret r s1 =>
      rw [hst] at hobs
      simp only [Set.Out2.observe, Option.some.injEq, Prod.mk.injEq] at hobs
      obtain ⟨rfl, rfl⟩ := hobs
      simp only [Set.run2, hst, hrun, Option.map_some]
    | panic cls s1 =>
      rw [hst] at hobs
      simp only [Set.Out2.observe, Option.some.injEq, Prod.mk.injEq] at hobs
      obtain ⟨rfl, rfl⟩ := hobs
      simp only [Set.run2, hst, hrun, Option.map_some]
    | abort => rw [hst] at hobs; cases hobs
    | fault f => rw [hst] at hobs; cases hobs

theorem PairOk.new (hc : CfgOk cfg) (H : Nat → Nat) {s0 : Set.Pair} (ha : s0.a = Raw.new cfg.W)
    (hb : s0.b = Raw.new cfg.W) : PairOk cfg H s0 := by
  have := RI_new hc H
  exact ⟨by rw [ha]; exact this.1, by rw [ha]; exact this.2, by rw [hb]; exact this.1,
    by rw [hb]; exact this.2⟩

/-- **Every history of set calls on `(HashSet::new(), HashSet::new())`** (any interleaving of calls
    on either set, binary calls in both directions), for every lawful environment (any hash
    function `H`): never faults or aborts; the observations (returns or panic classes) are, call by
    call, those of a reference trace on mathematical sets; the final contents of both tables are
    exactly the reference's final pair, both duplicate-free in keys; both tables satisfy `InvL` and
    `LayoutOk`. The world `s0.w` may start with any counters and log. -/
theorem set_history_refines (hc : CfgOk cfg) (hlp : SetLawfulP env H p) (cs : List SetCall)
    (s0 : Set.Pair) (ha : s0.a = Raw.new cfg.W) (hb : s0.b = Raw.new cfg.W) :
    ∃ os sf, Set.run2 cfg env cs s0 = some (os, sf) ∧
      MSet.Trace p cs ([], []) os (sf.a.elems, sf.b.elems) ∧
      (MSet.ks sf.a.elems).Nodup ∧ (MSet.ks sf.b.elems).Nodup ∧
      InvL cfg H sf.a ∧ sf.a.LayoutOk cfg ∧ InvL cfg H sf.b ∧ sf.b.LayoutOk cfg := by
  obtain ⟨os, sf, hrun, htr, hsf⟩ := set_history_refines_from hc hlp cs s0 (PairOk.new hc H ha hb)
  refine ⟨os, sf, hrun, ?_, ss_keys_nodup hsf.invA, ss_keys_nodup hsf.invB, hsf.invA, hsf.layA,
    hsf.invB, hsf.layB⟩
  have h0 : s0.abs = ([], []) := by
    simp only [Set.Pair.abs, ha, hb]
    rfl
  rw [← h0]
  exact htr

/-- **Any reachable pair satisfies the hypotheses of every theorem in `Hb/Props/C07.lean`**: whatever
    history built the two sets (any capacities, tombstones, growth, any hash function), the run
    does not fault or abort and both final tables satisfy `InvL cfg H` and `LayoutOk cfg`. -/
theorem reachable_pairs_satisfy_C07 (hc : CfgOk cfg) (hlp : SetLawfulP env H p)
    (cs : List SetCall) (s0 : Set.Pair) (ha : s0.a = Raw.new cfg.W) (hb : s0.b = Raw.new cfg.W) :
    ∃ os sf, Set.run2 cfg env cs s0 = some (os, sf) ∧ PairOk cfg H sf := by
  obtain ⟨os, sf, hrun, _, hsf⟩ := set_history_refines_from hc hlp cs s0 (PairOk.new hc H ha hb)
  exact ⟨os, sf, hrun, hsf⟩

/-- The theorems of `Hb/Props/C07.lean` at the final pair of ANY history, in both directions
    (`x.op(&y)` and `y.op(&x)`): the lazy set algebra yields the mathematical result without
    duplicates and the predicates answer mathematically, from any world `w` (any counters / log).
    (The remaining theorems of that file have the same table hypotheses `InvL` + `LayoutOk`, see
    `reachable_pairs_satisfy_C07`.) -/
theorem C07_on_reachable_pairs (hc : CfgOk cfg) (hlp : SetLawfulP env H p)
    (cs : List SetCall) (s0 : Set.Pair) (ha : s0.a = Raw.new cfg.W) (hb : s0.b = Raw.new cfg.W) :
    ∃ os sf, Set.run2 cfg env cs s0 = some (os, sf) ∧
      ∀ (x y : Raw), (x = sf.a ∧ y = sf.b) ∨ (x = sf.b ∧ y = sf.a) → ∀ w : World,
        (∃ ys w', Set.union cfg env y { w with t := x } = .ok (ys, w') ∧ w'.t = x ∧
          (ys.map (·.k)).Nodup ∧ ∀ k, k ∈ ys.map (·.k) ↔ k ∈ keys x ∨ k ∈ keys y) ∧
        (∃ ys w', Set.intersection cfg env y { w with t := x } = .ok (ys, w') ∧ w'.t = x ∧
          (ys.map (·.k)).Nodup ∧ ∀ k, k ∈ ys.map (·.k) ↔ k ∈ keys x ∧ k ∈ keys y) ∧
        (∃ ys w', Set.difference cfg env y { w with t := x } = .ok (ys, w') ∧ w'.t = x ∧
          (ys.map (·.k)).Nodup ∧ ∀ k, k ∈ ys.map (·.k) ↔ k ∈ keys x ∧ k ∉ keys y) ∧
        (∃ ys w', Set.symmetricDifference cfg env y { w with t := x } = .ok (ys, w') ∧ w'.t = x ∧
          (ys.map (·.k)).Nodup ∧
          ∀ k, k ∈ ys.map (·.k) ↔ (k ∈ keys x ∧ k ∉ keys y) ∨ (k ∈ keys y ∧ k ∉ keys x)) ∧
        (∃ r w', Set.isSubset cfg env y { w with t := x } = .ok (r, w') ∧ w'.t = x ∧
          (r = true ↔ ∀ k ∈ keys x, k ∈ keys y)) ∧
        (∃ r w', Set.isSuperset cfg env y { w with t := x } = .ok (r, w') ∧ w'.t = x ∧
          (r = true ↔ ∀ k ∈ keys y, k ∈ keys x)) ∧
        (∃ r w', Set.isDisjoint cfg env y { w with t := x } = .ok (r, w') ∧ w'.t = x ∧
          (r = true ↔ ∀ k ∈ keys x, k ∉ keys y)) ∧
        (∃ r w', Set.setEq cfg env y { w with t := x } = .ok (r, w') ∧ w'.t = x ∧
          (r = true ↔ ∀ k, k ∈ keys x ↔ k ∈ keys y)) := by
  obtain ⟨os, sf, hrun, hsf⟩ := reachable_pairs_satisfy_C07 hc hlp cs s0 ha hb
  refine ⟨os, sf, hrun, ?_⟩
  have hl := hlp.toLawful
  have key : ∀ (x y : Raw), InvL cfg H x → InvL cfg H y → ∀ w : World, _ := fun x y hx hy w =>
    And.intro (C07.union_exact hc hl hx hy w) (And.intro (C07.intersection_exact hc hl hx hy w)
      (And.intro (C07.difference_exact hc hl hx hy w)
        (And.intro (C07.symmetricDifference_exact hc hl hx hy w)
          (And.intro (C07.is_subset_exact hc hl hx hy w)
            (And.intro (C07.is_superset_exact hc hl hx hy w)
              (And.intro (C07.is_disjoint_exact hc hl hx hy w) (C07.eq_exact hc hl hx hy w)))))))
  intro x y hxy w
  have hx : InvL cfg H x := by rcases hxy with ⟨rfl, _⟩ | ⟨rfl, _⟩; exact hsf.invA; exact hsf.invB
  have hy : InvL cfg H y := by rcases hxy with ⟨_, rfl⟩ | ⟨_, rfl⟩; exact hsf.invB; exact hsf.invA
  obtain ⟨⟨ys1, w1, a1, a2, _, _, a3, a4⟩, ⟨ys2, w2, b1, b2, _, _, _, b3, b4⟩,
    ⟨ys3, w3, c1, c2, _, c3, c4⟩, ⟨ys4, w4, d1, d2, _, d3, d4⟩, e1, e2, e3, e4⟩ := key x y hx hy w
  exact ⟨⟨ys1, w1, a1, a2, a3, a4⟩, ⟨ys2, w2, b1, b2, b3, b4⟩, ⟨ys3, w3, c1, c2, c3, c4⟩,
    ⟨ys4, w4, d1, d2, d3, d4⟩, e1, e2, e3, e4⟩

/-- "Any two histories": build set `a` by any single-set history `ha` and set `b` by any `hb` (each
    may also use binary calls against the other set as it is at that moment); the resulting pair
    satisfies the hypotheses of every theorem of C07.lean. Special case of
    `reachable_pairs_satisfy_C07`. -/
theorem two_histories_satisfy_C07 (hc : CfgOk cfg) (hlp : SetLawfulP env H p)
    (opsA opsB : List SetOp) :
    ∃ os sf, Set.run2 cfg env (opsA.map (fun o => ⟨.a, o⟩) ++ opsB.map (fun o => ⟨.b, o⟩))
        (Set.Pair.new cfg) = some (os, sf) ∧ PairOk cfg H sf :=
  reachable_pairs_satisfy_C07 hc hlp _ _ rfl rfl

/-! ## 4. the reference is the mathematical one -/

namespace MSet

theorem mem_ks {l : AL} {k : Nat} : k ∈ ks l ↔ ∃ e ∈ l, e.k = k := by
  simp [ks]

theorem ks_filter (l : AL) (q : Nat → Bool) :
    ks (l.filter fun e => q e.k) = (ks l).filter q := ss_map_filter_k l q

theorem mem_ks_diffSpec {T O : AL} {k : Nat} : k ∈ ks (diffSpec T O) ↔ k ∈ ks T ∧ k ∉ ks O := by
  unfold diffSpec
  rw [ks_filter T (fun k => decide (k ∉ ks O)), List.mem_filter, decide_eq_true_eq]

theorem diffSpec_nodup {T : AL} (hT : T.keysNodup) (O : AL) : (ks (diffSpec T O)).Nodup := by
  unfold diffSpec
  rw [ks_filter T (fun k => decide (k ∉ ks O))]
  exact hT.filter _

theorem mem_ks_unionSpec {T O : AL} {k : Nat} : k ∈ ks (unionSpec T O) ↔ k ∈ ks T ∨ k ∈ ks O := by
  unfold unionSpec
  split
  · rw [ks, List.map_append, List.mem_append]
    show k ∈ ks O ∨ k ∈ ks (diffSpec T O) ↔ _
    rw [mem_ks_diffSpec]; tauto
  · rw [ks, List.map_append, List.mem_append]
    show k ∈ ks T ∨ k ∈ ks (diffSpec O T) ↔ _
    rw [mem_ks_diffSpec]; tauto

theorem unionSpec_nodup {T O : AL} (hT : T.keysNodup) (hO : O.keysNodup) :
    (ks (unionSpec T O)).Nodup := by
  unfold unionSpec
  split
  · rw [ks, List.map_append]
    refine List.Nodup.append hO (diffSpec_nodup hT O) ?_
    intro k hk hk'
    exact (mem_ks_diffSpec.mp hk').2 hk
  · rw [ks, List.map_append]
    refine List.Nodup.append hT (diffSpec_nodup hO T) ?_
    intro k hk hk'
    exact (mem_ks_diffSpec.mp hk').2 hk


theorem mem_ks_interSpec {T O : AL} {k : Nat} : k ∈ ks (interSpec T O) ↔ k ∈ ks T ∧ k ∈ ks O := by
  unfold interSpec
  split
  · rw [ks_filter T (fun k => decide (k ∈ ks O)), List.mem_filter, decide_eq_true_eq]
  · rw [ks_filter O (fun k => decide (k ∈ ks T)), List.mem_filter, decide_eq_true_eq]; tauto

theorem interSpec_nodup {T O : AL} (hT : T.keysNodup) (hO : O.keysNodup) :
    (ks (interSpec T O)).Nodup := by
  unfold interSpec
  split
  · rw [ks_filter T (fun k => decide (k ∈ ks O))]; exact hT.filter _
  · rw [ks_filter O (fun k => decide (k ∈ ks T))]; exact hO.filter _

theorem mem_ks_symSpec {T O : AL} {k : Nat} :
    k ∈ ks (symSpec T O) ↔ (k ∈ ks T ∧ k ∉ ks O) ∨ (k ∈ ks O ∧ k ∉ ks T) := by
  unfold symSpec
  rw [ks, List.map_append, List.mem_append]
  show k ∈ ks (diffSpec T O) ∨ k ∈ ks (diffSpec O T) ↔ _
  rw [mem_ks_diffSpec, mem_ks_diffSpec]

theorem symSpec_nodup {T O : AL} (hT : T.keysNodup) (hO : O.keysNodup) :
    (ks (symSpec T O)).Nodup := by
  unfold symSpec
  rw [ks, List.map_append]
  refine List.Nodup.append (diffSpec_nodup hT O) (diffSpec_nodup hO T) ?_
  intro k hk hk'
  exact (mem_ks_diffSpec.mp hk').2 (mem_ks_diffSpec.mp hk).1

theorem ks_perm {l l' : AL} (hp : l.Perm l') (k : Nat) : k ∈ ks l ↔ k ∈ ks l' :=
  (hp.map (·.k)).mem_iff

theorem find_some_mem {T : AL} {k : Nat} {e : Elem} (h : T.find k = some e) : e ∈ T ∧ e.k = k := by
  unfold AL.find at h
  exact ⟨List.mem_of_find?_eq_some h, by simpa using List.find?_some h⟩

theorem find_some_ks {T : AL} {k : Nat} {e : Elem} (h : T.find k = some e) : k ∈ ks T :=
  mem_ks.mpr ⟨e, find_some_mem h⟩

theorem find_none_ks {T : AL} {k : Nat} (h : T.find k = none) : k ∉ ks T := by
  intro hk
  obtain ⟨e, he, hek⟩ := mem_ks.mp hk
  exact AL.find_none_iff.mp h e he hek

theorem find_isSome (T : AL) (k : Nat) : (T.find k).isSome = decide (k ∈ ks T) := by
  cases h : T.find k with
  | none => simp [find_none_ks h]
  | some e => simp [find_some_ks h]

theorem mem_ks_erase {T : AL} {k0 k : Nat} : k ∈ ks (T.erase k0) ↔ k ∈ ks T ∧ k ≠ k0 := by
  simp only [mem_ks, sh_mem_erase]
  constructor
  · rintro ⟨e, ⟨he, hne⟩, rfl⟩; exact ⟨⟨e, he, rfl⟩, hne⟩
  · rintro ⟨⟨e, he, rfl⟩, hne⟩; exact ⟨e, ⟨he, hne⟩, rfl⟩

theorem mem_ks_cons {T : AL} {e : Elem} {k : Nat} : k ∈ ks (e :: T) ↔ k = e.k ∨ k ∈ ks T := by
  rw [ks, List.map_cons, List.mem_cons]; rfl

theorem ks_setVal (T : AL) (k0 vid v : Nat) : ks (T.setVal k0 vid v) = ks T := AL.setVal_keys T k0 vid v

/-- Set elements carry the unit payload: rewriting it changes nothing. -/
theorem setVal_unit {T : AL} (h : ∀ x ∈ T, x.vid = 0 ∧ x.v = 0) (k : Nat) : T.setVal k 0 0 = T := by
  unfold AL.setVal
  conv => rhs; rw [← List.map_id T]
  apply List.map_congr_left
  intro x hx
  obtain ⟨h1, h2⟩ := h x hx
  split
  · cases x; simp_all
  · rfl


/-- The key set of the target after call `op` returned normally, as a mathematical set
    (membership predicate). -/
def memAfter (p : Elem → Bool) : SetOp → AL → AL → Nat → Prop
  | .insert k0 _, T, _, k => k = k0 ∨ k ∈ ks T
  | .remove k0, T, _, k => k ∈ ks T ∧ k ≠ k0
  | .take k0, T, _, k => k ∈ ks T ∧ k ≠ k0
  | .replace e, T, _, k => k = e.k ∨ k ∈ ks T
  | .getOrInsert e, T, _, k => k = e.k ∨ k ∈ ks T
  | .getOrInsertWith k0 _ _, T, _, k => k = k0 ∨ k ∈ ks T
  | .entryInsert e, T, _, k => k = e.k ∨ k ∈ ks T
  | .entryOrInsert e, T, _, k => k = e.k ∨ k ∈ ks T
  | .entryRemove e, T, _, k => k ∈ ks T ∧ k ≠ e.k
  | .retain, T, _, k => k ∈ ks (T.filter p)
  | .clear, _, _, _ => False
  | .bitorAssign, T, O, k => k ∈ ks T ∨ k ∈ ks O
  | .bitandAssign, T, O, k => k ∈ ks T ∧ k ∈ ks O
  | .subAssign, T, O, k => k ∈ ks T ∧ k ∉ ks O
  | .bitxorAssign, T, O, k => (k ∈ ks T ∧ k ∉ ks O) ∨ (k ∉ ks T ∧ k ∈ ks O)
  | .contains _, T, _, k => k ∈ ks T
  | .get _, T, _, k => k ∈ ks T
  | .reserve _, T, _, k => k ∈ ks T
  | .shrinkTo _, T, _, k => k ∈ ks T
  | .union, T, _, k => k ∈ ks T
  | .intersection, T, _, k => k ∈ ks T
  | .difference, T, _, k => k ∈ ks T
  | .symmetricDifference, T, _, k => k ∈ ks T
  | .isSubset, T, _, k => k ∈ ks T
  | .isSuperset, T, _, k => k ∈ ks T
  | .isDisjoint, T, _, k => k ∈ ks T
  | .eq, T, _, k => k ∈ ks T

/-- **The reference is the mathematical one (contents).** After a call that returned, the key set of
    the target is the mathematical result. -/
theorem Call.mem_after {p : Elem → Bool} {op : SetOp} {T O T' : AL} {r : Ret}
    (h : Call p op T O (.ret r) T') (k : Nat) : k ∈ ks T' ↔ memAfter p op T O k := by
  cases h <;> simp only [memAfter]
  case insertNew hf hp => rw [ks_perm hp, mem_ks_cons]; rfl
  case insertOld k0 kid old hf hp =>
    rw [ks_perm hp, ks_setVal]
    have := find_some_ks hf
    constructor
    · exact Or.inr
    · rintro (rfl | h); exact this; exact h
  case remove hp => rw [ks_perm hp, mem_ks_erase]
  case take hp => rw [ks_perm hp, mem_ks_erase]
  case replaceNew hf hp => rw [ks_perm hp, mem_ks_cons]
  case replaceOld e old hf hp =>
    rw [ks_perm hp, mem_ks_cons, mem_ks_erase]
    have := find_some_ks hf
    by_cases hk : k = e.k
    · subst hk; tauto
    · tauto
  case getOrInsertNew hf hp => rw [ks_perm hp, mem_ks_cons]
  case getOrInsertOld e old hf hp =>
    rw [ks_perm hp]
    have := find_some_ks hf
    constructor
    · exact Or.inr
    · rintro (rfl | h); exact this; exact h
  case getOrInsertWithOld k0 k2 kid2 old hf hp =>
    rw [ks_perm hp]
    have := find_some_ks hf
    constructor
    · exact Or.inr
    · rintro (rfl | h); exact this; exact h
  case getOrInsertWithNew hf hp => rw [ks_perm hp, mem_ks_cons]; rfl
  case contains hp => rw [ks_perm hp]
  case get hp => rw [ks_perm hp]
  case entryInsertNew hf hp => rw [ks_perm hp, mem_ks_cons]
  case entryInsertOld e old hf hp =>
    rw [ks_perm hp]
    have := find_some_ks hf
    constructor
    · exact Or.inr
    · rintro (rfl | h); exact this; exact h
  case entryOrInsertNew hf hp => rw [ks_perm hp, mem_ks_cons]
  case entryOrInsertOld e old hf hp =>
    rw [ks_perm hp]
    have := find_some_ks hf
    constructor
    · exact Or.inr
    · rintro (rfl | h); exact this; exact h
  case entryRemove hp => rw [ks_perm hp, mem_ks_erase]
  case retain hp => rw [ks_perm hp]
  case clear => simp [ks]
  case reserve hp => rw [ks_perm hp]
  case shrinkTo hp => rw [ks_perm hp]
  case union hp => rw [ks_perm hp]
  case intersection hp => rw [ks_perm hp]
  case difference hp => rw [ks_perm hp]
  case symmetricDifference hp => rw [ks_perm hp]
  case isSubset hp => rw [ks_perm hp]
  case isSuperset hp => rw [ks_perm hp]
  case isDisjoint hp => rw [ks_perm hp]
  case eq hp => rw [ks_perm hp]
  case bitorAssign hk => exact hk k
  case bitandAssign hp =>
    rw [ks_perm hp, ks_filter T (fun k => decide (k ∈ ks O)), List.mem_filter, decide_eq_true_eq]
  case subAssign hp => rw [ks_perm hp, mem_ks_diffSpec]
  case bitxorAssign hk => exact hk k


theorem keysNodup_filter {T : AL} (hT : T.keysNodup) (q : Elem → Bool) :
    AL.keysNodup (T.filter q) :=
  (List.filter_sublist.map _).nodup hT

/-- Key-distinctness is preserved by every reference outcome (normal or panic). -/
theorem Call.keysNodup {p : Elem → Bool} {op : SetOp} {T O T' : AL} {o : Map.Obs}
    (h : Call p op T O o T') (hT : T.keysNodup) : T'.keysNodup := by
  cases h
  case insertNew hf hp => exact AL.keysNodup_perm hp.symm (AL.keysNodup_cons hT hf)
  case insertOld hf hp => exact AL.keysNodup_perm hp.symm (AL.keysNodup_setVal hT _ _ _)
  case remove hp => exact AL.keysNodup_perm hp.symm (AL.keysNodup_erase hT _)
  case take hp => exact AL.keysNodup_perm hp.symm (AL.keysNodup_erase hT _)
  case replaceNew hf hp => exact AL.keysNodup_perm hp.symm (AL.keysNodup_cons hT hf)
  case replaceOld e old hf hp =>
    refine AL.keysNodup_perm hp.symm (AL.keysNodup_cons (AL.keysNodup_erase hT _) ?_)
    exact AL.find_none_iff.mpr (fun x hx => (sh_mem_erase.mp hx).2)
  case getOrInsertNew hf hp => exact AL.keysNodup_perm hp.symm (AL.keysNodup_cons hT hf)
  case getOrInsertOld hp => exact AL.keysNodup_perm hp.symm hT
  case getOrInsertWithOld hp => exact AL.keysNodup_perm hp.symm hT
  case getOrInsertWithNew hf hp => exact AL.keysNodup_perm hp.symm (AL.keysNodup_cons hT hf)
  case getOrInsertWithBad hp => exact AL.keysNodup_perm hp.symm hT
  case contains hp => exact AL.keysNodup_perm hp.symm hT
  case get hp => exact AL.keysNodup_perm hp.symm hT
  case entryInsertNew hf hp => exact AL.keysNodup_perm hp.symm (AL.keysNodup_cons hT hf)
  case entryInsertOld hp => exact AL.keysNodup_perm hp.symm hT
  case entryOrInsertNew hf hp => exact AL.keysNodup_perm hp.symm (AL.keysNodup_cons hT hf)
  case entryOrInsertOld hp => exact AL.keysNodup_perm hp.symm hT
  case entryRemove hp => exact AL.keysNodup_perm hp.symm (AL.keysNodup_erase hT _)
  case retain hp => exact AL.keysNodup_perm hp.symm (keysNodup_filter hT _)
  case clear => exact AL.keysNodup_nil
  case reserve hp => exact AL.keysNodup_perm hp.symm hT
  case shrinkTo hp => exact AL.keysNodup_perm hp.symm hT
  case union hp => exact AL.keysNodup_perm hp.symm hT
  case intersection hp => exact AL.keysNodup_perm hp.symm hT
  case difference hp => exact AL.keysNodup_perm hp.symm hT
  case symmetricDifference hp => exact AL.keysNodup_perm hp.symm hT
  case isSubset hp => exact AL.keysNodup_perm hp.symm hT
  case isSuperset hp => exact AL.keysNodup_perm hp.symm hT
  case isDisjoint hp => exact AL.keysNodup_perm hp.symm hT
  case eq hp => exact AL.keysNodup_perm hp.symm hT
  case bitorAssign => assumption
  case bitandAssign hp => exact AL.keysNodup_perm hp.symm (keysNodup_filter hT _)
  case subAssign hp => exact AL.keysNodup_perm hp.symm (keysNodup_filter hT _)
  case bitxorAssign => assumption
  case overflow hp => exact AL.keysNodup_perm hp.symm hT
  case bitorOverflow => assumption
  case bitxorOverflow => assumption

/-- The mathematical answer of the calls that return a `bool`. -/
def boolSpec : SetOp → AL → AL → Bool
  | .insert k _, T, _ => decide (k ∉ ks T)
  | .remove k, T, _ => decide (k ∈ ks T)
  | .contains k, T, _ => decide (k ∈ ks T)
  | .isSubset, T, O => decide (∀ k ∈ ks T, k ∈ ks O)
  | .isSuperset, T, O => decide (∀ k ∈ ks O, k ∈ ks T)
  | .isDisjoint, T, O => decide (∀ k ∈ ks T, k ∉ ks O)
  | .eq, T, O => decide ((∀ k ∈ ks T, k ∈ ks O) ∧ ∀ k ∈ ks O, k ∈ ks T)
  | _, _, _ => false

/-- **The reference is the mathematical one (answers).** `insert` reports "was absent",
    `remove`/`contains` report presence, `is_subset`/`is_superset`/`is_disjoint`/`==` the
    mathematical relation between the two key sets. -/
theorem Call.ret_bool {p : Elem → Bool} {op : SetOp} {T O T' : AL} {b : Bool}
    (h : Call p op T O (.ret (.bool b)) T') : b = boolSpec op T O := by
  cases h <;> simp only [boolSpec]
  case insertNew hf hp => simp [find_none_ks hf]
  case insertOld hf hp => simp [find_some_ks hf]
  case remove => exact find_isSome _ _
  case contains => exact find_isSome _ _

/-- `==` answers "same key set". -/
theorem boolSpec_eq (T O : AL) : boolSpec .eq T O = true ↔ ∀ k, k ∈ ks T ↔ k ∈ ks O := by
  simp only [boolSpec, decide_eq_true_eq]
  constructor
  · rintro ⟨h1, h2⟩ k; exact ⟨h1 k, h2 k⟩
  · intro hh; exact ⟨fun k hk => (hh k).mp hk, fun k hk => (hh k).mpr hk⟩

/-- The mathematical result of the four lazy binary iterators (membership of a key). -/
def listSpec : SetOp → AL → AL → Nat → Prop
  | .union, T, O, k => k ∈ ks T ∨ k ∈ ks O
  | .intersection, T, O, k => k ∈ ks T ∧ k ∈ ks O
  | .difference, T, O, k => k ∈ ks T ∧ k ∉ ks O
  | .symmetricDifference, T, O, k => (k ∈ ks T ∧ k ∉ ks O) ∨ (k ∈ ks O ∧ k ∉ ks T)
  | _, _, _, _ => False

/-- **The reference is the mathematical one (lazy set algebra).** The list a binary iterator yields
    is duplicate-free in keys and contains exactly the keys of the mathematical result; every
    yielded object is an object of one of the two operands. -/
theorem Call.ret_elems {p : Elem → Bool} {op : SetOp} {T O T' ys : AL}
    (h : Call p op T O (.ret (.elems ys)) T') (hT : T.keysNodup) (hO : O.keysNodup) :
    (ks ys).Nodup ∧ (∀ k, k ∈ ks ys ↔ listSpec op T O k) ∧ ∀ y ∈ ys, y ∈ T ∨ y ∈ O := by
  cases h <;> simp only [listSpec]
  case union hy hp =>
    refine ⟨(hy.map _).nodup_iff.mpr (unionSpec_nodup hT hO),
      fun k => by rw [ks_perm hy, mem_ks_unionSpec], fun y hy' => ?_⟩
    have := hy.mem_iff.mp hy'
    unfold unionSpec at this
    split at this <;> simp only [List.mem_append, List.mem_filter] at this <;> tauto
  case intersection hy hp =>
    refine ⟨(hy.map _).nodup_iff.mpr (interSpec_nodup hT hO),
      fun k => by rw [ks_perm hy, mem_ks_interSpec], fun y hy' => ?_⟩
    have := hy.mem_iff.mp hy'
    unfold interSpec at this
    split at this <;> simp only [List.mem_filter] at this <;> tauto
  case difference hy hp =>
    refine ⟨(hy.map _).nodup_iff.mpr (diffSpec_nodup hT O),
      fun k => by rw [ks_perm hy, mem_ks_diffSpec], fun y hy' => ?_⟩
    have := hy.mem_iff.mp hy'
    unfold diffSpec at this
    simp only [List.mem_filter] at this
    tauto
  case symmetricDifference hy hp =>
    refine ⟨(hy.map _).nodup_iff.mpr (symSpec_nodup hT hO),
      fun k => by rw [ks_perm hy, mem_ks_symSpec], fun y hy' => ?_⟩
    have := hy.mem_iff.mp hy'
    unfold symSpec diffSpec at this
    simp only [List.mem_append, List.mem_filter] at this
    tauto

/-- Calls that hand an object back (`take`, `get`, `replace`, `entry…remove`, `get_or_insert…`,
    `entry…insert`) hand back an object with the probed key that is stored in the set before or
    after the call; `take`/`get`/`replace`/`entryRemove` return exactly `T.find key` (constructors
    `take`, `get`, `replaceOld`, `entryRemove`). -/
theorem Call.ret_elem {p : Elem → Bool} {op : SetOp} {T O T' : AL} {e : Elem}
    (h : Call p op T O (.ret (.elem (some e))) T') : e ∈ T ∨ e ∈ T' := by
  generalize hr : Ret.elem (some e) = r at h
  cases h <;> try (cases hr; done)
  case take k hp => injection hr with hr; exact Or.inl (find_some_mem hr.symm).1
  case get k hp => injection hr with hr; exact Or.inl (find_some_mem hr.symm).1
  case entryRemove x hp => injection hr with hr; exact Or.inl (find_some_mem hr.symm).1
  case replaceOld x old hf hp => cases hr; exact Or.inl (find_some_mem hf).1
  case getOrInsertNew x hf hp => cases hr; exact Or.inr (hp.mem_iff.mpr List.mem_cons_self)
  case getOrInsertOld x old hf hp => cases hr; exact Or.inl (find_some_mem hf).1
  case getOrInsertWithOld k k2 kid2 old hf hp => cases hr; exact Or.inl (find_some_mem hf).1
  case getOrInsertWithNew k kid2 hf hp =>
    cases hr; exact Or.inr (hp.mem_iff.mpr List.mem_cons_self)
  case entryInsertNew x hf hp => cases hr; exact Or.inr (hp.mem_iff.mpr List.mem_cons_self)
  case entryInsertOld x old hf hp => cases hr; exact Or.inl (find_some_mem hf).1

/-- A panicking call leaves the target with its own contents (capacity overflow of a one-element
    call, the `notequiv` refusal of `get_or_insert_with`) or, for `|=` / `^=` stopped part-way, with
    keys of the two operands only. -/
theorem Call.panic_keys {p : Elem → Bool} {op : SetOp} {T O T' : AL} {c : String}
    (h : Call p op T O (.panic c) T') : ∀ k, k ∈ ks T' → k ∈ ks T ∨ k ∈ ks O := by
  intro k hk
  cases h
  case getOrInsertWithBad hp => exact Or.inl ((ks_perm hp k).mp hk)
  case overflow hp => exact Or.inl ((ks_perm hp k).mp hk)
  case bitorOverflow hk' => exact hk' k hk
  case bitxorOverflow hk' => exact hk' k hk

end MSet


namespace MSet


theorem filter_in_perm {T T2 O O2 : AL} (hT : T.Perm T2) (hO : O.Perm O2) :
    (T.filter fun e => decide (e.k ∈ ks O)).Perm (T2.filter fun e => decide (e.k ∈ ks O2)) := by
  have : (fun e : Elem => decide (e.k ∈ ks O)) = (fun e : Elem => decide (e.k ∈ ks O2)) := by
    funext e; exact decide_eq_decide.mpr (ks_perm hO e.k)
  rw [this]; exact hT.filter _

theorem diffSpec_perm {T T2 O O2 : AL} (hT : T.Perm T2) (hO : O.Perm O2) :
    (diffSpec T O).Perm (diffSpec T2 O2) := by
  unfold diffSpec
  have : (fun e : Elem => decide (e.k ∉ ks O)) = (fun e : Elem => decide (e.k ∉ ks O2)) := by
    funext e; exact decide_eq_decide.mpr (not_congr (ks_perm hO e.k))
  rw [this]; exact hT.filter _

theorem unionSpec_perm {T T2 O O2 : AL} (hT : T.Perm T2) (hO : O.Perm O2) :
    (unionSpec T O).Perm (unionSpec T2 O2) := by
  unfold unionSpec
  rw [hT.length_eq, hO.length_eq]
  split
  · exact hO.append (diffSpec_perm hT hO)
  · exact hT.append (diffSpec_perm hO hT)

theorem interSpec_perm {T T2 O O2 : AL} (hT : T.Perm T2) (hO : O.Perm O2) :
    (interSpec T O).Perm (interSpec T2 O2) := by
  unfold interSpec
  rw [hT.length_eq, hO.length_eq]
  split
  · exact filter_in_perm hT hO
  · exact filter_in_perm hO hT

theorem symSpec_perm {T T2 O O2 : AL} (hT : T.Perm T2) (hO : O.Perm O2) :
    (symSpec T O).Perm (symSpec T2 O2) :=
  (diffSpec_perm hT hO).append (diffSpec_perm hO hT)

/-- **The reference is a relation on SETS**: it does not depend on the order in which the two
    operands are listed. -/
theorem Call.perm {p : Elem → Bool} {op : SetOp} {T O T' T2 O2 : AL} {o : Map.Obs}
    (h : Call p op T O o T') (hT : T.Perm T2) (hO : O.Perm O2) (hn : T.keysNodup) :
    Call p op T2 O2 o T' := by
  have hf : ∀ k, T.find k = T2.find k := AL.perm_find hT hn
  have hks : ∀ k, k ∈ ks T ↔ k ∈ ks T2 := ks_perm hT
  have hko : ∀ k, k ∈ ks O ↔ k ∈ ks O2 := ks_perm hO
  cases h
  case insertNew k kid h' hp => exact .insertNew k kid (by rw [← hf]; exact h') (hp.trans (hT.cons _))
  case insertOld k kid old h' hp =>
    exact .insertOld k kid old (by rw [← hf]; exact h') (hp.trans (AL.perm_setVal hT _ _ _))
  case remove k hp => rw [hf]; exact .remove k (hp.trans (AL.perm_erase hT k))
  case take k hp => rw [hf]; exact .take k (hp.trans (AL.perm_erase hT k))
  case replaceNew e h' hp => exact .replaceNew e (by rw [← hf]; exact h') (hp.trans (hT.cons _))
  case replaceOld e old h' hp =>
    exact .replaceOld e old (by rw [← hf]; exact h') (hp.trans ((AL.perm_erase hT _).cons _))
  case getOrInsertNew e h' hp =>
    exact .getOrInsertNew e (by rw [← hf]; exact h') (hp.trans (hT.cons _))
  case getOrInsertOld e old h' hp => exact .getOrInsertOld e old (by rw [← hf]; exact h') (hp.trans hT)
  case getOrInsertWithOld k k2 kid2 old h' hp =>
    exact .getOrInsertWithOld k k2 kid2 old (by rw [← hf]; exact h') (hp.trans hT)
  case getOrInsertWithNew k kid2 h' hp =>
    exact .getOrInsertWithNew k kid2 (by rw [← hf]; exact h') (hp.trans (hT.cons _))
  case getOrInsertWithBad k k2 kid2 _ _ hp =>
    exact .getOrInsertWithBad k k2 kid2 (by rw [← hf]; assumption) (by assumption) (hp.trans hT)
  case contains k hp => rw [hf]; exact .contains k (hp.trans hT)
  case get k hp => rw [hf]; exact .get k (hp.trans hT)
  case entryInsertNew e h' hp =>
    exact .entryInsertNew e (by rw [← hf]; exact h') (hp.trans (hT.cons _))
  case entryInsertOld e old h' hp => exact .entryInsertOld e old (by rw [← hf]; exact h') (hp.trans hT)
  case entryOrInsertNew e h' hp =>
    exact .entryOrInsertNew e (by rw [← hf]; exact h') (hp.trans (hT.cons _))
  case entryOrInsertOld e old h' hp =>
    exact .entryOrInsertOld e old (by rw [← hf]; exact h') (hp.trans hT)
  case entryRemove e hp => rw [hf]; exact .entryRemove e (hp.trans (AL.perm_erase hT _))
  case retain hp => exact .retain (hp.trans (hT.filter _))
  case clear => exact .clear
  case reserve n hp => exact .reserve n (hp.trans hT)
  case shrinkTo m hp => exact .shrinkTo m (hp.trans hT)
  case union ys hy hp => exact .union (hy.trans (unionSpec_perm hT hO)) (hp.trans hT)
  case intersection ys hy hp => exact .intersection (hy.trans (interSpec_perm hT hO)) (hp.trans hT)
  case difference ys hy hp => exact .difference (hy.trans (diffSpec_perm hT hO)) (hp.trans hT)
  case symmetricDifference ys hy hp =>
    exact .symmetricDifference (hy.trans (symSpec_perm hT hO)) (hp.trans hT)
  case isSubset hp =>
    have : decide (∀ k ∈ ks T, k ∈ ks O) = decide (∀ k ∈ ks T2, k ∈ ks O2) :=
      decide_eq_decide.mpr ⟨fun h k hk => (hko k).mp (h k ((hks k).mpr hk)),
        fun h k hk => (hko k).mpr (h k ((hks k).mp hk))⟩
    rw [this]; exact .isSubset (hp.trans hT)
  case isSuperset hp =>
    have : decide (∀ k ∈ ks O, k ∈ ks T) = decide (∀ k ∈ ks O2, k ∈ ks T2) :=
      decide_eq_decide.mpr ⟨fun h k hk => (hks k).mp (h k ((hko k).mpr hk)),
        fun h k hk => (hks k).mpr (h k ((hko k).mp hk))⟩
    rw [this]; exact .isSuperset (hp.trans hT)
  case isDisjoint hp =>
    have : decide (∀ k ∈ ks T, k ∉ ks O) = decide (∀ k ∈ ks T2, k ∉ ks O2) :=
      decide_eq_decide.mpr ⟨fun h k hk hk' => h k ((hks k).mpr hk) ((hko k).mpr hk'),
        fun h k hk hk' => h k ((hks k).mp hk) ((hko k).mp hk')⟩
    rw [this]; exact .isDisjoint (hp.trans hT)
  case eq hp =>
    have : decide ((∀ k ∈ ks T, k ∈ ks O) ∧ ∀ k ∈ ks O, k ∈ ks T) =
        decide ((∀ k ∈ ks T2, k ∈ ks O2) ∧ ∀ k ∈ ks O2, k ∈ ks T2) :=
      decide_eq_decide.mpr ⟨fun h => ⟨fun k hk => (hko k).mp (h.1 k ((hks k).mpr hk)),
          fun k hk => (hks k).mp (h.2 k ((hko k).mpr hk))⟩,
        fun h => ⟨fun k hk => (hko k).mpr (h.1 k ((hks k).mp hk)),
          fun k hk => (hks k).mpr (h.2 k ((hko k).mp hk))⟩⟩
    rw [this]; exact .eq (hp.trans hT)
  case bitorAssign =>
    rename_i hn' hsub hk
    exact .bitorAssign (fun x hx => hsub x (hT.mem_iff.mpr hx)) hn'
      (fun k => by rw [hk, hks, hko])
  case bitandAssign hp => exact .bitandAssign (hp.trans (filter_in_perm hT hO))
  case subAssign hp => exact .subAssign (hp.trans (diffSpec_perm hT hO))
  case bitxorAssign =>
    rename_i hn' hkeep hk
    exact .bitxorAssign
      (fun x hx hxo => hkeep x (hT.mem_iff.mpr hx) (fun h => hxo ((hko _).mp h))) hn'
      (fun k => by rw [hk, hks, hko])
  case overflow ho hp => exact .overflow _ ho (hp.trans hT)
  case bitorOverflow =>
    rename_i hn' hsub hk
    exact .bitorOverflow (fun x hx => hsub x (hT.mem_iff.mpr hx)) hn'
      (fun k hk' => by rw [← hks, ← hko]; exact hk k hk')
  case bitxorOverflow =>
    rename_i hn' hkeep hk
    exact .bitxorOverflow
      (fun x hx hxo => hkeep x (hT.mem_iff.mpr hx) (fun h => hxo ((hko _).mp h))) hn'
      (fun k hk' => by rw [← hks, ← hko]; exact hk k hk')

theorem Step.keysNodup {p : Elem → Bool} {c : SetCall} {s s' : AL × AL} {o : Map.Obs}
    (h : Step p c s o s') (h1 : s.1.keysNodup) (h2 : s.2.keysNodup) :
    s'.1.keysNodup ∧ s'.2.keysNodup := by
  obtain ⟨side, op⟩ := c
  cases side with
  | a =>
    obtain ⟨hc, he⟩ : Call p op s.1 s.2 o s'.1 ∧ s'.2 = s.2 := h
    exact ⟨hc.keysNodup h1, by rw [he]; exact h2⟩
  | b =>
    obtain ⟨hc, he⟩ : Call p op s.2 s.1 o s'.2 ∧ s'.1 = s.1 := h
    exact ⟨by rw [he]; exact h1, hc.keysNodup h2⟩

/-- Both sets stay key-distinct along every reference trace. -/
theorem Trace.keysNodup {p : Elem → Bool} {cs : List SetCall} {s sf : AL × AL} {os : List Map.Obs}
    (h : Trace p cs s os sf) (h1 : s.1.keysNodup) (h2 : s.2.keysNodup) :
    sf.1.keysNodup ∧ sf.2.keysNodup := by
  induction h with
  | nil s => exact ⟨h1, h2⟩
  | cons hs _ ih =>
    obtain ⟨a, b⟩ := hs.keysNodup h1 h2
    exact ih a b

end MSet

/-! ## 5. non-vacuity: a concrete lawful environment and an evaluated history -/

/-- A colliding hash: tag `k % 128`, start bucket determined by `k % 4` only. -/
def shH : Nat → Nat := fun k => k * 2 ^ 57 + k % 4
/-- `retain` keeps the odd keys. -/
def shP : Elem → Bool := fun e => e.k % 2 == 1
def shEnv : Env :=
  { hash := fun _ k => some (shH k), eq := fun _ q e => some (q == e.k),
    clone := fun c _ => some (1000 + c, 0), pred := fun _ e => some (shP e, 7),
    allocOk := fun _ => true, dropPanics := fun _ _ => false }

theorem shEnv_lawful : SetLawfulP shEnv shH shP :=
  { hash := fun _ _ => rfl, eq := fun _ _ _ => rfl, clone := fun c _ => ⟨(1000 + c, 0), rfl⟩,
    pred := fun _ _ => ⟨7, rfl⟩, alloc := fun _ => rfl, nodropPanic := fun _ _ => rfl }

def shCfg : Cfg := { ops := Sse2.ops }
def shCfgG : Cfg := { ops := Generic.ops }

/-- A history over two sets: `a = {1..5}`, `b = {3,4,9}`; binary calls in both directions
    (`|a| > |b|` for side `a`, `|a| < |b|` for side `b`), single-set calls, growth, the assigning
    forms in both size regimes. -/
def shOps : List SetCall :=
  [⟨.a, .insert 1 11⟩, ⟨.a, .insert 2 12⟩, ⟨.a, .insert 3 13⟩, ⟨.a, .insert 4 14⟩,
   ⟨.a, .insert 5 15⟩, ⟨.a, .insert 3 99⟩,
   ⟨.b, .insert 3 23⟩, ⟨.b, .insert 4 24⟩, ⟨.b, .insert 9 29⟩,
   ⟨.a, .union⟩, ⟨.b, .union⟩, ⟨.a, .intersection⟩, ⟨.b, .intersection⟩,
   ⟨.a, .difference⟩, ⟨.b, .difference⟩, ⟨.a, .symmetricDifference⟩,
   ⟨.a, .isSubset⟩, ⟨.a, .isSuperset⟩, ⟨.b, .isDisjoint⟩, ⟨.a, .eq⟩,
   ⟨.a, .remove 1⟩, ⟨.a, .take 2⟩, ⟨.a, .replace ⟨5, 55, 0, 0⟩⟩,
   ⟨.a, .getOrInsert ⟨6, 16, 0, 0⟩⟩, ⟨.a, .getOrInsertWith 7 8 17⟩, ⟨.a, .getOrInsertWith 7 7 17⟩,
   ⟨.b, .entryInsert ⟨9, 39, 0, 0⟩⟩, ⟨.b, .entryOrInsert ⟨10, 30, 0, 0⟩⟩,
   ⟨.b, .entryRemove ⟨3, 33, 0, 0⟩⟩, ⟨.a, .contains 3⟩, ⟨.b, .get 4⟩,
   ⟨.b, .bitorAssign⟩, ⟨.a, .isSubset⟩, ⟨.b, .shrinkTo 0⟩, ⟨.a, .reserve 20⟩,
   ⟨.a, .bitxorAssign⟩, ⟨.b, .subAssign⟩, ⟨.b, .retain⟩, ⟨.a, .bitorAssign⟩, ⟨.a, .bitandAssign⟩,
   ⟨.b, .eq⟩, ⟨.a, .insert 12 112⟩, ⟨.a, .subAssign⟩, ⟨.b, .isDisjoint⟩,
   ⟨.b, .clear⟩, ⟨.b, .insert 12 212⟩, ⟨.b, .isSubset⟩, ⟨.b, .eq⟩]

/-- Observation as numbers: `[0]` unit, `[1, b]` bool, `[2]` `None`, `[3, k, kid]` an object,
    `4 :: (k, kid)*` a list, `[9, |class|]` a panic. -/
def shCode : Map.Obs → List Nat
  | .ret .unit => [0]
  | .ret (.bool b) => [1, b.toNat]
  | .ret (.elem none) => [2]
  | .ret (.elem (some e)) => [3, e.k, e.kid]
  | .ret (.elems l) => 4 :: l.flatMap fun e => [e.k, e.kid]
  | .panic c => [9, c.length]
  | _ => [99]

/-- `(observations, final a, final b)` of the example history. -/
def shSummary (cfg : Cfg) : Option (List (List Nat) × List (Nat × Nat) × List (Nat × Nat)) :=
  (Set.run2 cfg shEnv shOps (Set.Pair.new cfg)).map fun (os, sf) =>
    (os.map shCode, sf.a.elems.map (fun e => (e.k, e.kid)), sf.b.elems.map (fun e => (e.k, e.kid)))

def shExpected : Option (List (List Nat) × List (Nat × Nat) × List (Nat × Nat)) :=
  some
  ([[1, 1], [1, 1], [1, 1], [1, 1], [1, 1], [1, 0], [1, 1], [1, 1], [1, 1],
      -- a = {1..5} (|a| = 5), b = {3, 4, 9} (|b| = 3)
      [4, 4, 14, 1, 11, 2, 12, 3, 13, 5, 15, 9, 29],   -- a.union(&b): |a| > |b|, all of a, then 9
      [4, 4, 14, 1, 11, 2, 12, 3, 13, 5, 15, 9, 29],   -- b.union(&a): |b| < |a|, the same chain
      [4, 4, 24, 3, 23], [4, 4, 24, 3, 23],           -- intersection: b's objects (smaller set)
      [4, 1, 11, 2, 12, 5, 15], [4, 9, 29],           -- a ∖ b, b ∖ a
      [4, 1, 11, 2, 12, 5, 15, 9, 29],                -- a △ b
      [1, 0], [1, 0], [1, 0], [1, 0],                 -- ⊆, ⊇, disjoint, ==
      [1, 1], [3, 2, 12], [3, 5, 15], [3, 6, 16],     -- remove 1, take 2, replace 5, get_or_insert 6
      [9, 8], [3, 7, 17],                             -- get_or_insert_with 7 ↦ 8: "notequiv"; 7 ↦ 7
      [3, 9, 29], [0], [3, 3, 23], [1, 1], [3, 4, 24],
      [0], [1, 1], [0], [0],                          -- b |= a; a ⊆ b; shrink_to_fit; reserve(20)
      [0], [0], [0], [0], [0],                        -- a ^= b; b -= a; b.retain(odd); a |= b; a &= b
      [1, 1], [1, 1], [0], [1, 1], [0], [1, 1], [1, 1], [1, 1]],
    [(12, 112)], [(12, 212)])

/-- The example history evaluated (SSE2 scanner): observations and final sets. -/
theorem sh_example_sse2 : shSummary shCfg = shExpected := by decide +kernel

/-- The same with the portable scanner. -/
theorem sh_example_generic : shSummary shCfgG = shExpected := by decide +kernel

/-- The history theorem applies to the example (non-vacuity of the hypotheses): its observations
    are those of a reference trace ending in the final contents. -/
theorem sh_example_refines (hs : GroupSpec Sse2.ops) :
    ∃ os sf, Set.run2 shCfg shEnv shOps (Set.Pair.new shCfg) = some (os, sf) ∧
      MSet.Trace shP shOps ([], []) os (sf.a.elems, sf.b.elems) :=
  have hc : CfgOk shCfg := ⟨hs, by decide⟩
  let ⟨os, sf, h1, h2, _⟩ := set_history_refines hc shEnv_lawful shOps (Set.Pair.new shCfg) rfl rfl
  ⟨os, sf, h1, h2⟩

#print axioms call_refines
#print axioms set_step_refines
#print axioms set_history_refines_from
#print axioms set_history_refines
#print axioms reachable_pairs_satisfy_C07
#print axioms C07_on_reachable_pairs
#print axioms two_histories_satisfy_C07
#print axioms MSet.Call.mem_after
#print axioms MSet.Call.ret_bool
#print axioms MSet.Call.ret_elems
#print axioms MSet.Call.ret_elem
#print axioms MSet.Call.keysNodup
#print axioms MSet.Call.panic_keys
#print axioms MSet.Call.perm
#print axioms MSet.Trace.keysNodup
#print axioms MSet.mem_ks_unionSpec
#print axioms MSet.unionSpec_nodup
#print axioms sh_example_sse2
#print axioms sh_example_generic
#print axioms sh_example_refines

end Hb
