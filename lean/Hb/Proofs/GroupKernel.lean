/-
Kernel-only proofs of the portable scanner's word tricks (property C18).

`Hb/Proofs/Group.lean` §3 characterises the word tricks of `control/group/generic.rs` on packed
bytes with `bv_decide` (axioms `…_native.bv_decide.ax_*`).  This file re-proves the same eight
statements (suffix `_k`) with kernel-checked reasoning only:

* a packed word is read bit by bit: `pack_getLsbD` (bit `8*k+j` of `pack c0 … c7` is bit `j` of
  `c_k`), proved through `Nat.testBit_two_pow_mul_add`;
* every word inside `BITMASK_MASK` is the mask of its eight lane bits (`mask_form_k`), so each
  mask-valued trick is determined by eight concrete bits;
* the carry-free parts that only depend on eight Booleans are closed by `decide +kernel`
  (256 cases);
* the borrow chain of `cmp - 0x0101…01` is handled on `Nat` by `omega` (`tag_nat`).

No SAT certificate and no compiled evaluation is trusted: the printed axioms are a subset of
`propext`, `Classical.choice`, `Quot.sound`.
-/
import Hb.Proofs.Group
namespace Hb
namespace GroupKernel

/-! ### reading the bits of a packed word -/

theorem testBit_cons (c : BitVec 8) (r j : Nat) :
    (c.toNat + 256 * r).testBit j = if j < 8 then c.getLsbD j else r.testBit (j - 8) := by
  rw [Nat.add_comm]
  exact Nat.testBit_two_pow_mul_add r (i := 8) c.isLt j

/-- Little-endian value of a list of bytes. -/
def packN : List (BitVec 8) → Nat
  | [] => 0
  | c :: l => c.toNat + 256 * packN l

theorem packN_testBit : ∀ (l : List (BitVec 8)) (k j : Nat), j < 8 →
    (packN l).testBit (8 * k + j) = (l.getD k 0#8).getLsbD j
  | [], k, j, _ => by simp [packN]
  | c :: l, 0, j, hj => by
    rw [packN, testBit_cons]
    simp [hj]
  | c :: l, k + 1, j, hj => by
    rw [packN, testBit_cons, if_neg (by omega), show 8 * (k + 1) + j - 8 = 8 * k + j by omega,
      packN_testBit l k j hj, List.getD_cons_succ]

theorem pack_packN (c0 c1 c2 c3 c4 c5 c6 c7 : BitVec 8) :
    (pack c0 c1 c2 c3 c4 c5 c6 c7).toNat = packN [c0, c1, c2, c3, c4, c5, c6, c7] := by
  rw [pack_toNat]
  simp only [packN, Nat.reducePow]
  omega

/-- Bit `8*k+j` of a packed word is bit `j` of byte `k`. -/
theorem pack_getLsbD (c0 c1 c2 c3 c4 c5 c6 c7 : BitVec 8) (k j : Nat) (hj : j < 8) :
    (pack c0 c1 c2 c3 c4 c5 c6 c7).getLsbD (8 * k + j) =
      ([c0, c1, c2, c3, c4, c5, c6, c7].getD k 0#8).getLsbD j := by
  rw [← BitVec.testBit_toNat, pack_packN, packN_testBit _ _ _ hj]

/-- Two words are equal if they agree on every bit `8*k+j`. -/
theorem word_ext (a b : BitVec 64)
    (h : ∀ k j, k < 8 → j < 8 → a.getLsbD (8 * k + j) = b.getLsbD (8 * k + j)) : a = b := by
  apply BitVec.eq_of_getLsbD_eq
  intro i hi
  have := h (i / 8) (i % 8) (by omega) (by omega)
  rwa [show 8 * (i / 8) + i % 8 = i by omega] at this

/-- Bit 7 of every lane. -/
theorem pack_bits7 (c0 c1 c2 c3 c4 c5 c6 c7 : BitVec 8) :
    (pack c0 c1 c2 c3 c4 c5 c6 c7).getLsbD 7 = c0.getLsbD 7 ∧
    (pack c0 c1 c2 c3 c4 c5 c6 c7).getLsbD 15 = c1.getLsbD 7 ∧
    (pack c0 c1 c2 c3 c4 c5 c6 c7).getLsbD 23 = c2.getLsbD 7 ∧
    (pack c0 c1 c2 c3 c4 c5 c6 c7).getLsbD 31 = c3.getLsbD 7 ∧
    (pack c0 c1 c2 c3 c4 c5 c6 c7).getLsbD 39 = c4.getLsbD 7 ∧
    (pack c0 c1 c2 c3 c4 c5 c6 c7).getLsbD 47 = c5.getLsbD 7 ∧
    (pack c0 c1 c2 c3 c4 c5 c6 c7).getLsbD 55 = c6.getLsbD 7 ∧
    (pack c0 c1 c2 c3 c4 c5 c6 c7).getLsbD 63 = c7.getLsbD 7 :=
  ⟨pack_getLsbD c0 c1 c2 c3 c4 c5 c6 c7 0 7 (by decide),
   pack_getLsbD c0 c1 c2 c3 c4 c5 c6 c7 1 7 (by decide),
   pack_getLsbD c0 c1 c2 c3 c4 c5 c6 c7 2 7 (by decide),
   pack_getLsbD c0 c1 c2 c3 c4 c5 c6 c7 3 7 (by decide),
   pack_getLsbD c0 c1 c2 c3 c4 c5 c6 c7 4 7 (by decide),
   pack_getLsbD c0 c1 c2 c3 c4 c5 c6 c7 5 7 (by decide),
   pack_getLsbD c0 c1 c2 c3 c4 c5 c6 c7 6 7 (by decide),
   pack_getLsbD c0 c1 c2 c3 c4 c5 c6 c7 7 7 (by decide)⟩

/-- Bit 6 of every lane. -/
theorem pack_bits6 (c0 c1 c2 c3 c4 c5 c6 c7 : BitVec 8) :
    (pack c0 c1 c2 c3 c4 c5 c6 c7).getLsbD 6 = c0.getLsbD 6 ∧
    (pack c0 c1 c2 c3 c4 c5 c6 c7).getLsbD 14 = c1.getLsbD 6 ∧
    (pack c0 c1 c2 c3 c4 c5 c6 c7).getLsbD 22 = c2.getLsbD 6 ∧
    (pack c0 c1 c2 c3 c4 c5 c6 c7).getLsbD 30 = c3.getLsbD 6 ∧
    (pack c0 c1 c2 c3 c4 c5 c6 c7).getLsbD 38 = c4.getLsbD 6 ∧
    (pack c0 c1 c2 c3 c4 c5 c6 c7).getLsbD 46 = c5.getLsbD 6 ∧
    (pack c0 c1 c2 c3 c4 c5 c6 c7).getLsbD 54 = c6.getLsbD 6 ∧
    (pack c0 c1 c2 c3 c4 c5 c6 c7).getLsbD 62 = c7.getLsbD 6 :=
  ⟨pack_getLsbD c0 c1 c2 c3 c4 c5 c6 c7 0 6 (by decide),
   pack_getLsbD c0 c1 c2 c3 c4 c5 c6 c7 1 6 (by decide),
   pack_getLsbD c0 c1 c2 c3 c4 c5 c6 c7 2 6 (by decide),
   pack_getLsbD c0 c1 c2 c3 c4 c5 c6 c7 3 6 (by decide),
   pack_getLsbD c0 c1 c2 c3 c4 c5 c6 c7 4 6 (by decide),
   pack_getLsbD c0 c1 c2 c3 c4 c5 c6 c7 5 6 (by decide),
   pack_getLsbD c0 c1 c2 c3 c4 c5 c6 c7 6 6 (by decide),
   pack_getLsbD c0 c1 c2 c3 c4 c5 c6 c7 7 6 (by decide)⟩

/-- `^^^` acts byte-wise on packed words. -/
theorem pack_xor (a0 a1 a2 a3 a4 a5 a6 a7 b0 b1 b2 b3 b4 b5 b6 b7 : BitVec 8) :
    pack a0 a1 a2 a3 a4 a5 a6 a7 ^^^ pack b0 b1 b2 b3 b4 b5 b6 b7 =
      pack (a0 ^^^ b0) (a1 ^^^ b1) (a2 ^^^ b2) (a3 ^^^ b3) (a4 ^^^ b4) (a5 ^^^ b5) (a6 ^^^ b6)
        (a7 ^^^ b7) := by
  apply word_ext
  intro k j hk hj
  rw [BitVec.getLsbD_xor, pack_getLsbD _ _ _ _ _ _ _ _ k j hj, pack_getLsbD _ _ _ _ _ _ _ _ k j hj,
    pack_getLsbD _ _ _ _ _ _ _ _ k j hj]
  match k, hk with
  | 0, _ | 1, _ | 2, _ | 3, _ | 4, _ | 5, _ | 6, _ | 7, _ =>
    simp only [List.getD_cons_zero, List.getD_cons_succ, BitVec.getLsbD_xor]

/-! ### words inside `BITMASK_MASK` -/

theorem M_bit : ∀ i, i < 64 → (0x8080808080808080#64).getLsbD i = decide (i % 8 = 7) := by
  decide

theorem hi_bit (e : Bool) (j : Nat) : (hi e).getLsbD j = (decide (j = 7) && e) := by
  have h8 : ∀ j, j < 8 → (0x80#8).getLsbD j = decide (j = 7) := by decide
  cases e
  · simp [hi]
  · by_cases hj : j < 8
    · simp [hi, h8 j hj]
    · have : ¬ j = 7 := by omega
      simp [hi, BitVec.getLsbD_of_ge _ _ (Nat.le_of_not_lt hj), this]

theorem getD_hi (e0 e1 e2 e3 e4 e5 e6 e7 : Bool) : ∀ k : Nat,
    [hi e0, hi e1, hi e2, hi e3, hi e4, hi e5, hi e6, hi e7].getD k 0#8 =
      hi ([e0, e1, e2, e3, e4, e5, e6, e7].getD k false)
  | 0 | 1 | 2 | 3 | 4 | 5 | 6 | 7 => rfl
  | _ + 8 => rfl

theorem maskOf_getLsbD (e0 e1 e2 e3 e4 e5 e6 e7 : Bool) (k j : Nat) (hj : j < 8) :
    (maskOf e0 e1 e2 e3 e4 e5 e6 e7).getLsbD (8 * k + j) =
      (decide (j = 7) && [e0, e1, e2, e3, e4, e5, e6, e7].getD k false) := by
  rw [maskOf, pack_getLsbD _ _ _ _ _ _ _ _ k j hj, getD_hi, hi_bit]

theorem in_mask (a : BitVec 64) :
    a &&& 0x8080808080808080#64 &&& ~~~0x8080808080808080#64 = 0#64 := by
  rw [BitVec.and_assoc, BitVec.and_not_self]
  simp

end GroupKernel
open GroupKernel

/-- Any word inside `BITMASK_MASK` is the mask of its lane bits. -/
theorem mask_form_k (m : BitVec 64) (h : m &&& ~~~0x8080808080808080#64 = 0#64) :
    m = maskOf (m.getLsbD 7) (m.getLsbD 15) (m.getLsbD 23) (m.getLsbD 31) (m.getLsbD 39)
      (m.getLsbD 47) (m.getLsbD 55) (m.getLsbD 63) := by
  apply word_ext
  intro k j hk hj
  rw [maskOf_getLsbD _ _ _ _ _ _ _ _ k j hj]
  by_cases h7 : j = 7
  · subst h7
    match k, hk with
    | 0, _ | 1, _ | 2, _ | 3, _ | 4, _ | 5, _ | 6, _ | 7, _ =>
      simp only [List.getD_cons_zero, List.getD_cons_succ, decide_true, Bool.true_and]
  · have hb := congrArg (fun x => x.getLsbD (8 * k + j)) h
    simp only [BitVec.getLsbD_and, BitVec.getLsbD_not, BitVec.getLsbD_zero,
      M_bit _ (show 8 * k + j < 64 by omega)] at hb
    have hm : ¬ (8 * k + j) % 8 = 7 := by omega
    have hl : 8 * k + j < 64 := by omega
    simp only [hm, h7, hl, decide_false, decide_true, Bool.not_false, Bool.and_true,
      Bool.false_and] at hb ⊢
    exact hb

namespace GroupKernel

/-! ### the mask-valued tricks -/

theorem msb8 (c : BitVec 8) : c.getLsbD 7 = c.msb := (BitVec.msb_eq_getLsbD_last c).symm

theorem M_bits7 :
    (0x8080808080808080#64).getLsbD 7 = true ∧ (0x8080808080808080#64).getLsbD 15 = true ∧
    (0x8080808080808080#64).getLsbD 23 = true ∧ (0x8080808080808080#64).getLsbD 31 = true ∧
    (0x8080808080808080#64).getLsbD 39 = true ∧ (0x8080808080808080#64).getLsbD 47 = true ∧
    (0x8080808080808080#64).getLsbD 55 = true ∧ (0x8080808080808080#64).getLsbD 63 = true := by
  decide

end GroupKernel

theorem bv_matchSpecial_k (c0 c1 c2 c3 c4 c5 c6 c7 : BitVec 8) :
    Generic.matchSpecialWord (pack c0 c1 c2 c3 c4 c5 c6 c7) =
      maskOf c0.msb c1.msb c2.msb c3.msb c4.msb c5.msb c6.msb c7.msb := by
  unfold Generic.matchSpecialWord
  rw [rep128, mask_form_k _ (in_mask _)]
  obtain ⟨p0, p1, p2, p3, p4, p5, p6, p7⟩ := pack_bits7 c0 c1 c2 c3 c4 c5 c6 c7
  obtain ⟨m0, m1, m2, m3, m4, m5, m6, m7⟩ := M_bits7
  simp only [BitVec.getLsbD_and, p0, p1, p2, p3, p4, p5, p6, p7, m0, m1, m2, m3, m4, m5, m6, m7,
    Bool.and_true, msb8]

namespace GroupKernel

theorem M_maskOf : 0x8080808080808080#64 = maskOf true true true true true true true true := by
  decide

theorem maskOf_invert : ∀ e0 e1 e2 e3 e4 e5 e6 e7 : Bool,
    maskOf e0 e1 e2 e3 e4 e5 e6 e7 ^^^ maskOf true true true true true true true true =
      maskOf (!e0) (!e1) (!e2) (!e3) (!e4) (!e5) (!e6) (!e7) := by
  decide +kernel

end GroupKernel

theorem bv_matchFull_k (c0 c1 c2 c3 c4 c5 c6 c7 : BitVec 8) :
    Generic.matchFullWord (pack c0 c1 c2 c3 c4 c5 c6 c7) =
      maskOf (!c0.msb) (!c1.msb) (!c2.msb) (!c3.msb) (!c4.msb) (!c5.msb) (!c6.msb) (!c7.msb) := by
  unfold Generic.matchFullWord
  rw [bv_matchSpecial_k, rep128, M_maskOf, maskOf_invert]

namespace GroupKernel

/-- On a valid control byte, bits 7 and 6 are both set exactly for `EMPTY`. -/
theorem vb_empty (c : BitVec 8) (h : VB c) : (c.getLsbD 7 && c.getLsbD 6) = (c == 255#8) := by
  rcases h with h | h | h
  · have hlt : c.toNat < 128 := by rw [BitVec.lt_def] at h; exact h
    have h7 : c.getLsbD 7 = false := by
      rw [msb8, BitVec.msb_eq_decide]
      simp only [decide_eq_false_iff_not]
      show ¬ 2 ^ 7 ≤ c.toNat
      omega
    have hne : (c == 255#8) = false := by
      apply beq_eq_false_iff_ne.2
      intro e; rw [e] at hlt; exact absurd hlt (by decide)
    rw [h7, hne, Bool.false_and]
  · subst h; decide
  · subst h; decide

end GroupKernel

theorem bv_matchEmpty_k (c0 c1 c2 c3 c4 c5 c6 c7 : BitVec 8)
    (h0 : VB c0) (h1 : VB c1) (h2 : VB c2) (h3 : VB c3) (h4 : VB c4) (h5 : VB c5) (h6 : VB c6)
    (h7 : VB c7) :
    Generic.matchEmptyWord (pack c0 c1 c2 c3 c4 c5 c6 c7) =
      maskOf (c0 == 255#8) (c1 == 255#8) (c2 == 255#8) (c3 == 255#8) (c4 == 255#8) (c5 == 255#8)
        (c6 == 255#8) (c7 == 255#8) := by
  unfold Generic.matchEmptyWord
  rw [rep128, mask_form_k _ (in_mask _)]
  obtain ⟨p0, p1, p2, p3, p4, p5, p6, p7⟩ := pack_bits7 c0 c1 c2 c3 c4 c5 c6 c7
  obtain ⟨q0, q1, q2, q3, q4, q5, q6, q7⟩ := pack_bits6 c0 c1 c2 c3 c4 c5 c6 c7
  obtain ⟨m0, m1, m2, m3, m4, m5, m6, m7⟩ := M_bits7
  simp only [BitVec.getLsbD_and, BitVec.getLsbD_shiftLeft, Nat.reduceLT, Nat.reduceSub,
    decide_true, decide_false, Bool.not_false, Bool.true_and,
    p0, p1, p2, p3, p4, p5, p6, p7, q0, q1, q2, q3, q4, q5, q6, q7,
    m0, m1, m2, m3, m4, m5, m6, m7, Bool.and_true,
    vb_empty _ h0, vb_empty _ h1, vb_empty _ h2, vb_empty _ h3, vb_empty _ h4, vb_empty _ h5,
    vb_empty _ h6, vb_empty _ h7]

namespace GroupKernel

/-- `~~~full + (full >>> 7)` on a lane mask: `0x7f + 1` and `0xff + 0` never carry. -/
theorem convert_mask : ∀ e0 e1 e2 e3 e4 e5 e6 e7 : Bool,
    ~~~(maskOf (!e0) (!e1) (!e2) (!e3) (!e4) (!e5) (!e6) (!e7)) +
      (maskOf (!e0) (!e1) (!e2) (!e3) (!e4) (!e5) (!e6) (!e7) >>> 7) =
      pack (if e0 then 255#8 else 128#8) (if e1 then 255#8 else 128#8)
        (if e2 then 255#8 else 128#8) (if e3 then 255#8 else 128#8)
        (if e4 then 255#8 else 128#8) (if e5 then 255#8 else 128#8)
        (if e6 then 255#8 else 128#8) (if e7 then 255#8 else 128#8) := by
  decide +kernel

end GroupKernel

theorem bv_convert_k (c0 c1 c2 c3 c4 c5 c6 c7 : BitVec 8) :
    Generic.convertWord (pack c0 c1 c2 c3 c4 c5 c6 c7) =
      pack (if c0.msb then 255#8 else 128#8) (if c1.msb then 255#8 else 128#8)
        (if c2.msb then 255#8 else 128#8) (if c3.msb then 255#8 else 128#8)
        (if c4.msb then 255#8 else 128#8) (if c5.msb then 255#8 else 128#8)
        (if c6.msb then 255#8 else 128#8) (if c7.msb then 255#8 else 128#8) := by
  have hfull : ~~~pack c0 c1 c2 c3 c4 c5 c6 c7 &&& Generic.rep 128 =
      maskOf (!c0.msb) (!c1.msb) (!c2.msb) (!c3.msb) (!c4.msb) (!c5.msb) (!c6.msb)
        (!c7.msb) := by
    rw [rep128, mask_form_k _ (in_mask _)]
    obtain ⟨p0, p1, p2, p3, p4, p5, p6, p7⟩ := pack_bits7 c0 c1 c2 c3 c4 c5 c6 c7
    obtain ⟨m0, m1, m2, m3, m4, m5, m6, m7⟩ := M_bits7
    simp only [BitVec.getLsbD_and, BitVec.getLsbD_not, Nat.reduceLT, decide_true, Bool.true_and,
      p0, p1, p2, p3, p4, p5, p6, p7, m0, m1, m2, m3, m4, m5, m6, m7, Bool.and_true, msb8]
  show ~~~(~~~pack c0 c1 c2 c3 c4 c5 c6 c7 &&& Generic.rep 128) +
    ((~~~pack c0 c1 c2 c3 c4 c5 c6 c7 &&& Generic.rep 128) >>> 7) = _
  rw [hfull, convert_mask]


/-! ### the tag match: `(cmp - 0x0101…01) &&& ~~~cmp &&& 0x8080…80` -/

theorem bv_tag_inMask_k (c0 c1 c2 c3 c4 c5 c6 c7 t : BitVec 8) :
    tagWord c0 c1 c2 c3 c4 c5 c6 c7 t &&& ~~~0x8080808080808080#64 = 0#64 :=
  in_mask _

namespace GroupKernel

/-- The value of `pack d0 … d7 - 0x0101010101010101` (wrapping), on `Nat`. -/
def S (d0 d1 d2 d3 d4 d5 d6 d7 : Nat) : Nat :=
  (18446744073709551616 - 72340172838076673 +
    (d0 + d1 * 256 + d2 * 65536 + d3 * 16777216 + d4 * 4294967296 + d5 * 1099511627776 +
      d6 * 281474976710656 + d7 * 72057594037927936)) % 18446744073709551616

theorem sub_toNat (d0 d1 d2 d3 d4 d5 d6 d7 : BitVec 8) :
    (pack d0 d1 d2 d3 d4 d5 d6 d7 - 0x0101010101010101#64).toNat = S d0.toNat d1.toNat d2.toNat d3.toNat d4.toNat d5.toNat d6.toNat d7.toNat := by
  rw [BitVec.toNat_sub, pack_toNat]
  simp only [S, BitVec.toNat_ofNat, Nat.reducePow, Nat.reduceMod]

/-- The borrow chain of the byte-wise decrement, lane by lane: a lane whose byte is `0` gets its
    top bit set; a lane `< 128` whose top bit is set is `0`, or is `1` and received a borrow,
    which can only originate in a lower lane equal to `0`. -/
theorem tag_nat (d0 d1 d2 d3 d4 d5 d6 d7 : Nat) (h0 : d0 < 256) (h1 : d1 < 256) (h2 : d2 < 256) (h3 : d3 < 256) (h4 : d4 < 256) (h5 : d5 < 256) (h6 : d6 < 256) (h7 : d7 < 256) :
    ((d0 = 0 → S d0 d1 d2 d3 d4 d5 d6 d7 / 2 ^ 7 % 2 = 1) ∧
     (d1 = 0 → S d0 d1 d2 d3 d4 d5 d6 d7 / 2 ^ 15 % 2 = 1) ∧
     (d2 = 0 → S d0 d1 d2 d3 d4 d5 d6 d7 / 2 ^ 23 % 2 = 1) ∧
     (d3 = 0 → S d0 d1 d2 d3 d4 d5 d6 d7 / 2 ^ 31 % 2 = 1) ∧
     (d4 = 0 → S d0 d1 d2 d3 d4 d5 d6 d7 / 2 ^ 39 % 2 = 1) ∧
     (d5 = 0 → S d0 d1 d2 d3 d4 d5 d6 d7 / 2 ^ 47 % 2 = 1) ∧
     (d6 = 0 → S d0 d1 d2 d3 d4 d5 d6 d7 / 2 ^ 55 % 2 = 1) ∧
     (d7 = 0 → S d0 d1 d2 d3 d4 d5 d6 d7 / 2 ^ 63 % 2 = 1)) ∧
    ((S d0 d1 d2 d3 d4 d5 d6 d7 / 2 ^ 7 % 2 = 1 → d0 < 128 → d0 = 0) ∧
     (S d0 d1 d2 d3 d4 d5 d6 d7 / 2 ^ 15 % 2 = 1 → d1 < 128 →
      d1 = 0 ∨ (d1 = 1 ∧ (d0 = 0))) ∧
     (S d0 d1 d2 d3 d4 d5 d6 d7 / 2 ^ 23 % 2 = 1 → d2 < 128 →
      d2 = 0 ∨ (d2 = 1 ∧ (d0 = 0 ∨ d1 = 0))) ∧
     (S d0 d1 d2 d3 d4 d5 d6 d7 / 2 ^ 31 % 2 = 1 → d3 < 128 →
      d3 = 0 ∨ (d3 = 1 ∧ (d0 = 0 ∨ d1 = 0 ∨ d2 = 0))) ∧
     (S d0 d1 d2 d3 d4 d5 d6 d7 / 2 ^ 39 % 2 = 1 → d4 < 128 →
      d4 = 0 ∨ (d4 = 1 ∧ (d0 = 0 ∨ d1 = 0 ∨ d2 = 0 ∨ d3 = 0))) ∧
     (S d0 d1 d2 d3 d4 d5 d6 d7 / 2 ^ 47 % 2 = 1 → d5 < 128 →
      d5 = 0 ∨ (d5 = 1 ∧ (d0 = 0 ∨ d1 = 0 ∨ d2 = 0 ∨ d3 = 0 ∨ d4 = 0))) ∧
     (S d0 d1 d2 d3 d4 d5 d6 d7 / 2 ^ 55 % 2 = 1 → d6 < 128 →
      d6 = 0 ∨ (d6 = 1 ∧ (d0 = 0 ∨ d1 = 0 ∨ d2 = 0 ∨ d3 = 0 ∨ d4 = 0 ∨ d5 = 0))) ∧
     (S d0 d1 d2 d3 d4 d5 d6 d7 / 2 ^ 63 % 2 = 1 → d7 < 128 →
      d7 = 0 ∨ (d7 = 1 ∧ (d0 = 0 ∨ d1 = 0 ∨ d2 = 0 ∨ d3 = 0 ∨ d4 = 0 ∨ d5 = 0 ∨ d6 = 0)))) := by
  simp only [S]
  refine ⟨⟨?_, ?_, ?_, ?_, ?_, ?_, ?_, ?_⟩, ⟨?_, ?_, ?_, ?_, ?_, ?_, ?_, ?_⟩⟩ <;> omega

/-- A lane bit of the tag-match word. -/
theorem tag_lane (d0 d1 d2 d3 d4 d5 d6 d7 : BitVec 8) (i : Nat) (dk : BitVec 8) (hi : i < 64)
    (hM : (0x8080808080808080#64).getLsbD i = true)
    (hp : (pack d0 d1 d2 d3 d4 d5 d6 d7).getLsbD i = dk.getLsbD 7) :
    ((pack d0 d1 d2 d3 d4 d5 d6 d7 - 0x0101010101010101#64) &&& ~~~pack d0 d1 d2 d3 d4 d5 d6 d7 &&&
      0x8080808080808080#64).getLsbD i = true ↔
    (S d0.toNat d1.toNat d2.toNat d3.toNat d4.toNat d5.toNat d6.toNat d7.toNat / 2 ^ i % 2 = 1 ∧ dk.toNat < 128) := by
  rw [BitVec.getLsbD_and, BitVec.getLsbD_and, hM, BitVec.getLsbD_not, hp, ← BitVec.testBit_toNat,
    sub_toNat, Nat.testBit_eq_decide_div_mod_eq, msb8, BitVec.msb_eq_decide]
  have e : (2 : Nat) ^ (8 - 1) = 128 := by decide
  simp only [e, hi, decide_true, Bool.true_and, Bool.and_true, Bool.and_eq_true, decide_eq_true_eq,
    Bool.not_eq_true', decide_eq_false_iff_not, Nat.not_le]

theorem xz (c t : BitVec 8) : (c ^^^ t).toNat = 0 ↔ c = t := by
  constructor
  · intro h
    exact BitVec.xor_eq_zero_iff.1 (BitVec.eq_of_toNat_eq h)
  · intro h; subst h; simp

theorem x1 (c t : BitVec 8) (h : (c ^^^ t).toNat = 1) : c = t ^^^ 1#8 := by
  have h1 : c ^^^ t = 1#8 := BitVec.eq_of_toNat_eq h
  have h2 : c = (c ^^^ t) ^^^ t := by rw [BitVec.xor_assoc, BitVec.xor_self, BitVec.xor_zero]
  rw [h2, h1, BitVec.xor_comm]

theorem tagWord_xor (c0 c1 c2 c3 c4 c5 c6 c7 t : BitVec 8) :
    tagWord c0 c1 c2 c3 c4 c5 c6 c7 t =
      (pack (c0 ^^^ t) (c1 ^^^ t) (c2 ^^^ t) (c3 ^^^ t) (c4 ^^^ t) (c5 ^^^ t) (c6 ^^^ t) (c7 ^^^ t) - 0x0101010101010101#64) &&&
        ~~~pack (c0 ^^^ t) (c1 ^^^ t) (c2 ^^^ t) (c3 ^^^ t) (c4 ^^^ t) (c5 ^^^ t) (c6 ^^^ t) (c7 ^^^ t) &&& 0x8080808080808080#64 := by
  simp only [tagWord, pack_xor]

end GroupKernel

theorem bv_tag_complete_k (c0 c1 c2 c3 c4 c5 c6 c7 t : BitVec 8) :
    (c0 = t → (tagWord c0 c1 c2 c3 c4 c5 c6 c7 t).getLsbD 7 = true) ∧
    (c1 = t → (tagWord c0 c1 c2 c3 c4 c5 c6 c7 t).getLsbD 15 = true) ∧
    (c2 = t → (tagWord c0 c1 c2 c3 c4 c5 c6 c7 t).getLsbD 23 = true) ∧
    (c3 = t → (tagWord c0 c1 c2 c3 c4 c5 c6 c7 t).getLsbD 31 = true) ∧
    (c4 = t → (tagWord c0 c1 c2 c3 c4 c5 c6 c7 t).getLsbD 39 = true) ∧
    (c5 = t → (tagWord c0 c1 c2 c3 c4 c5 c6 c7 t).getLsbD 47 = true) ∧
    (c6 = t → (tagWord c0 c1 c2 c3 c4 c5 c6 c7 t).getLsbD 55 = true) ∧
    (c7 = t → (tagWord c0 c1 c2 c3 c4 c5 c6 c7 t).getLsbD 63 = true) := by
  rw [tagWord_xor]
  obtain ⟨p0, p1, p2, p3, p4, p5, p6, p7⟩ := pack_bits7 (c0 ^^^ t) (c1 ^^^ t) (c2 ^^^ t) (c3 ^^^ t) (c4 ^^^ t) (c5 ^^^ t) (c6 ^^^ t) (c7 ^^^ t)
  obtain ⟨m0, m1, m2, m3, m4, m5, m6, m7⟩ := M_bits7
  have l0 := tag_lane (c0 ^^^ t) (c1 ^^^ t) (c2 ^^^ t) (c3 ^^^ t) (c4 ^^^ t) (c5 ^^^ t) (c6 ^^^ t) (c7 ^^^ t) 7 (c0 ^^^ t) (by decide) m0 p0
  have l1 := tag_lane (c0 ^^^ t) (c1 ^^^ t) (c2 ^^^ t) (c3 ^^^ t) (c4 ^^^ t) (c5 ^^^ t) (c6 ^^^ t) (c7 ^^^ t) 15 (c1 ^^^ t) (by decide) m1 p1
  have l2 := tag_lane (c0 ^^^ t) (c1 ^^^ t) (c2 ^^^ t) (c3 ^^^ t) (c4 ^^^ t) (c5 ^^^ t) (c6 ^^^ t) (c7 ^^^ t) 23 (c2 ^^^ t) (by decide) m2 p2
  have l3 := tag_lane (c0 ^^^ t) (c1 ^^^ t) (c2 ^^^ t) (c3 ^^^ t) (c4 ^^^ t) (c5 ^^^ t) (c6 ^^^ t) (c7 ^^^ t) 31 (c3 ^^^ t) (by decide) m3 p3
  have l4 := tag_lane (c0 ^^^ t) (c1 ^^^ t) (c2 ^^^ t) (c3 ^^^ t) (c4 ^^^ t) (c5 ^^^ t) (c6 ^^^ t) (c7 ^^^ t) 39 (c4 ^^^ t) (by decide) m4 p4
  have l5 := tag_lane (c0 ^^^ t) (c1 ^^^ t) (c2 ^^^ t) (c3 ^^^ t) (c4 ^^^ t) (c5 ^^^ t) (c6 ^^^ t) (c7 ^^^ t) 47 (c5 ^^^ t) (by decide) m5 p5
  have l6 := tag_lane (c0 ^^^ t) (c1 ^^^ t) (c2 ^^^ t) (c3 ^^^ t) (c4 ^^^ t) (c5 ^^^ t) (c6 ^^^ t) (c7 ^^^ t) 55 (c6 ^^^ t) (by decide) m6 p6
  have l7 := tag_lane (c0 ^^^ t) (c1 ^^^ t) (c2 ^^^ t) (c3 ^^^ t) (c4 ^^^ t) (c5 ^^^ t) (c6 ^^^ t) (c7 ^^^ t) 63 (c7 ^^^ t) (by decide) m7 p7
  obtain ⟨⟨a0, a1, a2, a3, a4, a5, a6, a7⟩, _⟩ := tag_nat (c0 ^^^ t).toNat (c1 ^^^ t).toNat (c2 ^^^ t).toNat (c3 ^^^ t).toNat (c4 ^^^ t).toNat (c5 ^^^ t).toNat (c6 ^^^ t).toNat (c7 ^^^ t).toNat
    (c0 ^^^ t).isLt (c1 ^^^ t).isLt (c2 ^^^ t).isLt (c3 ^^^ t).isLt (c4 ^^^ t).isLt (c5 ^^^ t).isLt (c6 ^^^ t).isLt (c7 ^^^ t).isLt
  refine ⟨?_, ?_, ?_, ?_, ?_, ?_, ?_, ?_⟩
  · intro e; exact l0.2 ⟨a0 ((xz c0 t).2 e), by rw [(xz c0 t).2 e]; decide⟩
  · intro e; exact l1.2 ⟨a1 ((xz c1 t).2 e), by rw [(xz c1 t).2 e]; decide⟩
  · intro e; exact l2.2 ⟨a2 ((xz c2 t).2 e), by rw [(xz c2 t).2 e]; decide⟩
  · intro e; exact l3.2 ⟨a3 ((xz c3 t).2 e), by rw [(xz c3 t).2 e]; decide⟩
  · intro e; exact l4.2 ⟨a4 ((xz c4 t).2 e), by rw [(xz c4 t).2 e]; decide⟩
  · intro e; exact l5.2 ⟨a5 ((xz c5 t).2 e), by rw [(xz c5 t).2 e]; decide⟩
  · intro e; exact l6.2 ⟨a6 ((xz c6 t).2 e), by rw [(xz c6 t).2 e]; decide⟩
  · intro e; exact l7.2 ⟨a7 ((xz c7 t).2 e), by rw [(xz c7 t).2 e]; decide⟩

/-- Soundness up to the borrow caveat: a reported lane holds the tag, or holds `tag ^ 1` and a
    lower lane holds the tag. (No validity assumption is needed.) -/
theorem bv_tag_sound_k (c0 c1 c2 c3 c4 c5 c6 c7 t : BitVec 8) :
    ((tagWord c0 c1 c2 c3 c4 c5 c6 c7 t).getLsbD 7 = true → c0 = t) ∧
    ((tagWord c0 c1 c2 c3 c4 c5 c6 c7 t).getLsbD 15 = true →
      c1 = t ∨ (c1 = t ^^^ 1#8 ∧ c0 = t)) ∧
    ((tagWord c0 c1 c2 c3 c4 c5 c6 c7 t).getLsbD 23 = true →
      c2 = t ∨ (c2 = t ^^^ 1#8 ∧ (c0 = t ∨ c1 = t))) ∧
    ((tagWord c0 c1 c2 c3 c4 c5 c6 c7 t).getLsbD 31 = true →
      c3 = t ∨ (c3 = t ^^^ 1#8 ∧ (c0 = t ∨ c1 = t ∨ c2 = t))) ∧
    ((tagWord c0 c1 c2 c3 c4 c5 c6 c7 t).getLsbD 39 = true →
      c4 = t ∨ (c4 = t ^^^ 1#8 ∧ (c0 = t ∨ c1 = t ∨ c2 = t ∨ c3 = t))) ∧
    ((tagWord c0 c1 c2 c3 c4 c5 c6 c7 t).getLsbD 47 = true →
      c5 = t ∨ (c5 = t ^^^ 1#8 ∧ (c0 = t ∨ c1 = t ∨ c2 = t ∨ c3 = t ∨ c4 = t))) ∧
    ((tagWord c0 c1 c2 c3 c4 c5 c6 c7 t).getLsbD 55 = true →
      c6 = t ∨ (c6 = t ^^^ 1#8 ∧ (c0 = t ∨ c1 = t ∨ c2 = t ∨ c3 = t ∨ c4 = t ∨ c5 = t))) ∧
    ((tagWord c0 c1 c2 c3 c4 c5 c6 c7 t).getLsbD 63 = true →
      c7 = t ∨ (c7 = t ^^^ 1#8 ∧ (c0 = t ∨ c1 = t ∨ c2 = t ∨ c3 = t ∨ c4 = t ∨ c5 = t ∨ c6 = t))) := by
  rw [tagWord_xor]
  obtain ⟨p0, p1, p2, p3, p4, p5, p6, p7⟩ := pack_bits7 (c0 ^^^ t) (c1 ^^^ t) (c2 ^^^ t) (c3 ^^^ t) (c4 ^^^ t) (c5 ^^^ t) (c6 ^^^ t) (c7 ^^^ t)
  obtain ⟨m0, m1, m2, m3, m4, m5, m6, m7⟩ := M_bits7
  have l0 := tag_lane (c0 ^^^ t) (c1 ^^^ t) (c2 ^^^ t) (c3 ^^^ t) (c4 ^^^ t) (c5 ^^^ t) (c6 ^^^ t) (c7 ^^^ t) 7 (c0 ^^^ t) (by decide) m0 p0
  have l1 := tag_lane (c0 ^^^ t) (c1 ^^^ t) (c2 ^^^ t) (c3 ^^^ t) (c4 ^^^ t) (c5 ^^^ t) (c6 ^^^ t) (c7 ^^^ t) 15 (c1 ^^^ t) (by decide) m1 p1
  have l2 := tag_lane (c0 ^^^ t) (c1 ^^^ t) (c2 ^^^ t) (c3 ^^^ t) (c4 ^^^ t) (c5 ^^^ t) (c6 ^^^ t) (c7 ^^^ t) 23 (c2 ^^^ t) (by decide) m2 p2
  have l3 := tag_lane (c0 ^^^ t) (c1 ^^^ t) (c2 ^^^ t) (c3 ^^^ t) (c4 ^^^ t) (c5 ^^^ t) (c6 ^^^ t) (c7 ^^^ t) 31 (c3 ^^^ t) (by decide) m3 p3
  have l4 := tag_lane (c0 ^^^ t) (c1 ^^^ t) (c2 ^^^ t) (c3 ^^^ t) (c4 ^^^ t) (c5 ^^^ t) (c6 ^^^ t) (c7 ^^^ t) 39 (c4 ^^^ t) (by decide) m4 p4
  have l5 := tag_lane (c0 ^^^ t) (c1 ^^^ t) (c2 ^^^ t) (c3 ^^^ t) (c4 ^^^ t) (c5 ^^^ t) (c6 ^^^ t) (c7 ^^^ t) 47 (c5 ^^^ t) (by decide) m5 p5
  have l6 := tag_lane (c0 ^^^ t) (c1 ^^^ t) (c2 ^^^ t) (c3 ^^^ t) (c4 ^^^ t) (c5 ^^^ t) (c6 ^^^ t) (c7 ^^^ t) 55 (c6 ^^^ t) (by decide) m6 p6
  have l7 := tag_lane (c0 ^^^ t) (c1 ^^^ t) (c2 ^^^ t) (c3 ^^^ t) (c4 ^^^ t) (c5 ^^^ t) (c6 ^^^ t) (c7 ^^^ t) 63 (c7 ^^^ t) (by decide) m7 p7
  obtain ⟨_, ⟨b0, b1, b2, b3, b4, b5, b6, b7⟩⟩ := tag_nat (c0 ^^^ t).toNat (c1 ^^^ t).toNat (c2 ^^^ t).toNat (c3 ^^^ t).toNat (c4 ^^^ t).toNat (c5 ^^^ t).toNat (c6 ^^^ t).toNat (c7 ^^^ t).toNat
    (c0 ^^^ t).isLt (c1 ^^^ t).isLt (c2 ^^^ t).isLt (c3 ^^^ t).isLt (c4 ^^^ t).isLt (c5 ^^^ t).isLt (c6 ^^^ t).isLt (c7 ^^^ t).isLt
  refine ⟨?_, ?_, ?_, ?_, ?_, ?_, ?_, ?_⟩
  · intro hb; exact (xz c0 t).1 (b0 (l0.1 hb).1 (l0.1 hb).2)
  · intro hb
    have := b1 (l1.1 hb).1 (l1.1 hb).2
    simp only [xz] at this
    exact this.imp id (And.imp (x1 c1 t) id)
  · intro hb
    have := b2 (l2.1 hb).1 (l2.1 hb).2
    simp only [xz] at this
    exact this.imp id (And.imp (x1 c2 t) id)
  · intro hb
    have := b3 (l3.1 hb).1 (l3.1 hb).2
    simp only [xz] at this
    exact this.imp id (And.imp (x1 c3 t) id)
  · intro hb
    have := b4 (l4.1 hb).1 (l4.1 hb).2
    simp only [xz] at this
    exact this.imp id (And.imp (x1 c4 t) id)
  · intro hb
    have := b5 (l5.1 hb).1 (l5.1 hb).2
    simp only [xz] at this
    exact this.imp id (And.imp (x1 c5 t) id)
  · intro hb
    have := b6 (l6.1 hb).1 (l6.1 hb).2
    simp only [xz] at this
    exact this.imp id (And.imp (x1 c6 t) id)
  · intro hb
    have := b7 (l7.1 hb).1 (l7.1 hb).2
    simp only [xz] at this
    exact this.imp id (And.imp (x1 c7 t) id)

end Hb

#print axioms Hb.bv_matchEmpty_k
#print axioms Hb.bv_matchSpecial_k
#print axioms Hb.bv_matchFull_k
#print axioms Hb.bv_convert_k
#print axioms Hb.mask_form_k
#print axioms Hb.bv_tag_inMask_k
#print axioms Hb.bv_tag_complete_k
#print axioms Hb.bv_tag_sound_k
